// Engine "trie" (properties C01 and C10).
//
// TestTrieReplay steps TLC-generated behaviours of spec/trie/LegacyTrie.tla and Trie2.tla through
// the REAL core/trie and core/trie2 tries in lockstep (small height and height 251 under a
// bit-expansion embedding) and compares, after every step, the value of every model key, the
// stored node table / database paths, and after every commit the real root with the independent
// refimpl.Root of the model's key/value set and with the other implementation's root.
package trie

import (
	"bytes"
	"fmt"
	"math/big"
	"math/rand"
	"sort"
	"strings"
	"testing"

	"github.com/NethermindEth/juno/core/crypto"
	"github.com/NethermindEth/juno/core/felt"
	"github.com/NethermindEth/juno/core/trie"
	"github.com/NethermindEth/juno/core/trie2"
	"github.com/NethermindEth/juno/core/trie2/triedb/rawdb"
	"github.com/NethermindEth/juno/core/trie2/trienode"
	"github.com/NethermindEth/juno/core/trie2/trieutils"
	"github.com/NethermindEth/juno/db"
	"github.com/NethermindEth/juno/db/memory"
	_ "github.com/NethermindEth/juno/encoder/registry"

	"verifharness/internal/refimpl"
	"verifharness/internal/vh"
)

// ------------------------------------------------------------------ model behaviours (JSON of the MBT modules)

type action struct {
	Name string `json:"name"`
	K    []int  `json:"k,omitempty"`
	V    int    `json:"v,omitempty"`
}

type presKV struct {
	K []int `json:"k"`
	V int   `json:"v"`
}

type lnode struct {
	P []int `json:"p"`
	L []int `json:"l"`
	R []int `json:"r"`
}

type step struct {
	A action   `json:"a"`
	P []presKV `json:"pres"`
	// LegacyTrie projection
	Nodes     []lnode `json:"nodes,omitempty"`
	RootKey   []int   `json:"rootKey,omitempty"`
	Committed bool    `json:"committed,omitempty"`
	// Trie2 projection
	DbPaths [][]int `json:"dbpaths,omitempty"`
	Orphans [][]int `json:"orphans,omitempty"`
	Dead    bool    `json:"dead,omitempty"`
	// value-domain dimension (FeltDomain.tla): magnitude class of every abstract value 1..MaxV
	Mag []string `json:"mag,omitempty"`
}

// variant fixes everything the concretisation needs, so that a replay file is exact.
type variant struct {
	Height   int    `json:"height"`   // real trie height
	Pos      []int  `json:"pos"`      // real bit position (0 = most significant) of every model bit
	Pad      string `json:"pad"`      // padding bits (decimal) laid under the model bits
	Poseidon bool   `json:"poseidon"` // hash function
	Flush    bool   `json:"flush"`    // legacy: Reopen flushes the batch and starts a new one
	Owner    bool   `json:"owner"`    // trie2: contract-storage trie (owner-prefixed keys) instead of the class trie
	Sweep    bool   `json:"sweep"`    // Get every model key on trie2 after every step (resolves everything)
	ValSeed  int64  `json:"valSeed"`
	Poison   bool   `json:"poison"` // run on the poisoning store (lent Get buffers are scribbled after the callback)
	// magnitude class of abstract value x at Mag[x-1] (FeltDomain.tla); empty = every value below 2^248.
	// Taken from the behaviour (its generator chose the assignment) unless given explicitly.
	Mag []string `json:"mag,omitempty"`
}

type trieInput struct {
	Kind       string    `json:"kind"` // "legacy" | "trie2": which MBT module produced the behaviours
	H          int       `json:"h"`
	Behaviours [][]step  `json:"behaviours"`
	Variants   []variant `json:"variants,omitempty"` // explicit (replay) or derived from the seed
}

// ------------------------------------------------------------------ concretisation

func (v *variant) key(bits []int) *felt.Felt {
	k, _ := new(big.Int).SetString(v.Pad, 10)
	k = new(big.Int).Set(k)
	for i, b := range bits {
		if b == 1 {
			k.SetBit(k, v.Height-1-v.Pos[i], 1)
		}
	}
	return new(felt.Felt).SetBigInt(k)
}

// pathString maps a model path (prefix of a key, j bits) to the real path as a bit string: the first
// L_j bits of the embedded key, L_j = Pos[j] (everything before the next model bit) or the height.
func (v *variant) pathString(bits []int, full bool) string {
	k := v.key(bits)
	var kb big.Int
	k.BigInt(&kb)
	n := v.Height
	if len(bits) < len(v.Pos) && !full {
		n = v.Pos[len(bits)]
	}
	var sb strings.Builder
	for i := 0; i < n; i++ {
		if kb.Bit(v.Height-1-i) == 1 {
			sb.WriteByte('1')
		} else {
			sb.WriteByte('0')
		}
	}
	return sb.String()
}

func (v *variant) value(x int) *felt.Felt {
	if x == 0 {
		return new(felt.Felt)
	}
	if x-1 < len(v.Mag) && v.Mag[x-1] != "" && v.Mag[x-1] != "small" {
		return magFelt(v.Mag[x-1], v.ValSeed, x)
	}
	r := rand.New(rand.NewSource(v.ValSeed*1000 + int64(x)))
	var b [31]byte
	r.Read(b[:])
	b[30] |= 1 // non-zero
	return new(felt.Felt).SetBytes(b[:])
}

func smallVariant(h int, i int64) variant {
	pos := make([]int, h)
	for j := range pos {
		pos[j] = j
	}
	return variant{Height: h, Pos: pos, Pad: "0", Poseidon: i%2 == 1, Flush: i%4 >= 2, Owner: i%3 == 0, Sweep: i%2 == 0, ValSeed: i, Poison: i%3 == 1}
}

// embedVariant spreads the h model bits over 251 real bits: every model bit is followed by a run of
// fixed padding bits (run lengths and padding values random), so that the real trie has the model's
// shape with long edges / long shared prefixes.
func embedVariant(h int, r *rand.Rand, i int64) variant {
	const height = 251
	free := height - h
	runs := make([]int, h+1) // runs[0] before the first model bit, runs[j] after model bit j
	cuts := make([]int, h)
	for j := range cuts {
		cuts[j] = r.Intn(free + 1)
	}
	sort.Ints(cuts)
	prev := 0
	for j := 0; j < h; j++ {
		runs[j] = cuts[j] - prev
		prev = cuts[j]
	}
	runs[h] = free - prev
	if r.Intn(2) == 0 { // leaves directly under a binary node at depth 250
		runs[h-1] += runs[h]
		runs[h] = 0
	}
	if r.Intn(2) == 0 { // binary root
		runs[1] += runs[0]
		runs[0] = 0
	}
	pos := make([]int, h)
	p := runs[0]
	for j := 0; j < h; j++ {
		pos[j] = p
		p += 1 + runs[j+1]
	}
	pad := new(big.Int).Rand(r, new(big.Int).Lsh(big.NewInt(1), height))
	switch r.Intn(6) { // extreme key shapes: all padding zero (keys near 0) / all ones (keys near 2^251-1)
	case 0:
		pad = new(big.Int)
	case 1:
		pad = new(big.Int).Sub(new(big.Int).Lsh(big.NewInt(1), height), big.NewInt(1))
	}
	for _, q := range pos {
		pad.SetBit(pad, height-1-q, 0)
	}
	return variant{Height: height, Pos: pos, Pad: pad.String(), Poseidon: i%2 == 1, Flush: i%4 >= 2, Owner: i%3 == 0,
		Sweep: r.Intn(2) == 0, ValSeed: i, Poison: r.Intn(3) == 0}
}

// ------------------------------------------------------------------ drivers for the two real tries

type legacyDrv struct {
	store  db.KeyValueStore
	txn    db.IndexedBatch
	tr     *trie.Trie
	prefix []byte
	v      *variant
}

func newLegacy(v *variant) (*legacyDrv, error) {
	d := &legacyDrv{store: newStore(v), prefix: []byte{0x42, 0x07}, v: v}
	d.txn = d.store.NewIndexedBatch()
	return d, d.open()
}

func newStore(v *variant) db.KeyValueStore {
	if v.Poison {
		return newPoisonStore(memory.New())
	}
	return memory.New()
}

func (d *legacyDrv) open() (err error) {
	if d.v.Poseidon {
		d.tr, err = trie.NewTriePoseidon(d.txn, d.prefix, uint8(d.v.Height))
	} else {
		d.tr, err = trie.NewTriePedersen(d.txn, d.prefix, uint8(d.v.Height))
	}
	return err
}

func (d *legacyDrv) put(k, val *felt.Felt) (*felt.Felt, error) { return d.tr.Put(k, val) }
func (d *legacyDrv) get(k *felt.Felt) (felt.Felt, error)       { return d.tr.Get(k) }
func (d *legacyDrv) commit() (felt.Felt, error)                { return d.tr.Hash() }
func (d *legacyDrv) reopen() error {
	if d.v.Flush {
		if err := d.txn.Write(); err != nil {
			return err
		}
		d.txn = d.store.NewIndexedBatch()
	}
	return d.open()
}

func bitString(b *trie.BitArray) string {
	var sb strings.Builder
	for i := uint8(0); i < b.Len(); i++ {
		if b.IsBitSet(i) {
			sb.WriteByte('1')
		} else {
			sb.WriteByte('0')
		}
	}
	return sb.String()
}

// dump decodes the stored node table: path -> "left|right", and the persisted root key.
func (d *legacyDrv) dump() (map[string]string, string, error) {
	it, err := d.txn.NewIterator(d.prefix, true)
	if err != nil {
		return nil, "", err
	}
	defer it.Close()
	nodes := map[string]string{}
	root := "nil"
	for ok := it.First(); ok; ok = it.Next() {
		key := bytes.Clone(it.Key())
		val, err := it.Value()
		if err != nil {
			return nil, "", err
		}
		val = bytes.Clone(val)
		if len(key) == len(d.prefix) {
			var rk trie.BitArray
			if err := rk.UnmarshalBinary(val); err != nil {
				return nil, "", err
			}
			root = bitString(&rk)
			continue
		}
		var p trie.BitArray
		if err := p.UnmarshalBinary(key[len(d.prefix):]); err != nil {
			return nil, "", err
		}
		var n trie.Node
		if err := n.UnmarshalBinary(val); err != nil {
			return nil, "", err
		}
		links := "|"
		if n.Left != nil {
			links = bitString(n.Left) + "|" + bitString(n.Right)
		}
		nodes[bitString(&p)] = links
	}
	return nodes, root, nil
}

type t2Drv struct {
	disk db.KeyValueStore
	tdb  *rawdb.Database
	id   trieutils.TrieID
	tr   *trie2.Trie
	dead bool
	v    *variant
}

func newT2(v *variant) (*t2Drv, error) {
	d := &t2Drv{disk: newStore(v), v: v}
	d.tdb = rawdb.New(d.disk)
	comm := felt.StateRootHash(felt.One) // any non-zero commitment: the raw scheme ignores it
	if v.Owner {
		owner := felt.Address(*felt.NewFromUint64[felt.Felt](0xabcdef))
		d.id = trieutils.NewContractStorageTrieID(comm, owner)
	} else {
		d.id = trieutils.NewClassTrieID(comm)
	}
	return d, d.reopen()
}

func (d *t2Drv) hashFn() crypto.HashFn {
	if d.v.Poseidon {
		return crypto.Poseidon
	}
	return crypto.Pedersen
}

func (d *t2Drv) reopen() (err error) {
	d.tr, err = trie2.New(d.id, uint8(d.v.Height), d.hashFn(), d.tdb)
	d.dead = false
	return err
}

func (d *t2Drv) ensureLive() error {
	if d.dead {
		return d.reopen()
	}
	return nil
}

func (d *t2Drv) put(k, val *felt.Felt) error {
	if err := d.ensureLive(); err != nil {
		return err
	}
	return d.tr.Update(k, val)
}

func (d *t2Drv) get(k *felt.Felt) (felt.Felt, error) {
	if err := d.ensureLive(); err != nil {
		return felt.Zero, err
	}
	return d.tr.Get(k)
}

func (d *t2Drv) hash() (felt.Felt, error) {
	if err := d.ensureLive(); err != nil {
		return felt.Zero, err
	}
	return d.tr.Hash()
}

func (d *t2Drv) commit() (felt.Felt, error) {
	if err := d.ensureLive(); err != nil {
		return felt.Zero, err
	}
	root, nodes := d.tr.Commit()
	d.dead = true
	if nodes == nil {
		return root, nil
	}
	batch := d.disk.NewBatch()
	merged := trienode.NewMergeNodeSet(nodes)
	var err error
	if d.v.Owner {
		err = d.tdb.Update(nil, nil, 0, nil, merged, batch)
	} else {
		err = d.tdb.Update(nil, nil, 0, merged, nil, batch)
	}
	if err != nil {
		return root, err
	}
	return root, batch.Write()
}

// dump lists the database: bit string of every stored path ("L:" prefix for leaf-typed entries).
func (d *t2Drv) dump() (map[string]bool, error) {
	it, err := d.disk.NewIterator(nil, false)
	if err != nil {
		return nil, err
	}
	defer it.Close()
	skip := 1
	if d.v.Owner {
		skip += 32
	}
	out := map[string]bool{}
	for ok := it.First(); ok; ok = it.Next() {
		key := bytes.Clone(it.Key())
		if len(key) < skip+2 {
			return nil, fmt.Errorf("unexpected database key %x", key)
		}
		var p trieutils.Path
		if err := p.UnmarshalBinary(key[skip+1:]); err != nil {
			return nil, err
		}
		var sb strings.Builder
		for i := uint8(0); i < p.Len(); i++ {
			if p.IsBitSet(i) {
				sb.WriteByte('1')
			} else {
				sb.WriteByte('0')
			}
		}
		isLeaf := key[skip] == 2
		if isLeaf != (int(p.Len()) == d.v.Height) {
			return nil, fmt.Errorf("database key %x: leaf flag %v at path length %d", key, isLeaf, p.Len())
		}
		out[sb.String()] = true
	}
	return out, nil
}

// sparsePaths is the harness's own computation of where the protocol's sparse trie has a node
// (edge, binary or leaf) for a set of keys given as bit strings of equal length.
func sparsePaths(keys []string, prefix string, out map[string]bool) {
	if len(keys) == 0 {
		return
	}
	out[prefix] = true
	height := len(keys[0])
	if len(prefix) == height {
		return
	}
	// common prefix beyond `prefix`
	cp := keys[0]
	for _, k := range keys[1:] {
		n := 0
		for n < len(cp) && cp[n] == k[n] {
			n++
		}
		cp = cp[:n]
	}
	if len(cp) > len(prefix) { // edge from prefix to cp
		if len(cp) == height {
			out[cp] = true
			return
		}
		out[cp] = true
		prefix = cp
	}
	var l, r []string
	for _, k := range keys {
		if k[len(prefix)] == '0' {
			l = append(l, k)
		} else {
			r = append(r, k)
		}
	}
	sparsePaths(l, prefix+"0", out)
	sparsePaths(r, prefix+"1", out)
}

// ------------------------------------------------------------------ the replayer

type retainedFelt struct {
	p    *felt.Felt
	copy felt.Felt
	step int
}

type replayOutcome struct {
	key, what          string
	step               int
	expected, observed any
}

func setDiff(a, b map[string]bool) (onlyA, onlyB []string) {
	for k := range a {
		if !b[k] {
			onlyA = append(onlyA, k)
		}
	}
	for k := range b {
		if !a[k] {
			onlyB = append(onlyB, k)
		}
	}
	sort.Strings(onlyA)
	sort.Strings(onlyB)
	return
}

func putKind(before map[string]int, a action) string {
	ks := fmt.Sprint(a.K)
	_, present := before[ks]
	switch {
	case a.V == 0 && present:
		return "delete"
	case a.V == 0:
		return "zero-absent"
	case present:
		return "overwrite"
	}
	return "insert"
}

func allKeys(h int) [][]int {
	out := make([][]int, 0, 1<<h)
	for x := 0; x < 1<<h; x++ {
		k := make([]int, h)
		for i := 0; i < h; i++ {
			k[i] = (x >> (h - 1 - i)) & 1
		}
		out = append(out, k)
	}
	return out
}

// replayOne runs one behaviour on both real tries under one variant. It returns the first divergence.
func replayOne(kind string, h int, beh []step, v *variant, counts map[string]int) (out *replayOutcome, nsteps int, soft []*replayOutcome) {
	if len(v.Mag) == 0 && len(beh) > 0 {
		v.Mag = beh[0].Mag
	}
	for _, c := range v.Mag {
		counts["mag-"+c]++
	}
	leg, err := newLegacy(v)
	if err != nil {
		return &replayOutcome{key: "trie-harness:open-legacy", what: err.Error()}, 0, nil
	}
	t2, err := newT2(v)
	if err != nil {
		return &replayOutcome{key: "trie-harness:open-trie2", what: err.Error()}, 0, nil
	}
	hash := refimpl.HashFn(refimpl.Pedersen)
	if v.Poseidon {
		hash = refimpl.Poseidon
	}
	model := map[string]int{} // fmt(bits) -> value, the model's kv BEFORE the step
	keys := allKeys(h)
	lastPut := "none"
	candidates, reported := map[string]bool{}, map[string]bool{}
	var retained []retainedFelt
	fail := func(si int, key, what string, exp, obs any) (*replayOutcome, int, []*replayOutcome) {
		return &replayOutcome{key: key, what: what, step: si, expected: exp, observed: obs}, si, soft
	}
	defer func() {
		if p := recover(); p != nil {
			out = &replayOutcome{key: "trie-panic:" + lastPut, what: fmt.Sprintf("panic in the real trie: %v", p), step: nsteps}
		}
	}()
	checkRoots := func(si int, pres []presKV, lroot, t2root *felt.Felt, what string) *replayOutcome {
		kv := refimpl.KV{}
		for _, p := range pres {
			var kb big.Int
			v.key(p.K).BigInt(&kb)
			kv[refimpl.Key(&kb)] = *v.value(p.V)
		}
		want := refimpl.Root(kv, uint(v.Height), hash)
		// localisation: a root that differs from the independent reference but equals the same definition
		// evaluated with core/crypto's primitives is a defect of the hash primitive, not of the trie
		if (lroot != nil && !lroot.Equal(&want)) || (t2root != nil && !t2root.Equal(&want)) {
			if o := primitiveOutcome(kv, uint(v.Height), v.Poseidon, &want, lroot, t2root, si, what); o != nil {
				return o
			}
		}
		if lroot != nil && !lroot.Equal(&want) {
			return &replayOutcome{key: "trie-root:legacy:after-" + lastPut, step: si,
				what:     "core/trie root after " + what + " differs from the protocol commitment of the key/value set (refimpl.Root)",
				expected: want.String(), observed: lroot.String()}
		}
		if t2root != nil && !t2root.Equal(&want) {
			return &replayOutcome{key: "trie-root:trie2:after-" + lastPut, step: si,
				what:     "core/trie2 root after " + what + " differs from the protocol commitment of the key/value set (refimpl.Root)",
				expected: want.String(), observed: t2root.String()}
		}
		if lroot != nil && t2root != nil && !lroot.Equal(t2root) {
			return &replayOutcome{key: "trie-cross:legacy-vs-trie2", step: si, what: "legacy and trie2 roots differ",
				expected: lroot.String(), observed: t2root.String()}
		}
		return nil
	}
	for si, s := range beh {
		nsteps = si + 1
		counts[s.A.Name]++
		switch s.A.Name {
		case "Put":
			lastPut = putKind(model, s.A)
			counts["put-"+lastPut]++
			k, val := v.key(s.A.K), v.value(s.A.V)
			oldv, err := leg.put(k, val)
			if err != nil {
				return fail(si, "trie-error:legacy:put-"+lastPut, "core/trie Put failed: "+err.Error(), nil, nil)
			}
			// Put hands back the previous value (nil for a no-op): checked now, and kept (with a copy) to see
			// that it does not change under later calls (the node it came from goes back to a pool)
			wantOld := "nil"
			if lastPut != "zero-absent" {
				wantOld = v.value(model[fmt.Sprint(s.A.K)]).String()
			}
			gotOld := "nil"
			if oldv != nil {
				gotOld = oldv.String()
				retained = append(retained, retainedFelt{oldv, *oldv, si})
			}
			if gotOld != wantOld {
				return fail(si, "trie-put-return:legacy:"+lastPut, "core/trie Put returned a wrong previous value", wantOld, gotOld)
			}
			if err := t2.put(k, val); err != nil {
				return fail(si, "trie-error:trie2:put-"+lastPut, "core/trie2 Update failed: "+err.Error(), nil, nil)
			}
			if lastPut == "delete" && v.Pos[h-1] == v.Height-1 {
				sib := append([]int{}, s.A.K...)
				sib[h-1] = 1 - sib[h-1]
				if _, ok := model[fmt.Sprint(sib)]; ok {
					candidates[v.pathString(s.A.K, true)] = true
				}
			}
			if s.A.V == 0 {
				delete(model, fmt.Sprint(s.A.K))
			} else {
				model[fmt.Sprint(s.A.K)] = s.A.V
			}
		case "Get":
			k := v.key(s.A.K)
			want := v.value(s.A.V)
			got, err := t2.get(k)
			if err != nil || !got.Equal(want) {
				return fail(si, "trie-get:trie2", fmt.Sprintf("core/trie2 Get differs from the model (err %v)", err), want.String(), got.String())
			}
			gotL, err := leg.get(k)
			if err != nil || !gotL.Equal(want) {
				return fail(si, "trie-get:legacy", fmt.Sprintf("core/trie Get differs from the model (err %v)", err), want.String(), gotL.String())
			}
		case "Hash": // trie2: hash without commit; the legacy Hash() is its commit
			t2root, err := t2.hash()
			if err != nil {
				return fail(si, "trie-error:trie2:hash", err.Error(), nil, nil)
			}
			lroot, err := leg.commit()
			if err != nil {
				return fail(si, "trie-error:legacy:commit", err.Error(), nil, nil)
			}
			if o := checkRoots(si, s.P, &lroot, &t2root, "Hash"); o != nil {
				return o, si, soft
			}
		case "Commit":
			lroot, err := leg.commit()
			if err != nil {
				return fail(si, "trie-error:legacy:commit", "core/trie Commit failed: "+err.Error(), nil, nil)
			}
			t2root, err := t2.commit()
			if err != nil {
				return fail(si, "trie-error:trie2:commit", "core/trie2 Commit failed: "+err.Error(), nil, nil)
			}
			if o := checkRoots(si, s.P, &lroot, &t2root, "Commit"); o != nil {
				return o, si, soft
			}
			counts["commits"]++
		case "Reopen":
			if err := leg.reopen(); err != nil {
				return fail(si, "trie-reopen:legacy", "reopening core/trie failed: "+err.Error(), nil, nil)
			}
			if err := t2.reopen(); err != nil {
				return fail(si, "trie-reopen:trie2", "reopening core/trie2 failed: "+err.Error(), nil, nil)
			}
			// reopen must be a no-op on the commitment
			lroot, err := leg.tr.Hash()
			if err != nil {
				return fail(si, "trie-reopen:legacy", "Hash after reopen failed: "+err.Error(), nil, nil)
			}
			t2root, err := t2.hash()
			if err != nil {
				return fail(si, "trie-reopen:trie2", "Hash after reopen failed: "+err.Error(), nil, nil)
			}
			if o := checkRoots(si, s.P, &lroot, &t2root, "Reopen"); o != nil {
				o.key = strings.Replace(strings.Replace(o.key, "trie-root:", "trie-reopen-root:", 1), ":after-"+lastPut, "", 1)
				return o, si, soft
			}
		default:
			return fail(si, "trie-harness:unknown-action", s.A.Name, nil, nil)
		}

		// every model key reads its model value (legacy always; trie2 when the variant sweeps or committed)
		pres := map[string]int{}
		for _, p := range s.P {
			pres[fmt.Sprint(p.K)] = p.V
		}
		for _, kb := range keys {
			k := v.key(kb)
			want := v.value(pres[fmt.Sprint(kb)])
			got, err := leg.get(k)
			if err != nil || !got.Equal(want) {
				return fail(si, "trie-get:legacy:after-"+lastPut, fmt.Sprintf("core/trie Get(%v) after %s differs from the model (err %v)", kb, s.A.Name, err),
					want.String(), got.String())
			}
			if v.Sweep && !t2.dead {
				got, err := t2.get(k)
				if err != nil || !got.Equal(want) {
					return fail(si, "trie-get:trie2:after-"+lastPut, fmt.Sprintf("core/trie2 Get(%v) after %s differs from the model (err %v)", kb, s.A.Name, err),
						want.String(), got.String())
				}
			}
		}

		// implementation-shaped projections
		if kind == "legacy" {
			nodes, _, err := leg.dump()
			if err != nil {
				return fail(si, "trie-harness:dump-legacy", err.Error(), nil, nil)
			}
			want := map[string]string{}
			for _, n := range s.Nodes {
				links := "|"
				if len(n.P) < h {
					links = v.pathString(n.L, false) + "|" + v.pathString(n.R, false)
				}
				want[v.pathString(n.P, false)] = links
			}
			if len(nodes) != len(want) {
				return fail(si, "trie-shape:legacy:"+lastPut, "core/trie stored node table differs from LegacyTrie.tla (node set)", want, nodes)
			}
			for p, l := range want {
				if nodes[p] != l {
					return fail(si, "trie-shape:legacy:"+lastPut, "core/trie stored node table differs from LegacyTrie.tla (node "+p+")", want, nodes)
				}
			}
			wantRoot := "nil"
			if !(len(s.RootKey) == 1 && s.RootKey[0] == 2) {
				wantRoot = v.pathString(s.RootKey, false)
			}
			gotRoot := "nil"
			if rk := leg.tr.RootKey(); rk != nil {
				gotRoot = bitString(rk)
			}
			if gotRoot != wantRoot {
				return fail(si, "trie-shape:legacy:rootkey:"+lastPut, "core/trie root key differs from LegacyTrie.tla", wantRoot, gotRoot)
			}
		}
		if s.A.Name == "Commit" {
			got, err := t2.dump()
			if err != nil {
				return fail(si, "trie-harness:dump-trie2", err.Error(), nil, nil)
			}
			var ks []string
			for _, p := range s.P {
				ks = append(ks, v.pathString(p.K, true))
			}
			canon := map[string]bool{}
			sparsePaths(ks, "", canon)
			missing, extra := setDiff(canon, got)
			if len(missing) > 0 {
				return fail(si, "trie2-db:missing-node:after-"+lastPut, "core/trie2 database lacks nodes of the canonical sparse trie after Commit", missing, nil)
			}
			// Orphans. A leaf deleted while it hung directly under a binary node (its sibling present) is a
			// candidate for the known tracer defect (Trie2.tla FixValueDeletePath); anything else is not.
			var unexplained []string
			for _, e := range extra {
				if candidates[e] {
					if !reported[e] {
						reported[e] = true
						counts["orphan-leaves-observed"]++
						soft = append(soft, &replayOutcome{key: "trie2-orphan-leaf:value-delete-under-binary", step: si,
							what: "core/trie2 leaves a deleted leaf's entry in the path database: deleting a value node directly under a binary node calls " +
								"nodeTracer.onDelete with the exhausted key instead of the leaf path (trie.go:511); core/state StateReader.ContractStorage reads such entries",
							expected: []string{}, observed: []string{e}})
					}
				} else {
					unexplained = append(unexplained, e)
				}
			}
			if len(unexplained) > 0 {
				return fail(si, "trie2-db:orphan-node:after-"+lastPut, "core/trie2 database holds entries outside the canonical sparse trie after Commit", []string{}, unexplained)
			}
			// conformance with the model's own prediction (exact when the leaves sit at the model's depth)
			if kind == "trie2" && (v.Height == h || v.Pos[h-1] == v.Height-1) {
				predicted := map[string]bool{}
				for _, o := range s.Orphans {
					predicted[v.pathString(o, len(o) == h)] = true
				}
				extraSet := map[string]bool{}
				for _, e := range extra {
					extraSet[e] = true
				}
				a, b := setDiff(predicted, extraSet)
				if len(a)+len(b) > 0 {
					return fail(si, "trie2-db:orphans-differ-from-model", "database entries outside the canonical trie differ from what Trie2.tla predicts for this code", a, b)
				}
			}
		}
	}
	for _, rt := range retained {
		if !rt.p.Equal(&rt.copy) {
			return fail(rt.step, "trie-alias:legacy:put-old-value", "the previous value returned by core/trie Put changed under later calls (it aliases pooled storage)",
				rt.copy.String(), rt.p.String())
		}
	}
	return nil, len(beh), soft
}

// primitiveOutcome: when refimpl runs on the independent primitives and a real root equals the reference
// built on core/crypto's primitives instead, the divergence is keyed as a defect of the primitive.
func primitiveOutcome(kv refimpl.KV, height uint, poseidon bool, want, lroot, t2root *felt.Felt, si int, what string) *replayOutcome {
	if !refimpl.Independent() {
		return nil
	}
	var junoWant felt.Felt
	refimpl.WithJuno(func() {
		h := refimpl.HashFn(refimpl.Pedersen)
		if poseidon {
			h = refimpl.Poseidon
		}
		junoWant = refimpl.Root(kv, height, h)
	})
	if junoWant.Equal(want) {
		return nil // the primitives agree on this key/value set: the trie is at fault
	}
	got := lroot
	if got == nil || (t2root != nil && !t2root.Equal(want)) {
		got = t2root
	}
	if got == nil || !got.Equal(&junoWant) {
		return nil
	}
	vals := make([]felt.Felt, 0, len(kv))
	for _, x := range kv {
		vals = append(vals, x)
	}
	name := "pedersen"
	if poseidon {
		name = "poseidon"
	}
	return &replayOutcome{key: fmt.Sprintf("crypto:%s:trie-root:values-up-to-%s", name, topClass(vals)), step: si,
		what: "the trie root after " + what + " differs from the protocol commitment computed with the independent hash reference, and equals the same " +
			"definition computed with core/crypto: the hash primitive is wrong for operands of this magnitude (both tries are wrong identically)",
		expected: want.String(), observed: got.String()}
}

func deriveVariants(h int, seed int64, bi int, thorough bool) []variant {
	r := rand.New(rand.NewSource(seed*1_000_003 + int64(bi)))
	vs := []variant{smallVariant(h, seed+int64(bi)), embedVariant(h, r, seed+int64(bi))}
	if thorough {
		e := embedVariant(h, r, seed+int64(bi)+1)
		e.Poseidon = !vs[1].Poseidon
		vs = append(vs, e)
	}
	return vs
}

func TestTrieReplay(t *testing.T) {
	if !vh.Enabled() {
		t.Skip("driver only")
	}
	var in trieInput
	if err := vh.Input(&in); err != nil {
		t.Fatal(err)
	}
	out := vh.NewResult()
	defer out.Write()
	defer guard(out, "TestTrieReplay", nil)
	restore, err := refimpl.UseIndependent()
	if err != nil {
		t.Fatal(err) // the references fail their own known answers: broken machinery, never a verdict
	}
	defer restore()
	counts := map[string]int{}
	nb := 0
	for bi, beh := range in.Behaviours {
		vs := in.Variants
		if len(vs) == 0 {
			vs = deriveVariants(in.H, vh.Seed(), bi, vh.Thorough())
		}
		for vi := range vs {
			v := vs[vi]
			o, n, soft := replayOne(in.Kind, in.H, beh, &v, counts)
			for _, so := range soft {
				cut := min(so.step+1, len(beh))
				diverge(out, vh.Divergence{
					Key: so.key, What: so.what, Step: so.step, Expected: so.expected, Observed: so.observed,
					Input: trieInput{Kind: in.Kind, H: in.H, Behaviours: [][]step{beh[:cut]}, Variants: []variant{v}},
				})
			}
			out.Done(1, n)
			nb++
			if v.Height == 251 {
				counts["replays-height-251"]++
			} else {
				counts["replays-small-height"]++
			}
			if o != nil {
				cut := o.step + 1
				if cut > len(beh) {
					cut = len(beh)
				}
				diverge(out, vh.Divergence{
					Key: o.key, What: o.what, Step: o.step, Expected: o.expected, Observed: o.observed,
					Input: trieInput{Kind: in.Kind, H: in.H, Behaviours: [][]step{beh[:cut]}, Variants: []variant{v}},
				})
			}
		}
	}
	for k, c := range counts {
		out.Count("trie_"+in.Kind+"_"+k, c)
	}
	if len(in.Behaviours) > 0 {
		out.Sample(vh.J{"kind": in.Kind, "first_steps": in.Behaviours[0][:min(6, len(in.Behaviours[0]))]})
	}
}

// Engine "ws" (specification growth G04): binds spec/ws/WsConn.tla to the real JSON-RPC WebSocket
// transport (jsonrpc/websocket.go on top of jsonrpc.Server.HandleReadWriter).
//
// TestWsReplay    replays TLC-simulated connection behaviours against a real jsonrpc.Server mounted
//
//	as websocket handler in an in-process httptest server, with a real coder/websocket
//	client: client frames in the model's order, handler completion order enforced by
//	gates inside the recording handlers, notifications written by the subscription
//	goroutines when the scheduler says so; every frame the client receives is parsed
//	and compared with the frame the model put on the wire at that step.  Every
//	exchange is also sent through HandleReader and the HTTP transport of a twin server
//	(transport independence).
//
// TestWsStress    free-running writers: many goroutines write notifications through handler-held
//
//	connections while requests and batches flow; a monitor checks every received
//	frame (one whole JSON value, right connection, FIFO per subscription, exactly one
//	response per request in request order, nothing after unsubscribe, nothing lost).
//
// TestWsDirected  the races the scheduler cannot steer: shutdown / abrupt client close with requests
//
//	in flight, read-limit boundary, connections that must not see each other.
//
// A harness timeout is never reported as a divergence (stats.harness_timeouts; the check turns it into
// exit 2) unless a later, positively observed event proves that the awaited one cannot come any more.
package ws

import (
	"bytes"
	"context"
	"encoding/json"
	"errors"
	"fmt"
	"io"
	"math/rand"
	"net/http"
	"net/http/httptest"
	"sort"
	"strconv"
	"strings"
	"sync"
	"sync/atomic"
	"testing"
	"time"

	jr "github.com/NethermindEth/juno/jsonrpc"
	"github.com/NethermindEth/juno/utils/log"
	"github.com/coder/websocket"

	"verifharness/internal/vh"
)

// ---------------------------------------------------------------------------- driver input

type absParams struct {
	K   string   `json:"k"`
	Pos []string `json:"pos"`
	A   string   `json:"a"`
	B   string   `json:"b"`
	X   string   `json:"x"`
}

type absEntry struct {
	K      string    `json:"k"`
	Ver    string    `json:"ver"`
	Meth   string    `json:"meth"`
	Params absParams `json:"params"`
	ID     string    `json:"id"`
}

type absFrame struct {
	K  string     `json:"k"`
	Es []absEntry `json:"es"`
	Fm string     `json:"fm"` // framing: "whole" (one frame ending with the value) | "frag" (non-final frames + empty FIN) | "pad"
}

type absResp struct {
	E    int    `json:"e"`
	Kind string `json:"kind"`
	Code int    `json:"code"`
	ID   string `json:"id"`
}

type wireFrame struct {
	T     string    `json:"t"`
	F     int       `json:"f"`
	K     int       `json:"k"`
	N     int       `json:"n"`
	Code  int       `json:"code"`
	Shape string    `json:"shape"`
	Body  []absResp `json:"body"`
}

type mstep struct {
	A      string      `json:"a"`
	X      int         `json:"x"`
	Y      int         `json:"y"`
	Res    string      `json:"res"`
	Put    []wireFrame `json:"put"`
	Fr     absFrame    `json:"fr"`
	Inv    []bool      `json:"inv"`
	Parked bool        `json:"parked"`
}

type behaviour struct {
	Steps []mstep `json:"steps"`
}

type input struct {
	Behaviours []behaviour `json:"behaviours"`
	Seed       int64       `json:"seed"`
	Conns      int         `json:"conns"`    // stress: connections
	Requests   int         `json:"requests"` // stress: frames per connection
	Rounds     int         `json:"rounds"`   // stress / directed: rounds
}

const (
	readLimit   = 4096
	stepWait    = 8 * time.Second  // an awaited event of the real server (normally < 1 ms away)
	probeWait   = 10 * time.Second // the sentinel exchange that turns "nothing came" into evidence
	codeApp     = 44
	codeExists  = 45
	codeNoSub   = 46
	codeNoConn  = 47
	codeCancel  = 77
	noteMethod  = "note"
	freeRunFrom = 10 // sub keys >= 10: the goroutine writes on its own (stress)
)

// ---------------------------------------------------------------------------- the real server

type connTagKey struct{}

type gate struct {
	started chan struct{}
	release chan struct{}
	sOnce   sync.Once
	rOnce   sync.Once
	told    atomic.Bool // left through ctx.Done()
}

func (g *gate) open() { g.rOnce.Do(func() { close(g.release) }) }

type invocation struct {
	Tag  string `json:"tag"`
	M    string `json:"m"`
	A    int    `json:"a"`
	B    string `json:"b"`
	Conn bool   `json:"conn"`
}

type cmd struct {
	op    string // "write" | "told" | "exit"
	reply chan error
}

type subState struct {
	w        *world
	connTag  string
	key      int
	conn     jr.Conn
	ctx      context.Context
	cancel   context.CancelFunc
	unsubbed atomic.Bool
	quit     chan struct{} // closed by unsub / stop: the goroutine must end
	quitOnce sync.Once
	cmds     chan cmd
	done     chan struct{}
	n        int          // Write calls so far (goroutine only)
	okWrites atomic.Int64 // Write calls that returned nil
	state    string       // "active" | "cancelled" | "told"   (guarded by world.mu)
	free     int          // free-running: notifications to write (0 = scheduler-driven)
	padLen   int
}

type world struct {
	id       string
	rpc      *jr.Server
	wsh      *jr.Websocket
	httpT    *jr.HTTP
	hs       *httptest.Server
	shutdown chan struct{}
	shutOnce sync.Once

	mu     sync.Mutex
	gates  map[string]*gate
	subs   map[string]*subState
	invs   map[string][]invocation // by connection tag ("" = no websocket connection)
	served map[string]chan struct{}
	conns  map[string][]jr.Conn // the Conn each invocation found in its context, by connection tag
	equalF int                  // Conn.Equal said false for the same connection
}

func tagOf(b string) string {
	if i := strings.IndexByte(b, '~'); i >= 0 {
		return b[:i]
	}
	return b
}

func connTagOf(ctx context.Context) string {
	s, _ := ctx.Value(connTagKey{}).(string)
	return s
}

func newWorld(id string, pool int, withNet bool) *world {
	w := &world{id: id, shutdown: make(chan struct{}), gates: map[string]*gate{}, subs: map[string]*subState{},
		invs: map[string][]invocation{}, served: map[string]chan struct{}{}, conns: map[string][]jr.Conn{}}
	w.rpc = jr.NewServer(pool, log.NewNopZapLogger())
	params := []jr.Parameter{{Name: "a"}, {Name: "b"}}
	err := w.rpc.RegisterMethods(
		jr.Method{Name: "m2", Params: params, Handler: w.m2},
		jr.Method{Name: "sub", Params: params, Handler: w.sub},
		jr.Method{Name: "unsub", Params: params, Handler: w.unsub},
		jr.Method{Name: "boom", Params: params, Handler: w.boom},
	)
	if err != nil {
		panic(err)
	}
	w.httpT = jr.NewHTTP(w.rpc, log.NewNopZapLogger())
	if withNet {
		w.wsh = jr.NewWebsocket(w.rpc, w.shutdown, log.NewNopZapLogger()).
			WithConnParams(&jr.WebsocketConnParams{ReadLimit: readLimit, WriteDuration: 5 * time.Second})
		w.hs = httptest.NewServer(http.HandlerFunc(func(rw http.ResponseWriter, r *http.Request) {
			tag := r.URL.Query().Get("c")
			w.wsh.ServeHTTP(rw, r.WithContext(context.WithValue(r.Context(), connTagKey{}, tag)))
			w.mu.Lock()
			ch := w.served[tag]
			w.mu.Unlock()
			if ch != nil {
				close(ch)
			}
		}))
	}
	return w
}

func (w *world) close() {
	w.mu.Lock()
	for _, g := range w.gates {
		g.open()
	}
	subs := make([]*subState, 0, len(w.subs))
	for _, s := range w.subs {
		subs = append(subs, s)
	}
	w.mu.Unlock()
	for _, s := range subs {
		s.stop()
	}
	w.shutOnce.Do(func() { close(w.shutdown) })
	if w.hs != nil {
		w.hs.CloseClientConnections()
		w.hs.Close()
	}
}

func (w *world) newGate(tag string) *gate {
	g := &gate{started: make(chan struct{}), release: make(chan struct{})}
	w.mu.Lock()
	w.gates[tag] = g
	w.mu.Unlock()
	return g
}

func (w *world) gateOf(tag string) *gate {
	w.mu.Lock()
	defer w.mu.Unlock()
	return w.gates[tag]
}

func (w *world) openGates(prefix string) {
	w.mu.Lock()
	defer w.mu.Unlock()
	for t, g := range w.gates {
		if strings.HasPrefix(t, prefix) {
			g.open()
		}
	}
}

// enter records the invocation and parks the handler at its gate (if the scheduler made one).
func (w *world) enter(ctx context.Context, m string, a int, b string) (leave func() *jr.Error) {
	tag := tagOf(b)
	conn, hasConn := jr.ConnFromContext(ctx)
	w.mu.Lock()
	ct := connTagOf(ctx)
	if hasConn && len(w.conns[ct]) < 8 {
		w.conns[ct] = append(w.conns[ct], conn)
	}
	w.invs[ct] = append(w.invs[ct], invocation{Tag: tag, M: m, A: a, B: b, Conn: hasConn})
	g := w.gates[tag]
	w.mu.Unlock()
	return func() *jr.Error {
		if g == nil {
			return nil
		}
		g.sOnce.Do(func() { close(g.started) })
		select {
		case <-g.release:
			return nil
		case <-ctx.Done():
			g.told.Store(true)
			return &jr.Error{Code: codeCancel, Message: "cancelled"}
		}
	}
}

func (w *world) m2(ctx context.Context, a int, b string) (any, *jr.Error) {
	if e := w.enter(ctx, "m2", a, b)(); e != nil {
		return nil, e
	}
	if a < 0 {
		return nil, &jr.Error{Code: codeApp, Message: "app", Data: b}
	}
	return map[string]any{"m": "m2", "a": a, "b": b}, nil
}

// unserialisable is a handler result encoding/json cannot marshal; the error text is n bytes long.
type unserialisable struct{ n int }

func (u unserialisable) MarshalJSON() ([]byte, error) {
	return nil, errors.New(strings.Repeat("e", u.n))
}

const longReason = 200 // error text beyond what a close frame's reason can carry

func (w *world) boom(ctx context.Context, a int, b string) (any, *jr.Error) {
	if e := w.enter(ctx, "boom", a, b)(); e != nil {
		return nil, e
	}
	if a == 2 {
		return unserialisable{longReason}, nil
	}
	return unserialisable{10}, nil
}

func subKey(connTag string, key int) string { return connTag + "/" + strconv.Itoa(key) }

func (w *world) sub(ctx context.Context, a int, b string) (any, *jr.Error) {
	leave := w.enter(ctx, "sub", a, b)
	conn, ok := jr.ConnFromContext(ctx)
	if !ok {
		if e := leave(); e != nil {
			return nil, e
		}
		return nil, &jr.Error{Code: codeNoConn, Message: "no connection"}
	}
	ct := connTagOf(ctx)
	w.mu.Lock()
	_, exists := w.subs[subKey(ct, a)]
	if !exists {
		s := &subState{w: w, connTag: ct, key: a, conn: conn, cmds: make(chan cmd), done: make(chan struct{}), quit: make(chan struct{}), state: "active"}
		s.ctx, s.cancel = context.WithCancel(conn.Context())
		if a >= freeRunFrom {
			s.free = 1 << 30
			s.padLen = 64 + (a*7919)%20000
		}
		w.subs[subKey(ct, a)] = s
		go s.run()
	}
	w.mu.Unlock()
	if e := leave(); e != nil {
		return nil, e
	}
	if exists {
		return nil, &jr.Error{Code: codeExists, Message: "subscription exists"}
	}
	return map[string]any{"sub": a}, nil
}

func (w *world) unsub(ctx context.Context, a int, b string) (any, *jr.Error) {
	leave := w.enter(ctx, "unsub", a, b)
	conn, ok := jr.ConnFromContext(ctx)
	if !ok {
		if e := leave(); e != nil {
			return nil, e
		}
		return nil, &jr.Error{Code: codeNoConn, Message: "no connection"}
	}
	ct := connTagOf(ctx)
	w.mu.Lock()
	s := w.subs[subKey(ct, a)]
	active := s != nil && s.state == "active"
	if active {
		s.state = "cancelled"
		if !s.conn.Equal(conn) {
			w.equalF++
		}
	}
	w.mu.Unlock()
	if active {
		s.end()
		<-s.done // like rpc/v10 Unsubscribe: answer only after the subscription goroutine has ended
	}
	if e := leave(); e != nil {
		return nil, e
	}
	if !active {
		return nil, &jr.Error{Code: codeNoSub, Message: "no such subscription"}
	}
	return true, nil
}

func padFor(key, n, l int) string {
	return strings.Repeat(string(rune('a'+(key*31+n)%26)), l)
}

func notePayload(connTag string, key, n, padLen int) []byte {
	return []byte(fmt.Sprintf(`{"jsonrpc":"2.0","method":%q,"params":{"conn":%q,"sub":%d,"seq":%d,"pad":%q}}`,
		noteMethod, connTag, key, n, padFor(key, n, padLen)))
}

func (s *subState) end() {
	s.unsubbed.Store(true)
	s.quitOnce.Do(func() { close(s.quit) })
	s.cancel()
}

func (s *subState) run() {
	defer close(s.done)
	ctxDone := s.ctx.Done()
	for {
		if s.free > 0 && ctxDone != nil {
			select {
			case <-ctxDone:
			case <-s.quit:
				return
			default:
				s.n++
				if _, err := s.conn.Write(notePayload(s.connTag, s.key, s.n, s.padLen)); err == nil {
					s.okWrites.Add(1)
				}
				s.free--
				continue
			}
		}
		select {
		case <-s.quit:
			return
		case <-ctxDone:
			if s.unsubbed.Load() {
				return
			}
			ctxDone = nil // the connection context: stay for the scheduler's questions
		case c := <-s.cmds:
			switch c.op {
			case "write":
				s.n++
				_, err := s.conn.Write(notePayload(s.connTag, s.key, s.n, 16))
				if err == nil {
					s.okWrites.Add(1)
				}
				c.reply <- err
			case "told":
				select {
				case <-s.conn.Context().Done():
					c.reply <- nil
				case <-time.After(stepWait):
					c.reply <- errors.New("timeout")
				}
			case "exit":
				c.reply <- nil
				return
			}
		}
	}
}

func (s *subState) ask(op string) chan error {
	reply := make(chan error, 1)
	select {
	case s.cmds <- cmd{op: op, reply: reply}:
	case <-s.done:
		reply <- errors.New("goroutine ended")
	}
	return reply
}

func (s *subState) stop() {
	select {
	case <-s.done:
		return
	default:
	}
	s.end()
	select {
	case <-s.done:
	case <-time.After(stepWait):
	}
}

func (w *world) subOf(connTag string, key int) *subState {
	w.mu.Lock()
	defer w.mu.Unlock()
	return w.subs[subKey(connTag, key)]
}

func (w *world) subsOfConn(connTag string) []*subState {
	w.mu.Lock()
	defer w.mu.Unlock()
	var out []*subState
	for _, s := range w.subs {
		if s.connTag == connTag {
			out = append(out, s)
		}
	}
	sort.Slice(out, func(i, j int) bool { return out[i].key < out[j].key })
	return out
}

// ---------------------------------------------------------------------------- the real client

type rxFrame struct {
	data []byte
	err  error
}

type client struct {
	tag    string
	c      *websocket.Conn
	frames chan rxFrame
	cancel context.CancelFunc
	served chan struct{}
	ended  error // set once the reader has seen the end of the connection
}

func (w *world) dial(tag string) (*client, error) {
	served := make(chan struct{})
	w.mu.Lock()
	w.served[tag] = served
	w.mu.Unlock()
	ctx, cancel := context.WithTimeout(context.Background(), stepWait)
	defer cancel()
	c, _, err := websocket.Dial(ctx, w.hs.URL+"/?c="+tag, nil) //nolint:bodyclose
	if err != nil {
		return nil, err
	}
	c.SetReadLimit(-1)
	rctx, rcancel := context.WithCancel(context.Background())
	cl := &client{tag: tag, c: c, frames: make(chan rxFrame, 4096), cancel: rcancel, served: served}
	go func() {
		for {
			_, data, err := c.Read(rctx)
			cl.frames <- rxFrame{data: data, err: err}
			if err != nil {
				return
			}
		}
	}()
	return cl, nil
}

func (cl *client) send(data []byte) error {
	ctx, cancel := context.WithTimeout(context.Background(), stepWait)
	defer cancel()
	return cl.c.Write(ctx, websocket.MessageText, data)
}

// sendFrag sends data as ONE message cut into non-final frames (one per part) and closed by an EMPTY final
// continuation frame - what a streaming writer (conn.Writer, wsjson.Write, many client libraries) puts on the wire.
func (cl *client) sendFrag(parts ...[]byte) error {
	ctx, cancel := context.WithTimeout(context.Background(), stepWait)
	defer cancel()
	w, err := cl.c.Writer(ctx, websocket.MessageText)
	if err != nil {
		return err
	}
	for _, p := range parts {
		if _, err := w.Write(p); err != nil {
			return err
		}
	}
	return w.Close()
}

// cut splits data at seeded points into 1..3 parts.
func cut(rng *rand.Rand, data []byte) [][]byte {
	n := 1 + rng.Intn(3)
	if len(data) < 8 {
		n = 1
	}
	var parts [][]byte
	for ; n > 1; n-- {
		k := 1 + rng.Intn(len(data)-1)
		parts = append(parts, data[:k])
		data = data[k:]
		if len(data) < 2 {
			break
		}
	}
	return append(parts, data)
}

// sendFramed sends one message in the given framing.
func (cl *client) sendFramed(data []byte, fm string, rng *rand.Rand) error {
	if fm == "frag" {
		return cl.sendFrag(cut(rng, data)...)
	}
	return cl.send(data)
}

// padValue: the JSON value (no surrounding whitespace), stretched from the inside to a length at which the server's
// readers stop (its 128-byte bufio.Reader, the decoder's 512-byte buffer - and one byte either side of them), then
// followed by insignificant whitespace: 1 byte .. more than any reader buffers, all of it inside the read limit.
func padValue(rng *rand.Rand, val string) string {
	targets := []int{0, 127, 128, 129, 511, 512, 513, 128, 512}
	t := targets[rng.Intn(len(targets))]
	if t > len(val) && len(val) > 2 && (val[0] == '{' || val[0] == '[') {
		val = val[:1] + strings.Repeat([]string{" ", "\n", "\t"}[rng.Intn(3)], t-len(val)) + val[1:]
	}
	tails := []int{1, 1, 2, 17, 129, 385, 600, 1500, 2500}
	n := tails[rng.Intn(len(tails))]
	if max := readLimit - len(val) - 1; n > max {
		n = max
	}
	if n < 1 {
		return val
	}
	if n <= 2 || rng.Intn(2) == 0 {
		return val + strings.Repeat("\n", n)
	}
	return val + strings.Repeat(" ", n)
}

// next returns the next frame (or the end of the connection); ok = false on harness timeout.
func (cl *client) next(d time.Duration) (rxFrame, bool) {
	if cl.ended != nil {
		return rxFrame{err: cl.ended}, true
	}
	select {
	case f := <-cl.frames:
		if f.err != nil {
			cl.ended = f.err
		}
		return f, true
	case <-time.After(d):
		return rxFrame{}, false
	}
}

func (cl *client) kill() {
	_ = cl.c.CloseNow()
	cl.cancel()
}

// ---------------------------------------------------------------------------- rendering

type concrete struct {
	id     string // JSON text of the id member, "" if absent
	a      int
	b      string
	hasAB  bool
	method string
}

type renderer struct{ rng *rand.Rand }

func (r *renderer) ws() string {
	switch r.rng.Intn(8) {
	case 0:
		return " "
	case 1:
		return "\n"
	case 2:
		return "\t "
	}
	return ""
}

func (r *renderer) slotA(tok, meth string) (string, int) {
	switch tok {
	case "p":
		if meth == "m2" {
			return "7", 7
		}
		return "1", 1
	case "q":
		if meth == "m2" {
			return "-7", -7
		}
		return "2", 2
	case "nul":
		return "null", 0
	}
	return `"NaN"`, 0
}

func (r *renderer) slotB(tok, tag string) (string, string) {
	switch tok {
	case "p":
		return strconv.Quote(tag), tag
	case "q":
		return strconv.Quote(tag + "~q"), tag + "~q"
	case "nul":
		return "null", ""
	}
	return "5", ""
}

var methodName = map[string]string{"m2": "m2", "sub": "sub", "unsub": "unsub", "boom": "boom", "unknown": "nope"}

func (r *renderer) entry(e absEntry, tag string, f, i int) (string, concrete) {
	c := concrete{method: e.Meth}
	switch e.K {
	case "scalar":
		return []string{"42", `"str"`, "true", "-1.5e3"}[r.rng.Intn(4)], c
	case "null":
		return "null", c
	case "arr":
		return "[1]", c
	}
	var members []string
	kv := func(k, v string) { members = append(members, strconv.Quote(k)+r.ws()+":"+r.ws()+v) }
	switch e.Ver {
	case "v2":
		kv("jsonrpc", `"2.0"`)
	case "v1":
		kv("jsonrpc", `"1.0"`)
	case "num":
		kv("jsonrpc", "2")
	case "null":
		kv("jsonrpc", "null")
	}
	switch e.Meth {
	case "absent":
	case "null":
		kv("method", "null")
	case "empty":
		kv("method", `""`)
	case "nonstr":
		kv("method", "5")
	default:
		kv("method", strconv.Quote(methodName[e.Meth]))
	}
	p := e.Params
	switch p.K {
	case "null":
		kv("params", "null")
	case "scalar":
		kv("params", "7")
	case "pos":
		var vs []string
		for j, t := range p.Pos {
			switch j {
			case 0:
				s, v := r.slotA(t, e.Meth)
				vs, c.a = append(vs, s), v
			case 1:
				s, v := r.slotB(t, tag)
				vs, c.b = append(vs, s), v
			default:
				vs = append(vs, "1")
			}
		}
		c.hasAB = len(p.Pos) >= 2
		kv("params", "["+strings.Join(vs, ","+r.ws())+"]")
	case "named":
		var vs []string
		if p.A != "-" {
			s, v := r.slotA(p.A, e.Meth)
			vs, c.a = append(vs, `"a":`+s), v
		}
		if p.B != "-" {
			s, v := r.slotB(p.B, tag)
			vs, c.b = append(vs, `"b":`+s), v
		}
		if p.X != "-" {
			vs = append(vs, `"x":1`)
		}
		r.rng.Shuffle(len(vs), func(x, y int) { vs[x], vs[y] = vs[y], vs[x] })
		c.hasAB = p.A != "-" && p.B != "-"
		kv("params", "{"+strings.Join(vs, ",")+"}")
	}
	switch e.ID {
	case "absent":
	case "null":
		kv("id", "null")
	case "int":
		c.id = strconv.Itoa(f*100 + i)
		kv("id", c.id)
	case "str":
		c.id = strconv.Quote(fmt.Sprintf("id-%d-%d", f, i))
		kv("id", c.id)
	case "float":
		c.id = "1.5"
		kv("id", "1.5")
	case "obj":
		c.id = "{}"
		kv("id", "{}")
	case "bool":
		c.id = "true"
		kv("id", "true")
	case "arr":
		c.id = "[]"
		kv("id", "[]")
	}
	r.rng.Shuffle(len(members), func(x, y int) { members[x], members[y] = members[y], members[x] })
	return "{" + r.ws() + strings.Join(members, r.ws()+","+r.ws()) + r.ws() + "}", c
}

var garbageTexts = []string{"{", "}", `{"jsonrpc":"2.0",}`, "nul", `"abc`, "@", "{'a':1}", "[1,", "[{]", `{"jsonrpc":"2.0","method":"m2"`}

func entryTag(conn string, f, i int) string { return fmt.Sprintf("%s-f%d-e%d", conn, f, i) }

// frame renders a frame; cs[i-1] is what entry i concretely carries.
func (r *renderer) frame(fr absFrame, conn string, f int) ([]byte, []concrete) {
	var cs []concrete
	switch fr.K {
	case "garbage":
		g := garbageTexts[r.rng.Intn(len(garbageTexts))]
		if fr.Fm == "pad" {
			g += strings.Repeat(" ", 1+r.rng.Intn(1500))
		}
		return []byte(g), nil
	case "big":
		// one request whose JSON value crosses the read limit
		return []byte(`{"jsonrpc":"2.0","method":"m2","params":[7,"` + entryTag(conn, f, 1) + `"],"id":"` +
			strings.Repeat("x", readLimit+100+r.rng.Intn(2000)) + `"}`), nil
	case "single", "bigtail":
		s, c := r.entry(fr.Es[0], entryTag(conn, f, 1), f, 1)
		switch {
		case fr.K == "bigtail":
			s += strings.Repeat(" ", readLimit+1+r.rng.Intn(500))
		case fr.Fm == "pad":
			s = padValue(r.rng, s)
		default:
			s = r.ws() + s + r.ws()
		}
		return []byte(s), []concrete{c}
	}
	var parts []string
	for i, e := range fr.Es {
		s, c := r.entry(e, entryTag(conn, f, i+1), f, i+1)
		parts = append(parts, s)
		cs = append(cs, c)
	}
	if fr.Fm == "pad" {
		return []byte(padValue(r.rng, "["+strings.Join(parts, r.ws()+","+r.ws())+"]")), cs
	}
	return []byte(r.ws() + "[" + strings.Join(parts, r.ws()+","+r.ws()) + "]" + r.ws()), cs
}

// ---------------------------------------------------------------------------- parsing what came back

type realResp struct {
	ID        any // nil (JSON null), json.Number or string
	HasID     bool
	HasResult bool
	Result    json.RawMessage
	HasError  bool
	Code      int
	Raw       string
}

type realNote struct {
	Conn string `json:"conn"`
	Sub  int    `json:"sub"`
	Seq  int    `json:"seq"`
	Pad  string `json:"pad"`
}

type parsed struct {
	kind  string // "object" | "array" | "note"
	resps []realResp
	note  realNote
}

func decodeOne(data []byte) (any, error) {
	dec := json.NewDecoder(bytes.NewReader(data))
	dec.UseNumber()
	var v any
	if err := dec.Decode(&v); err != nil {
		return nil, err
	}
	if _, err := dec.Token(); err != io.EOF {
		return nil, errors.New("more than one JSON value in the frame")
	}
	return v, nil
}

func parseResp(m map[string]any) (realResp, string) {
	var r realResp
	raw, _ := json.Marshal(m)
	r.Raw = string(raw)
	if v, ok := m["jsonrpc"].(string); !ok || v != "2.0" {
		return r, `"jsonrpc" is not "2.0"`
	}
	id, ok := m["id"]
	if !ok {
		return r, "response without id member"
	}
	r.HasID, r.ID = true, id
	switch id.(type) {
	case nil, string, json.Number:
	default:
		return r, "id is neither string, number nor null"
	}
	if res, ok := m["result"]; ok {
		r.HasResult = true
		r.Result, _ = json.Marshal(res)
	}
	if e, ok := m["error"]; ok {
		r.HasError = true
		em, ok := e.(map[string]any)
		if !ok {
			return r, "error is not an object"
		}
		n, ok := em["code"].(json.Number)
		if !ok {
			return r, "error.code is not a number"
		}
		c, err := n.Int64()
		if err != nil {
			return r, "error.code is not an integer"
		}
		r.Code = int(c)
		if _, ok := em["message"].(string); !ok {
			return r, "error.message is not a string"
		}
	}
	if r.HasResult == r.HasError {
		return r, "not exactly one of result / error"
	}
	for k := range m {
		switch k {
		case "jsonrpc", "id", "result", "error":
		default:
			return r, "unexpected member " + k
		}
	}
	return r, ""
}

func parseFrame(data []byte) (parsed, string) {
	v, err := decodeOne(data)
	if err != nil {
		return parsed{}, "the frame is not one JSON value: " + err.Error()
	}
	switch x := v.(type) {
	case map[string]any:
		if m, ok := x["method"].(string); ok && m == noteMethod {
			var p parsed
			p.kind = "note"
			raw, _ := json.Marshal(x["params"])
			if err := json.Unmarshal(raw, &p.note); err != nil {
				return p, "notification params: " + err.Error()
			}
			if _, hasID := x["id"]; hasID {
				return p, "notification with id"
			}
			return p, ""
		}
		r, why := parseResp(x)
		return parsed{kind: "object", resps: []realResp{r}}, why
	case []any:
		p := parsed{kind: "array"}
		if len(x) == 0 {
			return p, "empty array"
		}
		for _, it := range x {
			m, ok := it.(map[string]any)
			if !ok {
				return p, "array element is not an object"
			}
			r, why := parseResp(m)
			p.resps = append(p.resps, r)
			if why != "" {
				return p, why
			}
		}
		return p, ""
	}
	return parsed{}, "the frame is neither object nor array"
}

func idText(v any) string {
	switch x := v.(type) {
	case nil:
		return "null"
	case json.Number:
		return x.String()
	case string:
		return strconv.Quote(x)
	}
	return "?"
}

func short(b []byte) string {
	if len(b) > 300 {
		return string(b[:300]) + fmt.Sprintf("...(%d bytes)", len(b))
	}
	return string(b)
}

// canonical form for transport comparison: array elements sorted, parse-error data dropped (it quotes
// a window of the input whose extent depends on how the transport chunks its reads).
func canon(data []byte) string {
	if len(bytes.TrimSpace(data)) == 0 {
		return "<nothing>"
	}
	v, err := decodeOne(data)
	if err != nil {
		return "<unparsable> " + short(data)
	}
	var norm func(any) any
	norm = func(v any) any {
		if m, ok := v.(map[string]any); ok {
			if e, ok := m["error"].(map[string]any); ok {
				if c, ok := e["code"].(json.Number); ok && c.String() == "-32700" {
					delete(e, "data")
				}
			}
		}
		return v
	}
	if arr, ok := v.([]any); ok {
		var ss []string
		for _, it := range arr {
			b, _ := json.Marshal(norm(it))
			ss = append(ss, string(b))
		}
		sort.Strings(ss)
		return "[" + strings.Join(ss, ",") + "]"
	}
	b, _ := json.Marshal(norm(v))
	return string(b)
}

// ---------------------------------------------------------------------------- one replayed behaviour

type engine struct {
	out      *vh.Result
	seed     int64
	timeouts atomic.Int64
	stop     atomic.Bool
	divs     atomic.Int64
	sampled  atomic.Int64
}

type run struct {
	g      *engine
	w      *world
	twin   *world
	cl     *client
	by     *client
	b      *behaviour
	idx    int
	rd     *renderer
	frames []absFrame
	bytes  [][]byte
	conc   [][]concrete
	inv    [][]bool
	wsOut  map[int][]byte // frame -> response bytes (nil: nothing)
	closed bool           // the client has sent its close frame
	exited bool           // ServeHTTP has returned
	shut   bool
	writes map[int]chan error
	step   int
	failed bool
	notes  map[int]int // notifications received per subscription
}

func (r *run) input() any {
	return vh.J{"behaviours": []behaviour{*r.b}, "seed": r.g.seed, "index": r.idx}
}

func (r *run) diverge(key, what string, exp, obs any) {
	r.failed = true
	r.g.divs.Add(1)
	r.g.out.Diverge(vh.Divergence{Key: key, What: what, Input: r.input(), Step: r.step, Expected: exp, Observed: obs})
}

// finding: a keyed deviation that does not invalidate the rest of the behaviour (and does not count
// towards the limit after which the replay gives up)
func (r *run) finding(key, what string, exp, obs any) {
	r.g.out.Diverge(vh.Divergence{Key: key, What: what, Input: r.input(), Step: r.step, Expected: exp, Observed: obs})
}

func (r *run) timeout(what string) {
	r.failed = true
	r.g.timeouts.Add(1)
	r.g.out.Count("harness_timeouts", 1)
	r.g.out.Sample(vh.J{"harness_timeout": what, "behaviour": r.idx, "step": r.step})
}

func (r *run) tag() string { return r.cl.tag }

// probe: after an awaited event did not come, open every gate and push one more request through the
// connection.  If that request is answered, the sequential loop has passed the point where the event
// would have happened: the absence is an observation, not a timeout.
func (r *run) probe() (answered bool, between [][]byte) {
	r.w.openGates(r.tag() + "-")
	if err := r.cl.send([]byte(`{"jsonrpc":"2.0","method":"m2","params":[7,"probe"],"id":"probe"}`)); err != nil {
		return false, nil
	}
	deadline := time.Now().Add(probeWait)
	for time.Now().Before(deadline) {
		f, ok := r.cl.next(time.Until(deadline))
		if !ok || f.err != nil {
			return false, between
		}
		if bytes.Contains(f.data, []byte(`"id":"probe"`)) {
			return true, between
		}
		between = append(between, f.data)
	}
	return false, between
}

func (r *run) expectedID(f, e int, mode string) []string {
	echo := ""
	if e >= 1 && f >= 1 && f <= len(r.conc) && e <= len(r.conc[f-1]) {
		echo = r.conc[f-1][e-1].id
	}
	switch mode {
	case "echo":
		return []string{echo}
	case "either":
		return []string{"null", echo}
	}
	return []string{"null"}
}

func (r *run) expectedResult(f, e int) string {
	c := r.conc[f-1][e-1]
	switch c.method {
	case "sub":
		return fmt.Sprintf(`{"sub":%d}`, c.a)
	case "unsub":
		return "true"
	}
	b, _ := json.Marshal(map[string]any{"m": "m2", "a": c.a, "b": c.b})
	return string(b)
}

func canonJSON(raw json.RawMessage) string {
	var v any
	dec := json.NewDecoder(bytes.NewReader(raw))
	dec.UseNumber()
	if dec.Decode(&v) != nil {
		return string(raw)
	}
	b, _ := json.Marshal(v)
	return string(b)
}

// checkResp compares a received response frame with the frame the model put on the wire.
func (r *run) checkResp(data []byte, exp wireFrame) {
	p, why := parseFrame(data)
	if why != "" {
		r.diverge("ws-frame:malformed:"+keyify(why), "a frame received on the websocket is not a well-formed JSON-RPC response: "+why,
			exp, short(data))
		return
	}
	if p.kind == "note" {
		r.diverge("ws-stream:expected-response:observed-notification",
			fmt.Sprintf("a notification of subscription %d arrived where the response to frame %d was due "+
				"(a handler-initiated write overtook the initial response)", p.note.Sub, exp.F), exp, short(data))
		return
	}
	if p.kind != exp.Shape {
		r.diverge("ws-response:shape:"+exp.Shape+"-expected", "response shape", exp, short(data))
		return
	}
	fr := r.frames[exp.F-1]
	left := append([]realResp(nil), p.resps...)
	for _, want := range exp.Body {
		found := -1
		asIsOnly := false
		for j, got := range left {
			ids := r.expectedID(exp.F, want.E, want.ID)
			idOK := false
			for _, s := range ids {
				if idText(got.ID) == s {
					idOK = true
				}
			}
			if !idOK || (want.Kind == "result") != got.HasResult {
				continue
			}
			if want.Kind == "error" && got.Code != want.Code {
				// C11's known finding: the model of the code as it is says -32700 here, the property -32600
				if want.Code == -32700 && want.E == 1 && got.Code == -32600 {
					asIsOnly = true
				} else {
					continue
				}
			}
			if want.Kind == "result" && canonJSON(got.Result) != r.expectedResult(exp.F, want.E) {
				continue
			}
			found = j
			break
		}
		if found < 0 {
			r.diverge(fmt.Sprintf("ws-response:entry-unanswered-or-wrong:%s:%d", want.Kind, want.Code),
				fmt.Sprintf("frame %d (%s) entry %d: no response with the owed id / kind / code / payload among the received ones",
					exp.F, fr.K, want.E), vh.J{"want": want, "id": r.expectedID(exp.F, want.E, want.ID)}, short(data))
			return
		}
		if want.Kind == "error" && want.Code == -32700 && want.E == 1 && !asIsOnly && (fr.K == "single" || fr.K == "bigtail") {
			k := "member-type"
			if fr.Es[0].K == "scalar" {
				k = "scalar"
			}
			r.finding("jsonrpc:nonrequest-parse-error:"+k,
				"websocket transport: a syntactically valid JSON text that is not a Request object is answered -32700 instead of -32600",
				-32600, short(data))
		}
		left = append(left[:found], left[found+1:]...)
	}
	if len(left) > 0 {
		r.diverge("ws-response:unowed-response", "the response frame carries a response nobody is owed", exp, short(data))
	}
}

func keyify(s string) string {
	s = strings.ToLower(s)
	if i := strings.IndexByte(s, ':'); i > 0 {
		s = s[:i]
	}
	s = strings.Map(func(c rune) rune {
		if (c >= 'a' && c <= 'z') || (c >= '0' && c <= '9') {
			return c
		}
		return '-'
	}, s)
	if len(s) > 48 {
		s = s[:48]
	}
	return strings.Trim(s, "-")
}

func (r *run) checkNote(data []byte, k, n int) {
	p, why := parseFrame(data)
	if why != "" {
		r.diverge("ws-frame:malformed:"+keyify(why), "a frame received on the websocket is not well-formed: "+why,
			vh.J{"note": k, "seq": n}, short(data))
		return
	}
	if p.kind != "note" {
		r.diverge("ws-stream:expected-notification:observed-response", "a response arrived where a notification was due",
			vh.J{"note": k, "seq": n}, short(data))
		return
	}
	if p.note.Conn != r.tag() {
		r.diverge("ws-cross-connection:notification-of-another-connection", "a notification written through the Conn of another connection arrived here",
			vh.J{"conn": r.tag()}, short(data))
		return
	}
	if p.note.Sub != k || p.note.Seq != n || p.note.Pad != padFor(k, n, 16) {
		r.diverge("ws-notification:order-or-content", "notification of the wrong subscription / out of sequence / altered",
			vh.J{"note": k, "seq": n}, short(data))
	}
	r.notes[k]++
}

// expectFrame reads the next frame the client receives; what = description for timeouts.
func (r *run) expectFrame(what string) ([]byte, bool) {
	f, ok := r.cl.next(stepWait)
	if !ok {
		if answered, between := r.probe(); answered {
			r.diverge("ws-stream:missing:"+keyify(what),
				"the server answered a later request but "+what+" never arrived (the sequential loop had passed it)",
				what, fmt.Sprintf("%d other frames before the probe's answer", len(between)))
		} else {
			r.timeout(what)
		}
		return nil, false
	}
	if f.err != nil {
		if fm := r.oddFraming(); fm != "" {
			r.diverge("ws-framing:later-message-unanswered:after-"+fm,
				"the server ended the connection where "+what+" was due, after the client had sent a well-formed message "+framingText[fm]+
					": every later message on the connection goes unanswered ("+f.err.Error()+")", what, f.err.Error())
			return nil, false
		}
		r.diverge("ws-stream:connection-ended-early:"+keyify(what),
			"the connection ended where "+what+" was due: "+f.err.Error(), what, f.err.Error())
		return nil, false
	}
	return f.data, true
}

var framingText = map[string]string{
	"frag": "cut into non-final frames closed by an empty FIN frame (a streaming writer)",
	"pad":  "followed by insignificant whitespace inside the read limit",
}

// oddFraming: the framing of the last message sent so far that was not one compact frame ("" if none).
func (r *run) oddFraming() string {
	for i := len(r.frames) - 1; i >= 0; i-- {
		if r.frames[i].K != "big" && r.frames[i].K != "bigtail" && (r.frames[i].Fm == "frag" || r.frames[i].Fm == "pad") {
			return r.frames[i].Fm
		}
	}
	return ""
}

// expectEnd drains the client until the connection ends; wantStatus 0 = any ending.
func (r *run) expectEnd(what string, wantStatus int, f int) {
	for {
		fr, ok := r.cl.next(stepWait)
		if !ok {
			if answered, _ := r.probe(); answered {
				r.diverge("ws-close:connection-still-serving:"+keyify(what),
					"the connection was to be closed ("+what+") but the server still answers requests on it", what, "probe answered")
			} else {
				r.timeout(what)
			}
			return
		}
		if fr.err != nil {
			st := int(websocket.CloseStatus(fr.err))
			if wantStatus != 0 && st != wantStatus {
				r.diverge(fmt.Sprintf("ws-close:status:%d-instead-of-%d", st, wantStatus),
					"the connection ended with another status than documented for "+what, wantStatus, fr.err.Error())
			}
			return
		}
		if wantStatus == int(websocket.StatusMessageTooBig) && f > 0 {
			r.diverge("ws-read-limit:oversized-message-answered",
				fmt.Sprintf("frame %d is longer than ReadLimit; a data frame arrived instead of the close", f), what, short(fr.data))
			return
		}
		if r.shut {
			continue // what a goroutine still manages to write between the signal and the close is a race
		}
		r.diverge("ws-stream:unexpected-frame-before-close", "a frame nobody is owed arrived before the connection ended ("+what+")",
			what, short(fr.data))
		return
	}
}

func (r *run) waitServed(what string) bool {
	select {
	case <-r.cl.served:
	case <-time.After(stepWait):
		r.timeout("ServeHTTP to return: " + what)
		return false
	}
	r.exited = true
	// (3) once ServeHTTP has returned, every handler-held Conn's context is cancelled
	for _, s := range r.w.subsOfConn(r.tag()) {
		if s.conn.Context().Err() == nil {
			r.diverge("ws-close:conn-context-not-cancelled-after-serve-returned",
				"ServeHTTP has returned ("+what+") but Conn.Context() of a handler-held connection is not cancelled: "+
					"subscription goroutines are never told", "cancelled", fmt.Sprintf("subscription %d: Err() == nil", s.key))
			break
		}
	}
	return true
}

func (r *run) doStep(s mstep) {
	switch s.A {
	case "ClientSend":
		f := s.X
		data, cs := r.rd.frame(s.Fr, r.tag(), f)
		r.frames = append(r.frames, s.Fr)
		r.bytes = append(r.bytes, data)
		r.conc = append(r.conc, cs)
		r.inv = append(r.inv, s.Inv)
		for i := range s.Fr.Es {
			r.w.newGate(entryTag(r.tag(), f, i+1))
		}
		if err := r.cl.sendFramed(data, s.Fr.Fm, r.rd.rng); err != nil {
			r.timeout("client write failed: " + err.Error())
		}
		if s.Fr.Fm == "frag" || s.Fr.Fm == "pad" {
			r.g.out.Count("messages_sent_"+map[string]string{"frag": "fragmented_with_empty_fin", "pad": "with_padding_behind_the_value"}[s.Fr.Fm], 1)
		}
	case "ServerRead", "RespNone":
		if s.A == "RespNone" {
			r.wsOut[s.X] = nil
		}
	case "Start":
		g := r.w.gateOf(entryTag(r.tag(), s.X, s.Y))
		select {
		case <-g.started:
		case <-time.After(stepWait):
			if answered, _ := r.probe(); answered {
				r.diverge("ws-loop:request-not-handled",
					fmt.Sprintf("frame %d entry %d is a valid request but its handler was never invoked although the server "+
						"answered a later request on the connection", s.X, s.Y), "handler invoked", "not invoked")
			} else {
				r.timeout(fmt.Sprintf("handler start of frame %d entry %d", s.X, s.Y))
			}
		}
	case "Finish":
		r.w.gateOf(entryTag(r.tag(), s.X, s.Y)).open()
	case "Respond":
		if r.closed {
			return
		}
		data, ok := r.expectFrame(fmt.Sprintf("the response to frame %d", s.X))
		if !ok {
			return
		}
		r.wsOut[s.X] = data
		r.checkResp(data, s.Put[0])
	case "RespUnser":
		// the promise, whatever the switch of the model says: a connection the server ends because it cannot
		// serialise an answer is closed with StatusInternalError
		if r.closed {
			r.waitServed("unserialisable answer")
			return
		}
		long := r.conc[s.X-1][0].a == 2
		for {
			f, ok := r.cl.next(stepWait)
			if !ok {
				r.timeout("close after an unserialisable answer")
				return
			}
			if f.err == nil {
				r.diverge("ws-stream:unexpected-frame-before-close", "a frame arrived although the answer cannot be serialised", "close 1011", short(f.data))
				return
			}
			if st := websocket.CloseStatus(f.err); st != websocket.StatusInternalError {
				if long && st == -1 {
					r.finding("ws-close:no-close-frame:reason-longer-than-123-bytes",
						"ServeHTTP ends the connection for an internal error whose text is longer than 123 bytes: the reason is cut at "+
							"125 bytes, coder/websocket refuses to build the close frame and the client sees the connection drop without status",
						"close 1011", f.err.Error())
				} else {
					r.diverge(fmt.Sprintf("ws-close:status:%d-instead-of-%d", int(st), int(websocket.StatusInternalError)),
						"internal error: the connection ended with another status", 1011, f.err.Error())
					return
				}
			} else if long {
				r.g.out.Count("long_close_reason_delivered", 1)
			}
			break
		}
		r.waitServed("unserialisable answer")
	case "ReadBig", "TailClose":
		if !r.closed {
			r.expectEnd("message longer than ReadLimit", int(websocket.StatusMessageTooBig), map[bool]int{true: s.X, false: 0}[s.A == "ReadBig"])
		}
		r.waitServed("read limit")
	case "ClientClose":
		r.closed = true
		go func() { _ = r.cl.c.Close(websocket.StatusNormalClosure, "") }()
	case "ServerShutdown":
		r.shut = true
		r.w.shutOnce.Do(func() { close(r.w.shutdown) })
	case "ServerExit":
		if !r.waitServed("client close / shutdown") {
			return
		}
		if !r.closed {
			r.expectEnd("server shutdown", 0, 0)
		}
	case "NoteStart":
		sub := r.w.subOf(r.tag(), s.X)
		if sub == nil {
			r.diverge("ws-handler:subscription-missing", "the subscribe handler ran but no subscription exists", s, nil)
			return
		}
		if !r.exited && !r.shut && sub.conn.Context().Err() != nil {
			r.diverge("ws-conn:context-cancelled-on-live-connection",
				"Conn.Context() of a handler-held connection is cancelled although the connection is open and serving",
				"not cancelled", sub.conn.Context().Err().Error())
			return
		}
		r.writes[s.X] = sub.ask("write")
	case "NoteWrite", "NoteFail":
		var err error
		select {
		case err = <-r.writes[s.X]:
		case <-time.After(stepWait):
			if s.A == "NoteWrite" && !r.closed {
				r.timeout(fmt.Sprintf("Conn.Write of subscription %d to return", s.X))
			} else {
				r.timeout(fmt.Sprintf("Conn.Write of subscription %d to return (expected to fail)", s.X))
			}
			return
		}
		if s.A == "NoteFail" {
			if err == nil {
				r.diverge("ws-close:write-after-close-succeeded",
					"a handler-held Conn accepted a write (returned nil) after ServeHTTP had returned for its connection",
					"error", "nil")
			}
			return
		}
		if err != nil {
			r.diverge("ws-conn:write-failed-on-live-connection", "Conn.Write failed on an open connection: "+err.Error(), "nil", err.Error())
			return
		}
		if r.closed {
			return
		}
		data, ok := r.expectFrame(fmt.Sprintf("notification %d of subscription %d", s.Y, s.X))
		if ok {
			r.checkNote(data, s.X, s.Y)
		}
	case "Told":
		sub := r.w.subOf(r.tag(), s.X)
		if sub == nil {
			return
		}
		if err := <-sub.ask("told"); err != nil {
			if r.exited {
				r.diverge("ws-close:conn-context-not-cancelled-after-serve-returned",
					"the subscription goroutine is not told: Conn.Context() is not done after ServeHTTP returned", "done", "not done")
			} else {
				r.timeout("Conn.Context() to be cancelled after shutdown")
			}
			return
		}
		r.w.mu.Lock()
		sub.state = "told"
		r.w.mu.Unlock()
	case "GorExit":
		sub := r.w.subOf(r.tag(), s.X)
		if sub == nil {
			return
		}
		select {
		case <-sub.done:
		case <-time.After(stepWait):
			r.timeout("subscription goroutine to end after unsub")
		}
	default:
		panic("unknown model action " + s.A)
	}
}

// finish: let everything in flight complete, then push a sentinel through the connection; all
// frames in between must be owed to somebody.
func (r *run) finish() {
	defer func() {
		r.cl.kill()
		if r.by != nil {
			r.by.kill()
		}
	}()
	if r.failed {
		return
	}
	alive := !r.closed && !r.exited && !r.shut
	if alive {
		r.w.openGates(r.tag() + "-")
		if err := r.cl.send([]byte(`{"jsonrpc":"2.0","method":"m2","params":[7,"sentinel"],"id":"sentinel"}`)); err != nil {
			r.timeout("sentinel write: " + err.Error())
			return
		}
		seen := map[string]bool{}
		for {
			f, ok := r.cl.next(probeWait)
			if !ok {
				r.timeout("the sentinel's response")
				return
			}
			if f.err != nil {
				// frames still queued when the behaviour was cut may end the connection (read limit)
				if websocket.CloseStatus(f.err) != websocket.StatusMessageTooBig {
					if fm := r.oddFraming(); fm != "" {
						r.diverge("ws-framing:later-message-unanswered:after-"+fm,
							"the server ended the connection before a later request (the sentinel) was answered, after the client had sent a well-formed message "+
								framingText[fm]+" ("+f.err.Error()+")", "sentinel response", f.err.Error())
					} else {
						r.diverge("ws-stream:connection-ended-early:sentinel", "the connection ended before the sentinel was answered: "+f.err.Error(),
							"sentinel response", f.err.Error())
					}
				}
				break
			}
			p, why := parseFrame(f.data)
			if why != "" {
				r.diverge("ws-frame:malformed:"+keyify(why), "a frame received on the websocket is not well-formed: "+why, nil, short(f.data))
				return
			}
			if p.kind == "note" {
				r.diverge("ws-stream:unexpected-notification", "a notification nobody asked for arrived (the scheduler starts every write)",
					nil, short(f.data))
				return
			}
			done := false
			for _, rr := range p.resps {
				id := idText(rr.ID)
				if id == `"sentinel"` {
					done = true
					continue
				}
				if id != "null" && seen[id] {
					r.diverge("ws-response:duplicate", "two responses with the same id on one connection", id, short(f.data))
					return
				}
				seen[id] = true
				for fi, out := range r.wsOut {
					if out != nil && id != "null" && bytes.Contains(out, []byte(`"id":`+id)) {
						r.diverge("ws-response:duplicate", fmt.Sprintf("frame %d was already answered", fi), id, short(f.data))
						return
					}
				}
			}
			if done {
				break
			}
		}
	}
	// invocations: exactly once per valid request the server has processed
	r.w.mu.Lock()
	invs := append([]invocation(nil), r.w.invs[r.tag()]...)
	r.w.mu.Unlock()
	count := map[string]int{}
	for _, v := range invs {
		count[v.Tag]++
	}
	for f := range r.frames {
		for i := range r.frames[f].Es {
			t := entryTag(r.tag(), f+1, i+1)
			owed := i < len(r.inv[f]) && r.inv[f][i]
			switch {
			case count[t] > 1:
				r.diverge("ws-handler:invoked-twice", fmt.Sprintf("frame %d entry %d: handler invoked %d times", f+1, i+1, count[t]), 1, count[t])
				return
			case count[t] == 1 && !owed:
				r.diverge("ws-handler:invoked-for-invalid-request", fmt.Sprintf("frame %d entry %d is not a valid request but a handler ran", f+1, i+1), 0, 1)
				return
			case count[t] == 0 && owed && alive:
				r.diverge("ws-loop:request-not-handled", fmt.Sprintf("frame %d entry %d: handler never invoked although the sentinel sent after it was answered", f+1, i+1), 1, 0)
				return
			}
		}
	}
	for _, v := range invs {
		if !v.Conn {
			r.diverge("ws-handler:no-conn-in-context", "a handler invoked over the websocket found no Conn in its context", v, nil)
			return
		}
	}
	r.w.mu.Lock()
	eq := r.w.equalF
	r.w.mu.Unlock()
	if eq > 0 {
		r.diverge("ws-conn:equal-false-for-same-connection", "Conn.Equal is false for two messages of the same connection", true, false)
		return
	}
	// the bystander connection has seen nothing of all this and is still served
	if r.by != nil && !r.shut {
		sub := r.w.subOf(r.by.tag, 1)
		if sub == nil {
			r.timeout("bystander subscription missing")
			return
		}
		if err := <-sub.ask("write"); err != nil {
			r.diverge("ws-conn:write-failed-on-live-connection", "the bystander connection's Conn.Write failed after the other connection's life: "+err.Error(), "nil", err.Error())
			return
		}
		f, ok := r.by.next(stepWait)
		if !ok {
			r.timeout("bystander notification")
			return
		}
		if f.err != nil {
			r.diverge("ws-cross-connection:bystander-closed", "another connection of the same server was closed too: "+f.err.Error(), "open", f.err.Error())
			return
		}
		p, why := parseFrame(f.data)
		if why != "" || p.kind != "note" || p.note.Conn != r.by.tag || p.note.Seq != 1 {
			r.diverge("ws-cross-connection:frame-on-bystander", "the bystander connection received a frame that is not its own first notification "+why,
				"its notification 1", short(f.data))
			return
		}
	}
	// (1) transport independence: the same bytes through HandleReader and the HTTP handler of a twin server
	for f, fr := range r.frames {
		out, known := r.wsOut[f+1]
		if !known || fr.K == "big" {
			continue
		}
		skip := false
		for _, e := range fr.Es {
			if e.Meth == "sub" || e.Meth == "unsub" || e.Meth == "boom" {
				skip = true // their answer depends on the connection by design
			}
		}
		if skip {
			continue
		}
		want := canon(out)
		rb, _, err := r.twin.rpc.HandleReader(context.Background(), bytes.NewReader(r.bytes[f]))
		if err != nil {
			r.diverge("ws-transport:handlereader-error", "HandleReader failed on bytes the websocket transport answered: "+err.Error(), want, err.Error())
			return
		}
		req := httptest.NewRequest(http.MethodPost, "/", bytes.NewReader(r.bytes[f]))
		rec := httptest.NewRecorder()
		r.twin.httpT.ServeHTTP(rec, req)
		if got := canon(rb); got != want {
			r.diverge("ws-transport:differs-from-handlereader", fmt.Sprintf("frame %d: the websocket transport and HandleReader answer the same bytes differently", f+1),
				vh.J{"ws": want, "bytes": short(r.bytes[f])}, got)
			return
		}
		if got := canon(rec.Body.Bytes()); got != want || rec.Code != http.StatusOK {
			r.diverge("ws-transport:differs-from-http", fmt.Sprintf("frame %d: the websocket and HTTP transports answer the same bytes differently", f+1),
				vh.J{"ws": want, "bytes": short(r.bytes[f])}, vh.J{"status": rec.Code, "body": got})
			return
		}
		r.g.out.Count("exchanges_compared_across_transports", 1)
	}
}

func (g *engine) replay(b *behaviour, idx int) {
	w := newWorld(fmt.Sprintf("w%d", idx), 2, true)
	defer w.close()
	r := &run{g: g, w: w, twin: newWorld("twin", 2, false), b: b, idx: idx, wsOut: map[int][]byte{}, writes: map[int]chan error{}, notes: map[int]int{},
		rd: &renderer{rng: rand.New(rand.NewSource(g.seed*1_000_003 + int64(idx)))}}
	var err error
	if r.cl, err = w.dial(fmt.Sprintf("c%d", idx)); err != nil {
		g.timeouts.Add(1)
		g.out.Count("harness_timeouts", 1)
		g.out.Sample(vh.J{"harness_timeout": "dial: " + err.Error()})
		return
	}
	if r.by, err = w.dial(fmt.Sprintf("by%d", idx)); err == nil {
		_ = r.by.send([]byte(`{"jsonrpc":"2.0","method":"sub","params":[1,"by"],"id":1}`))
		if f, ok := r.by.next(stepWait); !ok {
			r.timeout("bystander subscribe")
		} else if f.err != nil {
			r.diverge("ws-directed:exchange-failed", "a plain subscribe on a fresh connection ended the connection: "+f.err.Error(), nil, f.err.Error())
		} else if _, why := parseFrame(f.data); why != "" {
			r.diverge("ws-frame:malformed:"+keyify(why), "a frame received on the websocket is not a well-formed JSON-RPC response: "+why, nil, short(f.data))
		} else if !bytes.Contains(f.data, []byte(`"result":{"sub":1}`)) || !bytes.Contains(f.data, []byte(`"id":1`)) {
			r.diverge("ws-response:entry-unanswered-or-wrong:result:0", "a plain subscribe on a fresh connection is not answered with its result and id",
				`{"jsonrpc":"2.0","result":{"sub":1},"id":1}`, short(f.data))
		}
	}
	for i, s := range b.Steps {
		if r.failed {
			break
		}
		r.step = i
		r.doStep(s)
	}
	r.finish()
	nontrivial := 0
	for _, s := range b.Steps {
		if s.A == "Respond" || s.A == "NoteWrite" {
			nontrivial++
		}
	}
	if !r.failed {
		g.out.Done(1, len(b.Steps))
		g.out.Count("frames_matched_with_the_model", nontrivial)
		if g.sampled.Add(1) <= 2 {
			var acts []string
			for _, s := range b.Steps {
				acts = append(acts, fmt.Sprintf("%s(%d,%d)", s.A, s.X, s.Y))
			}
			g.out.Sample(vh.J{"behaviour": strings.Join(acts, " ")})
		}
	}
}

func TestWsReplay(t *testing.T) {
	if !vh.Enabled() {
		t.Skip("driver only")
	}
	var in input
	if err := vh.Input(&in); err != nil {
		t.Fatal(err)
	}
	out := vh.NewResult()
	defer out.Write()
	g := &engine{out: out, seed: in.Seed}
	var wg sync.WaitGroup
	var next atomic.Int64
	for wk := 0; wk < 4; wk++ {
		wg.Add(1)
		go func() {
			defer wg.Done()
			for {
				i := int(next.Add(1)) - 1
				if i >= len(in.Behaviours) || g.divs.Load() >= 6 || g.timeouts.Load() >= 3 {
					return
				}
				g.replay(&in.Behaviours[i], i)
			}
		}()
	}
	wg.Wait()
}

// ---------------------------------------------------------------------------- stress: the monitor IS property (2)

type owed struct {
	ids   map[string]string // id text -> "result" | code
	parse bool              // one -32700 object with id null
	unsub int               // key whose subscription this frame ends (0 none)
	last  bool              // the sentinel
}

type stressConn struct {
	g     *engine
	w     *world
	tag   string
	keys  []int
	queue []owed
	mu    sync.Mutex
}

func (sc *stressConn) diverge(key, what string, exp, obs any, in *input) {
	sc.g.divs.Add(1)
	sc.g.out.Diverge(vh.Divergence{Key: key, What: what, Input: in, Expected: exp, Observed: obs})
}

func (sc *stressConn) run(in *input, rng *rand.Rand) {
	ctx := context.Background()
	c, _, err := websocket.Dial(ctx, sc.w.hs.URL+"/?c="+sc.tag, nil) //nolint:bodyclose
	if err != nil {
		sc.g.timeouts.Add(1)
		sc.g.out.Count("harness_timeouts", 1)
		return
	}
	defer c.CloseNow() //nolint:errcheck
	c.SetReadLimit(-1)
	send := func(s string, o owed) bool {
		sc.mu.Lock()
		sc.queue = append(sc.queue, o)
		sc.mu.Unlock()
		wctx, cancel := context.WithTimeout(ctx, stepWait)
		defer cancel()
		switch rng.Intn(6) {
		case 0: // through a streaming writer: non-final frame(s) + empty FIN frame
			wr, err := c.Writer(wctx, websocket.MessageText)
			if err != nil {
				return false
			}
			for _, p := range cut(rng, []byte(s)) {
				if _, err := wr.Write(p); err != nil {
					return false
				}
			}
			sc.g.out.Count("stress_messages_fragmented", 1)
			return wr.Close() == nil
		case 1: // insignificant whitespace behind the value, inside the read limit
			if n := readLimit - len(s) - 1; n > 0 && json.Valid([]byte(s)) {
				s = padValue(rng, s)
				sc.g.out.Count("stress_messages_padded", 1)
			}
		}
		return c.Write(wctx, websocket.MessageText, []byte(s)) == nil
	}
	id := 0
	nextID := func() string { id++; return strconv.Itoa(id) }

	// ---- the monitor
	type verdict struct{ key, what, obs string }
	result := make(chan *verdict, 1)
	lastSeq := map[int]int{}
	ended := map[int]bool{}
	go func() {
		fail := func(key, what string, data []byte) { result <- &verdict{key, what, short(data)} }
		for {
			rctx, cancel := context.WithTimeout(ctx, probeWait)
			_, data, err := c.Read(rctx)
			cancel()
			if err != nil {
				if errors.Is(err, context.DeadlineExceeded) || strings.Contains(err.Error(), "deadline") {
					result <- &verdict{"", "timeout", err.Error()}
				} else {
					result <- &verdict{"ws-stress:connection-ended", "the connection ended during a stress round: " + err.Error(), ""}
				}
				return
			}
			sc.g.out.Count("stress_frames_checked", 1)
			p, why := parseFrame(data)
			if why != "" {
				fail("ws-frame:malformed:"+keyify(why), "concurrent writers: a received frame is not one well-formed JSON-RPC message: "+why, data)
				return
			}
			if p.kind == "note" {
				n := p.note
				if n.Conn != sc.tag {
					fail("ws-cross-connection:notification-of-another-connection", "a notification written through another connection's Conn arrived here", data)
					return
				}
				s := sc.w.subOf(sc.tag, n.Sub)
				if s == nil || n.Seq != lastSeq[n.Sub]+1 || n.Pad != padFor(n.Sub, n.Seq, s.padLen) {
					fail("ws-notification:order-or-content", fmt.Sprintf("subscription %d: notification out of sequence (after %d) or altered", n.Sub, lastSeq[n.Sub]), data)
					return
				}
				if ended[n.Sub] {
					fail("ws-notification:after-unsubscribe-response", "a notification arrived after the response to the unsubscribe that ended its subscription", data)
					return
				}
				lastSeq[n.Sub] = n.Seq
				continue
			}
			sc.mu.Lock()
			if len(sc.queue) == 0 {
				sc.mu.Unlock()
				fail("ws-response:unowed-response", "a response arrived although every request is answered", data)
				return
			}
			o := sc.queue[0]
			sc.queue = sc.queue[1:]
			sc.mu.Unlock()
			okFrame := true
			if o.parse {
				okFrame = p.kind == "object" && p.resps[0].HasError && p.resps[0].Code == -32700 && p.resps[0].ID == nil
			} else {
				okFrame = len(p.resps) == len(o.ids) && (p.kind == "array") == (len(o.ids) > 1)
				seen := map[string]bool{}
				for _, rr := range p.resps {
					want, known := o.ids[idText(rr.ID)]
					got := "result"
					if rr.HasError {
						got = strconv.Itoa(rr.Code)
					}
					if !known || seen[idText(rr.ID)] || want != got {
						okFrame = false
					}
					seen[idText(rr.ID)] = true
				}
			}
			if !okFrame {
				fail("ws-response:not-the-next-owed", "responses must come in request order, one per request, with the owed id and outcome", data)
				return
			}
			if o.unsub != 0 {
				ended[o.unsub] = true
			}
			if o.last {
				result <- nil
				return
			}
		}
	}()

	// ---- the load
	for _, k := range sc.keys {
		i := nextID()
		send(fmt.Sprintf(`{"jsonrpc":"2.0","method":"sub","params":[%d,"s"],"id":%s}`, k, i), owed{ids: map[string]string{i: "result"}})
	}
	for n := 0; n < in.Requests; n++ {
		switch rng.Intn(8) {
		case 0:
			i := nextID()
			send(fmt.Sprintf(`{"jsonrpc":"2.0","method":"m2","params":[-7,"s"],"id":%s}`, i), owed{ids: map[string]string{i: "44"}})
		case 1:
			i := nextID()
			send(fmt.Sprintf(`{"jsonrpc":"2.0","method":"nope","id":%s}`, i), owed{ids: map[string]string{i: "-32601"}})
		case 2:
			if !func() bool {
				wctx, cancel := context.WithTimeout(ctx, stepWait)
				defer cancel()
				return c.Write(wctx, websocket.MessageText, []byte(`{"jsonrpc":"2.0","method":"m2","params":[7,"n"]}`)) == nil
			}() {
				break
			}
		case 3:
			send(`{"jsonrpc":"2.0",`, owed{parse: true})
		case 4, 5:
			a, b, d := nextID(), nextID(), nextID()
			send(fmt.Sprintf(`[{"jsonrpc":"2.0","method":"m2","params":[7,"s"],"id":%s},{"jsonrpc":"2.0","method":"m2","params":[7,"n"]},`+
				`{"jsonrpc":"2.0","method":"nope","id":%s},{"jsonrpc":"2.0","method":"m2","params":{"b":"s","a":-7},"id":%s}]`, a, b, d),
				owed{ids: map[string]string{a: "result", b: "-32601", d: "44"}})
		default:
			i := nextID()
			send(fmt.Sprintf(`{"jsonrpc":"2.0","method":"m2","params":[7,%q],"id":%s}`, strings.Repeat("y", rng.Intn(3000)), i), owed{ids: map[string]string{i: "result"}})
		}
		if rng.Intn(16) == 0 {
			time.Sleep(time.Duration(rng.Intn(300)) * time.Microsecond)
		}
	}
	for _, k := range sc.keys {
		i := nextID()
		send(fmt.Sprintf(`{"jsonrpc":"2.0","method":"unsub","params":[%d,"u"],"id":%s}`, k, i), owed{ids: map[string]string{i: "result"}, unsub: k})
	}
	i := nextID()
	send(fmt.Sprintf(`{"jsonrpc":"2.0","method":"m2","params":[7,"s"],"id":%s}`, i), owed{ids: map[string]string{i: "result"}, last: true})

	var v *verdict
	select {
	case v = <-result:
	case <-time.After(6 * probeWait):
		v = &verdict{"", "timeout", "monitor did not finish"}
	}
	if v != nil {
		if v.key == "" {
			sc.g.timeouts.Add(1)
			sc.g.out.Count("harness_timeouts", 1)
			sc.g.out.Sample(vh.J{"harness_timeout": "stress: " + v.what + " " + v.obs})
			return
		}
		sc.diverge(v.key, v.what, nil, v.obs, in)
		return
	}
	// nothing a Write reported as sent may be missing, nothing may fail on a live connection
	for _, k := range sc.keys {
		s := sc.w.subOf(sc.tag, k)
		select {
		case <-s.done:
		case <-time.After(stepWait):
			sc.g.timeouts.Add(1)
			sc.g.out.Count("harness_timeouts", 1)
			return
		}
		if int(s.okWrites.Load()) != lastSeq[k] {
			sc.diverge("ws-notification:lost-after-successful-write", fmt.Sprintf("subscription %d: Conn.Write returned nil %d times, %d notifications arrived before the unsubscribe response",
				k, s.okWrites.Load(), lastSeq[k]), s.okWrites.Load(), lastSeq[k], in)
			return
		}
		// a write that raced with the cancellation may fail; any earlier failure is one on a live connection
		if s.n-int(s.okWrites.Load()) > 1 {
			sc.diverge("ws-conn:write-failed-on-live-connection", fmt.Sprintf("subscription %d: %d of %d writes failed while the connection was open", k, s.n-int(s.okWrites.Load()), s.n),
				0, s.n-int(s.okWrites.Load()), in)
			return
		}
		sc.g.out.Count("stress_notifications", lastSeq[k])
	}
	sc.g.out.Done(1, id)
}

func TestWsStress(t *testing.T) {
	if !vh.Enabled() {
		t.Skip("driver only")
	}
	var in input
	if err := vh.Input(&in); err != nil {
		t.Fatal(err)
	}
	out := vh.NewResult()
	defer out.Write()
	g := &engine{out: out, seed: in.Seed}
	for round := 0; round < in.Rounds && g.divs.Load() == 0 && g.timeouts.Load() == 0; round++ {
		w := newWorld(fmt.Sprintf("s%d", round), 4, true)
		var wg sync.WaitGroup
		for c := 0; c < in.Conns; c++ {
			sc := &stressConn{g: g, w: w, tag: fmt.Sprintf("s%dc%d", round, c)}
			for j := 0; j < 3; j++ {
				sc.keys = append(sc.keys, freeRunFrom+c*3+j)
			}
			rng := rand.New(rand.NewSource(in.Seed*7919 + int64(round*100+c)))
			wg.Add(1)
			go func() { defer wg.Done(); sc.run(&in, rng) }()
		}
		wg.Wait()
		w.close()
	}
}

// ---------------------------------------------------------------------------- directed rounds

type directed struct {
	g  *engine
	in *input
}

func (d *directed) diverge(key, what string, exp, obs any) {
	d.g.divs.Add(1)
	d.g.out.Diverge(vh.Divergence{Key: key, What: what, Input: d.in, Expected: exp, Observed: obs})
}

func (d *directed) timeout(what string) {
	d.g.timeouts.Add(1)
	d.g.out.Count("harness_timeouts", 1)
	d.g.out.Sample(vh.J{"harness_timeout": "directed: " + what})
}

func (d *directed) exchange(cl *client, req, wantSub string) bool {
	if err := cl.send([]byte(req)); err != nil {
		d.timeout("send: " + err.Error())
		return false
	}
	f, ok := cl.next(stepWait)
	if !ok {
		d.timeout("response to " + req)
		return false
	}
	if f.err != nil || !bytes.Contains(f.data, []byte(wantSub)) {
		d.diverge("ws-directed:exchange-failed", "a plain exchange on a fresh / untouched connection failed", wantSub, fmt.Sprint(short(f.data), f.err))
		return false
	}
	return true
}

// afterClose: ServeHTTP has returned for cl's connection: contexts cancelled, writes fail, other
// connections unaffected.
func (d *directed) afterClose(w *world, cl *client, what string) bool {
	select {
	case <-cl.served:
	case <-time.After(stepWait):
		d.timeout("ServeHTTP to return after " + what)
		return false
	}
	for _, s := range w.subsOfConn(cl.tag) {
		if s.conn.Context().Err() == nil {
			d.diverge("ws-close:conn-context-not-cancelled-after-serve-returned", "after "+what+": Conn.Context() not cancelled although ServeHTTP returned", "cancelled", "nil")
			return false
		}
		if err := <-s.ask("write"); err == nil {
			d.diverge("ws-close:write-after-close-succeeded", "after "+what+": Conn.Write returned nil after ServeHTTP returned", "error", "nil")
			return false
		}
	}
	return true
}

func (d *directed) shutdownInFlight(round int) {
	w := newWorld(fmt.Sprintf("d1r%d", round), 2, true)
	defer w.close()
	a, err := w.dial("A")
	if err != nil {
		d.timeout("dial")
		return
	}
	defer a.kill()
	if !d.exchange(a, `{"jsonrpc":"2.0","method":"sub","params":[1,"x"],"id":1}`, `"result":{"sub":1}`) {
		return
	}
	g := w.newGate("A-held")
	_ = a.send([]byte(`{"jsonrpc":"2.0","method":"m2","params":[7,"A-held"],"id":2}`))
	select {
	case <-g.started:
	case <-time.After(stepWait):
		d.timeout("held handler to start")
		return
	}
	parked := w.subOf("A", 1).ask("write") // a write while the loop is busy: not parked (activated long ago)
	if err := <-parked; err != nil {
		d.diverge("ws-conn:write-failed-on-live-connection", "a handler-held Conn could not write while another request was in flight: "+err.Error(), "nil", err.Error())
		return
	}
	w.shutOnce.Do(func() { close(w.shutdown) })
	deadline := time.Now().Add(stepWait)
	for !g.told.Load() {
		if time.Now().After(deadline) {
			d.timeout("the in-flight handler's context to be cancelled by shutdown")
			return
		}
		time.Sleep(time.Millisecond)
	}
	answered := 0
	for {
		f, ok := a.next(stepWait)
		if !ok {
			d.timeout("connection to end after shutdown")
			return
		}
		if f.err != nil {
			break
		}
		p, why := parseFrame(f.data)
		if why != "" {
			d.diverge("ws-frame:malformed:"+keyify(why), "after shutdown: "+why, nil, short(f.data))
			return
		}
		if p.kind == "note" {
			if p.note.Conn != "A" || p.note.Seq != 1 {
				d.diverge("ws-notification:order-or-content", "after shutdown: unexpected notification", nil, short(f.data))
				return
			}
			continue
		}
		answered++
		if answered > 1 || idText(p.resps[0].ID) != "2" || !p.resps[0].HasError || p.resps[0].Code != codeCancel {
			d.diverge("ws-response:unowed-response", "after shutdown: only the cancelled in-flight request may still be answered, once", nil, short(f.data))
			return
		}
	}
	if d.afterClose(w, a, "shutdown with a request in flight") {
		d.g.out.Done(1, 6)
	}
}

func (d *directed) abruptClose(round int, inFlight bool) {
	w := newWorld(fmt.Sprintf("d2r%d", round), 2, true)
	defer w.close()
	a, err := w.dial("A")
	if err != nil {
		d.timeout("dial")
		return
	}
	b, err := w.dial("B")
	if err != nil {
		d.timeout("dial")
		return
	}
	defer b.kill()
	if !d.exchange(a, `{"jsonrpc":"2.0","method":"sub","params":[1,"x"],"id":1}`, `"result":{"sub":1}`) ||
		!d.exchange(b, `{"jsonrpc":"2.0","method":"sub","params":[1,"y"],"id":1}`, `"result":{"sub":1}`) {
		return
	}
	var g *gate
	if inFlight {
		g = w.newGate("A-held")
		_ = a.send([]byte(`{"jsonrpc":"2.0","method":"m2","params":[7,"A-held"],"id":2}`))
		select {
		case <-g.started:
		case <-time.After(stepWait):
			d.timeout("held handler to start")
			return
		}
	}
	a.kill() // the TCP connection goes away without a close handshake
	if g != nil {
		g.open()
	}
	if !d.afterClose(w, a, "abrupt client close") {
		return
	}
	// the server stays up: B is served and hears only its own subscription
	if err := <-w.subOf("B", 1).ask("write"); err != nil {
		d.diverge("ws-conn:write-failed-on-live-connection", "after another connection died: "+err.Error(), "nil", err.Error())
		return
	}
	f, ok := b.next(stepWait)
	if !ok {
		d.timeout("B's notification")
		return
	}
	if p, why := parseFrame(f.data); f.err != nil || why != "" || p.kind != "note" || p.note.Conn != "B" {
		d.diverge("ws-cross-connection:frame-on-bystander", "after another connection died, B received something else than its own notification", "note B/1", fmt.Sprint(short(f.data), f.err))
		return
	}
	if d.exchange(b, `{"jsonrpc":"2.0","method":"m2","params":[7,"z"],"id":9}`, `"id":9`) {
		d.g.out.Done(1, 6)
	}
}

func (d *directed) crossConnection(round int) {
	w := newWorld(fmt.Sprintf("d3r%d", round), 2, true)
	defer w.close()
	a, err := w.dial("A")
	if err != nil {
		d.timeout("dial")
		return
	}
	defer a.kill()
	b, err := w.dial("B")
	if err != nil {
		d.timeout("dial")
		return
	}
	defer b.kill()
	ok := d.exchange(a, `{"jsonrpc":"2.0","method":"sub","params":[1,"x"],"id":1}`, `"result":{"sub":1}`) &&
		d.exchange(a, `{"jsonrpc":"2.0","method":"m2","params":[7,"x"],"id":2}`, `"id":2`) &&
		d.exchange(b, `{"jsonrpc":"2.0","method":"unsub","params":[1,"y"],"id":1}`, `"code":46`) &&
		d.exchange(b, `{"jsonrpc":"2.0","method":"m2","params":[7,"y"],"id":2}`, `"id":2`)
	if !ok {
		return
	}
	w.mu.Lock()
	ca, cb := w.conns["A"], w.conns["B"]
	w.mu.Unlock()
	if len(ca) < 2 || len(cb) < 2 {
		d.timeout("conns not captured")
		return
	}
	if !ca[0].Equal(ca[1]) || !cb[0].Equal(cb[1]) {
		d.diverge("ws-conn:equal-false-for-same-connection", "Conn.Equal is false for two messages of one connection", true, false)
		return
	}
	if ca[0].Equal(cb[0]) || cb[1].Equal(ca[1]) {
		d.diverge("ws-conn:equal-true-for-different-connections", "Conn.Equal is true for messages of two different connections", false, true)
		return
	}
	for i := 1; i <= 3; i++ {
		if err := <-w.subOf("A", 1).ask("write"); err != nil {
			d.diverge("ws-conn:write-failed-on-live-connection", err.Error(), "nil", err.Error())
			return
		}
		f, ok := a.next(stepWait)
		if !ok {
			d.timeout("A's notification")
			return
		}
		if p, why := parseFrame(f.data); f.err != nil || why != "" || p.kind != "note" || p.note.Conn != "A" || p.note.Seq != i {
			d.diverge("ws-notification:order-or-content", "A's notifications", i, fmt.Sprint(short(f.data), f.err))
			return
		}
	}
	// B saw none of them: the next thing B receives is the answer to its next request
	if d.exchange(b, `{"jsonrpc":"2.0","method":"m2","params":[7,"y"],"id":3}`, `"id":3`) {
		d.g.out.Done(1, 10)
	}
}

func (d *directed) readLimitBoundary(round int) {
	w := newWorld(fmt.Sprintf("d4r%d", round), 2, true)
	defer w.close()
	a, err := w.dial("A")
	if err != nil {
		d.timeout("dial")
		return
	}
	defer a.kill()
	head := `{"jsonrpc":"2.0","method":"m2","id":1,"params":[7,"`
	exact := head + strings.Repeat("z", readLimit-len(head)-3) + `"]}`
	if len(exact) != readLimit {
		panic("boundary message has the wrong length")
	}
	// exactly ReadLimit bytes: served, and the connection lives on
	if !d.exchange(a, exact, `"id":1`) || !d.exchange(a, `{"jsonrpc":"2.0","method":"m2","params":[7,"x"],"id":2}`, `"id":2`) {
		return
	}
	// a JSON value reaching 2 bytes beyond the limit: closed with 1009, no answer, no handler run
	w.mu.Lock()
	before := len(w.invs["A"])
	w.mu.Unlock()
	over := head + strings.Repeat("z", readLimit-len(head)-1) + `"]}`
	_ = a.send([]byte(over))
	f, ok := a.next(stepWait)
	if !ok {
		d.timeout("close after oversized message")
		return
	}
	if f.err == nil {
		d.diverge("ws-read-limit:oversized-message-answered", fmt.Sprintf("a message of %d bytes (ReadLimit %d) was answered", len(over), readLimit), "close 1009", short(f.data))
		return
	}
	if st := websocket.CloseStatus(f.err); st != websocket.StatusMessageTooBig {
		d.diverge(fmt.Sprintf("ws-close:status:%d-instead-of-%d", int(st), int(websocket.StatusMessageTooBig)), "oversized message: "+f.err.Error(), 1009, int(st))
		return
	}
	select {
	case <-a.served:
	case <-time.After(stepWait):
		d.timeout("ServeHTTP to return after the read limit")
		return
	}
	w.mu.Lock()
	after := len(w.invs["A"])
	w.mu.Unlock()
	if after != before {
		d.diverge("ws-read-limit:handler-invoked-for-oversized-message", "the handler ran for a message beyond ReadLimit", before, after)
		return
	}
	// the server stays up
	b, err := w.dial("B")
	if err != nil {
		d.diverge("ws-directed:server-down-after-read-limit", "no new connection after a connection was closed for an oversized message: "+err.Error(), "dial ok", err.Error())
		return
	}
	defer b.kill()
	if d.exchange(b, `{"jsonrpc":"2.0","method":"m2","params":[7,"y"],"id":3}`, `"id":3`) {
		d.g.out.Done(1, 6)
	}
}

// closeReason: the server cannot serialise an answer -> StatusInternalError, whatever the length of the error text.
func (d *directed) closeReason(round int) {
	for _, key := range []int{1, 2} {
		w := newWorld(fmt.Sprintf("d5r%d", round), 2, true)
		a, err := w.dial("A")
		if err != nil {
			d.timeout("dial")
			w.close()
			return
		}
		ok := d.exchange(a, `{"jsonrpc":"2.0","method":"sub","params":[1,"x"],"id":1}`, `"result":{"sub":1}`)
		if ok {
			_ = a.send([]byte(fmt.Sprintf(`{"jsonrpc":"2.0","method":"boom","params":[%d,"x"],"id":2}`, key)))
			f, got := a.next(stepWait)
			switch {
			case !got:
				d.timeout("close after an unserialisable answer")
				ok = false
			case f.err == nil:
				d.diverge("ws-stream:unexpected-frame-before-close", "a frame arrived although the answer cannot be serialised", "close 1011", short(f.data))
				ok = false
			case websocket.CloseStatus(f.err) == websocket.StatusInternalError:
				if key == 2 {
					d.g.out.Count("long_close_reason_delivered", 1)
				}
			case key == 2 && websocket.CloseStatus(f.err) == -1:
				d.g.out.Count("long_close_reason_dropped", 1)
				d.diverge("ws-close:no-close-frame:reason-longer-than-123-bytes",
					"ServeHTTP ends the connection for an internal error whose text is longer than 123 bytes: the reason is cut at "+
						"125 bytes, coder/websocket refuses to build the close frame and the client sees the connection drop without status",
					"close 1011", f.err.Error())
				d.g.divs.Add(-1) // a keyed finding of its own; the other rounds still run
			default:
				d.diverge(fmt.Sprintf("ws-close:status:%d-instead-of-1011", int(websocket.CloseStatus(f.err))), "internal error: "+f.err.Error(), 1011, f.err.Error())
				ok = false
			}
		}
		if ok && d.afterClose(w, a, "internal error") {
			d.g.out.Done(1, 3)
		}
		a.kill()
		w.close()
	}
}

// framing: a FIRST message in every framing shape - cut into frames by a streaming writer (non-final frames + an empty
// FIN frame), followed by whitespace that ends behind one of the server's read boundaries, both - then LATER messages
// on the same connection: every one of them that owes a response gets it. (The JSON-RPC server stops reading at the end
// of the first JSON value; what is left of the websocket message is the transport's business.)
func (d *directed) framing(round int) {
	rng := rand.New(rand.NewSource(d.in.Seed*31 + int64(round)))
	stretch := func(val string, n int) string { // from the inside, to exactly n bytes
		if len(val) >= n {
			return val
		}
		return val[:1] + strings.Repeat(" ", n-len(val)) + val[1:]
	}
	first := `{"jsonrpc":"2.0","method":"m2","params":[7,"x"],"id":1}`
	notif := `{"jsonrpc":"2.0","method":"m2","params":[7,"n"]}`
	batch := `[{"jsonrpc":"2.0","method":"m2","params":[7,"x"],"id":1},{"jsonrpc":"2.0","method":"m2","params":[7,"n"]}]`
	type shape struct {
		name  string
		parts []string // one part: a single frame; several: non-final frames + empty FIN
		owes  bool
	}
	shapes := []shape{
		{"frag:one-frame-then-empty-fin", []string{first, ""}, true},
		{"frag:three-frames-then-empty-fin", []string{first[:9], first[9:30], first[30:], ""}, true},
		{"frag:batch", []string{batch[:40], batch[40:], ""}, true},
		{"frag:notification", []string{notif, ""}, false},
		{"frag:whitespace-in-its-own-frame", []string{first, "\n  \n", ""}, true},
		{"pad:128-byte-value-then-newline", []string{stretch(first, 128) + "\n"}, true},
		{"pad:512-byte-value-then-newline", []string{stretch(first, 512) + "\n"}, true},
		{"pad:value-then-many-spaces", []string{first + strings.Repeat(" ", 700+rng.Intn(2500))}, true},
		{"pad:notification-128-then-newline", []string{stretch(notif, 128) + "\r\n"}, false},
		{"pad:batch-then-newlines", []string{stretch(batch, 128+rng.Intn(2)*384) + strings.Repeat("\n", 1+rng.Intn(3))}, true},
	}
	for _, sh := range shapes {
		w := newWorld(fmt.Sprintf("d6r%d", round), 2, true)
		a, err := w.dial("A")
		if err != nil {
			d.timeout("dial")
			w.close()
			return
		}
		await := func(what, wantSub, key string) bool {
			f, ok := a.next(stepWait)
			switch {
			case !ok:
				d.timeout(what)
				return false
			case f.err != nil:
				d.diverge(key+sh.name, "the server ended the connection where "+what+" was due; the client had sent nothing but well-formed "+
					"messages, the first one "+sh.name+" ("+f.err.Error()+")", wantSub, f.err.Error())
				return false
			case !bytes.Contains(f.data, []byte(wantSub)):
				d.diverge("ws-framing:wrong-frame:"+sh.name, "another frame arrived where "+what+" was due", wantSub, short(f.data))
				return false
			}
			return true
		}
		ok := true
		if len(sh.parts) == 1 {
			ok = a.send([]byte(sh.parts[0])) == nil
		} else {
			var ps [][]byte
			for _, p := range sh.parts[:len(sh.parts)-1] {
				ps = append(ps, []byte(p))
			}
			ok = a.sendFrag(ps...) == nil
		}
		if !ok {
			d.timeout("client write")
		}
		if ok && sh.owes {
			ok = await("the response to the first message", `"id":1`, "ws-framing:message-unanswered:")
		}
		for id := 2; ok && id <= 4; id++ {
			req := fmt.Sprintf(`{"jsonrpc":"2.0","method":"m2","params":[7,"y"],"id":%d}`, id)
			if id == 3 { // a later message may come through a streaming writer, too
				ok = a.sendFrag([]byte(req)) == nil
			} else {
				ok = a.send([]byte(req)) == nil
			}
			// (a write that fails: the server has closed the connection - the read below observes the close, or it is a harness timeout)
			ok = await(fmt.Sprintf("the response to later request %d", id), fmt.Sprintf(`"id":%d`, id), "ws-framing:later-message-unanswered:")
		}
		if ok {
			w.mu.Lock()
			n := len(w.invs["A"])
			w.mu.Unlock()
			want := 4
			if strings.Contains(sh.name, "batch") {
				want = 5 // the batch carries a request and a notification
			}
			if n != want {
				d.diverge("ws-framing:handler-invocations:"+sh.name, "every valid request / notification sent must have run its handler exactly once", want, n)
				ok = false
			}
		}
		if ok {
			d.g.out.Done(1, 4)
			d.g.out.Count("framing_shapes_followed_by_answered_later_requests", 1)
		}
		a.kill()
		w.close()
		if !ok {
			return
		}
	}
}

func TestWsDirected(t *testing.T) {
	if !vh.Enabled() {
		t.Skip("driver only")
	}
	var in input
	if err := vh.Input(&in); err != nil {
		t.Fatal(err)
	}
	out := vh.NewResult()
	defer out.Write()
	d := &directed{g: &engine{out: out, seed: in.Seed}, in: &in}
	for round := 0; round < in.Rounds && d.g.divs.Load() == 0 && d.g.timeouts.Load() == 0; round++ {
		if d.framing(round); d.g.divs.Load() != 0 || d.g.timeouts.Load() != 0 {
			break
		}
		d.shutdownInFlight(round)
		d.abruptClose(round, round%2 == 0)
		d.crossConnection(round)
		d.readLimitBoundary(round)
		d.closeReason(round)
	}
}

// Engine "feed" (specification growth G1, supports C06/C16/C17): replays Feed.tla behaviours on the
// real feed.Feed and checks the keep-last guarantee under real concurrency.
package feed

import (
	"fmt"
	"sync"
	"testing"

	"github.com/NethermindEth/juno/feed"

	"verifharness/internal/vh"
)

type action struct {
	Name string `json:"name"`
	S    int    `json:"s"`
	Keep bool   `json:"keep"`
	V    int    `json:"v"`
}

type result struct {
	Kind string `json:"kind"`
	V    int    `json:"v,omitempty"`
}

type step struct {
	A   action `json:"a"`
	Res result `json:"res"`
}

type input struct {
	Behaviours [][]step `json:"behaviours"`
}

func TestFeedReplay(t *testing.T) {
	if !vh.Enabled() {
		t.Skip("driver only")
	}
	var in input
	if err := vh.Input(&in); err != nil {
		t.Fatal(err)
	}
	out := vh.NewResult()
	defer out.Write()
	for _, beh := range in.Behaviours {
		f := feed.New[int]()
		subs := map[int]*feed.Subscription[int]{}
		for si, s := range beh {
			obs := func() (r result) {
				defer func() {
					if p := recover(); p != nil {
						r = result{Kind: fmt.Sprintf("panic: %v", p)}
					}
				}()
				switch s.A.Name {
				case "Subscribe":
					if s.A.Keep {
						subs[s.A.S] = f.SubscribeKeepLast()
					} else {
						subs[s.A.S] = f.Subscribe()
					}
					return result{Kind: "ok"}
				case "Send":
					f.Send(s.A.V)
					return result{Kind: "ok"}
				case "Recv":
					select {
					case v, ok := <-subs[s.A.S].Recv():
						if !ok {
							return result{Kind: "closed"}
						}
						return result{Kind: "value", V: v}
					default:
						return result{Kind: "empty"}
					}
				case "Unsubscribe":
					subs[s.A.S].Unsubscribe()
					return result{Kind: "ok"}
				}
				return result{Kind: "unknown"}
			}()
			out.Done(0, 1)
			if obs != s.Res {
				out.Diverge(vh.Divergence{
					Key: "feed:" + s.A.Name, What: "feed call result differs from Feed.tla",
					Input: vh.J{"behaviours": [][]step{beh[:si+1]}}, Step: si, Expected: s.Res, Observed: obs,
				})
				break
			}
		}
		out.Done(1, 0)
	}
	if len(in.Behaviours) > 0 {
		out.Sample(in.Behaviours[0])
	}
}

// TestFeedConcurrent: a sender and receivers run truly concurrently. Monitors = Feed.tla's
// invariants on what each receiver saw: strictly increasing (in order, no duplicate), and for a
// keep-last subscription the final drained value is the last value sent.
func TestFeedConcurrent(t *testing.T) {
	if !vh.Enabled() {
		t.Skip("driver only")
	}
	out := vh.NewResult()
	defer out.Write()
	rounds := 200
	if vh.Thorough() {
		rounds = 3000
	}
	const sends = 2000
	for round := 0; round < rounds; round++ {
		f := feed.New[int]()
		kl := f.SubscribeKeepLast()
		pl := f.Subscribe()
		var wg sync.WaitGroup
		done := make(chan struct{})
		var gotK, gotP []int
		wg.Add(2)
		go func() {
			defer wg.Done()
			for {
				select {
				case v := <-kl.Recv():
					gotK = append(gotK, v)
				case <-done:
					return
				}
			}
		}()
		go func() {
			defer wg.Done()
			for {
				select {
				case v := <-pl.Recv():
					gotP = append(gotP, v)
				case <-done:
					return
				}
			}
		}()
		for v := 1; v <= sends; v++ {
			f.Send(v)
		}
		close(done)
		wg.Wait()
		// drain what is still buffered
		select {
		case v := <-kl.Recv():
			gotK = append(gotK, v)
		default:
		}
		select {
		case v := <-pl.Recv():
			gotP = append(gotP, v)
		default:
		}
		bad := ""
		for _, g := range [][]int{gotK, gotP} {
			for i := 1; i < len(g); i++ {
				if g[i] <= g[i-1] {
					bad = fmt.Sprintf("not strictly increasing: %d after %d", g[i], g[i-1])
				}
			}
		}
		if len(gotK) == 0 || gotK[len(gotK)-1] != sends {
			bad = fmt.Sprintf("keep-last subscriber's final value is not the last sent (%d values, last=%v)", len(gotK), gotK[max(0, len(gotK)-1):])
		}
		if bad != "" {
			out.Diverge(vh.Divergence{Key: "feed-concurrent", What: bad, Input: vh.J{"round": round}, Step: round})
			break
		}
		out.Done(1, sends)
	}
}

package kv

// Concurrent round of C15 bound to spec/kv/KVLin.tla: reader-visible atomicity.
//
// TLC generates behaviours of KVLin.tla (KVLinMBT.tla); a behaviour is used as the writer's PROGRAM
// (its calls in order, each with the abstract content it leaves) and the readers' MENU (reader calls
// in the order they were begun).  Every model key is blown up to a GROUP of real keys
// (KeyBytes[g] ++ be16(i), i < size[g]; hundreds to thousands of entries), so that the critical
// sections of the real backends are long enough for the other side to land in between:
//
//	model Put(g, "v<j>")      -> size[g] puts with value be32(j) ++ key   (one batch / helper call)
//	model Delete(g)           -> size[g] deletes                          (same call)
//	model DeleteRange(s, e)   -> ONE DeleteRange(KeyBytes[s], KeyBytes[e]) (covers groups s..e-1)
//	a writer call             -> ONE call of the storage interface (Batch.Write, Update, Write,
//	                             SyncBatch / BufferBatch Write, direct DeleteRange; direct
//	                             Put / Delete when the group has one member)
//
// The writer runs its program cyclically (the tag is the global call number, so every content the
// store ever has is distinguishable per key).  Reader goroutines run the menu on the live store.
// The monitor IS the invariant ReadersSeeOnePoint: lo = calls known complete before the reader
// call began, hi = calls started when its window closed (Get/Has: return; NewIterator /
// NewSnapshot: creation); the complete observation must be the view of content lo..hi.  A reader
// that sees either whole content of its window is always right, whatever the schedule; anything
// else is reported with a key naming class, operation and backend:
//
//	kv-concurrent:torn-iterator:memory     a mixture of two contents (no content ever looked so)
//	kv-concurrent:future-snapshot:pebble   a content from after the window (later write visible)
//	kv-concurrent:stale-get:pebblev2       a content from before the call
//
// Sensitivity: the same round runs first on ghost mechanisms built from the public API of the
// memory backend (iterator listing keys and fetching values in two steps; batch replayed key by
// key); they must be reported, otherwise this run did not open the windows and says so.

import (
	"bytes"
	"encoding/binary"
	"fmt"
	"math/rand"
	"runtime"
	"sort"
	"strings"
	"sync"
	"sync/atomic"
	"testing"
	"time"

	"github.com/NethermindEth/juno/db"
	"github.com/NethermindEth/juno/db/memory"

	"verifharness/internal/vh"
)

type linEv struct {
	T     string   `json:"t"` // "w" | "r"
	Ops   []op     `json:"ops,omitempty"`
	Via   string   `json:"via,omitempty"`
	Store []string `json:"store,omitempty"`
	Kind  string   `json:"kind,omitempty"`
	K     int      `json:"k,omitempty"`
	P     []int    `json:"p,omitempty"`
	Ub    bool     `json:"ub,omitempty"`
}

type linIn struct {
	Keys       [][]int   `json:"keys"`
	Behaviours [][]linEv `json:"behaviours"`
	Backends   []string  `json:"backends"`
	Sizes      [][]int   `json:"sizes"`    // per behaviour: members per group (default: from the seed)
	RoundMs    int       `json:"round_ms"` // wall budget of one (backend, behaviour) round
	MaxCalls   int       `json:"max_calls"`
	Readers    int       `json:"readers"`
	GhostMs    int       `json:"ghost_ms"` // budget of the sensitivity self-test (0 = skip)
}

// ---------------------------------------------------------------------------------------------
// the abstract side

type linState []uint32 // per group: 0 = absent, else the tag of the call that wrote it

type linModel struct {
	gkeys  [][]byte   // KeyBytes
	sizes  []int      // members per group
	keys   [][][]byte // member keys
	calls  []linEv
	menu   []linEv
	states []linState // states[j] = content after j calls (cyclic program)
}

func linUpperBound(p []byte) []byte {
	q := bytes.Clone(p)
	for len(q) > 0 && q[len(q)-1] == 0xff {
		q = q[:len(q)-1]
	}
	if len(q) == 0 {
		return nil
	}
	q[len(q)-1]++
	return q
}

// inRange: the contract of NewIterator(prefix, withUpperBound) - prefix is the inclusive lower
// bound, UpperBound(prefix) the exclusive upper bound when requested and it exists.
func (m *linModel) inRange(g int, p []byte, ub bool) bool {
	if bytes.Compare(m.gkeys[g], p) < 0 {
		return false
	}
	if ub {
		if u := linUpperBound(p); u != nil {
			return bytes.Compare(m.gkeys[g], u) < 0
		}
	}
	return true
}

func applyAbstract(s linState, ops []op, tag uint32) linState {
	n := make(linState, len(s))
	copy(n, s)
	for _, o := range ops {
		switch o.Op {
		case "put":
			n[o.K-1] = tag
		case "del":
			n[o.K-1] = 0
		case "delrange":
			for g := o.S; g < o.E; g++ {
				n[g-1] = 0
			}
		}
	}
	return n
}

func newLinModel(gkeys [][]byte, sizes []int, beh []linEv, maxCalls int) (*linModel, error) {
	m := &linModel{gkeys: gkeys, sizes: sizes}
	for _, e := range beh {
		if e.T == "w" {
			m.calls = append(m.calls, e)
		} else {
			m.menu = append(m.menu, e)
		}
	}
	if len(m.calls) == 0 || len(m.menu) == 0 {
		return nil, fmt.Errorf("behaviour without writer calls or reader calls")
	}
	for g := range gkeys {
		if len(gkeys[g]) != 1 {
			return nil, fmt.Errorf("group keys must be single bytes")
		}
		ks := make([][]byte, sizes[g])
		for i := range ks {
			ks[i] = append(bytes.Clone(gkeys[g]), byte(i>>8), byte(i))
		}
		m.keys = append(m.keys, ks)
	}
	m.states = make([]linState, maxCalls+1)
	m.states[0] = make(linState, len(gkeys))
	for j := 1; j <= maxCalls; j++ {
		c := m.calls[(j-1)%len(m.calls)]
		m.states[j] = applyAbstract(m.states[j-1], c.Ops, uint32(j))
		if j <= len(m.calls) { // the engine's oracle against the specification's own content
			for g, v := range c.Store {
				want := uint32(0)
				if v != absent {
					if _, err := fmt.Sscanf(v, "v%d", &want); err != nil {
						return nil, fmt.Errorf("bad model value %q", v)
					}
				}
				if m.states[j][g] != want {
					return nil, fmt.Errorf("call %d: engine oracle %v differs from the specification %v", j, m.states[j], c.Store)
				}
			}
		}
	}
	return m, nil
}

func linVal(tag uint32, key []byte) []byte {
	v := make([]byte, 4, 4+len(key))
	binary.BigEndian.PutUint32(v, tag)
	return append(v, key...)
}

// one observed (key, value) pair, decoded
type linPair struct {
	g   int16 // group index, -1 = not a key of the round
	i   int32
	tag uint32 // 0 = value is not be32(tag) ++ key
	raw string // set for undecodable pairs only
}

func (m *linModel) decode(k, v []byte) linPair {
	p := linPair{g: -1}
	if len(k) == 3 {
		for g := range m.gkeys {
			if k[0] == m.gkeys[g][0] {
				p.g, p.i = int16(g), int32(k[1])<<8|int32(k[2])
			}
		}
	}
	if len(v) == 4+len(k) && bytes.Equal(v[4:], k) {
		p.tag = binary.BigEndian.Uint32(v)
	}
	if p.g < 0 || p.tag == 0 {
		p.raw = fmt.Sprintf("%x=%x", k, v)
	}
	return p
}

// matches: is obs exactly the listing of content s under (p, ub)?
func (m *linModel) matches(s linState, p []byte, ub bool, obs []linPair) bool {
	n := 0
	for g := range m.gkeys {
		if s[g] == 0 || !m.inRange(g, p, ub) {
			continue
		}
		if n+m.sizes[g] > len(obs) {
			return false
		}
		for i := 0; i < m.sizes[g]; i++ {
			o := obs[n+i]
			if int(o.g) != g || int(o.i) != i || o.tag != s[g] {
				return false
			}
		}
		n += m.sizes[g]
	}
	return n == len(obs)
}

// ---------------------------------------------------------------------------------------------
// the round

type linPoint struct { // a point read through the same handle as a listing (snapshot)
	g, i int
	has  bool // Has instead of Get
	tag  uint32
	bad  string
}

type linObs struct {
	op     string // iterator | snapshot | get | has
	p      []byte
	ub     bool
	lo, hi int
	pairs  []linPair
	points []linPoint
	listed bool
}

type linRound struct {
	m       *linModel
	be      string
	st      db.KeyValueStore
	started atomic.Int64
	done    atomic.Int64
	stop    atomic.Bool
	mu      sync.Mutex
	found   map[string]string // key -> description (first per key)
	nobs    map[string]int
	wide    int // observations whose window held more than one content
	errs    []string
}

func (r *linRound) fail(key, what string) {
	r.mu.Lock()
	defer r.mu.Unlock()
	if _, ok := r.found[key]; !ok {
		r.found[key] = what
	}
}

func (r *linRound) pointOK(s linState, pt linPoint) bool {
	if pt.bad != "" {
		return false
	}
	if pt.has {
		return (pt.tag != 0) == (s[pt.g] != 0)
	}
	return pt.tag == s[pt.g]
}

func (r *linRound) explains(j int, o *linObs) bool {
	s := r.m.states[j]
	if o.listed && !r.m.matches(s, o.p, o.ub, o.pairs) {
		return false
	}
	for _, pt := range o.points {
		if !r.pointOK(s, pt) {
			return false
		}
	}
	return true
}

// judge evaluates ReadersSeeOnePoint on one completed reader call.
func (r *linRound) judge(o *linObs) {
	for j := o.lo; j <= o.hi; j++ {
		if r.explains(j, o) {
			r.mu.Lock()
			r.nobs[o.op]++
			if o.hi > o.lo {
				r.wide++
			}
			r.mu.Unlock()
			return
		}
	}
	class := "torn"
	at := -1
	for j := range r.m.states {
		if r.explains(j, o) {
			at = j
			if j < o.lo {
				class = "stale"
			} else {
				class = "future"
			}
			if j > o.hi {
				break
			}
		}
	}
	var b strings.Builder
	fmt.Fprintf(&b, "backend %s, %s", r.be, o.op)
	if o.listed {
		fmt.Fprintf(&b, "(prefix %x, upper bound %v)", o.p, o.ub)
	}
	fmt.Fprintf(&b, ": the observation is the view of none of the contents %d..%d the store had during the call", o.lo, o.hi)
	switch class {
	case "stale":
		fmt.Fprintf(&b, "; it is content %d, from BEFORE the call began", at)
	case "future":
		fmt.Fprintf(&b, "; it is content %d, written AFTER the handle was created (later writes visible)", at)
	default:
		b.WriteString("; no content the store ever had looks like it (a mixture)")
	}
	b.WriteString(". Observed: " + r.describe(o))
	fmt.Fprintf(&b, "; contents of the window:")
	for j := o.lo; j <= o.hi && j <= o.lo+3; j++ {
		fmt.Fprintf(&b, " %d=%v", j, []uint32(r.m.states[j]))
	}
	r.fail(fmt.Sprintf("kv-concurrent:%s-%s:%s", class, o.op, r.be), b.String())
}

func (r *linRound) describe(o *linObs) string {
	var parts []string
	if o.listed {
		type gt struct {
			g   int
			tag uint32
		}
		cnt := map[gt]int{}
		var odd []string
		for _, p := range o.pairs {
			if p.g < 0 || p.tag == 0 {
				if len(odd) < 3 {
					odd = append(odd, p.raw)
				}
				if p.g < 0 {
					continue
				}
			}
			cnt[gt{int(p.g), p.tag}]++
		}
		ks := make([]gt, 0, len(cnt))
		for k := range cnt {
			ks = append(ks, k)
		}
		sort.Slice(ks, func(a, b int) bool { return ks[a].g < ks[b].g || ks[a].g == ks[b].g && ks[a].tag < ks[b].tag })
		for _, k := range ks {
			t := fmt.Sprintf("tag %d", k.tag)
			if k.tag == 0 {
				t = "a value that is not theirs (empty / foreign)"
			}
			parts = append(parts, fmt.Sprintf("group %d: %d of %d members with %s", k.g+1, cnt[k], r.m.sizes[k.g], t))
		}
		if len(o.pairs) == 0 {
			parts = append(parts, "empty listing")
		}
		if len(odd) > 0 {
			parts = append(parts, "e.g. "+strings.Join(odd, ", "))
		}
	}
	for _, pt := range o.points {
		what := "Get"
		if pt.has {
			what = "Has"
		}
		if pt.bad != "" {
			parts = append(parts, fmt.Sprintf("%s(group %d member %d) -> %s", what, pt.g+1, pt.i, pt.bad))
		} else {
			parts = append(parts, fmt.Sprintf("%s(group %d member %d) -> tag %d", what, pt.g+1, pt.i, pt.tag))
		}
	}
	return strings.Join(parts, "; ")
}

func (r *linRound) keyOfGroup(g int) []byte { return r.m.gkeys[g-1] }

// exec performs writer call number j (tag j) as ONE call of the storage interface.
func (r *linRound) exec(c linEv, tag uint32) error {
	m := r.m
	fill := func(w db.KeyValueWriter, dr db.KeyValueRangeDeleter) error {
		for _, o := range c.Ops {
			switch o.Op {
			case "put":
				for _, k := range m.keys[o.K-1] {
					if err := w.Put(k, linVal(tag, k)); err != nil {
						return err
					}
				}
			case "del":
				for _, k := range m.keys[o.K-1] {
					if err := w.Delete(k); err != nil {
						return err
					}
				}
			case "delrange":
				if err := dr.DeleteRange(r.keyOfGroup(o.S), r.keyOfGroup(o.E)); err != nil {
					return err
				}
			}
		}
		return nil
	}
	via := c.Via
	if via == "direct" {
		o := c.Ops[0]
		switch {
		case o.Op == "delrange":
			return r.st.DeleteRange(r.keyOfGroup(o.S), r.keyOfGroup(o.E))
		case m.sizes[o.K-1] == 1 && o.Op == "put":
			k := m.keys[o.K-1][0]
			return r.st.Put(k, linVal(tag, k))
		case m.sizes[o.K-1] == 1 && o.Op == "del":
			return r.st.Delete(m.keys[o.K-1][0])
		}
		via = "batch" // a group of several members is written by one batch
	}
	switch via {
	case "batch":
		b := r.st.NewBatch()
		if err := fill(b, b); err != nil {
			return err
		}
		return b.Write()
	case "indexed":
		b := r.st.NewIndexedBatch()
		if err := fill(b, b); err != nil {
			return err
		}
		return b.Write()
	case "sync":
		b := db.NewSyncBatch(r.st.NewIndexedBatch())
		if err := fill(b, b); err != nil {
			return err
		}
		return b.Write()
	case "buffer":
		b := db.NewBufferBatch(r.st.NewIndexedBatch())
		if err := fill(b, nil); err != nil {
			return err
		}
		return b.Write()
	case "update":
		return r.st.Update(func(b db.IndexedBatch) error { return fill(b, b) })
	case "write":
		return r.st.Write(func(b db.Batch) error { return fill(b, b) })
	}
	return fmt.Errorf("unknown via %q", c.Via)
}

func (r *linRound) writer(maxCalls int, deadline time.Time) {
	defer r.stop.Store(true)
	defer func() {
		if p := recover(); p != nil {
			r.fail("kv-concurrent:writer-panic:"+r.be, fmt.Sprintf("backend %s: writer call panicked: %v", r.be, p))
		}
	}()
	for j := 1; j <= maxCalls; j++ {
		if j > len(r.m.calls) && time.Now().After(deadline) {
			return
		}
		c := r.m.calls[(j-1)%len(r.m.calls)]
		r.started.Store(int64(j))
		if err := r.exec(c, uint32(j)); err != nil {
			r.fail("kv-concurrent:writer-error:"+r.be, fmt.Sprintf("backend %s: writer call %d (%s) failed: %v", r.be, j, c.Via, err))
			return
		}
		r.done.Store(int64(j))
		if j%3 == 0 {
			runtime.Gosched()
		}
	}
}

func linBytes(p []int) []byte {
	if len(p) == 0 {
		return nil
	}
	b := make([]byte, len(p))
	for i, x := range p {
		b[i] = byte(x)
	}
	return b
}

func (r *linRound) list(src db.KeyValueReader, o *linObs) (db.Iterator, error) {
	return src.NewIterator(o.p, o.ub)
}

func (r *linRound) consume(it db.Iterator, o *linObs, rng *rand.Rand) {
	o.listed = true
	o.pairs = make([]linPair, 0, 4096)
	yield := rng.Intn(4) == 0
	for ok := it.First(); ok; ok = it.Next() {
		v, err := it.Value()
		if err != nil {
			o.pairs = append(o.pairs, linPair{g: -1, raw: "Value error: " + err.Error()})
			continue
		}
		o.pairs = append(o.pairs, r.m.decode(it.Key(), v))
		if yield && len(o.pairs)%512 == 0 {
			runtime.Gosched()
		}
	}
	it.Close()
}

func (r *linRound) point(src db.KeyValueReader, g, i int, has bool) linPoint {
	pt := linPoint{g: g, i: i, has: has}
	k := r.m.keys[g][i]
	if has {
		ok, err := src.Has(k)
		if err != nil {
			pt.bad = "error " + err.Error()
		} else if ok {
			pt.tag = 1
		}
		return pt
	}
	err := src.Get(k, func(v []byte) error {
		p := r.m.decode(k, v)
		if p.tag == 0 {
			pt.bad = "value " + p.raw
		}
		pt.tag = p.tag
		return nil
	})
	if err != nil && err != db.ErrKeyNotFound {
		pt.bad = "error " + err.Error()
	}
	return pt
}

func (r *linRound) randMember(rng *rand.Rand, g int) int { return rng.Intn(r.m.sizes[g]) }

func (r *linRound) reader(id int, seed int64) {
	defer func() {
		if p := recover(); p != nil {
			r.fail("kv-concurrent:reader-panic:"+r.be, fmt.Sprintf("backend %s: reader call panicked: %v", r.be, p))
		}
	}()
	rng := rand.New(rand.NewSource(seed))
	for n := id; !r.stop.Load(); n++ {
		e := r.m.menu[n%len(r.m.menu)]
		o := &linObs{p: linBytes(e.P), ub: e.Ub}
		switch e.Kind {
		case "get":
			g := e.K - 1
			has := rng.Intn(3) == 0
			o.op = "get"
			if has {
				o.op = "has"
			}
			i := r.randMember(rng, g)
			o.lo = int(r.done.Load())
			pt := r.point(r.st, g, i, has)
			o.hi = int(r.started.Load())
			o.points = []linPoint{pt}
		case "iter":
			o.op = "iterator"
			o.lo = int(r.done.Load())
			it, err := r.list(r.st, o)
			o.hi = int(r.started.Load())
			if err != nil {
				r.fail("kv-concurrent:reader-error:"+r.be, fmt.Sprintf("backend %s: NewIterator failed: %v", r.be, err))
				return
			}
			if rng.Intn(3) == 0 {
				runtime.Gosched() // let the writer go on before the handle is read
			}
			r.consume(it, o, rng)
		case "snap":
			o.op = "snapshot"
			o.lo = int(r.done.Load())
			sn := r.st.NewSnapshot()
			o.hi = int(r.started.Load())
			if rng.Intn(2) == 0 {
				runtime.Gosched()
			}
			// point reads through the snapshot, before and after its listing: all of one content
			g := rng.Intn(len(r.m.gkeys))
			o.points = append(o.points, r.point(sn, g, r.randMember(rng, g), false))
			it, err := r.list(sn, o)
			if err != nil {
				r.fail("kv-concurrent:reader-error:"+r.be, fmt.Sprintf("backend %s: Snapshot.NewIterator failed: %v", r.be, err))
				sn.Close()
				return
			}
			r.consume(it, o, rng)
			g = rng.Intn(len(r.m.gkeys))
			o.points = append(o.points, r.point(sn, g, r.randMember(rng, g), false))
			sn.Close()
		default:
			continue
		}
		r.judge(o)
	}
}

// run executes one round; returns the divergences found (key -> description).
func runLinRound(m *linModel, be string, st db.KeyValueStore, readers int, budget time.Duration, seed int64) *linRound {
	r := &linRound{m: m, be: be, st: st, found: map[string]string{}, nobs: map[string]int{}}
	var wg sync.WaitGroup
	deadline := time.Now().Add(budget)
	for id := 0; id < readers; id++ {
		wg.Add(1)
		go func(id int) {
			defer wg.Done()
			r.reader(id, seed*1000+int64(id))
		}(id)
	}
	wg.Add(1)
	go func() {
		defer wg.Done()
		r.writer(len(m.states)-1, deadline)
	}()
	wg.Wait()
	// sequentially, after the round: the store holds the last content exactly
	last := int(r.done.Load())
	if len(r.found) == 0 && last == int(r.started.Load()) {
		o := &linObs{op: "final-iterator", lo: last, hi: last}
		if it, err := st.NewIterator(nil, false); err == nil {
			r.consume(it, o, rand.New(rand.NewSource(seed)))
			r.judge(o)
		}
	}
	return r
}

// ---------------------------------------------------------------------------------------------
// ghost mechanisms (sensitivity self-test), built on the public API of a real store

type ghostStore struct {
	db.KeyValueStore
	iter2, batchKeyByKey bool
}

type ghostIter struct {
	keys, vals [][]byte
	pos        int
}

func (g *ghostIter) Close() error                   { return nil }
func (g *ghostIter) Valid() bool                    { return g.pos >= 0 && g.pos < len(g.keys) }
func (g *ghostIter) First() bool                    { g.pos = 0; return g.Valid() }
func (g *ghostIter) Next() bool                     { g.pos++; return g.Valid() }
func (g *ghostIter) Prev() bool                     { g.pos--; return g.Valid() }
func (g *ghostIter) Key() []byte                    { return g.keys[g.pos] }
func (g *ghostIter) Value() ([]byte, error)         { return g.vals[g.pos], nil }
func (g *ghostIter) UncopiedValue() ([]byte, error) { return g.vals[g.pos], nil }
func (g *ghostIter) Seek(k []byte) bool {
	g.pos = sort.Search(len(g.keys), func(i int) bool { return bytes.Compare(g.keys[i], k) >= 0 })
	return g.Valid()
}

// NewIterator, IterMode = "twopoint": keys in one step, values in a second one.
func (g *ghostStore) NewIterator(p []byte, ub bool) (db.Iterator, error) {
	if !g.iter2 {
		return g.KeyValueStore.NewIterator(p, ub)
	}
	it, err := g.KeyValueStore.NewIterator(p, ub)
	if err != nil {
		return nil, err
	}
	gi := &ghostIter{pos: -1}
	for ok := it.First(); ok; ok = it.Next() {
		gi.keys = append(gi.keys, bytes.Clone(it.Key()))
	}
	it.Close()
	sort.Slice(gi.keys, func(a, b int) bool { return bytes.Compare(gi.keys[a], gi.keys[b]) < 0 })
	for _, k := range gi.keys {
		var val []byte
		_ = g.KeyValueStore.Get(k, func(v []byte) error { val = bytes.Clone(v); return nil })
		gi.vals = append(gi.vals, val)
	}
	return gi, nil
}

type ghostBatch struct {
	db.Batch
	st  db.KeyValueStore
	log []func() error
}

func (b *ghostBatch) Put(k, v []byte) error {
	k, v = bytes.Clone(k), bytes.Clone(v)
	b.log = append(b.log, func() error { return b.st.Put(k, v) })
	return nil
}

func (b *ghostBatch) Delete(k []byte) error {
	k = bytes.Clone(k)
	b.log = append(b.log, func() error { return b.st.Delete(k) })
	return nil
}

func (b *ghostBatch) DeleteRange(s, e []byte) error {
	s, e = bytes.Clone(s), bytes.Clone(e)
	b.log = append(b.log, func() error { return b.st.DeleteRange(s, e) })
	return nil
}

// Write, BatchMode = "keybykey": the log replayed through the store's own write path.
func (b *ghostBatch) Write() error {
	for _, f := range b.log {
		if err := f(); err != nil {
			return err
		}
	}
	return nil
}

func (g *ghostStore) NewBatch() db.Batch {
	if !g.batchKeyByKey {
		return g.KeyValueStore.NewBatch()
	}
	return &ghostBatch{Batch: g.KeyValueStore.NewBatch(), st: g.KeyValueStore}
}

// ---------------------------------------------------------------------------------------------

func linSizes(in *linIn, bi int, ngroups int, seed int64) []int {
	if bi < len(in.Sizes) && len(in.Sizes[bi]) == ngroups {
		return in.Sizes[bi]
	}
	rng := rand.New(rand.NewSource(seed*131 + int64(bi)))
	shapes := [][]int{{1200, 1200, 1200}, {2500, 600, 900}, {900, 2000, 1}, {1, 1500, 1500}, {1500, 1, 1500}, {3000, 300, 300}}
	sh := shapes[(int(seed)+bi)%len(shapes)]
	out := make([]int, ngroups)
	for g := range out {
		out[g] = sh[g%len(sh)]
		if out[g] > 1 {
			out[g] += rng.Intn(200)
		}
	}
	return out
}

func TestKVLinearizable(t *testing.T) {
	if !vh.Enabled() {
		t.Skip("driver only")
	}
	var in linIn
	if err := vh.Input(&in); err != nil {
		t.Fatal(err)
	}
	out := vh.NewResult()
	defer out.Write()
	if runtime.GOMAXPROCS(0) < 4 {
		runtime.GOMAXPROCS(4)
	}
	if in.Readers == 0 {
		in.Readers = 4
	}
	if in.RoundMs == 0 {
		in.RoundMs = 300
	}
	if in.MaxCalls == 0 {
		in.MaxCalls = 4000
	}
	gkeys := make([][]byte, len(in.Keys))
	for i, k := range in.Keys {
		gkeys[i] = linBytes(k)
	}
	want := map[string]bool{}
	for _, b := range in.Backends {
		want[b] = true
	}
	seed := vh.Seed()
	models := make([]*linModel, len(in.Behaviours))
	sizes := make([][]int, len(in.Behaviours))
	for bi, beh := range in.Behaviours {
		sizes[bi] = linSizes(&in, bi, len(gkeys), seed)
		m, err := newLinModel(gkeys, sizes[bi], beh, in.MaxCalls)
		if err != nil {
			t.Fatalf("behaviour %d: %v", bi, err)
		}
		models[bi] = m
	}

	// sensitivity: the ghost mechanisms must be reported by this very round
	if in.GhostMs > 0 {
		ghosts := []struct {
			name, key string
			mk        func() db.KeyValueStore
		}{
			{"iterator listing keys and fetching values at two points", "kv-concurrent:torn-iterator:ghost",
				func() db.KeyValueStore { return &ghostStore{KeyValueStore: memory.New(), iter2: true} }},
			{"batch replayed key by key", "kv-concurrent:torn-",
				func() db.KeyValueStore { return &ghostStore{KeyValueStore: memory.New(), batchKeyByKey: true} }},
		}
		for _, gh := range ghosts {
			t0 := time.Now()
			hit := false
			rounds := 0
			for !hit && time.Since(t0) < time.Duration(in.GhostMs)*time.Millisecond {
				bi := rounds % len(models)
				m := models[bi]
				if gh.key == "kv-concurrent:torn-" { // only plain batches go through the ghost batch
					m2 := *m
					m2.calls = make([]linEv, len(m.calls))
					for i, c := range m.calls {
						c.Via = "batch"
						m2.calls[i] = c
					}
					m = &m2
				}
				st := gh.mk()
				r := runLinRound(m, "ghost", st, in.Readers, time.Duration(in.RoundMs)*time.Millisecond, seed+int64(rounds))
				st.Close()
				rounds++
				for k := range r.found {
					if strings.HasPrefix(k, gh.key) {
						hit = true
					}
				}
			}
			out.Stats["ghost:"+gh.name] = vh.J{"reported": hit, "rounds": rounds, "ms": time.Since(t0).Milliseconds()}
			if !hit {
				out.Stats["ghost_missed"] = gh.name
			}
		}
	}

	totalObs := map[string]int{}
	wide := 0
	calls := 0
	for _, be := range backends() {
		if be.wrap != "" || be.scratch || (len(want) > 0 && !want[be.name]) {
			continue
		}
		for bi := range in.Behaviours {
			st, err := be.mk()("")
			if err != nil {
				t.Fatal(err)
			}
			r := runLinRound(models[bi], be.name, st, in.Readers, time.Duration(in.RoundMs)*time.Millisecond, seed*7919+int64(bi))
			st.Close()
			for k, n := range r.nobs {
				totalObs[k+":"+be.name] += n
			}
			wide += r.wide
			calls += int(r.done.Load())
			out.Done(1, int(r.done.Load()))
			if len(r.found) > 0 {
				out.Count("lin_rounds_reporting:"+be.name, 1)
			}
			keys := make([]string, 0, len(r.found))
			for k := range r.found {
				keys = append(keys, k)
			}
			sort.Strings(keys)
			for _, k := range keys {
				out.Diverge(vh.Divergence{
					Key: k, What: r.found[k],
					Input: vh.J{"keys": in.Keys, "behaviours": [][]linEv{in.Behaviours[bi]}, "backends": []string{be.name},
						"sizes": [][]int{sizes[bi]}, "round_ms": 4 * in.RoundMs, "max_calls": 4 * in.MaxCalls, "readers": in.Readers},
				})
			}
		}
	}
	out.Stats["lin_observations"] = totalObs
	out.Stats["lin_observations_spanning_commits"] = wide
	out.Stats["lin_writer_calls"] = calls
	if len(in.Behaviours) > 0 {
		out.Sample(vh.J{"lin_program_excerpt": in.Behaviours[0][:min(6, len(in.Behaviours[0]))], "sizes": sizes[0]})
	}
}

// Engine "kv" (property C15): replays KV.tla behaviours on every db.KeyValueStore backend and
// compares each call's result and the full store content with the specification's.
package kv

import (
	"bytes"
	"encoding/json"
	"errors"
	"fmt"
	"os"
	"path/filepath"
	"sort"
	"strings"
	"sync/atomic"
	"testing"
	"time"

	"github.com/NethermindEth/juno/db"
	"github.com/NethermindEth/juno/db/memory"
	pebblev1 "github.com/NethermindEth/juno/db/pebble"
	"github.com/NethermindEth/juno/db/pebblev2"
	pebv1 "github.com/cockroachdb/pebble"
	pebv2 "github.com/cockroachdb/pebble/v2"
	vfsv2 "github.com/cockroachdb/pebble/v2/vfs"
	vfsv1 "github.com/cockroachdb/pebble/vfs"

	"verifharness/internal/vh"
)

type op struct {
	Op string `json:"op"`
	K  int    `json:"k"`
	V  string `json:"v"`
	S  int    `json:"s"`
	E  int    `json:"e"`
}

type action struct {
	Name    string `json:"name"`
	K       int    `json:"k"`
	V       string `json:"v"`
	S       int    `json:"s"`
	E       int    `json:"e"`
	Ops     []op   `json:"ops"`
	Fail    bool   `json:"fail"`
	Indexed bool   `json:"indexed"`
	O       *op    `json:"o"`
	Src     string `json:"src"`
	P       []int  `json:"p"`
	Ub      bool   `json:"ub"`
	Cbf     bool   `json:"cbf"`    // Get family: the callback fails
	Sized   bool   `json:"sized"`  // NewBatch: the ...WithSize constructor
	Rk      int    `json:"rk"`     // Update: key read through the indexed batch inside the callback (0: none)
	Helper  string `json:"helper"` // Update: "update" (indexed batch) | "write" (plain batch)
}

type result struct {
	Kind  string `json:"kind"`
	V     string `json:"v,omitempty"`
	K     int    `json:"k,omitempty"`
	B     bool   `json:"b,omitempty"`     // Has
	N     int    `json:"n,omitempty"`     // Batch.Size
	Exact bool   `json:"exact,omitempty"` // Batch.Size: n is exact (no range delete in the log), else a lower bound
	Rd    string `json:"rd,omitempty"`    // Update: what the callback read through the indexed batch
	Items string `json:"items,omitempty"` // NewIter: the content the iterator ranges over, "k=v;k=v;"
}

type step struct {
	A     action   `json:"a"`
	Res   result   `json:"res"`
	Store []string `json:"store"`
}

type input struct {
	Keys       [][]int  `json:"keys"`
	Behaviours [][]step `json:"behaviours"`
	Backends   []string `json:"backends"`
	DiskEvery  int      `json:"disk_every"` // the on-disk variant replays every n-th behaviour (default 10)
	Listener   string   `json:"listener"`   // "" / "alt": every second behaviour runs on store.WithListener(l); "all"; "none"
	Tag        string   `json:"tag"`        // "cover": behaviours are the edge cover (statistics only)
}

// countingListener: db.EventListener handed to WithListener; the store returned by WithListener
// must obey the same contract.
type countingListener struct{ io, commit atomic.Int64 }

func (l *countingListener) OnIO(bool, time.Time)             { l.io.Add(1) }
func (l *countingListener) OnCommit(time.Time)               { l.commit.Add(1) }
func (l *countingListener) OnWriteStall(bool, time.Duration) {}

const absent = "-"

var errCallback = errors.New("callback failed")

type backend struct {
	name    string
	open    func(dir string) (db.KeyValueStore, error)
	mk      func() func(dir string) (db.KeyValueStore, error) // opener bound to one fresh file system
	wrap    string                                            // "", "sync", "buffer"
	isMem   bool
	scratch bool
}

// v2memOpen / v1memOpen return an opener bound to ONE in-memory file system, so that closing and
// opening again is a real restart (WAL replay) of the same database.
func v2memOpen() func(string) (db.KeyValueStore, error) {
	fs := vfsv2.NewMem()
	return func(string) (db.KeyValueStore, error) {
		return pebblev2.New("verif-mem", func(o *pebv2.Options) error { o.FS = fs; return nil })
	}
}

func v1memOpen() func(string) (db.KeyValueStore, error) {
	fs := vfsv1.NewMem()
	return func(string) (db.KeyValueStore, error) {
		return pebblev1.New("verif-mem", func(o *pebv1.Options) error { o.FS = fs; return nil })
	}
}

func backends() []backend {
	v2mem, v1mem := v2memOpen, v1memOpen
	v2disk := func() func(string) (db.KeyValueStore, error) {
		return func(dir string) (db.KeyValueStore, error) { return pebblev2.New(dir) }
	}
	mem := func() func(string) (db.KeyValueStore, error) {
		return func(string) (db.KeyValueStore, error) { return memory.New(), nil }
	}
	return []backend{
		{name: "memory", mk: mem, isMem: true},
		{name: "pebblev2", mk: v2mem},
		{name: "pebble", mk: v1mem},
		{name: "memory+syncbatch", mk: mem, wrap: "sync", isMem: true},
		{name: "pebblev2+syncbatch", mk: v2mem, wrap: "sync"},
		{name: "memory+bufferbatch", mk: mem, wrap: "buffer", isMem: true},
		{name: "pebblev2+bufferbatch", mk: v2mem, wrap: "buffer"},
		{name: "pebblev2-disk", mk: v2disk, scratch: true},
	}
}

type replayer struct {
	keys   [][]byte
	store  db.KeyValueStore
	be     backend
	opener func(dir string) (db.KeyValueStore, error)
	dir    string

	batch    db.IndexedBatch // possibly wrapped
	plain    db.Batch
	snap     db.Snapshot
	it       db.Iterator
	itShape  string
	bufBatch *db.BufferBatch

	// slices handed out by Key()/Value() are retained and must keep their content when the
	// iterator is repositioned or closed (both are documented / implemented as copies)
	held [][2][]byte

	listener *countingListener // non-nil: the store is the one WithListener(listener) returned
}

func (r *replayer) withListener(st db.KeyValueStore) db.KeyValueStore {
	if r.listener == nil {
		return st
	}
	return st.WithListener(r.listener)
}

func (r *replayer) key(i int) []byte { return r.keys[i-1] }

func (r *replayer) keyIndex(k []byte) int {
	for i, x := range r.keys {
		if bytes.Equal(x, k) {
			return i + 1
		}
	}
	return -1
}

type getter interface {
	Get([]byte, func([]byte) error) error
}

func readRes(rd getter, k []byte) (result, error) { return readResCb(rd, k, false) }

// readResCb: Get in its callback form; with cbf the callback fails and Get must hand its error back
// (the callback must not run at all for a missing key).
func readResCb(rd getter, k []byte, cbf bool) (result, error) {
	var val []byte
	calls := 0
	err := rd.Get(k, func(v []byte) error {
		calls++
		val = bytes.Clone(v)
		if cbf {
			return errCallback
		}
		return nil
	})
	if errors.Is(err, db.ErrKeyNotFound) {
		if calls != 0 {
			return result{Kind: "callback ran for a missing key"}, nil
		}
		return result{Kind: "notfound"}, nil
	}
	if cbf && errors.Is(err, errCallback) && calls == 1 {
		return result{Kind: "cberr"}, nil
	}
	if cbf || calls != 1 {
		return result{Kind: fmt.Sprintf("Get: callback ran %d times, returned %v", calls, err)}, nil
	}
	if err != nil {
		return result{Kind: "error"}, err
	}
	return result{Kind: "value", V: string(val)}, nil
}

func applyOp(w interface {
	db.KeyValueWriter
}, rd any, r *replayer, o op) error {
	switch o.Op {
	case "put":
		return w.Put(r.key(o.K), []byte(o.V))
	case "del":
		return w.Delete(r.key(o.K))
	case "delrange":
		dr, ok := rd.(db.KeyValueRangeDeleter)
		if !ok {
			return fmt.Errorf("no range delete")
		}
		return dr.DeleteRange(r.key(o.S), r.key(o.E))
	}
	return fmt.Errorf("unknown op %s", o.Op)
}

func okOrErr(err error) result {
	if err != nil {
		return result{Kind: "error:" + err.Error()}
	}
	return result{Kind: "ok"}
}

type haser interface {
	Has([]byte) (bool, error)
}

func hasRes(rd haser, k []byte) result {
	has, err := rd.Has(k)
	if err != nil {
		return result{Kind: "error:" + err.Error()}
	}
	return result{Kind: "has", B: has}
}

func (r *replayer) checkHeld() string {
	for _, h := range r.held {
		if !bytes.Equal(h[0], h[1]) {
			return fmt.Sprintf("a slice returned earlier by Key()/Value() changed from %x to %x", h[1], h[0])
		}
	}
	return ""
}

func (r *replayer) itRes(valid bool) result {
	if msg := r.checkHeld(); msg != "" {
		return result{Kind: "retained:" + msg}
	}
	if valid {
		k := r.it.Key()
		v, _ := r.it.Value()
		r.held = append(r.held, [2][]byte{k, bytes.Clone(k)}, [2][]byte{v, bytes.Clone(v)})
		if len(r.held) > 64 {
			r.held = r.held[len(r.held)-64:]
		}
	}
	if valid != r.it.Valid() {
		return result{Kind: fmt.Sprintf("inconsistent: move returned %v, Valid()=%v", valid, r.it.Valid())}
	}
	if !valid {
		return result{Kind: "invalid"}
	}
	v, err := r.it.Value()
	if err != nil {
		return result{Kind: "error:" + err.Error()}
	}
	if uv, uerr := r.it.UncopiedValue(); uerr != nil || !bytes.Equal(uv, v) {
		return result{Kind: fmt.Sprintf("inconsistent: UncopiedValue()=%x/%v, Value()=%x", uv, uerr, v)}
	}
	return result{Kind: "at", K: r.keyIndex(r.it.Key()), V: string(v)}
}

func shapeOf(p []int, ub bool) string {
	if len(p) == 0 {
		if ub {
			return "nil-ub"
		}
		return "nil-nobound"
	}
	allff := true
	for _, b := range p {
		if b != 255 {
			allff = false
		}
	}
	if !ub {
		return "prefix-nobound"
	}
	if allff {
		return "allff-ub"
	}
	return "prefix-ub"
}

const (
	noSkip   = 0
	skipRest = 1 // the variant cannot perform the call and its state would differ from now on
	skipStep = 2 // the variant cannot perform this (read-only) call; go on with the next one
)

// apply executes one model action on the real store and returns the observed result; exp is the
// specification's result (needed only where the contract leaves a number open: Batch.Size).
func (r *replayer) apply(a action, exp result) (res result, skip int) {
	defer func() {
		if p := recover(); p != nil {
			res = result{Kind: fmt.Sprintf("panic: %v", p)}
		}
	}()
	switch a.Name {
	case "Put":
		return okOrErr(r.store.Put(r.key(a.K), []byte(a.V))), noSkip
	case "Delete":
		return okOrErr(r.store.Delete(r.key(a.K))), noSkip
	case "DeleteRange":
		return okOrErr(r.store.DeleteRange(r.key(a.S), r.key(a.E))), noSkip
	case "Get":
		res, _ := readResCb(r.store, r.key(a.K), a.Cbf)
		return res, noSkip
	case "Has":
		return hasRes(r.store, r.key(a.K)), noSkip
	case "Update":
		useWrite := len(a.Ops)%2 == 0 // (recorded behaviours without `helper`) alternate the two helpers
		if a.Helper != "" {
			useWrite = a.Helper == "write"
		}
		var err error
		rd := ""
		fn := func(w db.KeyValueWriter, full any) error {
			for _, o := range a.Ops {
				if e := applyOp(w, full, r, o); e != nil {
					return e
				}
			}
			if a.Rk > 0 { // read through the indexed batch the helper handed to the callback
				ib, ok := full.(db.IndexedBatch)
				if !ok {
					return fmt.Errorf("callback of Update did not get an indexed batch")
				}
				g, _ := readRes(ib, r.key(a.Rk))
				h := hasRes(ib, r.key(a.Rk))
				switch {
				case h.Kind != "has" || h.B != (g.Kind == "value"):
					rd = fmt.Sprintf("Has=%v(%s) disagrees with Get=%s", h.B, h.Kind, g.Kind)
				case g.Kind == "value":
					rd = "value:" + g.V
				default:
					rd = g.Kind
				}
			}
			if a.Fail {
				return errCallback
			}
			return nil
		}
		if useWrite {
			err = r.store.Write(func(b db.Batch) error { return fn(b, b) })
		} else {
			err = r.store.Update(func(b db.IndexedBatch) error { return fn(b, b) })
		}
		if a.Fail {
			if errors.Is(err, errCallback) {
				return result{Kind: "cberr", Rd: rd}, noSkip
			}
			return result{Kind: fmt.Sprintf("expected callback error, got %v", err)}, noSkip
		}
		res := okOrErr(err)
		res.Rd = rd
		return res, noSkip
	case "NewBatch":
		if a.Indexed {
			var ib db.IndexedBatch
			if a.Sized {
				ib = r.store.NewIndexedBatchWithSize(64)
			} else {
				ib = r.store.NewIndexedBatch()
			}
			switch r.be.wrap {
			case "sync":
				r.batch = db.NewSyncBatch(ib)
			case "buffer":
				r.bufBatch = db.NewBufferBatch(ib)
				r.batch = ib
			default:
				r.batch = ib
			}
		} else if a.Sized {
			r.plain = r.store.NewBatchWithSize(64)
		} else {
			r.plain = r.store.NewBatch()
		}
		return result{Kind: "ok"}, noSkip
	case "BatchOp":
		if r.bufBatch != nil {
			if a.O.Op == "delrange" {
				return result{}, skipRest // BufferBatch does not support range deletes
			}
			return okOrErr(applyOp(r.bufBatch, nil, r, *a.O)), noSkip
		}
		if r.batch != nil {
			return okOrErr(applyOp(r.batch, r.batch, r, *a.O)), noSkip
		}
		return okOrErr(applyOp(r.plain, r.plain, r, *a.O)), noSkip
	case "BatchGet":
		if r.bufBatch != nil {
			res, _ := readResCb(r.bufBatch, r.key(a.K), a.Cbf)
			return res, noSkip
		}
		res, _ := readResCb(r.batch, r.key(a.K), a.Cbf)
		return res, noSkip
	case "BatchHas":
		if r.bufBatch != nil {
			return result{}, skipStep // BufferBatch.Has: "should not be called"
		}
		return hasRes(r.batch, r.key(a.K)), noSkip
	case "BatchSize":
		var n int
		switch {
		case r.bufBatch != nil:
			return result{}, skipStep // BufferBatch.Size: "should not be called"
		case r.batch != nil:
			n = r.batch.Size()
		default:
			n = r.plain.Size()
		}
		// with a range delete in the log the contract only gives a lower bound
		if !exp.Exact && n >= exp.N {
			n = exp.N
		}
		return result{Kind: "size", N: n, Exact: exp.Exact}, noSkip
	case "BatchWrite":
		var err error
		switch {
		case r.bufBatch != nil:
			err = r.bufBatch.Write()
		case r.batch != nil:
			err = r.batch.Write()
		default:
			err = r.plain.Write()
		}
		r.batch, r.plain, r.bufBatch = nil, nil, nil
		return okOrErr(err), noSkip
	case "BatchDiscard":
		var err error
		switch {
		case r.bufBatch != nil:
			err = r.bufBatch.Close()
		case r.batch != nil:
			err = r.batch.Close()
		default:
			err = r.plain.Close()
		}
		r.batch, r.plain, r.bufBatch = nil, nil, nil
		return okOrErr(err), noSkip
	case "NewSnapshot":
		r.snap = r.store.NewSnapshot()
		return result{Kind: "ok"}, noSkip
	case "SnapGet":
		res, _ := readResCb(r.snap, r.key(a.K), a.Cbf)
		return res, noSkip
	case "SnapHas":
		return hasRes(r.snap, r.key(a.K)), noSkip
	case "SnapClose":
		err := r.snap.Close()
		r.snap = nil
		return okOrErr(err), noSkip
	case "NewIter":
		var src db.KeyValueReader
		switch a.Src {
		case "store":
			src = r.store
		case "batch":
			if r.bufBatch != nil {
				return result{}, skipRest // BufferBatch.NewIterator: "should not be called"
			}
			src = r.batch
		case "snap":
			src = r.snap
		}
		p := make([]byte, len(a.P))
		for i, b := range a.P {
			p[i] = byte(b)
		}
		if len(p) == 0 {
			p = nil
		}
		it, err := src.NewIterator(p, a.Ub)
		if err != nil {
			return okOrErr(err), noSkip
		}
		r.it = it
		r.itShape = shapeOf(a.P, a.Ub)
		// what the iterator ranges over is part of the call's result: a SECOND iterator with the same
		// arguments is walked to the end (the one under test stays unpositioned)
		probe, err := src.NewIterator(p, a.Ub)
		if err != nil {
			return okOrErr(err), noSkip
		}
		items := ""
		for ok := probe.First(); ok; ok = probe.Next() {
			v, verr := probe.Value()
			if verr != nil {
				items += "error:" + verr.Error()
				break
			}
			items += fmt.Sprintf("%d=%s;", r.keyIndex(probe.Key()), v)
		}
		if err := probe.Close(); err != nil {
			return okOrErr(err), noSkip
		}
		return result{Kind: "ok", Items: items}, noSkip
	case "IterFirst":
		return r.itRes(r.it.First()), noSkip
	case "IterNext":
		return r.itRes(r.it.Next()), noSkip
	case "IterPrev":
		return r.itRes(r.it.Prev()), noSkip
	case "IterSeek":
		return r.itRes(r.it.Seek(r.key(a.K))), noSkip
	case "IterClose":
		err := r.it.Close()
		r.it = nil
		if msg := r.checkHeld(); msg != "" {
			return result{Kind: "retained:" + msg}, noSkip
		}
		return okOrErr(err), noSkip
	case "Flush":
		switch impl := r.store.Impl().(type) {
		case *pebv2.DB:
			return okOrErr(impl.Flush()), noSkip
		case *pebv1.DB:
			return okOrErr(impl.Flush()), noSkip
		}
		return result{Kind: "ok"}, noSkip // db/memory has no write buffer
	case "Reopen":
		if r.be.isMem {
			return result{Kind: "ok"}, noSkip // db/memory is not persistent; a restart is not defined
		}
		if err := r.store.Close(); err != nil {
			return okOrErr(err), noSkip
		}
		st, err := r.opener(r.dir)
		if err != nil {
			return okOrErr(err), noSkip
		}
		r.store = r.withListener(st)
		return result{Kind: "ok"}, noSkip
	}
	return result{Kind: "unknown action " + a.Name}, noSkip
}

func (r *replayer) dump() []string {
	out := make([]string, len(r.keys))
	for i := range out {
		out[i] = absent
	}
	it, err := r.store.NewIterator(nil, false)
	if err != nil {
		return []string{"error:" + err.Error()}
	}
	defer it.Close()
	for ok := it.First(); ok; ok = it.Next() {
		idx := r.keyIndex(it.Key())
		v, _ := it.Value()
		if idx < 0 {
			out = append(out, fmt.Sprintf("unexpected key %x=%x", it.Key(), v))
			continue
		}
		out[idx-1] = string(v)
	}
	return out
}

// closeAll closes what the behaviour left open and then the store; a store that cannot be closed
// any more (error or panic: e.g. a value handle that was never released) is reported.
func (r *replayer) closeAll() (problem string) {
	func() {
		defer func() { _ = recover() }()
		if r.it != nil {
			r.it.Close()
		}
		if r.snap != nil {
			r.snap.Close()
		}
		if r.batch != nil {
			r.batch.Close()
		}
		if r.plain != nil {
			r.plain.Close()
		}
	}()
	defer func() {
		if p := recover(); p != nil {
			problem = fmt.Sprintf("panic: %v", p)
		}
	}()
	if err := r.store.Close(); err != nil {
		return "error: " + err.Error()
	}
	return ""
}

// leakedHandle: Pebble refuses to close (error "leaked iterators", or a panic "element has
// outstanding references" from the block cache) when a value handle it gave out was not released.
func leakedHandle(msg string) bool {
	return strings.Contains(msg, "outstanding references") || strings.Contains(msg, "leaked iterators")
}

func eqStore(a, b []string) bool {
	if len(a) != len(b) {
		return false
	}
	for i := range a {
		if a[i] != b[i] {
			return false
		}
	}
	return true
}

func TestKVReplay(t *testing.T) {
	if !vh.Enabled() {
		t.Skip("driver only")
	}
	var in input
	if err := vh.Input(&in); err != nil {
		t.Fatal(err)
	}
	out := vh.NewResult()
	defer out.Write()
	keys := make([][]byte, len(in.Keys))
	for i, k := range in.Keys {
		keys[i] = make([]byte, len(k))
		for j, b := range k {
			keys[i][j] = byte(b)
		}
	}
	want := map[string]bool{}
	for _, b := range in.Backends {
		want[b] = true
	}
	actionsSeen := map[string]int{}
	diskEvery := in.DiskEvery
	if diskEvery <= 0 {
		diskEvery = 10
	}
	for _, be := range backends() {
		if len(want) > 0 && !want[be.name] {
			continue
		}
		nb := 0
		for bi, beh := range in.Behaviours {
			if be.scratch && bi%diskEvery != 0 {
				continue // the on-disk variant (fsync per write) replays every n-th behaviour
			}
			dir := ""
			if be.scratch {
				d, err := os.MkdirTemp(vh.Scratch(), "pebble")
				if err != nil {
					t.Fatal(err)
				}
				dir = filepath.Join(d, "db")
				defer os.RemoveAll(d)
			}
			opener := be.mk()
			st, err := opener(dir)
			if err != nil {
				t.Fatalf("open %s: %v", be.name, err)
			}
			r := &replayer{keys: keys, be: be, opener: opener, dir: dir}
			useListener := in.Listener == "all" || (in.Listener != "none" && bi%2 == 1)
			if useListener {
				r.listener = &countingListener{}
			}
			r.store = r.withListener(st)
			if bi == 0 {
				// Helper.Path / Helper.Impl: stable answers, no effect on the content
				if p1, p2 := r.store.Path(), r.store.Path(); p1 != p2 || (be.scratch && p1 != dir) {
					out.Diverge(vh.Divergence{Key: "kv:" + be.name + ":Path", What: fmt.Sprintf("backend %s: Path() gave %q then %q (opened at %q)", be.name, p1, p2, dir),
						Input: vh.J{"keys": in.Keys, "behaviours": [][]step{beh[:1]}, "backends": []string{be.name}}})
				}
				if r.store.Impl() == nil {
					out.Diverge(vh.Divergence{Key: "kv:" + be.name + ":Impl", What: "backend " + be.name + ": Impl() is nil",
						Input: vh.J{"keys": in.Keys, "behaviours": [][]step{beh[:1]}, "backends": []string{be.name}}})
				}
			}
			diverged := false
			for si, s := range beh {
				obs, skip := r.apply(s.A, s.Res)
				if skip == skipRest {
					break
				}
				if skip == skipStep {
					continue
				}
				out.Done(0, 1)
				actionsSeen[s.A.Name]++
				obsStore := r.dump()
				if obs != s.Res || !eqStore(obsStore, s.Store) {
					key := fmt.Sprintf("kv:%s:%s", be.name, s.A.Name)
					isIterCall := len(s.A.Name) > 4 && s.A.Name[:4] == "Iter" || s.A.Name == "NewIter"
					if r.it != nil && isIterCall && (r.itShape == "prefix-nobound" || r.itShape == "allff-ub") && obs != s.Res {
						key = fmt.Sprintf("kv-iter-shape:%s:%s", r.itShape, be.name)
					}
					if s.A.Name == "Reopen" && leakedHandle(obs.Kind) {
						// the database cannot be closed: a value handle obtained earlier was never released
						key = "kv-close-leaked-handle:" + be.name
					}
					if s.A.Name == "SnapHas" && !s.Res.B && len(obs.Kind) > 6 && obs.Kind[:6] == "error:" {
						// Snapshot.Has of a key that is not in the snapshot returns an error instead of (false, nil)
						key = "kv-snapshot-has-missing-key:error:" + be.name
					}
					out.Diverge(vh.Divergence{
						Key:  key,
						What: fmt.Sprintf("backend %s, call %s: result/store differs from the contract", be.name, s.A.Name),
						Input: vh.J{"keys": in.Keys, "behaviours": [][]step{beh[:si+1]}, "backends": []string{be.name},
							"listener": map[bool]string{true: "all", false: "none"}[useListener], "disk_every": 1},
						Step: si, Expected: vh.J{"res": s.Res, "store": s.Store}, Observed: vh.J{"res": obs, "store": obsStore},
					})
					diverged = true
					break
				}
			}
			if problem := r.closeAll(); problem != "" && !diverged {
				key := fmt.Sprintf("kv:%s:Close", be.name)
				if leakedHandle(problem) {
					key = "kv-close-leaked-handle:" + be.name
				}
				out.Diverge(vh.Divergence{
					Key:  key,
					What: fmt.Sprintf("backend %s: closing the database after the behaviour: %s", be.name, problem),
					Input: vh.J{"keys": in.Keys, "behaviours": [][]step{beh}, "backends": []string{be.name},
						"listener": map[bool]string{true: "all", false: "none"}[useListener], "disk_every": 1},
					Step: len(beh), Expected: "closed", Observed: problem,
				})
			}
			nb++
		}
		out.Count("behaviours_"+be.name, nb)
		out.Done(nb, 0)
	}
	names := make([]string, 0, len(actionsSeen))
	for n := range actionsSeen {
		names = append(names, n)
	}
	sort.Strings(names)
	cov := map[string]int{}
	for _, n := range names {
		cov[n] = actionsSeen[n]
	}
	out.Stats["actions_replayed"] = cov
	if len(in.Behaviours) > 0 {
		b, _ := json.Marshal(in.Behaviours[0])
		var s any
		_ = json.Unmarshal(b, &s)
		out.Sample(s)
	}
}

// TestKVEmptyKeyProbe: Put / Get / iterate / flush / reopen with the EMPTY key on one backend, in a
// process of its own (a backend may kill the process from a background goroutine).
func TestKVEmptyKeyProbe(t *testing.T) {
	if !vh.Enabled() {
		t.Skip("driver only")
	}
	var in struct {
		Backend string `json:"backend"`
	}
	if err := vh.Input(&in); err != nil {
		t.Fatal(err)
	}
	out := vh.NewResult()
	defer out.Write()
	for _, be := range backends() {
		if be.name != in.Backend {
			continue
		}
		opener := be.mk()
		st, err := opener("")
		if err != nil {
			t.Fatal(err)
		}
		fail := func(what string) {
			out.Diverge(vh.Divergence{Key: "kv:" + be.name + ":empty-key:" + what,
				What: "backend " + be.name + ": empty key: " + what, Input: vh.J{"backend": be.name}})
		}
		if err := st.Put([]byte{}, []byte("a")); err != nil {
			fail("put-rejected")
		}
		r := &replayer{keys: [][]byte{{}, {0}}, store: st, be: be, opener: opener}
		// a memtable holding ONLY the empty key (one-row data block) ...
		if res, _ := r.apply(action{Name: "Flush"}, result{}); res.Kind != "ok" {
			fail("flush-single:" + res.Kind)
		}
		time.Sleep(300 * time.Millisecond)
		// ... and one holding it next to another key
		_ = st.Put([]byte{}, []byte("a"))
		_ = st.Put([]byte{0}, []byte("b"))
		if res, _ := r.apply(action{Name: "Flush"}, result{}); res.Kind != "ok" {
			fail("flush:" + res.Kind)
		}
		time.Sleep(300 * time.Millisecond) // background flush/compaction goroutines
		if res, _ := readRes(r.store, []byte{}); res != (result{Kind: "value", V: "a"}) {
			fail("get-after-flush:" + res.Kind)
		}
		if got := r.dump(); len(got) != 2 || got[0] != "a" || got[1] != "b" {
			fail(fmt.Sprintf("iteration:%v", got))
		}
		if res, _ := r.apply(action{Name: "Reopen"}, result{}); res.Kind != "ok" {
			fail("reopen:" + res.Kind)
		}
		if res, _ := readRes(r.store, []byte{}); res != (result{Kind: "value", V: "a"}) {
			fail("get-after-reopen:" + res.Kind)
		}
		r.store.Close()
		out.Done(1, 6)
	}
}

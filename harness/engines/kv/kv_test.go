// Engine "kv" (property C15): replays KV.tla behaviours on every db.KeyValueStore backend and
// compares each call's result and the full store content with the specification's.
package kv

import (
	"bytes"
	"encoding/json"
	"errors"
	"fmt"
	"os"
	"path/filepath"
	"sort"
	"time"
	"testing"

	"github.com/NethermindEth/juno/db"
	"github.com/NethermindEth/juno/db/memory"
	pebblev1 "github.com/NethermindEth/juno/db/pebble"
	"github.com/NethermindEth/juno/db/pebblev2"
	pebv1 "github.com/cockroachdb/pebble"
	vfsv1 "github.com/cockroachdb/pebble/vfs"
	pebv2 "github.com/cockroachdb/pebble/v2"
	vfsv2 "github.com/cockroachdb/pebble/v2/vfs"

	"verifharness/internal/vh"
)

type op struct {
	Op string `json:"op"`
	K  int    `json:"k"`
	V  string `json:"v"`
	S  int    `json:"s"`
	E  int    `json:"e"`
}

type action struct {
	Name    string `json:"name"`
	K       int    `json:"k"`
	V       string `json:"v"`
	S       int    `json:"s"`
	E       int    `json:"e"`
	Ops     []op   `json:"ops"`
	Fail    bool   `json:"fail"`
	Indexed bool   `json:"indexed"`
	O       *op    `json:"o"`
	Src     string `json:"src"`
	P       []int  `json:"p"`
	Ub      bool   `json:"ub"`
}

type result struct {
	Kind string `json:"kind"`
	V    string `json:"v,omitempty"`
	K    int    `json:"k,omitempty"`
}

type step struct {
	A     action   `json:"a"`
	Res   result   `json:"res"`
	Store []string `json:"store"`
}

type input struct {
	Keys       [][]int  `json:"keys"`
	Behaviours [][]step `json:"behaviours"`
	Backends   []string `json:"backends"`
}

const absent = "-"

var errCallback = errors.New("callback failed")

type backend struct {
	name    string
	open    func(dir string) (db.KeyValueStore, error)
	mk      func() func(dir string) (db.KeyValueStore, error) // opener bound to one fresh file system
	wrap    string // "", "sync", "buffer"
	isMem   bool
	scratch bool
}

// v2memOpen / v1memOpen return an opener bound to ONE in-memory file system, so that closing and
// opening again is a real restart (WAL replay) of the same database.
func v2memOpen() func(string) (db.KeyValueStore, error) {
	fs := vfsv2.NewMem()
	return func(string) (db.KeyValueStore, error) {
		return pebblev2.New("verif-mem", func(o *pebv2.Options) error { o.FS = fs; return nil })
	}
}

func v1memOpen() func(string) (db.KeyValueStore, error) {
	fs := vfsv1.NewMem()
	return func(string) (db.KeyValueStore, error) {
		return pebblev1.New("verif-mem", func(o *pebv1.Options) error { o.FS = fs; return nil })
	}
}

func backends() []backend {
	v2mem, v1mem := v2memOpen, v1memOpen
	v2disk := func() func(string) (db.KeyValueStore, error) {
		return func(dir string) (db.KeyValueStore, error) { return pebblev2.New(dir) }
	}
	mem := func() func(string) (db.KeyValueStore, error) {
		return func(string) (db.KeyValueStore, error) { return memory.New(), nil }
	}
	return []backend{
		{name: "memory", mk: mem, isMem: true},
		{name: "pebblev2", mk: v2mem},
		{name: "pebble", mk: v1mem},
		{name: "memory+syncbatch", mk: mem, wrap: "sync", isMem: true},
		{name: "pebblev2+syncbatch", mk: v2mem, wrap: "sync"},
		{name: "memory+bufferbatch", mk: mem, wrap: "buffer", isMem: true},
		{name: "pebblev2+bufferbatch", mk: v2mem, wrap: "buffer"},
		{name: "pebblev2-disk", mk: v2disk, scratch: true},
	}
}

type replayer struct {
	keys   [][]byte
	store  db.KeyValueStore
	be     backend
	opener func(dir string) (db.KeyValueStore, error)
	dir    string

	batch    db.IndexedBatch // possibly wrapped
	plain    db.Batch
	snap     db.Snapshot
	it       db.Iterator
	itShape  string
	bufBatch *db.BufferBatch

	// slices handed out by Key()/Value() are retained and must keep their content when the
	// iterator is repositioned or closed (both are documented / implemented as copies)
	held [][2][]byte
}

func (r *replayer) key(i int) []byte { return r.keys[i-1] }

func (r *replayer) keyIndex(k []byte) int {
	for i, x := range r.keys {
		if bytes.Equal(x, k) {
			return i + 1
		}
	}
	return -1
}

func readRes(rd interface {
	Get([]byte, func([]byte) error) error
}, k []byte) (result, error) {
	var val []byte
	err := rd.Get(k, func(v []byte) error { val = bytes.Clone(v); return nil })
	if errors.Is(err, db.ErrKeyNotFound) {
		return result{Kind: "notfound"}, nil
	}
	if err != nil {
		return result{Kind: "error"}, err
	}
	return result{Kind: "value", V: string(val)}, nil
}

func applyOp(w interface {
	db.KeyValueWriter
}, rd any, r *replayer, o op) error {
	switch o.Op {
	case "put":
		return w.Put(r.key(o.K), []byte(o.V))
	case "del":
		return w.Delete(r.key(o.K))
	case "delrange":
		dr, ok := rd.(db.KeyValueRangeDeleter)
		if !ok {
			return fmt.Errorf("no range delete")
		}
		return dr.DeleteRange(r.key(o.S), r.key(o.E))
	}
	return fmt.Errorf("unknown op %s", o.Op)
}

func okOrErr(err error) result {
	if err != nil {
		return result{Kind: "error:" + err.Error()}
	}
	return result{Kind: "ok"}
}

func (r *replayer) checkHeld() string {
	for _, h := range r.held {
		if !bytes.Equal(h[0], h[1]) {
			return fmt.Sprintf("a slice returned earlier by Key()/Value() changed from %x to %x", h[1], h[0])
		}
	}
	return ""
}

func (r *replayer) itRes(valid bool) result {
	if msg := r.checkHeld(); msg != "" {
		return result{Kind: "retained:" + msg}
	}
	if valid {
		k := r.it.Key()
		v, _ := r.it.Value()
		r.held = append(r.held, [2][]byte{k, bytes.Clone(k)}, [2][]byte{v, bytes.Clone(v)})
		if len(r.held) > 64 {
			r.held = r.held[len(r.held)-64:]
		}
	}
	if valid != r.it.Valid() {
		return result{Kind: fmt.Sprintf("inconsistent: move returned %v, Valid()=%v", valid, r.it.Valid())}
	}
	if !valid {
		return result{Kind: "invalid"}
	}
	v, err := r.it.Value()
	if err != nil {
		return result{Kind: "error:" + err.Error()}
	}
	return result{Kind: "at", K: r.keyIndex(r.it.Key()), V: string(v)}
}

func shapeOf(p []int, ub bool) string {
	if len(p) == 0 {
		if ub {
			return "nil-ub"
		}
		return "nil-nobound"
	}
	allff := true
	for _, b := range p {
		if b != 255 {
			allff = false
		}
	}
	if !ub {
		return "prefix-nobound"
	}
	if allff {
		return "allff-ub"
	}
	return "prefix-ub"
}

// apply executes one model action on the real store and returns the observed result.
func (r *replayer) apply(a action) (res result, skip bool) {
	defer func() {
		if p := recover(); p != nil {
			res = result{Kind: fmt.Sprintf("panic: %v", p)}
		}
	}()
	switch a.Name {
	case "Put":
		return okOrErr(r.store.Put(r.key(a.K), []byte(a.V))), false
	case "Delete":
		return okOrErr(r.store.Delete(r.key(a.K))), false
	case "DeleteRange":
		return okOrErr(r.store.DeleteRange(r.key(a.S), r.key(a.E))), false
	case "Get":
		res, _ := readRes(r.store, r.key(a.K))
		// Has must agree with Get
		has, err := r.store.Has(r.key(a.K))
		if err != nil || has != (res.Kind == "value") {
			return result{Kind: fmt.Sprintf("Has=%v/%v disagrees with Get=%s", has, err, res.Kind)}, false
		}
		return res, false
	case "Update":
		useWrite := len(a.Ops)%2 == 0 // alternate the two helpers; Write's callback gets a plain batch
		var err error
		fn := func(w db.KeyValueWriter, full any) error {
			for _, o := range a.Ops {
				if e := applyOp(w, full, r, o); e != nil {
					return e
				}
			}
			if a.Fail {
				return errCallback
			}
			return nil
		}
		if useWrite {
			err = r.store.Write(func(b db.Batch) error { return fn(b, b) })
		} else {
			err = r.store.Update(func(b db.IndexedBatch) error { return fn(b, b) })
		}
		if a.Fail {
			if errors.Is(err, errCallback) {
				return result{Kind: "cberr"}, false
			}
			return result{Kind: fmt.Sprintf("expected callback error, got %v", err)}, false
		}
		return okOrErr(err), false
	case "NewBatch":
		if a.Indexed {
			ib := r.store.NewIndexedBatch()
			switch r.be.wrap {
			case "sync":
				r.batch = db.NewSyncBatch(ib)
			case "buffer":
				r.bufBatch = db.NewBufferBatch(ib)
				r.batch = ib
			default:
				r.batch = ib
			}
		} else {
			r.plain = r.store.NewBatch()
		}
		return result{Kind: "ok"}, false
	case "BatchOp":
		if r.bufBatch != nil {
			if a.O.Op == "delrange" {
				return result{}, true // BufferBatch does not support range deletes
			}
			return okOrErr(applyOp(r.bufBatch, nil, r, *a.O)), false
		}
		if r.batch != nil {
			return okOrErr(applyOp(r.batch, r.batch, r, *a.O)), false
		}
		return okOrErr(applyOp(r.plain, r.plain, r, *a.O)), false
	case "BatchGet":
		if r.bufBatch != nil {
			res, _ := readRes(r.bufBatch, r.key(a.K))
			return res, false
		}
		res, _ := readRes(r.batch, r.key(a.K))
		has, err := r.batch.Has(r.key(a.K))
		if err != nil || has != (res.Kind == "value") {
			return result{Kind: fmt.Sprintf("Has=%v/%v disagrees with Get=%s", has, err, res.Kind)}, false
		}
		return res, false
	case "BatchWrite":
		var err error
		switch {
		case r.bufBatch != nil:
			err = r.bufBatch.Write()
		case r.batch != nil:
			err = r.batch.Write()
		default:
			err = r.plain.Write()
		}
		r.batch, r.plain, r.bufBatch = nil, nil, nil
		return okOrErr(err), false
	case "BatchDiscard":
		var err error
		switch {
		case r.bufBatch != nil:
			err = r.bufBatch.Close()
		case r.batch != nil:
			err = r.batch.Close()
		default:
			err = r.plain.Close()
		}
		r.batch, r.plain, r.bufBatch = nil, nil, nil
		return okOrErr(err), false
	case "NewSnapshot":
		r.snap = r.store.NewSnapshot()
		return result{Kind: "ok"}, false
	case "SnapGet":
		res, _ := readRes(r.snap, r.key(a.K))
		return res, false
	case "SnapClose":
		err := r.snap.Close()
		r.snap = nil
		return okOrErr(err), false
	case "NewIter":
		var src db.KeyValueReader
		switch a.Src {
		case "store":
			src = r.store
		case "batch":
			if r.bufBatch != nil {
				return result{}, true
			}
			src = r.batch
		case "snap":
			src = r.snap
		}
		p := make([]byte, len(a.P))
		for i, b := range a.P {
			p[i] = byte(b)
		}
		if len(p) == 0 {
			p = nil
		}
		it, err := src.NewIterator(p, a.Ub)
		if err != nil {
			return okOrErr(err), false
		}
		r.it = it
		r.itShape = shapeOf(a.P, a.Ub)
		return result{Kind: "ok"}, false
	case "IterFirst":
		return r.itRes(r.it.First()), false
	case "IterNext":
		return r.itRes(r.it.Next()), false
	case "IterPrev":
		return r.itRes(r.it.Prev()), false
	case "IterSeek":
		return r.itRes(r.it.Seek(r.key(a.K))), false
	case "IterClose":
		err := r.it.Close()
		r.it = nil
		if msg := r.checkHeld(); msg != "" {
			return result{Kind: "retained:" + msg}, false
		}
		return okOrErr(err), false
	case "Flush":
		switch impl := r.store.Impl().(type) {
		case *pebv2.DB:
			return okOrErr(impl.Flush()), false
		case *pebv1.DB:
			return okOrErr(impl.Flush()), false
		}
		return result{Kind: "ok"}, false // db/memory has no write buffer
	case "Reopen":
		if r.be.isMem {
			return result{Kind: "ok"}, false // db/memory is not persistent; a restart is not defined
		}
		if err := r.store.Close(); err != nil {
			return okOrErr(err), false
		}
		st, err := r.opener(r.dir)
		if err != nil {
			return okOrErr(err), false
		}
		r.store = st
		return result{Kind: "ok"}, false
	}
	return result{Kind: "unknown action " + a.Name}, false
}

func (r *replayer) dump() []string {
	out := make([]string, len(r.keys))
	for i := range out {
		out[i] = absent
	}
	it, err := r.store.NewIterator(nil, false)
	if err != nil {
		return []string{"error:" + err.Error()}
	}
	defer it.Close()
	for ok := it.First(); ok; ok = it.Next() {
		idx := r.keyIndex(it.Key())
		v, _ := it.Value()
		if idx < 0 {
			out = append(out, fmt.Sprintf("unexpected key %x=%x", it.Key(), v))
			continue
		}
		out[idx-1] = string(v)
	}
	return out
}

func (r *replayer) closeAll() {
	defer func() { _ = recover() }()
	if r.it != nil {
		r.it.Close()
	}
	if r.snap != nil {
		r.snap.Close()
	}
	if r.batch != nil {
		r.batch.Close()
	}
	if r.plain != nil {
		r.plain.Close()
	}
	r.store.Close()
}

func eqStore(a, b []string) bool {
	if len(a) != len(b) {
		return false
	}
	for i := range a {
		if a[i] != b[i] {
			return false
		}
	}
	return true
}

func TestKVReplay(t *testing.T) {
	if !vh.Enabled() {
		t.Skip("driver only")
	}
	var in input
	if err := vh.Input(&in); err != nil {
		t.Fatal(err)
	}
	out := vh.NewResult()
	defer out.Write()
	keys := make([][]byte, len(in.Keys))
	for i, k := range in.Keys {
		keys[i] = make([]byte, len(k))
		for j, b := range k {
			keys[i][j] = byte(b)
		}
	}
	want := map[string]bool{}
	for _, b := range in.Backends {
		want[b] = true
	}
	actionsSeen := map[string]int{}
	for _, be := range backends() {
		if len(want) > 0 && !want[be.name] {
			continue
		}
		nb := 0
		for bi, beh := range in.Behaviours {
			if be.scratch && bi%10 != 0 {
				continue // the on-disk variant (fsync per write) replays every 10th behaviour
			}
			dir := ""
			if be.scratch {
				d, err := os.MkdirTemp(vh.Scratch(), "pebble")
				if err != nil {
					t.Fatal(err)
				}
				dir = filepath.Join(d, "db")
				defer os.RemoveAll(d)
			}
			opener := be.mk()
			st, err := opener(dir)
			if err != nil {
				t.Fatalf("open %s: %v", be.name, err)
			}
			r := &replayer{keys: keys, store: st, be: be, opener: opener, dir: dir}
			for si, s := range beh {
				obs, skip := r.apply(s.A)
				if skip {
					break
				}
				out.Done(0, 1)
				actionsSeen[s.A.Name]++
				obsStore := r.dump()
				if obs != s.Res || !eqStore(obsStore, s.Store) {
					key := fmt.Sprintf("kv:%s:%s", be.name, s.A.Name)
					if r.it != nil && (r.itShape == "prefix-nobound" || r.itShape == "allff-ub") && obs != s.Res {
						key = fmt.Sprintf("kv-iter-shape:%s:%s", r.itShape, be.name)
					}
					out.Diverge(vh.Divergence{
						Key:  key,
						What: fmt.Sprintf("backend %s, call %s: result/store differs from the contract", be.name, s.A.Name),
						Input: vh.J{"keys": in.Keys, "behaviours": [][]step{beh[:si+1]}, "backends": []string{be.name}},
						Step:  si, Expected: vh.J{"res": s.Res, "store": s.Store}, Observed: vh.J{"res": obs, "store": obsStore},
					})
					break
				}
			}
			r.closeAll()
			nb++
		}
		out.Count("behaviours_"+be.name, nb)
		out.Done(nb, 0)
	}
	names := make([]string, 0, len(actionsSeen))
	for n := range actionsSeen {
		names = append(names, n)
	}
	sort.Strings(names)
	cov := map[string]int{}
	for _, n := range names {
		cov[n] = actionsSeen[n]
	}
	out.Stats["actions_replayed"] = cov
	if len(in.Behaviours) > 0 {
		b, _ := json.Marshal(in.Behaviours[0])
		var s any
		_ = json.Unmarshal(b, &s)
		out.Sample(s)
	}
}

// TestKVEmptyKeyProbe: Put / Get / iterate / flush / reopen with the EMPTY key on one backend, in a
// process of its own (a backend may kill the process from a background goroutine).
func TestKVEmptyKeyProbe(t *testing.T) {
	if !vh.Enabled() {
		t.Skip("driver only")
	}
	var in struct {
		Backend string `json:"backend"`
	}
	if err := vh.Input(&in); err != nil {
		t.Fatal(err)
	}
	out := vh.NewResult()
	defer out.Write()
	for _, be := range backends() {
		if be.name != in.Backend {
			continue
		}
		opener := be.mk()
		st, err := opener("")
		if err != nil {
			t.Fatal(err)
		}
		fail := func(what string) {
			out.Diverge(vh.Divergence{Key: "kv:" + be.name + ":empty-key:" + what,
				What: "backend " + be.name + ": empty key: " + what, Input: vh.J{"backend": be.name}})
		}
		if err := st.Put([]byte{}, []byte("a")); err != nil {
			fail("put-rejected")
		}
		r := &replayer{keys: [][]byte{{}, {0}}, store: st, be: be, opener: opener}
		// a memtable holding ONLY the empty key (one-row data block) ...
		if res, _ := r.apply(action{Name: "Flush"}); res.Kind != "ok" {
			fail("flush-single:" + res.Kind)
		}
		time.Sleep(300 * time.Millisecond)
		// ... and one holding it next to another key
		_ = st.Put([]byte{}, []byte("a"))
		_ = st.Put([]byte{0}, []byte("b"))
		if res, _ := r.apply(action{Name: "Flush"}); res.Kind != "ok" {
			fail("flush:" + res.Kind)
		}
		time.Sleep(300 * time.Millisecond) // background flush/compaction goroutines
		if res, _ := readRes(r.store, []byte{}); res != (result{Kind: "value", V: "a"}) {
			fail("get-after-flush:" + res.Kind)
		}
		if got := r.dump(); len(got) != 2 || got[0] != "a" || got[1] != "b" {
			fail(fmt.Sprintf("iteration:%v", got))
		}
		if res, _ := r.apply(action{Name: "Reopen"}); res.Kind != "ok" {
			fail("reopen:" + res.Kind)
		}
		if res, _ := readRes(r.store, []byte{}); res != (result{Kind: "value", V: "a"}) {
			fail("get-after-reopen:" + res.Kind)
		}
		r.store.Close()
		out.Done(1, 6)
	}
}

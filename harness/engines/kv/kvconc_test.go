package kv

import (
	"bufio"
	"encoding/json"
	"fmt"
	"math/rand"
	"os"
	"runtime"
	"sync"
	"testing"

	"github.com/NethermindEth/juno/db"

	"verifharness/internal/vh"
)

// Recorder for the concurrent half of C15 (spec/kv/KVTrace.tla): one writer and three readers on a
// real backend; each call is logged before it starts and after it returned, in one global order.

type concIn struct {
	Keys     [][]int  `json:"keys"`
	Rounds   int      `json:"rounds"`
	WriterOps int     `json:"writer_ops"`
	HammerRounds  int `json:"hammer_rounds"`
	HammerBatches int `json:"hammer_batches"`
	Out      string   `json:"out"`
	Backends []string `json:"backends"`
}

type tlog struct {
	mu sync.Mutex
	w  *bufio.Writer
	n  int
}

func (t *tlog) emit(ev map[string]any) {
	t.mu.Lock()
	defer t.mu.Unlock()
	b, _ := json.Marshal(ev)
	t.w.Write(b)
	t.w.WriteByte('\n')
	t.n++
}

func TestKVConcurrent(t *testing.T) {
	if !vh.Enabled() {
		t.Skip("driver only")
	}
	var in concIn
	if err := vh.Input(&in); err != nil {
		t.Fatal(err)
	}
	out := vh.NewResult()
	defer out.Write()
	keys := make([][]byte, len(in.Keys))
	for i, k := range in.Keys {
		keys[i] = make([]byte, len(k))
		for j, b := range k {
			keys[i][j] = byte(b)
		}
	}
	f, err := os.Create(in.Out)
	if err != nil {
		t.Fatal(err)
	}
	defer f.Close()
	lg := &tlog{w: bufio.NewWriter(f)}
	defer lg.w.Flush()
	want := map[string]bool{}
	for _, b := range in.Backends {
		want[b] = true
	}
	rounds := []map[string]any{}
	seed := vh.Seed()
	for _, be := range backends() {
		if be.wrap != "" || be.scratch || (len(want) > 0 && !want[be.name]) {
			continue
		}
		for round := 0; round < in.Rounds; round++ {
			st, err := be.mk()("")
			if err != nil {
				t.Fatal(err)
			}
			start := lg.n + 1
			lg.emit(map[string]any{"ev": "Reset", "backend": be.name, "round": round})
			if round < in.HammerRounds {
				runHammer(lg, st, keys, in.HammerBatches, 12*in.HammerBatches)
			} else {
				runRound(lg, st, keys, rand.New(rand.NewSource(seed*7919+int64(round))), in.WriterOps)
			}
			st.Close()
			rounds = append(rounds, map[string]any{"backend": be.name, "round": round, "first": start, "last": lg.n})
			out.Done(1, 0)
		}
	}
	out.Stats["trace_events"] = lg.n
	out.Stats["rounds"] = rounds
}

func keyIdx(keys [][]byte, k []byte) int {
	for i, x := range keys {
		if string(x) == string(k) {
			return i + 1
		}
	}
	return -1
}

// runHammer: the writer commits batches that set EVERY key to one tag; readers scan as fast as they
// can. Any scan / snapshot showing two different tags is a torn batch (no explanation in KVTrace).
func runHammer(lg *tlog, st db.KeyValueStore, keys [][]byte, batches, maxReads int) {
	var wg sync.WaitGroup
	done := make(chan struct{})
	wg.Add(1)
	go func() {
		defer wg.Done()
		defer close(done)
		defer func() {
			if p := recover(); p != nil {
				lg.emit(map[string]any{"ev": "Panic", "who": "writer", "what": fmt.Sprint(p)})
			}
		}()
		rep := &replayer{keys: keys, store: st}
		for i := 0; i < batches; i++ {
			// several passes over all keys with ONE tag: a long batch widens the window in which a
			// backend that applies the operations one by one (instead of atomically) can be observed
			ops := make([]op, 0, 8*len(keys))
			for pass := 0; pass < 8; pass++ {
				for j := range keys {
					ops = append(ops, op{Op: "put", K: j + 1, V: fmt.Sprintf("h%d", i)})
				}
			}
			lg.emit(map[string]any{"ev": "WStart", "ops": ops})
			b := st.NewBatch()
			for _, o := range ops {
				_ = applyOp(b, b, rep, o)
			}
			if err := b.Write(); err != nil {
				lg.emit(map[string]any{"ev": "WError", "err": err.Error()})
			}
			lg.emit(map[string]any{"ev": "WEnd"})
		}
	}()
	for rid := 1; rid <= 2; rid++ {
		wg.Add(1)
		go func(rid int) {
			defer wg.Done()
			defer func() {
				if p := recover(); p != nil {
					lg.emit(map[string]any{"ev": "Panic", "who": "reader", "what": fmt.Sprint(p)})
				}
			}()
			for n := 0; n < maxReads; n++ {
				select {
				case <-done:
					return
				default:
				}
				lg.emit(map[string]any{"ev": "RStart", "r": rid, "kind": "scan", "p": []int{}, "ub": false})
				it, err := st.NewIterator(nil, false)
				if err != nil {
					lg.emit(map[string]any{"ev": "RError", "r": rid, "err": err.Error()})
					return
				}
				lg.emit(map[string]any{"ev": "RCreated", "r": rid})
				items := [][]any{}
				for ok := it.First(); ok; ok = it.Next() {
					v, _ := it.Value()
					items = append(items, []any{keyIdx(keys, it.Key()), string(v)})
				}
				it.Close()
				lg.emit(map[string]any{"ev": "REnd", "r": rid, "items": items})
			}
		}(rid)
	}
	wg.Wait()
}

func runRound(lg *tlog, st db.KeyValueStore, keys [][]byte, rng *rand.Rand, wops int) {
	nk := len(keys)
	var wg sync.WaitGroup
	done := make(chan struct{})
	// writer
	wseed := rng.Int63()
	wg.Add(1)
	go func() {
		defer wg.Done()
		defer close(done)
		defer func() {
			if p := recover(); p != nil {
				lg.emit(map[string]any{"ev": "Panic", "who": "writer", "what": fmt.Sprint(p)})
			}
		}()
		r := rand.New(rand.NewSource(wseed))
		for i := 0; i < wops; i++ {
			n := 1
			kind := r.Intn(5)
			if kind >= 3 {
				n = 2 + r.Intn(3)
			}
			ops := make([]op, n)
			for j := range ops {
				switch c := r.Intn(10); {
				case c < 6:
					ops[j] = op{Op: "put", K: 1 + r.Intn(nk), V: fmt.Sprintf("w%d.%d", i, j)}
				case c < 8:
					ops[j] = op{Op: "del", K: 1 + r.Intn(nk), V: "-"}
				default:
					s := 1 + r.Intn(nk)
					ops[j] = op{Op: "delrange", S: s, E: s + r.Intn(nk-s+1), V: "-"}
					if ops[j].E > nk {
						ops[j].E = nk
					}
				}
			}
			if kind == 3 || kind == 4 {
				// make the batch touch two keys with the same tag so that a torn read is visible
				ops[0] = op{Op: "put", K: 1 + r.Intn(nk), V: fmt.Sprintf("w%d", i)}
				ops[n-1] = op{Op: "put", K: 1 + r.Intn(nk), V: fmt.Sprintf("w%d", i)}
			}
			lg.emit(map[string]any{"ev": "WStart", "ops": ops})
			rep := &replayer{keys: keys, store: st}
			var err error
			switch kind {
			case 0, 1, 2:
				o := ops[0]
				switch o.Op {
				case "put":
					err = st.Put(rep.key(o.K), []byte(o.V))
				case "del":
					err = st.Delete(rep.key(o.K))
				case "delrange":
					err = st.DeleteRange(rep.key(o.S), rep.key(o.E))
				}
			case 3:
				b := st.NewBatch()
				for _, o := range ops {
					if e := applyOp(b, b, rep, o); e != nil {
						err = e
					}
				}
				runtime.Gosched()
				if e := b.Write(); e != nil {
					err = e
				}
			case 4:
				err = st.Update(func(b db.IndexedBatch) error {
					for _, o := range ops {
						if e := applyOp(b, b, rep, o); e != nil {
							return e
						}
						runtime.Gosched()
					}
					return nil
				})
			}
			if err != nil {
				lg.emit(map[string]any{"ev": "WError", "err": err.Error()})
			}
			lg.emit(map[string]any{"ev": "WEnd"})
			if r.Intn(3) == 0 {
				runtime.Gosched()
			}
		}
	}()
	// readers
	for rid := 1; rid <= 3; rid++ {
		rseed := rng.Int63()
		wg.Add(1)
		go func(rid int) {
			defer wg.Done()
			defer func() {
				if p := recover(); p != nil {
					lg.emit(map[string]any{"ev": "Panic", "who": "reader", "what": fmt.Sprint(p)})
				}
			}()
			r := rand.New(rand.NewSource(rseed))
			for n := 0; n < 2*wops; n++ {
				select {
				case <-done:
					return
				default:
				}
				switch r.Intn(3) {
				case 0:
					k := 1 + r.Intn(nk)
					lg.emit(map[string]any{"ev": "RStart", "r": rid, "kind": "get", "k": k})
					res, _ := readRes(st, keys[k-1])
					lg.emit(map[string]any{"ev": "REnd", "r": rid, "res": res})
				case 1:
					prefixes := [][]int{{}, {0}, {0, 0}, {255}, {1}}
					p := prefixes[r.Intn(len(prefixes))]
					ub := len(p) > 0
					pb := make([]byte, len(p))
					for i, b := range p {
						pb[i] = byte(b)
					}
					if len(pb) == 0 {
						pb = nil
					}
					lg.emit(map[string]any{"ev": "RStart", "r": rid, "kind": "scan", "p": p, "ub": ub})
					it, err := st.NewIterator(pb, ub)
					if err != nil {
						lg.emit(map[string]any{"ev": "RError", "r": rid, "err": err.Error()})
						return
					}
					lg.emit(map[string]any{"ev": "RCreated", "r": rid})
					items := [][]any{}
					for ok := it.First(); ok; ok = it.Next() {
						v, _ := it.Value()
						items = append(items, []any{keyIdx(keys, it.Key()), string(v)})
						runtime.Gosched() // let the writer in between two steps of the scan
					}
					it.Close()
					lg.emit(map[string]any{"ev": "REnd", "r": rid, "items": items})
				case 2:
					lg.emit(map[string]any{"ev": "RStart", "r": rid, "kind": "snap"})
					sn := st.NewSnapshot()
					lg.emit(map[string]any{"ev": "RCreated", "r": rid})
					items := [][]any{}
					for i := range keys {
						runtime.Gosched()
						res, _ := readRes(sn, keys[i])
						if res.Kind == "value" {
							items = append(items, []any{i + 1, res.V})
						}
					}
					sn.Close()
					lg.emit(map[string]any{"ev": "REnd", "r": rid, "items": items})
				}
			}
		}(rid)
	}
	wg.Wait()
}

package accessors

import (
	"bytes"
	"sync"

	"github.com/NethermindEth/juno/db"
)

// poisonStore enforces the lending contract of db.KeyValueReader on top of any store: the slice
// handed to a Get callback is only valid INSIDE the callback (pebble releases it in
// closer.Close() right after; db/memory happens to hand out a long-lived slice, which hides
// violations), and an iterator's UncopiedValue is only valid until the iterator moves or closes.
// The wrapper lends a private copy and overwrites it with garbage as soon as the loan ends, so any
// accessor that retains lent memory (instead of decoding / copying inside the callback) returns
// garbage deterministically - which the strict comparison of the sweep then reports.
// The same holds for snapshots and indexed batches created from the store.
type poisonStore struct {
	db.KeyValueStore
}

func poison(inner db.KeyValueStore) db.KeyValueStore { return &poisonStore{inner} }

func scribble(b []byte) {
	for i := range b {
		b[i] = 0xA5 ^ byte(i*7)
	}
}

func lend(get func(key []byte, cb func([]byte) error) error, key []byte, cb func([]byte) error) error {
	return get(key, func(v []byte) error {
		loan := bytes.Clone(v)
		if v != nil && loan == nil {
			loan = []byte{}
		}
		err := cb(loan)
		scribble(loan)
		return err
	})
}

func (p *poisonStore) Get(key []byte, cb func([]byte) error) error {
	return lend(p.KeyValueStore.Get, key, cb)
}

func (p *poisonStore) NewIterator(prefix []byte, ub bool) (db.Iterator, error) {
	it, err := p.KeyValueStore.NewIterator(prefix, ub)
	if err != nil {
		return nil, err
	}
	return &poisonIter{Iterator: it}, nil
}

type poisonIter struct {
	db.Iterator
	mu    sync.Mutex
	loans [][]byte
}

func (i *poisonIter) expire() {
	i.mu.Lock()
	for _, l := range i.loans {
		scribble(l)
	}
	i.loans = nil
	i.mu.Unlock()
}

func (i *poisonIter) UncopiedValue() ([]byte, error) {
	v, err := i.Iterator.UncopiedValue()
	if err != nil {
		return nil, err
	}
	loan := bytes.Clone(v)
	i.mu.Lock()
	i.loans = append(i.loans, loan)
	i.mu.Unlock()
	return loan, nil
}

func (i *poisonIter) First() bool        { i.expire(); return i.Iterator.First() }
func (i *poisonIter) Next() bool         { i.expire(); return i.Iterator.Next() }
func (i *poisonIter) Prev() bool         { i.expire(); return i.Iterator.Prev() }
func (i *poisonIter) Seek(k []byte) bool { i.expire(); return i.Iterator.Seek(k) }
func (i *poisonIter) Close() error       { i.expire(); return i.Iterator.Close() }

type poisonSnapshot struct{ db.Snapshot }

func (s *poisonSnapshot) Get(key []byte, cb func([]byte) error) error {
	return lend(s.Snapshot.Get, key, cb)
}

func (s *poisonSnapshot) NewIterator(prefix []byte, ub bool) (db.Iterator, error) {
	it, err := s.Snapshot.NewIterator(prefix, ub)
	if err != nil {
		return nil, err
	}
	return &poisonIter{Iterator: it}, nil
}

func (p *poisonStore) NewSnapshot() db.Snapshot {
	return &poisonSnapshot{p.KeyValueStore.NewSnapshot()}
}

type poisonBatch struct{ db.IndexedBatch }

func (b *poisonBatch) Get(key []byte, cb func([]byte) error) error {
	return lend(b.IndexedBatch.Get, key, cb)
}

func (b *poisonBatch) NewIterator(prefix []byte, ub bool) (db.Iterator, error) {
	it, err := b.IndexedBatch.NewIterator(prefix, ub)
	if err != nil {
		return nil, err
	}
	return &poisonIter{Iterator: it}, nil
}

func (p *poisonStore) NewIndexedBatch() db.IndexedBatch {
	return &poisonBatch{p.KeyValueStore.NewIndexedBatch()}
}

func (p *poisonStore) NewIndexedBatchWithSize(n int) db.IndexedBatch {
	return &poisonBatch{p.KeyValueStore.NewIndexedBatchWithSize(n)}
}

func (p *poisonStore) Update(fn func(db.IndexedBatch) error) error {
	b := p.NewIndexedBatch()
	if err := fn(b); err != nil {
		_ = b.Close()
		return err
	}
	return b.Write()
}

func (p *poisonStore) WithListener(db.EventListener) db.KeyValueStore { return p }

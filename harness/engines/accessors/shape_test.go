// Representation-level identity (property C07, BlockBlob.tla "shape classes" / ShapePreserved).
//
// Every slice / map / byte-string / pointer field of every stored type is a *shape field*: its value
// has a shape class - containers {nil, empty, one, many}, pointers {nil, zero, nonzero} - and the
// specification says, per field, what an accessor returns for a stored shape (the per-field normal
// form table MCFieldTable of spec/chain/MCBlockBlob.tla, computed through the specification's
// WireOf / Decoded operators and handed to this engine as JSON; a field the table does not list is
// exact). The engine
//
//	(1) enumerates the shape fields of the stored Go types by reflection (paths such as
//	    *core.SierraClass.Compiled.Bytecode, *core.TransactionReceipt.Events[].Keys,
//	    *core.StateUpdate.StateDiff.StorageDiffs{}{});
//	(2) generates a fully populated object of every type and, from it, one variant per (field, shape
//	    class) - one field varied at a time - plus the all-empty and the all-nil object;
//	(3) writes the variants through the real writers (core.WriteBlockHeader,
//	    WriteTransactionsAndReceipts, WriteL1HandlerMsgHashes, WriteStateUpdateByBlockNum,
//	    WriteBlockCommitment, WriteClass of both state backends, WriteClassCasmHashMetadata,
//	    WriteL1Head; classes also through SanityCheckNewHeight + Store on both state backends) into
//	    db/memory, db/pebblev2 and the poisoning store;
//	(4) reads them back through every accessor (core.Get*, blockchain.Reader, the state readers) and
//	    compares with a shape-aware deep comparison: the shape class of EVERY shape field of the
//	    returned object must be the one the specification gives for the stored shape, contents equal;
//	(5) writes what the accessors returned through the same writers into a second database and
//	    compares the two databases byte for byte (re-encoding the returned object must give the
//	    stored bytes);
//	(6) compares the encoding/json rendering of what was stored (in normal form) with the rendering
//	    of what was returned (what an RPC adapter copying the field would show: null vs [] vs {}).
package accessors

import (
	"bytes"
	"encoding"
	"encoding/json"
	"fmt"
	"math/big"
	"math/rand"
	"reflect"
	"sort"
	"strings"
	"testing"

	"github.com/NethermindEth/juno/blockchain"
	"github.com/NethermindEth/juno/core"
	"github.com/NethermindEth/juno/core/felt"
	corestate "github.com/NethermindEth/juno/core/state"
	"github.com/NethermindEth/juno/db"
	"github.com/NethermindEth/juno/encoder"
	"github.com/NethermindEth/juno/l1/eth"
	"github.com/bits-and-blooms/bloom/v3"

	"verifharness/internal/chainkit"
	"verifharness/internal/faultkv"
	"verifharness/internal/vh"
)

// ------------------------------------------------------------------ the specification's table

type shapeCase struct {
	Stored   string `json:"stored"`
	Wire     string `json:"wire"`
	Returned string `json:"returned"`
}

type shapeRow struct {
	Path  string      `json:"path"`
	Kind  string      `json:"kind"` // slice | bytes | map | ptr
	Codec string      `json:"codec"`
	Norm  string      `json:"norm"` // exact | empty=nil | nil=empty | key
	Cases []shapeCase `json:"cases"`
}

type shapeInput struct {
	Seed     int64      `json:"seed"`
	Table    []shapeRow `json:"table"`
	Backends []string   `json:"backends"`
	Only     string     `json:"only"`  // replay: only variants whose id contains this
	Chain    bool       `json:"chain"` // also declare the class variants through SanityCheckNewHeight + Store
}

type contract struct {
	rows map[string]shapeRow
	used map[string]bool
}

// returned: the shape class the specification expects an accessor to return for a stored one.
func (c *contract) returned(path, stored string) string {
	r, ok := c.rows[path]
	if !ok {
		return stored // not listed: exact
	}
	c.used[path] = true
	for _, cs := range r.Cases {
		if cs.Stored == stored {
			return cs.Returned
		}
	}
	return stored
}

func (c *contract) isKey(path string) bool { return c.rows[path].Norm == "key" }

// ------------------------------------------------------------------ shape fields by reflection

type stepKind int

const (
	stField stepKind = iota
	stDeref
	stElem
	stMapVal
)

type pstep struct {
	k stepKind
	i int // field index
}

type shapeField struct {
	path  string
	kind  string // slice | bytes | map | ptr
	steps []pstep
	typ   reflect.Type
}

var (
	bigIntT   = reflect.TypeOf(big.Int{})
	bloomT    = reflect.TypeOf(bloom.BloomFilter{})
	feltT     = reflect.TypeOf(felt.Felt{})
	rawJSONT  = reflect.TypeOf(json.RawMessage{})
	jsonMarsT = reflect.TypeOf((*json.Marshaler)(nil)).Elem()
	textMarsT = reflect.TypeOf((*encoding.TextMarshaler)(nil)).Elem()
)

func opaque(t reflect.Type) bool {
	if t.Kind() != reflect.Struct {
		return false
	}
	for i := 0; i < t.NumField(); i++ {
		if !t.Field(i).IsExported() {
			return true
		}
	}
	return false
}

func isFeltLike(t reflect.Type) bool {
	return t.Kind() == reflect.Array && t.Len() == 4 && t.Elem().Kind() == reflect.Uint64
}

func kindOfShape(t reflect.Type) string {
	switch t.Kind() {
	case reflect.Ptr:
		return "ptr"
	case reflect.Map:
		return "map"
	case reflect.Slice:
		if t.Elem().Kind() == reflect.Uint8 {
			return "bytes"
		}
		return "slice"
	}
	return ""
}

// enumerate lists the shape fields reachable from t (the pointee of a root pointer, or a root value).
func enumerate(t reflect.Type, path string, steps []pstep, seen map[reflect.Type]int, out *[]shapeField) {
	cp := func(s pstep) []pstep { return append(append([]pstep{}, steps...), s) }
	if k := kindOfShape(t); k != "" && len(steps) > 0 {
		*out = append(*out, shapeField{path: path, kind: k, steps: append([]pstep{}, steps...), typ: t})
	}
	switch t.Kind() {
	case reflect.Ptr:
		if opaque(t.Elem()) || isFeltLike(t.Elem()) {
			return
		}
		enumerate(t.Elem(), path, cp(pstep{k: stDeref}), seen, out)
	case reflect.Slice:
		if t.Elem().Kind() == reflect.Uint8 {
			return
		}
		enumerate(t.Elem(), path+"[]", cp(pstep{k: stElem}), seen, out)
	case reflect.Map:
		enumerate(t.Elem(), path+"{}", cp(pstep{k: stMapVal}), seen, out)
	case reflect.Struct:
		if opaque(t) || seen[t] >= 2 {
			return
		}
		seen[t]++
		for i := 0; i < t.NumField(); i++ {
			f := t.Field(i)
			p := path + "." + f.Name
			if f.Anonymous {
				p = path
			}
			enumerate(f.Type, p, cp(pstep{k: stField, i: i}), seen, out)
		}
		seen[t]--
	}
}

// ------------------------------------------------------------------ generation

type filler struct {
	r *rand.Rand
	g *chainkit.Gen
}

func newFiller(seed int64) *filler {
	return &filler{r: rand.New(rand.NewSource(seed)), g: chainkit.NewGen(seed ^ 0x5eed)}
}

// fill populates v completely: every pointer non-nil and non-zero, every container with three
// elements, every scalar non-zero.
func (f *filler) fill(v reflect.Value, depth int) {
	t := v.Type()
	switch {
	case isFeltLike(t):
		v.Set(reflect.ValueOf(*f.g.Felt()).Convert(t))
		return
	case t == bigIntT:
		v.Set(reflect.ValueOf(*new(big.Int).SetUint64(uint64(f.r.Int63())&0xffffffffff | 1)))
		return
	case t == bloomT:
		bf := bloom.New(core.EventsBloomLength, core.EventsBloomHashFuncs)
		bf.Add([]byte{byte(f.r.Intn(250)), 1, 2})
		v.Set(reflect.ValueOf(*bf))
		return
	}
	switch t.Kind() {
	case reflect.Ptr:
		v.Set(reflect.New(t.Elem()))
		f.fill(v.Elem(), depth+1)
	case reflect.Slice:
		f.setShape(v, "many", depth)
	case reflect.Map:
		f.setShape(v, "many", depth)
	case reflect.Struct:
		for i := 0; i < t.NumField(); i++ {
			if t.Field(i).IsExported() {
				f.fill(v.Field(i), depth)
			}
		}
	case reflect.Array:
		for i := 0; i < v.Len(); i++ {
			f.fill(v.Index(i), depth)
		}
	case reflect.Uint8:
		v.SetUint(uint64(1 + f.r.Intn(200)))
	case reflect.Uint, reflect.Uint32:
		v.SetUint(1)
	case reflect.Uint64:
		v.SetUint(uint64(1 + f.r.Intn(1_000_000)))
	case reflect.Int, reflect.Int64:
		v.SetInt(int64(1 + f.r.Intn(1000)))
	case reflect.Bool:
		v.SetBool(true)
	case reflect.String:
		v.SetString(fmt.Sprintf("s%d", f.r.Intn(1_000_000)))
	case reflect.Interface:
		// ClassDefinition / Transaction: set by the caller
	default:
		panic(fmt.Sprintf("harness: filler does not know kind %s (%s)", t.Kind(), t))
	}
}

var shapeCount = map[string]int{"empty": 0, "one": 1, "many": 3}

// setShape sets the shape field v to the given shape class; elements are fully populated.
func (f *filler) setShape(v reflect.Value, shape string, depth int) {
	t := v.Type()
	if shape == "nil" {
		v.Set(reflect.Zero(t))
		return
	}
	switch t.Kind() {
	case reflect.Ptr:
		v.Set(reflect.New(t.Elem()))
		if shape == "nonzero" {
			f.fill(v.Elem(), depth+1)
		}
	case reflect.Slice:
		n := shapeCount[shape]
		if t.Elem().Kind() == reflect.Uint8 { // byte strings hold JSON in every stored type
			v.SetBytes([]byte([]string{"", "7", "[7,8]"}[min(n, 2)]))
			return
		}
		if depth > 6 { // recursive types (SegmentLengths.Children): the innermost level is empty
			n = 0
		}
		s := reflect.MakeSlice(t, n, n)
		for i := 0; i < n; i++ {
			f.fill(s.Index(i), depth+1)
		}
		v.Set(s)
	case reflect.Map:
		n := min(shapeCount[shape], 2)
		m := reflect.MakeMapWithSize(t, n)
		for i := 0; i < n; i++ {
			k := reflect.New(t.Key()).Elem()
			if t.Key().Kind() == reflect.Uint32 { // core.Resource
				k.SetUint(uint64(i + 1))
			} else {
				f.fill(k, depth+1)
			}
			e := reflect.New(t.Elem()).Elem()
			f.fill(e, depth+1)
			m.SetMapIndex(k, e)
		}
		v.Set(m)
	default:
		panic("harness: setShape on " + t.String())
	}
}

func shapesOf(kind string) []string {
	if kind == "ptr" {
		return []string{"nil", "zero", "nonzero"}
	}
	return []string{"nil", "empty", "one", "many"}
}

func sortedKeys(m reflect.Value) []reflect.Value {
	ks := m.MapKeys()
	sort.Slice(ks, func(i, j int) bool { return fmt.Sprint(ks[i].Interface()) < fmt.Sprint(ks[j].Interface()) })
	return ks
}

// at navigates from v along steps (first element of a slice, smallest key of a map) and calls fn on
// the settable value there; changes to map values are written back. false: the place does not exist.
func at(v reflect.Value, steps []pstep, fn func(reflect.Value)) bool {
	if len(steps) == 0 {
		fn(v)
		return true
	}
	switch s := steps[0]; s.k {
	case stField:
		return at(v.Field(s.i), steps[1:], fn)
	case stDeref:
		if v.IsNil() {
			return false
		}
		return at(v.Elem(), steps[1:], fn)
	case stElem:
		if v.Len() == 0 {
			return false
		}
		return at(v.Index(0), steps[1:], fn)
	case stMapVal:
		if v.Len() == 0 {
			return false
		}
		k := sortedKeys(v)[0]
		tmp := reflect.New(v.Type().Elem()).Elem()
		tmp.Set(v.MapIndex(k))
		ok := at(tmp, steps[1:], fn)
		v.SetMapIndex(k, tmp)
		return ok
	}
	return false
}

// setAll sets every shape field directly reachable through plain structs to nil or to empty / zero.
func setAll(f *filler, v reflect.Value, shape string, path string, c *contract) {
	t := v.Type()
	if k := kindOfShape(t); k != "" {
		if c.isKey(path) {
			return
		}
		sh := shape
		if k == "ptr" && shape == "empty" {
			sh = "zero"
		}
		f.setShape(v, sh, 0)
		return
	}
	if t.Kind() == reflect.Struct && !opaque(t) {
		for i := 0; i < t.NumField(); i++ {
			p := path + "." + t.Field(i).Name
			if t.Field(i).Anonymous {
				p = path
			}
			setAll(f, v.Field(i), shape, p, c)
		}
	}
}

// variant: one object to store. make() builds it afresh (deterministically), so the engine can hold
// an untouched copy of what it handed to the writer.
type variant struct {
	id    string // "<root>.<path>:<shape>" | "<root>:all-empty" | "<root>:all-nil" | "<root>:populated"
	root  string
	path  string // the varied field ("" for the whole-object variants)
	shape string
	make  func() reflect.Value // a pointer to the root type
}

func variantsOf(seed int64, root string, t reflect.Type, c *contract, prep func(reflect.Value)) []variant {
	var fields []shapeField
	enumerate(t, root, nil, map[reflect.Type]int{}, &fields)
	base := func() (*filler, reflect.Value) {
		f := newFiller(seed)
		v := reflect.New(t)
		f.fill(v.Elem(), 0)
		if prep != nil {
			prep(v)
		}
		return f, v
	}
	out := []variant{{id: root + ":populated", root: root, shape: "populated", make: func() reflect.Value { _, v := base(); return v }}}
	for _, sf := range fields {
		if c.isKey(sf.path) {
			continue
		}
		if _, v := base(); !at(v.Elem(), sf.steps, func(reflect.Value) {}) {
			continue // a prepared base without such a place
		}
		for _, sh := range shapesOf(sf.kind) {
			sf, sh := sf, sh
			out = append(out, variant{id: sf.path + ":" + sh, root: root, path: sf.path, shape: sh, make: func() reflect.Value {
				f, v := base()
				if !at(v.Elem(), sf.steps, func(x reflect.Value) { f.setShape(x, sh, 0) }) {
					panic("harness: no place " + sf.path + " in the populated object")
				}
				return v
			}})
		}
	}
	for _, sh := range []string{"empty", "nil"} {
		sh := sh
		out = append(out, variant{id: root + ":all-" + sh, root: root, shape: "all-" + sh, make: func() reflect.Value {
			f, v := base()
			setAll(f, v.Elem(), sh, root, c)
			return v
		}})
	}
	return out
}

// ------------------------------------------------------------------ shape-aware comparison

func shapeOf(v reflect.Value) string {
	switch v.Kind() {
	case reflect.Ptr:
		switch {
		case v.IsNil():
			return "nil"
		case isZeroValue(v.Elem()):
			return "zero"
		}
		return "nonzero"
	case reflect.Slice, reflect.Map:
		switch {
		case v.IsNil():
			return "nil"
		case v.Len() == 0:
			return "empty"
		case v.Len() == 1:
			return "one"
		}
		return "many"
	}
	return ""
}

func isZeroValue(v reflect.Value) bool {
	switch v.Type() {
	case bigIntT:
		b := v.Interface().(big.Int)
		return b.Sign() == 0
	case bloomT:
		return reflect.DeepEqual(v.Interface(), bloom.BloomFilter{})
	}
	return reflect.DeepEqual(v.Interface(), reflect.Zero(v.Type()).Interface())
}

type mismatch struct {
	kind     string // shape | value
	path     string
	stored   string
	returned string
	detail   string
}

func opaqueEqual(a, b reflect.Value) bool {
	switch a.Type() {
	case bigIntT:
		x, y := a.Interface().(big.Int), b.Interface().(big.Int)
		return x.Cmp(&y) == 0
	case bloomT:
		x, y := a.Interface().(bloom.BloomFilter), b.Interface().(bloom.BloomFilter)
		if reflect.DeepEqual(x, bloom.BloomFilter{}) || reflect.DeepEqual(y, bloom.BloomFilter{}) {
			return reflect.DeepEqual(x, y)
		}
		return x.Equal(&y)
	}
	return reflect.DeepEqual(a.Interface(), b.Interface())
}

// compareShapes walks what was stored and what was returned in lockstep. At every shape field the
// returned shape class must be the one the specification gives for the stored one; contents equal.
func compareShapes(c *contract, path string, want, got reflect.Value) *mismatch {
	if want.Type() != got.Type() {
		return &mismatch{kind: "value", path: path, detail: fmt.Sprintf("type %s, stored %s", got.Type(), want.Type())}
	}
	if k := kindOfShape(want.Type()); k != "" {
		ws, gs := shapeOf(want), shapeOf(got)
		if exp := c.returned(path, ws); gs != exp {
			return &mismatch{kind: "shape", path: path, stored: ws, returned: gs, detail: "the specification expects " + exp}
		}
		if ws == "nil" || gs == "nil" {
			return nil
		}
	}
	switch want.Kind() {
	case reflect.Ptr:
		if opaque(want.Type().Elem()) {
			if !opaqueEqual(want.Elem(), got.Elem()) {
				return &mismatch{kind: "value", path: path, detail: "content differs"}
			}
			return nil
		}
		return compareShapes(c, path, want.Elem(), got.Elem())
	case reflect.Slice:
		if want.Len() != got.Len() {
			return &mismatch{kind: "value", path: path, detail: fmt.Sprintf("length %d, stored %d", got.Len(), want.Len())}
		}
		if want.Type().Elem().Kind() == reflect.Uint8 {
			if !bytes.Equal(want.Bytes(), got.Bytes()) {
				return &mismatch{kind: "value", path: path, detail: "bytes differ"}
			}
			return nil
		}
		for i := 0; i < want.Len(); i++ {
			if m := compareShapes(c, path+"[]", want.Index(i), got.Index(i)); m != nil {
				return m
			}
		}
	case reflect.Map:
		if want.Len() != got.Len() {
			return &mismatch{kind: "value", path: path, detail: fmt.Sprintf("%d entries, stored %d", got.Len(), want.Len())}
		}
		for _, k := range sortedKeys(want) {
			g := got.MapIndex(k)
			if !g.IsValid() {
				return &mismatch{kind: "value", path: path, detail: fmt.Sprintf("key %v missing", k.Interface())}
			}
			if m := compareShapes(c, path+"{}", want.MapIndex(k), g); m != nil {
				return m
			}
		}
	case reflect.Struct:
		if opaque(want.Type()) {
			if !opaqueEqual(want, got) {
				return &mismatch{kind: "value", path: path, detail: "content differs"}
			}
			return nil
		}
		for i := 0; i < want.NumField(); i++ {
			p := path + "." + want.Type().Field(i).Name
			if want.Type().Field(i).Anonymous {
				p = path
			}
			if m := compareShapes(c, p, want.Field(i), got.Field(i)); m != nil {
				return m
			}
		}
	case reflect.Interface:
		if want.IsNil() != got.IsNil() {
			return &mismatch{kind: "shape", path: path, stored: nilness(want), returned: nilness(got)}
		}
		if want.IsNil() {
			return nil
		}
		if want.Elem().Type() != got.Elem().Type() {
			return &mismatch{kind: "value", path: path, detail: fmt.Sprintf("dynamic type %s, stored %s", got.Elem().Type(), want.Elem().Type())}
		}
		return compareShapes(c, want.Elem().Type().String(), want.Elem(), got.Elem())
	default:
		if !reflect.DeepEqual(want.Interface(), got.Interface()) {
			return &mismatch{kind: "value", path: path, detail: fmt.Sprintf("%v, stored %v", got.Interface(), want.Interface())}
		}
	}
	return nil
}

func nilness(v reflect.Value) string {
	if v.IsNil() {
		return "nil"
	}
	return "nonzero"
}

// normalise rewrites v (what was stored) into the specification's normal form, in place.
func normalise(c *contract, path string, v reflect.Value) {
	if k := kindOfShape(v.Type()); k != "" && v.CanSet() {
		ws := shapeOf(v)
		switch exp := c.returned(path, ws); {
		case exp == ws:
		case exp == "nil":
			v.Set(reflect.Zero(v.Type()))
		case exp == "empty" && v.Kind() == reflect.Slice:
			v.Set(reflect.MakeSlice(v.Type(), 0, 0))
		case exp == "empty" && v.Kind() == reflect.Map:
			v.Set(reflect.MakeMap(v.Type()))
		case exp == "zero" && v.Kind() == reflect.Ptr:
			v.Set(reflect.New(v.Type().Elem()))
		}
	}
	switch v.Kind() {
	case reflect.Ptr:
		if !v.IsNil() && !opaque(v.Type().Elem()) {
			normalise(c, path, v.Elem())
		}
	case reflect.Slice:
		if v.Type().Elem().Kind() != reflect.Uint8 {
			for i := 0; i < v.Len(); i++ {
				normalise(c, path+"[]", v.Index(i))
			}
		}
	case reflect.Map:
		for _, k := range v.MapKeys() {
			tmp := reflect.New(v.Type().Elem()).Elem()
			tmp.Set(v.MapIndex(k))
			normalise(c, path+"{}", tmp)
			v.SetMapIndex(k, tmp)
		}
	case reflect.Struct:
		if !opaque(v.Type()) {
			for i := 0; i < v.NumField(); i++ {
				p := path + "." + v.Type().Field(i).Name
				if v.Type().Field(i).Anonymous {
					p = path
				}
				normalise(c, p, v.Field(i))
			}
		}
	case reflect.Interface:
		if !v.IsNil() && v.Elem().Kind() == reflect.Ptr && !v.Elem().IsNil() {
			normalise(c, v.Elem().Type().String(), v.Elem().Elem())
		}
	}
}

// ------------------------------------------------------------------ encoding/json rendering

// tree converts v into maps / slices / leaves that encoding/json renders the way it renders v itself
// (nil slice and nil map: null; empty: [] / {}; nil pointer: null), for every map key type.
func tree(v reflect.Value) any {
	if !v.IsValid() {
		return nil
	}
	t := v.Type()
	if t.Kind() != reflect.Ptr && t.Kind() != reflect.Interface && t.Kind() != reflect.Slice && t.Kind() != reflect.Map {
		if t.Implements(jsonMarsT) || reflect.PtrTo(t).Implements(jsonMarsT) || t.Implements(textMarsT) || reflect.PtrTo(t).Implements(textMarsT) {
			p := reflect.New(t)
			p.Elem().Set(v)
			b, err := json.Marshal(p.Interface())
			if err != nil {
				return "json-error: " + err.Error()
			}
			return json.RawMessage(b)
		}
	}
	switch t.Kind() {
	case reflect.Ptr, reflect.Interface:
		if v.IsNil() {
			return nil
		}
		return tree(v.Elem())
	case reflect.Slice:
		if v.IsNil() {
			return nil
		}
		if t == rawJSONT {
			if !json.Valid(v.Bytes()) {
				return "json-error: invalid raw message of " + fmt.Sprint(v.Len()) + " bytes"
			}
			return json.RawMessage(bytes.Clone(v.Bytes()))
		}
		if t.Elem().Kind() == reflect.Uint8 {
			return bytes.Clone(v.Bytes())
		}
		out := make([]any, v.Len())
		for i := range out {
			out[i] = tree(v.Index(i))
		}
		return out
	case reflect.Array:
		out := make([]any, v.Len())
		for i := range out {
			out[i] = tree(v.Index(i))
		}
		return out
	case reflect.Map:
		if v.IsNil() {
			return nil
		}
		out := map[string]any{}
		for _, k := range v.MapKeys() {
			kb, _ := json.Marshal(tree(k))
			out[string(kb)] = tree(v.MapIndex(k))
		}
		return out
	case reflect.Struct:
		if opaque(t) {
			return fmt.Sprintf("%+v", v.Interface())
		}
		out := map[string]any{}
		for i := 0; i < t.NumField(); i++ {
			out[t.Field(i).Name] = tree(v.Field(i))
		}
		return out
	}
	return v.Interface()
}

func render(v reflect.Value) string {
	b, err := json.Marshal(tree(v))
	if err != nil {
		return "json-error: " + err.Error()
	}
	return string(b)
}

// ------------------------------------------------------------------ the driver

type shapeRun struct {
	out      *vh.Result
	c        *contract
	backend  string
	newState bool
	seed     int64
	only     string
	calls    int
	cases    map[string]bool // variant ids stored and compared
	skipped  map[string]string
	replayIn func(id string) any
}

func (s *shapeRun) diverge(kind, accessor string, v variant, m *mismatch, exp, obs string) {
	key := ""
	switch kind {
	case "shape":
		key = fmt.Sprintf("accessor:shape:%s:%s->%s", m.path, m.stored, m.returned)
	case "value":
		key = fmt.Sprintf("accessor:shape-sweep:value:%s", m.path)
	case "kind": // the accessor fails (or panics) for a stored value
		key = fmt.Sprintf("accessor:shape-sweep:kind:%s", accessor)
	default: // reencode | json
		key = fmt.Sprintf("accessor:%s:%s", kind, v.id)
	}
	what := fmt.Sprintf("[%s newState=%v] %s of the stored variant %s", s.backend, s.newState, accessor, v.id)
	if m != nil {
		what += fmt.Sprintf(": field %s stored as %q comes back as %q %s", m.path, m.stored, m.returned, m.detail)
	}
	if len(exp) > 1200 {
		exp = exp[:1200]
	}
	if len(obs) > 1200 {
		obs = obs[:1200]
	}
	s.out.Diverge(vh.Divergence{Key: key, What: what, Input: s.replayIn(v.id), Expected: exp, Observed: obs})
}

// expect compares what one accessor returned for one stored variant.
func (s *shapeRun) expect(accessor string, v variant, rootPath string, want, got any, err error) {
	s.calls++
	if err != nil {
		s.diverge("kind", accessor, v, nil, "found", err.Error())
		return
	}
	wv, gv := reflect.ValueOf(want), reflect.ValueOf(got)
	if !wv.IsValid() || !gv.IsValid() {
		if wv.IsValid() != gv.IsValid() {
			s.diverge("kind", accessor, v, nil, fmt.Sprint(want), fmt.Sprint(got))
		}
		return
	}
	if m := compareShapes(s.c, rootPath, wv, gv); m != nil {
		s.diverge(m.kind, accessor, v, m, dump(want), dump(got))
	}
	// the rendering an RPC adapter copying the fields would produce (null vs [] vs {})
	norm := deepCopy(wv)
	normalise(s.c, rootPath, norm)
	if a, b := render(norm), render(gv); a != b {
		i := 0
		for i < len(a) && i < len(b) && a[i] == b[i] {
			i++
		}
		lo := max(0, i-60)
		s.diverge("json", accessor, v, nil, "…"+a[lo:min(len(a), i+40)], "…"+b[lo:min(len(b), i+40)])
	}
}

// deepCopy through the specification-independent route: re-encoding is NOT used (it is under test);
// values are copied by reflection.
func deepCopy(v reflect.Value) reflect.Value {
	out := reflect.New(v.Type()).Elem()
	copyInto(out, v)
	return out
}

func copyInto(dst, src reflect.Value) {
	switch src.Kind() {
	case reflect.Ptr:
		if src.IsNil() {
			return
		}
		dst.Set(reflect.New(src.Type().Elem()))
		if opaque(src.Type().Elem()) {
			switch src.Type().Elem() {
			case bigIntT:
				dst.Elem().Set(reflect.ValueOf(*new(big.Int).Set(src.Interface().(*big.Int))))
			default:
				dst.Elem().Set(src.Elem()) // bloom filters are not modified by anyone
			}
			return
		}
		copyInto(dst.Elem(), src.Elem())
	case reflect.Interface:
		if src.IsNil() {
			return
		}
		c := reflect.New(src.Elem().Type()).Elem()
		copyInto(c, src.Elem())
		dst.Set(c)
	case reflect.Slice:
		if src.IsNil() {
			return
		}
		dst.Set(reflect.MakeSlice(src.Type(), src.Len(), src.Len()))
		for i := 0; i < src.Len(); i++ {
			copyInto(dst.Index(i), src.Index(i))
		}
	case reflect.Map:
		if src.IsNil() {
			return
		}
		dst.Set(reflect.MakeMapWithSize(src.Type(), src.Len()))
		for _, k := range src.MapKeys() {
			e := reflect.New(src.Type().Elem()).Elem()
			copyInto(e, src.MapIndex(k))
			dst.SetMapIndex(k, e)
		}
	case reflect.Struct:
		if opaque(src.Type()) {
			dst.Set(src)
			return
		}
		for i := 0; i < src.NumField(); i++ {
			copyInto(dst.Field(i), src.Field(i))
		}
	default:
		dst.Set(src)
	}
}

// guard runs calls into juno; a panic there means the variant is not storable through this writer
// (write = true) or is a verdict about a read accessor (write = false).
func guard(f func() error) (err error, panicked any) {
	defer func() {
		if r := recover(); r != nil {
			if msg, ok := r.(string); ok && strings.HasPrefix(msg, "harness:") {
				panic(r)
			}
			panicked = r
		}
	}()
	return f(), nil
}

type storedBlock struct {
	n       uint64
	hdr     *core.Header
	txs     []core.Transaction
	rcs     []*core.TransactionReceipt
	su      *core.StateUpdate
	cm      *core.BlockCommitments
	hdrV    variant
	suV     variant
	cmV     variant
	txV     []variant
	rcV     []variant
	listV   *variant // the block-level lists are the varied thing (nil / empty)
	l1Index map[int]bool
}

var txRoots = []struct {
	kind string
	t    reflect.Type
}{
	{"invoke", reflect.TypeOf(core.InvokeTransaction{})},
	{"declare", reflect.TypeOf(core.DeclareTransaction{})},
	{"deployaccount", reflect.TypeOf(core.DeployAccountTransaction{})},
	{"deploy", reflect.TypeOf(core.DeployTransaction{})},
	{"l1handler", reflect.TypeOf(core.L1HandlerTransaction{})},
}

func rootName(t reflect.Type) string { return "*" + t.String() }

func (s *shapeRun) want(id string) bool { return s.only == "" || strings.Contains(id, s.only) }

func filter(s *shapeRun, vs []variant) []variant {
	var out []variant
	for _, v := range vs {
		if s.want(v.id) {
			out = append(out, v)
		}
	}
	return out
}

// writeBlock writes one block through the real writers; a writer that refuses (or cannot take) the
// variant makes the block unstorable.
func writeBlock(w db.KeyValueWriter, b *storedBlock) (error, any) {
	return guard(func() error {
		if err := core.WriteBlockHeader(w, b.hdr); err != nil {
			return err
		}
		if err := core.WriteTransactionsAndReceipts(w, b.n, b.txs, b.rcs); err != nil {
			return err
		}
		if err := core.WriteStateUpdateByBlockNum(w, b.n, b.su); err != nil {
			return err
		}
		if err := core.WriteBlockCommitment(w, b.n, b.cm); err != nil {
			return err
		}
		return core.WriteChainHeight(w, b.n)
	})
}

func (s *shapeRun) blocks(store, mirror db.KeyValueStore) {
	seed := s.seed
	hdrVs := filter(s, variantsOf(seed+1, rootName(reflect.TypeOf(core.Header{})), reflect.TypeOf(core.Header{}), s.c, nil))
	suVs := filter(s, variantsOf(seed+2, rootName(reflect.TypeOf(core.StateUpdate{})), reflect.TypeOf(core.StateUpdate{}), s.c, nil))
	cmVs := filter(s, variantsOf(seed+3, rootName(reflect.TypeOf(core.BlockCommitments{})), reflect.TypeOf(core.BlockCommitments{}), s.c, nil))
	rcVs := filter(s, variantsOf(seed+4, rootName(reflect.TypeOf(core.TransactionReceipt{})), reflect.TypeOf(core.TransactionReceipt{}), s.c, nil))
	var txVs []variant
	for i, tr := range txRoots {
		txVs = append(txVs, filter(s, variantsOf(seed+10+int64(i), rootName(tr.t), tr.t, s.c, nil))...)
	}
	listVs := []variant{}
	for _, sh := range []string{"nil", "empty"} {
		for _, p := range []string{"*core.Block.Transactions", "*core.Block.Receipts"} {
			if v := (variant{id: p + ":" + sh, root: "*core.Block", path: p, shape: sh}); s.want(v.id) {
				listVs = append(listVs, v)
			}
		}
	}
	popHdr := variantsOf(seed+1, rootName(reflect.TypeOf(core.Header{})), reflect.TypeOf(core.Header{}), s.c, nil)[0]
	popSU := variantsOf(seed+2, rootName(reflect.TypeOf(core.StateUpdate{})), reflect.TypeOf(core.StateUpdate{}), s.c, nil)[0]
	popCM := variantsOf(seed+3, rootName(reflect.TypeOf(core.BlockCommitments{})), reflect.TypeOf(core.BlockCommitments{}), s.c, nil)[0]
	popRC := variantsOf(seed+4, rootName(reflect.TypeOf(core.TransactionReceipt{})), reflect.TypeOf(core.TransactionReceipt{}), s.c, nil)[0]
	popTX := variantsOf(seed+10, rootName(txRoots[0].t), txRoots[0].t, s.c, nil)[0]

	const perBlock = 3
	nBlocks := max(len(hdrVs), len(suVs), len(cmVs), (max(len(txVs), len(rcVs))+perBlock-1)/perBlock) + len(listVs)
	ids := newFiller(seed + 99)
	pick := func(vs []variant, i int, pop variant) variant {
		if i < len(vs) {
			return vs[i]
		}
		return pop
	}
	// a variant no writer takes (a nil hash where the writer needs a key, a nil element the encoder
	// dereferences ...) is not a stored value: each variant is first written alone into a throw-away store
	storable := func(vs []variant, mk func(v variant) *storedBlock) []variant {
		var out []variant
		for _, v := range vs {
			b := mk(v)
			tmp, _ := openStore("memory")
			if err, p := writeBlock(tmp, b); err != nil || p != nil {
				s.skipped[v.id] = fmt.Sprint("no writer takes it: ", err, p)
				continue
			}
			out = append(out, v)
		}
		return out
	}
	popBlock := func() *storedBlock {
		return &storedBlock{n: 0, hdr: popHdr.make().Interface().(*core.Header), su: popSU.make().Interface().(*core.StateUpdate),
			cm: popCM.make().Interface().(*core.BlockCommitments)}
	}
	hdrVs = storable(hdrVs, func(v variant) *storedBlock {
		b := popBlock()
		b.hdr = v.make().Interface().(*core.Header)
		return b
	})
	suVs = storable(suVs, func(v variant) *storedBlock {
		b := popBlock()
		b.su = v.make().Interface().(*core.StateUpdate)
		return b
	})
	cmVs = storable(cmVs, func(v variant) *storedBlock {
		b := popBlock()
		b.cm = v.make().Interface().(*core.BlockCommitments)
		return b
	})
	txVs = storable(txVs, func(v variant) *storedBlock {
		b := popBlock()
		b.txs = []core.Transaction{v.make().Interface().(core.Transaction)}
		b.rcs = []*core.TransactionReceipt{popRC.make().Interface().(*core.TransactionReceipt)}
		return b
	})
	rcVs = storable(rcVs, func(v variant) *storedBlock {
		b := popBlock()
		b.txs = []core.Transaction{popTX.make().Interface().(core.Transaction)}
		b.rcs = []*core.TransactionReceipt{v.make().Interface().(*core.TransactionReceipt)}
		return b
	})
	nBlocks = max(len(hdrVs), len(suVs), len(cmVs), (max(len(txVs), len(rcVs))+perBlock-1)/perBlock) + len(listVs)
	var written []*storedBlock
	n := uint64(0)
	seenMsg := map[string]bool{}
	build := func(i int) *storedBlock {
		b := &storedBlock{n: n, l1Index: map[int]bool{}}
		b.hdrV, b.suV, b.cmV = pick(hdrVs, i, popHdr), pick(suVs, i, popSU), pick(cmVs, i, popCM)
		b.hdr = b.hdrV.make().Interface().(*core.Header)
		b.su = b.suV.make().Interface().(*core.StateUpdate)
		b.cm = b.cmV.make().Interface().(*core.BlockCommitments)
		if li := i - (nBlocks - len(listVs)); li >= 0 { // an empty block whose lists are nil / empty
			lv := listVs[li]
			b.listV = &lv
			if lv.shape == "empty" {
				b.txs, b.rcs = []core.Transaction{}, []*core.TransactionReceipt{}
			}
		} else {
			for j := 0; j < perBlock; j++ {
				k := i*perBlock + j
				if j > 0 && k >= len(txVs) && k >= len(rcVs) {
					break
				}
				tv, rv := pick(txVs, k, popTX), pick(rcVs, k, popRC)
				tx := tv.make().Interface().(core.Transaction)
				rc := rv.make().Interface().(*core.TransactionReceipt)
				// identity: a hash of its own per stored transaction (populated objects repeat otherwise)
				if h := tx.Hash(); h != nil && !h.IsZero() {
					chainkit.SetTxHash(tx, ids.g.Felt())
				}
				// ... and a message of its own per L1 handler (the message hash is a function of the content)
				if l1, ok := tx.(*core.L1HandlerTransaction); ok && l1.ContractAddress != nil && !l1.ContractAddress.IsZero() {
					l1.ContractAddress = ids.g.Felt()
				}
				b.txV, b.rcV = append(b.txV, tv), append(b.rcV, rv)
				b.txs, b.rcs = append(b.txs, tx), append(b.rcs, rc)
			}
		}
		// identity of the block: number, a hash of its own, the count
		b.hdr.Number = n
		if b.hdr.Hash != nil {
			b.hdr.Hash = ids.g.Felt()
		}
		b.hdr.TransactionCount = uint64(len(b.txs))
		if b.su != nil && b.hdr.Hash != nil && b.su.BlockHash != nil && !b.su.BlockHash.IsZero() {
			b.su.BlockHash = b.hdr.Hash
		}
		return b
	}
	for i := 0; i < nBlocks; i++ {
		b := build(i)
		// try on a scratch batch first: a variant no writer takes is not a stored value
		scratch := store.NewBatch()
		err, p := writeBlock(scratch, b)
		if err != nil || p != nil {
			panic(fmt.Sprint("harness: a block of variants that are storable one by one is not: ", err, p))
		}
		if err := scratch.Write(); err != nil {
			panic(err)
		}
		for j, tx := range b.txs { // L1 message hash index, where the transaction has a message hash
			if l1, ok := tx.(*core.L1HandlerTransaction); ok {
				var mh []byte
				_, p := guard(func() error { mh = l1.MessageHash(); return nil })
				if p == nil && !seenMsg[string(mh)] {
					seenMsg[string(mh)] = true
					if err := core.WriteL1HandlerMsgHashes(store, []core.Transaction{tx}); err != nil {
						panic(err)
					}
					b.l1Index[j] = true
				}
			}
		}
		written = append(written, b)
		n++
	}
	if len(written) == 0 {
		return
	}
	bc := blockchain.New(store, chainkit.Network, blockchain.WithNewState(s.newState))
	for _, b := range written {
		s.sweepShapeBlock(store, bc, b, mirror)
	}
	// re-encoding what the accessors returned gives the stored bytes: the mirror database, written from
	// the returned objects through the same writers, equals the database
	if mirror != nil {
		a, err1 := faultkv.Dump(store)
		m, err2 := faultkv.Dump(mirror)
		if err1 != nil || err2 != nil {
			panic(fmt.Sprint("harness: dump: ", err1, err2))
		}
		byNumber := map[uint64]*storedBlock{}
		for _, b := range written {
			byNumber[b.n] = b
		}
		for _, d := range faultkv.Diff(a, m, map[byte]bool{byte(db.ChainHeight): true}, 40) {
			s.reencodeDiff(d, written)
		}
	}
}

// reencodeDiff attributes one differing database entry to the variants of the block it belongs to.
func (s *shapeRun) reencodeDiff(d string, written []*storedBlock) {
	for _, b := range written {
		for _, kv := range []struct {
			key []byte
			vs  []variant
		}{
			{db.BlockHeaderByNumberKey(b.n), []variant{b.hdrV}},
			{db.StateUpdateByBlockNumKey(b.n), []variant{b.suV}},
			{db.BlockCommitmentsKey(b.n), []variant{b.cmV}},
			{blobKey(b.n), append(append([]variant{}, b.txV...), b.rcV...)},
		} {
			if !strings.HasSuffix(d, fmt.Sprintf("key=%x", kv.key)) {
				continue
			}
			vs := kv.vs
			if b.listV != nil {
				vs = append(vs, *b.listV)
			}
			for _, v := range vs {
				if v.shape != "populated" || len(vs) == 1 {
					s.diverge("reencode", "writing back what the accessors returned", v, nil, "the stored bytes", d)
				}
			}
			return
		}
	}
	s.out.Diverge(vh.Divergence{Key: "accessor:reencode:" + strings.SplitN(d, " key=", 2)[0],
		What: fmt.Sprintf("[%s] writing back what the accessors returned gives another database: %s", s.backend, d), Input: s.replayIn("")})
}

func (s *shapeRun) sweepShapeBlock(store db.KeyValueStore, bc *blockchain.Blockchain, b *storedBlock, mirror db.KeyValueStore) {
	n := b.n
	hv, suv, cmv := b.hdrV, b.suV, b.cmV
	hdrRoot, suRoot, cmRoot := "*core.Header", "*core.StateUpdate", "*core.BlockCommitments"
	call := func(name string, f func() (any, error)) (any, error) {
		var got any
		err, p := guard(func() error { var e error; got, e = f(); return e })
		if p != nil {
			return nil, fmt.Errorf("%s panicked: %v", name, p)
		}
		return got, err
	}
	// ---- header
	var backHdr *core.Header
	for name, f := range map[string]func() (any, error){
		"core.GetBlockHeaderByNumber": func() (any, error) { return core.GetBlockHeaderByNumber(store, n) },
		"BlockHeaderByNumber":         func() (any, error) { return bc.BlockHeaderByNumber(n) },
	} {
		got, err := call(name, f)
		s.expect(name, hv, hdrRoot, b.hdr, got, err)
		if h, ok := got.(*core.Header); ok && err == nil {
			backHdr = h
		}
	}
	if b.hdr.Hash != nil {
		got, err := call("core.GetBlockHeaderByHash", func() (any, error) { return core.GetBlockHeaderByHash(store, b.hdr.Hash) })
		s.expect("core.GetBlockHeaderByHash", hv, hdrRoot, b.hdr, got, err)
		got, err = call("BlockHeaderByHash", func() (any, error) { return bc.BlockHeaderByHash(b.hdr.Hash) })
		s.expect("BlockHeaderByHash", hv, hdrRoot, b.hdr, got, err)
		got, err = call("BlockHeaderHashByNumber", func() (any, error) { return bc.BlockHeaderHashByNumber(n) })
		s.expect("BlockHeaderHashByNumber", hv, hdrRoot+".Hash", b.hdr.Hash, got, err)
	}
	if b.hdr.GlobalStateRoot != nil {
		got, err := call("GlobalStateRootByBlockNumber", func() (any, error) { return bc.GlobalStateRootByBlockNumber(n) })
		s.expect("GlobalStateRootByBlockNumber", hv, hdrRoot+".GlobalStateRoot", b.hdr.GlobalStateRoot, got, err)
	}
	if b.hdr.EventsBloom != nil {
		got, err := call("core.GetBlockHeaderEventsBloomByNumber", func() (any, error) { return core.GetBlockHeaderEventsBloomByNumber(store, n) })
		s.expect("core.GetBlockHeaderEventsBloomByNumber", hv, hdrRoot+".EventsBloom", b.hdr.EventsBloom, got, err)
	}
	{
		got, err := call("core.GetBlockHeaderTimestampByNumber", func() (any, error) { return core.GetBlockHeaderTimestampByNumber(store, n) })
		s.expect("core.GetBlockHeaderTimestampByNumber", hv, hdrRoot+".Timestamp", b.hdr.Timestamp, got, err)
		got, err = call("BlockTransactionCountByNumber", func() (any, error) { return bc.BlockTransactionCountByNumber(n) })
		s.expect("BlockTransactionCountByNumber", hv, hdrRoot+".TransactionCount", b.hdr.TransactionCount, got, err)
	}
	// ---- the block and its lists
	wantTxs, wantRcs := b.txs, b.rcs
	listV := hv
	if b.listV != nil {
		listV = *b.listV
	}
	wantBlock := &core.Block{Header: b.hdr, Transactions: wantTxs, Receipts: wantRcs}
	var backTxs []core.Transaction
	var backRcs []*core.TransactionReceipt
	for name, f := range map[string]func() (any, error){
		"core.GetBlockByNumber": func() (any, error) { return core.GetBlockByNumber(store, n) },
		"BlockByNumber":         func() (any, error) { return bc.BlockByNumber(n) },
		"BlockByHash": func() (any, error) {
			if b.hdr.Hash == nil {
				return wantBlockCopy(wantBlock, s.c), nil
			}
			return bc.BlockByHash(b.hdr.Hash)
		},
	} {
		got, err := call(name, f)
		s.expectBlock(name, b, listV, wantBlock, got, err)
	}
	for name, f := range map[string]func() (any, error){
		"TransactionsByBlockNumber":         func() (any, error) { return bc.TransactionsByBlockNumber(n) },
		"core.GetTransactionsByBlockNumber": func() (any, error) { return core.GetTransactionsByBlockNumber(store, n) },
		"core.GetTransactionsByBlockNumberIter": func() (any, error) {
			out := []core.Transaction{}
			for tx, err := range core.GetTransactionsByBlockNumberIter(store, n) {
				if err != nil {
					return nil, err
				}
				out = append(out, tx)
			}
			return out, nil
		},
		"BlockTransactionsBucket.Get.Transactions.All": func() (any, error) {
			bt, err := core.BlockTransactionsBucket.Get(store, n)
			if err != nil {
				return nil, err
			}
			return bt.Transactions().All()
		},
	} {
		got, err := call(name, f)
		if txs, ok := got.([]core.Transaction); ok && err == nil {
			s.expectTxs(name, b, listV, txs)
			backTxs = txs
		} else {
			s.expect(name, listV, "*core.Block.Transactions", wantTxs, got, err)
		}
	}
	for name, f := range map[string]func() (any, error){
		"core.GetReceiptsByBlockNumber": func() (any, error) { return core.GetReceiptsByBlockNumber(store, n) },
		"BlockTransactionsBucket.Get.Receipts.All": func() (any, error) {
			bt, err := core.BlockTransactionsBucket.Get(store, n)
			if err != nil {
				return nil, err
			}
			return bt.Receipts().All()
		},
	} {
		got, err := call(name, f)
		if rcs, ok := got.([]*core.TransactionReceipt); ok && err == nil {
			s.expectRcs(name, b, listV, rcs)
			backRcs = rcs
		} else {
			s.expect(name, listV, "*core.Block.Receipts", wantRcs, got, err)
		}
	}
	{
		var t2 []core.Transaction
		var r2 []*core.TransactionReceipt
		_, err := call("TransactionsAndReceiptsByBlockNumber", func() (any, error) {
			var e error
			t2, r2, e = bc.TransactionsAndReceiptsByBlockNumber(n)
			return nil, e
		})
		if err != nil {
			s.expect("TransactionsAndReceiptsByBlockNumber", listV, "*core.Block.Transactions", wantTxs, nil, err)
		} else {
			s.expectTxs("TransactionsAndReceiptsByBlockNumber", b, listV, t2)
			s.expectRcs("TransactionsAndReceiptsByBlockNumber", b, listV, r2)
		}
		// the events projection of every receipt
		got, err := call("core.GetTransactionEventsByBlockNumber", func() (any, error) { return core.GetTransactionEventsByBlockNumber(store, n) })
		if evs, ok := got.([]core.TransactionEvents); ok && err == nil && len(evs) == len(wantRcs) {
			for i, e := range evs {
				s.expect("core.GetTransactionEventsByBlockNumber", b.rcV[i], "*core.TransactionReceipt.Events", wantRcs[i].Events, e.Events, nil)
				s.expect("core.GetTransactionEventsByBlockNumber", b.rcV[i], "*core.TransactionReceipt.TransactionHash", wantRcs[i].TransactionHash, e.TransactionHash, nil)
			}
		} else {
			s.expect("core.GetTransactionEventsByBlockNumber", listV, "*core.Block.Receipts", len(wantRcs), lenOf(got), err)
		}
		got, err = call("TransactionHashesByBlockNumber", func() (any, error) { return bc.TransactionHashesByBlockNumber(n) })
		wantH := make([]felt.Felt, len(wantTxs))
		for i, tx := range wantTxs {
			wantH[i] = *tx.Hash()
		}
		s.expect("TransactionHashesByBlockNumber", listV, "*core.Block.Transactions:hashes", wantH, got, err)
	}
	// ---- per index and by hash
	for i, tx := range wantTxs {
		ix := uint64(i)
		tv, rv := b.txV[i], b.rcV[i]
		txRoot := reflect.TypeOf(tx).String()
		rcRoot := "*core.TransactionReceipt"
		h := tx.Hash()
		for name, f := range map[string]func() (any, error){
			"TransactionByBlockNumberAndIndex": func() (any, error) { return bc.TransactionByBlockNumberAndIndex(n, ix) },
			"TransactionByHash":                func() (any, error) { return bc.TransactionByHash(h) },
			"core.GetTransactionByHash":        func() (any, error) { return core.GetTransactionByHash(store, (*felt.TransactionHash)(h)) },
			"core.GetTransactionByBlockAndIndex": func() (any, error) {
				return core.GetTransactionByBlockAndIndex(store, n, ix)
			},
		} {
			got, err := call(name, f)
			s.expect(name, tv, txRoot, tx, got, err)
		}
		got, err := call("core.GetReceiptByBlockAndIndex", func() (any, error) { return core.GetReceiptByBlockAndIndex(store, n, ix) })
		s.expect("core.GetReceiptByBlockAndIndex", rv, rcRoot, wantRcs[i], got, err)
		var t2 core.Transaction
		var r2 core.TransactionReceipt
		_, err = call("TransactionAndReceiptByBlockNumberAndIndex", func() (any, error) {
			var e error
			t2, r2, _, e = bc.TransactionAndReceiptByBlockNumberAndIndex(n, ix)
			return nil, e
		})
		s.expect("TransactionAndReceiptByBlockNumberAndIndex", tv, txRoot, tx, t2, err)
		if err == nil {
			s.expect("TransactionAndReceiptByBlockNumberAndIndex.receipt", rv, rcRoot, wantRcs[i], &r2, nil)
		}
		if b.hdr.Hash != nil {
			var rc *core.TransactionReceipt
			_, err = call("Receipt", func() (any, error) {
				var e error
				rc, _, _, e = bc.Receipt(h)
				return nil, e
			})
			s.expect("Receipt", rv, rcRoot, wantRcs[i], rc, err)
		}
		got, err = call("TransactionExecutionStatusByBlockNumberAndIndex", func() (any, error) {
			return bc.TransactionExecutionStatusByBlockNumberAndIndex(n, ix)
		})
		s.expect("TransactionExecutionStatusByBlockNumberAndIndex", rv, rcRoot+":status",
			core.TransactionExecutionStatus{Reverted: wantRcs[i].Reverted, RevertReason: wantRcs[i].RevertReason}, got, err)
		if b.l1Index[i] {
			mh := eth.Hash(tx.(*core.L1HandlerTransaction).MessageHash())
			got, err = call("L1HandlerTxnHash", func() (any, error) { return bc.L1HandlerTxnHash(&mh) })
			s.expect("L1HandlerTxnHash", tv, txRoot+".TransactionHash", *h, got, err)
		}
	}
	// ---- state update, commitments
	var backSU *core.StateUpdate
	var backCM *core.BlockCommitments
	for name, f := range map[string]func() (any, error){
		"core.GetStateUpdateByBlockNum": func() (any, error) { return core.GetStateUpdateByBlockNum(store, n) },
		"StateUpdateByNumber":           func() (any, error) { return bc.StateUpdateByNumber(n) },
		"StateUpdateByHash": func() (any, error) {
			if b.hdr.Hash == nil {
				return core.GetStateUpdateByBlockNum(store, n)
			}
			return bc.StateUpdateByHash(b.hdr.Hash)
		},
	} {
		got, err := call(name, f)
		s.expect(name, suv, suRoot, b.su, got, err)
		if su, ok := got.(*core.StateUpdate); ok && err == nil {
			backSU = su
		}
	}
	for name, f := range map[string]func() (any, error){
		"core.GetBlockCommitmentByBlockNum": func() (any, error) { return core.GetBlockCommitmentByBlockNum(store, n) },
		"BlockCommitmentsByNumber":          func() (any, error) { return bc.BlockCommitmentsByNumber(n) },
	} {
		got, err := call(name, f)
		s.expect(name, cmv, cmRoot, b.cm, got, err)
		if cm, ok := got.(*core.BlockCommitments); ok && err == nil {
			backCM = cm
		}
	}
	for _, v := range append(append([]variant{hv, suv, cmv}, b.txV...), b.rcV...) {
		s.cases[v.id] = true
	}
	if b.listV != nil {
		s.cases[b.listV.id] = true
	}
	// ---- the mirror: what the accessors returned, through the same writers
	if mirror != nil && backHdr != nil && backSU != nil && backCM != nil && backTxs != nil && backRcs != nil {
		back := &storedBlock{n: n, hdr: backHdr, txs: backTxs, rcs: backRcs, su: backSU, cm: backCM}
		if err, p := writeBlock(mirror, back); err != nil || p != nil {
			s.diverge("reencode", "writing back what the accessors returned", hv, nil, "written", fmt.Sprint(err, p))
		}
		for j, tx := range backTxs {
			if b.l1Index[j] {
				_, _ = guard(func() error { return core.WriteL1HandlerMsgHashes(mirror, []core.Transaction{tx}) })
			}
		}
	}
}

func lenOf(v any) int {
	rv := reflect.ValueOf(v)
	if rv.IsValid() && (rv.Kind() == reflect.Slice || rv.Kind() == reflect.Map) {
		return rv.Len()
	}
	return -1
}

func wantBlockCopy(b *core.Block, c *contract) *core.Block {
	v := deepCopy(reflect.ValueOf(b))
	normalise(c, "*core.Block", v.Elem())
	return v.Interface().(*core.Block)
}

// expectTxs / expectRcs: a returned list, element by element against the variant stored at that index
func (s *shapeRun) expectTxs(name string, b *storedBlock, listV variant, got []core.Transaction) {
	s.expect(name, listV, "*core.Block.Transactions", shapeOnly(b.txs), shapeOnly(got), nil)
	for i := range b.txs {
		if i < len(got) {
			s.expect(name, b.txV[i], reflect.TypeOf(b.txs[i]).String(), b.txs[i], got[i], nil)
		}
	}
}

func (s *shapeRun) expectRcs(name string, b *storedBlock, listV variant, got []*core.TransactionReceipt) {
	s.expect(name, listV, "*core.Block.Receipts", shapeOnly(b.rcs), shapeOnly(got), nil)
	for i := range b.rcs {
		if i < len(got) {
			s.expect(name, b.rcV[i], "*core.TransactionReceipt", b.rcs[i], got[i], nil)
		}
	}
}

// shapeOnly: a list reduced to its shape (nil / length); the elements are compared one by one
func shapeOnly(v any) []struct{} {
	rv := reflect.ValueOf(v)
	if rv.IsNil() {
		return nil
	}
	return make([]struct{}, rv.Len())
}

func (s *shapeRun) expectBlock(name string, b *storedBlock, listV variant, want *core.Block, got any, err error) {
	blk, ok := got.(*core.Block)
	if err != nil || !ok || blk == nil {
		s.expect(name, listV, "*core.Block", want, got, err)
		return
	}
	s.expect(name+".Header", b.hdrV, "*core.Header", want.Header, blk.Header, nil)
	s.expectTxs(name, b, listV, blk.Transactions)
	s.expectRcs(name, b, listV, blk.Receipts)
}

// ------------------------------------------------------------------ classes and the single records

func classRoots() []reflect.Type {
	return []reflect.Type{reflect.TypeOf(core.SierraClass{}), reflect.TypeOf(core.DeprecatedCairoClass{})}
}

func (s *shapeRun) classes(store, mirror db.KeyValueStore) {
	ids := newFiller(s.seed + 199)
	var all []variant
	for i, t := range classRoots() {
		all = append(all, filter(s, variantsOf(s.seed+20+int64(i), rootName(t), t, s.c, nil))...)
	}
	type writer struct {
		name  string
		write func(w db.KeyValueWriter, h *felt.Felt, d *core.DeclaredClassDefinition) error
		read  func(r db.KeyValueReader, h *felt.Felt) (*core.DeclaredClassDefinition, error)
	}
	writers := []writer{
		{"core.WriteClass/core.GetClass", core.WriteClass, core.GetClass},
		{"state.WriteClass/state.GetClass", corestate.WriteClass, corestate.GetClass},
	}
	for k, v := range all {
		for _, w := range writers {
			h := ids.g.Felt()
			cls := v.make().Interface().(core.ClassDefinition)
			dcd := &core.DeclaredClassDefinition{At: uint64(k), Class: cls}
			err, p := guard(func() error { return w.write(store, h, dcd) })
			if err != nil || p != nil {
				s.skipped[v.id] = fmt.Sprint("class not storable: ", err, p)
				continue
			}
			var got *core.DeclaredClassDefinition
			err, p = guard(func() error { var e error; got, e = w.read(store, h); return e })
			if p != nil {
				err = fmt.Errorf("panicked: %v", p)
			}
			s.cases[v.id] = true
			if err != nil || got == nil {
				s.expect(w.name, v, v.root, dcd, got, err)
				continue
			}
			s.expect(w.name, v, v.root+":At", dcd.At, got.At, nil)
			s.expect(w.name, v, v.root, cls, got.Class, nil)
			if mirror != nil {
				if err, p := guard(func() error { return w.write(mirror, h, got) }); err != nil || p != nil {
					s.diverge("reencode", "writing back what "+w.name+" returned", v, nil, "written", fmt.Sprint(err, p))
				}
				var a, b []byte
				_ = store.Get(db.ClassKey(h), func(d []byte) error { a = bytes.Clone(d); return nil })
				_ = mirror.Get(db.ClassKey(h), func(d []byte) error { b = bytes.Clone(d); return nil })
				if !bytes.Equal(a, b) {
					s.diverge("reencode", w.name, v, nil, fmt.Sprintf("%d stored bytes", len(a)), firstDiff(a, b))
				}
			}
		}
	}
}

func blobKey(n uint64) []byte {
	enc, err := encoder.Marshal(n)
	if err != nil {
		panic(err)
	}
	return db.BlockTransactions.Key(enc)
}

func firstDiff(a, b []byte) string {
	i := 0
	for i < len(a) && i < len(b) && a[i] == b[i] {
		i++
	}
	lo, ha, hb := max(0, i-4), min(len(a), i+8), min(len(b), i+8)
	return fmt.Sprintf("%d bytes, first difference at %d: stored …%x, re-encoded …%x", len(b), i, a[lo:ha], b[lo:hb])
}

// metaShape: the shape class of the metadata's private pointer (reflection may look, not touch)
func metaShape(m *core.ClassCasmHashMetadata) string {
	f := reflect.ValueOf(m).Elem().FieldByName("casmHashV1")
	if !f.IsValid() {
		panic("harness: core.ClassCasmHashMetadata has no field casmHashV1 any more")
	}
	if f.IsNil() {
		return "nil"
	}
	for i := 0; i < f.Elem().Len(); i++ {
		if f.Elem().Index(i).Uint() != 0 {
			return "nonzero"
		}
	}
	return "zero"
}

// records: the class CASM hash metadata (custom binary codec with presence flags) and the L1 head
func (s *shapeRun) records(store db.KeyValueStore) {
	g := chainkit.NewGen(s.seed + 299)
	casm := func() *felt.CasmClassHash { return (*felt.CasmClassHash)(g.Felt()) }
	zero := new(felt.CasmClassHash)
	type mv struct {
		id string
		m  core.ClassCasmHashMetadata
	}
	migrated := core.NewCasmHashMetadataDeclaredV1(3, casm(), casm())
	if err := migrated.Migrate(9); err != nil {
		panic(err)
	}
	for _, x := range []mv{
		{"core.ClassCasmHashMetadata.casmHashV1:nil", core.NewCasmHashMetadataDeclaredV2(7, casm())},
		{"core.ClassCasmHashMetadata.casmHashV1:nonzero", core.NewCasmHashMetadataDeclaredV1(7, casm(), casm())},
		{"core.ClassCasmHashMetadata.casmHashV1:zero", core.NewCasmHashMetadataDeclaredV1(7, zero, casm())},
		{"core.ClassCasmHashMetadata.migratedAt:nonzero", migrated},
		{"core.ClassCasmHashMetadata.declaredAt:zero", core.NewCasmHashMetadataDeclaredV2(0, casm())},
	} {
		v := variant{id: x.id, root: "core.ClassCasmHashMetadata"}
		if !s.want(v.id) {
			continue
		}
		h := (*felt.SierraClassHash)(g.Felt())
		m := x.m
		if err := core.WriteClassCasmHashMetadata(store, h, &m); err != nil {
			s.skipped[v.id] = err.Error()
			continue
		}
		got, err := core.GetClassCasmHashMetadata(store, h)
		s.calls++
		s.cases[v.id] = true
		if err != nil {
			s.diverge("kind", "core.GetClassCasmHashMetadata", v, nil, "found", err.Error())
			continue
		}
		if ws, gs := metaShape(&x.m), metaShape(&got); gs != s.c.returned("core.ClassCasmHashMetadata.casmHashV1", ws) {
			s.diverge("shape", "core.GetClassCasmHashMetadata", v,
				&mismatch{path: "core.ClassCasmHashMetadata.casmHashV1", stored: ws, returned: gs, detail: "(presence flag of the binary codec)"},
				fmt.Sprintf("%+v", x.m), fmt.Sprintf("%+v", got))
		} else if !reflect.DeepEqual(got, x.m) {
			s.diverge("value", "core.GetClassCasmHashMetadata", v, &mismatch{path: "core.ClassCasmHashMetadata", detail: "content differs"},
				fmt.Sprintf("%+v", x.m), fmt.Sprintf("%+v", got))
		}
		a, _ := x.m.MarshalBinary()
		b, _ := got.MarshalBinary()
		if !bytes.Equal(a, b) {
			s.diverge("reencode", "core.GetClassCasmHashMetadata", v, nil, fmt.Sprintf("%x", a), fmt.Sprintf("%x", b))
		}
	}
	t := reflect.TypeOf(core.L1Head{})
	for _, v := range filter(s, variantsOf(s.seed+30, rootName(t), t, s.c, nil)) {
		l1 := v.make().Interface().(*core.L1Head)
		if err, p := guard(func() error { return core.WriteL1Head(store, l1) }); err != nil || p != nil {
			s.skipped[v.id] = fmt.Sprint(err, p)
			continue
		}
		got, err := core.GetL1Head(store)
		s.cases[v.id] = true
		s.expect("core.GetL1Head", v, v.root, l1, &got, err)
		a, _ := encoder.Marshal(l1)
		b, _ := encoder.Marshal(&got)
		if !bytes.Equal(a, b) {
			s.diverge("reencode", "core.GetL1Head", v, nil, fmt.Sprintf("%x", a), fmt.Sprintf("%x", b))
		}
	}
}

// chainClasses declares the class variants the chain accepts through SanityCheckNewHeight + Store (the
// state backend's own class writer) and reads them back through the state readers.
func (s *shapeRun) chainClasses(store db.KeyValueStore) {
	node := chainkit.NewNode(store, s.newState)
	g := chainkit.NewGen(s.seed + 399)
	// the class hash the chain verifies needs segment lengths that fit the bytecode: none (one segment)
	var all []variant
	for i, t := range classRoots() {
		all = append(all, filter(s, variantsOf(s.seed+20+int64(i), rootName(t), t, s.c, func(v reflect.Value) {
			if c, ok := v.Interface().(*core.SierraClass); ok {
				c.Compiled.BytecodeSegmentLengths = core.SegmentLengths{}
			}
		}))...)
	}
	type decl struct {
		v    variant
		h    felt.Felt
		cls  core.ClassDefinition
		casm *felt.Felt
	}
	var ok []decl
	for _, v := range all {
		cls := v.make().Interface().(core.ClassDefinition)
		d := decl{v: v, cls: cls}
		_, p := guard(func() error {
			switch c := cls.(type) {
			case *core.SierraClass:
				// a class hash of its own per variant (most variants do not touch what the hash covers)
				if c.AbiHash != nil && !c.AbiHash.IsZero() {
					c.AbiHash = g.Felt()
				} else if c.ProgramHash != nil && !c.ProgramHash.IsZero() {
					c.ProgramHash = g.Felt()
				}
				h, err := c.Hash()
				if err != nil {
					return err
				}
				d.h = h
				ch := c.Compiled.Hash(core.HashVersionV2)
				d.casm = &ch
			default:
				d.h = *g.Felt()
			}
			return nil
		})
		if p != nil {
			s.skipped["chain:"+v.id] = fmt.Sprint("no class hash: ", p)
			continue
		}
		ok = append(ok, d)
	}
	const perBlock = 12
	store1 := func(group []decl) error {
		diff := chainkit.EmptyDiff()
		classes := map[felt.Felt]core.ClassDefinition{}
		for _, d := range group {
			d := d
			classes[d.h] = d.cls
			if d.casm != nil {
				diff.DeclaredV1Classes[d.h] = d.casm
			} else {
				diff.DeclaredV0Classes = append(diff.DeclaredV0Classes, &d.h)
			}
		}
		var err error
		e, p := guard(func() error {
			_, err = node.Append(chainkit.BlockSpec{Version: "0.14.1", Diff: diff, Classes: classes})
			return err
		})
		if p != nil {
			return fmt.Errorf("panicked: %v", p)
		}
		return e
	}
	var stored []decl
	for i := 0; i < len(ok); i += perBlock {
		group := ok[i:min(len(ok), i+perBlock)]
		if err := store1(group); err != nil {
			for _, d := range group { // one by one: which one does the chain refuse
				if err := store1([]decl{d}); err != nil {
					s.skipped["chain:"+d.v.id] = "the chain refuses the class: " + err.Error()
				} else {
					stored = append(stored, d)
				}
			}
			continue
		}
		stored = append(stored, group...)
	}
	if len(stored) == 0 {
		return
	}
	node = node.Restart()
	state, closer, err := node.BC.HeadState()
	if err != nil {
		s.out.Diverge(vh.Divergence{Key: "accessor:shape-sweep:HeadState", What: err.Error(), Input: s.replayIn("")})
		return
	}
	defer closer()
	for _, d := range stored {
		var got *core.DeclaredClassDefinition
		err, p := guard(func() error { var e error; got, e = state.Class(&d.h); return e })
		if p != nil {
			err = fmt.Errorf("panicked: %v", p)
		}
		s.cases["chain:"+d.v.id] = true
		if err != nil || got == nil {
			s.expect("Store/StateReader.Class", d.v, d.v.root, d.cls, nil, fmt.Errorf("%v", err))
			continue
		}
		s.expect("Store/StateReader.Class", d.v, d.v.root, d.cls, got.Class, nil)
	}
}

func TestShapeSweep(t *testing.T) {
	if !vh.Enabled() {
		t.Skip()
	}
	out := vh.NewResult()
	defer out.Write()
	var in shapeInput
	if err := vh.Input(&in); err != nil {
		t.Fatal(err)
	}
	seed := in.Seed
	if seed == 0 {
		seed = vh.Seed()
	}
	if len(in.Backends) == 0 {
		in.Backends = []string{"memory", "pebblev2", "memory-poisoned"}
	}
	c := &contract{rows: map[string]shapeRow{}, used: map[string]bool{}}
	for _, r := range in.Table {
		c.rows[r.Path] = r
	}
	cases := map[string]bool{}
	skipped := map[string]string{}
	calls := 0
	for _, backend := range in.Backends {
		for _, newState := range []bool{false, true} {
			store, err := openStore(backend)
			if err != nil {
				t.Fatal(err)
			}
			mirror, err := openStore("memory")
			if err != nil {
				t.Fatal(err)
			}
			backend, newState := backend, newState
			s := &shapeRun{out: out, c: c, backend: backend, newState: newState, seed: seed, only: in.Only, cases: cases, skipped: skipped,
				replayIn: func(id string) any {
					return vh.J{"seed": seed, "table": in.Table, "backends": []string{backend}, "only": id, "chain": in.Chain}
				}}
			s.blocks(store, mirror)
			s.classes(store, mirror)
			s.records(store)
			calls += s.calls
			if c, ok := store.(interface{ Close() error }); ok {
				_ = c.Close()
			}
			if in.Chain {
				cstore, err := openStore(backend)
				if err != nil {
					t.Fatal(err)
				}
				s.calls = 0
				s.chainClasses(cstore)
				calls += s.calls
				if c, ok := cstore.(interface{ Close() error }); ok {
					_ = c.Close()
				}
			}
		}
	}
	// which fields the reflection found that the specification's table does not list, and vice versa
	found := map[string]string{}
	roots := []reflect.Type{reflect.TypeOf(core.Header{}), reflect.TypeOf(core.StateUpdate{}), reflect.TypeOf(core.BlockCommitments{}),
		reflect.TypeOf(core.TransactionReceipt{}), reflect.TypeOf(core.L1Head{})}
	for _, tr := range txRoots {
		roots = append(roots, tr.t)
	}
	roots = append(roots, classRoots()...)
	for _, rt := range roots {
		var fs []shapeField
		enumerate(rt, rootName(rt), nil, map[reflect.Type]int{}, &fs)
		for _, f := range fs {
			found[f.path] = f.kind
		}
	}
	found["*core.Block.Transactions"], found["*core.Block.Receipts"] = "slice", "slice"
	found["core.ClassCasmHashMetadata.casmHashV1"] = "ptr"
	var unlisted, unknown, wrongKind []string
	for p, k := range found {
		if r, ok := c.rows[p]; !ok {
			unlisted = append(unlisted, p)
		} else if r.Kind != k {
			wrongKind = append(wrongKind, p)
		}
	}
	for p := range c.rows {
		if _, ok := found[p]; !ok {
			unknown = append(unknown, p)
		}
	}
	sort.Strings(unlisted)
	sort.Strings(unknown)
	var sk []string
	for id, why := range skipped {
		if !cases[id] {
			sk = append(sk, id+" ("+why+")")
		}
	}
	sort.Strings(sk)
	if in.Only == "list-fields" {
		out.Stats["shape_fields"] = found
	}
	out.Stats["shape_fields_found"] = len(found)
	out.Stats["shape_fields_unlisted"] = unlisted
	out.Stats["shape_rows_unknown"] = unknown
	out.Stats["shape_rows_wrong_kind"] = wrongKind
	out.Stats["shape_variants_compared"] = len(cases)
	out.Stats["shape_variants_not_storable"] = sk
	out.Stats["shape_accessor_calls"] = calls
	out.Done(len(cases), calls)
}

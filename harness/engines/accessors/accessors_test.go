// Engine "accessors" (property C07): replays BlockBlob.tla behaviours. Every Store step is
// concretised into a real block (chainkit: all ten transaction kinds, 0..3 events / messages,
// revert reasons, populated / empty / nil state-diff sections, Cairo-0 and Sierra classes, empty
// blocks, protocol 0.13.2..0.14.1) stored through the sync path on memory AND pebblev2; then every
// accessor the specification lists is called for every (block, index, hash) incl. the first index
// out of range and the block beyond the head, and compared with the specification's answer:
// found / not-found as the model says, and a found value deeply equal to what was stored.
// Every concretised value additionally round-trips through encoder.Marshal/Unmarshal.
package accessors

import (
	"bytes"
	"encoding/json"
	"errors"
	"fmt"
	"os"
	"reflect"
	"runtime/debug"
	"strings"
	"sync"
	"sync/atomic"
	"testing"
	"time"

	"github.com/NethermindEth/juno/core"
	"github.com/NethermindEth/juno/core/felt"
	"github.com/NethermindEth/juno/db"
	"github.com/NethermindEth/juno/db/memory"
	"github.com/NethermindEth/juno/db/pebblev2"
	"github.com/NethermindEth/juno/encoder"
	_ "github.com/NethermindEth/juno/encoder/registry"
	"github.com/NethermindEth/juno/l1/eth"
	"github.com/bits-and-blooms/bloom/v3"
	pebv2 "github.com/cockroachdb/pebble/v2"
	vfsv2 "github.com/cockroachdb/pebble/v2/vfs"

	"verifharness/internal/chainkit"
	"verifharness/internal/vh"
)

type action struct {
	Name     string   `json:"name"`
	Size     int      `json:"size"`
	Kinds    []string `json:"kinds"`
	Evs      []int    `json:"evs"`
	Revs     []bool   `json:"revs"`
	Graceful bool     `json:"graceful"` // Restart
	Ver      int      `json:"ver"`      // Store: version of the block (number of Store calls before it)
	Src      []id     `json:"src"`      // Store: per position ["fresh"] or the hash ["tx",v,i] of a reverted transaction to re-include
	Number   int      `json:"number"`   // Revert: the height that is reverted
}

type id = []json.RawMessage // ["tx",n,i] | ["notfound"] | ["error"] | ...

type blockView struct {
	N            int    `json:"n"`
	Size         int    `json:"size"`
	Header       string `json:"header"`
	HeaderByHash string `json:"headerByHash"`
	NumberByHash id     `json:"numberByHash"`
	Block        string `json:"block"`
	BlockByHash  string `json:"blockByHash"`
	Count        id     `json:"count"`
	Txs          []id   `json:"txs"`
	Rcs          []id   `json:"rcs"`
	Hashes       []id   `json:"hashes"`
	Events       []id   `json:"events"`
	Tx           []id   `json:"tx"`
	Rc           []id   `json:"rc"`
	Pair         []id   `json:"pair"`
	Status       []id   `json:"status"`
	TxByHash     []id   `json:"txByHash"`
	LocByHash    []id   `json:"locByHash"` // ["at",n,i] | ["notfound"]; absent in behaviours recorded before the reorg dimension
	RcByHash     []id   `json:"rcByHash"`
	SU           string `json:"su"`
	SUByHash     string `json:"suByHash"`
	L1           []id   `json:"l1"`
}

// what a reorg dropped and must be NOT FOUND now, per accessor family (kinds as the specification says)
type goneTx struct {
	Hash id     `json:"hash"`
	Tx   string `json:"tx"`
	Loc  string `json:"loc"`
	Rc   string `json:"rc"`
	L1   string `json:"l1"` // "na" for other kinds
}

type goneBlock struct {
	Hash   id     `json:"hash"` // ["block", version]
	Number string `json:"number"`
	Header string `json:"header"`
	Block  string `json:"block"`
	SU     string `json:"su"`
}

type goneView struct {
	Txs    []goneTx    `json:"txs"`
	Blocks []goneBlock `json:"blocks"`
}

type view struct {
	Height int         `json:"height"`
	Blocks []blockView `json:"blocks"`
	Beyond blockView   `json:"beyond"`
	Gone   goneView    `json:"gone"`
}

type step struct {
	A    action `json:"a"`
	View view   `json:"view"`
	Read *bool  `json:"read,omitempty"` // false: no read between this write and the next (absent = true)
}

func (s step) reads() bool { return s.Read == nil || *s.Read }

type input struct {
	Seed       int64    `json:"seed"`
	Start      int      `json:"start"`
	Behaviours [][]step `json:"behaviours"`
	Backends   []string `json:"backends"`
	Concurrent bool     `json:"concurrent"` // also run the concurrent-writers round
	Large      bool     `json:"large"`      // also run one chain whose first block holds very large values
	LargeOnly  bool     `json:"large_only"` // (replay) run the given behaviour in large mode only
}

// largeN: more elements than the CBOR library's default array limit (131072); real Sierra programs
// and CASM bytecodes are this big, calldata and event payloads may be.
const largeN = 140_000

// ------------------------------------------------------------------ equality

// canon prepares values for reflect.DeepEqual. Comparison is STRICT: no canonicalisation of
// stored-versus-read values is needed on the pinned tree - juno's CBOR codec preserves nil versus
// empty slices and maps (null / empty array), pointer nil-ness (nil felt vs zero felt, nil GasPrice,
// nil TotalGasConsumed, absent resource bound) and zero values. Only two representation details
// are normalised:
//
//	(1) bloom filters are compared by their serialised content (the bitset's spare capacity is
//	    not part of the value);
//	(2) with lenient=true a nil slice / map equals an empty one. This is NOT used to accept a
//	    value; it only classifies a strict mismatch: if the values are equal leniently the
//	    divergence key ends in ":nil-vs-empty" (no hash in core/ distinguishes the two - every
//	    hash is length based - so such a finding is about the read API only), else ":value".
var lenient = false

func canon(v reflect.Value) reflect.Value {
	switch v.Kind() {
	case reflect.Ptr:
		if v.IsNil() {
			return v
		}
		if bf, ok := v.Interface().(*bloom.BloomFilter); ok {
			b, _ := bf.MarshalBinary()
			return reflect.ValueOf(&b)
		}
		n := reflect.New(v.Type().Elem())
		n.Elem().Set(canon(v.Elem()))
		return n
	case reflect.Interface:
		if v.IsNil() {
			return v
		}
		n := reflect.New(v.Type()).Elem()
		n.Set(canon(v.Elem()))
		return n
	case reflect.Struct:
		n := reflect.New(v.Type()).Elem()
		for i := 0; i < v.NumField(); i++ {
			if !v.Type().Field(i).IsExported() {
				n.Set(v) // opaque value types (big.Int …): compared as they are
				return n
			}
		}
		for i := 0; i < v.NumField(); i++ {
			f := canon(v.Field(i))
			if f.Type() != v.Type().Field(i).Type { // bloom replaced by bytes: keep a marker only
				continue
			}
			n.Field(i).Set(f)
		}
		return n
	case reflect.Slice:
		if !lenient && v.IsNil() {
			return v
		}
		n := reflect.MakeSlice(v.Type(), v.Len(), v.Len())
		for i := 0; i < v.Len(); i++ {
			n.Index(i).Set(canon(v.Index(i)))
		}
		return n
	case reflect.Map:
		if !lenient && v.IsNil() {
			return v
		}
		n := reflect.MakeMapWithSize(v.Type(), v.Len())
		it := v.MapRange()
		for it.Next() {
			n.SetMapIndex(it.Key(), canon(it.Value()))
		}
		return n
	default:
		return v
	}
}

func blooms(v any) []byte {
	if h, ok := v.(*core.Header); ok && h != nil && h.EventsBloom != nil {
		b, _ := h.EventsBloom.MarshalBinary()
		return b
	}
	if b, ok := v.(*core.Block); ok && b != nil {
		return blooms(b.Header)
	}
	return nil
}

func equalLenient(a, b any) bool {
	lenient = true
	defer func() { lenient = false }()
	return equal(a, b)
}

func equal(a, b any) bool {
	if a == nil || b == nil {
		return a == nil && b == nil
	}
	va, vb := reflect.ValueOf(a), reflect.ValueOf(b)
	if va.Type() != vb.Type() {
		return false
	}
	if string(blooms(a)) != string(blooms(b)) {
		return false
	}
	return reflect.DeepEqual(canon(va).Interface(), canon(vb).Interface())
}

func kindOf(err error) string {
	switch {
	case err == nil:
		return "found"
	case errors.Is(err, db.ErrKeyNotFound):
		return "notfound"
	}
	return "error"
}

func tag(x id) string {
	var s string
	if len(x) == 0 || json.Unmarshal(x[0], &s) != nil {
		return "?"
	}
	return s
}

func ints(x id, from int) []int {
	var out []int
	for _, r := range x[from:] {
		var n int
		_ = json.Unmarshal(r, &n)
		out = append(out, n)
	}
	return out
}

// ------------------------------------------------------------------ concretisation

type stored struct {
	b        *chainkit.Built
	hashes   []felt.Felt // class hashes declared in this block
	version  string
	ver      int         // block version (the specification's BlockHash(ver))
	deployed *felt.Felt  // contract deployed by this block's state diff, if any
}

// origin: where a transaction was FIRST included (block version, index) - the specification's TxHash(v, i)
type origin [2]int

func originOf(x id) origin {
	p := ints(x, 1)
	return origin{p[0], p[1]}
}

var versions = []string{"0.13.2", "0.13.4", "0.14.0", "0.14.1"}

// maxU128 is the largest protocol-valid price (prices are 128-bit; only those bits are hashed).
func maxU128() *felt.Felt {
	return new(felt.Felt).SetBytes(bytes.Repeat([]byte{0xff}, 16))
}

func maxFelt() *felt.Felt {
	return new(felt.Felt).Sub(new(felt.Felt), felt.NewFromUint64[felt.Felt](1))
} // p-1

func timestamp(idx, number int) uint64 {
	if (idx+number)%5 == 0 {
		return ^uint64(0) - uint64(number)
	}
	return uint64(1_700_000_000 + number)
}

// l1Handler builds the three nonce variants of an L1 handler transaction: with a nonce (chainkit),
// with a ZERO nonce (a value, hashed like any other), and the legacy form with NO nonce (mainnet
// block 192 …): core.TransactionHash returns the transaction's own hash for it and
// MessageHash() has a dedicated branch, so it is storable and has a message hash to look up.
func l1Handler(g *chainkit.Gen, variant int) core.Transaction {
	tx := g.Tx("l1handler").(*core.L1HandlerTransaction)
	switch variant % 3 {
	case 1:
		tx.Nonce = new(felt.Felt)
		h, err := core.TransactionHash(tx, chainkit.Network)
		if err != nil {
			panic(err)
		}
		tx.TransactionHash = &h
	case 2:
		tx.Nonce = nil
		tx.TransactionHash = g.Felt()
	}
	return tx
}

// concretise builds the block of one Store step on top of the node's head. known resolves the
// transactions the step re-includes (reverted earlier, not in the chain now); nil for append-only use.
func concretise(g *chainkit.Gen, n *chainkit.Node, a action, number, idx int, contracts *[]felt.Felt, large bool,
	known map[origin]core.Transaction,
) (*stored, error) {
	ver := number
	if known != nil {
		ver = a.Ver
	}
	st := &stored{version: versions[min(3, idx%4+number)], ver: ver}
	var d *core.StateDiff
	classes := map[felt.Felt]core.ClassDefinition{}
	large = large && ver == 0
	flavour := (idx + ver) % 3 // a replacement block has another shape of state diff than the block it replaces
	if large {
		flavour = 0
	}
	switch flavour {
	case 0: // every section populated, Cairo-0 and Sierra classes
		d = chainkit.EmptyDiff()
		ch, ccls := g.Cairo0Class()
		d.DeclaredV0Classes = append(d.DeclaredV0Classes, &ch)
		classes[ch] = ccls
		sh, c1, c2, scls := g.SierraClass()
		if large { // a Sierra program and a CASM bytecode of largeN felts
			scls.Program = append(scls.Program[:3:3], g.Felts(largeN)...)
			scls.Compiled.Bytecode = g.Felts(largeN)
			c1, c2 = scls.Compiled.Hash(core.HashVersionV1), scls.Compiled.Hash(core.HashVersionV2)
		}
		casm := c1
		if st.version >= "0.14.1" {
			casm = c2
		}
		d.DeclaredV1Classes[sh] = &casm
		classes[sh] = scls
		st.hashes = []felt.Felt{ch, sh}
		addr := *g.Felt()
		d.DeployedContracts[addr] = &ch
		d.StorageDiffs[addr] = map[felt.Felt]*felt.Felt{*g.Felt(): g.Felt(), *g.Felt(): new(felt.Felt)}
		d.Nonces[addr] = g.Felt()
		if len(*contracts) > 0 {
			old := (*contracts)[0]
			d.ReplacedClasses[old] = &sh
			d.Nonces[old] = new(felt.Felt) // a zero nonce is a value, not an absence
			d.StorageDiffs[old] = map[felt.Felt]*felt.Felt{*g.Felt(): g.Felt()}
		}
		*contracts = append(*contracts, addr)
		st.deployed = &addr
	case 1: // every section present and empty
		d = chainkit.EmptyDiff()
	default: // every section nil
		d = &core.StateDiff{}
	}
	var txs []core.Transaction
	var rcs []*core.TransactionReceipt
	for i := 0; i < a.Size; i++ {
		var tx core.Transaction
		pos := idx + ver + i // every variant below derives from the position: replays reproduce it
		reincluded := i < len(a.Src) && tag(a.Src[i]) == "tx"
		switch {
		case reincluded: // the very transaction a reverted block held (same hash), now at this height and index
			tx = known[originOf(a.Src[i])]
			if tx == nil {
				panic(fmt.Sprintf("harness: step re-includes %v which was never stored", originOf(a.Src[i])))
			}
		case a.Kinds[i] == "l1handler":
			tx = l1Handler(g, pos)
		case a.Kinds[i] == "declare1" && pos%4 == 0: // the legacy version-0 declare: no nonce, its own hash
			tx = &core.DeclareTransaction{Version: new(core.TransactionVersion), ClassHash: g.Felt(), SenderAddress: g.Felt(),
				MaxFee: g.Felt(), TransactionSignature: g.Felts(2), TransactionHash: g.Felt()}
		default:
			tx = g.Tx(a.Kinds[i])
		}
		// lengths around the CBOR / varint header boundaries, and extreme values
		boundary := []int{0, 1, 23, 24, 255, 256}[pos%6]
		extreme := (idx+ver)%5 == 0
		if inv, ok := tx.(*core.InvokeTransaction); ok && !reincluded {
			inv.CallData = g.Felts(boundary)
			if extreme && inv.Version.Is(3) {
				inv.Tip = ^uint64(0)
				inv.ResourceBounds[core.ResourceL1Gas] = core.ResourceBounds{MaxAmount: ^uint64(0), MaxPricePerUnit: maxU128()}
			}
			h, err := core.TransactionHash(inv, chainkit.Network)
			if err != nil {
				return nil, err
			}
			chainkit.SetTxHash(inv, &h)
		}
		var evs []*core.Event
		for e := 0; e < a.Evs[i]; e++ {
			evs = append(evs, &core.Event{From: g.Felt(), Keys: g.Felts(g.R.Intn(3)), Data: g.Felts(g.R.Intn(3))})
		}
		if len(evs) > 0 {
			evs[0].Data = g.Felts([]int{0, 23, 24, 255, 256, 1}[pos%6])
		}
		if len(evs) > 1 && pos%2 == 0 {
			evs[1] = evs[0] // two equal events in a row (and the very same object)
		}
		if large && i == 0 && !reincluded { // calldata and one event payload of largeN felts
			inv := tx.(*core.InvokeTransaction)
			inv.CallData = g.Felts(largeN)
			h, err := core.TransactionHash(inv, chainkit.Network)
			if err != nil {
				return nil, err
			}
			chainkit.SetTxHash(inv, &h)
			evs = append(evs, &core.Event{From: g.Felt(), Keys: g.Felts(2), Data: g.Felts(largeN)})
		}
		r := g.Receipt(tx, evs)
		r.Reverted, r.RevertReason = a.Revs[i], ""
		if r.Reverted { // reverted with an EMPTY reason is a value too; lengths around the string header boundaries
			reason := fmt.Sprintf("reverted: entry point %d not found – \"quoted\"\n", g.R.Intn(100))
			switch n := []int{-1, 0, 23, 24, 255, 256, 65536}[pos%7]; {
			case n == 0:
				reason = ""
			case n > 0:
				reason = strings.Repeat("x", n)
			}
			r.RevertReason = reason
		}
		if extreme {
			r.Fee = maxFelt()
			r.ExecutionResources.Steps = ^uint64(0)
			r.ExecutionResources.TotalGasConsumed = &core.GasConsumed{L1Gas: ^uint64(0), L1DataGas: ^uint64(0), L2Gas: ^uint64(0)}
		}
		r.L2ToL1Message = []*core.L2ToL1Message{}
		for m := (i*7 + number) % 4; m > 0; m-- {
			msg := &core.L2ToL1Message{From: g.Felt(), Payload: g.Felts(g.R.Intn(3))}
			g.R.Read(msg.To[:])
			r.L2ToL1Message = append(r.L2ToL1Message, msg)
		}
		if g.R.Intn(3) == 0 { // zero-valued fields that must survive storage as zero
			r.Fee = new(felt.Felt)
			r.ExecutionResources.Steps = 0
			r.ExecutionResources.TotalGasConsumed = &core.GasConsumed{}
		}
		if g.R.Intn(4) == 0 {
			r.ExecutionResources.DataAvailability = nil
		}
		if g.R.Intn(3) == 0 { // nil instead of empty lists (same hashes)
			if len(r.Events) == 0 {
				r.Events = nil
			}
			if len(r.L2ToL1Message) == 0 {
				r.L2ToL1Message = nil
			}
			switch t := tx.(type) {
			case *core.InvokeTransaction:
				if reincluded {
					break // a stored transaction is never touched again
				}
				if len(t.CallData) == 0 {
					t.CallData = nil
				}
				if len(t.PaymasterData) == 0 {
					t.PaymasterData = nil
				}
			case *core.DeployAccountTransaction:
				if !reincluded && len(t.ConstructorCallData) == 0 {
					t.ConstructorCallData = nil
				}
			}
		}
		txs = append(txs, tx)
		rcs = append(rcs, r)
	}
	b, err := n.Build(chainkit.BlockSpec{Version: st.version, Diff: d, Classes: classes, Txs: txs, Receipts: rcs,
		Timestamp: timestamp(idx, number), Sequencer: g.Felt(), L1DAMode: core.L1DAMode(g.R.Intn(2))})
	if err != nil {
		return nil, err
	}
	st.b = b
	return st, nil
}

// ------------------------------------------------------------------ the sweep

// kept: bytes a serializer returned for one value, a snapshot of them taken at once, and how to
// check that they still decode to that value. Serialising OTHER values afterwards must not change
// them (an encoder that returns memory it reuses corrupts whatever is written later).
type kept struct {
	name   string
	bytes  []byte
	snap   []byte
	decode func([]byte) error
}

// retained: a value an accessor handed back, and what it has to equal. Values are re-checked at the
// end of the behaviour: later reads, later Stores and a restart must not have changed them (results
// must not alias buffers, caches or each other).
type retained struct {
	name string
	got  any
	want any
}

type sweeper struct {
	retain   bool
	retained []retained
	kept     []kept
	out      *vh.Result
	backend  string
	replay   any
	step     int
	chain    []*stored
	bc       *chainkit.Node
	n        int
	// the reorg dimension: every transaction ever stored by its origin, where each is stored NOW
	// (recomputed from the concrete chain after every write - the oracle is what was handed to
	// Store, never what juno answers), and the blocks RevertHead removed, by version
	known map[origin]core.Transaction
	at    map[origin][2]int
	dead  map[int]*stored
}

// relocate recomputes where every known transaction is stored now.
func (s *sweeper) relocate() {
	s.at = map[origin][2]int{}
	byHash := map[felt.Felt][2]int{}
	for n, st := range s.chain {
		for i, tx := range st.b.Block.Transactions {
			byHash[*tx.Hash()] = [2]int{n, i}
		}
	}
	for o, tx := range s.known {
		if loc, ok := byHash[*tx.Hash()]; ok {
			s.at[o] = loc
		}
	}
}

func (s *sweeper) bad(name, what, msg string, exp, obs any) {
	s.out.Diverge(vh.Divergence{Key: fmt.Sprintf("accessor:%s:%s", name, what),
		What: fmt.Sprintf("[%s] %s: %s", s.backend, name, msg), Input: s.replay, Step: s.step,
		Expected: fmt.Sprint(exp), Observed: fmt.Sprint(obs)})
}

// check compares one accessor call with the specification: kind (found / notfound / error) and,
// when found, deep equality with the stored value.
func (s *sweeper) check(name string, wantKind string, want any, got any, err error) {
	s.n++
	k := kindOf(err)
	if k != wantKind {
		s.bad(name, "kind", fmt.Sprintf("specification says %s, juno %s (%v)", wantKind, k, err), wantKind, fmt.Sprintf("%s: %v", k, err))
		return
	}
	if k == "found" && s.retain && got != nil && equal(want, got) {
		s.retained = append(s.retained, retained{name, got, want}) // right now; must still be right at the end
	}
	if k == "found" && !equal(want, got) {
		what := "value"
		if equalLenient(want, got) {
			what = "nil-vs-empty"
		}
		s.bad(name, what, "returned value differs from what was stored", dump(want), dump(got))
	}
}

func dump(v any) string {
	b, err := json.Marshal(v)
	if err != nil {
		return fmt.Sprintf("%+v", v)
	}
	if len(b) > 1500 {
		b = b[:1500]
	}
	return string(b)
}

// resolve an item id of the specification (the transaction's origin) to the concrete transaction,
// and to the receipt it has in the block that holds it NOW
func (s *sweeper) tx(x id) core.Transaction {
	tx := s.known[originOf(x)]
	if tx == nil {
		panic(fmt.Sprintf("harness: the specification names transaction %v, which was never stored", originOf(x)))
	}
	return tx
}

func (s *sweeper) rc(x id) *core.TransactionReceipt {
	loc, ok := s.at[originOf(x)]
	if !ok {
		panic(fmt.Sprintf("harness: the specification returns the receipt of %v, which is in no stored block", originOf(x)))
	}
	return s.chain[loc[0]].b.Block.Receipts[loc[1]]
}

func kindOfID(x id) string {
	if t := tag(x); t == "notfound" || t == "error" {
		return t
	}
	return "found"
}

func listKind(xs []id) string {
	if len(xs) == 1 && (tag(xs[0]) == "notfound" || tag(xs[0]) == "error") {
		return tag(xs[0])
	}
	return "found"
}

func unknownHash(n, i int) *felt.Felt {
	return new(felt.Felt).SetBytes([]byte(fmt.Sprintf("no-such-hash-%d-%d", n, i)))
}

func (s *sweeper) sweepBlock(v blockView) {
	bc, store := s.bc.BC, s.bc.Store
	n := uint64(v.N)
	var st *stored
	blockHash := unknownHash(v.N, -1)
	if v.N < len(s.chain) {
		st = s.chain[v.N]
		blockHash = st.b.Block.Hash
	}
	var wantBlock *core.Block
	var wantHeader *core.Header
	var wantSU *core.StateUpdate
	var wantCm *core.BlockCommitments
	var wantTxs []core.Transaction
	var wantRcs []*core.TransactionReceipt
	if st != nil {
		wantBlock, wantHeader, wantSU, wantCm = st.b.Block, st.b.Block.Header, st.b.Update, st.b.Commitments
		wantTxs, wantRcs = st.b.Block.Transactions, st.b.Block.Receipts
	}
	// ---- block / header
	{
		got, err := bc.BlockByNumber(n)
		s.check("BlockByNumber", v.Block, wantBlock, got, err)
		got, err = bc.BlockByHash(blockHash)
		s.check("BlockByHash", v.BlockByHash, wantBlock, got, err)
		h, err := bc.BlockHeaderByNumber(n)
		s.check("BlockHeaderByNumber", v.Header, wantHeader, h, err)
		h, err = bc.BlockHeaderByHash(blockHash)
		s.check("BlockHeaderByHash", v.HeaderByHash, wantHeader, h, err)
		num, err := bc.BlockNumberByHash(blockHash)
		s.check("BlockNumberByHash", kindOfID(v.NumberByHash), n, num, err)
		if st != nil {
			hh, err := bc.BlockHeaderHashByNumber(n)
			s.check("BlockHeaderHashByNumber", v.Header, wantHeader.Hash, hh, err)
			root, err := bc.GlobalStateRootByBlockNumber(n)
			s.check("GlobalStateRootByBlockNumber", v.Header, wantHeader.GlobalStateRoot, root, err)
			ts, err := core.GetBlockHeaderTimestampByNumber(store, n)
			s.check("GetBlockHeaderTimestampByNumber", v.Header, wantHeader.Timestamp, ts, err)
			bl, err := core.GetBlockHeaderEventsBloomByNumber(store, n)
			if err != nil || !bl.Equal(wantHeader.EventsBloom) {
				s.bad("GetBlockHeaderEventsBloomByNumber", "value", "bloom differs", "stored bloom", err)
			}
			h1, r1, err := core.GetBlockHeaderHashAndStateRootByNumber(store, n)
			s.check("GetBlockHeaderHashAndStateRootByNumber", v.Header, []*felt.Felt{wantHeader.Hash, wantHeader.GlobalStateRoot}, []*felt.Felt{h1, r1}, err)
		} else {
			_, err := bc.BlockHeaderHashByNumber(n)
			s.check("BlockHeaderHashByNumber", v.Header, nil, nil, err)
			_, err = bc.GlobalStateRootByBlockNumber(n)
			s.check("GlobalStateRootByBlockNumber", v.Header, nil, nil, err)
		}
		cnt, err := bc.BlockTransactionCountByNumber(n)
		s.check("BlockTransactionCountByNumber", kindOfID(v.Count), uint64(v.Size), cnt, err)
	}
	// ---- whole lists
	{
		txs, err := bc.TransactionsByBlockNumber(n)
		s.check("TransactionsByBlockNumber", listKind(v.Txs), wantTxs, txs, err)
		rcs, err := core.GetReceiptsByBlockNumber(store, n)
		s.check("GetReceiptsByBlockNumber", listKind(v.Rcs), wantRcs, rcs, err)
		t2, r2, err := bc.TransactionsAndReceiptsByBlockNumber(n)
		s.check("TransactionsAndReceiptsByBlockNumber", listKind(v.Txs), wantTxs, t2, err)
		if err == nil {
			s.check("TransactionsAndReceiptsByBlockNumber.receipts", "found", wantRcs, r2, nil)
		}
		hs, err := bc.TransactionHashesByBlockNumber(n)
		wantH := []felt.Felt{}
		if listKind(v.Hashes) == "found" {
			for _, x := range v.Hashes {
				wantH = append(wantH, *s.tx(x).Hash())
			}
		}
		s.check("TransactionHashesByBlockNumber", listKind(v.Hashes), wantH, hs, err)
		evs, err := core.GetTransactionEventsByBlockNumber(store, n)
		wantE := []core.TransactionEvents{}
		if listKind(v.Events) == "found" {
			for _, x := range v.Events {
				var ref id
				_ = json.Unmarshal(x[0], &ref)
				r := s.rc(ref)
				wantE = append(wantE, core.TransactionEvents{Events: r.Events, TransactionHash: r.TransactionHash})
			}
		}
		s.check("GetTransactionEventsByBlockNumber", listKind(v.Events), wantE, evs, err)
		if st != nil {
			// the lazily decoding accessors are OBTAINED first and CONSUMED after other reads: what
			// they return must not depend on memory the database only lent to them
			lazy := core.GetTransactionsByBlockNumberIter(store, n)
			bt, bterr := core.BlockTransactionsBucket.Get(store, n)
			for m := uint64(0); m < uint64(len(s.chain)); m++ {
				_, _ = bc.BlockByNumber(m)
				_, _ = core.GetReceiptsByBlockNumber(store, m)
			}
			it := []core.Transaction{}
			var ierr error
			for tx, err := range lazy {
				if err != nil {
					ierr = err
					break
				}
				it = append(it, tx)
			}
			s.check("GetTransactionsByBlockNumberIter", "found", wantTxs, it, ierr)
			if bterr != nil {
				s.bad("BlockTransactionsBucket", "kind", bterr.Error(), "found", bterr)
			} else {
				all, err := bt.Transactions().All()
				s.check("BlockTransactions.Transactions.All", "found", wantTxs, all, err)
				allr, err := bt.Receipts().All()
				s.check("BlockTransactions.Receipts.All", "found", wantRcs, allr, err)
				one := []core.Transaction{}
				var oerr error
				for tx, err := range bt.Transactions().Iter() {
					if err != nil {
						oerr = err
						break
					}
					one = append(one, tx)
				}
				s.check("BlockTransactions.Transactions.Iter", "found", wantTxs, one, oerr)
			}
		}
	}
	// ---- per index, incl. the first one out of range
	for i := range v.Tx {
		ix := uint64(i)
		var wt core.Transaction
		var wr *core.TransactionReceipt
		if kindOfID(v.Tx[i]) == "found" {
			wt = s.tx(v.Tx[i])
		}
		if kindOfID(v.Rc[i]) == "found" {
			wr = s.rc(v.Rc[i])
		}
		tx, err := bc.TransactionByBlockNumberAndIndex(n, ix)
		s.check("TransactionByBlockNumberAndIndex", kindOfID(v.Tx[i]), wt, tx, err)
		rc, err := core.GetReceiptByBlockAndIndex(store, n, ix)
		s.check("GetReceiptByBlockAndIndex", kindOfID(v.Rc[i]), wr, rc, err)
		t2, r2, bh, err := bc.TransactionAndReceiptByBlockNumberAndIndex(n, ix)
		s.check("TransactionAndReceiptByBlockNumberAndIndex", kindOfID(v.Pair[i]), wt, t2, err)
		if err == nil && wr != nil {
			s.check("TransactionAndReceiptByBlockNumberAndIndex.receipt", "found", *wr, r2, nil)
			s.check("TransactionAndReceiptByBlockNumberAndIndex.blockHash", "found", blockHash, bh, nil)
		}
		es, err := bc.TransactionExecutionStatusByBlockNumberAndIndex(n, ix)
		wantS := core.TransactionExecutionStatus{}
		if wr != nil {
			wantS = core.TransactionExecutionStatus{Reverted: wr.Reverted, RevertReason: wr.RevertReason}
		}
		s.check("TransactionExecutionStatusByBlockNumberAndIndex", kindOfID(v.Status[i]), wantS, es, err)
		// ---- by hash
		h := unknownHash(v.N, i)
		if st != nil && i < len(wantTxs) {
			h = wantTxs[i].Hash()
		}
		var wth core.Transaction
		if kindOfID(v.TxByHash[i]) == "found" {
			wth = s.tx(v.TxByHash[i])
		}
		tx, err = bc.TransactionByHash(h)
		s.check("TransactionByHash", kindOfID(v.TxByHash[i]), wth, tx, err)
		bn, bi, err := bc.BlockNumberAndIndexByTxHash((*felt.TransactionHash)(h))
		wantLoc, locKind := []uint64{n, ix}, kindOfID(v.TxByHash[i])
		if i < len(v.LocByHash) {
			if locKind = kindOfID(v.LocByHash[i]); locKind == "found" {
				p := ints(v.LocByHash[i], 1)
				wantLoc = []uint64{uint64(p[0]), uint64(p[1])}
			}
		}
		s.check("BlockNumberAndIndexByTxHash", locKind, wantLoc, []uint64{bn, bi}, err)
		ct, err := core.GetTransactionByHash(store, (*felt.TransactionHash)(h)) // the core-level reader under it
		s.check("core.GetTransactionByHash", kindOfID(v.TxByHash[i]), wth, ct, err)
		rcp, rbh, rbn, err := bc.Receipt(h)
		if kindOfID(v.RcByHash[i]) == "found" {
			var ref id
			_ = json.Unmarshal(v.RcByHash[i][0], &ref)
			var num int
			_ = json.Unmarshal(v.RcByHash[i][2], &num)
			s.check("Receipt", "found", s.rc(ref), rcp, err)
			if err == nil {
				s.check("Receipt.blockHash", "found", s.chain[num].b.Block.Hash, rbh, nil)
				s.check("Receipt.blockNumber", "found", uint64(num), rbn, nil)
			}
		} else {
			s.check("Receipt", kindOfID(v.RcByHash[i]), nil, nil, err)
		}
	}
	// ---- state update, commitments, L1 message lookup, classes
	{
		su, err := bc.StateUpdateByNumber(n)
		s.check("StateUpdateByNumber", v.SU, wantSU, su, err)
		su2, err := bc.StateUpdateByHash(blockHash)
		s.check("StateUpdateByHash", v.SUByHash, wantSU, su2, err)
		cm, err := bc.BlockCommitmentsByNumber(n)
		s.check("BlockCommitmentsByNumber", v.Header, wantCm, cm, err)
	}
	for i, x := range v.L1 {
		if tag(x) == "na" {
			continue
		}
		l1 := wantTxs[i].(*core.L1HandlerTransaction)
		mh := eth.Hash(l1.MessageHash())
		got, err := bc.L1HandlerTxnHash(&mh)
		s.check("L1HandlerTxnHash", kindOfID(x), *s.tx(x).Hash(), got, err)
	}
	if st != nil && len(st.hashes) > 0 {
		state, closer, err := bc.HeadState()
		if err != nil {
			s.bad("HeadState", "kind", err.Error(), "found", err)
			return
		}
		defer closer()
		for _, h := range st.hashes {
			dc, err := state.Class(&h)
			want := &core.DeclaredClassDefinition{At: n, Class: st.b.Classes[h]}
			s.check("StateReader.Class", "found", want, dc, err)
		}
	}
}

// scan reads every block blob through the prefix scan of the typed bucket, keeps the entries and
// decodes them only after the scan (and its iterator) is over.
func (s *sweeper) scan() {
	var entries []core.BlockTransactions
	var serr error
	for e, err := range core.BlockTransactionsBucket.Prefix().Scan(s.bc.Store) {
		if err != nil {
			serr = err
			break
		}
		entries = append(entries, e.Value)
	}
	if serr != nil || len(entries) != len(s.chain) {
		s.bad("BlockTransactionsBucket.Scan", "kind", "scan", len(s.chain), fmt.Sprint(len(entries), serr))
		return
	}
	for i, e := range entries {
		txs, err := e.Transactions().All()
		s.check("BlockTransactionsBucket.Scan.transactions", "found", s.chain[i].b.Block.Transactions, txs, err)
		rcs, err := e.Receipts().All()
		s.check("BlockTransactionsBucket.Scan.receipts", "found", s.chain[i].b.Block.Receipts, rcs, err)
	}
}

// sweepGone: what a reorg dropped is NOT FOUND through every by-hash accessor - the hash of every
// transaction of a reverted block that no stored block holds now (a transaction that WAS re-included
// is checked by sweepBlock at its new place), the message hash of every dropped L1 handler, the hash
// of every replaced block, the classes only a replaced block declared.
func (s *sweeper) sweepGone(g goneView) {
	bc, store := s.bc.BC, s.bc.Store
	for _, t := range g.Txs {
		o := originOf(t.Hash)
		tx := s.known[o]
		if tx == nil {
			panic(fmt.Sprintf("harness: the specification lists %v as dropped, which was never stored", o))
		}
		if _, ok := s.at[o]; ok {
			panic(fmt.Sprintf("harness: the specification lists %v as dropped, the concrete chain holds it", o))
		}
		h := tx.Hash()
		_, err := bc.TransactionByHash(h)
		s.check("dropped:TransactionByHash", t.Tx, nil, nil, err)
		_, err = core.GetTransactionByHash(store, (*felt.TransactionHash)(h))
		s.check("dropped:core.GetTransactionByHash", t.Tx, nil, nil, err)
		_, _, err = bc.BlockNumberAndIndexByTxHash((*felt.TransactionHash)(h))
		s.check("dropped:BlockNumberAndIndexByTxHash", t.Loc, nil, nil, err)
		_, _, _, err = bc.Receipt(h)
		s.check("dropped:Receipt", t.Rc, nil, nil, err)
		if t.L1 != "na" {
			mh := eth.Hash(tx.(*core.L1HandlerTransaction).MessageHash())
			_, err = bc.L1HandlerTxnHash(&mh)
			s.check("dropped:L1HandlerTxnHash", t.L1, nil, nil, err)
		}
	}
	for _, b := range g.Blocks {
		st := s.dead[ints(b.Hash, 1)[0]]
		if st == nil {
			panic(fmt.Sprintf("harness: the specification lists block version %v as replaced, which was never reverted", ints(b.Hash, 1)))
		}
		h := st.b.Block.Hash
		_, err := bc.BlockNumberByHash(h)
		s.check("replaced:BlockNumberByHash", b.Number, nil, nil, err)
		_, err = bc.BlockHeaderByHash(h)
		s.check("replaced:BlockHeaderByHash", b.Header, nil, nil, err)
		_, err = bc.BlockByHash(h)
		s.check("replaced:BlockByHash", b.Block, nil, nil, err)
		_, err = bc.StateUpdateByHash(h)
		s.check("replaced:StateUpdateByHash", b.SU, nil, nil, err)
		if len(st.hashes) > 0 {
			state, closer, err := bc.HeadState()
			if err != nil {
				if len(s.chain) > 0 {
					s.bad("HeadState", "kind", err.Error(), "found", err)
				}
				continue
			}
			for _, ch := range st.hashes {
				_, err := state.Class(&ch)
				s.check("replaced:StateReader.Class", "notfound", nil, nil, err)
			}
			_ = closer()
		}
	}
}

// ------------------------------------------------------------------ codec identity

func roundTrip[T any](s *sweeper, name string, v T) {
	s.n++
	b, err := encoder.Marshal(v)
	if err != nil {
		s.bad("codec:"+name, "marshal", err.Error(), "ok", err)
		return
	}
	var back T
	if err := encoder.Unmarshal(b, &back); err != nil {
		s.bad("codec:"+name, "unmarshal", err.Error(), "ok", err)
		return
	}
	if !equal(any(v), any(back)) {
		what := "value"
		if equalLenient(any(v), any(back)) {
			what = "nil-vs-empty"
		}
		s.bad("codec:"+name, what, "decode(encode(v)) differs from v", dump(v), dump(back))
	}
}

func keep[T any](s *sweeper, name string, v T, enc []byte) {
	s.kept = append(s.kept, kept{name: name, bytes: enc, snap: bytes.Clone(enc), decode: func(b []byte) error {
		var back T
		if err := encoder.Unmarshal(b, &back); err != nil {
			return err
		}
		if !equal(any(v), any(back)) {
			return errors.New("decodes to another value")
		}
		return nil
	}})
}

func (s *sweeper) checkRetained() {
	for _, r := range s.retained {
		s.n++
		if !equal(r.want, r.got) {
			s.bad(r.name, "retained-result-changed", "a value returned earlier changed after later calls", dump(r.want), dump(r.got))
		}
	}
	s.retained = nil
}

const hangAfter = 120 * time.Second

// guardStep runs one step of calls into juno under recover and a deadline; a panic or a hang of the
// real code becomes a keyed divergence (the engine never dies of it). false = stop this behaviour.
func (s *sweeper) guardStep(what string, f func() bool) (ok bool) {
	timer := time.AfterFunc(hangAfter, func() {
		s.bad("hang", what, fmt.Sprintf("no return after %s", hangAfter), "returns", "hang")
		_ = s.out.Write()
		os.Exit(1)
	})
	defer timer.Stop()
	defer func() {
		if r := recover(); r != nil {
			if msg, isStr := r.(string); isStr && strings.HasPrefix(msg, "harness:") {
				panic(r) // machinery, not the code under test
			}
			var frames []string
			for _, l := range strings.Split(string(debug.Stack()), "\n") {
				if strings.Contains(l, "NethermindEth/juno") && !strings.HasPrefix(l, "\t") {
					frames = append(frames, strings.TrimSpace(l))
				}
			}
			where := "?"
			if len(frames) > 0 {
				where = frames[0]
				if i := strings.Index(where, "("); i > 0 {
					where = where[:i]
				}
			}
			s.bad("crash", where, fmt.Sprintf("%s: juno panicked: %v", what, r), "returns", strings.Join(frames, " <- "))
			ok = false
		}
	}()
	return f()
}

// checkKept: after further values went through the same serializers, every retained encoding must
// be byte-for-byte what it was and still decode to its value.
func (s *sweeper) checkKept() {
	for _, k := range s.kept {
		s.n++
		if !bytes.Equal(k.bytes, k.snap) {
			s.bad("codec:"+k.name, "retained-bytes-changed",
				"the bytes returned for one value changed when other values were serialised afterwards", "unchanged", "rewritten")
			continue
		}
		if err := k.decode(k.bytes); err != nil {
			s.bad("codec:"+k.name, "retained-bytes-decode", err.Error(), "decodes to the value", err)
		}
	}
	s.kept = nil
}

func (s *sweeper) codecs(st *stored) {
	for _, tx := range st.b.Block.Transactions {
		if enc, err := encoder.Marshal(tx); err == nil {
			keep(s, fmt.Sprintf("encoder.Marshal(%T)", tx), tx, enc)
		}
	}
	for _, r := range st.b.Block.Receipts {
		if enc, err := encoder.Marshal(r); err == nil {
			keep(s, "encoder.Marshal(TransactionReceipt)", r, enc)
		}
	}
	if enc, err := encoder.Marshal(st.b.Block.Header); err == nil {
		keep(s, "encoder.Marshal(Header)", st.b.Block.Header, enc)
	}
	if enc, err := encoder.Marshal(st.b.Update); err == nil {
		keep(s, "encoder.Marshal(StateUpdate)", st.b.Update, enc)
	}
	for _, c := range st.b.Classes {
		dc := &core.DeclaredClassDefinition{At: st.b.Block.Number, Class: c}
		if enc, err := dc.MarshalBinary(); err == nil {
			want := dc
			s.kept = append(s.kept, kept{name: "DeclaredClassDefinition.MarshalBinary", bytes: enc, snap: bytes.Clone(enc),
				decode: func(b []byte) error {
					var back core.DeclaredClassDefinition
					if err := back.UnmarshalBinary(b); err != nil {
						return err
					}
					if !equal(want, &back) {
						return errors.New("decodes to another value")
					}
					return nil
				}})
		}
	}
	{
		bt, err := core.NewBlockTransactions(st.b.Block.Transactions, st.b.Block.Receipts)
		if err == nil {
			wantTxs, wantRcs := st.b.Block.Transactions, st.b.Block.Receipts
			dec := func(blob core.BlockTransactions) error {
				txs, err := blob.Transactions().All()
				if err != nil {
					return err
				}
				rcs, err := blob.Receipts().All()
				if err != nil {
					return err
				}
				if !equal(wantTxs, txs) || !equal(wantRcs, rcs) {
					return errors.New("decodes to another block's transactions / receipts")
				}
				return nil
			}
			s.kept = append(s.kept, kept{name: "NewBlockTransactions.Data", bytes: bt.Data, snap: bytes.Clone(bt.Data),
				decode: func(b []byte) error { return dec(core.BlockTransactions{Indexes: bt.Indexes, Data: b}) }})
			if enc, err := (core.BlockTransactionsSerializer{}).Marshal(&bt); err == nil {
				s.kept = append(s.kept, kept{name: "BlockTransactionsSerializer.Marshal", bytes: enc, snap: bytes.Clone(enc),
					decode: func(b []byte) error {
						var back core.BlockTransactions
						if err := (core.BlockTransactionsSerializer{}).Unmarshal(b, &back); err != nil {
							return err
						}
						return dec(back)
					}})
				// a different value through the same serializer, at once (same goroutine)
				other := core.BlockTransactions{Data: []byte{0xf6, 0xf6, 0xf6}}
				_, _ = (core.BlockTransactionsSerializer{}).Marshal(&other)
			}
		}
	}
	for _, tx := range st.b.Block.Transactions {
		roundTrip(s, fmt.Sprintf("%T", tx), tx) // through the Transaction interface (type registry)
	}
	for _, r := range st.b.Block.Receipts {
		roundTrip(s, "TransactionReceipt", r)
	}
	roundTrip(s, "Header", st.b.Block.Header)
	roundTrip(s, "StateUpdate", st.b.Update)
	roundTrip(s, "BlockCommitments", st.b.Commitments)
	for _, c := range st.b.Classes {
		roundTrip(s, fmt.Sprintf("%T", c), c)
		roundTrip(s, "DeclaredClassDefinition", &core.DeclaredClassDefinition{At: st.b.Block.Number, Class: c})
	}
	// the block blob through its own serializer, and the blob's lazy slices
	bt, err := core.NewBlockTransactions(st.b.Block.Transactions, st.b.Block.Receipts)
	if err != nil {
		s.bad("codec:BlockTransactions", "marshal", err.Error(), "ok", err)
		return
	}
	enc, err := core.BlockTransactionsSerializer{}.Marshal(&bt)
	if err != nil {
		s.bad("codec:BlockTransactions", "marshal", err.Error(), "ok", err)
		return
	}
	var back core.BlockTransactions
	if err := (core.BlockTransactionsSerializer{}).Unmarshal(enc, &back); err != nil {
		s.bad("codec:BlockTransactions", "unmarshal", err.Error(), "ok", err)
		return
	}
	txs, err := back.Transactions().All()
	s.check("codec:BlockTransactions.transactions", "found", st.b.Block.Transactions, txs, err)
	rcs, err := back.Receipts().All()
	s.check("codec:BlockTransactions.receipts", "found", st.b.Block.Receipts, rcs, err)
}

// ------------------------------------------------------------------ driver

func openStore(backend string) (db.KeyValueStore, error) {
	switch backend {
	case "memory":
		return memory.New(), nil
	case "pebblev2":
		return pebblev2.New("verif-mem", func(o *pebv2.Options) error { o.FS = vfsv2.NewMem(); return nil })
	case "memory-poisoned": // enforces "a lent value is only valid inside the callback" (poison_test.go)
		return poison(memory.New()), nil
	}
	return nil, fmt.Errorf("unknown backend %q", backend)
}

func TestAccessorsReplay(t *testing.T) {
	if !vh.Enabled() {
		t.Skip()
	}
	out := vh.NewResult()
	defer out.Write()
	var in input
	if err := vh.Input(&in); err != nil {
		t.Fatal(err)
	}
	seed := in.Seed
	if seed == 0 {
		seed = vh.Seed()
	}
	if len(in.Backends) == 0 {
		in.Backends = []string{"memory", "pebblev2", "memory-poisoned"}
	}
	calls, steps := 0, 0
	largeIdx := 0
	var writersPool []*stored
	shapes := map[string]bool{}
	runBehaviour := func(idx int, beh []step, backends []string, large bool) {
		for _, backend := range backends {
			store, err := openStore(backend)
			if err != nil {
				t.Fatal(err)
			}
			g := chainkit.NewGen(seed*1_000_003 + int64(idx))
			node := chainkit.NewNode(store, idx%2 == 1)
			sw := &sweeper{out: out, backend: backend, bc: node,
				known: map[origin]core.Transaction{}, at: map[origin][2]int{}, dead: map[int]*stored{},
				replay: vh.J{"seed": seed, "start": idx, "behaviours": [][]step{beh}, "backends": []string{backend}, "large_only": large}}
			if large {
				sw.backend += "+large"
			}
			var contracts []felt.Felt
			stepOK := true
			stores := 0
			for i, stp := range beh {
				if !stepOK {
					break
				}
				steps++
				sw.step = i
				// one step = calls into juno only: a panic or a hang there is a verdict about the code
				stepOK = sw.guardStep(fmt.Sprintf("%s@%d", stp.A.Name, len(sw.chain)), func() bool {
					if stp.A.Name == "Restart" {
						if stp.A.Graceful {
							if err := node.BC.WriteRunningEventFilter(); err != nil {
								sw.bad("Restart", "graceful-stop-failed", err.Error(), "ok", err)
								return false
							}
						}
						node = node.Restart()
						sw.bc = node
					} else if stp.A.Name == "Revert" {
						if len(sw.chain) == 0 || stp.A.Number != len(sw.chain)-1 {
							panic(fmt.Sprintf("harness: behaviour %d step %d reverts block %d of a chain of %d", idx, i, stp.A.Number, len(sw.chain)))
						}
						if err := node.BC.RevertHead(); err != nil {
							sw.bad("Revert", "revert-failed", fmt.Sprintf("RevertHead of block %d fails: %v", stp.A.Number, err), "reverted", err)
							return false
						}
						top := sw.chain[len(sw.chain)-1]
						sw.chain = sw.chain[:len(sw.chain)-1]
						sw.dead[top.ver] = top
						if top.deployed != nil && len(contracts) > 0 && contracts[len(contracts)-1] == *top.deployed {
							contracts = contracts[:len(contracts)-1]
						}
						sw.relocate()
					} else {
						if stp.A.Src == nil { // a behaviour recorded before the reorg dimension: append-only
							stp.A.Ver = stores
						}
						stores++
						st, err := concretise(g, node, stp.A, len(sw.chain), idx, &contracts, large, sw.known)
						if err != nil {
							// the real Simulate refuses a block the specification allows
							sw.bad("Store", "producer-failed", fmt.Sprintf("cannot build block %d: %v", len(sw.chain), err), "built", err)
							return false
						}
						if err := node.StoreBuilt(st.b); err != nil {
							sw.bad("Store", "store-failed", fmt.Sprintf("a valid block %d is refused: %v", len(sw.chain), err), "stored", err)
							return false
						}
						sw.chain = append(sw.chain, st)
						for j, tx := range st.b.Block.Transactions {
							if j >= len(stp.A.Src) || tag(stp.A.Src[j]) != "tx" {
								sw.known[origin{st.ver, j}] = tx
							}
						}
						sw.relocate()
						if len(st.b.Block.Transactions) > 0 && len(writersPool) < 16 && backend == backends[0] && !large {
							writersPool = append(writersPool, st)
						}
						for j, k := range stp.A.Kinds {
							shapes[fmt.Sprintf("%s/ev%d/rev%v", k, stp.A.Evs[j], stp.A.Revs[j])] = true
						}
						shapes[fmt.Sprintf("size%d/%s", stp.A.Size, st.version)] = true
						if backend == backends[0] {
							sw.codecs(st)
						}
					}
					if len(stp.View.Blocks) != len(sw.chain) || stp.View.Height != len(sw.chain)-1 {
						panic(fmt.Sprintf("harness: behaviour %d step %d: view has %d blocks, chain %d", idx, i, len(stp.View.Blocks), len(sw.chain)))
					}
					if !stp.reads() {
						return true // nothing is read between this write and the next one
					}
					if len(sw.chain) == 0 { // the whole chain was reverted
						_, err := node.BC.Height()
						sw.check("Height", "notfound", nil, nil, err)
						_, err = node.BC.Head()
						sw.check("Head", "notfound", nil, nil, err)
						_, err = node.BC.HeadsHeader()
						sw.check("HeadsHeader", "notfound", nil, nil, err)
					} else {
						last := sw.chain[len(sw.chain)-1]
						if h, err := node.BC.Height(); err != nil || int(h) != stp.View.Height {
							sw.bad("Height", "value", "height", stp.View.Height, fmt.Sprint(h, err))
						}
						head, err := node.BC.Head()
						sw.check("Head", "found", last.b.Block, head, err)
						hh, err := node.BC.HeadsHeader()
						sw.check("HeadsHeader", "found", last.b.Block.Header, hh, err)
					}
					for _, bv := range stp.View.Blocks {
						// results of the newest block's first sweep are retained and re-checked at the end
						sw.retain = stp.A.Name == "Store" && bv.N == len(sw.chain)-1
						sw.sweepBlock(bv)
					}
					sw.retain = false
					sw.sweepBlock(stp.View.Beyond)
					sw.sweepGone(stp.View.Gone)
					sw.scan()
					return true
				})
			}
			sw.checkKept() // all four blocks of the chain went through the serializers by now
			// a restarted node answers the same (nothing lives only in memory)
			if len(beh) > 0 && stepOK {
				sw.guardStep("final-restart", func() bool {
					node = node.Restart()
					sw.bc = node
					sw.backend += "+restart"
					last := beh[len(beh)-1]
					for _, bv := range last.View.Blocks {
						sw.sweepBlock(bv)
					}
					sw.sweepGone(last.View.Gone)
					return true
				})
			}
			sw.checkRetained() // every value an accessor handed back is still what it was
			calls += sw.n
			if c, ok := store.(interface{ Close() error }); ok {
				_ = c.Close()
			}
		}
	}
	// large mode needs a first block whose first transaction can carry the big calldata
	largeOf := func(beh []step) []step {
		if len(beh) == 0 || beh[0].A.Size == 0 || beh[0].A.Kinds[0] == "l1handler" {
			return nil
		}
		cp := append([]step{}, beh...)
		cp[0].A.Kinds = append([]string{"invoke3"}, beh[0].A.Kinds[1:]...)
		return cp
	}
	if in.LargeOnly {
		for bi, beh := range in.Behaviours {
			if lb := largeOf(beh); lb != nil {
				runBehaviour(in.Start+bi, lb, in.Backends, true)
			}
		}
		out.Done(len(in.Behaviours), steps)
		return
	}
	for bi, beh := range in.Behaviours {
		idx := in.Start + bi
		runBehaviour(idx, beh, in.Backends, false)
		out.Sample(vh.J{"behaviour": idx, "stores": len(beh), "first": beh[0].A})
	}
	if in.Large { // once per run, on both databases and both state backends
		done := 0
		for bi, beh := range in.Behaviours {
			if lb := largeOf(beh); lb != nil && (done == 0 || (in.Start+bi)%2 != largeIdx%2) {
				if done == 0 {
					largeIdx = in.Start + bi
				}
				runBehaviour(in.Start+bi, lb, []string{"memory", "pebblev2"}, true)
				if done++; done == 2 {
					break
				}
			}
		}
		if done == 0 {
			t.Fatal("no behaviour usable for the large-values chain")
		}
		out.Stats["large_value_chains"] = done
	}
	if in.Concurrent {
		calls += concurrentReaders(out, seed, vh.J{"seed": seed, "start": in.Start, "behaviours": [][]step{}, "backends": in.Backends[:1], "concurrent": true})
	}
	if in.Concurrent && len(writersPool) > 1 {
		n := 3
		if len(in.Behaviours) < n {
			n = len(in.Behaviours)
		}
		replay := vh.J{"seed": seed, "start": in.Start, "behaviours": in.Behaviours[:n], "backends": in.Backends[:1], "concurrent": true}
		calls += concurrentWriters(out, writersPool, replay)
	}
	out.Done(len(in.Behaviours), steps)
	out.Stats["accessor_calls_compared"] = calls
	out.Stats["distinct_item_shapes"] = len(shapes)
}

// concurrentWriters: several goroutines write DISTINCT blocks through the real write accessor into
// one store at the same time; afterwards every block must read back as what its writer wrote.
func concurrentWriters(out *vh.Result, pool []*stored, replay any) int {
	const writers, rounds = 8, 60
	n := 0
	for _, backend := range []string{"memory", "pebblev2"} {
		store, err := openStore(backend)
		if err != nil {
			panic(err)
		}
		var wg sync.WaitGroup
		errs := make([]error, writers)
		for g := 0; g < writers; g++ {
			wg.Add(1)
			go func(g int) {
				defer wg.Done()
				for j := 0; j < rounds; j++ {
					st := pool[(g*7+j)%len(pool)]
					if err := core.WriteTransactionsAndReceipts(store, uint64(g*1000+j), st.b.Block.Transactions, st.b.Block.Receipts); err != nil {
						errs[g] = err
						return
					}
				}
			}(g)
		}
		wg.Wait()
		bad := 0
		for g := 0; g < writers && bad == 0; g++ {
			if errs[g] != nil {
				panic(errs[g])
			}
			for j := 0; j < rounds; j++ {
				st := pool[(g*7+j)%len(pool)]
				txs, rcs, err := core.GetTransactionsAndReceiptsByBlockNumber(store, uint64(g*1000+j))
				n++
				if err != nil || !equal(st.b.Block.Transactions, txs) || !equal(st.b.Block.Receipts, rcs) {
					bad++
					out.Diverge(vh.Divergence{Key: "accessor:concurrent-writers:value",
						What:  fmt.Sprintf("[%s] a block written while other goroutines wrote other blocks reads back as something else (%v)", backend, err),
						Input: replay, Expected: "what its writer wrote", Observed: fmt.Sprintf("err=%v", err)})
					break
				}
			}
		}
		if c, ok := store.(interface{ Close() error }); ok {
			_ = c.Close()
		}
	}
	return n
}

// concurrentReaders: RPC handlers read while the sync pipeline stores. Store writes a block's header,
// transactions, receipts, state update, commitments, indexes and the chain height in ONE batch, so
// the specification's invariants (ItemAccessors / BlockAccessors of BlockBlob.tla) hold at every
// instant a reader can observe: whatever height a reader sees, every block up to it is completely
// readable and equal to what was stored. Readers run for the writer's whole lifetime, each under
// recover; the writer stores 12 blocks of 3 transactions.
// C07 quantifies over inputs, not schedules: a read that is wrong ONLY while a Store is in flight is
// recorded as an OBSERVATION; a crash, and anything still wrong in the sequential sweep after the
// writer has finished, are verdicts.
func concurrentReaders(out *vh.Result, seed int64, replay any) int {
	var mu sync.Mutex
	total := 0
	observations := []string{}
	defer func() { out.Stats["observations"] = observations }()
	for ci, cfg := range []struct {
		backend  string
		newState bool
	}{{"memory", false}, {"pebblev2", true}} {
		verdict := func(name, what, msg string) {
			mu.Lock()
			defer mu.Unlock()
			out.Diverge(vh.Divergence{Key: fmt.Sprintf("accessor:after-concurrency:%s:%s", name, what),
				What: fmt.Sprintf("[%s newState=%v] %s", cfg.backend, cfg.newState, msg), Input: replay})
		}
		observe := func(name, what, msg string) {
			mu.Lock()
			defer mu.Unlock()
			observations = append(observations, fmt.Sprintf("accessor:concurrent-read:%s:%s [%s newState=%v] while blocks are being stored: %s",
				name, what, cfg.backend, cfg.newState, msg))
		}
		report := verdict // outside the race (producer, crashes)
		g := chainkit.NewGen(seed*104729 + int64(ci))
		twin := chainkit.NewNode(nil, cfg.newState)
		var built []*stored
		var contracts []felt.Felt
		for n := 0; n < 12; n++ {
			a := action{Name: "Store", Size: 3, Evs: []int{2, 0, 1}, Revs: []bool{false, true, false}}
			for i := 0; i < 3; i++ {
				a.Kinds = append(a.Kinds, chainkit.TxKinds[(n*3+i)%len(chainkit.TxKinds)])
			}
			st, err := concretise(g, twin, a, n, ci*3, &contracts, false, nil)
			if err == nil {
				err = twin.StoreBuilt(st.b)
			}
			if err != nil {
				report("Store", "producer-failed", err.Error())
				return total
			}
			built = append(built, st)
		}
		store, err := openStore(cfg.backend)
		if err != nil {
			panic(err)
		}
		node := chainkit.NewNode(store, cfg.newState)
		var stop atomic.Bool
		var wg sync.WaitGroup
		var reads atomic.Int64
		for r := 0; r < 4; r++ {
			wg.Add(1)
			go func(r int) {
				defer wg.Done()
				defer func() {
					if p := recover(); p != nil {
						report("crash", "reader", fmt.Sprintf("reader panicked: %v\n%s", p, debug.Stack()))
					}
				}()
				bc := node.BC
				for pass := 0; ; pass++ {
					final := stop.Load() // the pass after the writer finished sees the whole chain
					report := observe    // a pass that overlaps the writer only observes
					if final {
						report = verdict
					}
					h, err := bc.Height()
					if err != nil {
						if !errors.Is(err, db.ErrKeyNotFound) {
							report("Height", "kind", err.Error())
							return
						}
					} else {
						for _, n := range []uint64{h, uint64((pass + r) % (int(h) + 1))} {
							want := built[n].b
							blk, err := bc.BlockByNumber(n)
							if err != nil || !equal(want.Block, blk) {
								report("BlockByNumber", "value", fmt.Sprintf("height %d is visible but block %d reads as err=%v equal=%v", h, n, err, err == nil))
								return
							}
							su, err := bc.StateUpdateByNumber(n)
							if err != nil || !equal(want.Update, su) {
								report("StateUpdateByNumber", "value", fmt.Sprintf("height %d is visible but state update %d reads as err=%v", h, n, err))
								return
							}
							cm, err := bc.BlockCommitmentsByNumber(n)
							if err != nil || !equal(want.Commitments, cm) {
								report("BlockCommitmentsByNumber", "value", fmt.Sprintf("height %d visible, commitments %d: err=%v", h, n, err))
								return
							}
							for i, tx := range want.Block.Transactions {
								got, err := bc.TransactionByHash(tx.Hash())
								if err != nil || !equal(tx, got) {
									report("TransactionByHash", "value", fmt.Sprintf("height %d visible, tx %d of block %d: err=%v", h, i, n, err))
									return
								}
								rc, _, bn, err := bc.Receipt(tx.Hash())
								if err != nil || bn != n || !equal(want.Block.Receipts[i], rc) {
									report("Receipt", "value", fmt.Sprintf("height %d visible, receipt %d of block %d: err=%v block=%d", h, i, n, err, bn))
									return
								}
							}
							reads.Add(int64(3 + 2*len(want.Block.Transactions)))
						}
						head, err := bc.Head()
						if err != nil || head.Number < h || int(head.Number) >= len(built) || !equal(built[head.Number].b.Block, head) {
							report("Head", "value", fmt.Sprintf("height %d visible, Head: err=%v", h, err))
							return
						}
					}
					if final {
						if err != nil || int(h) != len(built)-1 {
							report("Height", "value", fmt.Sprintf("after the writer finished the height is %d (%v), stored %d blocks", h, err, len(built)))
						}
						return
					}
				}
			}(r)
		}
		func() {
			defer stop.Store(true)
			defer func() {
				if p := recover(); p != nil {
					report("crash", "writer", fmt.Sprintf("writer panicked: %v\n%s", p, debug.Stack()))
				}
			}()
			for n, st := range built {
				if err := node.StoreBuilt(st.b); err != nil {
					observe("Store", "store-failed", fmt.Sprintf("block %d: %v", n, err))
					return
				}
			}
		}()
		done := make(chan struct{})
		go func() { wg.Wait(); close(done) }()
		select {
		case <-done:
		case <-time.After(hangAfter):
			report("hang", "readers", "readers did not finish")
			_ = out.Write()
			os.Exit(1)
		}
		total += int(reads.Load())
		// sequentially, after everything has ended: the whole chain reads back as stored
		for n, st := range built {
			blk, err := node.BC.BlockByNumber(uint64(n))
			if err != nil || !equal(st.b.Block, blk) {
				verdict("BlockByNumber", "value", fmt.Sprintf("block %d after the round: err=%v", n, err))
			}
			su, err := node.BC.StateUpdateByNumber(uint64(n))
			if err != nil || !equal(st.b.Update, su) {
				verdict("StateUpdateByNumber", "value", fmt.Sprintf("state update %d after the round: err=%v", n, err))
			}
			for i, tx := range st.b.Block.Transactions {
				got, err := node.BC.TransactionByHash(tx.Hash())
				if err != nil || !equal(tx, got) {
					verdict("TransactionByHash", "value", fmt.Sprintf("tx %d of block %d after the round: err=%v", i, n, err))
				}
			}
		}
		if c, ok := store.(interface{ Close() error }); ok {
			_ = c.Close()
		}
	}
	out.Count("concurrent_reads_compared", total)
	return total
}

// Engine "crash" (property C05): replays Crash.tla behaviours on real juno nodes over a
// fault-injecting store and enumerates every fail/crash point of every operation.
//
// world_test.go: the machinery — deterministic block content, base images across a bloom-window
// boundary, the node under test (pruning wiring: shared RetentionFloor + pruner initialiser of
// the running event filter), the unfaulted/unpruned twin, the operations, the real pruner service
// driven through real feeds, the projection compared with the specification, and the monitors
// (Consistent / MemAgreesWithDisk / NextStoreSucceeds evaluated on the REAL node).
package crash

import (
	"bytes"
	"context"
	"encoding/binary"
	"encoding/gob"
	"errors"
	"fmt"
	"math"
	"os"
	"path/filepath"
	"reflect"
	"runtime"
	"sort"
	"strings"
	"sync"
	"time"

	"github.com/NethermindEth/juno/blockchain"
	"github.com/NethermindEth/juno/core"
	"github.com/NethermindEth/juno/core/felt"
	"github.com/NethermindEth/juno/db"
	"github.com/NethermindEth/juno/db/memory"
	"github.com/NethermindEth/juno/db/pebblev2"
	"github.com/NethermindEth/juno/encoder"
	_ "github.com/NethermindEth/juno/encoder/registry"
	"github.com/NethermindEth/juno/feed"
	"github.com/NethermindEth/juno/pruner"
	"github.com/NethermindEth/juno/utils/log"

	"verifharness/internal/chainkit"
	"verifharness/internal/faultkv"
	"verifharness/internal/refimpl"
	"verifharness/internal/vh"
)

var contractAddr = *chainkit.F(0x100)

type bk struct{ N, V int }

type consts struct {
	MaxH     int  `json:"MaxH"`
	MaxVer   int  `json:"MaxVer"`
	InitH    int  `json:"InitH"`
	Boundary int  `json:"Boundary"`
	Genesis  bool `json:"Genesis"`
}

// off maps a specification block number to the real one: the scenario is placed so that the
// specification's window boundary coincides with the code's (8192).
func (c consts) off() uint64 {
	if c.Boundary > c.MaxH+1 {
		return 0
	}
	return core.NumBlocksPerFilter - uint64(c.Boundary)
}

func eventKey(n, v int) felt.Felt { return *chainkit.F(uint64(100000 + 100*n + v)) }

var (
	classA, classB         felt.Felt
	classADef, classBDef   core.ClassDefinition
	fixedClassesOnce       sync.Once
	versions               = []string{"0.13.2", "0.13.4", "0.14.0", "0.14.1"}
	errTimeout             = errors.New("crash engine: timeout waiting for the pruner service")
	// errOnRealCode marks a failure of the REAL code while the initial world is prepared (pruning
	// a freshly built valid chain): an observation on the code, not a harness problem
	errOnRealCode = errors.New("real code failed on a valid chain")
	noPreConfirmed         = func() (blockchain.PreConfirmedReader, error) { return nil, nil }
	bigBatch               = 96 * 1024 * 1024
	_              context.Context
)

func fixedClasses() {
	fixedClassesOnce.Do(func() {
		g := chainkit.NewGen(424242)
		classA, classADef = g.Cairo0Class()
		classB, classBDef = g.Cairo0Class()
	})
}

// bareID: block ids stored without any transaction (the "always populated" dimension made explicit).
func bareID(off uint64, n, v int) bool { return off+uint64(n) > 0 && (n+v)%5 == 0 }

// blockSpec is the deterministic content of block id (n, v) (n = specification number).
func blockSpec(seed int64, off uint64, n, v int) chainkit.BlockSpec {
	fixedClasses()
	real := off + uint64(n)
	g := chainkit.NewGen(seed*1_000_003 + int64(n)*101 + int64(v))
	d := chainkit.EmptyDiff()
	classes := map[felt.Felt]core.ClassDefinition{}
	if real == 0 {
		d.DeclaredV0Classes = append(d.DeclaredV0Classes, &classA, &classB)
		classes[classA] = classADef
		classes[classB] = classBDef
		d.DeployedContracts[contractAddr] = &classA
	}
	ch, cls := g.Cairo0Class()
	d.DeclaredV0Classes = append(d.DeclaredV0Classes, &ch)
	classes[ch] = cls
	if n%2 == 1 {
		sh, c1, _, scls := g.SierraClass()
		d.DeclaredV1Classes[sh] = &c1
		classes[sh] = scls
	}
	d.StorageDiffs[contractAddr] = map[felt.Felt]*felt.Felt{
		*chainkit.F(1):               chainkit.F(uint64(1000*(n+1) + v)),
		*chainkit.F(uint64(2 + n%2)): chainkit.F(uint64(7 + n + v)),
	}
	d.Nonces[contractAddr] = chainkit.F(uint64(10*(n+1) + v))
	if real > 0 && n%3 == 2 {
		if (n/3)%2 == 0 {
			d.ReplacedClasses[contractAddr] = &classB
		} else {
			d.ReplacedClasses[contractAddr] = &classA
		}
	}
	kinds := []string{chainkit.TxKinds[(n*3+v)%len(chainkit.TxKinds)]}
	if n%2 == 0 && kinds[0] != "l1handler" {
		kinds = append(kinds, "l1handler")
	}
	if bareID(off, n, v) {
		kinds = nil // a block without any transaction: no lookups, empty bloom, empty receipts
	}
	var txs []core.Transaction
	var rcs []*core.TransactionReceipt
	for i, k := range kinds {
		tx := g.Tx(k)
		txs = append(txs, tx)
		var evs []*core.Event
		if i == 0 {
			evs = []*core.Event{{From: &contractAddr, Keys: []felt.Felt{eventKey(n, v)}, Data: []felt.Felt{*chainkit.F(uint64(n))}}}
		}
		rcs = append(rcs, g.Receipt(tx, evs))
	}
	return chainkit.BlockSpec{
		Version: versions[n%len(versions)], Timestamp: 1_700_000_000 + real,
		Diff: d, Classes: classes, Txs: txs, Receipts: rcs,
	}
}

// fillerSpec is a plain block of the base chain below the scenario.
func fillerSpec(real uint64) chainkit.BlockSpec {
	fixedClasses()
	d := chainkit.EmptyDiff()
	classes := map[felt.Felt]core.ClassDefinition{}
	if real == 0 {
		d.DeclaredV0Classes = append(d.DeclaredV0Classes, &classA, &classB)
		classes[classA] = classADef
		classes[classB] = classBDef
		d.DeployedContracts[contractAddr] = &classA
	}
	if real%1024 == 1 {
		d.StorageDiffs[contractAddr] = map[felt.Felt]*felt.Felt{*chainkit.F(1): chainkit.F(5 + real)}
	}
	return chainkit.BlockSpec{Version: "0.13.2", Timestamp: 1_700_000_000 + real, Diff: d, Classes: classes}
}

// fastAppend stores spec as the next block through the real Finalise (one state computation
// instead of chainkit's Simulate + SanityCheckNewHeight + Store); used for base images only.
func fastAppend(n *chainkit.Node, spec chainkit.BlockSpec) error {
	parent := &felt.Zero
	var number uint64
	oldRoot := &felt.Zero
	if head, err := n.BC.HeadsHeader(); err == nil {
		parent, number, oldRoot = head.Hash, head.Number+1, head.GlobalStateRoot
	}
	g := func(a, b uint64) *core.GasPrice { return &core.GasPrice{PriceInWei: chainkit.F(a), PriceInFri: chainkit.F(b)} }
	block := &core.Block{
		Header: &core.Header{
			ParentHash: parent, Number: number, SequencerAddress: chainkit.F(0x5e9), Timestamp: spec.Timestamp,
			ProtocolVersion: spec.Version, EventsBloom: core.EventsBloom(nil), L1GasPriceETH: chainkit.F(10 + number),
			L1GasPriceSTRK: chainkit.F(20 + number), L1DataGasPrice: g(30+number, 40+number), L2GasPrice: g(50+number, 60+number),
		},
		Transactions: []core.Transaction{}, Receipts: []*core.TransactionReceipt{},
	}
	su := &core.StateUpdate{StateDiff: spec.Diff, OldRoot: oldRoot}
	return n.BC.Finalise(block, su, spec.Classes, nil)
}

// ------------------------------------------------------------------ base images

type baseImage struct {
	pruned *memory.Database // chain 0..off pruned up to off (block off = specification block (0,1)): small
	b0     *chainkit.Built  // the built specification block (0,1)
}

var (
	baseMu    sync.Mutex
	baseCache = map[string]*baseImage{}
)

const baseSeed = 7 // the base image does not depend on the behaviour's content seed

func loadMem(kvs []faultkv.KV) (*memory.Database, error) {
	m := memory.New()
	b := m.NewBatch()
	for _, kv := range kvs {
		if err := b.Put(kv.K, kv.V); err != nil {
			return nil, err
		}
	}
	return m, b.Write()
}

// getBase builds (or loads from the run's scratch directory) the base image for a scenario whose
// specification block 0 is real block off: off plain blocks, the block (0,1), pruned up to off.
func getBase(off uint64, newState bool) (*baseImage, error) {
	baseMu.Lock()
	defer baseMu.Unlock()
	name := fmt.Sprintf("crash-base-%d-%v.gob", off, newState)
	if b, ok := baseCache[name]; ok {
		return b, nil
	}
	img := &baseImage{}
	path := filepath.Join(vh.Scratch(), name)
	if f, err := os.Open(path); err == nil {
		var kvs []faultkv.KV
		err = gob.NewDecoder(f).Decode(&kvs)
		f.Close()
		if err == nil {
			if img.pruned, err = loadMem(kvs); err != nil {
				return nil, err
			}
		}
	}
	if img.pruned == nil {
		mem := memory.New()
		n := chainkit.NewNode(mem, newState)
		for r := uint64(0); r < off; r++ {
			if err := fastAppend(n, fillerSpec(r)); err != nil {
				return nil, fmt.Errorf("base filler %d: %w", r, err)
			}
		}
		if _, err := n.Append(blockSpec(baseSeed, off, 0, 1)); err != nil {
			return nil, fmt.Errorf("base block: %w", err)
		}
		if _, _, err := pruner.PruneUpto(context.Background(), mem, off, bigBatch); err != nil {
			return nil, fmt.Errorf("%w: PruneUpto(%d) of a freshly built chain: %v", errOnRealCode, off, err)
		}
		img.pruned = mem
		kvs, err := faultkv.Dump(mem)
		if err != nil {
			return nil, err
		}
		if f, err := os.Create(path + ".tmp"); err == nil {
			if gob.NewEncoder(f).Encode(kvs) == nil && f.Close() == nil {
				_ = os.Rename(path+".tmp", path)
			}
		}
	}
	// re-derive the built block (0,1) (the hash -> id bookkeeping needs it)
	tn := chainkit.NewNode(img.pruned.Copy(), newState, blockchain.WithRunningEventFilterInitializer(pruner.InitializeRunningEventFilter))
	if err := tn.BC.RevertHead(); err != nil {
		return nil, fmt.Errorf("base: revert to rebuild block 0: %w", err)
	}
	b0, err := tn.Build(blockSpec(baseSeed, off, 0, 1))
	if err != nil {
		return nil, err
	}
	img.b0 = b0
	baseCache[name] = img
	return img, nil
}

// ------------------------------------------------------------------ world

type world struct {
	c        consts
	off      uint64
	seed     int64
	newState bool
	backend  string // "memory" | "pebble"
	dir      string
	raw      db.KeyValueStore
	fk       *faultkv.Store
	node     *chainkit.Node
	floor    *pruner.RetentionFloor
	twin     *chainkit.Node
	built    map[bk]*chainkit.Built
	byHash   map[felt.Felt]bk
	ver      map[int]int
	plain    bool // archive-node wiring: default running-filter initialiser (no prune operations)
	// freshAfterFail: a block whose store failed is not offered again; the next attempt stores a
	// different block of that number (fault enumeration only; the replay follows the spec)
	freshAfterFail bool

	// shadow flags used only to classify a monitor failure (never to decide one)
	failedOps        []string // failed writes in the current process
	everFailed       []string // ... in the whole trial (a later graceful stop persists their damage)
	crashedOps       []string
	cacheWarm        bool
	crossedAfterWarm bool
	restarts         int
	retained         []kept
	idsMu            sync.Mutex // built / byHash / ver while a writer and readers run concurrently
}

func (w *world) real(n int) uint64 { return w.off + uint64(n) }
func (w *world) rel(r uint64) int  { return int(int64(r) - int64(w.off)) }

func newWorld(c consts, seed int64, newState bool, backend string, plain bool) (*world, error) {
	w := &world{c: c, off: c.off(), seed: seed, newState: newState, backend: backend, plain: plain,
		built: map[bk]*chainkit.Built{}, byHash: map[felt.Felt]bk{}, ver: map[int]int{}}
	for n := 0; n <= c.MaxH+1; n++ {
		w.ver[n] = 1
	}
	var twinDB db.KeyValueStore = memory.New()
	switch {
	case w.off == 0:
		if backend == "pebble" {
			dir, err := os.MkdirTemp(vh.Scratch(), "crash-pebble-")
			if err != nil {
				return nil, err
			}
			w.dir = dir
			p, err := pebblev2.New(dir)
			if err != nil {
				return nil, err
			}
			w.raw = p
		} else {
			w.raw = memory.New()
		}
	default:
		if backend == "pebble" {
			return nil, errors.New("boundary scenarios run on the memory backend only")
		}
		img, err := getBase(w.off, newState)
		if err != nil {
			return nil, err
		}
		if plain {
			return nil, errors.New("archive-node wiring runs from an empty database only")
		}
		// the twin never prunes further; starting it from the pruned image too keeps both
		// databases small (the legacy state readers copy the whole memory database per iterator)
		w.raw = img.pruned.Copy()
		twinDB = img.pruned.Copy()
		w.note(bk{0, 1}, img.b0)
		w.ver[0] = 2
	}
	w.twin = chainkit.NewNode(twinDB, newState, blockchain.WithRunningEventFilterInitializer(pruner.InitializeRunningEventFilter))
	if err := w.boot(); err != nil {
		return nil, err
	}
	first := 0
	if w.off > 0 {
		first = 1
	}
	for n := first; n <= c.InitH; n++ {
		if r := w.store(faultkv.Off, 0); r.kind != "ok" {
			return nil, fmt.Errorf("initial chain block %d: %s %v", n, r.kind, r.err)
		}
	}
	return w, nil
}

func (w *world) close() {
	if w.dir != "" {
		if c, ok := w.raw.(interface{ Close() error }); ok {
			_ = c.Close()
		}
		_ = os.RemoveAll(w.dir)
	}
}

func (w *world) note(id bk, b *chainkit.Built) {
	w.idsMu.Lock()
	defer w.idsMu.Unlock()
	w.built[id] = b
	w.byHash[*b.Block.Hash] = id
}

// idOf is the lookup the concurrent readers use while the writer registers new blocks.
func (w *world) idOf(h *felt.Felt) (bk, bool) {
	w.idsMu.Lock()
	defer w.idsMu.Unlock()
	id, ok := w.byHash[*h]
	return id, ok
}

// eventFound: does the event index return the event of block id when asked up to height `to`?
func (w *world) eventFound(bc *blockchain.Blockchain, id bk, to uint64) bool {
	f, err := bc.EventFilter(nil, [][]felt.Felt{{eventKey(id.N, id.V)}}, noPreConfirmed)
	if err != nil {
		return false
	}
	defer f.Close()
	from, _ := pruner.OldestRetainedBlock(w.raw)
	_ = f.SetRangeEndBlockByNumber(blockchain.EventFilterFrom, from)
	_ = f.SetRangeEndBlockByNumber(blockchain.EventFilterTo, to)
	evs, _, err := f.Events(nil, 100000)
	return err == nil && len(evs) == 1 && evs[0].BlockNumber == w.real(id.N)
}

// boot = process start: new fault wrapper on the surviving store, floor seeded from the database,
// a new Blockchain (its running event filter initialises lazily from the database).
func (w *world) boot() error {
	w.fk = faultkv.Wrap(poisonStore{w.raw})
	floor, err := pruner.NewRetentionFloor(w.fk)
	if err != nil {
		return err
	}
	w.floor = floor
	opts := []blockchain.Option{blockchain.WithRetentionFloor(floor)}
	if !w.plain {
		opts = append(opts, blockchain.WithRunningEventFilterInitializer(pruner.InitializeRunningEventFilter))
	}
	w.node = chainkit.NewNode(w.fk, w.newState, opts...)
	w.cacheWarm, w.crossedAfterWarm = false, false
	w.failedOps = nil
	return nil
}

type opResult struct {
	kind   string // ok | failed | crashed | error | noop
	fired  bool   // the armed fault was reached
	muts   int
	err    error
	perMut []post
}

func (r opResult) String() string { return fmt.Sprintf("%s(muts=%d, err=%v)", r.kind, r.muts, r.err) }

func (w *world) faulted(name string, mode faultkv.Mode, k int, fn func() error) opResult {
	w.fk.Arm(mode, k, nil)
	err := fn()
	r := opResult{muts: w.fk.Count(), err: err, fired: w.fk.Fired()}
	dead := w.fk.Dead()
	w.fk.Disarm()
	switch {
	case dead:
		r.kind = "crashed"
		w.crashedOps = append(w.crashedOps, name)
	case errors.Is(err, faultkv.ErrInjected):
		r.kind = "failed"
		w.failedOps = append(w.failedOps, name)
		w.everFailed = append(w.everFailed, name)
	case err != nil:
		r.kind = "error"
	default:
		r.kind = "ok"
	}
	return r
}

// twinHeight is the height of the expected chain in specification numbers (-1 = empty).
func (w *world) twinHeight() int {
	h, err := w.twin.BC.Height()
	if err != nil {
		return -1
	}
	return w.rel(h)
}

func (w *world) rawHeight() (int, bool) {
	h, err := core.GetChainHeight(w.raw)
	if err != nil {
		return 0, false
	}
	return w.rel(h), true
}

// nextBlock returns the block that extends the twin's (= the expected) chain: id (n, ver[n]).
func (w *world) nextBlock() (bk, *chainkit.Built, error) {
	n := w.twinHeight() + 1
	parent := &felt.Zero
	if hd, err := w.twin.BC.HeadsHeader(); err == nil {
		parent = hd.Hash
	}
	id := bk{n, w.ver[n]}
	if b, ok := w.built[id]; ok {
		if b.Block.ParentHash.Equal(parent) {
			return id, b, nil
		}
		// built earlier on another parent and never committed (a committed id is never offered
		// again: ver[n] moves on): the id keeps its number and version, as in the specification
		w.idsMu.Lock()
		delete(w.byHash, *b.Block.Hash)
		w.idsMu.Unlock()
	}
	b, err := w.twin.Build(blockSpec(w.seed, w.off, id.N, id.V))
	if err != nil {
		return id, nil, fmt.Errorf("twin build %v: %w", id, err)
	}
	w.note(id, b)
	return id, b, nil
}

// store builds the next block on the twin and stores it on the node under the given fault; the
// twin follows iff the block was committed on the node.
func (w *world) store(mode faultkv.Mode, k int) opResult {
	id, b, err := w.nextBlock()
	if err != nil {
		return opResult{kind: "error", err: err}
	}
	n := id.N
	r := w.faulted("store", mode, k, func() error { return w.node.StoreBuilt(b) })
	if h, ok := w.rawHeight(); ok && h == n && w.twinHeight() == n-1 {
		if err := w.twin.StoreBuilt(b); err != nil {
			r.err = fmt.Errorf("twin store: %w (node: %v)", err, r.err)
			r.kind = "error"
			return r
		}
		w.ver[n]++
	} else if w.freshAfterFail && r.kind == "failed" {
		w.ver[n]++
	}
	return r
}

func (w *world) revert(mode faultkv.Mode, k int) opResult {
	pre := w.twinHeight()
	persisted := w.hasWindow0()
	r := w.faulted("revert", mode, k, func() error { return w.node.BC.RevertHead() })
	h, ok := w.rawHeight()
	if (ok && h == pre-1) || (!ok && pre == 0 && w.off == 0) {
		if err := w.twin.BC.RevertHead(); err != nil {
			r.err = fmt.Errorf("twin revert: %w (node: %v)", err, r.err)
			r.kind = "error"
			return r
		}
		if w.cacheWarm && persisted && w.real(pre) == core.NumBlocksPerFilter-1 {
			w.crossedAfterWarm = true
		}
	}
	return r
}

func (w *world) setL1(n int, mode faultkv.Mode, k int) opResult {
	head := &core.L1Head{BlockNumber: w.real(n), BlockHash: chainkit.F(uint64(7000 + n)), StateRoot: chainkit.F(uint64(8000 + n))}
	return w.faulted("setl1", mode, k, func() error { return w.node.BC.SetL1Head(head) })
}

func (w *world) snapshot(mode faultkv.Mode, k int) opResult {
	return w.faulted("snapshot", mode, k, func() error { return w.node.BC.WriteRunningEventFilter() })
}

func (w *world) restart() error {
	w.restarts++
	return w.boot()
}

func (w *world) hasWindow0() bool {
	ok, _ := w.raw.Has(db.AggregatedBloomFilterKey(0, core.NumBlocksPerFilter-1))
	return ok
}

// ------------------------------------------------------------------ poisoning store
// poisonStore hands every Get callback a private copy of the value and scribbles over it when the
// callback returns: a reader that keeps (part of) the lent buffer instead of copying it ends up
// with garbage, which the comparison with the twin then sees.
type poisonStore struct{ db.KeyValueStore }

func (p poisonStore) Get(k []byte, cb func([]byte) error) error {
	return p.KeyValueStore.Get(k, func(v []byte) error {
		c := append([]byte(nil), v...)
		err := cb(c)
		for i := range c {
			c[i] = 0xA5
		}
		return err
	})
}

// ------------------------------------------------------------------ retained results
// Values handed out by the readers must not change afterwards (pooled objects, shared maps,
// aliased buffers): each is kept with its encoding taken at return time and re-encoded later.
type kept struct {
	what string
	val  any
	enc  string
}

func encOf(v any) string {
	if b, err := encoder.Marshal(v); err == nil {
		return string(b)
	}
	return fmt.Sprintf("%#v", v)
}

func (w *world) keep(what string, v any, err error) {
	if err == nil && v != nil && len(w.retained) < 80 {
		w.retained = append(w.retained, kept{what, v, encOf(v)})
	}
}

func (w *world) retain(bc *blockchain.Blockchain) {
	h, err := bc.Height()
	if err != nil {
		return
	}
	hd, e1 := bc.BlockHeaderByNumber(h)
	w.keep(fmt.Sprintf("header(%d)", h), hd, e1)
	su, e2 := bc.StateUpdateByNumber(h)
	w.keep(fmt.Sprintf("state-update(%d)", h), su, e2)
	txs, rcs, e3 := bc.TransactionsAndReceiptsByBlockNumber(h)
	for i := range txs {
		w.keep(fmt.Sprintf("tx(%d,%d)", h, i), txs[i], e3)
		w.keep(fmt.Sprintf("receipt(%d,%d)", h, i), rcs[i], e3)
	}
	cm, e4 := bc.BlockCommitmentsByNumber(h)
	w.keep(fmt.Sprintf("commitments(%d)", h), cm, e4)
}

func (w *world) checkRetained(add adder) {
	for _, k := range w.retained {
		if encOf(k.val) != k.enc {
			add("aliasing:"+strings.SplitN(k.what, "(", 2)[0], fmt.Sprintf("%s returned earlier changed after later calls", k.what), nil)
		}
	}
}

// ------------------------------------------------------------------ pruner service

type svc struct {
	p        *pruner.Pruner
	cancel   context.CancelFunc
	done     chan struct{}
	l1Feed   *feed.Feed[*core.L1Head]
	headFeed *feed.Feed[*core.Block]
	l1Sub    *feed.Subscription[*core.L1Head]
	headSub  *feed.Subscription[*core.Block]

	mu      sync.Mutex
	pruned  []uint64 // blocksPruned per OnPrune
	errs    []error
	barrier bool
}

func startSvc(store db.KeyValueStore, floor *pruner.RetentionFloor, retained uint64, batchBytes int) *svc {
	s := &svc{done: make(chan struct{}), l1Feed: feed.New[*core.L1Head](), headFeed: feed.New[*core.Block]()}
	s.l1Sub = s.l1Feed.Subscribe()
	s.headSub = s.headFeed.Subscribe()
	lst := &pruner.SelectiveListener{
		OnPruneCb: func(_ uint64, n uint64, _ time.Duration) {
			s.mu.Lock()
			s.pruned = append(s.pruned, n)
			s.mu.Unlock()
		},
		OnPruneErrorCb: func(err error) {
			s.mu.Lock()
			if !s.barrier {
				s.errs = append(s.errs, err)
			}
			s.mu.Unlock()
		},
	}
	s.p = pruner.New(store, floor, retained, s.headSub, s.l1Sub, log.NewNopZapLogger(),
		pruner.WithTargetBatchByteSize(batchBytes), pruner.WithListener(lst), pruner.WithL2HeadsPerPrune(1))
	ctx, cancel := context.WithCancel(context.Background())
	s.cancel = cancel
	go func() {
		defer close(s.done)
		_ = s.p.Run(ctx)
	}()
	return s
}

func waitEmpty[T any](ch <-chan T) error {
	deadline := time.Now().Add(120 * time.Second)
	for len(ch) > 0 {
		if time.Now().After(deadline) {
			return errTimeout
		}
		runtime.Gosched()
		time.Sleep(20 * time.Microsecond)
	}
	return nil
}

// deliverL1 hands one L1-head event to the running service and returns once its handler has
// returned: a no-op head event (number MaxUint64 fails the L2 guard) sent afterwards can only be
// taken from the subscription after the previous handler returned (the service loop is one
// goroutine), and a second one proves the first barrier's handler returned too.
func (s *svc) deliverL1(h *core.L1Head) error {
	s.l1Feed.Send(h)
	if err := waitEmpty(s.l1Sub.Recv()); err != nil {
		return err
	}
	for i := 0; i < 2; i++ {
		s.headFeed.Send(&core.Block{Header: &core.Header{Number: math.MaxUint64}})
		if err := waitEmpty(s.headSub.Recv()); err != nil {
			return err
		}
		s.mu.Lock()
		s.barrier = true
		s.mu.Unlock()
	}
	return nil
}

func (s *svc) stop() error {
	s.cancel()
	select {
	case <-s.done:
		return nil
	case <-time.After(120 * time.Second):
		return errTimeout
	}
}

// prune runs one prune of the real service: L1-head event for block `end`, Retained = 0, one
// hash-keyed batch per block when batchBytes = 1.  onMut is called after every durable mutation.
func (w *world) prune(end int, batchBytes int, mode faultkv.Mode, k int, onMut func(i int)) opResult {
	s := startSvc(w.fk, w.floor, 0, batchBytes)
	if onMut != nil {
		w.fk.OnWrite = func(n int, _ string) { onMut(n) }
	}
	var derr error
	r := w.faulted("prune", mode, k, func() error {
		derr = s.deliverL1(&core.L1Head{BlockNumber: w.real(end), BlockHash: chainkit.F(1), StateRoot: chainkit.F(2)})
		if e := s.stop(); e != nil {
			derr = e
		}
		s.mu.Lock()
		defer s.mu.Unlock()
		if len(s.errs) > 0 {
			return s.errs[0]
		}
		return nil
	})
	w.fk.OnWrite = nil
	if derr != nil {
		return opResult{kind: "error", err: derr}
	}
	s.mu.Lock()
	defer s.mu.Unlock()
	if r.kind == "ok" {
		if len(s.pruned) != 1 {
			r.kind, r.err = "error", fmt.Errorf("pruner service reported %d prunes for one L1 event", len(s.pruned))
		} else if s.pruned[0] == 0 {
			r.kind = "noop"
		}
	}
	return r
}

// ------------------------------------------------------------------ projection (spec <-> code)

type post struct {
	Height   int     `json:"height"`
	Hdr      [][]int `json:"hdr"`
	Com      [][]int `json:"com"`
	Su       [][]int `json:"su"`
	Txs      [][]int `json:"txs"`
	H2n      [][]int `json:"h2n"`
	Txl      [][]int `json:"txl"`
	Hist     [][]int `json:"hist"`
	Win      bool    `json:"win"`
	Snap     bool    `json:"snap"`
	SnapNext int     `json:"snapNext"`
	L1       int     `json:"l1"`
	Oldest   int     `json:"oldest"`
	Floor    int     `json:"floor"`
	Qok      bool    `json:"qok"`
	Found    [][]int `json:"found"`
}

func (w *world) idsAt(n int) []bk {
	var out []bk
	for v := 1; v < w.ver[n]+2; v++ {
		if _, ok := w.built[bk{n, v}]; ok {
			out = append(out, bk{n, v})
		}
	}
	return out
}

// project reads the durable state straight from the surviving store (works after a crash) and
// expresses it in the specification's terms: which block id each family holds per number.
// Version 0 = a row is present that belongs to no built block; negative = partially present.
func (w *world) project() post {
	r := w.raw
	p := post{Height: -1, L1: -1, Hdr: [][]int{}, Com: [][]int{}, Su: [][]int{}, Txs: [][]int{}, H2n: [][]int{}, Txl: [][]int{}, Hist: [][]int{}, Found: [][]int{}}
	if h, err := core.GetChainHeight(r); err == nil {
		p.Height = w.rel(h)
	}
	if l1, err := core.GetL1Head(r); err == nil {
		p.L1 = w.rel(l1.BlockNumber)
	}
	p.Win = w.hasWindow0()
	if s, err := core.GetRunningEventFilter(r); err == nil {
		p.Snap = true
		if nx, err := s.NextBlock(); err == nil {
			p.SnapNext = w.rel(nx)
		}
	}
	if o, err := pruner.OldestRetainedBlock(r); err == nil && o >= w.off {
		p.Oldest = w.rel(o)
	}
	for n := 0; n <= w.c.MaxH; n++ {
		real := w.real(n)
		if hd, err := core.GetBlockHeaderByNumber(r, real); err == nil {
			p.Hdr = append(p.Hdr, []int{n, w.byHash[*hd.Hash].V})
		}
		if cm, err := core.GetBlockCommitmentByBlockNum(r, real); err == nil {
			v := 0
			for _, id := range w.idsAt(n) {
				if reflect.DeepEqual(cm, w.built[id].Commitments) {
					v = id.V
					break
				}
			}
			p.Com = append(p.Com, []int{n, v})
		}
		if su, err := core.GetStateUpdateByBlockNum(r, real); err == nil {
			p.Su = append(p.Su, []int{n, w.byHash[*su.BlockHash].V})
		}
		if hs, err := core.GetTransactionHashesByBlockNumber(r, real); err == nil {
			v := 0
			for _, id := range w.idsAt(n) {
				txs := w.built[id].Block.Transactions
				if len(txs) == len(hs) && (len(hs) == 0 || txs[0].Hash().Equal(&hs[0])) {
					v = id.V
					break
				}
			}
			p.Txs = append(p.Txs, []int{n, v})
		}
		histPresent := false
		if !w.newState {
			ok, _ := r.Has(db.DeprecatedContractStorageHistoryAtBlockKey(&contractAddr, chainkit.F(1), real))
			ok2, _ := r.Has(db.DeprecatedContractNonceHistoryAtBlockKey(&contractAddr, real))
			histPresent = ok || ok2
			if ok != ok2 {
				p.Hist = append(p.Hist, []int{n, -1})
				histPresent = false
			}
		}
		for _, id := range w.idsAt(n) {
			b := w.built[id]
			if num, err := core.GetBlockHeaderNumberByHash(r, b.Block.Hash); err == nil {
				if num == real {
					p.H2n = append(p.H2n, []int{n, id.V})
				} else {
					p.H2n = append(p.H2n, []int{n, -id.V})
				}
			}
			have := 0
			for i, tx := range b.Block.Transactions {
				bi, err := core.TransactionBlockNumbersAndIndicesByHashBucket.Get(r, (*felt.TransactionHash)(tx.Hash()))
				if err == nil && bi.Number == real && bi.Index == uint64(i) {
					have++
				}
			}
			switch {
			case len(b.Block.Transactions) == 0:
				// no lookup rows exist for a block without transactions: the family follows the body row
				if k := len(p.Txs); k > 0 && p.Txs[k-1][0] == n && p.Txs[k-1][1] == id.V {
					p.Txl = append(p.Txl, []int{n, id.V})
				}
			case have == len(b.Block.Transactions):
				p.Txl = append(p.Txl, []int{n, id.V})
			case have > 0:
				p.Txl = append(p.Txl, []int{n, -id.V})
			}
		}
		if histPresent {
			// history rows are keyed by number only: attribute them to the block the state was built from
			v := 0
			if hd, err := w.twin.BC.BlockHeaderByNumber(real); err == nil {
				v = w.byHash[*hd.Hash].V
			}
			p.Hist = append(p.Hist, []int{n, v})
		}
	}
	return p
}

// memFloor observes the shared in-memory retention floor through the reader it guards.
func (w *world) memFloor() int {
	h, err := w.node.BC.Height()
	if err != nil {
		return 0
	}
	lo := uint64(0)
	if w.off > 2 {
		lo = w.off - 2
	}
	for n := lo; n <= h; n++ {
		_, closer, err := w.node.BC.StateAtBlockNumber(n)
		if err == nil {
			_ = closer()
			if n < w.off {
				return 0
			}
			return w.rel(n)
		}
	}
	return w.rel(h) + 1
}

// query runs one event query PER block id ever built (one key each: several keys in one query
// would let the stale bloom bits of a replaced block make its successor a candidate) over
// [oldest retained, height] and returns the ids whose event was returned.
func (w *world) query(bc *blockchain.Blockchain, store db.KeyValueReader) ([]bk, error) {
	h, err := bc.Height()
	if err != nil {
		return nil, err
	}
	from, err := pruner.OldestRetainedBlock(store)
	if err != nil {
		return nil, err
	}
	var ids []bk
	for id := range w.built {
		ids = append(ids, id)
	}
	sort.Slice(ids, func(i, j int) bool { return ids[i].N < ids[j].N || (ids[i].N == ids[j].N && ids[i].V < ids[j].V) })
	var out []bk
	for _, id := range ids {
		f, err := bc.EventFilter(nil, [][]felt.Felt{{eventKey(id.N, id.V)}}, noPreConfirmed)
		if err != nil {
			return nil, err
		}
		if err := f.SetRangeEndBlockByNumber(blockchain.EventFilterFrom, from); err != nil {
			return nil, err
		}
		if err := f.SetRangeEndBlockByNumber(blockchain.EventFilterTo, h); err != nil {
			return nil, err
		}
		evs, tok, err := f.Events(nil, 100000)
		_ = f.Close()
		if err != nil {
			return nil, err
		}
		if !tok.IsEmpty() {
			return nil, errors.New("unexpected continuation token")
		}
		for _, e := range evs {
			if w.rel(e.BlockNumber) == id.N {
				out = append(out, id)
			} else {
				out = append(out, bk{id.N, -id.V}) // an event reported under the wrong block
			}
		}
	}
	return out, nil
}

func pairs(ids []bk) [][]int {
	out := [][]int{}
	for _, id := range ids {
		out = append(out, []int{id.N, id.V})
	}
	return out
}

// ------------------------------------------------------------------ monitors on the real node

type violation struct {
	sym    string // symptom class (part of the key)
	detail string
	err    error
}

func cloneToMemory(store db.KeyValueStore) (*memory.Database, error) {
	if m, ok := store.(*memory.Database); ok {
		return m.Copy(), nil
	}
	kvs, err := faultkv.Dump(store)
	if err != nil {
		return nil, err
	}
	return loadMem(kvs)
}

func errClass(err error) string {
	switch {
	case err == nil:
		return "ok"
	case errors.Is(err, db.ErrKeyNotFound):
		return "notfound"
	case errors.Is(err, pruner.ErrBlockPruned):
		return "pruned"
	default:
		return "error"
	}
}

func errOrVal(err error) string {
	if err != nil {
		return "err(" + err.Error() + ")"
	}
	return "value"
}

type adder func(sym, detail string, err error)

// sweepBlock compares every reader of block `real` on bc with the twin.
func (w *world) sweepBlock(bc *blockchain.Blockchain, store db.KeyValueReader, real uint64, add adder) {
	tw := w.twin.BC
	cmp := func(fam string, a, b any, ea, eb error) {
		if errClass(ea) != errClass(eb) || (ea == nil && !reflect.DeepEqual(a, b)) {
			add("read:"+fam, fmt.Sprintf("block %d: node=%v twin=%v", real, errOrVal(ea), errOrVal(eb)), ea)
		}
	}
	th, terr := tw.BlockHeaderByNumber(real)
	nh, nerr := bc.BlockHeaderByNumber(real)
	cmp("header", nh, th, nerr, terr)
	if terr != nil {
		return
	}
	hh, e1 := bc.BlockHeaderByHash(th.Hash)
	cmp("header-by-hash", hh, th, e1, nil)
	num, e2 := bc.BlockNumberByHash(th.Hash)
	cmp("number-by-hash", num, real, e2, nil)
	hs, e3 := bc.BlockHeaderHashByNumber(real)
	cmp("hash-by-number", hs, th.Hash, e3, nil)
	tb, _ := tw.BlockByNumber(real)
	nb, e4 := bc.BlockByNumber(real)
	cmp("block", nb, tb, e4, nil)
	nbh, e5 := bc.BlockByHash(th.Hash)
	cmp("block-by-hash", nbh, tb, e5, nil)
	tsu, _ := tw.StateUpdateByNumber(real)
	nsu, e6 := bc.StateUpdateByNumber(real)
	cmp("state-update", nsu, tsu, e6, nil)
	nsu2, e7 := bc.StateUpdateByHash(th.Hash)
	cmp("state-update-by-hash", nsu2, tsu, e7, nil)
	tc, _ := tw.BlockCommitmentsByNumber(real)
	nc, e8 := bc.BlockCommitmentsByNumber(real)
	cmp("commitments", nc, tc, e8, nil)
	cnt, e9 := bc.BlockTransactionCountByNumber(real)
	cmp("tx-count", cnt, th.TransactionCount, e9, nil)
	ths, _ := tw.TransactionHashesByBlockNumber(real)
	nhs, e10 := bc.TransactionHashesByBlockNumber(real)
	cmp("tx-hashes", nhs, ths, e10, nil)
	if tb == nil || tsu == nil {
		return
	}
	for i, tx := range tb.Transactions {
		ntx, e := bc.TransactionByHash(tx.Hash())
		cmp("tx-by-hash", ntx, tx, e, nil)
		bn, ix, e := bc.BlockNumberAndIndexByTxHash((*felt.TransactionHash)(tx.Hash()))
		cmp("tx-lookup", []uint64{bn, ix}, []uint64{real, uint64(i)}, e, nil)
		ntx2, e := bc.TransactionByBlockNumberAndIndex(real, uint64(i))
		cmp("tx-by-index", ntx2, tx, e, nil)
		rc, bh, rn, e := bc.Receipt(tx.Hash())
		if e != nil || !reflect.DeepEqual(rc, tb.Receipts[i]) || !bh.Equal(th.Hash) || rn != real {
			add("read:receipt", fmt.Sprintf("block %d tx %d: err=%v", real, i, e), e)
		}
		if l1, ok := tx.(*core.L1HandlerTransaction); ok {
			got, e := core.GetL1HandlerTxnHashByMsgHash(store, l1.MessageHash())
			cmp("l1-msg-lookup", got, *tx.Hash(), e, nil)
		}
	}
	// classes declared by this block must be readable from the head state
	if st, closer, err := bc.HeadState(); err == nil {
		for _, ch := range tsu.StateDiff.DeclaredV0Classes {
			if _, err := st.Class(ch); err != nil {
				add("read:class", fmt.Sprintf("block %d cairo0 class: %v", real, err), err)
			}
		}
		for ch := range tsu.StateDiff.DeclaredV1Classes {
			if _, err := st.Class(&ch); err != nil {
				add("read:class", fmt.Sprintf("block %d sierra class: %v", real, err), err)
			}
		}
		_ = closer()
	}
}

var numberKeyed = []struct {
	b    db.Bucket
	name string
}{
	{db.BlockHeadersByNumber, "headers"}, {db.BlockCommitments, "commitments"},
	{db.StateUpdatesByBlockNumber, "state-updates"}, {db.BlockTransactions, "transactions"},
}

// rowsAbove reports number-keyed rows of blocks above `height` (all rows when none is true).
func rowsAbove(store db.KeyValueReader, height uint64, none bool, add adder) {
	for _, nk := range numberKeyed {
		it, err := store.NewIterator([]byte{byte(nk.b)}, true)
		if err != nil {
			add("dump", err.Error(), err)
			return
		}
		var from [9]byte
		from[0] = byte(nk.b)
		ok := it.First()
		if !none {
			if height == math.MaxUint64 {
				it.Close()
				continue
			}
			binary.BigEndian.PutUint64(from[1:], height+1)
			ok = it.Seek(from[:])
		}
		if ok && len(it.Key()) >= 9 && it.Key()[0] == byte(nk.b) {
			add("above:"+nk.name, fmt.Sprintf("row of block %d above the height", binary.BigEndian.Uint64(it.Key()[1:9])), nil)
		}
		it.Close()
	}
}

// evaluate runs every monitor on bc (a Blockchain over `store`, read directly).  It never
// writes (apart from what the node itself does when its running filter initialises lazily).
func (w *world) evaluate(bc *blockchain.Blockchain, store db.KeyValueStore) []violation {
	var out []violation
	add := func(sym, detail string, err error) {
		for _, v := range out {
			if v.sym == sym {
				return
			}
		}
		out = append(out, violation{sym, detail, err})
	}
	th, terr := w.twin.BC.Height()
	nh, nerr := bc.Height()
	if errClass(terr) != errClass(nerr) || (terr == nil && th != nh) {
		add("height", fmt.Sprintf("node height %d (%v), expected %d (%v)", nh, nerr, th, terr), nerr)
		return out
	}
	// nothing above the height; no rows of block ids that are not on the chain
	rowsAbove(store, th, terr != nil, add)
	for id, b := range w.built {
		onChain := false
		if terr == nil && w.real(id.N) <= th {
			if h, err := w.twin.BC.BlockHeaderHashByNumber(w.real(id.N)); err == nil && h.Equal(b.Block.Hash) {
				onChain = true
			}
		}
		if onChain {
			continue
		}
		if _, err := core.GetBlockHeaderNumberByHash(store, b.Block.Hash); err == nil {
			add("stale:number-by-hash", fmt.Sprintf("block id %v is not on the chain but its hash resolves", id), nil)
		}
		for _, tx := range b.Block.Transactions {
			if _, err := core.TransactionBlockNumbersAndIndicesByHashBucket.Get(store, (*felt.TransactionHash)(tx.Hash())); err == nil {
				add("stale:tx-lookup", fmt.Sprintf("block id %v is not on the chain but its transaction resolves", id), nil)
			}
			if l1, ok := tx.(*core.L1HandlerTransaction); ok {
				if _, err := core.GetL1HandlerTxnHashByMsgHash(store, l1.MessageHash()); err == nil {
					add("stale:l1-msg-lookup", fmt.Sprintf("block id %v", id), nil)
				}
			}
		}
		for _, ch := range b.Update.StateDiff.DeclaredV0Classes {
			if *ch == classA || *ch == classB {
				continue
			}
			if ok, _ := core.HasClass(store, ch); ok {
				add("stale:class", fmt.Sprintf("class of block id %v", id), nil)
			}
		}
	}
	if terr != nil {
		return out // empty chain
	}
	oldest, err := pruner.OldestRetainedBlock(store)
	if err != nil {
		add("oldest", err.Error(), err)
		return out
	}
	if oldest < w.off {
		add("oldest", fmt.Sprintf("oldest retained %d below the base %d", oldest, w.off), nil)
		oldest = w.off
	}
	for n := oldest; n <= th; n++ {
		w.sweepBlock(bc, store, n, add)
	}
	// whole-database equality with the twin (same backend kind, same chain) when nothing was pruned
	if w.off == 0 && oldest == 0 {
		kvs, _ := faultkv.Dump(store)
		tk, _ := faultkv.Dump(w.twin.Store)
		ign := map[byte]bool{byte(db.AggregatedBloomFilters): true, byte(db.RunningEventFilter): true, byte(db.L1Height): true}
		if d := faultkv.Diff(kvs, tk, ign, 4); len(d) > 0 {
			add("dbdiff", fmt.Sprint(d), nil)
		}
	}
	// head state: tries re-hashed against the header root; values against the twin
	hd, _ := w.twin.BC.HeadsHeader()
	if st, closer, err := bc.HeadState(); err != nil {
		add("head-state", err.Error(), err)
	} else {
		ct, e1 := st.ContractTrie()
		cl, e2 := st.ClassTrie()
		if e1 != nil || e2 != nil {
			add("state-root", fmt.Sprint(e1, e2), e1)
		} else {
			cr, e1 := ct.Hash()
			clr, e2 := cl.Hash()
			root := refimpl.StateCommitment(&cr, &clr, hd.ProtocolVersion >= "0.14.0")
			nhd, e3 := bc.HeadsHeader()
			if e1 != nil || e2 != nil || e3 != nil || !root.Equal(nhd.GlobalStateRoot) || !root.Equal(hd.GlobalStateRoot) {
				add("state-root", fmt.Sprintf("tries hash to %s, header root %s", root.String(), hd.GlobalStateRoot.String()), nil)
			}
		}
		tst, tcl, _ := w.twin.BC.HeadState()
		w.cmpState("head-state", st, tst, add)
		_ = tcl()
		_ = closer()
	}
	// historical state: whatever the process serves (from one below the oldest retained block)
	// must be what the unpruned twin answers; a refusal (not found) is not a wrong answer
	lo := oldest
	if lo > 0 {
		lo--
	}
	for n := lo; n <= th; n++ {
		st, closer, err := bc.StateAtBlockNumber(n)
		if err != nil {
			if !errors.Is(err, db.ErrKeyNotFound) {
				add("hist-state", fmt.Sprintf("state at %d: %v", n, err), err)
			}
			continue
		}
		tst, tcl, terr2 := w.twin.BC.StateAtBlockNumber(n)
		if terr2 == nil {
			w.cmpState("hist-state", st, tst, add)
			_ = tcl()
		}
		_ = closer()
	}
	w.evalEvents(bc, store, oldest, th, add)
	if bc == w.node.BC {
		w.checkRetained(add)
		w.retain(bc)
	}
	return out
}

// evalEvents: the event index against a naive scan of the stored receipts (one filtered query per
// block id ever built; oldest..th = the retained range of the expected chain).
func (w *world) evalEvents(bc *blockchain.Blockchain, store db.KeyValueStore, oldest, th uint64, add adder) {
	found, qerr := w.query(bc, store)
	if qerr != nil {
		add("events:error", qerr.Error(), qerr)
		return
	}
	var want []bk
	for n := oldest; n <= th; n++ {
		h, _ := w.twin.BC.BlockHeaderHashByNumber(n)
		if id := w.byHash[*h]; !bareID(w.off, id.N, id.V) {
			want = append(want, id)
		}
	}
	have := map[bk]bool{}
	for _, id := range found {
		have[id] = true
	}
	for _, id := range want {
		if !have[id] {
			add("events:false-negative", fmt.Sprintf("event of block id %v not returned; got %v want %v", id, found, want), nil)
		}
		delete(have, id)
	}
	if len(have) > 0 {
		add("events:extra", fmt.Sprintf("got %v want %v", found, want), nil)
	}
}

func (w *world) cmpState(sym string, a, b core.StateReader, add adder) {
	slots := []uint64{1, 2, 3}
	if sym == "hist-state" {
		slots = []uint64{1} // every history read copies the memory database
	}
	for _, slot := range slots {
		va, ea := a.ContractStorage(&contractAddr, chainkit.F(slot))
		vb, eb := b.ContractStorage(&contractAddr, chainkit.F(slot))
		if errClass(ea) != errClass(eb) || !va.Equal(&vb) {
			add(sym, fmt.Sprintf("storage slot %d: node %s (%v), twin %s (%v)", slot, va.String(), ea, vb.String(), eb), ea)
		}
	}
	na, ea := a.ContractNonce(&contractAddr)
	nb, eb := b.ContractNonce(&contractAddr)
	if errClass(ea) != errClass(eb) || !na.Equal(&nb) {
		add(sym, fmt.Sprintf("nonce: node %s (%v), twin %s (%v)", na.String(), ea, nb.String(), eb), ea)
	}
	ca, ea := a.ContractClassHash(&contractAddr)
	cb, eb := b.ContractClassHash(&contractAddr)
	if errClass(ea) != errClass(eb) || !ca.Equal(&cb) {
		add(sym, fmt.Sprintf("class hash: node %s (%v), twin %s (%v)", ca.String(), ea, cb.String(), eb), ea)
	}
}

// nextStore: the next block (built by the twin) must store on the live node; unless keep, it is
// reverted again so that the world continues from the same state.
func (w *world) nextStore(keep bool) *violation {
	if w.twinHeight()+1 > w.c.MaxH+1 {
		return nil
	}
	r := w.store(faultkv.Off, 0)
	if r.kind != "ok" {
		return &violation{"next-store", fmt.Sprintf("storing the next block fails: %v", r.err), r.err}
	}
	if keep {
		return nil
	}
	if r := w.revert(faultkv.Off, 0); r.kind != "ok" {
		return &violation{"next-store-revert", fmt.Sprintf("reverting the just stored next block fails: %v", r.err), r.err}
	}
	return nil
}

var _ = bytes.Equal

package crash

import (
	"os"
	"testing"

	"verifharness/internal/faultkv"
)

func TestDbg(t *testing.T) {
	if os.Getenv("VX") == "" {
		t.Skip()
	}
	gen := consts{MaxH: 5, MaxVer: 3, InitH: 2, Boundary: 99, Genesis: true}
	w, err := newWorld(gen, 1, false, "memory", false)
	if err != nil {
		t.Fatal(err)
	}
	t.Log(w.snapshot(faultkv.Off, 0))
	t.Log(w.revert(faultkv.Off, 0))
	t.Log(w.store(faultkv.Off, 0))
	ids, err := w.query(w.node.BC, w.raw)
	t.Log("same process", ids, err)
	_ = w.restart()
	p := w.project()
	t.Logf("%+v", p)
	ids, err = w.query(w.node.BC, w.raw)
	t.Log("after restart", ids, err)
}

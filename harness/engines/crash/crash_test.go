// crash_test.go: the three entry points of engine "crash" (property C05).
//
//	TestCrashProbe   asks the real code which of the known defects it still has, so that the
//	                 faithful specification (switches) describes the tree that is being checked
//	TestCrashConform replays TLC-simulated Crash.tla behaviours (faults included) step by step and
//	                 compares result kind, number of durable mutations and the projected durable
//	                 state (after every single mutation of a prune) with the specification's
//	TestCrashEnum    takes fault-free operation sequences and, for every durable mutation k of every
//	                 operation (counted by a dry run), re-runs the sequence with "fail at k" and with
//	                 "crash after k", then evaluates Consistent / MemAgreesWithDisk /
//	                 NextStoreSucceeds on the REAL node (same process after a failed write, a fresh
//	                 process after a crash), continues the sequence and evaluates again
package crash

import (
	"errors"
	"fmt"
	"reflect"
	"strings"
	"sync"
	"testing"
	"time"

	"github.com/NethermindEth/juno/blockchain"
	"github.com/NethermindEth/juno/core"
	"github.com/NethermindEth/juno/db"
	"github.com/NethermindEth/juno/db/memory"
	"github.com/NethermindEth/juno/pruner"

	"verifharness/internal/chainkit"
	"verifharness/internal/faultkv"
	"verifharness/internal/vh"
)

type stepAct struct {
	Name    string `json:"name"`
	Outcome string `json:"outcome"`
	N       int    `json:"n"`
}

type stepRes struct {
	Kind string `json:"kind"`
	Muts int    `json:"muts"`
	// Init: the operation ended inside the lazy initialisation of the running event filter (the
	// fault hit one of the initialisation's own durable mutations)
	Init bool `json:"init"`
}

type step struct {
	A    stepAct `json:"a"`
	Res  stepRes `json:"res"`
	Post post    `json:"post"`
}

type only struct {
	Op   int    `json:"op"`
	K    int    `json:"k"`
	Mode string `json:"mode"`
}

type input struct {
	Consts     consts   `json:"consts"`
	Behaviours [][]step `json:"behaviours"`
	NewState   []bool   `json:"newState"`
	Backends   []string `json:"backends"`
	PruneBatch int      `json:"pruneBatch"`
	Plain      bool     `json:"plain"` // archive-node wiring for behaviours without a prune
	Only       *only    `json:"only,omitempty"`
	MaxTrials  int      `json:"maxTrials"`
	Seed       int64    `json:"seed,omitempty"` // content seed of a narrowed (replay) input
	// Switches: which confirmed defects the probe found repaired on this tree (classification only)
	Switches map[string]bool `json:"switches,omitempty"`
	// OwnOnly (fault enumeration, budget of the quick tier): faults go into the operations' own
	// mutations only, not into those of the lazy filter initialisation they trigger
	OwnOnly bool `json:"ownOnly,omitempty"`
	// DeadlineSec: write out what was recorded and end the process after that many seconds
	DeadlineSec int `json:"deadlineSec,omitempty"`
}

func (in input) seedFor(bi int) int64 {
	if in.Seed != 0 {
		return in.Seed
	}
	return vh.Seed()*1000 + int64(bi) + 1
}

func (in input) batchBytes() int {
	if in.PruneBatch <= 1 {
		return 1
	}
	return bigBatch
}

func (in input) narrowed(b []step, ns bool, be string, o *only, seed int64) input {
	return input{Consts: in.Consts, Behaviours: [][]step{b}, NewState: []bool{ns}, Backends: []string{be},
		PruneBatch: in.PruneBatch, Plain: in.Plain, Only: o, Seed: seed, Switches: in.Switches, OwnOnly: in.OwnOnly}
}

func modeOf(outcome string) faultkv.Mode {
	switch outcome {
	case "fail":
		return faultkv.FailAt
	case "crash":
		return faultkv.CrashAfter
	}
	return faultkv.Off
}

func hasPrune(b []step) bool {
	for _, s := range b {
		if s.A.Name == "Prune" {
			return true
		}
	}
	return false
}

func opsString(b []step) string {
	var parts []string
	for _, s := range b {
		switch s.A.Name {
		case "PruneStep":
			if s.A.Outcome != "ok" {
				parts = append(parts, "prune-step:"+s.A.Outcome)
			}
		case "SetL1", "Prune":
			parts = append(parts, fmt.Sprintf("%s(%d)", strings.ToLower(s.A.Name), s.A.N))
		default:
			p := strings.ToLower(s.A.Name)
			if s.A.Outcome != "ok" {
				p += ":" + s.A.Outcome
				if s.Res.Init {
					p += fmt.Sprintf("@init%d", s.Res.Muts)
				}
			}
			parts = append(parts, p)
		}
	}
	return strings.Join(parts, ";")
}

// ------------------------------------------------------------------ conformance replay

func eqPairs(a, b [][]int) bool {
	if len(a) == 0 && len(b) == 0 {
		return true
	}
	return reflect.DeepEqual(a, b)
}

// diffDisk compares the durable part of two projections; legacy = the history family is compared.
func diffDisk(exp, obs post, legacy bool) (string, any, any) {
	switch {
	case exp.Height != obs.Height:
		return "height", exp.Height, obs.Height
	case !eqPairs(exp.Hdr, obs.Hdr):
		return "headers", exp.Hdr, obs.Hdr
	case !eqPairs(exp.Com, obs.Com):
		return "commitments", exp.Com, obs.Com
	case !eqPairs(exp.Su, obs.Su):
		return "state-updates", exp.Su, obs.Su
	case !eqPairs(exp.Txs, obs.Txs):
		return "transactions", exp.Txs, obs.Txs
	case !eqPairs(exp.H2n, obs.H2n):
		return "number-by-hash", exp.H2n, obs.H2n
	case !eqPairs(exp.Txl, obs.Txl):
		return "tx-lookups", exp.Txl, obs.Txl
	case legacy && !eqPairs(exp.Hist, obs.Hist):
		return "state-history", exp.Hist, obs.Hist
	case exp.Win != obs.Win:
		return "persisted-window", exp.Win, obs.Win
	case exp.Snap != obs.Snap:
		return "snapshot", exp.Snap, obs.Snap
	case exp.Snap && exp.SnapNext != obs.SnapNext:
		return "snapshot-next", exp.SnapNext, obs.SnapNext
	case exp.L1 != obs.L1:
		return "l1-head", exp.L1, obs.L1
	case exp.Oldest != obs.Oldest:
		return "oldest-retained", exp.Oldest, obs.Oldest
	}
	return "", nil, nil
}

func TestCrashConform(t *testing.T) {
	if !vh.Enabled() {
		t.Skip()
	}
	var in input
	if err := vh.Input(&in); err != nil {
		t.Fatal(err)
	}
	out := vh.NewResult()
	defer out.Write()
	defer machinery(out)
	startDeadline(out, in.DeadlineSec)
	replayed, nsteps := 0, 0
	for bi, b := range in.Behaviours {
		for _, ns := range in.NewState {
			for _, be := range in.Backends {
				if be == "pebble" && in.Consts.off() > 0 {
					continue
				}
				setCurrent(in.narrowed(b, ns, be, nil, in.seedFor(bi)))
				n, d := conformOne(in, b, ns, be, in.seedFor(bi))
				nsteps += n
				replayed++
				if d != nil {
					d.Input = in.narrowed(b, ns, be, nil, in.seedFor(bi))
					out.Diverge(*d)
				}
			}
		}
		if bi < 2 {
			out.Sample(vh.J{"conform": opsString(b)})
		}
	}
	out.Count("conform_behaviours", replayed)
	out.Count("conform_steps", nsteps)
	out.Done(replayed, nsteps)
}

func conformOne(in input, b []step, ns bool, be string, seed int64) (int, *vh.Divergence) {
	plain := in.Plain && !hasPrune(b)
	w, err := newWorld(in.Consts, seed, ns, be, plain)
	if errors.Is(err, errOnRealCode) {
		return 0, &vh.Divergence{Key: "prune-fails-on-valid-chain", What: err.Error()}
	}
	if err != nil {
		panic(fmt.Sprintf("crash engine: cannot build the initial world: %v", err))
	}
	defer w.close()
	wiring := "pruning"
	if plain {
		wiring = "archive"
	}
	div := func(i int, field string, exp, obs any) *vh.Divergence {
		op, at := strings.ToLower(b[i].A.Name), ""
		if b[i].Res.Init {
			// the fault went into a durable mutation of the lazy filter initialisation
			op += ":init-fault"
			at = fmt.Sprintf(" at mutation %d = a mutation of the lazy running-filter initialisation", b[i].Res.Muts)
		}
		return &vh.Divergence{
			Key:  fmt.Sprintf("conform:%s:%s", op, field),
			What: fmt.Sprintf("real node (newState=%v, %s, %s wiring) departs from Crash.tla at step %d (%s, outcome %s%s) of [%s]: %s", ns, be, wiring, i, b[i].A.Name, b[i].A.Outcome, at, opsString(b), field),
			Step: i, Expected: exp, Observed: obs,
		}
	}
	alive := true
	steps := 0
	for i := 0; i < len(b); i++ {
		s := b[i]
		steps++
		var r opResult
		k := s.Res.Muts
		last := i
		switch s.A.Name {
		case "Store":
			r = w.store(modeOf(s.A.Outcome), k)
		case "Revert":
			r = w.revert(modeOf(s.A.Outcome), k)
		case "SetL1":
			r = w.setL1(s.A.N, modeOf(s.A.Outcome), k)
		case "Snapshot":
			r = w.snapshot(modeOf(s.A.Outcome), k)
			alive = false // the graceful stop: the process ends whatever the put's outcome
		case "Restart":
			if err := w.restart(); err != nil {
				return steps, div(i, "restart-error", nil, err.Error())
			}
			alive = true
			r = opResult{kind: "ok"}
		case "Query":
			// a query issues no durable mutation of its own; those of the lazy initialisation it
			// triggers can be hit
			var found []bk
			var qerr error
			r = w.faulted("query", modeOf(s.A.Outcome), k, func() error {
				found, qerr = w.query(w.node.BC, w.raw)
				return qerr
			})
			// (a block stored without transactions has no event to be found)
			var wantFound [][]int
			for _, id := range s.Post.Found {
				if !bareID(w.off, id[0], id[1]) {
					wantFound = append(wantFound, id)
				}
			}
			if s.Res.Kind == "ok" && qerr == nil && !eqPairs(wantFound, pairs(found)) {
				return steps, div(i, "found-events", wantFound, pairs(found))
			}
		case "Prune":
			j := i + 1
			for j < len(b) && b[j].A.Name == "PruneStep" {
				j++
			}
			ps := b[i+1 : j]
			mode, kk := faultkv.Off, 0
			for x, p := range ps {
				if p.A.Outcome != "ok" {
					mode, kk = modeOf(p.A.Outcome), x+1
					break
				}
			}
			var per []post
			r = w.prune(s.A.N, in.batchBytes(), mode, kk, func(int) {
				p := w.project()
				p.Floor = -1
				if !w.fk.Dead() {
					p.Floor = w.memFloor() // what readers between two batches are served from
				}
				per = append(per, p)
			})
			for x := range ps {
				if x < len(per) && ps[x].A.Outcome != "fail" {
					if f, e, o := diffDisk(ps[x].Post, per[x], !ns); f != "" {
						return steps, div(i+1+x, "after-mutation-"+fmt.Sprint(x+1)+":"+f, e, o)
					}
					if per[x].Floor >= 0 && per[x].Floor != ps[x].Post.Floor {
						return steps, div(i+1+x, "after-mutation-"+fmt.Sprint(x+1)+":retention-floor", ps[x].Post.Floor, per[x].Floor)
					}
				}
			}
			steps += len(ps)
			if len(ps) > 0 {
				last = j - 1
			}
			i = j - 1
		default:
			panic("crash engine: unknown action " + s.A.Name)
		}
		want := b[last].Res
		if want.Kind == "started" || want.Kind == "step" {
			panic("crash engine: behaviour ends inside a prune")
		}
		if r.kind != want.Kind {
			return steps, div(last, "result-kind", want.Kind, r.String())
		}
		if r.muts != want.Muts {
			return steps, div(last, "mutation-count", want.Muts, fmt.Sprintf("%d %v", r.muts, w.fk.Trace))
		}
		if r.kind == "crashed" {
			alive = false
		}
		obs := w.project()
		if f, e, o := diffDisk(b[last].Post, obs, !ns); f != "" {
			return steps, div(last, f, e, o)
		}
		if alive {
			if fl := w.memFloor(); fl != b[last].Post.Floor {
				return steps, div(last, "retention-floor", b[last].Post.Floor, fl)
			}
			// values returned by earlier reads must not have changed since
			var alias string
			w.checkRetained(func(sym, detail string, _ error) {
				if alias == "" {
					alias = sym + ": " + detail
				}
			})
			if alias != "" {
				d := div(last, "retained-result", nil, alias)
				d.Key = strings.SplitN(alias, ":", 3)[0] + ":" + strings.SplitN(alias, ":", 3)[1]
				return steps, d
			}
			w.retain(w.node.BC)
		}
	}
	return steps, nil
}

// ------------------------------------------------------------------ fault enumeration

type eop struct {
	name string
	n    int
	muts int
}

func extractOps(b []step) []eop {
	var ops []eop
	for i := 0; i < len(b); i++ {
		s := b[i]
		switch s.A.Name {
		case "PruneStep":
			ops[len(ops)-1].muts = s.Res.Muts
		default:
			ops = append(ops, eop{strings.ToLower(s.A.Name), s.A.N, s.Res.Muts})
		}
	}
	return ops
}

func (w *world) apply(op eop, batchBytes int, mode faultkv.Mode, k int) opResult {
	h := w.twinHeight()
	switch op.name {
	case "store":
		if h+1 > w.c.MaxH {
			return opResult{kind: "skip"}
		}
		return w.store(mode, k)
	case "revert":
		oldest := 0
		if o, err := pruner.OldestRetainedBlock(w.raw); err == nil && o >= w.off {
			oldest = w.rel(o)
		}
		if !(h > oldest || (w.c.Genesis && h == 0 && oldest == 0)) {
			return opResult{kind: "skip"}
		}
		return w.revert(mode, k)
	case "setl1":
		return w.setL1(op.n, mode, k)
	case "snapshot":
		// the graceful stop: the snapshot put, then the process ends
		r := w.snapshot(mode, k)
		if err := w.restart(); err != nil {
			return opResult{kind: "error", err: err}
		}
		return r
	case "restart":
		if err := w.restart(); err != nil {
			return opResult{kind: "error", err: err}
		}
		return opResult{kind: "ok"}
	case "query":
		if h < 0 {
			return opResult{kind: "skip"}
		}
		r := w.faulted("query", mode, k, func() error {
			_, err := w.query(w.node.BC, w.raw)
			return err
		})
		w.cacheWarm = w.cacheWarm || w.hasWindow0()
		return r
	case "prune":
		if op.n < 1 || op.n >= h {
			return opResult{kind: "skip"}
		}
		return w.prune(op.n, batchBytes, mode, k, nil)
	}
	panic("crash engine: unknown op " + op.name)
}

type enumRun struct {
	in   input
	out  *vh.Result
	b    []step
	ops  []eop
	ns   bool
	be   string
	seed int64
}

func (e *enumRun) label() string {
	var p []string
	for _, o := range e.ops {
		if o.name == "setl1" || o.name == "prune" {
			p = append(p, fmt.Sprintf("%s(%d)", o.name, o.n))
		} else {
			p = append(p, o.name)
		}
	}
	return strings.Join(p, ";")
}

func (e *enumRun) report(key, what string, fi, k int, mode string) {
	var o *only
	if fi >= 0 {
		o = &only{fi, k, mode}
	}
	e.out.Diverge(vh.Divergence{Key: key, What: what, Step: fi, Input: e.in.narrowed(e.b, e.ns, e.be, o, e.seed)})
}

// freshEval evaluates a NEW process on a copy of the surviving store (what a restart would see).
func (w *world) freshEval() []violation {
	clone, err := cloneToMemory(w.raw)
	if err != nil {
		return []violation{{"clone", err.Error(), err}}
	}
	floor, err := pruner.NewRetentionFloor(clone)
	if err != nil {
		return []violation{{"clone", err.Error(), err}}
	}
	opts := []blockchain.Option{blockchain.WithRetentionFloor(floor)}
	if !w.plain {
		opts = append(opts, blockchain.WithRunningEventFilterInitializer(pruner.InitializeRunningEventFilter))
	}
	n := chainkit.NewNode(clone, w.newState, opts...)
	vs := w.evaluate(n.BC, clone)
	if w.twinHeight()+1 <= w.c.MaxH+1 {
		if _, b, err := w.nextBlock(); err == nil {
			if err := n.StoreBuilt(b); err != nil {
				vs = append(vs, violation{"next-store", fmt.Sprintf("storing the next block on a fresh process fails: %v", err), err})
			}
		}
	}
	return vs
}

// freshNode builds a NEW process (same wiring as the node under test) on a copy of the surviving store.
func (w *world) freshNode() (*chainkit.Node, *memory.Database, error) {
	clone, err := cloneToMemory(w.raw)
	if err != nil {
		return nil, nil, err
	}
	floor, err := pruner.NewRetentionFloor(clone)
	if err != nil {
		return nil, nil, err
	}
	opts := []blockchain.Option{blockchain.WithRetentionFloor(floor)}
	if !w.plain {
		opts = append(opts, blockchain.WithRunningEventFilterInitializer(pruner.InitializeRunningEventFilter))
	}
	return chainkit.NewNode(clone, w.newState, opts...), clone, nil
}

// freshEventsEval: height, event index vs naive scan and the store of the next block on a NEW
// process over a copy of the surviving store.
func (w *world) freshEventsEval() []violation {
	n, clone, err := w.freshNode()
	if err != nil {
		return []violation{{"clone", err.Error(), err}}
	}
	var out []violation
	add := func(sym, detail string, err error) {
		if !hasSym(out, sym) {
			out = append(out, violation{sym, detail, err})
		}
	}
	th, terr := w.twin.BC.Height()
	nh, nerr := n.BC.Height()
	if errClass(terr) != errClass(nerr) || (terr == nil && th != nh) {
		add("height", fmt.Sprintf("node height %d (%v), expected %d (%v)", nh, nerr, th, terr), nerr)
		return out
	}
	if terr == nil {
		if oldest, err := pruner.OldestRetainedBlock(clone); err == nil {
			w.evalEvents(n.BC, clone, max(oldest, w.off), th, add)
		}
	}
	if w.twinHeight()+1 <= w.c.MaxH+1 {
		if _, b, err := w.nextBlock(); err == nil {
			if err := n.StoreBuilt(b); err != nil {
				add("next-store", fmt.Sprintf("storing the next block on a fresh process fails: %v", err), err)
			}
		}
	}
	return out
}

func hasSym(vs []violation, sym string) bool {
	for _, v := range vs {
		if v.sym == sym {
			return true
		}
	}
	return false
}

func hasSnapshot(w *world) bool {
	ok, _ := w.raw.Has(db.RunningEventFilter.Key())
	return ok
}

var pruneSyms = map[string]bool{
	"dbdiff": true,
	"read:tx-lookup": true, "read:tx-by-hash": true, "read:receipt": true, "read:number-by-hash": true,
	"read:header-by-hash": true, "read:block-by-hash": true, "read:state-update-by-hash": true,
	"read:l1-msg-lookup": true, "hist-state": true,
}

// classify turns a failed monitor into the specific signature of the failing history.
// sameProcessOnly: the symptom shows on the live process but not on a fresh process over the
// same disk (a memory-vs-disk disagreement).
func (e *enumRun) classify(w *world, v violation, faultOp, mode string, sameProcessOnly bool) string {
	memSym := strings.HasPrefix(v.sym, "events:") || strings.HasPrefix(v.sym, "next-store")
	if sameProcessOnly && memSym && w.cacheWarm && w.crossedAfterWarm && v.sym == "events:false-negative" {
		return "bloom-cache:stale-window-after-reorg-across-boundary"
	}
	if memSym {
		// the in-memory filter ran ahead of a commit that failed; the damage stays in the process,
		// is carried over a restart by the graceful-stop snapshot and reaches the disk through the
		// later operations that are applied to the wrong filter position.  While the probe finds
		// that defect open, every filter symptom of a trial with a failed store/revert is its
		// consequence; once it is repaired such a symptom is something new.
		for _, f := range w.everFailed {
			if f == "store" || f == "revert" {
				if sameProcessOnly || hasSnapshot(w) || !e.in.Switches["FixMemAfterCommit"] {
					return "event-filter:mem-ahead-of-failed-commit:" + f
				}
			}
		}
	}
	if sameProcessOnly && memSym {
		return "mem-disagrees-with-disk:" + v.sym + ":" + faultOp
	}
	if memSym && errors.Is(v.err, core.ErrAggregatedBloomFilterBlockOutOfRange) && w.hasWindow0() {
		if h, ok := w.rawHeight(); ok && w.real(h) < core.NumBlocksPerFilter-1 {
			return "event-filter:stale-window-after-reorg-across-boundary:store-fails-after-restart"
		}
	}
	if v.sym == "events:false-negative" {
		// counterfactual: does a fresh process without the persisted snapshot find everything?
		if clone, err := cloneToMemory(w.raw); err == nil {
			if ok, _ := clone.Has(db.RunningEventFilter.Key()); ok {
				_ = clone.Delete(db.RunningEventFilter.Key())
				n := chainkit.NewNode(clone, w.newState, blockchain.WithRunningEventFilterInitializer(pruner.InitializeRunningEventFilter))
				if !hasSym(w.evaluate(n.BC, clone), "events:false-negative") {
					return "event-filter:stale-snapshot-reused-after-restart"
				}
			}
		}
	}
	pruneHurt := faultOp == "prune"
	for _, o := range append(append([]string{}, w.failedOps...), w.crashedOps...) {
		if o == "prune" {
			pruneHurt = true
		}
	}
	if pruneHurt && pruneSyms[v.sym] {
		return "prune-crash:floor-reseed-below-deleted-history"
	}
	return fmt.Sprintf("crash-inconsistent:%s:%s:%s", v.sym, faultOp, mode)
}

// checkFresh: the process dies after the sequence (a crash between two operations is in the
// domain like a crash inside one).  A NEW process on a copy of the surviving store re-derives its
// running event filter from what the sequence left on disk - the graceful-stop snapshot if it is
// still there, the persisted windows, the headers - and is judged by the event index against the
// naive scan and by the store of the next block.  (Everything else the fresh process would read
// is the disk the live process has just been judged on.)
func (e *enumRun) checkFresh(w *world, faultOp, mode string, fi, k int, liveSyms map[string]bool) {
	t0 := time.Now()
	vs := w.freshEventsEval()
	e.out.Count("fresh_process_evaluations", 1)
	e.out.Count("fresh_process_eval_ms", int(time.Since(t0).Milliseconds()))
	for _, v := range vs {
		if liveSyms[v.sym] {
			continue
		}
		key := e.classify(w, v, faultOp, mode, false)
		e.report(key, fmt.Sprintf("[%s] newState=%v %s, ops [%s], fault %s at mutation %d of op %d (%s), a fresh process on the surviving store after the sequence (the process dies without a graceful stop): %s — %s",
			key, e.ns, e.be, e.label(), mode, k, fi, faultOp, v.sym, v.detail), fi, k, mode)
	}
}

// check evaluates the monitors on the live process (and on a fresh one for classification); it
// returns the symptoms it reported.
func (e *enumRun) check(w *world, phase, faultOp, mode string, fi, k int, keep bool) map[string]bool {
	syms := map[string]bool{}
	vs := w.evaluate(w.node.BC, w.raw)
	w.cacheWarm = w.cacheWarm || w.hasWindow0()
	if v := w.nextStore(keep); v != nil {
		vs = append(vs, *v)
	}
	if len(vs) == 0 {
		return syms
	}
	var fresh []violation
	needFresh := len(w.everFailed) > 0 || w.cacheWarm
	if needFresh {
		fresh = w.freshEval()
	}
	for _, v := range vs {
		sameOnly := needFresh && !hasSym(fresh, v.sym)
		syms[v.sym] = true
		key := e.classify(w, v, faultOp, mode, sameOnly)
		e.report(key, fmt.Sprintf("[%s] newState=%v %s, ops [%s], fault %s at mutation %d of op %d (%s), %s: %s — %s",
			key, e.ns, e.be, e.label(), mode, k, fi, faultOp, phase, v.sym, v.detail), fi, k, mode)
	}
	return syms
}

func (e *enumRun) newWorld() *world {
	plain := e.in.Plain && !hasPrune(e.b)
	w, err := newWorld(e.in.Consts, e.seed, e.ns, e.be, plain)
	if errors.Is(err, errOnRealCode) {
		e.report("prune-fails-on-valid-chain", err.Error(), -1, 0, "")
		return nil
	}
	if err != nil {
		panic(fmt.Sprintf("crash engine: cannot build the initial world: %v", err))
	}
	w.freshAfterFail = true
	return w
}

// dry runs the fault-free sequence, counts the durable mutations of every operation, compares
// them with the specification's and evaluates the monitors at the end.
func (e *enumRun) dry() ([]int, bool) {
	w := e.newWorld()
	if w == nil {
		return nil, false
	}
	defer w.close()
	cnt := make([]int, len(e.ops))
	for i, op := range e.ops {
		r := w.apply(op, e.in.batchBytes(), faultkv.Off, 0)
		if r.kind == "error" && e.b != nil {
			// the specification also knows operations that fail without a fault (e.g. the stale
			// window); whether that is acceptable is decided by the monitors below
		}
		cnt[i] = r.muts
		if r.kind != "skip" && r.muts != op.muts && r.kind != "error" {
			e.report(fmt.Sprintf("mutation-count:%s:%d-instead-of-%d", op.name, r.muts, op.muts),
				fmt.Sprintf("operation %d (%s) of [%s] issued %d durable mutations %v, the specification says %d (newState=%v %s)",
					i, op.name, e.label(), r.muts, w.fk.Trace, op.muts, e.ns, e.be), -1, 0, "")
			return cnt, false
		}
	}
	live := e.check(w, "fault-free run", "none", "none", -1, 0, true)
	e.checkFresh(w, "none", "none", -1, 0, live)
	return cnt, true
}

func (e *enumRun) trial(fi, k int, mode faultkv.Mode) {
	setCurrent(e.in.narrowed(e.b, e.ns, e.be, &only{fi, k, map[faultkv.Mode]string{faultkv.FailAt: "fail", faultkv.CrashAfter: "crash"}[mode]}, e.seed))
	w := e.newWorld()
	if w == nil {
		return
	}
	defer w.close()
	bb := e.in.batchBytes()
	ms := map[faultkv.Mode]string{faultkv.FailAt: "fail", faultkv.CrashAfter: "crash"}[mode]
	for i := 0; i < fi; i++ {
		w.apply(e.ops[i], bb, faultkv.Off, 0)
	}
	op := e.ops[fi]
	r := w.apply(op, bb, mode, k)
	if !r.fired {
		e.report("fault-not-reached:"+op.name, fmt.Sprintf("mutation %d of op %d (%s) of [%s] was not reached in the faulted run", k, fi, op.name, e.label()), fi, k, ms)
		return
	}
	if mode == faultkv.CrashAfter {
		if err := w.restart(); err != nil {
			e.report("restart-fails:"+op.name, fmt.Sprintf("restart after crash at mutation %d of %s in [%s]: %v", k, op.name, e.label(), err), fi, k, ms)
			return
		}
		e.out.Count("crash_points", 1)
	} else {
		e.out.Count("fail_points", 1)
		if r.kind != "failed" {
			e.report("swallowed-write-error:"+op.name, fmt.Sprintf("write %d of %s in [%s] failed but the operation reported %s", k, op.name, e.label(), r.String()), fi, k, ms)
		}
	}
	e.check(w, "right after the fault", op.name, ms, fi, k, false)
	for i := fi + 1; i < len(e.ops); i++ {
		w.apply(e.ops[i], bb, faultkv.Off, 0)
	}
	live := e.check(w, "after continuing the sequence", op.name, ms, fi, k, true)
	e.checkFresh(w, op.name, ms, fi, k, live)
}

func TestCrashEnum(t *testing.T) {
	if !vh.Enabled() {
		t.Skip()
	}
	var in input
	if err := vh.Input(&in); err != nil {
		t.Fatal(err)
	}
	out := vh.NewResult()
	defer out.Write()
	defer machinery(out)
	startDeadline(out, in.DeadlineSec)
	runs, trials := 0, 0
	for bi, b := range in.Behaviours {
		for _, ns := range in.NewState {
			for _, be := range in.Backends {
				if be == "pebble" && in.Consts.off() > 0 {
					continue
				}
				e := &enumRun{in: in, out: out, b: b, ops: extractOps(b), ns: ns, be: be, seed: in.seedFor(bi)}
				setCurrent(in.narrowed(b, ns, be, nil, in.seedFor(bi)))
				if in.Only != nil && in.Only.Op >= 0 {
					e.trial(in.Only.Op, in.Only.K, modeOf(in.Only.Mode))
					trials++
					continue
				}
				cnt, ok := e.dry()
				runs++
				if !ok || in.Only != nil {
					continue
				}
				n := 0
				for fi := range e.ops {
					// the fault goes into EVERY durable mutation the operation issues: the mutations
					// of the lazy running-filter initialisation it triggers (delete of the loaded
					// snapshot, put of a window completed while filling) - the only ones a query
					// has -, then its own: the single batch/put of store, revert, setL1, snapshot,
					// every batch of a prune
					if e.ops[fi].name == "restart" {
						continue
					}
					if (cnt[fi] > 1 && e.ops[fi].name != "prune") || (e.ops[fi].name == "query" && cnt[fi] > 0) {
						out.Count("ops_with_init_mutations", 1)
					}
					first := 1
					if in.OwnOnly && e.ops[fi].name != "prune" {
						first = max(cnt[fi], 1)
						if e.ops[fi].name == "query" {
							continue
						}
					}
					for k := first; k <= cnt[fi]; k++ {
						for _, mode := range []faultkv.Mode{faultkv.FailAt, faultkv.CrashAfter} {
							if in.MaxTrials > 0 && n >= in.MaxTrials {
								continue
							}
							e.trial(fi, k, mode)
							n++
						}
					}
				}
				trials += n
				if bi < 2 && len(in.NewState) > 0 && ns == in.NewState[0] {
					out.Sample(vh.J{"enum": e.label(), "mutations_per_op": cnt, "trials": n})
				}
			}
		}
	}
	out.Count("enum_sequences", runs)
	out.Count("fault_trials", trials)
	out.Done(runs+trials, trials)
}

// ------------------------------------------------------------------ probe

// TestCrashProbe replays, on the real code, the minimal history of each confirmed defect.  The
// outcome is (1) the value of the corresponding specification switch — the faithful model must
// describe the tree that is being checked — and (2), when the defect is there, a divergence with
// the defect's key: a directed replay that does not depend on what the simulation happens to sample.
func TestCrashProbe(t *testing.T) {
	if !vh.Enabled() {
		t.Skip()
	}
	out := vh.NewResult()
	defer out.Write()
	defer machinery(out)
	setCurrent(vh.J{"probe": "all"})
	seed := vh.Seed()
	gen := consts{MaxH: 5, MaxVer: 3, InitH: 2, Boundary: 99, Genesis: true}
	bnd := consts{MaxH: 4, MaxVer: 3, InitH: 2, Boundary: 2, Genesis: false}
	var realErr error
	mustWorld := func(c consts) *world { return nil }
	mustWorldWired := func(c consts, plain bool) *world {
		w, err := newWorld(c, seed, false, "memory", plain)
		if errors.Is(err, errOnRealCode) {
			realErr = err
			return nil
		}
		if err != nil {
			panic(err)
		}
		return w
	}
	mustWorld = func(c consts) *world { return mustWorldWired(c, false) }
	found := func(w *world, id bk) bool {
		ids, err := w.query(w.node.BC, w.raw)
		if err != nil {
			return false
		}
		for _, x := range ids {
			if x == id {
				return true
			}
		}
		return false
	}
	verdict := func(sw string, fixed bool, key, what string) {
		out.Stats[sw] = fixed
		if !fixed {
			out.Diverge(vh.Divergence{Key: key, What: "[" + key + "] directed replay: " + what, Input: vh.J{"probe": sw}})
		}
	}
	// H3: a failed revert must not move the in-memory running filter
	{
		w := mustWorld(gen)
		w.revert(faultkv.FailAt, 1)
		verdict("FixMemAfterCommit", found(w, bk{2, 1}), "event-filter:mem-ahead-of-failed-commit:revert",
			"chain 0..2, RevertHead whose commit fails: the head stays 2 on disk but an event query on the same process no longer returns the event of block 2")
		w.close()
	}
	// H2: a graceful-stop snapshot must not be reused after later block changes
	{
		w := mustWorld(gen)
		w.snapshot(faultkv.Off, 0) // graceful stop ...
		_ = w.restart()            // ... start
		found(w, bk{2, 1})         // (first use of the filter loads the snapshot)
		w.revert(faultkv.Off, 0)
		w.store(faultkv.Off, 0)
		_ = w.restart() // ungraceful
		verdict("FixSnapshot", found(w, bk{2, 2}), "event-filter:stale-snapshot-reused-after-restart",
			"graceful stop at height 2, start, revert block 2, store block 2', process dies, start: the stale snapshot (next = 3) is reused and the event of block 2' is not returned")
		w.close()
	}
	// the lazy initialisation's own durable mutation - the delete that consumes the snapshot it has
	// loaded - fails: the initialisation must fail with it (the operation that triggered it reports
	// the error and applies nothing), be retried by the next operation, and the snapshot must be
	// gone once the node runs on it.  Both wirings: core.InitializeRunningEventFilter (archive
	// node) and pruner.InitializeRunningEventFilter.
	{
		consumeOK, retryOK := true, true
		var consumeWhat, retryWhat string
		for _, plain := range []bool{true, false} {
			wiring := map[bool]string{true: "core.InitializeRunningEventFilter", false: "pruner.InitializeRunningEventFilter"}[plain]
			w := mustWorldWired(gen, plain)
			w.snapshot(faultkv.Off, 0) // graceful stop at height 2 ...
			_ = w.restart()            // ... start
			r1 := w.revert(faultkv.FailAt, 1) // mutation 1 of this RevertHead = the initialisation's delete
			r2 := opResult{kind: "ok"}
			if r1.kind != "ok" { // (ok = the error was swallowed: block 2 is already reverted)
				r2 = w.revert(faultkv.Off, 0) // the next operation initialises again
			}
			if r2.kind != "ok" {
				retryOK = false
				retryWhat = fmt.Sprintf("%s: graceful stop at height 2, start, RevertHead whose lazy filter initialisation fails in its snapshot delete (%v), RevertHead again: %v — the failed initialisation is latched", wiring, r1.err, r2.err)
				_ = w.restart()
				w.revert(faultkv.Off, 0)
			}
			w.store(faultkv.Off, 0) // 2'
			_ = w.restart()         // the process dies, start
			if !found(w, bk{2, 2}) {
				consumeOK = false
				consumeWhat = fmt.Sprintf("%s: graceful stop at height 2, start, RevertHead with an error injected into its first durable mutation (the initialisation's delete of the loaded snapshot) returned %s, [RevertHead,] store block 2', process dies, start: the snapshot (next = 3) is still on disk and resumed, the event of block 2' is not returned", wiring, r1.String())
			}
			w.close()
		}
		verdict("FixInitConsume", consumeOK, "event-filter:init-delete-error-ignored:stale-snapshot-reused-after-restart", consumeWhat)
		verdict("FixInitRetry", retryOK, "event-filter:failed-init-latched:store-fails-until-restart", retryWhat)
	}
	// H12: the oldest retained block must advance with every hash-keyed prune batch
	{
		w := mustWorld(consts{MaxH: 6, MaxVer: 2, InitH: 5, Boundary: 99, Genesis: true})
		w.prune(3, 1, faultkv.CrashAfter, 1, nil)
		o, _ := pruner.OldestRetainedBlock(w.raw)
		verdict("FixPruneAtomicFloor", o > 0, "prune-crash:floor-reseed-below-deleted-history",
			"chain 0..5, prune up to 3 with one batch per block, crash after the first batch: block 0 lost its tx lookups and history rows but commitments still name it the oldest retained block")
		w.close()
	}
	// stale persisted window / H1 need the window boundary
	{
		w := mustWorld(bnd)
		if w == nil {
			out.Diverge(vh.Divergence{Key: "prune-fails-on-valid-chain", What: realErr.Error(), Input: vh.J{"probe": "base"}})
			return
		}
		w.apply(eop{name: "query"}, 1, faultkv.Off, 0)
		w.revert(faultkv.Off, 0) // 8192
		w.revert(faultkv.Off, 0) // 8191: back into window 0
		stale := w.hasWindow0()
		w.store(faultkv.Off, 0) // 8191' rolls the window over again
		verdict("FixCacheOnReorg", found(w, bk{1, 2}), "bloom-cache:stale-window-after-reorg-across-boundary",
			"height 8192, event query (caches window [0,8191]), revert 8192 and 8191, store 8191': the cached window still answers and the event of 8191' is not returned")
		w.close()
		// the stale persisted window: revert across the boundary, ungraceful restart, store
		w = mustWorld(bnd)
		w.revert(faultkv.Off, 0)
		w.revert(faultkv.Off, 0)
		_ = w.restart()
		r := w.store(faultkv.Off, 0)
		verdict("FixReorgWindow", !stale && r.kind == "ok", "event-filter:stale-window-after-reorg-across-boundary:store-fails-after-restart",
			fmt.Sprintf("height 8192, revert 8192 and 8191, process dies, start, store 8191': %v", r.err))
		w.close()
	}
	out.Done(7, 7)
}


// TestCrashConcurrent: readers run CONCURRENTLY with a writer that stores blocks (across the bloom
// window boundary too) for the writer's whole lifetime, judged by the invariant of the property:
// whatever height a reader observes, that head block is fully present — header by number and hash,
// transactions, receipts, lookups, state update, commitments, classes, its event through the
// event index — and rows of a block are never visible before the height that announces it.
// The property does not quantify over schedules: misbehaviour seen only DURING the race is reported
// as an observation; the sequential evaluation after the race is what can produce a verdict.
func TestCrashConcurrent(t *testing.T) {
	if !vh.Enabled() {
		t.Skip()
	}
	var in input
	if err := vh.Input(&in); err != nil {
		t.Fatal(err)
	}
	out := vh.NewResult()
	defer out.Write()
	defer machinery(out)
	startDeadline(out, in.DeadlineSec)
	if len(in.NewState) == 0 {
		in.NewState = []bool{false, true}
	}
	rounds := 0
	for _, ns := range in.NewState {
		for _, c := range []consts{
			{MaxH: 30, MaxVer: 2, InitH: 1, Boundary: 99, Genesis: true},
			{MaxH: 12, MaxVer: 2, InitH: 0, Boundary: 2, Genesis: false},
		} {
			setCurrent(vh.J{"concurrent": c.Boundary, "newState": ns})
			w, err := newWorld(c, in.seedFor(rounds), ns, "memory", false)
			if errors.Is(err, errOnRealCode) {
				out.Diverge(vh.Divergence{Key: "prune-fails-on-valid-chain", What: err.Error(), Input: getCurrent()})
				continue
			}
			if err != nil {
				panic(err)
			}
			concurrentStores(w, out, ns)
			w.close()
			rounds++
		}
	}
	out.Count("concurrent_rounds", rounds)
	out.Done(rounds, rounds)
}

func concurrentStores(w *world, out *vh.Result, ns bool) {
	var (
		mu    sync.Mutex
		found = map[string]string{}
		reads int
	)
	add := func(sym, detail string, _ error) {
		mu.Lock()
		if _, ok := found[sym]; !ok {
			found[sym] = detail
		}
		mu.Unlock()
	}
	stop := make(chan struct{})
	var wg sync.WaitGroup
	guard := func(name string, fn func()) {
		wg.Add(1)
		go func() {
			defer wg.Done()
			defer func() {
				if p := recover(); p != nil {
					add("concurrent:panic:"+name, fmt.Sprint(p), nil)
				}
			}()
			fn()
		}()
	}
	bc := w.node.BC
	// a pause after every durable mutation: an operation that needs more than one becomes observable
	w.fk.OnWrite = func(int, string) { time.Sleep(time.Millisecond) }
	defer func() { w.fk.OnWrite = nil }()
	for g := 0; g < 3; g++ {
		guard(fmt.Sprintf("reader-%d", g), func() {
			for {
				select {
				case <-stop:
					return
				default:
				}
				// rows first, height second: a row of block h+1 must not be visible before the height
				h0, err := bc.Height()
				if err != nil {
					continue
				}
				_, rowErr := bc.BlockHeaderByNumber(h0 + 1)
				h1, _ := bc.Height()
				if rowErr == nil && h1 < h0+1 {
					add("concurrent:row-before-height", fmt.Sprintf("header of block %d readable while the height is still %d", h0+1, h1), nil)
				}
				// the announced head is complete (the twin stores every block first)
				w.sweepBlock(bc, w.raw, h1, func(sym, detail string, e error) { add("concurrent:"+sym, detail, e) })
				if hd, err := w.twin.BC.BlockHeaderByNumber(h1); err == nil {
					if id, ok := w.idOf(hd.Hash); ok && !bareID(w.off, id.N, id.V) {
						if !w.eventFound(bc, id, h1) {
							add("concurrent:events:false-negative", fmt.Sprintf("event of head block %d not returned", h1), nil)
						}
					}
				}
				mu.Lock()
				reads++
				mu.Unlock()
			}
		})
	}
	guard("writer", func() {
		for w.twinHeight() < w.c.MaxH {
			id, b, err := w.nextBlock()
			if err != nil {
				add("concurrent:build", err.Error(), err)
				return
			}
			if err := w.twin.StoreBuilt(b); err != nil {
				add("concurrent:twin", err.Error(), err)
				return
			}
			if err := w.node.StoreBuilt(b); err != nil {
				add("concurrent:store-fails", fmt.Sprintf("store of %v: %v", id, err), err)
				return
			}
			w.idsMu.Lock()
			w.ver[id.N]++
			w.idsMu.Unlock()
		}
	})
	// wait for the writer (it is one of the guarded goroutines): poll its progress
	for w.twinHeight() < w.c.MaxH {
		mu.Lock()
		failed := len(found) > 0 && (found["concurrent:store-fails"] != "" || found["concurrent:build"] != "" || found["concurrent:twin"] != "")
		mu.Unlock()
		if failed {
			break
		}
		time.Sleep(time.Millisecond)
	}
	time.Sleep(5 * time.Millisecond)
	close(stop)
	wg.Wait()
	for _, v := range w.evaluate(bc, w.raw) {
		add("concurrent:after:"+v.sym, v.detail, v.err)
	}
	out.Count("concurrent_reads", reads)
	if reads < 10 {
		panic(fmt.Sprintf("crash engine: the concurrent readers made only %d reads while the writer ran", reads))
	}
	// C05 does not quantify over schedules: what is wrong ONLY while the writer's mutation lands in
	// the middle of a reader's calls is an observation; what the sequential evaluation after the
	// race still sees (concurrent:after:*) is a verdict.
	var obs []string
	for sym, detail := range found {
		if !strings.HasPrefix(sym, "concurrent:after:") {
			obs = append(obs, fmt.Sprintf("newState=%v, reader concurrent with a writer storing blocks %d..%d: %s — %s", ns, w.c.InitH+1, w.c.MaxH, sym, detail))
			continue
		}
		key := "crash-inconsistent:" + sym
		out.Diverge(vh.Divergence{Key: key, Input: getCurrent(),
			What: fmt.Sprintf("[%s] newState=%v: after readers ran concurrently with a writer storing blocks %d..%d: %s", key, ns, w.c.InitH+1, w.c.MaxH, detail)})
	}
	if len(obs) > 0 {
		prev, _ := out.Stats["observation_lines"].([]string)
		out.Stats["observation_lines"] = append(prev, obs...)
		out.Count("observations", len(obs))
	}
}

package crash

import (
	"fmt"
	"os"
	"testing"
	"time"

	"github.com/NethermindEth/juno/blockchain"
	"github.com/NethermindEth/juno/core"
	"github.com/NethermindEth/juno/core/felt"
	"github.com/NethermindEth/juno/db/memory"

	"verifharness/internal/chainkit"
	"verifharness/internal/faultkv"
)

func xspec(g *chainkit.Gen, n uint64, ver uint64, rich bool) chainkit.BlockSpec {
	addr := *chainkit.F(0x100)
	d := chainkit.EmptyDiff()
	classes := map[felt.Felt]core.ClassDefinition{}
	if n == 0 {
		ch, cls := g.Cairo0Class()
		d.DeclaredV0Classes = append(d.DeclaredV0Classes, &ch)
		classes[ch] = cls
		d.DeployedContracts[addr] = &ch
	}
	d.StorageDiffs[addr] = map[felt.Felt]*felt.Felt{*chainkit.F(1): chainkit.F(1000*n + ver)}
	var txs []core.Transaction
	var rcs []*core.TransactionReceipt
	if rich {
		tx := g.Tx("invoke3")
		txs = append(txs, tx)
		fa := chainkit.F(0x100)
		rcs = append(rcs, g.Receipt(tx, []*core.Event{{From: fa, Keys: []felt.Felt{*chainkit.F(100000 + 10*n + ver)}, Data: []felt.Felt{*chainkit.F(n)}}}))
	}
	return chainkit.BlockSpec{Classes: classes, Diff: d, Txs: txs, Receipts: rcs, Timestamp: 1000 + n}
}

func xevents(bc *blockchain.Blockchain, key *felt.Felt, from, to uint64) ([]uint64, error) {
	f, err := bc.EventFilter(nil, [][]felt.Felt{{*key}}, func() (blockchain.PreConfirmedReader, error) { return nil, nil })
	if err != nil {
		return nil, err
	}
	defer f.Close()
	_ = f.SetRangeEndBlockByNumber(blockchain.EventFilterFrom, from)
	_ = f.SetRangeEndBlockByNumber(blockchain.EventFilterTo, to)
	evs, _, err := f.Events(nil, 1000)
	if err != nil {
		return nil, err
	}
	var out []uint64
	for _, e := range evs {
		out = append(out, e.BlockNumber)
	}
	return out, nil
}

func TestExploreBoundary(t *testing.T) {
	if os.Getenv("VX") == "" {
		t.Skip()
	}
	for _, newState := range []bool{false, true} {
		t0 := time.Now()
		mem := memory.New()
		n := chainkit.NewNode(mem, newState)
		g := chainkit.NewGen(1)
		for i := uint64(0); i <= 8192; i++ {
			if _, err := n.Append(xspec(g, i, 1, i >= 8188)); err != nil {
				t.Fatal(err)
			}
		}
		t.Logf("newState=%v built 8193 blocks in %v", newState, time.Since(t0))
		t0 = time.Now()
		img := mem.Copy()
		t.Logf("copy %v", time.Since(t0))
		_ = img
		// revert across boundary, ungraceful restart, store
		for i := 0; i < 3; i++ {
			if err := n.BC.RevertHead(); err != nil {
				t.Fatal(err)
			}
		}
		h, _ := n.BC.Height()
		t.Logf("height after reverts %d", h)
		// same node: store next
		b, err := n.Build(xspec(g, h+1, 2, true))
		if err != nil {
			t.Fatal(err)
		}
		n2 := n.Restart()
		err = n2.StoreBuilt(b)
		t.Logf("newState=%v store after revert-across-boundary + ungraceful restart: err=%v", newState, err)
		n3 := chainkit.NewNode(mem.Copy(), newState)
		err = n3.StoreBuilt(b)
		t.Logf("   second restart: err=%v", err)
		err = n.StoreBuilt(b)
		t.Logf("   same process: err=%v", err)
	}
}

func TestExploreCounts(t *testing.T) {
	if os.Getenv("VX") == "" {
		t.Skip()
	}
	for _, newState := range []bool{false, true} {
		fk := faultkv.Wrap(memory.New())
		n := chainkit.NewNode(fk, newState)
		g := chainkit.NewGen(1)
		for i := uint64(0); i < 4; i++ {
			b, err := n.Build(xspec(g, i, 1, true))
			if err != nil {
				t.Fatal(err)
			}
			fk.Arm(faultkv.Off, 0, nil)
			if err := n.StoreBuilt(b); err != nil {
				t.Fatal(err)
			}
			t.Logf("newState=%v store %d: %d mutations %v", newState, i, fk.Count(), fk.Trace)
		}
		fk.Arm(faultkv.Off, 0, nil)
		_ = n.BC.RevertHead()
		t.Logf("revert: %d mutations %v", fk.Count(), fk.Trace)
		fk.Arm(faultkv.Off, 0, nil)
		_ = n.BC.SetL1Head(&core.L1Head{BlockNumber: 1, BlockHash: chainkit.F(1), StateRoot: chainkit.F(2)})
		t.Logf("setl1: %d mutations %v", fk.Count(), fk.Trace)
		fk.Arm(faultkv.Off, 0, nil)
		_ = n.BC.WriteRunningEventFilter()
		t.Logf("snapshot: %d mutations %v", fk.Count(), fk.Trace)
		// H3
		fk.Arm(faultkv.FailAt, 1, nil)
		err := n.BC.RevertHead()
		fk.Disarm()
		h, _ := n.BC.Height()
		var res []string
		for b := uint64(0); b <= h; b++ {
			ev, err := xevents(n.BC, chainkit.F(100000+10*b+1), 0, h)
			res = append(res, fmt.Sprint(b, ev, err))
		}
		t.Logf("failed revert err=%v height=%d events=%v", err, h, res)
	}
}

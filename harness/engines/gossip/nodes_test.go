//go:build verif

package gossip

import (
	"context"
	"fmt"
	"reflect"
	"sync"
	"testing"
	"time"

	"github.com/NethermindEth/juno/builder"
	"github.com/NethermindEth/juno/consensus/p2p"
	"github.com/NethermindEth/juno/consensus/p2p/config"
	"github.com/NethermindEth/juno/consensus/proposal"
	"github.com/NethermindEth/juno/consensus/starknet"
	"github.com/NethermindEth/juno/consensus/types"
	"github.com/NethermindEth/juno/core/felt"
	_ "github.com/NethermindEth/juno/encoder/registry"
	pubsubtestutils "github.com/NethermindEth/juno/p2p/pubsub/testutils"
	"github.com/NethermindEth/juno/utils/log"

	"verifharness/internal/chainkit"
	"verifharness/internal/vh"
)

type nodesInput struct {
	Nodes int `json:"nodes"`
	Votes int `json:"votes"` // per node and kind
}

// TestGossipNodes: the REAL consensus p2p service (p2p.New: both topics, vote broadcaster + vote
// listeners + proposal machinery attached as node.go does) on libp2p hosts over the loopback
// interface, gossipsub with the DHT discovery of p2p/pubsub.Run. Every node broadcasts prevotes and
// precommits through Broadcasters(); checked at every node's Listeners(): every vote of every node
// (its own included — gossipsub echoes) arrives exactly once, unchanged, on the channel of its
// kind; Run returns on cancellation and leaves nothing behind.
func TestGossipNodes(t *testing.T) {
	if !vh.Enabled() {
		t.Skip("driver only")
	}
	var in nodesInput
	if err := vh.Input(&in); err != nil {
		t.Fatal(err)
	}
	out := vh.NewResult()
	defer out.Write()
	if in.Nodes == 0 {
		in.Nodes = 3
	}
	if in.Votes == 0 {
		in.Votes = 8
	}
	hosts := pubsubtestutils.BuildNetworks(t, pubsubtestutils.LineNetworkConfig(in.Nodes))
	ctx, cancel := context.WithCancel(context.Background())
	defer cancel()
	sizes := config.DefaultBufferSizes
	sizes.RetryInterval = 50 * time.Millisecond
	svcs := make([]p2p.P2P[starknet.Value, starknet.Hash, starknet.Address], in.Nodes)
	runDone := make([]chan error, in.Nodes)
	for i := range hosts {
		node := chainkit.NewNode(nil, false)
		bld := builder.New(node.BC, nil)
		store := proposal.ProposalStore[starknet.Hash]{}
		svcs[i] = p2p.New(hosts[i].Host, log.NewNopZapLogger(), &bld, &store, types.Height(1), &sizes, hosts[i].GetBootstrapPeers, nil)
		runDone[i] = make(chan error, 1)
		go func(i int) { runDone[i] <- svcs[i].Run(ctx) }(i)
	}
	mkVote := func(node, k int, kind string) starknet.Vote {
		v := starknet.Vote{MessageHeader: starknet.MessageHeader{Height: types.Height(1 + k/4), Round: types.Round(k % 4),
			Sender: felt.FromUint64[starknet.Address](uint64(100 + node))}}
		if k%3 != 0 {
			off := uint64(0)
			if kind == "pc" {
				off = 5000
			}
			v.ID = felt.NewFromUint64[starknet.Hash](uint64(1000*node+k) + off)
		}
		return v
	}
	type key struct {
		kind          string
		node, h, r    int
	}
	var mu sync.Mutex
	got := make([]map[key][]starknet.Vote, in.Nodes)
	stop := make(chan struct{})
	var cw sync.WaitGroup
	for i := range svcs {
		got[i] = map[key][]starknet.Vote{}
		cw.Add(1)
		go func(i int) {
			defer cw.Done()
			ls := svcs[i].Listeners()
			for {
				var v starknet.Vote
				kind := "pv"
				select {
				case p := <-ls.PrevoteListener.Listen():
					v = starknet.Vote(*p)
				case p := <-ls.PrecommitListener.Listen():
					v, kind = starknet.Vote(*p), "pc"
				case <-stop:
					return
				}
				s := felt.Felt(v.Sender)
				k := key{kind, int(s.Uint64()) - 100, int(v.Height), int(v.Round)}
				mu.Lock()
				got[i][k] = append(got[i][k], v)
				mu.Unlock()
			}
		}(i)
	}
	// the broadcaster loops sleep two heartbeat delays before they publish; the mesh needs a moment more
	time.Sleep(1500 * time.Millisecond)
	for k := 0; k < in.Votes; k++ {
		for i := range svcs {
			pv, pc := mkVote(i, k, "pv"), mkVote(i, k, "pc")
			svcs[i].Broadcasters().PrevoteBroadcaster.Broadcast(ctx, (*types.Prevote[starknet.Hash, starknet.Address])(&pv))
			svcs[i].Broadcasters().PrecommitBroadcaster.Broadcast(ctx, (*types.Precommit[starknet.Hash, starknet.Address])(&pc))
		}
	}
	want := in.Nodes * in.Votes * 2
	deadline := time.Now().Add(60 * time.Second)
	for {
		mu.Lock()
		done := true
		for i := range got {
			if len(got[i]) < want {
				done = false
			}
		}
		mu.Unlock()
		if done || time.Now().After(deadline) {
			break
		}
		time.Sleep(10 * time.Millisecond)
	}
	time.Sleep(400 * time.Millisecond) // duplicates or strays would arrive now
	mu.Lock()
	for i := range got {
		for n := 0; n < in.Nodes; n++ {
			for k := 0; k < in.Votes; k++ {
				for _, kind := range []string{"pv", "pc"} {
					wv := mkVote(n, k, kind)
					vs := got[i][key{kind, n, int(wv.Height), int(wv.Round)}]
					switch {
					case len(vs) == 0:
						out.Diverge(vh.Divergence{Key: "gossip:nodes:vote-not-delivered", Input: in,
							What: fmt.Sprintf("node %d never received the %s %d of node %d (60 s)", i, kind, k, n)})
					case len(vs) > 1:
						out.Diverge(vh.Divergence{Key: "gossip:nodes:vote-delivered-twice", Input: in,
							What: fmt.Sprintf("node %d received the %s %d of node %d %d times", i, kind, k, n, len(vs))})
					case !reflect.DeepEqual(vs[0], wv):
						out.Diverge(vh.Divergence{Key: "gossip:nodes:vote-changed-in-transit", Input: in, Expected: fmt.Sprintf("%+v", wv), Observed: fmt.Sprintf("%+v", vs[0]),
							What: fmt.Sprintf("node %d received the %s %d of node %d changed (or on the other kind's channel)", i, kind, k, n)})
					}
				}
			}
		}
		if len(got[i]) > want {
			out.Diverge(vh.Divergence{Key: "gossip:nodes:stray-vote", Input: in, What: fmt.Sprintf("node %d received %d distinct votes, %d were broadcast", i, len(got[i]), want)})
		}
	}
	mu.Unlock()
	out.Count("nodes_votes_checked", want*in.Nodes)
	// OnCommit is part of the service's interface: it must not block for ever on a live service
	ocDone := make(chan struct{})
	go func() { svcs[0].OnCommit(ctx, 1, starknet.Value{}); close(ocDone) }()
	select {
	case <-ocDone:
	case <-time.After(5 * time.Second):
		out.Diverge(vh.Divergence{Key: "gossip:nodes:oncommit-blocked", Input: in, What: "P2P.OnCommit blocked for 5 s on a running service"})
	}
	cancel()
	close(stop)
	cw.Wait()
	for i := range runDone {
		select {
		case err := <-runDone[i]:
			if err != nil {
				out.Diverge(vh.Divergence{Key: "gossip:nodes:run-error", Input: in, What: fmt.Sprintf("p2p.Run of node %d returned %v", i, err)})
			}
		case <-time.After(20 * time.Second):
			out.Diverge(vh.Divergence{Key: "gossip:nodes:run-not-stopped-by-cancel", Input: in,
				What: fmt.Sprintf("p2p.Run of node %d has not returned 20 s after the cancellation", i), Observed: shorten(junoGoroutines(false), 12)})
		}
	}
	out.Done(1, want)
}

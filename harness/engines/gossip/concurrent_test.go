//go:build verif

package gossip

import (
	"context"
	"encoding/json"
	"fmt"
	"math/rand"
	"os"
	"sync"
	"sync/atomic"
	"testing"
	"time"

	"github.com/NethermindEth/juno/consensus/p2p/config"
	"github.com/NethermindEth/juno/consensus/p2p/vote"
	"github.com/NethermindEth/juno/consensus/starknet"

	"verifharness/internal/vh"
)

type concInput struct {
	Out           string `json:"out"`
	TraceRounds   int    `json:"trace_rounds"`
	MonitorRounds int    `json:"monitor_rounds"`
	QCap          int    `json:"qcap"`
	SubCap        int    `json:"subcap"`
	OutCap        int    `json:"outcap"`
	Rebro         bool   `json:"rebro"`
	// replay of one monitored round: its logged events
	Events []map[string]any `json:"events,omitempty"`
	Shape  *concInput       `json:"shape,omitempty"`
}

func asInt(v any) int {
	switch x := v.(type) {
	case int:
		return x
	case float64:
		return int(x)
	}
	return 0
}

type evlog struct {
	mu    sync.Mutex
	lines []map[string]any
}

func (l *evlog) add(ev map[string]any) {
	l.mu.Lock()
	l.lines = append(l.lines, ev)
	l.mu.Unlock()
}

// with runs f and appends the event in one critical section (the event's cause is exclusive).
func (l *evlog) with(f func() map[string]any) {
	l.mu.Lock()
	if ev := f(); ev != nil {
		l.lines = append(l.lines, ev)
	}
	l.mu.Unlock()
}

// TestGossipConcurrent: free-running rounds in real time on an in-memory network. The first
// trace_rounds rounds are small and written as an ndjson trace for GossipTrace.tla; all rounds are
// judged by monitors that are Gossip.tla's properties evaluated on the logged history.
func TestGossipConcurrent(t *testing.T) {
	if !vh.Enabled() {
		t.Skip("driver only")
	}
	var in concInput
	if err := vh.Input(&in); err != nil {
		t.Fatal(err)
	}
	out := vh.NewResult()
	defer out.Write()
	if in.Events != nil { // --replay of a monitored round
		sh := in.Shape
		if sh == nil {
			sh = &in
		}
		if d := monitorRound(sh, in.Events); d != nil {
			d.Input = in
			out.Diverge(*d)
		}
		out.Done(1, len(in.Events))
		return
	}
	f, err := os.Create(in.Out)
	if err != nil {
		t.Fatal(err)
	}
	defer f.Close()
	var rounds []map[string]any
	nLines := 0
	total := in.TraceRounds + in.MonitorRounds
	type result struct {
		idx   int
		lines []map[string]any
		dv    *vh.Divergence
	}
	results := make([]result, total)
	var wg sync.WaitGroup
	sem := make(chan struct{}, 6)
	for r := 0; r < total; r++ {
		wg.Add(1)
		sem <- struct{}{}
		go func(r int) {
			defer wg.Done()
			defer func() { <-sem }()
			small := r < in.TraceRounds
			lines, dv := concRound(&in, vh.Seed()*100003+int64(r), small)
			results[r] = result{r, lines, dv}
		}(r)
	}
	wg.Wait()
	for r, res := range results {
		if res.dv != nil {
			res.dv.Input = vh.J{"round": r, "seed": vh.Seed(), "shape": in}
			out.Diverge(*res.dv)
			continue
		}
		if d := monitorRound(&in, res.lines); d != nil {
			d.Input = vh.J{"round": r, "seed": vh.Seed(), "shape": in, "events": res.lines}
			out.Diverge(*d)
			continue
		}
		out.Count("concurrent_rounds_monitored", 1)
		out.Count("concurrent_events", len(res.lines))
		if r < in.TraceRounds {
			first := nLines + 1
			for _, l := range append([]map[string]any{{"ev": "Reset"}}, res.lines...) {
				b, _ := json.Marshal(l)
				f.Write(append(b, '\n'))
				nLines++
			}
			rounds = append(rounds, map[string]any{"round": r, "first": first, "last": nLines})
		}
	}
	out.Stats["rounds"] = rounds
	out.Done(0, nLines)
	if gs := settleNoJunoGoroutines(5 * time.Second); len(gs) > 0 && len(out.Divergences) == 0 {
		out.Diverge(vh.Divergence{Key: "gossip:goroutine-leak", What: "goroutines running juno code are left after the concurrent rounds", Observed: shorten(gs, 10), Input: vh.J{}})
	}
}

func concRound(in *concInput, seed int64, small bool) (lines []map[string]any, dv *vh.Divergence) {
	defer recoverAsDivergence("concurrent", 0, &dv)
	rng := rand.New(rand.NewSource(seed))
	var okPubs, envGood, takesN, dropsGood atomic.Int64
	w, err := newWorld(3)
	if err != nil {
		panic("harness: " + err.Error())
	}
	defer w.close()
	log := &evlog{}
	lgA, lgB := newSpyLogger(), newSpyLogger()
	rin := &replayInput{QCap: in.QCap, SubCap: in.SubCap, OutCap: in.OutCap, Rebro: in.Rebro, RetryI: 1, RebI: 1}
	snd := newSenderTimed(lgA, rin, keyOfT, classOfT, 3*time.Millisecond, 25*time.Millisecond)
	lst := vote.NewVoteListeners[starknet.Value](lgB, vote.StarknetVoteAdapter,
		&config.BufferSizes{VoteSubscription: in.SubCap, PrevoteOutput: in.OutCap, PrecommitOutput: in.OutCap})
	var rmu sync.Mutex
	rejectP := 25
	w.gate.onLocal = func(id int) bool {
		rmu.Lock()
		ok := rng.Intn(100) >= rejectP
		rmu.Unlock()
		log.add(map[string]any{"ev": "Pub", "m": id, "ok": ok})
		if ok {
			okPubs.Add(1)
		}
		return ok
	}
	w.tracerHook(func(id int) {
		log.add(map[string]any{"ev": "Drop", "m": id})
		if classOfT(id) != "junk" {
			dropsGood.Add(1)
		}
	})

	ctxA, cancelA := context.WithCancel(context.Background())
	ctxB, cancelB := context.WithCancel(context.Background())
	defer cancelA()
	defer cancelB()
	doneA, doneB := make(chan struct{}), make(chan struct{})
	go func() { defer close(doneB); lst.Loop(ctxB, w.topics[1]) }()
	// B's subscription must be known to A and E before anything is published
	deadline := time.Now().Add(5 * time.Second)
	for len(w.topics[0].ListPeers()) == 0 || len(w.topics[2].ListPeers()) == 0 {
		if time.Now().After(deadline) {
			panic("harness: the subscription was not announced")
		}
		time.Sleep(2 * time.Millisecond)
	}
	go func() { defer close(doneA); snd.loop(ctxA, w.topics[0]) }()

	nOwn, nEnv := 12, 6
	if small {
		nOwn, nEnv = 5, 3
	}
	var callers sync.WaitGroup
	var next atomic.Int32
	for c := 1; c <= 2; c++ {
		callers.Add(1)
		go func(c int) {
			defer callers.Done()
			for {
				var m int
				// the id is drawn and the call announced in one step: ids are handed out in call order
				log.with(func() map[string]any {
					m = int(next.Add(1))
					if m > nOwn {
						return nil
					}
					return map[string]any{"ev": "BStart", "c": c, "m": m}
				})
				if m > nOwn {
					return
				}
				snd.broadcast(ctxA, m)
				res := "sent"
				log.add(map[string]any{"ev": "BEnd", "c": c, "m": m, "res": res})
				time.Sleep(time.Duration(rng63(seed, c, m)%4) * time.Millisecond)
			}
		}(c)
	}
	var envWG sync.WaitGroup
	envWG.Add(1)
	go func() {
		defer envWG.Done()
		for i := 0; i < nEnv; i++ {
			m := 101 + i
			var b []byte
			if classOfT(m) == "junk" {
				b = junkBytes(m)
			} else {
				v := voteOf(m, keyOfT(m))
				msg, _ := vote.StarknetVoteAdapter.FromVote(&v, wireType(classOfT(m)))
				b = mustMarshal(&msg)
				envGood.Add(1)
			}
			log.add(map[string]any{"ev": "EnvPub", "m": m})
			if err := w.topics[2].Publish(context.Background(), b); err != nil {
				panic("harness: peer publish: " + err.Error())
			}
			time.Sleep(time.Duration(rng63(seed, 9, m)%5) * time.Millisecond)
		}
	}()
	// the consumer: sometimes slow, so that buffers fill
	stopConsumer := make(chan struct{})
	consumerDone := make(chan struct{})
	go func() {
		defer close(consumerDone)
		for {
			select {
			case p := <-lst.PrevoteListener.Listen():
				log.add(map[string]any{"ev": "Take", "k": "pv", "m": int(p.Round), "h": int(p.Height)})
				takesN.Add(1)
			case p := <-lst.PrecommitListener.Listen():
				log.add(map[string]any{"ev": "Take", "k": "pc", "m": int(p.Round), "h": int(p.Height)})
				takesN.Add(1)
			case <-stopConsumer:
				return
			}
			time.Sleep(time.Duration(rng63(seed, 7, len(log.lines))%3) * time.Millisecond)
		}
	}()
	callers.Wait()
	envWG.Wait()
	// let the tail of the traffic (retries, a rebroadcast burst or two) through
	time.Sleep(time.Duration(60+rng63(seed, 5, 5)%40) * time.Millisecond)
	log.add(map[string]any{"ev": "CancelA"})
	cancelA()
	select {
	case <-doneA:
	case <-time.After(5 * time.Second):
		lgA.kill.Store(true)
		return nil, &vh.Divergence{Key: "gossip:broadcaster:loop-not-stopped-by-cancel", What: "ProtoBroadcaster.Loop has not returned 5 s after its context was cancelled (free-running round)",
			Observed: shorten(junoGoroutines(false), 10)}
	}
	// what is still in flight arrives (every accepted publication is handed out or dropped by pubsub); then the listener is cancelled
	for dl := time.Now().Add(5 * time.Second); takesN.Load()+dropsGood.Load() < okPubs.Load()+envGood.Load() && time.Now().Before(dl); {
		time.Sleep(2 * time.Millisecond)
	}
	time.Sleep(10 * time.Millisecond)
	log.add(map[string]any{"ev": "CancelB"})
	cancelB()
	select {
	case <-doneB:
	case <-time.After(5 * time.Second):
		lgB.kill.Store(true)
		return nil, &vh.Divergence{Key: "gossip:subscription:loop-not-stopped-by-cancel", What: "TopicSubscription.Loop has not returned 5 s after its context was cancelled (free-running round)",
			Observed: shorten(junoGoroutines(false), 10)}
	}
	close(stopConsumer)
	<-consumerDone
	w.gate.onLocal = func(int) bool { return true }
	log.add(map[string]any{"ev": "End"})
	log.mu.Lock()
	defer log.mu.Unlock()
	return log.lines, nil
}

func rng63(seed int64, a, b int) int64 {
	x := uint64(seed)*6364136223846793005 + uint64(a)*1442695040888963407 + uint64(b)*2862933555777941757
	x ^= x >> 29
	return int64(x >> 3)
}

// monitorRound: Gossip.tla's properties on the logged history of one round.
func monitorRound(in *concInput, lines []map[string]any) *vh.Divergence {
	type pubT struct{ first, re int }
	pubOK := map[int]*pubT{}
	started := map[int]int{} // m -> caller
	ended := map[int]bool{}
	firstOrder := []int{}
	lastFirstOfKey := map[int]int{}
	envPub := map[int]bool{}
	takes := map[int]int{}
	drops := map[int]int{}
	attemptsAfterFail := map[int]int{}
	for i, e := range lines {
		ev, _ := e["ev"].(string)
		m := asInt(e["m"])
		switch ev {
		case "BStart":
			started[m] = asInt(e["c"])
		case "BEnd":
			ended[m] = true
		case "Pub":
			if _, ok := started[m]; !ok {
				return &vh.Divergence{Key: "gossip:monitor:published-what-was-never-broadcast", Step: i, What: fmt.Sprintf("a publish attempt for message %d that no caller handed to Broadcast", m)}
			}
			p := pubOK[m]
			if p == nil {
				p = &pubT{}
				pubOK[m] = p
			}
			ok := e["ok"].(bool)
			if p.first == 0 {
				if ok {
					p.first = 1
					firstOrder = append(firstOrder, m)
					lastFirstOfKey[keyOfT(m)] = m
				} else {
					attemptsAfterFail[m]++
				}
				continue
			}
			// a re-send
			if !in.Rebro {
				return &vh.Divergence{Key: "gossip:monitor:resend-without-strategy", Step: i, What: fmt.Sprintf("message %d was published again although the broadcaster has no rebroadcast strategy", m)}
			}
			if lastFirstOfKey[keyOfT(m)] != m {
				return &vh.Divergence{Key: "gossip:rebroadcast:resends-a-replaced-message", Step: i,
					What: fmt.Sprintf("message %d (key %d) was re-sent although %d, published later under the same key, replaced it", m, keyOfT(m), lastFirstOfKey[keyOfT(m)])}
			}
			if ok {
				p.re++
			}
		case "EnvPub":
			envPub[m] = true
		case "Take":
			if classOfT(m) == "junk" || classOfT(m) != e["k"].(string) {
				return &vh.Divergence{Key: "gossip:listener:wrong-channel-or-malformed-delivered", Step: i, What: fmt.Sprintf("message %d (class %s) came out of the %s channel", m, classOfT(m), e["k"])}
			}
			if asInt(e["h"]) != keyOfT(m) {
				return &vh.Divergence{Key: "gossip:listener:vote-changed-in-transit", Step: i, What: fmt.Sprintf("message %d arrived with height %d", m, asInt(e["h"]))}
			}
			takes[m]++
			avail := 0
			if m > 100 {
				if envPub[m] {
					avail = 1
				}
			} else if p := pubOK[m]; p != nil {
				avail = p.first + p.re
			}
			if takes[m]+drops[m] > avail {
				return &vh.Divergence{Key: "gossip:listener:delivered-more-often-than-published", Step: i, What: fmt.Sprintf("message %d was handed out %d times (+%d dropped), published %d times", m, takes[m], drops[m], avail)}
			}
		case "Drop":
			drops[m]++
		}
	}
	// per caller the first publications follow the call order, and nothing a caller handed over is skipped
	lastOf := map[int]int{}
	for _, m := range firstOrder {
		c := started[m]
		if m < lastOf[c] {
			return &vh.Divergence{Key: "gossip:broadcaster:first-publications-out-of-order", What: fmt.Sprintf("caller %d: message %d was first published after message %d", c, m, lastOf[c])}
		}
		lastOf[c] = m
	}
	for m := range ended {
		if p := pubOK[m]; (p == nil || p.first == 0) && m < lastOf[started[m]] {
			return &vh.Divergence{Key: "gossip:broadcaster:message-skipped",
				What: fmt.Sprintf("caller %d: Broadcast(%d) returned and its later message %d was published, %d never was", started[m], m, lastOf[started[m]], m)}
		}
	}
	// the listener drained before it was cancelled: every well-formed message that was published was handed out or dropped by pubsub
	for m, p := range pubOK {
		if n := p.first + p.re; takes[m]+drops[m] != n {
			return &vh.Divergence{Key: "gossip:listener:published-message-neither-delivered-nor-dropped",
				What: fmt.Sprintf("message %d was published %d times; the listener handed it out %d times, pubsub dropped it %d times for the full buffer", m, n, takes[m], drops[m])}
		}
	}
	for m := range envPub {
		if classOfT(m) != "junk" && takes[m]+drops[m] != 1 {
			return &vh.Divergence{Key: "gossip:listener:published-message-neither-delivered-nor-dropped",
				What: fmt.Sprintf("the peer's message %d was handed out %d times and dropped %d times", m, takes[m], drops[m])}
		}
	}
	return nil
}

//go:build verif

package gossip

import (
	"context"
	"fmt"
	"iter"
	"reflect"
	"sync"
	"sync/atomic"
	"testing"
	"testing/synctest"
	"time"

	"github.com/NethermindEth/juno/consensus/driver"
	"github.com/NethermindEth/juno/consensus/p2p"
	"github.com/NethermindEth/juno/consensus/proposal"
	"github.com/NethermindEth/juno/consensus/starknet"
	consensusSync "github.com/NethermindEth/juno/consensus/sync"
	"github.com/NethermindEth/juno/consensus/tendermint"
	"github.com/NethermindEth/juno/consensus/types"
	"github.com/NethermindEth/juno/consensus/types/wal"
	"github.com/NethermindEth/juno/core/felt"
	p2psync "github.com/NethermindEth/juno/p2p/sync"
	"github.com/NethermindEth/juno/p2p/starknetp2p"
	"github.com/NethermindEth/juno/utils/log"

	"verifharness/internal/chainkit"
	"verifharness/internal/vh"
)

// ---------------------------------------------------------------- consensus environment

const nVals = 4

func vaddr(i int) starknet.Address { return felt.FromUint64[starknet.Address](uint64(i)) }

// csValidators: four validators of power 1, proposer of (h, r) = validator (h + r) % 4 + 1, and —
// as consensus/mock.go — the whole voting power for the catch-up placeholder sender.
type csValidators struct{}

func (csValidators) TotalVotingPower(types.Height) types.VotingPower { return nVals }
func (csValidators) ValidatorVotingPower(_ types.Height, a *starknet.Address) types.VotingPower {
	if a != nil && *a == consensusSync.SyncProtocolPrecommitSender {
		return nVals
	}
	for v := 1; v <= nVals; v++ {
		if *a == vaddr(v) {
			return 1
		}
	}
	return 0
}
func (csValidators) Proposer(h types.Height, r types.Round) starknet.Address {
	return vaddr((int(h)+int(r))%nVals + 1)
}

type csApp struct{}

func (csApp) Value() starknet.Value     { return starknet.Value(felt.FromUint64[felt.Hash](424242)) }
func (csApp) Valid(starknet.Value) bool { return true }

// effects: everything the driver does to its environment besides fetching and committing
type csEnv struct {
	mu   sync.Mutex
	effs []string
}

func (e *csEnv) eff(s string) {
	e.mu.Lock()
	e.effs = append(e.effs, s)
	e.mu.Unlock()
}

func (e *csEnv) n() int {
	e.mu.Lock()
	defer e.mu.Unlock()
	return len(e.effs)
}

type csWAL struct{ e *csEnv }

func (w csWAL) Flush() error { return nil }
func (w csWAL) LoadAllEntries() iter.Seq2[wal.Entry[starknet.Value, starknet.Hash, starknet.Address], error] {
	return func(func(wal.Entry[starknet.Value, starknet.Hash, starknet.Address], error) bool) {}
}
func (w csWAL) SetWALEntry(en wal.Entry[starknet.Value, starknet.Hash, starknet.Address]) error {
	w.e.eff(fmt.Sprintf("wal:%T:%d", en, en.GetHeight()))
	return nil
}
func (w csWAL) DeleteWALEntries(types.Height) error { return nil }
func (w csWAL) Close() error                        { return nil }

type csBcast[M any] struct {
	e    *csEnv
	kind string
}

func (b csBcast[M]) Broadcast(context.Context, M) { b.e.eff("bcast:" + b.kind) }

type csListener[M any] struct{ ch chan M }

func (l csListener[M]) Listen() <-chan M { return l.ch }

// ---------------------------------------------------------------- replay

type csAct struct {
	Name string `json:"name"`
	N    int    `json:"n"`
	I    int    `json:"i"`
	O    string `json:"o"`
}

type csCommit struct {
	X   int    `json:"x"`
	Via string `json:"via"`
	B   int    `json:"b"`
}

type csProj struct {
	H       int        `json:"h"`
	Lts     int        `json:"lts"`
	Lqs     int        `json:"lqs"`
	Lqd     int        `json:"lqd"`
	Parked  []int      `json:"parked"`
	Commits []csCommit `json:"commits"`
	Dup     int        `json:"dup"`
	Chan    int        `json:"chan"`
}

type csStep struct {
	A   csAct  `json:"a"`
	Pre csProj `json:"pre"`
}

type csInput struct {
	H0         int        `json:"h0"`
	MaxH       int        `json:"maxh"`
	Behaviours [][]csStep `json:"behaviours"`
}

var (
	csWorldOnce sync.Once
	csWorld     *syncWorld
	csWorldErr  error
)

func theSyncWorld(maxH int) (*syncWorld, error) {
	csWorldOnce.Do(func() {
		csWorld, csWorldErr = newSyncWorld(maxH, func(x int) *felt.Felt {
			a := csValidators{}.Proposer(types.Height(x), 0)
			f := felt.Felt(a)
			return &f
		}, chainkit.NewGen(vh.Seed()))
	})
	return csWorld, csWorldErr
}

// TestConsensusSyncReplay: TLC-simulated behaviours of ConsensusSync.tla on the real driver.
func TestConsensusSyncReplay(t *testing.T) {
	if !vh.Enabled() {
		t.Skip("driver only")
	}
	var in csInput
	if err := vh.Input(&in); err != nil {
		t.Fatal(err)
	}
	out := vh.NewResult()
	defer out.Write()
	w, err := theSyncWorld(in.MaxH)
	if err != nil {
		t.Fatal(err)
	}
	for bi, beh := range in.Behaviours {
		var dv *vh.Divergence
		dl := bubble(t, func(t *testing.T) { dv = replaySync(&in, w, beh, out) })
		if dv == nil && dl != "" {
			dv = &vh.Divergence{Key: "consensus-sync:replay:bubble-deadlock", What: dl, Step: len(beh)}
		}
		if dv != nil {
			n := min(dv.Step+1, len(beh))
			cp := in
			cp.Behaviours = [][]csStep{beh[:n]}
			if n < len(beh) {
				cp.Behaviours = [][]csStep{append(append([]csStep{}, beh[:n]...), csStep{A: csAct{Name: "Stop"}})}
			}
			dv.Input = cp
			out.Diverge(*dv)
			if len(out.Divergences) >= 3 {
				break
			}
		}
		out.Done(1, len(beh))
		if bi == 0 {
			out.Sample(vh.J{"catch_up_behaviour": beh[:min(len(beh), 6)]})
		}
	}
}

type csSUT struct {
	w      *syncWorld
	node   *chainkit.Node
	net    *fakeNet
	peers  *syncPeers
	env    *csEnv
	sm     tendermint.StateMachine[starknet.Value, starknet.Hash, starknet.Address]
	drv    *driver.Driver[starknet.Value, starknet.Hash, starknet.Address]
	store  *proposal.ProposalStore[starknet.Hash]
	propCh chan *starknet.Proposal
	pvCh   chan *starknet.Prevote
	pcCh   chan *starknet.Precommit

	ctx     context.Context
	cancel  context.CancelFunc
	runDone atomic.Bool
	runErr  error

	mu       sync.Mutex
	commits  []csCommit
	via      string // what the step under way is: a commit seen now is "consensus" (Decide) or "sync"
	persistE []string
}

func newCsSUT(in *csInput, w *syncWorld) (*csSUT, error) {
	s := &csSUT{w: w, env: &csEnv{}, net: newFakeNet(), via: "sync",
		propCh: make(chan *starknet.Proposal), pvCh: make(chan *starknet.Prevote), pcCh: make(chan *starknet.Precommit)}
	node, err := w.nodeWith(in.H0)
	if err != nil {
		return nil, err
	}
	s.node = node
	s.peers = w.startPeers(s.net)
	logger := log.NewNopZapLogger()
	bf := p2psync.NewBlockFetcher(node.BC, fakeCompiler{}, s.net, chainkit.Network, logger)
	s.store = &proposal.ProposalStore[starknet.Hash]{}
	toValue := func(f *felt.Felt) starknet.Value { return starknet.Value(*f) }
	extractor := consensusSync.New[starknet.Value, starknet.Hash, starknet.Address](csValidators{}, toValue, s.store)
	commitL := driver.NewCommitListener[starknet.Value, starknet.Hash](logger, s.store)
	s.sm = tendermint.New[starknet.Value, starknet.Hash, starknet.Address](logger, vaddr(9), csApp{}, csValidators{}, types.Height(in.H0))
	timeoutFn := func(st types.Step, r types.Round) time.Duration {
		s.env.eff(fmt.Sprintf("sched:%d:%d", st, r))
		return 1000 * time.Hour
	}
	d := driver.New[starknet.Value, starknet.Hash, starknet.Address](logger, csWAL{s.env}, s.sm, commitL,
		p2p.Broadcasters[starknet.Value, starknet.Hash, starknet.Address]{
			ProposalBroadcaster:  csBcast[*starknet.Proposal]{s.env, "proposal"},
			PrevoteBroadcaster:   csBcast[*starknet.Prevote]{s.env, "prevote"},
			PrecommitBroadcaster: csBcast[*starknet.Precommit]{s.env, "precommit"},
		},
		p2p.Listeners[starknet.Value, starknet.Hash, starknet.Address]{
			ProposalListener: csListener[*starknet.Proposal]{s.propCh}, PrevoteListener: csListener[*starknet.Prevote]{s.pvCh},
			PrecommitListener: csListener[*starknet.Precommit]{s.pcCh},
		}, &bf, &extractor, timeoutFn)
	s.drv = &d
	s.ctx, s.cancel = context.WithCancel(context.Background())
	// the consumer of committed blocks: the part of the node that writes them to the database
	go func() {
		for {
			select {
			case <-s.ctx.Done():
				return
			case cb := <-commitL.Listen():
				b := w.byHash[*cb.Block.Hash]
				var err error
				if b == nil {
					err = fmt.Errorf("a block nobody built: %s", cb.Block.Hash)
				} else {
					err = s.node.StoreBuilt(b)
				}
				s.mu.Lock()
				if err != nil {
					s.persistE = append(s.persistE, err.Error())
				} else {
					s.commits = append(s.commits, csCommit{X: int(cb.Block.Number), Via: s.via, B: w.names[*cb.Block.Hash]})
				}
				s.mu.Unlock()
				cb.Persisted <- err
			}
		}
	}()
	go func() {
		s.runErr = s.drv.Run(s.ctx)
		s.runDone.Store(true)
	}()
	return s, nil
}

func (s *csSUT) driverField(name string) reflect.Value {
	return reflect.ValueOf(s.drv).Elem().FieldByName(name)
}

func (s *csSUT) observe(dup int) csProj {
	st, _ := tendermint.VerifExportState(s.sm)
	s.mu.Lock()
	defer s.mu.Unlock()
	p := csProj{H: int(st.Height), Lts: int(st.LastTriggerSync), Lqs: int(st.LastQuorum), Lqd: int(s.driverField("lastQuorum").Uint()),
		Parked: make([]int, s.net.nParked()), Commits: append([]csCommit{}, s.commits...), Dup: dup, Chan: s.driverField("syncListener").Len()}
	return p
}

// deliver hands a message to the driver's loop (it is always in its select at a quiescent point).
func deliver[M any](s *csSUT, ch chan M, m M) bool {
	select {
	case ch <- m:
		return true
	case <-time.After(time.Minute):
		return false
	}
}

func (s *csSUT) idOf(x int) *starknet.Hash {
	if x < len(s.w.blocks) {
		h := felt.Hash(*s.w.blocks[x].Block.Hash)
		return &h
	}
	return felt.NewFromUint64[starknet.Hash](uint64(777000 + x))
}

func replaySync(in *csInput, w *syncWorld, beh []csStep, out *vh.Result) (dv *vh.Divergence) {
	defer recoverAsDivergence("sync-replay", len(beh), &dv)
	s, err := newCsSUT(in, w)
	if err != nil {
		panic("harness: " + err.Error())
	}
	dup, otherRound := 0, map[int]int{}
	teardown := func(step int) *vh.Divergence {
		s.cancel()
		s.net.setFree("-")
		time.Sleep(time.Second)
		synctest.Wait()
		s.peers.stop()
		synctest.Wait()
		if !s.runDone.Load() {
			return &vh.Divergence{Key: "consensus-sync:driver-not-stopped-by-cancel", Step: step,
				What: "Driver.Run has not returned 1 s after its context was cancelled", Observed: shorten(junoGoroutines(true), 12)}
		}
		if s.runErr != nil {
			return &vh.Divergence{Key: "consensus-sync:driver-run-error", Step: step, What: "Driver.Run returned " + s.runErr.Error()}
		}
		if gs := junoGoroutines(true); len(gs) > 0 {
			return &vh.Divergence{Key: "consensus-sync:goroutine-leak", Step: step, What: "goroutines running juno code are left after Driver.Run returned", Observed: shorten(gs, 12)}
		}
		return nil
	}
	for si, st := range beh {
		synctest.Wait()
		if st.A.Name == "Stop" {
			return teardown(si)
		}
		obs, want := s.observe(dup), st.Pre
		// which height a parked fetch is for shows when it asks its peer: compared at its Fetch step
		want.Parked = make([]int, len(st.Pre.Parked))
		if len(s.persistE) > 0 {
			return &vh.Divergence{Key: "consensus-sync:committed-block-not-storable", Step: si, What: "the committed block cannot be stored on the node's chain: " + s.persistE[0]}
		}
		if !reflect.DeepEqual(obs, want) {
			prev := "Init"
			if si > 0 {
				prev = beh[si-1].A.Name
				if prev == "Fetch" {
					prev += ":" + beh[si-1].A.O
				}
			}
			f := csFirstDiff(obs, want)
			d := &vh.Divergence{Key: "consensus-sync:replay:after-" + prev + ":" + f, Step: si, Expected: want, Observed: obs,
				What: "the quiescent state of the real driver / state machine after " + prev + " differs from ConsensusSync.tla in " + f}
			teardown(si)
			return d
		}
		e0 := s.env.n()
		switch st.A.Name {
		case "Quorum":
			for v := 2; v <= 4; v++ {
				pc := &starknet.Precommit{MessageHeader: starknet.MessageHeader{Height: types.Height(st.A.N), Round: 0, Sender: vaddr(v)}, ID: s.idOf(st.A.N)}
				if !deliver(s, s.pcCh, pc) {
					return &vh.Divergence{Key: "consensus-sync:driver-stuck", Step: si, What: "the driver's loop does not take a precommit"}
				}
				synctest.Wait()
			}
			out.Count("sync_quorums", 1)
		case "Other":
			h := int(s.sm.Height())
			pv := &starknet.Prevote{MessageHeader: starknet.MessageHeader{Height: types.Height(h), Sender: vaddr(2)}, ID: s.idOf(h)}
			if st.A.O == "other" {
				otherRound[h]++
				pv.Round = types.Round(otherRound[h])
			} else {
				pv.Height = types.Height(h - 1)
			}
			if !deliver(s, s.pvCh, pv) {
				return &vh.Divergence{Key: "consensus-sync:driver-stuck", Step: si, What: "the driver's loop does not take a prevote"}
			}
		case "Decide":
			h := int(s.sm.Height())
			b := w.blocks[h]
			// what the proposal stream's validator would have stored for the proposed block
			_, _ = consensusSyncExtract(s, b)
			s.mu.Lock()
			s.via = "consensus"
			s.mu.Unlock()
			val := starknet.Value(*b.Block.Hash)
			prop := &starknet.Proposal{MessageHeader: starknet.MessageHeader{Height: types.Height(h), Round: 0, Sender: csValidators{}.Proposer(types.Height(h), 0)},
				ValidRound: -1, Value: &val}
			if !deliver(s, s.propCh, prop) {
				return &vh.Divergence{Key: "consensus-sync:driver-stuck", Step: si, What: "the driver's loop does not take a proposal"}
			}
			synctest.Wait()
			for v := 2; v <= 4 && int(s.sm.Height()) == h; v++ {
				pc := &starknet.Precommit{MessageHeader: starknet.MessageHeader{Height: types.Height(h), Round: 0, Sender: vaddr(v)}, ID: s.idOf(h)}
				if !deliver(s, s.pcCh, pc) {
					return &vh.Divergence{Key: "consensus-sync:driver-stuck", Step: si, What: "the driver's loop does not take a precommit"}
				}
				synctest.Wait()
			}
			synctest.Wait()
			s.mu.Lock()
			s.via = "sync"
			s.mu.Unlock()
			out.Count("sync_decides", 1)
		case "Fetch":
			if s.net.nParked() < st.A.I {
				panic("harness: no such parked fetch")
			}
			peerName := map[string]string{"block": "A", "err": "", "empty": "short", "fork": fmt.Sprintf("fork%d", st.A.N)}[st.A.O]
			r0 := len(s.net.reqs)
			s.net.release(st.A.I-1, peerName)
			synctest.Wait()
			if st.A.O != "err" {
				s.net.mu.Lock()
				asked := append([]string{}, s.net.reqs[r0:]...)
				s.net.mu.Unlock()
				wantFirst := fmt.Sprintf("%s/%s#%d", peerName, starknetp2p.Sync(chainkit.Network, starknetp2p.HeadersSyncSubProtocol), st.A.N)
				if len(asked) == 0 || asked[0] != wantFirst {
					return &vh.Divergence{Key: "consensus-sync:fetch:wrong-height-requested", Step: si, Expected: wantFirst, Observed: asked,
						What: fmt.Sprintf("the fetch that ConsensusSync.tla started for height %d asked its peer for something else", st.A.N)}
				}
			}
			if st.A.O == "err" && s.env.n() > e0 {
				dup++ // the error body made the driver execute something: the previous event's actions
			}
			out.Count("sync_fetch_"+st.A.O, 1)
		case "End":
			return teardown(si)
		default:
			panic("harness: unknown step " + st.A.Name)
		}
	}
	return teardown(len(beh))
}

// consensusSyncExtract stores the build result of a block in the proposal store the way the real
// MessageExtractor does (a second extractor over the same store).
func consensusSyncExtract(s *csSUT, b *chainkit.Built) (starknet.Proposal, []starknet.Precommit) {
	toValue := func(f *felt.Felt) starknet.Value { return starknet.Value(*f) }
	ex := consensusSync.New[starknet.Value, starknet.Hash, starknet.Address](csValidators{}, toValue, s.store)
	return ex.Extract(&p2psync.BlockBody{Block: b.Block, StateUpdate: b.Update, NewClasses: b.Classes, Commitments: b.Commitments})
}

func csFirstDiff(a, b csProj) string {
	va, vb := reflect.ValueOf(a), reflect.ValueOf(b)
	for i := 0; i < va.NumField(); i++ {
		if !reflect.DeepEqual(va.Field(i).Interface(), vb.Field(i).Interface()) {
			return va.Type().Field(i).Tag.Get("json")
		}
	}
	return "?"
}

// ---------------------------------------------------------------- probes

const (
	kStale = "consensus-sync:error-body-reexecutes-previous-actions"
	kEmpty = "consensus-sync:empty-fetch-never-retried"
)

// TestConsensusSyncProbes: the two modelled defects of the catch-up path with their shortest
// scripts on the real driver, and stated design observations (never verdicts).
func TestConsensusSyncProbes(t *testing.T) {
	if !vh.Enabled() {
		t.Skip("driver only")
	}
	out := vh.NewResult()
	defer out.Write()
	obs := map[string]string{}
	out.Stats["observations"] = obs
	in := &csInput{H0: 1, MaxH: 6}
	w, err := theSyncWorld(in.MaxH)
	if err != nil {
		t.Fatal(err)
	}
	run := func(name string, f func(s *csSUT) *vh.Divergence) {
		var dv *vh.Divergence
		dl := bubble(t, func(t *testing.T) {
			defer recoverAsDivergence("sync-probe", 0, &dv)
			s, err := newCsSUT(in, w)
			if err != nil {
				panic("harness: " + err.Error())
			}
			synctest.Wait()
			dv = f(s)
			s.cancel()
			s.net.setFree("-")
			time.Sleep(time.Second)
			synctest.Wait()
			s.peers.stop()
			synctest.Wait()
			if dv == nil && !s.runDone.Load() {
				dv = &vh.Divergence{Key: "consensus-sync:driver-not-stopped-by-cancel", What: "Driver.Run has not returned 1 s after its context was cancelled (" + name + ")"}
			}
		})
		if dv == nil && dl != "" {
			dv = &vh.Divergence{Key: "consensus-sync:probe:bubble-deadlock", What: name + ": " + dl}
		}
		if dv != nil {
			dv.Input = vh.J{"probe": name}
			out.Diverge(*dv)
		}
		out.Done(1, 1)
	}
	quorum := func(s *csSUT, H int) {
		for v := 2; v <= 4; v++ {
			deliver(s, s.pcCh, &starknet.Precommit{MessageHeader: starknet.MessageHeader{Height: types.Height(H), Round: 0, Sender: vaddr(v)}, ID: s.idOf(H)})
			synctest.Wait()
		}
	}
	// ---- an error body re-executes the actions of the previous event
	run("stale-actions", func(s *csSUT) *vh.Divergence {
		quorum(s, 3)
		if s.net.nParked() != 1 {
			return &vh.Divergence{Key: "consensus-sync:probe:no-fetch-after-quorum", What: fmt.Sprintf("a precommit quorum at height 3 started %d fetches at height 1", s.net.nParked())}
		}
		deliver(s, s.pvCh, &starknet.Prevote{MessageHeader: starknet.MessageHeader{Height: 1, Round: 1, Sender: vaddr(2)}, ID: s.idOf(1)})
		synctest.Wait()
		s.env.mu.Lock()
		before := append([]string{}, s.env.effs...)
		s.env.mu.Unlock()
		s.net.release(0, "") // no peer reachable: ProcessBlock fails, the driver's goroutine sends an error body
		synctest.Wait()
		s.env.mu.Lock()
		after := append([]string{}, s.env.effs[len(before):]...)
		s.env.mu.Unlock()
		if len(after) > 0 {
			return &vh.Divergence{Key: kStale, Expected: []string{}, Observed: after,
				What: "after a failed block fetch the driver executed the actions of the PREVIOUS event a second time (here: the log entry of the prevote it had just " +
					"processed): the error-body branch of Driver.listen does not reset the loop variable `actions` before execute()"}
		}
		return nil
	})
	// ---- a fetch that ends without a body and without an error is never retried
	run("empty-fetch", func(s *csSUT) *vh.Divergence {
		quorum(s, 3)
		if s.net.nParked() != 1 {
			return &vh.Divergence{Key: "consensus-sync:probe:no-fetch-after-quorum", What: "no fetch after the quorum"}
		}
		s.net.release(0, "short") // the peer does not have block 1: every stream ends with Fin
		synctest.Wait()
		time.Sleep(24 * time.Hour)
		synctest.Wait()
		quorum(s, 5) // even a later quorum does not start a fetch: the driver "has a future quorum" already
		time.Sleep(24 * time.Hour)
		synctest.Wait()
		if s.net.nParked() == 0 && int(s.sm.Height()) == 1 {
			return &vh.Divergence{Key: kEmpty, Observed: fmt.Sprintf("height %d, driver.lastQuorum %d, fetches in flight 0, 48 h later", s.sm.Height(), s.driverField("lastQuorum").Uint()),
				What: "a block fetch whose peer did not have the block ended without a body and without an error; the driver never starts another one — not after a day, " +
					"not when a quorum at a higher height arrives (triggerSync only fetches when it had no future quorum before): the node stays at its height for good"}
		}
		return nil
	})
	// ---- observations
	run("fork-block", func(s *csSUT) *vh.Divergence {
		quorum(s, 3)
		s.net.release(0, "fork1")
		synctest.Wait()
		s.mu.Lock()
		defer s.mu.Unlock()
		if len(s.commits) == 1 && s.commits[0].B == 101 {
			obs["fetched-block-committed-unchecked"] = "the precommit quorum was for another block of height 3; the block a peer served for height 1 — an alternative block on the same parent, " +
				"never voted for — was committed at once: the catch-up path commits on the placeholder precommit of consensus/sync.SyncProtocolPrecommitSender, which the mock validator set gives " +
				"the whole voting power (TODO in the code: until precommits travel with the sync protocol)"
		}
		return nil
	})
	// findRound with a sequencer that never proposes
	func() {
		calls := 0
		done := make(chan struct{})
		go func() {
			defer close(done)
			store := &proposal.ProposalStore[starknet.Hash]{}
			ex := consensusSync.New[starknet.Value, starknet.Hash, starknet.Address](countingValidators{&calls}, func(f *felt.Felt) starknet.Value { return starknet.Value(*f) }, store)
			b := w.blocks[1]
			blk := *b.Block
			hd := *blk.Header
			hd.SequencerAddress = felt.NewFromUint64[felt.Felt](0xdead)
			blk.Header = &hd
			ex.Extract(&p2psync.BlockBody{Block: &blk, StateUpdate: b.Update, NewClasses: b.Classes, Commitments: b.Commitments})
		}()
		<-done
		if calls >= 1_000_000 {
			obs["findround-does-not-terminate"] = "MessageExtractor.Extract on a block whose sequencer address proposes no round of that height asked Validators.Proposer for 1 000 000 " +
				"rounds without giving up (the harness ended the goroutine): findRound loops until the address matches — in the driver's own goroutine, not cancellable (marked dangerous in the code)"
		}
	}()
}

// countingValidators never names the sequencer as proposer and ends the calling goroutine after a
// million questions.
type countingValidators struct{ calls *int }

func (countingValidators) TotalVotingPower(types.Height) types.VotingPower { return nVals }
func (countingValidators) ValidatorVotingPower(types.Height, *starknet.Address) types.VotingPower {
	return 1
}
func (c countingValidators) Proposer(h types.Height, r types.Round) starknet.Address {
	*c.calls++
	if *c.calls >= 1_000_000 {
		runtimeGoexit()
	}
	return vaddr(int(r)%nVals + 1)
}

//go:build verif

package gossip

import (
	"context"
	"fmt"
	"reflect"
	"sync"
	"sync/atomic"
	"testing"
	"testing/synctest"
	"time"

	"github.com/NethermindEth/juno/consensus/p2p/buffered"
	"github.com/NethermindEth/juno/consensus/p2p/config"
	"github.com/NethermindEth/juno/consensus/p2p/vote"
	"github.com/NethermindEth/juno/consensus/starknet"
	"github.com/NethermindEth/juno/consensus/types"
	pubsub "github.com/libp2p/go-libp2p-pubsub"
	"github.com/starknet-io/starknet-p2p-specs/p2p/proto/consensus/consensus"
	"google.golang.org/protobuf/proto"

	"verifharness/internal/vh"
)

type gact struct {
	Name string `json:"name"`
	C    int    `json:"c"`
	M    int    `json:"m"`
	O    string `json:"o"`
}

type gproj struct {
	Att     int   `json:"att"`
	Burst   int   `json:"burst"`
	Qlen    int   `json:"qlen"`
	Blocked []int `json:"blocked"`
	Done    bool  `json:"done"`
	Sent    int   `json:"sent"`
	First   []int `json:"first"`
	Nre     int   `json:"nre"`
	Re      []int `json:"re"`
	Closed  bool  `json:"closed"`
	Now     int   `json:"now"`
	OutPv   int   `json:"outpv"`
	OutPc   int   `json:"outpc"`
	GotPv   []int `json:"gotpv"`
	GotPc   []int `json:"gotpc"`
	Drops   []int `json:"drops"`
	Junked  int   `json:"junked"`
	SDone   bool  `json:"sdone"`
}

type gstep struct {
	A   gact  `json:"a"`
	Pre gproj `json:"pre"`
}

type replayInput struct {
	QCap       int       `json:"qcap"`
	SubCap     int       `json:"subcap"`
	OutCap     int       `json:"outcap"`
	Rebro      bool      `json:"rebro"`
	OneKey     bool      `json:"onekey"`   // MCGossip!KeyT1 instead of KeyT
	NoListener bool      `json:"nolistener"` // WithListener = FALSE: the sending side alone
	RetryI     int       `json:"retry"`
	RebI       int       `json:"reb"`
	FixCtx     bool      `json:"fixctx"` // the model in force: TRUE = the loops are expected to stop on any context end / closed topic
	Behaviours [][]gstep `json:"behaviours"`
}

// sender is what the harness needs from either shape of broadcaster.
type sender struct {
	loop      func(ctx context.Context, t *pubsub.Topic)
	broadcast func(ctx context.Context, id int)
	qlen      func() int
}

// newSender builds the REAL sending side: with a rebroadcast strategy the generic
// ProtoBroadcaster[*consensus.Vote] keyed by height (votes converted by the real adapter), without
// one the vote broadcaster exactly as p2p.New builds it.
func newSender(lg *spyLogger, in *replayInput, keyOf func(int) int, classOf func(int) string) *sender {
	return newSenderTimed(lg, in, keyOf, classOf, time.Duration(in.RetryI)*tick, time.Duration(in.RebI)*tick)
}

func newSenderTimed(lg *spyLogger, in *replayInput, keyOf func(int) int, classOf func(int) string, retry, reb time.Duration) *sender {
	if in.Rebro {
		strat := buffered.NewRebroadcastStrategy(reb, func(v *consensus.Vote) uint64 { return v.BlockNumber })
		b := buffered.NewProtoBroadcaster[*consensus.Vote](lg, in.QCap, retry, strat)
		return &sender{
			loop: b.Loop,
			broadcast: func(ctx context.Context, id int) {
				v := voteOf(id, keyOf(id))
				msg, err := vote.StarknetVoteAdapter.FromVote(&v, wireType(classOf(id)))
				if err != nil {
					panic("harness: FromVote: " + err.Error())
				}
				b.Broadcast(ctx, &msg)
			},
			qlen: func() int { return chanLen(b, "ch") },
		}
	}
	vb := vote.NewVoteBroadcaster[starknet.Hash, starknet.Address](lg, vote.StarknetVoteAdapter,
		&config.BufferSizes{VoteProtoBroadcaster: in.QCap, RetryInterval: retry})
	pv, pc := vb.AsPrevoteBroadcaster(), vb.AsPrecommitBroadcaster()
	return &sender{
		loop: vb.Loop,
		broadcast: func(ctx context.Context, id int) {
			v := voteOf(id, keyOf(id))
			if classOf(id) == "pc" {
				pc.Broadcast(ctx, (*types.Precommit[starknet.Hash, starknet.Address])(&v))
			} else {
				pv.Broadcast(ctx, (*types.Prevote[starknet.Hash, starknet.Address])(&v))
			}
		},
		qlen: func() int { return chanLen(&vb, "ProtoBroadcaster", "ch") },
	}
}

func TestGossipReplay(t *testing.T) {
	if !vh.Enabled() {
		t.Skip("driver only")
	}
	var in replayInput
	if err := vh.Input(&in); err != nil {
		t.Fatal(err)
	}
	out := vh.NewResult()
	defer out.Write()
	for bi, beh := range in.Behaviours {
		var dv *vh.Divergence
		dl := bubble(t, func(t *testing.T) { dv = replayGossip(&in, beh, out) })
		if dv == nil && dl != "" {
			dv = &vh.Divergence{Key: "gossip:replay:bubble-deadlock", What: dl, Step: len(beh)}
		}
		if dv != nil {
			n := min(dv.Step+1, len(beh))
			cp := in
			cp.Behaviours = [][]gstep{beh[:n]}
			if n < len(beh) { // the replayed prefix must end with an End entry: it carries the teardown
				cp.Behaviours = [][]gstep{append(append([]gstep{}, beh[:n]...), gstep{A: gact{Name: "Stop"}})}
			}
			dv.Input = cp
			out.Diverge(*dv)
			if len(out.Divergences) >= 3 {
				break
			}
		}
		out.Done(1, len(beh))
		if bi == 0 {
			out.Sample(vh.J{"shape": vh.J{"qcap": in.QCap, "subcap": in.SubCap, "outcap": in.OutCap, "rebro": in.Rebro}, "behaviour": beh[:min(len(beh), 6)]})
		}
	}
}

func replayGossip(in *replayInput, beh []gstep, out *vh.Result) (dv *vh.Divergence) {
	defer recoverAsDivergence("replay", len(beh), &dv)
	w, err := newWorld(3)
	if err != nil {
		panic("harness: world: " + err.Error())
	}
	defer w.close()
	lgA, lgB := newSpyLogger(), newSpyLogger()
	keyOf := keyOfT
	if in.OneKey {
		keyOf = func(int) int { return 1 }
	}
	snd := newSender(lgA, in, keyOf, classOfT)
	lst := vote.NewVoteListeners[starknet.Value](lgB, vote.StarknetVoteAdapter,
		&config.BufferSizes{VoteSubscription: in.SubCap, PrevoteOutput: in.OutCap, PrecommitOutput: in.OutCap})
	// let the hosts learn about each other before the model's time 0
	time.Sleep(2 * time.Second)
	synctest.Wait()

	ctxA, cancelA := context.WithCancel(context.Background())
	ctxB, cancelB := context.WithCancel(context.Background())
	defer cancelA()
	defer cancelB()
	var doneA, doneB atomic.Bool
	if in.NoListener {
		doneB.Store(true)
	} else {
		go func() { defer doneB.Store(true); lst.Loop(ctxB, w.topics[1]) }()
	}
	synctest.Wait() // B's subscription is announced to A and E at the instant the model starts
	go func() { defer doneA.Store(true); snd.loop(ctxA, w.topics[0]) }()

	var mu sync.Mutex
	type call struct {
		c, m     int
		returned atomic.Bool
	}
	var calls []*call
	firstOK := map[int]bool{}
	var first, re, gotPv, gotPc []int
	closed := false
	now := 0

	observe := func() gproj {
		mu.Lock()
		defer mu.Unlock()
		p := gproj{Qlen: snd.qlen(), Done: doneA.Load(), First: append([]int{}, first...), Nre: len(re), Re: sortedCopy(re),
			Closed: closed, Now: now, OutPv: len(lst.PrevoteListener.Listen()), OutPc: len(lst.PrecommitListener.Listen()),
			GotPv: append([]int{}, gotPv...), GotPc: append([]int{}, gotPc...), Drops: w.tracer.drops(),
			Junked: lgB.count(logUnmarshal, logConvert), SDone: doneB.Load(), Blocked: []int{}}
		if in.NoListener {
			p.Drops = []int{}
		}
		if parked, id := w.gate.waiting(); parked {
			if firstOK[id] {
				p.Burst = 1
			} else {
				p.Att = id
			}
		}
		for _, c := range calls {
			if c.returned.Load() {
				p.Sent++
			} else {
				p.Blocked = append(p.Blocked, c.c)
			}
		}
		return p
	}
	normalise := func(want gproj) gproj {
		if want.Burst > 0 {
			want.Burst = 1 // how many re-sends are left in a burst is not observable, that one is under way is
		}
		want.Re = sortedCopy(want.Re) // the burst walks a map: order within a burst is free
		return want
	}
	// release a parked attempt and record the publication
	release := func(ok bool) {
		_, id := w.gate.waiting()
		mu.Lock()
		if ok {
			if firstOK[id] {
				re = append(re, id)
			} else {
				firstOK[id] = true
				first = append(first, id)
			}
		}
		mu.Unlock()
		w.gate.release(ok)
	}

	teardown := func(step int) *vh.Divergence {
		cancelA()
		cancelB()
		for i := 0; i < 40 && !(doneA.Load() && doneB.Load()); i++ {
			synctest.Wait()
			if parked, _ := w.gate.waiting(); parked {
				w.gate.release(true)
			}
			time.Sleep(tick)
		}
		synctest.Wait()
		var d *vh.Divergence
		if !doneA.Load() {
			// the loop no longer answers to its context: end it from inside its next log call
			lgA.kill.Store(true)
			time.Sleep(time.Duration(in.RetryI+1) * tick)
			synctest.Wait()
			if closed {
				if in.FixCtx {
					d = &vh.Divergence{Key: "gossip:broadcaster:closed-topic-retried-after-cancel", Step: step,
						What: "4 s after its context was cancelled ProtoBroadcaster.Loop is still retrying the publication on the closed topic: " +
							"the retry loop treats ErrTopicClosed as transient and never looks at the context"}
				}
			} else {
				d = &vh.Divergence{Key: "gossip:broadcaster:loop-not-stopped-by-cancel", Step: step,
					What: "ProtoBroadcaster.Loop has not returned 4 s after its context was cancelled", Observed: shorten(junoGoroutines(true), 10)}
			}
		}
		if !doneB.Load() && d == nil {
			lgB.kill.Store(true)
			d = &vh.Divergence{Key: "gossip:subscription:loop-not-stopped-by-cancel", Step: step,
				What: "TopicSubscription.Loop has not returned 4 s after its context was cancelled", Observed: shorten(junoGoroutines(true), 10)}
		}
		for _, c := range calls {
			if !c.returned.Load() && d == nil {
				d = &vh.Divergence{Key: "gossip:broadcast:caller-blocked-after-cancel", Step: step,
					What: fmt.Sprintf("Broadcast(%d) has not returned 4 s after its context was cancelled", c.m)}
			}
		}
		w.close()
		synctest.Wait()
		time.Sleep(time.Minute)
		synctest.Wait()
		if gs := junoGoroutines(true); d == nil && len(gs) > 0 {
			d = &vh.Divergence{Key: "gossip:goroutine-leak", Step: step, What: "goroutines running juno code are left after both loops returned and the hosts were closed",
				Observed: shorten(gs, 10)}
		}
		return d
	}

	for si, st := range beh {
		synctest.Wait()
		if st.A.Name == "Stop" {
			return teardown(si)
		}
		obs, want := observe(), normalise(st.Pre)
		if !reflect.DeepEqual(obs, want) {
			prev := "Init"
			if si > 0 {
				prev = beh[si-1].A.Name
			}
			key := "gossip:replay:after-" + prev + ":" + firstDiff(obs, want)
			d := &vh.Divergence{Key: key, Step: si, Expected: want, Observed: obs,
				What: "the quiescent state of the real broadcaster / listeners after " + prev + " differs from Gossip.tla in " + firstDiff(obs, want)}
			teardown(si)
			return d
		}
		switch st.A.Name {
		case "Call":
			c := &call{c: st.A.C, m: st.A.M}
			mu.Lock()
			calls = append(calls, c)
			mu.Unlock()
			go func() {
				snd.broadcast(ctxA, c.m)
				c.returned.Store(true)
			}()
			out.Count("replay_calls", 1)
		case "Accept", "Reject":
			parked, id := w.gate.waiting()
			if !parked || id != st.A.M {
				panic(fmt.Sprintf("harness: %s(%d) but the gate holds %v %d", st.A.Name, st.A.M, parked, id))
			}
			release(st.A.Name == "Accept")
			out.Count("replay_"+st.A.Name, 1)
		case "Burst":
			n := 0
			for {
				parked, id := w.gate.waiting()
				if !parked || !firstOK[id] {
					break
				}
				release(st.A.O == "ok")
				n++
				synctest.Wait()
			}
			out.Count("replay_bursts", 1)
			out.Count("replay_burst_attempts_"+st.A.O, n)
		case "Tick":
			time.Sleep(tick)
			now++
		case "CloseTopic":
			if err := w.topics[0].Close(); err != nil {
				panic("harness: Topic.Close: " + err.Error())
			}
			closed = true
			out.Count("replay_topic_closed", 1)
		case "EnvPub":
			var b []byte
			if classOfT(st.A.M) == "junk" {
				b = junkBytes(st.A.M)
				out.Count("replay_junk_published", 1)
			} else {
				v := voteOf(st.A.M, keyOf(st.A.M))
				msg, err := vote.StarknetVoteAdapter.FromVote(&v, wireType(classOfT(st.A.M)))
				if err != nil {
					panic("harness: FromVote: " + err.Error())
				}
				b = mustMarshal(&msg)
			}
			if err := w.topics[2].Publish(context.Background(), b); err != nil {
				panic("harness: peer publish: " + err.Error())
			}
		case "Take":
			var got starknet.Vote
			taken := false
			if st.A.O == "pv" {
				select {
				case p := <-lst.PrevoteListener.Listen():
					got, taken = starknet.Vote(*p), true
				default:
				}
			} else {
				select {
				case p := <-lst.PrecommitListener.Listen():
					got, taken = starknet.Vote(*p), true
				default:
				}
			}
			if !taken {
				return &vh.Divergence{Key: "gossip:listener:nothing-to-take", Step: si, What: "the model's " + st.A.O + " output channel holds a vote, the real listener's is empty"}
			}
			want := voteOf(st.A.M, keyOf(st.A.M))
			if !reflect.DeepEqual(got, want) {
				return &vh.Divergence{Key: "gossip:listener:vote-changed-in-transit", Step: si, Expected: fmt.Sprintf("%+v", want), Observed: fmt.Sprintf("%+v", got),
					What: "the vote handed out by the listener is not the vote that was broadcast (kind " + st.A.O + ")"}
			}
			mu.Lock()
			if st.A.O == "pv" {
				gotPv = append(gotPv, st.A.M)
			} else {
				gotPc = append(gotPc, st.A.M)
			}
			mu.Unlock()
			out.Count("replay_votes_taken", 1)
		case "End":
			return teardown(si)
		default:
			panic("harness: unknown step " + st.A.Name)
		}
	}
	return teardown(len(beh))
}

func mustMarshal(m proto.Message) []byte {
	b, err := proto.Marshal(m)
	if err != nil {
		panic("harness: marshal: " + err.Error())
	}
	return b
}

func firstDiff(a, b gproj) string {
	va, vb := reflect.ValueOf(a), reflect.ValueOf(b)
	for i := 0; i < va.NumField(); i++ {
		if !reflect.DeepEqual(va.Field(i).Interface(), vb.Field(i).Interface()) {
			return va.Type().Field(i).Tag.Get("json")
		}
	}
	return "?"
}

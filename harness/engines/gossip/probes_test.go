//go:build verif

package gossip

import (
	"context"
	"fmt"
	"sync/atomic"
	"testing"
	"testing/synctest"
	"time"

	"github.com/NethermindEth/juno/consensus/p2p/buffered"
	"github.com/NethermindEth/juno/consensus/p2p/config"
	"github.com/NethermindEth/juno/consensus/p2p/vote"
	"github.com/NethermindEth/juno/consensus/starknet"
	consensusSync "github.com/NethermindEth/juno/consensus/sync"
	"github.com/NethermindEth/juno/consensus/types"
	pubsub "github.com/libp2p/go-libp2p-pubsub"
	"github.com/starknet-io/starknet-p2p-specs/p2p/proto/consensus/consensus"

	"verifharness/internal/vh"
)

// Keys of the modelled defect (FixCtx = FALSE in Gossip.tla): the two loops only stop on context.Canceled.
const (
	kClosedTopic = "gossip:broadcaster:closed-topic-retried-after-cancel"
	kDeadlineOut = "gossip:broadcaster:deadline-exceeded-retried-for-ever"
	kDeadlineIn  = "gossip:subscription:deadline-exceeded-busy-loop"
)

// TestGossipProbes: the shortest scripts for what the step-by-step replay cannot hold (a loop that
// never ends cannot be stepped), plus stated design observations (stats.observations, never verdicts).
func TestGossipProbes(t *testing.T) {
	if !vh.Enabled() {
		t.Skip("driver only")
	}
	out := vh.NewResult()
	defer out.Write()
	obs := map[string]string{}
	out.Stats["observations"] = obs
	report := func(d *vh.Divergence) {
		if d != nil {
			d.Input = vh.J{}
			out.Diverge(*d)
		}
	}

	// ---- P1: the topic is closed under the broadcaster, then the context is cancelled
	dl := bubble(t, func(t *testing.T) { report(probeClosedTopic()) })
	if dl != "" {
		report(&vh.Divergence{Key: "gossip:probe:bubble-deadlock", What: dl})
	}
	// ---- P2: the context (shared with pubsub, as p2p.Run does) ends by deadline while a publication is being retried
	dl = bubble(t, func(t *testing.T) { report(probeDeadlineOut()) })
	if dl != "" {
		report(&vh.Divergence{Key: "gossip:probe:bubble-deadlock", What: dl})
	}
	// ---- P3 / P4: the subscription loop (real time: a spinning goroutine never lets a bubble settle)
	report(probeSubscriptionSpin("deadline"))
	report(probeSubscriptionSpin("pubsubdown"))
	// ---- observations
	dl = bubble(t, func(t *testing.T) { probeObservations(obs, report) })
	if dl != "" {
		report(&vh.Divergence{Key: "gossip:probe:bubble-deadlock", What: dl})
	}
	out.Done(5, 5)
	if gs := settleNoJunoGoroutines(3 * time.Second); len(gs) > 0 && len(out.Divergences) == 0 {
		report(&vh.Divergence{Key: "gossip:goroutine-leak", What: "goroutines running juno code are left after the probes", Observed: shorten(gs, 10)})
	}
}

func probeClosedTopic() (dv *vh.Divergence) {
	defer recoverAsDivergence("probe", 0, &dv)
	w, err := newWorld(2)
	if err != nil {
		panic("harness: " + err.Error())
	}
	defer w.close()
	lg := newSpyLogger()
	b := buffered.NewProtoBroadcaster[*consensus.Vote](lg, 4, 2*tick, nil)
	ctx, cancel := context.WithCancel(context.Background())
	defer cancel()
	var done atomic.Bool
	go func() { defer done.Store(true); b.Loop(ctx, w.topics[0]) }()
	time.Sleep(3 * tick)
	synctest.Wait()
	if err := w.topics[0].Close(); err != nil {
		panic("harness: close: " + err.Error())
	}
	v := voteOf(1, 1)
	msg, _ := vote.StarknetVoteAdapter.FromVote(&v, consensus.Vote_Prevote)
	b.Broadcast(ctx, &msg)
	time.Sleep(5 * tick)
	synctest.Wait()
	attempts := lg.count(logSend)
	cancel()
	time.Sleep(40 * tick)
	synctest.Wait()
	if !done.Load() {
		n := lg.count(logSend) - attempts
		lg.kill.Store(true)
		time.Sleep(3 * tick)
		synctest.Wait()
		return &vh.Divergence{Key: kClosedTopic, Observed: fmt.Sprintf("%d further attempts in the 4 s after the cancellation", n),
			What: "ProtoBroadcaster.Loop never returns once its topic is closed while a message is pending: Publish fails with ErrTopicClosed, the " +
				"retry loop sleeps and tries again without ever looking at the context, also after the context was cancelled (p2p.Run's wg.Wait would hang)"}
	}
	return nil
}

func probeDeadlineOut() (dv *vh.Divergence) {
	defer recoverAsDivergence("probe", 0, &dv)
	// as p2p.Run: ONE context for pubsub and for the loop; here it ends by deadline
	ctx, cancel := context.WithTimeout(context.Background(), 12*tick)
	defer cancel()
	w, err := newWorldCtx(ctx, 2)
	if err != nil {
		panic("harness: " + err.Error())
	}
	defer w.close()
	lg := newSpyLogger()
	b := buffered.NewProtoBroadcaster[*consensus.Vote](lg, 4, 2*tick, nil)
	var done atomic.Bool
	go func() { defer done.Store(true); b.Loop(ctx, w.topics[0]) }()
	v := voteOf(1, 1)
	msg, _ := vote.StarknetVoteAdapter.FromVote(&v, consensus.Vote_Prevote)
	b.Broadcast(ctx, &msg)
	// the topic refuses the publication (a transient failure) until the deadline has passed
	for i := 0; i < 14; i++ {
		time.Sleep(tick)
		synctest.Wait()
		if parked, _ := w.gate.waiting(); parked {
			w.gate.release(false)
		}
	}
	time.Sleep(40 * tick)
	synctest.Wait()
	if parked, _ := w.gate.waiting(); parked {
		w.gate.release(true)
		synctest.Wait()
	}
	if !done.Load() {
		n := lg.count(logSend)
		lg.kill.Store(true)
		time.Sleep(3 * tick)
		synctest.Wait()
		return &vh.Divergence{Key: kDeadlineOut, Observed: fmt.Sprintf("%d failed attempts logged, the loop is alive 4 s after the deadline", n),
			What: "ProtoBroadcaster.Loop never returns when its context ends with DeadlineExceeded during a retried publication: Publish returns " +
				"the context's error, which is not context.Canceled, so it is retried every retryInterval for ever"}
	}
	return nil
}

// probeSubscriptionSpin runs TopicSubscription.Loop in real time with a context that ends by
// deadline ("deadline"), or is cancelled together with pubsub ("pubsubdown": must return).
func probeSubscriptionSpin(mode string) (dv *vh.Divergence) {
	defer recoverAsDivergence("probe", 0, &dv)
	w, err := newWorld(2)
	if err != nil {
		panic("harness: " + err.Error())
	}
	defer w.close()
	lg := newSpyLogger()
	sub := buffered.NewTopicSubscription(lg, 4, func(context.Context, *pubsub.Message) {})
	ctx, cancel := context.WithCancel(context.Background())
	if mode == "deadline" {
		ctx, cancel = context.WithTimeout(context.Background(), 50*time.Millisecond)
	}
	defer cancel()
	done := make(chan struct{})
	go func() { defer close(done); sub.Loop(ctx, w.topics[1]) }()
	time.Sleep(100 * time.Millisecond)
	if mode == "pubsubdown" {
		w.psCancel() // pubsub shuts down under the loop: subscriptions are NOT closed, Next keeps waiting for the loop's own context
		cancel()
	}
	select {
	case <-done:
		return nil
	case <-time.After(1500 * time.Millisecond):
	}
	n := lg.count(logReceive)
	lg.kill.Store(true)
	select {
	case <-done:
	case <-time.After(5 * time.Second):
		panic("harness: the spinning loop does not log any more")
	}
	return &vh.Divergence{Key: kDeadlineIn, Observed: fmt.Sprintf("%d errors logged in 1.5 s", n),
		What: "TopicSubscription.Loop spins when its context ends with DeadlineExceeded: Next returns the context's error at once, the loop logs it and calls Next again (only context.Canceled ends it)"}
}

// probeObservations: stated design behaviour, recorded in the evidence, never a verdict.
func probeObservations(obs map[string]string, report func(*vh.Divergence)) {
	// O1: Broadcast blocks its caller when the channel is full (here: while the topic fails)
	func() {
		w, err := newWorld(2)
		if err != nil {
			panic("harness: " + err.Error())
		}
		defer w.close()
		lg := newSpyLogger()
		strat := buffered.NewRebroadcastStrategy(3*tick, func(v *consensus.Vote) uint64 { return v.BlockNumber })
		b := buffered.NewProtoBroadcaster[*consensus.Vote](lg, 1, 2*tick, strat)
		ctx, cancel := context.WithCancel(context.Background())
		var done atomic.Bool
		go func() { defer done.Store(true); b.Loop(ctx, w.topics[0]) }()
		time.Sleep(3 * tick)
		var returned atomic.Int32
		for id := 1; id <= 3; id++ {
			v := voteOf(id, id)
			msg, _ := vote.StarknetVoteAdapter.FromVote(&v, consensus.Vote_Prevote)
			go func() { b.Broadcast(ctx, &msg); returned.Add(1) }()
			synctest.Wait()
		}
		time.Sleep(10 * tick)
		synctest.Wait()
		if n := returned.Load(); n == 2 {
			obs["broadcast-blocks"] = "with a channel of 1 and the first publication held up, the third Broadcast call is still blocked after 1 s " +
				"(the interface comment says \"should not be blocking\"): the Tendermint driver's loop stalls while the topic is unavailable"
		} else {
			report(&vh.Divergence{Key: "gossip:probe:broadcast-blocking", What: fmt.Sprintf("expected 2 of 3 Broadcast calls to have returned, got %d", n)})
		}
		// O2 / O3: starvation and never-forgetting of the rebroadcast strategy
		w.gate.free.Store(true)
		if parked, _ := w.gate.waiting(); parked {
			w.gate.release(true)
		}
		synctest.Wait()
		pubs := map[int]int{}
		w.gate.free.Store(false)
		w.gate.onLocal = func(id int) bool { pubs[id]++; return true }
		// steady traffic every 2 ticks (< RebI = 3): no re-send may... does ever happen
		for id := 4; id <= 9; id++ {
			v := voteOf(id, id)
			msg, _ := vote.StarknetVoteAdapter.FromVote(&v, consensus.Vote_Prevote)
			b.Broadcast(ctx, &msg)
			time.Sleep(2 * tick)
			synctest.Wait()
		}
		resent := 0
		for id, n := range pubs {
			if n > 1 && id <= 9 {
				resent += n - 1
			}
		}
		if resent == 0 {
			obs["rebroadcast-starved"] = "six messages published 200 ms apart with a rebroadcast interval of 300 ms: nothing was re-sent in 1.2 s — every first " +
				"publication replaces the ticker (Receive returns a new time.Tick), steady traffic postpones all re-sends"
		} else {
			obs["rebroadcast-starved"] = fmt.Sprintf("not observed (%d re-sends under steady traffic)", resent)
		}
		before := map[int]int{}
		for k, v := range pubs {
			before[k] = v
		}
		time.Sleep(3 * tick)
		synctest.Wait()
		again := 0
		for id := 1; id <= 8; id++ {
			if pubs[id] > before[id] {
				again++
			}
		}
		if again == 8 {
			obs["rebroadcast-never-forgets"] = "300 ms after the traffic stopped the messages of ALL nine keys (heights 1..9) were re-sent: the cache keeps one message per key " +
				"for ever, nothing removes the keys of decided heights"
		} else {
			obs["rebroadcast-never-forgets"] = fmt.Sprintf("%d of 8 old keys re-sent", again)
		}
		cancel()
		time.Sleep(5 * tick)
		synctest.Wait()
		if !done.Load() {
			lg.kill.Store(true)
			report(&vh.Divergence{Key: "gossip:broadcaster:loop-not-stopped-by-cancel", What: "ProtoBroadcaster.Loop has not returned 0.5 s after its context was cancelled (idle loop)"})
		}
	}()
	// O4 / O5: one host runs both loops on one topic, as p2p.Run does: a node's own vote comes back to
	// its own listener; a precommit signed by the catch-up placeholder address passes the listener
	func() {
		w, err := newWorld(2)
		if err != nil {
			panic("harness: " + err.Error())
		}
		defer w.close()
		w.gate.free.Store(true)
		lg := newSpyLogger()
		sizes := &config.BufferSizes{VoteSubscription: 8, PrevoteOutput: 8, PrecommitOutput: 8, VoteProtoBroadcaster: 8, RetryInterval: 2 * tick}
		vb := vote.NewVoteBroadcaster[starknet.Hash, starknet.Address](lg, vote.StarknetVoteAdapter, sizes)
		ls := vote.NewVoteListeners[starknet.Value](lg, vote.StarknetVoteAdapter, sizes)
		ctx, cancel := context.WithCancel(context.Background())
		var nDone atomic.Int32
		go func() { defer nDone.Add(1); ls.Loop(ctx, w.topics[0]) }()
		go func() { defer nDone.Add(1); vb.Loop(ctx, w.topics[0]) }()
		time.Sleep(3 * tick)
		synctest.Wait()
		own := voteOf(1, 5)
		vb.AsPrevoteBroadcaster().Broadcast(ctx, (*types.Prevote[starknet.Hash, starknet.Address])(&own))
		ph := voteOf(2, 6)
		ph.Sender = consensusSync.SyncProtocolPrecommitSender
		vb.AsPrecommitBroadcaster().Broadcast(ctx, (*types.Precommit[starknet.Hash, starknet.Address])(&ph))
		time.Sleep(tick)
		synctest.Wait()
		if len(ls.PrevoteListener.Listen()) == 1 {
			obs["own-vote-echo"] = "a node's own prevote is delivered to its own prevote listener (gossipsub hands a node's publication to its own subscription; the vote counter ignores the repeat)"
		}
		if len(ls.PrecommitListener.Listen()) == 1 {
			obs["placeholder-sender-over-gossip"] = "a gossiped precommit whose voter is consensus/sync.SyncProtocolPrecommitSender passes the vote listener; with the mock validator set " +
				"(consensus/mock.go) that address carries the whole voting power, so one unauthenticated message is a precommit quorum (marked TODO in the code: temporary until precommits travel with sync)"
		}
		cancel()
		time.Sleep(5 * tick)
		synctest.Wait()
		if nDone.Load() != 2 {
			lg.kill.Store(true)
			report(&vh.Divergence{Key: "gossip:p2p:loops-not-stopped-by-cancel", What: "a broadcaster / listener pair on one topic has not returned 0.5 s after the cancellation"})
		}
	}()
}

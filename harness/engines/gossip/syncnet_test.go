//go:build verif

// syncnet_test.go: what the catch-up binding needs around the REAL p2p/sync BlockFetcher — the
// network without a network (the idiom of harness/engines/p2psync/net_test.go, reduced): the
// BlockFetcher reaches its peers through host.Host (Peerstore().Peers(), NewStream); a scripted
// peer answers a request by running the REAL p2p/server handler of its own chain on the request
// bytes. Each fetch (one goroutine: ProcessBlock issues its five requests itself) parks at its
// first Peers() call until the harness decides how it ends.
package gossip

import (
	"bytes"
	"context"
	"errors"
	"fmt"
	"io"
	"os"
	"runtime"
	"strconv"
	"strings"
	"sync"
	"time"

	"github.com/NethermindEth/juno/core"
	"github.com/NethermindEth/juno/core/felt"
	"github.com/NethermindEth/juno/p2p/server"
	"github.com/NethermindEth/juno/starknet"
	"github.com/NethermindEth/juno/utils/log"
	"github.com/libp2p/go-libp2p/core/host"
	"github.com/libp2p/go-libp2p/core/network"
	"github.com/libp2p/go-libp2p/core/peer"
	"github.com/libp2p/go-libp2p/core/peerstore"
	"github.com/libp2p/go-libp2p/core/protocol"
	"github.com/starknet-io/starknet-p2p-specs/p2p/proto/sync/header"
	"google.golang.org/protobuf/proto"

	"verifharness/internal/chainkit"
)

type fakeCompiler struct{}

func (fakeCompiler) Compile(context.Context, *starknet.SierraClass) (*starknet.CasmClass, error) {
	return nil, errors.New("harness: no class is ever declared in these chains")
}

// ------------------------------------------------------------------ serving side

type srvHost struct {
	host.Host
	id       peer.ID
	mu       sync.Mutex
	handlers map[protocol.ID]network.StreamHandler
}

func (h *srvHost) ID() peer.ID { return h.id }
func (h *srvHost) SetStreamHandler(pid protocol.ID, f network.StreamHandler) {
	h.mu.Lock()
	defer h.mu.Unlock()
	h.handlers[pid] = f
}

type srvStream struct {
	network.Stream
	pid protocol.ID
	in  *bytes.Reader
	out bytes.Buffer
}

func (s *srvStream) Read(p []byte) (int, error)  { return s.in.Read(p) }
func (s *srvStream) Write(p []byte) (int, error) { return s.out.Write(p) }
func (s *srvStream) Close() error                { return nil }
func (s *srvStream) CloseWrite() error           { return nil }
func (s *srvStream) CloseRead() error            { return nil }
func (s *srvStream) Reset() error                { return nil }
func (s *srvStream) ID() string                  { return "srv" }
func (s *srvStream) Protocol() protocol.ID       { return s.pid }

// simPeer: one peer = a real p2p/server over its own chain.
type simPeer struct {
	id     peer.ID
	name   string
	node   *chainkit.Node
	host   *srvHost
	cancel context.CancelFunc
	done   chan struct{}
}

func newSimPeer(name string, node *chainkit.Node) *simPeer {
	p := &simPeer{id: peer.ID("peer-" + name), name: name, node: node,
		host: &srvHost{id: peer.ID("peer-" + name), handlers: map[protocol.ID]network.StreamHandler{}}, done: make(chan struct{})}
	srv := server.New(p.host, node.BC, log.NewNopZapLogger())
	ctx, cancel := context.WithCancel(context.Background())
	p.cancel = cancel
	go func() {
		defer close(p.done)
		_ = srv.Run(ctx)
	}()
	for i := 0; ; i++ {
		p.host.mu.Lock()
		n := len(p.host.handlers)
		p.host.mu.Unlock()
		if n >= 5 {
			break
		}
		if i > 5000 {
			panic("harness: p2p/server.Run did not register its handlers")
		}
		time.Sleep(time.Millisecond)
	}
	return p
}

func (p *simPeer) stop() {
	p.cancel()
	<-p.done
}

func (p *simPeer) serve(pid protocol.ID, req []byte) []byte {
	p.host.mu.Lock()
	h := p.host.handlers[pid]
	p.host.mu.Unlock()
	if h == nil {
		return nil
	}
	st := &srvStream{pid: pid, in: bytes.NewReader(req)}
	h(st)
	return st.out.Bytes()
}

// ------------------------------------------------------------------ requesting side

type cliStream struct {
	network.Stream
	net  *fakeNet
	pid  protocol.ID
	peer *simPeer

	mu       sync.Mutex
	cond     *sync.Cond
	req      bytes.Buffer
	reqDone  bool
	resp     []byte
	eof      bool
	deadline time.Time
	timer    *time.Timer
	closed   bool
}

func (s *cliStream) ID() string            { return "cli" }
func (s *cliStream) Protocol() protocol.ID { return s.pid }

func (s *cliStream) Write(p []byte) (int, error) {
	s.mu.Lock()
	defer s.mu.Unlock()
	if s.reqDone || s.closed {
		return 0, errors.New("write on closed stream")
	}
	return s.req.Write(p)
}

func (s *cliStream) CloseWrite() error {
	s.mu.Lock()
	if s.reqDone {
		s.mu.Unlock()
		return nil
	}
	s.reqDone = true
	req := append([]byte(nil), s.req.Bytes()...)
	s.mu.Unlock()
	// the peer answers at once with what its real server writes
	out := s.peer.serve(s.pid, req)
	s.net.served(s.peer, s.pid, req)
	s.mu.Lock()
	s.resp = append(s.resp, out...)
	s.eof = true
	s.cond.Broadcast()
	s.mu.Unlock()
	return nil
}

func (s *cliStream) SetReadDeadline(t time.Time) error {
	s.mu.Lock()
	defer s.mu.Unlock()
	s.deadline = t
	if s.timer != nil {
		s.timer.Stop()
	}
	if !t.IsZero() {
		s.timer = time.AfterFunc(time.Until(t), func() {
			s.mu.Lock()
			s.cond.Broadcast()
			s.mu.Unlock()
		})
	}
	return nil
}
func (s *cliStream) SetDeadline(t time.Time) error                { return s.SetReadDeadline(t) }
func (s *cliStream) SetWriteDeadline(time.Time) error             { return nil }
func (s *cliStream) CloseRead() error                             { return nil }
func (s *cliStream) Reset() error                                 { return s.Close() }
func (s *cliStream) ResetWithError(network.StreamErrorCode) error { return s.Close() }

func (s *cliStream) Read(p []byte) (int, error) {
	s.mu.Lock()
	defer s.mu.Unlock()
	for {
		switch {
		case s.closed:
			return 0, errors.New("read on closed stream")
		case len(s.resp) > 0:
			n := copy(p, s.resp)
			s.resp = s.resp[n:]
			return n, nil
		case s.eof:
			return 0, io.EOF
		case !s.deadline.IsZero() && !time.Now().Before(s.deadline):
			return 0, os.ErrDeadlineExceeded
		}
		s.cond.Wait()
	}
}

func (s *cliStream) Close() error {
	s.mu.Lock()
	defer s.mu.Unlock()
	s.closed = true
	if s.timer != nil {
		s.timer.Stop()
	}
	s.cond.Broadcast()
	return nil
}

type fakePS struct {
	peerstore.Peerstore
	net *fakeNet
}

func (ps *fakePS) Peers() peer.IDSlice              { return ps.net.peersCall() }
func (ps *fakePS) PeerInfo(p peer.ID) peer.AddrInfo { return peer.AddrInfo{ID: p} }
func (ps *fakePS) RemovePeer(peer.ID)               {}
func (ps *fakePS) ClearAddrs(peer.ID)               {}

// parkedFetch: a fetch goroutine waiting at its first Peers() call for the harness's decision.
type parkedFetch struct {
	goid int64
	ch   chan string // name of the peer to use for the whole fetch; "" = nobody is reachable
}

type fakeNet struct {
	host.Host
	self peer.ID

	mu      sync.Mutex
	peers   map[string]*simPeer
	parked  []*parkedFetch
	decided map[int64]string // goroutine -> peer name for the rest of its fetch
	free    string           // when set: no parking, every fetch uses this peer (teardown)
	reqs    []string         // "peer/protocol" of every request served, in order
}

func newFakeNet() *fakeNet {
	return &fakeNet{self: peer.ID("self"), peers: map[string]*simPeer{}, decided: map[int64]string{}}
}

func (n *fakeNet) add(p *simPeer) {
	n.mu.Lock()
	n.peers[p.name] = p
	n.mu.Unlock()
}

func (n *fakeNet) ID() peer.ID                    { return n.self }
func (n *fakeNet) Peerstore() peerstore.Peerstore { return &fakePS{net: n} }
func (n *fakeNet) Close() error                   { return nil }

func goid() int64 {
	var buf [64]byte
	s := string(buf[:runtime.Stack(buf[:], false)])
	s = strings.TrimPrefix(s, "goroutine ")
	if i := strings.IndexByte(s, ' '); i > 0 {
		id, _ := strconv.ParseInt(s[:i], 10, 64)
		return id
	}
	return -1
}

func (n *fakeNet) peersCall() peer.IDSlice {
	g := goid()
	n.mu.Lock()
	name, ok := n.decided[g]
	if !ok && n.free != "" {
		name, ok = n.free, true
		if name == "-" {
			name = ""
		}
	}
	if !ok {
		pf := &parkedFetch{goid: g, ch: make(chan string)}
		n.parked = append(n.parked, pf)
		n.mu.Unlock()
		name = <-pf.ch
		n.mu.Lock()
		n.decided[g] = name
	}
	var out peer.IDSlice
	if p := n.peers[name]; p != nil {
		out = peer.IDSlice{n.self, p.id}
	} else {
		out = peer.IDSlice{n.self}
	}
	n.mu.Unlock()
	return out
}

func (n *fakeNet) nParked() int {
	n.mu.Lock()
	defer n.mu.Unlock()
	return len(n.parked)
}

// release lets the i-th parked fetch go on with the named peer ("" = no peer reachable).
func (n *fakeNet) release(i int, name string) {
	n.mu.Lock()
	pf := n.parked[i]
	n.parked = append(n.parked[:i:i], n.parked[i+1:]...)
	n.mu.Unlock()
	pf.ch <- name
}

func (n *fakeNet) setFree(name string) {
	n.mu.Lock()
	n.free = name
	ps := n.parked
	n.parked = nil
	n.mu.Unlock()
	for _, pf := range ps {
		v := name
		if v == "-" {
			v = ""
		}
		pf.ch <- v
	}
}

func (n *fakeNet) served(p *simPeer, pid protocol.ID, req []byte) {
	tag := p.name + "/" + string(pid)
	var hr header.BlockHeadersRequest
	if strings.HasSuffix(string(pid), "headers/0.1.0-rc.0") || strings.Contains(string(pid), "headers") {
		if err := proto.Unmarshal(req, &hr); err == nil {
			tag += fmt.Sprintf("#%d", hr.GetIteration().GetBlockNumber())
		}
	}
	n.mu.Lock()
	n.reqs = append(n.reqs, tag)
	n.mu.Unlock()
}

func (n *fakeNet) NewStream(ctx context.Context, p peer.ID, pids ...protocol.ID) (network.Stream, error) {
	if err := ctx.Err(); err != nil {
		return nil, err
	}
	n.mu.Lock()
	var sp *simPeer
	for _, x := range n.peers {
		if x.id == p {
			sp = x
		}
	}
	n.mu.Unlock()
	if sp == nil {
		return nil, fmt.Errorf("unknown peer %q", string(p))
	}
	if len(pids) != 1 {
		return nil, fmt.Errorf("expected one protocol id, got %d", len(pids))
	}
	s := &cliStream{net: n, pid: pids[0], peer: sp}
	s.cond = sync.NewCond(&s.mu)
	return s, nil
}

// ------------------------------------------------------------------ chains

// syncWorld: the decided chain A[0..maxH] (block x proposed by the validator that proposes round 0
// of height x), one alternative block alt[x] on top of A[x-1] for every x >= 1, a peer serving A, a
// peer that only has the genesis block, and per height a peer serving A[0..x-1] ++ alt[x].
type syncWorld struct {
	a      *chainkit.Node
	blocks []*chainkit.Built          // A
	alts   map[int]*chainkit.Built    // alternative block of height x
	byHash map[felt.Felt]*chainkit.Built
	names  map[felt.Felt]int          // block id as ConsensusSync.tla names it: x or x + 100
	shortN *chainkit.Node
	forkN  map[int]*chainkit.Node
}

// syncPeers: the real p2p/server instances of one run (a server's tracker must not be shared
// between synctest bubbles).
type syncPeers struct {
	all []*simPeer
}

func (w *syncWorld) startPeers(n *fakeNet) *syncPeers {
	ps := &syncPeers{}
	add := func(name string, node *chainkit.Node) {
		p := newSimPeer(name, node)
		ps.all = append(ps.all, p)
		n.add(p)
	}
	add("A", w.a)
	add("short", w.shortN)
	for x, fn := range w.forkN {
		add(fmt.Sprintf("fork%d", x), fn)
	}
	return ps
}

func (ps *syncPeers) stop() {
	for _, p := range ps.all {
		p.stop()
	}
}

func emptySpec(x int, salt uint64, seq *felt.Felt) chainkit.BlockSpec {
	return chainkit.BlockSpec{Version: "0.14.0", Timestamp: uint64(1_700_000_000+30*x) + salt, Sequencer: seq, L1DAMode: core.L1DAMode(x % 2)}
}

func newSyncWorld(maxH int, proposer func(x int) *felt.Felt, g *chainkit.Gen) (*syncWorld, error) {
	w := &syncWorld{a: chainkit.NewNode(nil, false), alts: map[int]*chainkit.Built{}, byHash: map[felt.Felt]*chainkit.Built{},
		names: map[felt.Felt]int{}, forkN: map[int]*chainkit.Node{}}
	sign := func(b *chainkit.Built) { b.Block.Signatures = [][]*felt.Felt{{g.Felt(), g.Felt()}} }
	for x := 0; x <= maxH; x++ {
		if x >= 1 {
			alt, err := w.a.Build(emptySpec(x, 7, proposer(x)))
			if err != nil {
				return nil, fmt.Errorf("alt[%d]: %w", x, err)
			}
			sign(alt)
			w.alts[x] = alt
			w.byHash[*alt.Block.Hash], w.names[*alt.Block.Hash] = alt, x+100
		}
		b, err := w.a.Build(emptySpec(x, 0, proposer(x)))
		if err != nil {
			return nil, fmt.Errorf("A[%d]: %w", x, err)
		}
		sign(b)
		if err := w.a.StoreBuilt(b); err != nil {
			return nil, fmt.Errorf("store A[%d]: %w", x, err)
		}
		w.blocks = append(w.blocks, b)
		w.byHash[*b.Block.Hash], w.names[*b.Block.Hash] = b, x
	}
	sn, err := w.nodeWith(1)
	if err != nil {
		return nil, err
	}
	w.shortN = sn
	for x := 1; x <= maxH; x++ {
		fn, err := w.nodeWith(x)
		if err != nil {
			return nil, err
		}
		if err := fn.StoreBuilt(w.alts[x]); err != nil {
			return nil, fmt.Errorf("fork peer %d: %w", x, err)
		}
		w.forkN[x] = fn
	}
	return w, nil
}

// nodeWith: a fresh node holding A[0..n-1].
func (w *syncWorld) nodeWith(n int) (*chainkit.Node, error) {
	nd := chainkit.NewNode(nil, false)
	for x := 0; x < n; x++ {
		if err := nd.StoreBuilt(w.blocks[x]); err != nil {
			return nil, fmt.Errorf("prefix block %d: %w", x, err)
		}
	}
	return nd, nil
}

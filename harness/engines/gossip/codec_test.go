//go:build verif

package gossip

import (
	"context"
	"fmt"
	"math"
	"math/big"
	"strings"
	"testing"
	"testing/synctest"
	"time"

	"github.com/NethermindEth/juno/consensus/p2p/config"
	"github.com/NethermindEth/juno/consensus/p2p/vote"
	"github.com/NethermindEth/juno/consensus/starknet"
	"github.com/NethermindEth/juno/consensus/types"
	"github.com/NethermindEth/juno/core/felt"
	"github.com/starknet-io/starknet-p2p-specs/p2p/proto/common"
	"github.com/starknet-io/starknet-p2p-specs/p2p/proto/consensus/consensus"
	"google.golang.org/protobuf/encoding/protowire"
	"google.golang.org/protobuf/proto"

	"verifharness/internal/vh"
)

type wireRow struct {
	Vt    string `json:"vt"`
	Bn    string `json:"bn"`
	Rd    string `json:"rd"`
	Voter string `json:"voter"`
	Pcm   string `json:"pcm"`
}

type voteOut struct {
	Ok     bool   `json:"ok"`
	Err    string `json:"err"`
	Kind   string `json:"kind"`
	H      string `json:"h"`
	R      string `json:"r"`
	Sender string `json:"sender"`
	ID     string `json:"id"`
}

type memVote struct {
	H      string `json:"h"`
	R      string `json:"r"`
	Sender string `json:"sender"`
	ID     string `json:"id"`
}

type codecRow struct {
	Row    string   `json:"row"`
	W      wireRow  `json:"w"`
	Out    voteOut  `json:"out"`  // ToVote on the Go value
	WOut   voteOut  `json:"wout"` // ToVote on what Unmarshal makes of the wire form
	Listen string   `json:"listen"`
	V      *memVote `json:"v"`
	T      string   `json:"t"`
}

type codecInput struct {
	Rows []codecRow `json:"rows"`
}

var (
	feltP, _ = new(big.Int).SetString("800000000000011000000000000000000000000000000000000000000000001", 16)
	canonC   = new(big.Int).SetBytes([]byte{0x01, 0x23, 0x45, 0x67, 0x89, 0xab, 0xcd, 0xef, 0x10, 0x32, 0x54, 0x76, 0x98, 0xba, 0xdc, 0xfe,
		0x0f, 0x1e, 0x2d, 0x3c, 0x4b, 0x5a, 0x69, 0x78, 0x87, 0x96, 0xa5, 0xb4, 0xc3, 0xd2, 0xe1, 0xf0})
)

func pad32(x *big.Int) []byte { b := make([]byte, 32); x.FillBytes(b); return b }

// elementsOf: the bytes of an Address / Hash `elements` field for a value class (nil: no such field).
func elementsOf(class string) (elems []byte, present, hasField bool) {
	switch class {
	case "absent":
		return nil, false, false
	case "nilelem":
		return nil, true, false
	case "empty":
		return []byte{}, true, true
	case "short":
		return []byte{1, 2}, true, true
	case "zero32":
		return make([]byte, 32), true, true
	case "canon":
		return pad32(canonC), true, true
	case "gep":
		return pad32(new(big.Int).Add(feltP, big.NewInt(5))), true, true
	case "long":
		return append([]byte{1}, make([]byte, 32)...), true, true
	}
	panic("harness: bytes class " + class)
}

func feltValue(name string) *big.Int {
	switch name {
	case "0":
		return big.NewInt(0)
	case "258":
		return big.NewInt(258)
	case "C":
		return canonC
	case "5":
		return big.NewInt(5)
	case "2^256modP":
		return new(big.Int).Mod(new(big.Int).Lsh(big.NewInt(1), 256), feltP)
	}
	panic("harness: felt name " + name)
}

func numValue(c string, max uint64) uint64 {
	switch c {
	case "0":
		return 0
	case "mid":
		if max == math.MaxUint32 {
			return 3
		}
		return 5
	case "max":
		return max
	}
	panic("harness: num class " + c)
}

func vtValue(c string) consensus.Vote_VoteType {
	switch c {
	case "pv":
		return consensus.Vote_Prevote
	case "pc":
		return consensus.Vote_Precommit
	}
	return consensus.Vote_VoteType(7)
}

// wireBytes hand-encodes the wire form (protowire), so that presence is exactly what the row says.
func wireBytes(w wireRow) []byte {
	var b []byte
	b = protowire.AppendTag(b, 1, protowire.VarintType)
	b = protowire.AppendVarint(b, uint64(vtValue(w.Vt)))
	b = protowire.AppendTag(b, 2, protowire.VarintType)
	b = protowire.AppendVarint(b, numValue(w.Bn, math.MaxUint64))
	b = protowire.AppendTag(b, 3, protowire.VarintType)
	b = protowire.AppendVarint(b, numValue(w.Rd, math.MaxUint32))
	for _, f := range []struct {
		num   protowire.Number
		class string
	}{{4, w.Pcm}, {5, w.Voter}} {
		elems, present, hasField := elementsOf(f.class)
		if !present {
			continue
		}
		var sub []byte
		if hasField {
			sub = protowire.AppendTag(sub, 1, protowire.BytesType)
			sub = protowire.AppendBytes(sub, elems)
		}
		b = protowire.AppendTag(b, f.num, protowire.BytesType)
		b = protowire.AppendBytes(b, sub)
	}
	return b
}

// memWire builds the same vote as a Go value (what a caller inside the process could hand to ToVote).
func memWire(w wireRow) *consensus.Vote {
	v := &consensus.Vote{VoteType: vtValue(w.Vt), BlockNumber: numValue(w.Bn, math.MaxUint64), Round: uint32(numValue(w.Rd, math.MaxUint32))}
	if e, present, _ := elementsOf(w.Pcm); present {
		v.ProposalCommitment = &common.Hash{Elements: e}
	}
	if e, present, _ := elementsOf(w.Voter); present {
		v.Voter = &common.Address{Elements: e}
	}
	return v
}

func feltName(f *felt.Felt) string {
	x := f.BigInt(new(big.Int))
	for _, n := range []string{"0", "258", "C", "5", "2^256modP"} {
		if feltValue(n).Cmp(x) == 0 {
			return n
		}
	}
	return "?" + x.Text(16)
}

func numName(x, max uint64) string {
	for _, n := range []string{"0", "mid", "max"} {
		if numValue(n, max) == x {
			return n
		}
	}
	return fmt.Sprintf("?%d", x)
}

// outcomeOf abstracts what the real ToVote returned.
func outcomeOf(kind consensus.Vote_VoteType, v starknet.Vote, err error) voteOut {
	if err != nil {
		switch {
		case strings.Contains(err.Error(), "unknown vote_type"):
			return voteOut{Err: "type", Kind: "-", H: "-", R: "-", Sender: "-", ID: "-"}
		case strings.Contains(err.Error(), "voter is nil"):
			return voteOut{Err: "voter", Kind: "-", H: "-", R: "-", Sender: "-", ID: "-"}
		}
		return voteOut{Err: "other:" + err.Error(), Kind: "-", H: "-", R: "-", Sender: "-", ID: "-"}
	}
	o := voteOut{Ok: true, Err: "-", Kind: "pv", H: numName(uint64(v.Height), math.MaxUint64), R: "?", ID: "nil"}
	if kind == consensus.Vote_Precommit {
		o.Kind = "pc"
	}
	if v.Round >= 0 && uint64(v.Round) <= math.MaxUint32 {
		o.R = numName(uint64(v.Round), math.MaxUint32)
	}
	s := felt.Felt(v.Sender)
	o.Sender = feltName(&s)
	if v.ID != nil {
		h := felt.Felt(*v.ID)
		o.ID = feltName(&h)
	}
	return o
}

func guardedToVote(v *consensus.Vote) (out starknet.Vote, err error, panicked string) {
	defer func() {
		if r := recover(); r != nil {
			panicked = fmt.Sprint(r)
		}
	}()
	out, err = vote.StarknetVoteAdapter.ToVote(v)
	return
}

// TestVoteCodecTable replays VoteCodec.tla's outcome table: every wire form (field presence x value
// class) through proto.Unmarshal + the real ToVote, as a Go value through ToVote, and as bytes on a
// real topic through the real vote listeners; every in-memory vote x type through the real FromVote
// and back.
func TestVoteCodecTable(t *testing.T) {
	if !vh.Enabled() {
		t.Skip("driver only")
	}
	var in codecInput
	if err := vh.Input(&in); err != nil {
		t.Fatal(err)
	}
	out := vh.NewResult()
	defer out.Write()
	diverge := func(key, what string, row codecRow, exp, obs any) {
		out.Diverge(vh.Divergence{Key: key, What: what, Input: codecInput{Rows: []codecRow{row}}, Expected: exp, Observed: obs})
	}
	var wires []codecRow
	for _, row := range in.Rows {
		switch row.Row {
		case "wire":
			wires = append(wires, row)
			sig := row.W.Vt + "/" + row.W.Voter + "/" + row.W.Pcm
			// (a) bytes -> Unmarshal -> ToVote
			var pv consensus.Vote
			if err := proto.Unmarshal(wireBytes(row.W), &pv); err != nil {
				diverge("gossip:codec:unmarshal:"+sig, "a hand-encoded well-formed protobuf vote does not unmarshal: "+err.Error(), row, nil, nil)
				continue
			}
			v, err, pn := guardedToVote(&pv)
			if pn != "" {
				diverge("gossip:codec:tovote-panic:"+sig, "ToVote panicked on a vote read from the wire: "+pn, row, row.WOut, pn)
				continue
			}
			if got := outcomeOf(pv.VoteType, v, err); got != row.WOut {
				diverge(fmt.Sprintf("gossip:codec:tovote:%s:%s", sig, diffOut(row.WOut, got)), "ToVote on a vote read from the wire differs from VoteCodec.tla", row, row.WOut, got)
			}
			// (b) the same vote as a Go value
			mv := memWire(row.W)
			v, err, pn = guardedToVote(mv)
			if pn != "" {
				diverge("gossip:codec:tovote-panic-mem:"+sig, "ToVote panicked on an in-memory vote: "+pn, row, row.Out, pn)
				continue
			}
			if got := outcomeOf(mv.VoteType, v, err); got != row.Out {
				diverge(fmt.Sprintf("gossip:codec:tovote-mem:%s:%s", sig, diffOut(row.Out, got)), "ToVote on an in-memory vote differs from VoteCodec.tla", row, row.Out, got)
			}
			out.Count("codec_wire_rows", 1)
		case "enc":
			mvote := starknet.Vote{MessageHeader: starknet.MessageHeader{Height: types.Height(numValue(row.V.H, math.MaxUint64))}}
			switch row.V.R {
			case "neg1":
				mvote.Round = -1
			case "over":
				mvote.Round = types.Round(int64(1)<<32 + 3)
			default:
				mvote.Round = types.Round(numValue(row.V.R, math.MaxUint32))
			}
			var sf felt.Felt
			sf.SetBigInt(feltValue(row.V.Sender))
			mvote.Sender = starknet.Address(sf)
			if row.V.ID != "nil" {
				var hf felt.Felt
				hf.SetBigInt(feltValue(row.V.ID))
				mvote.ID = (*starknet.Hash)(&hf)
			}
			sig := row.T + "/" + row.V.R + "/" + row.V.Sender + "/" + row.V.ID
			msg, err := vote.StarknetVoteAdapter.FromVote(&mvote, vtValue(row.T))
			if err != nil {
				diverge("gossip:codec:fromvote-error:"+sig, "FromVote failed: "+err.Error(), row, row.W, nil)
				continue
			}
			got := wireRow{Vt: "unk", Bn: numName(msg.BlockNumber, math.MaxUint64), Rd: numName(uint64(msg.Round), math.MaxUint32),
				Voter: classOfElems(msg.Voter != nil, msg.Voter.GetElements()), Pcm: classOfElems(msg.ProposalCommitment != nil, msg.ProposalCommitment.GetElements())}
			switch msg.VoteType {
			case consensus.Vote_Prevote:
				got.Vt = "pv"
			case consensus.Vote_Precommit:
				got.Vt = "pc"
			}
			if got != row.W {
				diverge("gossip:codec:fromvote:"+sig, "the wire form FromVote produces differs from VoteCodec.tla", row, row.W, got)
				continue
			}
			// and back through the wire
			var back consensus.Vote
			if err := proto.Unmarshal(mustMarshal(&msg), &back); err != nil {
				diverge("gossip:codec:fromvote-unmarshal:"+sig, "what FromVote produced does not survive Marshal/Unmarshal: "+err.Error(), row, nil, nil)
				continue
			}
			rv, err, pn := guardedToVote(&back)
			inDomain := row.V.R != "neg1" && row.V.R != "over"
			same := pn == "" && err == nil && rv.Height == mvote.Height && rv.Round == mvote.Round && rv.Sender == mvote.Sender &&
				(rv.ID == nil) == (mvote.ID == nil) && (rv.ID == nil || *rv.ID == *mvote.ID)
			if inDomain && !same {
				diverge("gossip:codec:roundtrip:"+sig, "FromVote -> wire -> ToVote is not the identity on a well-formed vote", row, fmt.Sprintf("%+v", mvote), fmt.Sprintf("%+v %v %s", rv, err, pn))
			}
			if !inDomain && same {
				diverge("gossip:codec:roundtrip-outside-domain:"+sig, "a round outside 0..2^32-1 survived the wire although the field is a uint32", row, nil, nil)
			}
			out.Count("codec_enc_rows", 1)
		}
	}
	// (c) the wire forms through a real topic and the real vote listeners
	if len(wires) > 0 {
		var dv *vh.Divergence
		dl := bubble(t, func(t *testing.T) { dv = codecListener(wires, out) })
		if dv == nil && dl != "" {
			dv = &vh.Divergence{Key: "gossip:codec:bubble-deadlock", What: dl}
		}
		if dv != nil {
			out.Diverge(*dv)
		}
	}
	out.Done(1, len(in.Rows))
}

func classOfElems(present bool, e []byte) string {
	switch {
	case !present:
		return "absent"
	case e == nil:
		return "nilelem"
	case len(e) == 0:
		return "empty"
	case len(e) == 32 && new(big.Int).SetBytes(e).Sign() == 0:
		return "zero32"
	case len(e) == 32 && new(big.Int).SetBytes(e).Cmp(canonC) == 0:
		return "canon"
	}
	return fmt.Sprintf("?%x", e)
}

func diffOut(exp, got voteOut) string {
	switch {
	case exp.Ok != got.Ok || exp.Err != got.Err:
		return fmt.Sprintf("%s->%s", okErr(exp), okErr(got))
	case exp.Kind != got.Kind:
		return "kind"
	case exp.H != got.H:
		return "height"
	case exp.R != got.R:
		return "round"
	case exp.Sender != got.Sender:
		return "sender:" + exp.Sender + "->" + got.Sender
	}
	return "id:" + exp.ID + "->" + got.ID
}

func okErr(o voteOut) string {
	if o.Ok {
		return "ok"
	}
	return "err-" + o.Err
}

func codecListener(wires []codecRow, out *vh.Result) (dv *vh.Divergence) {
	defer recoverAsDivergence("codec", 0, &dv)
	w, err := newWorld(3)
	if err != nil {
		panic("harness: " + err.Error())
	}
	defer w.close()
	lg := newSpyLogger()
	ls := vote.NewVoteListeners[starknet.Value](lg, vote.StarknetVoteAdapter, &config.BufferSizes{VoteSubscription: 4, PrevoteOutput: 1, PrecommitOutput: 1})
	ctx, cancel := context.WithCancel(context.Background())
	defer cancel()
	done := make(chan struct{})
	go func() { defer close(done); ls.Loop(ctx, w.topics[1]) }()
	time.Sleep(2 * time.Second)
	synctest.Wait()
	extra := [][]byte{{}, {0xff, 0xff, 0xff, 0x01}, {0x08}, mustMarshal(&consensus.ConsensusStreamId{BlockNumber: 3, Round: 1, Nonce: 9})}
	extraNames := []string{"empty-payload", "garbage", "truncated-varint", "other-message-type"}
	for i := 0; i < len(wires)+len(extra); i++ {
		var b []byte
		want, name := "drop", ""
		var row codecRow
		if i < len(wires) {
			row = wires[i]
			b, want = wireBytes(row.W), row.Listen
			name = row.W.Vt + "/" + row.W.Voter + "/" + row.W.Pcm
		} else {
			b, name = extra[i-len(wires)], extraNames[i-len(wires)]
		}
		errsBefore := lg.count(logUnmarshal, logConvert)
		if err := w.topics[2].Publish(context.Background(), b); err != nil {
			panic("harness: publish: " + err.Error())
		}
		synctest.Wait()
		got := "drop"
		var gv starknet.Vote
		select {
		case p := <-ls.PrevoteListener.Listen():
			got, gv = "pv", starknet.Vote(*p)
		default:
			select {
			case p := <-ls.PrecommitListener.Listen():
				got, gv = "pc", starknet.Vote(*p)
			default:
			}
		}
		if got != want {
			return &vh.Divergence{Key: fmt.Sprintf("gossip:listener:table:%s:%s->%s", name, want, got), Input: codecInput{Rows: []codecRow{row}},
				What: "what the vote listener does with a message on the votes topic differs from VoteCodec.tla (drop | pv | pc)", Expected: want, Observed: got}
		}
		if got == "drop" {
			if lg.count(logUnmarshal, logConvert) != errsBefore+1 {
				return &vh.Divergence{Key: "gossip:listener:table:" + name + ":dropped-without-log", Input: codecInput{Rows: []codecRow{row}},
					What: "a dropped message left no error in the log"}
			}
		} else if o := outcomeOf(vtValue(got), gv, nil); o != row.WOut {
			return &vh.Divergence{Key: "gossip:listener:table:" + name + ":" + diffOut(row.WOut, o), Input: codecInput{Rows: []codecRow{row}},
				What: "the vote the listener hands out differs from VoteCodec.tla", Expected: row.WOut, Observed: o}
		}
		out.Count("codec_listener_cases", 1)
	}
	cancel()
	time.Sleep(tick)
	synctest.Wait()
	select {
	case <-done:
	default:
		lg.kill.Store(true)
		return &vh.Divergence{Key: "gossip:subscription:loop-not-stopped-by-cancel", What: "the vote listeners' Loop has not returned after the cancellation"}
	}
	return nil
}

//go:build verif

// Engine "gossip" (specification growth G13): the consensus gossip layer —
// consensus/p2p/buffered (ProtoBroadcaster, rebroadcast strategy, TopicSubscription),
// consensus/p2p/vote (vote converters, broadcasters, listeners), consensus/p2p (the P2P service) and
// the consensus catch-up path (consensus/sync + the driver's sync branch) — bound to
// spec/gossip/*.tla.
//
//   - TestGossipReplay: TLC-simulated behaviours (GossipMBT) stepped through the REAL broadcaster
//     and vote listeners over REAL libp2p-pubsub topics on an in-memory mocknet, inside a
//     testing/synctest bubble (fake clock, exact quiescence). Every publish attempt of the Loop
//     passes a topic validator of the publishing host: that is the gate the harness decides
//     outcomes at.
//   - TestGossipProbes: directed scripts for what cannot be stepped (loops that never end).
//   - TestVoteCodecTable: the outcome table of VoteCodec.tla on the real converters and listeners.
//   - TestGossipConcurrent: free-running rounds, ndjson trace for TLC + monitors.
//   - TestGossipNodes: the real p2p.New services over loopback libp2p hosts.
//   - TestConsensusSync*: the catch-up path (sync_test.go).
package gossip

import (
	"context"
	"fmt"
	"reflect"
	"runtime"
	"strings"
	"sync"
	"sync/atomic"
	"testing"
	"testing/synctest"
	"time"

	"github.com/NethermindEth/juno/consensus/starknet"
	"github.com/NethermindEth/juno/consensus/types"
	"github.com/NethermindEth/juno/core/felt"
	pubsub "github.com/libp2p/go-libp2p-pubsub"
	"github.com/libp2p/go-libp2p/core/host"
	"github.com/libp2p/go-libp2p/core/peer"
	"github.com/libp2p/go-libp2p/core/protocol"
	mocknet "github.com/libp2p/go-libp2p/p2p/net/mock"
	"github.com/starknet-io/starknet-p2p-specs/p2p/proto/common"
	"github.com/starknet-io/starknet-p2p-specs/p2p/proto/consensus/consensus"
	"go.uber.org/zap"
	"google.golang.org/protobuf/proto"

	"verifharness/internal/vh"
)

const (
	junoPkg  = "github.com/NethermindEth/juno/"
	tick     = 100 * time.Millisecond
	topicStr = "consensus_votes"
)

// ---------------------------------------------------------------- goroutines, bubbles

// junoGoroutines: stacks of goroutines (other than the caller) that run juno code; inBubble
// restricts to the caller's synctest bubble.
func junoGoroutines(inBubble bool) []string {
	buf := make([]byte, 8<<20)
	n := runtime.Stack(buf, true)
	var res []string
	mine := ""
	for i, g := range strings.Split(string(buf[:n]), "\n\n") {
		head := strings.SplitN(g, "\n", 2)[0]
		if i == 0 {
			if k := strings.Index(head, "synctest bubble "); k >= 0 {
				mine = strings.TrimRight(head[k:], "]:")
			}
			continue
		}
		if inBubble && (mine == "" || !strings.Contains(head, mine+"]")) {
			continue
		}
		if strings.Contains(g, junoPkg) {
			res = append(res, g)
		}
	}
	return res
}

func settleNoJunoGoroutines(d time.Duration) []string {
	deadline := time.Now().Add(d)
	for {
		gs := junoGoroutines(false)
		if len(gs) == 0 || time.Now().After(deadline) {
			return gs
		}
		time.Sleep(5 * time.Millisecond)
	}
}

func bubble(t *testing.T, f func(t *testing.T)) (deadlock string) {
	defer func() {
		if r := recover(); r != nil {
			deadlock = fmt.Sprint(r)
		}
	}()
	synctest.Test(t, f)
	return ""
}

func shorten(gs []string, maxLines int) []string {
	out := make([]string, 0, len(gs))
	for _, g := range gs {
		ls := strings.Split(g, "\n")
		if len(ls) > maxLines {
			ls = ls[:maxLines]
		}
		out = append(out, strings.Join(ls, "\n"))
	}
	return out
}

func recoverAsDivergence(what string, step int, dv **vh.Divergence) {
	if p := recover(); p != nil {
		msg := fmt.Sprint(p)
		if strings.HasPrefix(msg, "harness:") {
			panic(p)
		}
		buf := make([]byte, 8192)
		n := runtime.Stack(buf, false)
		if *dv == nil {
			*dv = &vh.Divergence{Key: "gossip:" + what + ":panic", What: "a call into the real code panicked: " + msg, Step: step, Observed: string(buf[:n])}
		}
	}
}

// ---------------------------------------------------------------- logger

// spyLogger counts what the code logs (the only trace a dropped malformed message leaves) and is
// the harness's kill switch: a loop that can no longer be stopped through its context is ended
// from inside its next log call (runtime.Goexit runs its deferred calls).
type spyLogger struct {
	mu     sync.Mutex
	errors map[string]int
	kill   atomic.Bool
	killed atomic.Int32
}

func newSpyLogger() *spyLogger { return &spyLogger{errors: map[string]int{}} }

func (l *spyLogger) Debug(string, ...zap.Field) {}
func (l *spyLogger) Info(string, ...zap.Field)  {}
func (l *spyLogger) Warn(string, ...zap.Field)  {}
func (l *spyLogger) Trace(string, ...zap.Field) {}
func (l *spyLogger) Error(msg string, _ ...zap.Field) {
	l.mu.Lock()
	l.errors[msg]++
	l.mu.Unlock()
	if l.kill.Load() {
		l.killed.Add(1)
		runtime.Goexit()
	}
}
func (l *spyLogger) Infof(string, ...any)  {}
func (l *spyLogger) Errorf(string, ...any) {}
func (l *spyLogger) Fatalf(string, ...any) {}

func (l *spyLogger) count(msgs ...string) int {
	l.mu.Lock()
	defer l.mu.Unlock()
	n := 0
	for _, m := range msgs {
		n += l.errors[m]
	}
	return n
}

const (
	logUnmarshal = "unable to unmarshal vote message"
	logConvert   = "unable to convert vote message to vote"
	logSend      = "unable to send message"
	logResend    = "unable to rebroadcast message"
	logReceive   = "unable to receive message"
)

// ---------------------------------------------------------------- concretisation of message ids

// Own messages (ids 1..99): a vote of validator 7; peers' messages (ids >= 100): votes of
// validator 9, every id with id%3 == 2 malformed in one of three ways.
// height = key, round = id (the id travels in the round field), commitment nil for id%5 == 0.
type msgSpec struct {
	ID    int
	Class string // pv | pc | junk
	Key   int
}

func classOfT(id int) string { // MCGossip!ClassT
	if id > 100 && id%3 == 2 {
		return "junk"
	}
	if id%2 == 0 {
		return "pc"
	}
	return "pv"
}

func keyOfT(id int) int { return id/4 + 1 } // MCGossip!KeyT

func voteOf(id, key int) starknet.Vote {
	sender := uint64(7)
	if id >= 100 {
		sender = 9
	}
	v := starknet.Vote{MessageHeader: starknet.MessageHeader{
		Height: types.Height(key), Round: types.Round(id), Sender: felt.FromUint64[starknet.Address](sender)}}
	if id%5 != 0 {
		v.ID = felt.NewFromUint64[starknet.Hash](uint64(1000 + id))
	}
	return v
}

func wireType(class string) consensus.Vote_VoteType {
	if class == "pc" {
		return consensus.Vote_Precommit
	}
	return consensus.Vote_Prevote
}

// junkBytes: the three ways a message on the votes topic can be malformed for the listener.
func junkBytes(id int) []byte {
	switch (id / 3) % 3 {
	case 0: // not a protobuf message at all: tag with wire type 7
		return []byte{0xff, 0xff, 0xff, byte(id & 0x7f)}
	case 1: // a vote without a voter
		b, _ := proto.Marshal(&consensus.Vote{VoteType: consensus.Vote_Precommit, BlockNumber: 1, Round: uint32(id),
			ProposalCommitment: &common.Hash{Elements: make([]byte, 32)}})
		return b
	default: // a vote of an unknown type
		b, _ := proto.Marshal(&consensus.Vote{VoteType: consensus.Vote_VoteType(7), BlockNumber: 1, Round: uint32(id),
			Voter: &common.Address{Elements: make([]byte, 32)}})
		return b
	}
}

// idOfBytes recovers the message id from what travels on the topic.
func idOfBytes(b []byte) int {
	if len(b) == 4 && b[0] == 0xff && b[1] == 0xff && b[2] == 0xff {
		id := int(b[3])
		for id < 100 || classOfT(id) != "junk" || (id/3)%3 != 0 {
			id += 128
			if id > 100000 {
				return -1
			}
		}
		return id
	}
	var v consensus.Vote
	if err := proto.Unmarshal(b, &v); err != nil {
		return -1
	}
	return int(v.Round)
}

// ---------------------------------------------------------------- pubsub world

// pubGate is the topic validator of the publishing host: every local publish attempt parks here
// until the harness lets it through (accept) or fails it (reject).
type pubGate struct {
	self    peer.ID
	mu      sync.Mutex
	parked  bool
	id      int
	ch      chan bool
	free    atomic.Bool // no gating: accept everything at once (teardown, free-running rounds)
	onLocal func(id int) bool
}

func (g *pubGate) validate(_ context.Context, from peer.ID, msg *pubsub.Message) pubsub.ValidationResult {
	if from != g.self {
		return pubsub.ValidationAccept
	}
	id := idOfBytes(msg.Data)
	if g.onLocal != nil {
		if g.onLocal(id) {
			return pubsub.ValidationAccept
		}
		return pubsub.ValidationReject
	}
	if g.free.Load() {
		return pubsub.ValidationAccept
	}
	g.mu.Lock()
	g.parked, g.id = true, id
	g.mu.Unlock()
	ok := <-g.ch
	if ok {
		return pubsub.ValidationAccept
	}
	return pubsub.ValidationReject
}

func (g *pubGate) waiting() (bool, int) {
	g.mu.Lock()
	defer g.mu.Unlock()
	return g.parked, g.id
}

func (g *pubGate) release(ok bool) {
	g.mu.Lock()
	g.parked = false
	g.mu.Unlock()
	g.ch <- ok
}

// subTracer records what pubsub could not deliver to a slow subscription.
type subTracer struct {
	onDrop      func(id int)
	mu          sync.Mutex
	undelivered []int
	delivered   []int
}

func (t *subTracer) OnNewOutboundStream(peer.ID, protocol.ID) {}
func (t *subTracer) OnClosedOutboundStream(peer.ID)           {}
func (t *subTracer) Join(string)                              {}
func (t *subTracer) Leave(string)                             {}
func (t *subTracer) Graft(peer.ID, string)                    {}
func (t *subTracer) Prune(peer.ID, string)                    {}
func (t *subTracer) ValidateMessage(*pubsub.Message)          {}
func (t *subTracer) DeliverMessage(m *pubsub.Message) {
	t.mu.Lock()
	t.delivered = append(t.delivered, idOfBytes(m.Data))
	t.mu.Unlock()
}
func (t *subTracer) RejectMessage(*pubsub.Message, string) {}
func (t *subTracer) DuplicateMessage(*pubsub.Message)      {}
func (t *subTracer) ThrottlePeer(peer.ID)                  {}
func (t *subTracer) RecvRPC(*pubsub.RPC)                   {}
func (t *subTracer) SendRPC(*pubsub.RPC, peer.ID)          {}
func (t *subTracer) DropRPC(*pubsub.RPC, peer.ID)          {}
func (t *subTracer) UndeliverableMessage(m *pubsub.Message) {
	t.mu.Lock()
	t.undelivered = append(t.undelivered, idOfBytes(m.Data))
	f := t.onDrop
	t.mu.Unlock()
	if f != nil {
		f(idOfBytes(m.Data))
	}
}

func (w *world) tracerHook(f func(id int)) {
	w.tracer.mu.Lock()
	w.tracer.onDrop = f
	w.tracer.mu.Unlock()
}

func (t *subTracer) drops() []int {
	t.mu.Lock()
	defer t.mu.Unlock()
	return append([]int{}, t.undelivered...)
}

// world: three libp2p hosts on an in-memory network, gossipsub configured as p2p/pubsub.Run does
// (minus the DHT discovery), one topic. A publishes through the gate, B subscribes, E is a peer.
type world struct {
	mn         mocknet.Mocknet
	hosts      []host.Host
	ps         []*pubsub.PubSub
	topics     []*pubsub.Topic
	gate       *pubGate
	tracer     *subTracer
	psCancel   context.CancelFunc
	closedOnce sync.Once
}

func gossipOpts(extra ...pubsub.Option) []pubsub.Option {
	params := pubsub.DefaultGossipSubParams()
	params.HistoryLength, params.HistoryGossip = 60, 60
	return append([]pubsub.Option{pubsub.WithFloodPublish(true), pubsub.WithPeerOutboundQueueSize(1024),
		pubsub.WithValidateQueueSize(1024), pubsub.WithGossipSubParams(params)}, extra...)
}

// newWorld builds n hosts (0 = A with the gate, 1 = B with the tracer, 2.. = peers), all connected.
func newWorld(n int) (*world, error) { return newWorldCtx(context.Background(), n) }

// newWorldCtx: pubsub lives on a child of parent (p2p.Run hands ONE context to pubsub and to the loops).
func newWorldCtx(parent context.Context, n int) (*world, error) {
	w := &world{mn: mocknet.New(), tracer: &subTracer{}}
	ctx, cancel := context.WithCancel(parent)
	w.psCancel = cancel
	for i := 0; i < n; i++ {
		h, err := w.mn.GenPeer()
		if err != nil {
			return nil, err
		}
		w.hosts = append(w.hosts, h)
	}
	if err := w.mn.LinkAll(); err != nil {
		return nil, err
	}
	for i, h := range w.hosts {
		var extra []pubsub.Option
		if i == 1 {
			extra = append(extra, pubsub.WithRawTracer(w.tracer))
		}
		ps, err := pubsub.NewGossipSub(ctx, h, gossipOpts(extra...)...)
		if err != nil {
			return nil, err
		}
		if i == 0 {
			w.gate = &pubGate{self: h.ID(), ch: make(chan bool)}
			if err := ps.RegisterTopicValidator(topicStr, w.gate.validate); err != nil {
				return nil, err
			}
		}
		t, err := ps.Join(topicStr)
		if err != nil {
			return nil, err
		}
		w.ps = append(w.ps, ps)
		w.topics = append(w.topics, t)
	}
	if err := w.mn.ConnectAllButSelf(); err != nil {
		return nil, err
	}
	return w, nil
}

func (w *world) close() {
	w.closedOnce.Do(func() {
		w.psCancel()
		for _, h := range w.hosts {
			_ = h.Close()
		}
		_ = w.mn.Close()
	})
}

// chanLen reads the length of an unexported channel field (path of field names) by reflection.
func chanLen(v any, path ...string) int {
	rv := reflect.ValueOf(v)
	for rv.Kind() == reflect.Pointer {
		rv = rv.Elem()
	}
	for _, p := range path {
		rv = rv.FieldByName(p)
		if !rv.IsValid() {
			panic("harness: no field " + p)
		}
	}
	return rv.Len()
}

func sortedCopy(a []int) []int {
	b := append([]int{}, a...)
	for i := 1; i < len(b); i++ {
		for j := i; j > 0 && b[j-1] > b[j]; j-- {
			b[j-1], b[j] = b[j], b[j-1]
		}
	}
	return b
}

func eqInts(a, b []int) bool {
	if len(a) != len(b) {
		return false
	}
	for i := range a {
		if a[i] != b[i] {
			return false
		}
	}
	return true
}

func runtimeGoexit() { runtime.Goexit() }

// replay_test.go: TestPreconfReplay steps TLC-generated behaviours of PreConfirmed.tla through the
// real preconfirmed.ChainStorage with a real Blockchain as the canonical base; after every step it
// compares the call's result, the published chain, every view ever handed out (against the model
// AND against its own deep fingerprint taken at creation) and the state / class / transaction
// reads through every view with the specification's.
package preconf

import (
	"errors"
	"fmt"
	"testing"

	"github.com/NethermindEth/juno/adapters/sn2core"
	"github.com/NethermindEth/juno/core"
	"github.com/NethermindEth/juno/core/felt"
	"github.com/NethermindEth/juno/core/pending"
	jsync "github.com/NethermindEth/juno/sync"
	"github.com/NethermindEth/juno/sync/preconfirmed"

	"verifharness/internal/chainkit"
	"verifharness/internal/vh"
)

type action struct {
	Name   string   `json:"name"`
	U      *upd     `json:"u"`
	Num    uint64   `json:"num"`
	Base   uint64   `json:"base"`
	Oldest uint64   `json:"oldest"`
	Cls    []string `json:"cls"`
	O      uint64   `json:"o"`
	N      uint64   `json:"n"`
	V      int      `json:"v"`
	Attip  bool     `json:"attip"`
	Fail   bool     `json:"fail"`
}

type result struct {
	St   string `json:"st"`
	Tag  string `json:"tag"`
	Aff  *slot  `json:"aff"`
	Ch   bool   `json:"ch"`
	Len  int    `json:"len"`
	Fb   bool   `json:"fallback"`
	St1  string `json:"st1"`
	Tag1 string `json:"tag1"`
}

type pkT struct {
	H    uint64 `json:"h"`
	From uint64 `json:"from"`
	ID   string `json:"id"`
	Cnt  uint64 `json:"cnt"`
	N    uint64 `json:"n"`
	Unum uint64 `json:"unum"`
}

type step struct {
	A     action           `json:"a"`
	Res   result           `json:"res"`
	Chain []slot           `json:"chain"`
	Canon []int            `json:"canon"`
	Views []viewT          `json:"views"`
	Reads []readsT         `json:"reads"`
	Pold  uint64           `json:"pold"`
	Pc    string           `json:"pc"`
	Pk    *pkT             `json:"pk"`
	Diffs []map[string]int `json:"diffs"`
}

type input struct {
	Tables     tables   `json:"tables"`
	Behaviours [][]step `json:"behaviours"`
	NewState   []bool   `json:"newstate"`
	// concurrency test only
	Offsets []uint64 `json:"offsets"`
	Readers int      `json:"readers"`
	Iters   int      `json:"iters"`
}

type handle struct {
	reader preconfirmed.ChainReader
	fp     string
	slots  []slot
}

// run is one behaviour's worth of real objects.
type run struct {
	w       *world
	node    *chainkit.Node
	storage *preconfirmed.ChainStorage
	views   []*handle
	applied uint64
	stepNo  int
	off     uint64 // the model's block n is the real block n+off
	ret     retention
}

type mismatch struct {
	key, what          string
	expected, observed any
}

func mm(key, what string, exp, obs any) *mismatch {
	return &mismatch{key: key, what: what, expected: exp, observed: obs}
}

func (r *run) maxNum() uint64 { return uint64(r.w.tb.MaxHead) + 8 + r.off }

// applyUpdate performs one ChainStorage.ApplyUpdate call and compares its result.
func (r *run) applyUpdate(a *action, res *result) *mismatch {
	r.applied++
	r.w.shape = r.applied
	update := r.w.update(a.U, r.applied)
	affected, err := r.storage.ApplyUpdate(update, a.Num, a.Base, a.Oldest, r.w.classes(a.Cls))
	if m := r.checkApplyResult(a.U.Kind, res.St, res.Tag, res.Aff, affected, err); m != nil {
		return m
	}
	r.retainEntry(affected, "ApplyUpdate ("+res.Tag+")")
	return nil
}

func (r *run) checkApplyResult(kind, st, tag string, aff *slot, affected *pending.PreConfirmed, err error) *mismatch {
	obs := fmt.Sprintf("affected=%v err=%v", affected != nil, err)
	switch st {
	case "err":
		if err == nil {
			return mm("apply:"+kind+":"+tag+":accepted", "the code accepted an update the specification rejects ("+tag+")", "error", obs)
		}
		if tag == "base-tx-count" && !errors.Is(err, preconfirmed.ErrBaseTxCountMismatch) {
			return mm("apply:delta:base-tx-count:wrong-error", "expected ErrBaseTxCountMismatch", tag, obs)
		}
		if tag == "delta-id-mismatch" && !errors.Is(err, sn2core.ErrPreConfirmedIdentifierMismatch) {
			return mm("apply:delta:id-mismatch:wrong-error", "expected ErrPreConfirmedIdentifierMismatch", tag, obs)
		}
		if affected != nil {
			return mm("apply:"+kind+":"+tag+":affected-on-error", "an entry was returned together with an error", "nil", obs)
		}
	case "noop":
		if err != nil || affected != nil {
			return mm("apply:"+kind+":"+tag+":not-noop", "the specification says no-op ("+tag+")", "nil, nil", obs)
		}
	case "ok":
		if err != nil || affected == nil {
			return mm("apply:"+kind+":"+tag+":rejected", "the code rejected / ignored an update the specification applies ("+tag+")", "entry", obs)
		}
		got, _, perr := r.w.projectEntry(affected)
		if perr != nil {
			return mm("apply:"+kind+":"+tag+":bad-entry", perr.Error(), aff, nil)
		}
		if aff != nil && !sameSlot(got, *aff) {
			return mm("apply:"+kind+":"+tag+":affected", "the returned entry differs from the specification's", aff, got)
		}
	}
	return nil
}

// checkChain compares the published chain (recovered through SnapshotForBlock) with the model's.
func (r *run) checkChain(st *step, ctx string) *mismatch {
	got, diffs, err := r.w.fullChain(r.storage, r.maxNum())
	if err != nil {
		return mm("chain:"+ctx+":incoherent", err.Error(), st.Chain, nil)
	}
	if !sameSlots(got, st.Chain) {
		return mm("chain:"+ctx+":content", "published chain differs from the specification's", st.Chain, got)
	}
	for i := range diffs {
		if i < len(st.Diffs) && !sameDiff(diffs[i], st.Diffs[i]) {
			return mm("chain:"+ctx+":slot-diff", fmt.Sprintf("squashed state diff of slot %d differs", got[i].Num), st.Diffs[i], diffs[i])
		}
		if want := r.w.declaredOf(got[i].Txs); fmt.Sprint(want) != fmt.Sprint(r.w.declaredAt(r.storage, got[i].Num)) {
			return mm("chain:"+ctx+":declared", fmt.Sprintf("declared classes of slot %d differ", got[i].Num), want, r.w.declaredAt(r.storage, got[i].Num))
		}
	}
	return nil
}

func (w *world) declaredOf(txs []int) []string {
	set := map[string]bool{}
	for _, t := range txs {
		for _, id := range w.tb.TxDecl[t-1] {
			set[id] = true
		}
	}
	out := []string{}
	for _, id := range w.tb.ClassIDs {
		if set[id] {
			out = append(out, id)
		}
	}
	sortStrings(out)
	return out
}

func (w *world) declaredAt(s *preconfirmed.ChainStorage, n uint64) []string {
	v := s.SnapshotForBlock(n)
	for pc := range v.OldestFirst() {
		return w.declared(pc.StateUpdate.StateDiff)
	}
	return nil
}

func sortStrings(s []string) {
	for i := 1; i < len(s); i++ {
		for j := i; j > 0 && s[j] < s[j-1]; j-- {
			s[j], s[j-1] = s[j-1], s[j]
		}
	}
}

// checkViews re-validates every view ever handed out: unchanged (deep), equal to the model's,
// gap-free and starting at the block it was asked for.
func (r *run) checkViews(st *step, ctx string) *mismatch {
	if len(st.Views) != len(r.views) {
		return mm("harness:view-count", "view bookkeeping out of sync", len(st.Views), len(r.views))
	}
	for i, h := range r.views {
		if fp := fingerprint(&h.reader); fp != h.fp {
			was, is := fpDelta(h.fp, fp)
			return mm("view-changed:"+ctx, fmt.Sprintf("view %d (asked %d) changed after it was handed out", i, st.Views[i].Asked), was, is)
		}
		slots, _, err := r.w.projectReader(&h.reader)
		if err != nil {
			return mm("view-incoherent:"+ctx, err.Error(), st.Views[i], nil)
		}
		if !sameSlots(slots, st.Views[i].Slots) {
			return mm("view-content:"+ctx, fmt.Sprintf("view %d differs from the specification's", i), st.Views[i], slots)
		}
		for j := range slots {
			if slots[j].Num != st.Views[i].Asked+uint64(j) {
				return mm("view-gap:"+ctx, fmt.Sprintf("view %d is not a gap-free run from %d", i, st.Views[i].Asked), st.Views[i], slots)
			}
		}
	}
	return nil
}

type stateReads interface {
	ContractStorage(addr, key *felt.Felt) (felt.Felt, error)
	ContractNonce(addr *felt.Felt) (felt.Felt, error)
	ContractClassHash(addr *felt.Felt) (felt.Felt, error)
	Class(classHash *felt.Felt) (*core.DeclaredClassDefinition, error)
}

// readKey performs the read the abstract key stands for; returns the abstract value.
func (w *world) readKey(s stateReads, key string) (int, error) {
	c := w.contract[key[1]]
	var (
		f   felt.Felt
		err error
	)
	switch key[0] {
	case 's':
		f, err = s.ContractStorage(c, w.skey[key[2]])
	case 'n':
		f, err = s.ContractNonce(c)
	case 'h':
		f, err = s.ContractClassHash(c)
		if err == nil {
			for v, h := range w.clsVal {
				if h.Equal(&f) {
					return v, nil
				}
			}
			return 0, fmt.Errorf("class hash %s is none of the model's", &f)
		}
	}
	if err != nil {
		return errVal, nil
	}
	if !f.Equal(fu(int(f.Uint64()))) {
		return 0, fmt.Errorf("value %s outside the model's range", &f)
	}
	return int(f.Uint64()), nil
}

func (w *world) compareKeys(s stateReads, want map[string]int, key string) *mismatch {
	for _, q := range w.tb.SK {
		got, err := w.readKey(s, q)
		if err != nil {
			return mm(key+":"+q+":garbage", err.Error(), want[q], nil)
		}
		if got != want[q] {
			return mm(key+":"+q, "state read through the view differs from the overlay of the specification", want[q], got)
		}
	}
	return nil
}

// checkReads performs every read of the model's `reads` record through view i.
func (r *run) checkReads(i int, v *viewT, rd *readsT, ctx string, withBefore bool) *mismatch {
	h := r.views[i]
	bc := r.node.BC
	if _, _, err := h.reader.PreConfirmedStateAt(v.Asked+uint64(len(v.Slots)), bc); !errors.Is(err, pending.ErrPreConfirmedNotFound) {
		return mm("stateat:above-tip:"+ctx, "state above the view's tip must be ErrPreConfirmedNotFound", "ErrPreConfirmedNotFound", fmt.Sprint(err))
	}
	if v.Asked > 0 {
		if _, _, err := h.reader.PreConfirmedStateAt(v.Asked-1, bc); !errors.Is(err, pending.ErrPreConfirmedNotFound) {
			return mm("stateat:below-base:"+ctx, "state below the view's base must be ErrPreConfirmedNotFound", "ErrPreConfirmedNotFound", fmt.Sprint(err))
		}
	}
	for j, s := range v.Slots {
		state, closer, err := h.reader.PreConfirmedStateAt(s.Num, bc)
		nobase := rd.St[j][r.w.tb.SK[0]] == noBase
		if nobase {
			if err == nil {
				_ = closer()
				return mm("stateat:no-base:"+ctx, "the canonical state below the view is gone, yet a state was returned", "error", "state")
			}
			continue
		}
		if err != nil {
			return mm("stateat:error:"+ctx, fmt.Sprintf("PreConfirmedStateAt(%d): %v", s.Num, err), "state", err.Error())
		}
		if m := r.w.compareKeys(state, rd.St[j], "stateat"); m != nil {
			m.what = fmt.Sprintf("view %d (asked %d) block %d: %s", i, v.Asked, s.Num, m.what)
			if base, bcloser, berr := bc.StateAtBlockNumber(v.Asked - 1); berr == nil {
				m.what += r.w.baseNote(base, j, v)
				_ = bcloser()
			}
			_ = closer()
			return m
		}
		for _, id := range r.w.tb.ClassIDs {
			ci := r.w.class[id]
			def, cerr := state.Class(&ci.hash)
			got := 0
			if cerr == nil && def != nil {
				got = 1
			}
			if got != rd.Cl[j][id] {
				_ = closer()
				return mm("classat:"+id, fmt.Sprintf("view %d block %d: class %s lookup differs", i, s.Num, id), rd.Cl[j][id], got)
			}
		}
		scribble(state)
		_ = closer()
		if !withBefore {
			continue
		}
		for x := 0; x <= len(s.Txs); x++ {
			bs, bcl, berr := h.reader.PreConfirmedStateBeforeIndexAt(s.Num, uint(x), bc)
			if berr != nil {
				return mm("statebefore:error:"+ctx, fmt.Sprintf("PreConfirmedStateBeforeIndexAt(%d, %d): %v", s.Num, x, berr), "state", berr.Error())
			}
			if m := r.w.compareKeys(bs, rd.Bi[j][x], "statebefore"); m != nil {
				m.what = fmt.Sprintf("view %d block %d before tx %d: %s", i, s.Num, x, m.what)
				_ = bcl()
				return m
			}
			scribble(bs)
			_ = bcl()
		}
		if _, _, berr := h.reader.PreConfirmedStateBeforeIndexAt(s.Num, uint(len(s.Txs)+1), bc); !errors.Is(berr, pending.ErrTransactionIndexOutOfBounds) {
			return mm("statebefore:index-bound", "index past the block's transactions must be ErrTransactionIndexOutOfBounds", "ErrTransactionIndexOutOfBounds", fmt.Sprint(berr))
		}
	}
	for t := range r.w.coreTx {
		hash := r.w.coreTx[t].Hash()
		tx, terr := h.reader.TransactionByHash(hash)
		rc, num, rerr := h.reader.ReceiptByHash(hash)
		want := rd.Tx[t]
		if want == 0 {
			if !errors.Is(terr, pending.ErrTransactionNotFound) || !errors.Is(rerr, pending.ErrTransactionReceiptNotFound) {
				return mm("txlookup:phantom", fmt.Sprintf("view %d: transaction %d is in none of the view's blocks", i, t+1), "not found", fmt.Sprint(terr, rerr))
			}
			continue
		}
		if terr != nil || rerr != nil || tx == nil || rc == nil {
			return mm("txlookup:missing", fmt.Sprintf("view %d: transaction %d of the view's block %d not found", i, t+1, want), want, fmt.Sprint(terr, rerr))
		}
		if !tx.Hash().Equal(hash) || !rc.TransactionHash.Equal(hash) || int(num) != want {
			return mm("txlookup:wrong", fmt.Sprintf("view %d: lookup of transaction %d", i, t+1), want, fmt.Sprintf("block %d tx %s", num, tx.Hash()))
		}
		r.retainLookup(tx, rc)
	}
	return nil
}

// baseNote says whether the canonical base itself already disagrees with the model (that would be
// the canonical-state machinery, not the pre-confirmed overlay).
func (w *world) baseNote(base stateReads, j int, v *viewT) string {
	out := " [base state at " + fmt.Sprint(v.Asked-1) + ":"
	for _, q := range w.tb.SK {
		got, _ := w.readKey(base, q)
		out += fmt.Sprintf(" %s=%d", q, got)
	}
	return out + "]"
}

// apply executes one step of a storage-level behaviour and runs every comparison.
func (r *run) apply(st *step) *mismatch {
	return guarded(st.A.Name, func() *mismatch { return r.applyStep(st) })
}

func (r *run) applyStep(st *step) *mismatch {
	a := &st.A
	ctx := a.Name
	if st.Res.Tag != "" {
		ctx += ":" + st.Res.Tag
	}
	fullReads := false
	switch a.Name {
	case "ApplyUpdate":
		if m := r.applyUpdate(a, &st.Res); m != nil {
			return m
		}
	case "AdvanceTo":
		if got := r.storage.AdvanceTo(a.O); got != st.Res.Ch {
			return mm("advance:"+st.Res.Tag+":result", "AdvanceTo returned the wrong changed flag", st.Res.Ch, got)
		}
	case "Snapshot":
		v := r.storage.SnapshotForBlock(a.N)
		if v.Length() != st.Res.Len {
			return mm("snapshot:length", fmt.Sprintf("SnapshotForBlock(%d) length", a.N), st.Res.Len, v.Length())
		}
		h := &handle{reader: v, fp: fingerprint(&v)}
		r.views = append(r.views, h)
		fullReads = true
	case "ReaderChain":
		if m := r.readerChain(&st.Res); m != nil {
			return m
		}
		fullReads = true
	case "HeadAdvance":
		if err := r.w.headAdvance(r.node, len(st.Canon), a.V); err != nil {
			return mm("harness:head-advance", err.Error(), nil, nil)
		}
		r.ret.gen++
		fullReads = true
	case "HeadRevert":
		if err := r.node.BC.RevertHead(); err != nil {
			return mm("harness:head-revert", err.Error(), nil, nil)
		}
		r.ret.gen++
		fullReads = true
	default:
		return mm("harness:unknown-action", a.Name, nil, nil)
	}
	return r.compareAll(st, ctx, fullReads)
}

// readerChain is Synchronizer.PreConfirmedChain() (sync/sync.go) over this run's storage: the
// snapshot above the current head, or a one-block view holding the empty placeholder block.
func (r *run) readerChain(res *result) *mismatch {
	head, err := r.node.BC.HeadsHeader()
	if err != nil {
		return mm("harness:heads-header", err.Error(), nil, nil)
	}
	v := r.storage.SnapshotForBlock(head.Number + 1)
	fallback := v.Length() == 0
	if fallback {
		empty, err := jsync.MakeEmptyPreConfirmedForParent(r.node.BC, head)
		if err != nil {
			return mm("readerchain:placeholder", "MakeEmptyPreConfirmedForParent: "+err.Error(), nil, nil)
		}
		if v, err = preconfirmed.NewChain(&empty); err != nil {
			return mm("readerchain:newchain", "NewChain: "+err.Error(), nil, nil)
		}
		n := head.Number + 1
		r.w.counts["placeholder views"]++
		if n >= core.BlockHashLag {
			r.w.counts["placeholder views at or above BlockHashLag"]++
		}
		if jerr := r.placeholderSysDiff(n)(empty.StateUpdate.StateDiff.StorageDiffs[*core.BlockHashStorageContract]); jerr != nil {
			return mm("readerchain:placeholder-registry", jerr.Error(), nil, nil)
		}
	}
	if fallback != res.Fb || v.Length() != res.Len {
		return mm("readerchain:shape", "the reader's view above the head", fmt.Sprintf("fallback=%v len=%d", res.Fb, res.Len),
			fmt.Sprintf("fallback=%v len=%d", fallback, v.Length()))
	}
	r.views = append(r.views, &handle{reader: v, fp: fingerprint(&v)})
	return nil
}

func (r *run) compareAll(st *step, ctx string, fullReads bool) *mismatch {
	if m := r.checkChain(st, ctx); m != nil {
		return m
	}
	if m := r.checkViews(st, ctx); m != nil {
		return m
	}
	for i := range r.views {
		// all reads of all views when the canonical chain moved or a view was created; otherwise
		// (writer steps) one view in rotation, all of them are still fingerprinted above
		if !fullReads && i != r.stepNo%len(r.views) {
			continue
		}
		if m := r.checkReads(i, &st.Views[i], &st.Reads[i], ctx, fullReads || r.stepNo%3 == 0); m != nil {
			return m
		}
		// reading must not disturb the view either (class-map aliasing shows up only after a read)
		if fp := fingerprint(&r.views[i].reader); fp != r.views[i].fp {
			was, is := fpDelta(r.views[i].fp, fp)
			return mm("view-changed-by-read:"+ctx, fmt.Sprintf("view %d changed while it was being read", i), was, is)
		}
	}
	if m := r.checkChain(st, ctx+":after-reads"); m != nil {
		return m
	}
	if fullReads { // (re-)open the retained state readers: a view was created or the base moved
		for i := range r.views {
			if n := len(st.Views[i].Slots); n > 0 {
				r.retainState(i, st.Views[i].Slots[n-1].Num)
			}
		}
	}
	return r.checkRetained(ctx)
}

func newRun(w *world, newState bool, off uint64) (*run, error) {
	node, err := w.newCanonAt(newState, off)
	if err != nil {
		return nil, err
	}
	r := &run{w: w, node: node, storage: preconfirmed.NewChainStorage(), off: off}
	w.sysJudge = func(n uint64, m map[felt.Felt]*felt.Felt) error { return r.placeholderSysDiff(n)(m) }
	return r, nil
}

func offsetOf(in *input, bi int) uint64 {
	if bi < len(in.Offsets) {
		return in.Offsets[bi]
	}
	return 0
}

func TestPreconfReplay(t *testing.T) {
	if !vh.Enabled() {
		t.Skip()
	}
	var in input
	if err := vh.Input(&in); err != nil {
		t.Fatal(err)
	}
	out := vh.NewResult()
	defer out.Write()
	w := newWorld(in.Tables, vh.Seed())
	if err := w.adaptCheck(); err != nil {
		t.Fatalf("concretisation self-check: %v", err)
	}
	steps := 0
	tags := map[string]int{}
	for bi, beh := range in.Behaviours {
		newState := bi < len(in.NewState) && in.NewState[bi]
		off := offsetOf(&in, bi)
		r, err := newRun(w, newState, off)
		if err != nil {
			t.Fatalf("canonical chain: %v", err)
		}
		exec := shifted(beh, off)
		for si := range beh {
			r.stepNo = si
			m := r.apply(&exec[si])
			steps++
			tags[beh[si].A.Name+":"+beh[si].Res.Tag]++
			if m != nil {
				out.Diverge(vh.Divergence{Key: m.key, What: m.what, Step: si, Expected: m.expected, Observed: m.observed,
					Input: vh.J{"tables": in.Tables, "behaviours": [][]step{beh[:si+1]}, "newstate": []bool{newState}, "offsets": []uint64{off}}})
				break
			}
		}
		if bi == 0 {
			out.Sample(vh.J{"behaviour": summarize(beh)})
		}
	}
	for k, v := range tags {
		out.Count("case "+k, v)
	}
	for k, v := range w.counts {
		out.Count(k, v)
	}
	out.Done(len(in.Behaviours), steps)
}

func summarize(beh []step) []string {
	out := []string{}
	for _, s := range beh {
		x := s.A.Name
		if s.A.U != nil {
			x += fmt.Sprintf("(%s id=%s txs=%v num=%d base=%d oldest=%d cls=%v)", s.A.U.Kind, s.A.U.ID, s.A.U.Txs, s.A.Num, s.A.Base, s.A.Oldest, s.A.Cls)
		}
		switch s.A.Name {
		case "AdvanceTo":
			x += fmt.Sprintf("(%d)", s.A.O)
		case "Snapshot":
			x += fmt.Sprintf("(%d)", s.A.N)
		case "HeadAdvance":
			x += fmt.Sprintf("(v%d)", s.A.V)
		}
		out = append(out, x+" -> "+s.Res.St+" "+s.Res.Tag)
	}
	return out
}

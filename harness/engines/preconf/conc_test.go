// conc_test.go: TestPreconfConc — N reader goroutines take views from the real ChainStorage and
// re-validate them (gap-free, aligned, deeply unchanged, reads) while ONE writer goroutine applies
// a TLC-generated behaviour.  The writer counts its completed calls in an atomic; every reader
// notes the counter before and after obtaining its view.  The engine writes an ndjson trace
// (writer calls in order, then the distinct reader observations); PreConfirmedTrace.tla decides
// whether every observation is a snapshot of one of the chains published between the two counter
// values and whether the reads through it are the specification's overlay.
package preconf

import (
	"encoding/json"
	"fmt"
	"math/rand"
	"os"
	"path/filepath"
	"runtime"
	"sync"
	"sync/atomic"
	"testing"

	"github.com/NethermindEth/juno/sync/preconfirmed"

	"verifharness/internal/chainkit"
	"verifharness/internal/vh"
)

type wEvent struct {
	Ev    string `json:"ev"`
	K     int    `json:"k"`
	A     action `json:"a"`
	St    string `json:"st"`
	Tag   string `json:"tag"`
	Chain []slot `json:"chain"`
}

type rEvent struct {
	Ev       string           `json:"ev"`
	R        int              `json:"r"`
	S1       int              `json:"s1"`
	S2       int              `json:"s2"`
	Asked    uint64           `json:"asked"`
	Slots    []slot           `json:"slots"`
	HasReads bool             `json:"hasreads"`
	St       []map[string]int `json:"st"`
	Cl       []map[string]int `json:"cl"`
	Tx       []int            `json:"tx"`
}

type held struct {
	reader preconfirmed.ChainReader
	fp     string
	asked  uint64
	s1     int
}

// observeReads performs the state / class / lookup reads through a view against the static chain.
func (w *world) observeReads(node *chainkit.Node, v *preconfirmed.ChainReader, slots []slot) ([]map[string]int, []map[string]int, []int, error) {
	st := []map[string]int{}
	cl := []map[string]int{}
	for _, s := range slots {
		state, closer, err := v.PreConfirmedStateAt(s.Num, node.BC)
		if err != nil {
			return nil, nil, nil, fmt.Errorf("PreConfirmedStateAt(%d): %w", s.Num, err)
		}
		m := map[string]int{}
		for _, q := range w.tb.SK {
			got, rerr := w.readKey(state, q)
			if rerr != nil {
				_ = closer()
				return nil, nil, nil, rerr
			}
			m[q] = got
		}
		c := map[string]int{}
		for _, id := range w.tb.ClassIDs {
			def, cerr := state.Class(&w.class[id].hash)
			c[id] = 0
			if cerr == nil && def != nil {
				c[id] = 1
			}
		}
		_ = closer()
		st = append(st, m)
		cl = append(cl, c)
	}
	tx := make([]int, len(w.coreTx))
	for t := range w.coreTx {
		_, num, err := v.ReceiptByHash(w.coreTx[t].Hash())
		_, terr := v.TransactionByHash(w.coreTx[t].Hash())
		if (err == nil) != (terr == nil) {
			return nil, nil, nil, fmt.Errorf("transaction %d: receipt and transaction lookups disagree", t+1)
		}
		if err == nil {
			tx[t] = int(num)
		}
	}
	return st, cl, tx, nil
}

func TestPreconfConc(t *testing.T) {
	if !vh.Enabled() {
		t.Skip()
	}
	var in input
	if err := vh.Input(&in); err != nil {
		t.Fatal(err)
	}
	out := vh.NewResult()
	defer out.Write()
	w := newWorld(in.Tables, vh.Seed())
	node, err := w.newCanon(false)
	if err != nil {
		t.Fatal(err)
	}
	for h := 1; h <= in.Tables.MaxHead; h++ {
		if err := w.headAdvance(node, h, 1); err != nil {
			t.Fatal(err)
		}
	}
	if in.Readers == 0 {
		in.Readers = 4
	}
	if in.Iters == 0 {
		in.Iters = 1
	}
	path := filepath.Join(vh.Scratch(), fmt.Sprintf("preconf-trace-%d.ndjson", os.Getpid()))
	f, err := os.Create(path)
	if err != nil {
		t.Fatal(err)
	}
	defer f.Close()
	enc := json.NewEncoder(f)
	var (
		lines, iterations, rTotal, rRacing, rDistinct, nonEmpty int
		lineOfIter                                              []int
	)
	seed := vh.Seed()
	diverged := false
	for bi, beh := range in.Behaviours {
		for it := 0; it < in.Iters && !diverged; it++ {
			iterations++
			lineOfIter = append(lineOfIter, lines+1)
			storage := preconfirmed.NewChainStorage()
			var ctr, headVar atomic.Int64
			var done atomic.Bool
			var mu sync.Mutex
			rEvents := []rEvent{}
			report := func(key, what string, exp, obs any) {
				mu.Lock()
				defer mu.Unlock()
				diverged = true
				out.Diverge(vh.Divergence{Key: key, What: what, Expected: exp, Observed: obs,
					Input: vh.J{"tables": in.Tables, "behaviours": [][]step{beh}, "readers": in.Readers, "iters": 50}})
			}
			var wg sync.WaitGroup
			for r := 0; r < in.Readers; r++ {
				wg.Add(1)
				go func(r int) {
					defer wg.Done()
					defer func() {
						if p := recover(); p != nil {
							report("conc:reader-panic", fmt.Sprintf("reader %d panicked inside the pre-confirmed read path: %v", r, p), nil, nil)
						}
					}()
					rng := rand.New(rand.NewSource(seed*1_000_003 + int64(bi*1000+it*10+r)))
					ring := []held{}
					local := []rEvent{}
					extra := 0
					type capture struct {
						s1, s2 int
						asked  uint64
						v      preconfirmed.ChainReader
					}
					burst := make([]capture, 8)
					for n := 0; ; n++ {
						if done.Load() {
							if extra++; extra > 2 {
								break
							}
						}
						// a burst of back-to-back captures (counter, head, snapshot, counter), examined afterwards
						for b := range burst {
							c := &burst[b]
							c.s1 = int(ctr.Load())
							c.asked = uint64(headVar.Load()) + 1
							if (n+b)%2 == 0 {
								c.asked = uint64(1 + (n+b+r)%(in.Tables.MaxHead+1))
							}
							c.v = storage.SnapshotForBlock(c.asked)
							c.s2 = int(ctr.Load())
						}
						for b := range burst {
							c := &burst[b]
							s1, s2, asked, v := c.s1, c.s2, c.asked, c.v
							slots, _, perr := w.projectReader(&v)
							if perr != nil {
								report("conc:view-incoherent", fmt.Sprintf("reader %d, view for %d taken between writer steps %d and %d: %v", r, asked, s1, s2, perr), nil, slots)
								return
							}
							for j := range slots {
								if slots[j].Num != asked+uint64(j) {
									report("conc:view-gap", fmt.Sprintf("reader %d: view for %d is not a gap-free run from %d", r, asked, asked), asked, slots)
									return
								}
							}
							ev := rEvent{Ev: "R", R: r, S1: s1, S2: s2, Asked: asked, Slots: slots, St: []map[string]int{}, Cl: []map[string]int{}, Tx: []int{}}
							if b == n%len(burst) && len(slots) > 0 {
								st, cl, tx, rerr := w.observeReads(node, &v, slots)
								if rerr != nil {
									report("conc:read-failed", rerr.Error(), nil, slots)
									return
								}
								ev.HasReads, ev.St, ev.Cl, ev.Tx = true, st, cl, tx
							}
							local = append(local, ev)
							if b%3 == 0 {
								h := held{reader: v, fp: fingerprint(&v), asked: asked, s1: s1}
								if len(ring) < 6 {
									ring = append(ring, h)
								} else {
									ring[rng.Intn(len(ring))] = h
								}
							}
						}
						for i := range ring {
							if fp := fingerprint(&ring[i].reader); fp != ring[i].fp {
								was, is := fpDelta(ring[i].fp, fp)
								report("conc:view-changed", fmt.Sprintf("reader %d: the view for %d taken at writer step %d changed afterwards (now step %d)",
									r, ring[i].asked, ring[i].s1, ctr.Load()), was, is)
								return
							}
						}
					}
					mu.Lock()
					rEvents = append(rEvents, local...)
					mu.Unlock()
				}(r)
			}
			// the single writer
			wEvents := []wEvent{}
			wr := &run{w: w, node: node, storage: storage}
			wrng := rand.New(rand.NewSource(seed*7 + int64(bi*100+it)))
			k := 0
			for si := range beh {
				st := &beh[si]
				switch st.A.Name {
				case "HeadAdvance", "HeadRevert":
					headVar.Store(int64(len(st.Canon)))
					continue
				case "Snapshot", "ReaderChain":
					continue
				}
				var m *mismatch
				switch st.A.Name {
				case "ApplyUpdate":
					m = wr.applyUpdate(&st.A, &st.Res)
				case "AdvanceTo":
					if got := storage.AdvanceTo(st.A.O); got != st.Res.Ch {
						m = mm("advance:"+st.Res.Tag+":result", "AdvanceTo returned the wrong changed flag", st.Res.Ch, got)
					}
				}
				k++
				ctr.Store(int64(k))
				if m == nil {
					m = wr.checkChain(st, "conc-writer:"+st.A.Name+":"+st.Res.Tag)
				}
				if m != nil {
					report(m.key, m.what, m.expected, m.observed)
					break
				}
				wEvents = append(wEvents, wEvent{Ev: "W", K: k, A: st.A, St: st.Res.St, Tag: st.Res.Tag, Chain: st.Chain})
				// half of the iterations the writer runs flat out, the others it yields between calls
				if it%2 == 1 {
					for spin := wrng.Intn(30); spin > 0; spin-- {
						runtime.Gosched()
					}
				}
			}
			done.Store(true)
			wg.Wait()
			if diverged {
				break
			}
			// trace: Reset, the writer's calls in order, then the DISTINCT reader observations
			must := func(err error) {
				if err != nil {
					t.Fatalf("trace write: %v", err)
				}
			}
			must(enc.Encode(map[string]any{"ev": "Reset", "iter": iterations}))
			lines++
			for i := range wEvents {
				if wEvents[i].A.U == nil {
					wEvents[i].A.U = &upd{Kind: "none", ID: "", Txs: []int{}}
				}
				if wEvents[i].A.Cls == nil {
					wEvents[i].A.Cls = []string{}
				}
				must(enc.Encode(wEvents[i]))
				lines++
			}
			seen := map[string]bool{}
			for i := range rEvents {
				e := rEvents[i]
				rTotal++
				if e.S1 != e.S2 {
					rRacing++
				}
				if len(e.Slots) > 0 {
					nonEmpty++
				}
				e.R = 0
				b, _ := json.Marshal(e)
				if seen[string(b)] {
					continue
				}
				seen[string(b)] = true
				rDistinct++
				must(enc.Encode(e))
				lines++
			}
		}
		if diverged {
			break
		}
		if bi == 0 {
			out.Sample(vh.J{"concurrent_behaviour": summarize(beh)})
		}
	}
	out.Stats["trace_file"] = path
	out.Stats["trace_lines"] = lines
	out.Stats["trace_iter_start_lines"] = lineOfIter
	out.Count("conc_iterations", iterations)
	out.Count("conc_reads_total", rTotal)
	out.Count("conc_reads_racing_a_write", rRacing)
	out.Count("conc_reads_distinct_logged", rDistinct)
	out.Count("conc_reads_nonempty_view", nonEmpty)
	out.Done(iterations, lines)
}

// conc_test.go: TestPreconfConc — N reader goroutines take views from the real ChainStorage and
// re-validate them (gap-free, aligned, deeply unchanged, reads) while ONE writer goroutine applies
// a TLC-generated behaviour.  The writer counts its completed calls in an atomic; every reader
// notes the counter before and after obtaining its view.  The engine writes an ndjson trace
// (writer calls in order, then the distinct reader observations); PreConfirmedTrace.tla decides
// whether every observation is a snapshot of one of the chains published between the two counter
// values and whether the reads through it are the specification's overlay.
package preconf

import (
	"encoding/json"
	"fmt"
	"math/rand"
	"os"
	"path/filepath"
	"runtime"
	"sync"
	"sync/atomic"
	"testing"
	"time"
	"unsafe"

	"github.com/NethermindEth/juno/sync/preconfirmed"

	"verifharness/internal/chainkit"
	"verifharness/internal/vh"
)

type wEvent struct {
	Ev    string `json:"ev"`
	K     int    `json:"k"`
	A     action `json:"a"`
	St    string `json:"st"`
	Tag   string `json:"tag"`
	Chain []slot `json:"chain"`
}

type rEvent struct {
	Ev       string           `json:"ev"`
	R        int              `json:"r"`
	S1       int              `json:"s1"`
	S2       int              `json:"s2"`
	Asked    uint64           `json:"asked"`
	Slots    []slot           `json:"slots"`
	HasReads bool             `json:"hasreads"`
	St       []map[string]int `json:"st"`
	Cl       []map[string]int `json:"cl"`
	Tx       []int            `json:"tx"`
}

type held struct {
	reader preconfirmed.ChainReader
	fp     string
	asked  uint64
	s1     int
}

// observeReads performs the state / class / lookup reads through a view against the static chain.
func (w *world) observeReads(node *chainkit.Node, v *preconfirmed.ChainReader, slots []slot) ([]map[string]int, []map[string]int, []int, error) {
	st := []map[string]int{}
	cl := []map[string]int{}
	for _, s := range slots {
		state, closer, err := v.PreConfirmedStateAt(s.Num, node.BC)
		if err != nil {
			return nil, nil, nil, fmt.Errorf("PreConfirmedStateAt(%d): %w", s.Num, err)
		}
		m := map[string]int{}
		for _, q := range w.tb.SK {
			got, rerr := w.readKey(state, q)
			if rerr != nil {
				_ = closer()
				return nil, nil, nil, rerr
			}
			m[q] = got
		}
		c := map[string]int{}
		for _, id := range w.tb.ClassIDs {
			def, cerr := state.Class(&w.class[id].hash)
			c[id] = 0
			if cerr == nil && def != nil {
				c[id] = 1
			}
		}
		_ = closer()
		st = append(st, m)
		cl = append(cl, c)
	}
	tx := make([]int, len(w.coreTx))
	for t := range w.coreTx {
		_, num, err := v.ReceiptByHash(w.coreTx[t].Hash())
		_, terr := v.TransactionByHash(w.coreTx[t].Hash())
		if (err == nil) != (terr == nil) {
			return nil, nil, nil, fmt.Errorf("transaction %d: receipt and transaction lookups disagree", t+1)
		}
		if err == nil {
			tx[t] = int(num)
		}
	}
	return st, cl, tx, nil
}

type capture struct {
	s1, s2 int
	asked  uint64
	v      preconfirmed.ChainReader
	sig    quickSig
}

// quickSig is what a sampler can note about the newest entry of a view in a few nanoseconds at the
// very moment it obtains the view; an entry that is still being completed after publication (or
// altered later) shows a different signature when the capture is examined after the run.
type quickSig struct {
	entry, block, su  uintptr
	classes, txs, tds int
	count             uint64
	id                string
}

func sigOf(v *preconfirmed.ChainReader) quickSig {
	h := v.Head()
	if h == nil || h.Block == nil || h.Block.Header == nil {
		return quickSig{}
	}
	return quickSig{entry: uintptr(unsafe.Pointer(h)), block: uintptr(unsafe.Pointer(h.Block)), su: uintptr(unsafe.Pointer(h.StateUpdate)),
		classes: len(h.NewClasses), txs: len(h.Block.Transactions), tds: len(h.TransactionStateDiffs),
		count: h.Block.TransactionCount, id: h.BlockIdentifier}
}

// concIter is one concurrent run: ONE writer replaying a behaviour, `samplers` goroutines that do
// nothing but capture (counter, head, SnapshotForBlock, counter) in a tight loop — examined after
// the run, when every later write has happened — and one validating reader that examines, holds,
// re-fingerprints and reads through its views WHILE the writer is running.
type concIter struct {
	w        *world
	node     *chainkit.Node
	in       *input
	beh      []step
	seed     int64
	storage  *preconfirmed.ChainStorage
	ctr      atomic.Int64
	headVar  atomic.Int64
	hintVar  atomic.Int64 // oldest slot the writer is about to publish (0 = nothing): where views are non-empty
	start    atomic.Bool
	done     atomic.Bool
	mu       sync.Mutex
	rEvents  []rEvent
	diverged *vh.Divergence
}

func (c *concIter) report(key, what string, exp, obs any) {
	c.mu.Lock()
	defer c.mu.Unlock()
	if c.diverged == nil {
		c.diverged = &vh.Divergence{Key: key, What: what, Expected: exp, Observed: obs,
			Input: vh.J{"tables": c.in.Tables, "behaviours": [][]step{c.beh}, "readers": c.in.Readers, "iters": 200}}
	}
}

func (c *concIter) take(n, r int) capture {
	var x capture
	x.s1 = int(c.ctr.Load())
	switch hint := uint64(c.hintVar.Load()); {
	case n%4 == 0:
		x.asked = uint64(c.headVar.Load()) + 1 // what sync.PreConfirmedChain asks for
	case n%4 == 1 && hint > 0:
		x.asked = hint
	case n%4 == 2 && hint > 0:
		x.asked = hint + uint64(n/4)%2
	default:
		x.asked = uint64(1 + (n/4+r)%(c.in.Tables.MaxHead+2))
	}
	x.v = c.storage.SnapshotForBlock(x.asked)
	x.sig = sigOf(&x.v)
	x.s2 = int(c.ctr.Load())
	return x
}

// examine checks what needs no model (coherent API, gap-free, aligned) and turns the capture into
// the R event TLC will have to explain; withReads adds the state / class / lookup reads.
func (c *concIter) examine(r int, x *capture, withReads bool) (rEvent, bool) {
	if now := sigOf(&x.v); now != x.sig {
		c.report("conc:view-changed-after-capture", fmt.Sprintf("reader %d: the newest entry of the view for %d (writer steps %d..%d) "+
			"was different at the moment the view was obtained", r, x.asked, x.s1, x.s2), fmt.Sprintf("%+v", x.sig), fmt.Sprintf("%+v", now))
		return rEvent{}, false
	}
	slots, _, perr := c.w.projectReader(&x.v)
	if perr != nil {
		c.report("conc:view-incoherent", fmt.Sprintf("reader %d, view for %d taken between writer steps %d and %d: %v", r, x.asked, x.s1, x.s2, perr), nil, slots)
		return rEvent{}, false
	}
	for j := range slots {
		if slots[j].Num != x.asked+uint64(j) {
			c.report("conc:view-gap", fmt.Sprintf("reader %d: view for %d (writer steps %d..%d) is not a gap-free run from %d", r, x.asked, x.s1, x.s2, x.asked), x.asked, slots)
			return rEvent{}, false
		}
	}
	ev := rEvent{Ev: "R", R: r, S1: x.s1, S2: x.s2, Asked: x.asked, Slots: slots, St: []map[string]int{}, Cl: []map[string]int{}, Tx: []int{}}
	if withReads && len(slots) > 0 && x.asked > uint64(c.in.Tables.MaxHead)+1 {
		// the canonical block below this view does not exist (the static chain ends at MaxHead)
		if _, _, err := x.v.PreConfirmedStateAt(slots[0].Num, c.node.BC); err == nil {
			c.report("conc:state-without-base", fmt.Sprintf("view for %d: a state was returned although block %d is not in the canonical chain", x.asked, x.asked-1), "error", "state")
			return rEvent{}, false
		}
	} else if withReads && len(slots) > 0 {
		st, cl, tx, rerr := c.w.observeReads(c.node, &x.v, slots)
		if rerr != nil {
			c.report("conc:read-failed", rerr.Error(), nil, slots)
			return rEvent{}, false
		}
		ev.HasReads, ev.St, ev.Cl, ev.Tx = true, st, cl, tx
	}
	return ev, true
}

func (c *concIter) guard(r int) {
	if p := recover(); p != nil {
		c.report("conc:reader-panic", fmt.Sprintf("reader %d panicked inside the pre-confirmed read path: %v", r, p), nil, nil)
	}
}

// sampler: tight capture loop while the writer runs; keeps every capture that raced a write and a
// thinned sample of the others; everything is examined after the run.
func (c *concIter) sampler(r int, wg *sync.WaitGroup) {
	defer wg.Done()
	defer c.guard(r)
	racing := make([]capture, 0, 96)
	sample := make([]capture, 0, 24)
	for !c.start.Load() {
		runtime.Gosched()
	}
	for n := 0; ; n++ {
		x := c.take(n, r)
		if x.s1 != x.s2 {
			if len(racing) < cap(racing) {
				racing = append(racing, x)
			}
		} else if n%64 == 0 && len(sample) < cap(sample) {
			sample = append(sample, x)
		}
		if c.done.Load() {
			break
		}
	}
	local := []rEvent{}
	for _, set := range [][]capture{racing, sample} {
		for i := range set {
			ev, ok := c.examine(r, &set[i], i%8 == 0)
			if !ok {
				return
			}
			local = append(local, ev)
		}
	}
	c.mu.Lock()
	c.rEvents = append(c.rEvents, local...)
	c.mu.Unlock()
}

// validator: examines, holds and re-validates views while the writer is running.
func (c *concIter) validator(r int, wg *sync.WaitGroup) {
	defer wg.Done()
	defer c.guard(r)
	rng := rand.New(rand.NewSource(c.seed + int64(r)))
	ring := []held{}
	local := []rEvent{}
	for !c.start.Load() {
		runtime.Gosched()
	}
	for n, extra := 0, 0; ; n++ {
		if c.done.Load() {
			if extra++; extra > 2 {
				break
			}
		}
		x := c.take(n, r)
		ev, ok := c.examine(r, &x, n%3 == 0)
		if !ok {
			return
		}
		local = append(local, ev)
		h := held{reader: x.v, fp: fingerprint(&x.v), asked: x.asked, s1: x.s1}
		if len(ring) < 6 {
			ring = append(ring, h)
		} else {
			ring[rng.Intn(len(ring))] = h
		}
		for i := range ring {
			if fp := fingerprint(&ring[i].reader); fp != ring[i].fp {
				was, is := fpDelta(ring[i].fp, fp)
				c.report("conc:view-changed", fmt.Sprintf("reader %d: the view for %d taken at writer step %d changed afterwards (now step %d)",
					r, ring[i].asked, ring[i].s1, c.ctr.Load()), was, is)
				return
			}
		}
	}
	c.mu.Lock()
	c.rEvents = append(c.rEvents, local...)
	c.mu.Unlock()
}

// writer replays the behaviour; flat = no per-call inspection of the storage (results only), so
// that the calls follow each other as fast as the code allows.
func (c *concIter) writer(flat bool) []wEvent {
	wEvents := []wEvent{}
	wr := &run{w: c.w, node: c.node, storage: c.storage}
	wrng := rand.New(rand.NewSource(c.seed * 7))
	k := 0
	for si := range c.beh {
		st := &c.beh[si]
		switch st.A.Name {
		case "HeadAdvance", "HeadRevert":
			c.headVar.Store(int64(len(st.Canon)))
			continue
		case "Snapshot", "ReaderChain":
			continue
		}
		if len(st.Chain) > 0 {
			c.hintVar.Store(int64(st.Chain[0].Num))
		} else {
			c.hintVar.Store(0)
		}
		var m *mismatch
		switch st.A.Name {
		case "ApplyUpdate":
			m = wr.applyUpdate(&st.A, &st.Res)
			if m == nil && !flat {
				m = wr.checkRetained("conc-writer")
			}
		case "AdvanceTo":
			if got := c.storage.AdvanceTo(st.A.O); got != st.Res.Ch {
				m = mm("advance:"+st.Res.Tag+":result", "AdvanceTo returned the wrong changed flag", st.Res.Ch, got)
			}
		}
		k++
		c.ctr.Store(int64(k))
		if m == nil && !flat {
			m = wr.checkChain(st, "conc-writer:"+st.A.Name+":"+st.Res.Tag)
		}
		if m != nil {
			c.report(m.key, m.what, m.expected, m.observed)
			break
		}
		wEvents = append(wEvents, wEvent{Ev: "W", K: k, A: st.A, St: st.Res.St, Tag: st.Res.Tag, Chain: st.Chain})
		if !flat {
			for spin := wrng.Intn(30); spin > 0; spin-- {
				runtime.Gosched()
			}
		}
	}
	return wEvents
}

func TestPreconfConc(t *testing.T) {
	if !vh.Enabled() {
		t.Skip()
	}
	var in input
	if err := vh.Input(&in); err != nil {
		t.Fatal(err)
	}
	out := vh.NewResult()
	defer out.Write()
	w := newWorld(in.Tables, vh.Seed())
	node, err := w.newCanon(false)
	if err != nil {
		t.Fatal(err)
	}
	for h := 1; h <= in.Tables.MaxHead; h++ {
		if err := w.headAdvance(node, h, 1); err != nil {
			t.Fatal(err)
		}
	}
	if in.Readers == 0 {
		in.Readers = 4
	}
	if in.Iters == 0 {
		in.Iters = 1
	}
	path := filepath.Join(vh.Scratch(), fmt.Sprintf("preconf-trace-%d.ndjson", os.Getpid()))
	f, err := os.Create(path)
	if err != nil {
		t.Fatal(err)
	}
	defer f.Close()
	enc := json.NewEncoder(f)
	var (
		lines, iterations, rTotal, rRacing, rDistinct, nonEmpty int
		lineOfIter                                              []int
	)
	must := func(err error) {
		if err != nil {
			t.Fatalf("trace write: %v", err)
		}
	}
	diverged := false
	for bi, beh := range in.Behaviours {
		for it := 0; it < in.Iters && !diverged; it++ {
			iterations++
			lineOfIter = append(lineOfIter, lines+1)
			c := &concIter{w: w, node: node, in: &in, beh: beh, seed: vh.Seed()*1_000_003 + int64(bi*1000+it*10),
				storage: preconfirmed.NewChainStorage()}
			var wg sync.WaitGroup
			for r := 0; r < in.Readers; r++ {
				wg.Add(1)
				if r == 0 {
					go c.validator(r, &wg)
				} else {
					go c.sampler(r, &wg)
				}
			}
			runtime.Gosched()
			c.start.Store(true)
			// two thirds of the runs the writer goes flat out, one third it inspects the storage and yields
			var wEvents []wEvent
			if m := guarded("conc-writer", func() *mismatch { wEvents = c.writer(it%3 != 2); return nil }); m != nil {
				c.report(m.key, m.what, m.expected, m.observed)
			}
			c.done.Store(true)
			waited := make(chan struct{})
			go func() { wg.Wait(); close(waited) }()
			select {
			case <-waited:
			case <-time.After(gateTimeout):
				c.report("conc:hang", "a reader goroutine did not come back from the pre-confirmed read path", nil, nil)
			}
			if c.diverged != nil {
				out.Diverge(*c.diverged)
				diverged = true
				break
			}
			// trace: Reset, the writer's calls in order, then the DISTINCT reader observations
			must(enc.Encode(map[string]any{"ev": "Reset", "iter": iterations}))
			lines++
			for i := range wEvents {
				if wEvents[i].A.U == nil {
					wEvents[i].A.U = &upd{Kind: "none", ID: "", Txs: []int{}}
				}
				if wEvents[i].A.Cls == nil {
					wEvents[i].A.Cls = []string{}
				}
				must(enc.Encode(wEvents[i]))
				lines++
			}
			seen := map[string]bool{}
			for i := range c.rEvents {
				e := c.rEvents[i]
				rTotal++
				if e.S1 != e.S2 {
					rRacing++
				}
				if len(e.Slots) > 0 {
					nonEmpty++
				}
				e.R = 0
				b, _ := json.Marshal(e)
				if seen[string(b)] {
					continue
				}
				seen[string(b)] = true
				rDistinct++
				must(enc.Encode(e))
				lines++
			}
		}
		if diverged {
			break
		}
		if bi == 0 {
			out.Sample(vh.J{"concurrent_behaviour": summarize(beh)})
		}
	}
	out.Stats["trace_file"] = path
	out.Stats["trace_lines"] = lines
	out.Stats["trace_iter_start_lines"] = lineOfIter
	out.Count("conc_iterations", iterations)
	out.Count("conc_reads_examined", rTotal)
	out.Count("conc_reads_racing_a_write", rRacing)
	out.Count("conc_reads_distinct_logged", rDistinct)
	out.Count("conc_reads_nonempty_view", nonEmpty)
	out.Done(iterations, lines)
}

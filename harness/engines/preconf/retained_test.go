// retained_test.go: everything the real API hands back is kept together with a deep copy taken at
// return time and re-checked after every later step (entries returned by ApplyUpdate, state
// readers, looked-up transactions / receipts); returned state diffs are scribbled on, so that a
// result aliasing a stored object shows up as a changed view; behaviours can be shifted by an
// offset of empty canonical blocks so that they cross the BlockHashLag boundary at height 10;
// real-code panics inside a step become keyed divergences.
package preconf

import (
	"encoding/json"
	"fmt"
	"runtime/debug"
	"strings"

	"github.com/NethermindEth/juno/core"
	"github.com/NethermindEth/juno/core/felt"
	"github.com/NethermindEth/juno/core/pending"
)

type retainedEntry struct {
	pc   *pending.PreConfirmed
	fp   string
	from string
}

type retainedLookup struct {
	tx  core.Transaction
	rc  *core.TransactionReceipt
	sig string
}

type retainedState struct {
	view  int
	block uint64
	gen   int
	state stateReads
	vals  map[string]int
}

type retention struct {
	entries []retainedEntry
	lookups []retainedLookup
	states  []retainedState
	gen     int // bumped whenever the canonical chain moves (a retained base state is then re-opened)
}

func lookupSig(tx core.Transaction, rc *core.TransactionReceipt) string {
	return fmt.Sprintf("%p %s | %p %s fee=%v events=%d reverted=%v l2l1=%d", tx, tx.Hash(), rc, rc.TransactionHash, rc.Fee, len(rc.Events),
		rc.Reverted, len(rc.L2ToL1Message))
}

func (r *run) retainEntry(pc *pending.PreConfirmed, from string) {
	if pc == nil {
		return
	}
	if len(r.ret.entries) >= 16 {
		r.ret.entries = r.ret.entries[1:]
	}
	r.ret.entries = append(r.ret.entries, retainedEntry{pc: pc, fp: fingerprintEntry(pc), from: from})
}

func (r *run) retainLookup(tx core.Transaction, rc *core.TransactionReceipt) {
	if len(r.ret.lookups) >= 16 {
		r.ret.lookups = r.ret.lookups[1:]
	}
	r.ret.lookups = append(r.ret.lookups, retainedLookup{tx: tx, rc: rc, sig: lookupSig(tx, rc)})
}

// retainState keeps a state reader obtained through view i at block n together with what it
// answered; it must keep answering the same while the canonical chain does not move.
func (r *run) retainState(i int, n uint64) {
	state, _, err := r.views[i].reader.PreConfirmedStateAt(n, r.node.BC)
	if err != nil {
		return
	}
	vals := map[string]int{}
	for _, q := range r.w.tb.SK {
		v, rerr := r.w.readKey(state, q)
		if rerr != nil {
			return
		}
		vals[q] = v
	}
	kept := r.ret.states[:0]
	for _, s := range r.ret.states {
		if s.view != i {
			kept = append(kept, s)
		}
	}
	r.ret.states = append(kept, retainedState{view: i, block: n, gen: r.ret.gen, state: state, vals: vals})
}

// checkRetained re-validates every retained result after a step.
func (r *run) checkRetained(ctx string) *mismatch {
	r.w.counts["retained results re-checked"] += len(r.ret.entries) + len(r.ret.lookups) + len(r.ret.states)
	for _, e := range r.ret.entries {
		if fp := fingerprintEntry(e.pc); fp != e.fp {
			was, is := fpDelta(e.fp, fp)
			return mm("affected-changed:"+ctx, "the entry returned by "+e.from+" changed after it was returned", was, is)
		}
	}
	for _, l := range r.ret.lookups {
		if sig := lookupSig(l.tx, l.rc); sig != l.sig {
			return mm("lookup-result-changed:"+ctx, "a transaction / receipt returned by a lookup changed afterwards", l.sig, sig)
		}
	}
	for _, s := range r.ret.states {
		if s.gen != r.ret.gen {
			continue
		}
		for _, q := range r.w.tb.SK {
			v, err := r.w.readKey(s.state, q)
			if err != nil || v != s.vals[q] {
				return mm("state-changed:"+ctx+":"+q, fmt.Sprintf("a state reader obtained earlier through view %d at block %d answers differently now", s.view, s.block),
					s.vals[q], v)
			}
		}
	}
	return nil
}

var scribbleAddr = new(felt.Felt).SetUint64(0xdead0001)

// scribble writes into the state diff a caller got back from PreConfirmedStateAt (as the block
// builder's state writer does with a pending state); if the diff aliases a stored entry, the next
// fingerprint of the view / chain differs.
func scribble(state any) {
	ps, ok := state.(*pending.State)
	if !ok || ps.StateDiff() == nil {
		return
	}
	sd := ps.StateDiff()
	v := new(felt.Felt).SetUint64(0xbeef)
	for _, m := range sd.StorageDiffs {
		m[*scribbleAddr] = v
	}
	if sd.StorageDiffs != nil {
		sd.StorageDiffs[*scribbleAddr] = map[felt.Felt]*felt.Felt{*scribbleAddr: v}
	}
	for _, m := range []map[felt.Felt]*felt.Felt{sd.Nonces, sd.DeployedContracts, sd.ReplacedClasses, sd.DeclaredV1Classes} {
		if m != nil {
			m[*scribbleAddr] = v
		}
	}
	sd.DeclaredV0Classes = append(sd.DeclaredV0Classes, v)
}

// guarded runs one step; a panic raised underneath it (the real code misbehaving on an input the
// specification allows) becomes a divergence instead of a dead engine.
func guarded(name string, f func() *mismatch) (m *mismatch) {
	defer func() {
		if p := recover(); p != nil {
			site := "unknown"
			for _, ln := range strings.Split(string(debug.Stack()), "\n") {
				if strings.Contains(ln, "NethermindEth/juno/") && !strings.HasPrefix(ln, "\t") {
					site = strings.TrimSpace(ln)
					if i := strings.Index(site, "("); i > 0 {
						site = site[:i]
					}
					break
				}
			}
			m = mm("crash:"+name+":"+site, fmt.Sprintf("panic while executing %s: %v", name, p), nil, string(debug.Stack()))
		}
	}()
	return f()
}

// shifted returns a deep copy of the behaviour with every block number moved up by off.
func shifted(beh []step, off uint64) []step {
	if off == 0 {
		return beh
	}
	b, _ := json.Marshal(beh)
	var out []step
	if err := json.Unmarshal(b, &out); err != nil {
		panic(err)
	}
	sl := func(s *slot) {
		if s != nil && s.Num > 0 {
			s.Num += off
		}
	}
	for i := range out {
		st := &out[i]
		switch st.A.Name {
		case "ApplyUpdate":
			st.A.Num += off
			st.A.Oldest += off
		case "LatestResp", "ByNumResp":
			st.A.Num += off
		case "AdvanceTo":
			st.A.O += off
		case "Snapshot":
			st.A.N += off
		}
		sl(st.Res.Aff)
		for j := range st.Chain {
			sl(&st.Chain[j])
		}
		for j := range st.Views {
			st.Views[j].Asked += off
			for k := range st.Views[j].Slots {
				sl(&st.Views[j].Slots[k])
			}
		}
		for j := range st.Reads {
			for k := range st.Reads[j].Tx {
				if st.Reads[j].Tx[k] > 0 {
					st.Reads[j].Tx[k] += int(off)
				}
			}
		}
		st.Pold += off
		if st.Pk != nil {
			st.Pk.H += off
			if st.Pk.From > 0 {
				st.Pk.From += off
			}
			if st.Pk.N > 0 {
				st.Pk.N += off
			}
			if st.Pk.Unum > 0 {
				st.Pk.Unum += off
			}
		}
	}
	return out
}

// placeholderSysDiff judges the block-hash registry write of the empty placeholder block n: for
// n >= BlockHashLag exactly {n-10 -> hash of block n-10}, below that nothing.
func (r *run) placeholderSysDiff(n uint64) func(map[felt.Felt]*felt.Felt) error {
	return func(m map[felt.Felt]*felt.Felt) error {
		if n < core.BlockHashLag {
			if len(m) != 0 {
				return fmt.Errorf("block %d writes the block-hash registry below the lag", n)
			}
			return nil
		}
		h, err := r.node.BC.BlockHeaderByNumber(n - core.BlockHashLag)
		if err != nil {
			return err
		}
		key := new(felt.Felt).SetUint64(n - core.BlockHashLag)
		if len(m) != 1 || m[*key] == nil || !m[*key].Equal(h.Hash) {
			return fmt.Errorf("block %d: block-hash registry write is not {%d -> hash of block %d}", n, n-core.BlockHashLag, n-core.BlockHashLag)
		}
		return nil
	}
}

// Engine "preconf" (property C20): binds spec/preconf/PreConfirmed.tla to the real
// sync/preconfirmed.ChainStorage / ChainReader / Poller and core/pending.State.
//
// world_test.go: concretisation (abstract ids of the model -> felts, wire transactions, state
// diffs, classes, a real canonical Blockchain) and projection (real objects -> abstract slots).
package preconf

import (
	"crypto/sha1"
	"errors"
	"fmt"
	"sort"
	"strings"

	"github.com/NethermindEth/juno/adapters/sn2core"
	"github.com/NethermindEth/juno/blockchain"
	"github.com/NethermindEth/juno/core"
	"github.com/NethermindEth/juno/core/felt"
	"github.com/NethermindEth/juno/core/pending"
	_ "github.com/NethermindEth/juno/encoder/registry"
	"github.com/NethermindEth/juno/starknet"
	"github.com/NethermindEth/juno/sync/preconfirmed"

	"verifharness/internal/chainkit"
)

const (
	noW    = -1
	errVal = -2
	noBase = -3
)

// tables are the constant tables printed by PreConfirmedMBT (the model's own alphabets).
type tables struct {
	SK           []string           `json:"sk"`
	TxDiff       []map[string]int   `json:"txdiff"`
	TxDecl       [][]string         `json:"txdecl"`
	CanonDiff    [][]map[string]int `json:"canondiff"`
	Genesis      map[string]int     `json:"genesis"`
	ClassIDs     []string           `json:"classids"`
	CanonClasses []string           `json:"canonclasses"`
	Blank        string             `json:"blank"`
	MaxHead      int                `json:"maxhead"`
}

type slot struct {
	Num uint64   `json:"num"`
	ID  string   `json:"id"`
	Txs []int    `json:"txs"`
	Cls []string `json:"cls"`
}

type viewT struct {
	Asked uint64 `json:"asked"`
	Slots []slot `json:"slots"`
}

type readsT struct {
	St []map[string]int   `json:"st"`
	Cl []map[string]int   `json:"cl"`
	Bi [][]map[string]int `json:"bi"`
	Tx []int              `json:"tx"`
}

type upd struct {
	Kind string `json:"kind"`
	ID   string `json:"id"`
	Txs  []int  `json:"txs"`
}

type classInfo struct {
	hash   felt.Felt
	def    core.ClassDefinition
	sierra bool
	casm   felt.Felt
}

// world maps the model's abstract ids to concrete values, deterministically from the seed.
type world struct {
	tb        tables
	contract  map[byte]*felt.Felt // '1', '2'
	skey      map[byte]*felt.Felt // storage keys '1', '2'
	clsVal    map[int]*felt.Felt  // class-hash VALUES written by h-keys (1, 2)
	clsValDef map[int]core.ClassDefinition
	class     map[string]*classInfo // class ids "A", "k1", "k2"
	classOf   map[felt.Felt]string
	coreTx    []core.Transaction // by tx id - 1
	txOf      map[felt.Felt]int
	deployKey string
	// sysJudge, when set, judges a storage diff of the block-hash registry (contract 0x1) carried
	// by the entry for block n; only the reader's empty placeholder block may carry one
	sysJudge func(n uint64, m map[felt.Felt]*felt.Felt) error
	// counts of what the audit machinery exercised (replay / poller engines only: one goroutine)
	counts map[string]int
	// shape toggles the degenerate encodings of "nothing": nil vs empty maps / slices
	shape uint64
}

func newWorld(tb tables, seed int64) *world {
	g := chainkit.NewGen(seed*7919 + 17)
	w := &world{tb: tb, contract: map[byte]*felt.Felt{}, skey: map[byte]*felt.Felt{}, clsVal: map[int]*felt.Felt{},
		clsValDef: map[int]core.ClassDefinition{}, class: map[string]*classInfo{}, classOf: map[felt.Felt]string{},
		txOf: map[felt.Felt]int{}, deployKey: "h2", counts: map[string]int{}}
	w.contract['1'], w.contract['2'] = g.Felt(), g.Felt()
	w.skey['1'], w.skey['2'] = g.Felt(), g.Felt()
	for v := 1; v <= 2; v++ {
		h, def := g.Cairo0Class()
		w.clsVal[v] = &h
		w.clsValDef[v] = def
	}
	ids := append([]string(nil), tb.ClassIDs...)
	sort.Strings(ids)
	for i, id := range ids {
		if id == "A" { // the genesis class of contract c1 = class-hash value 1
			w.class[id] = &classInfo{hash: *w.clsVal[1], def: w.clsValDef[1]}
		} else if i%2 == 0 {
			h, c1, _, def := g.SierraClass()
			w.class[id] = &classInfo{hash: h, def: def, sierra: true, casm: c1}
		} else {
			h, def := g.Cairo0Class()
			w.class[id] = &classInfo{hash: h, def: def}
		}
		w.classOf[w.class[id].hash] = id
	}
	kinds := []string{"invoke1", "l1handler", "invoke0", "deployaccount1", "declare1", "invoke1", "invoke0"}
	for i := range tb.TxDiff {
		tx := g.Tx(kinds[i%len(kinds)])
		w.coreTx = append(w.coreTx, tx)
		w.txOf[*tx.Hash()] = i + 1
	}
	return w
}

func fu(v int) *felt.Felt { return new(felt.Felt).SetUint64(uint64(v)) }

// value of an abstract key as a felt
func (w *world) val(key string, v int) *felt.Felt {
	if key[0] == 'h' {
		if v == 0 {
			return &felt.Zero
		}
		return w.clsVal[v]
	}
	return fu(v)
}

// wireTx builds a FRESH feeder-gateway transaction for tx id t (every poll decodes fresh JSON).
func (w *world) wireTx(t int) starknet.Transaction {
	cl := func(f []*felt.Felt) *[]felt.Felt {
		out := make([]felt.Felt, len(f))
		for i := range f {
			out[i] = *f[i]
		}
		return &out
	}
	cs := func(f []felt.Felt) *[]felt.Felt { out := append([]felt.Felt{}, f...); return &out }
	_ = cl
	switch tx := w.coreTx[t-1].(type) {
	case *core.InvokeTransaction:
		return starknet.Transaction{Hash: tx.TransactionHash.Clone(), Type: starknet.TxnInvoke, Version: (*felt.Felt)(tx.Version).Clone(),
			ContractAddress: tx.ContractAddress, EntryPointSelector: tx.EntryPointSelector, SenderAddress: tx.SenderAddress,
			Nonce: tx.Nonce, MaxFee: tx.MaxFee, CallData: cs(tx.CallData), Signature: cs(tx.TransactionSignature)}
	case *core.L1HandlerTransaction:
		return starknet.Transaction{Hash: tx.TransactionHash.Clone(), Type: starknet.TxnL1Handler, Version: (*felt.Felt)(tx.Version).Clone(),
			ContractAddress: tx.ContractAddress, EntryPointSelector: tx.EntryPointSelector, Nonce: tx.Nonce, CallData: cs(tx.CallData)}
	case *core.DeployAccountTransaction:
		return starknet.Transaction{Hash: tx.TransactionHash.Clone(), Type: starknet.TxnDeployAccount, Version: (*felt.Felt)(tx.Version).Clone(),
			ContractAddress: tx.ContractAddress, ContractAddressSalt: tx.ContractAddressSalt, ClassHash: tx.ClassHash,
			ConstructorCallData: cs(tx.ConstructorCallData), MaxFee: tx.MaxFee, Signature: cs(tx.TransactionSignature), Nonce: tx.Nonce}
	case *core.DeclareTransaction:
		return starknet.Transaction{Hash: tx.TransactionHash.Clone(), Type: starknet.TxnDeclare, Version: (*felt.Felt)(tx.Version).Clone(),
			ClassHash: tx.ClassHash, SenderAddress: tx.SenderAddress, MaxFee: tx.MaxFee, Signature: cs(tx.TransactionSignature),
			Nonce: tx.Nonce, CompiledClassHash: tx.CompiledClassHash}
	}
	panic("preconf: unsupported tx kind")
}

func (w *world) wireReceipt(t int) *starknet.TransactionReceipt {
	h := w.coreTx[t-1].Hash().Clone()
	var evs []*starknet.Event // nil when the receipt has no events on odd shapes, empty slice on even ones
	if t%3 > 0 || w.shape%2 == 0 {
		evs = make([]*starknet.Event, t%3)
	}
	for i := range evs {
		evs[i] = &starknet.Event{From: w.contract['1'], Keys: []felt.Felt{*fu(t)}, Data: []felt.Felt{*fu(i)}}
	}
	return &starknet.TransactionReceipt{TransactionHash: h, ActualFee: fu(1000 + t), Events: evs,
		ExecutionStatus: starknet.Succeeded, TransactionIndex: 0}
}

type kv = struct {
	Key   *felt.Felt `json:"key"`
	Value *felt.Felt `json:"value"`
}
type ac = struct {
	Address   *felt.Felt `json:"address"`
	ClassHash *felt.Felt `json:"class_hash"`
}

// wireDiff builds a FRESH per-transaction state diff from the model's TxDiff / TxDecl tables.
func (w *world) wireDiff(t int) *starknet.StateDiff {
	d := &starknet.StateDiff{StorageDiffs: map[string][]kv{}, Nonces: map[string]*felt.Felt{}}
	keys := make([]string, 0, len(w.tb.TxDiff[t-1]))
	for k := range w.tb.TxDiff[t-1] {
		keys = append(keys, k)
	}
	sort.Strings(keys)
	for _, k := range keys {
		v := w.tb.TxDiff[t-1][k]
		if v == noW {
			continue
		}
		c := w.contract[k[1]]
		switch k[0] {
		case 's':
			d.StorageDiffs[c.String()] = append(d.StorageDiffs[c.String()], kv{Key: w.skey[k[2]].Clone(), Value: w.val(k, v).Clone()})
		case 'n':
			d.Nonces[c.String()] = w.val(k, v).Clone()
		case 'h':
			if k == w.deployKey {
				d.DeployedContracts = append(d.DeployedContracts, ac{Address: c.Clone(), ClassHash: w.val(k, v).Clone()})
			} else {
				d.ReplacedClasses = append(d.ReplacedClasses, ac{Address: c.Clone(), ClassHash: w.val(k, v).Clone()})
			}
		}
	}
	for _, id := range w.tb.TxDecl[t-1] {
		ci := w.class[id]
		if ci.sierra {
			d.DeclaredClasses = append(d.DeclaredClasses, struct {
				ClassHash         *felt.Felt `json:"class_hash"`
				CompiledClassHash *felt.Felt `json:"compiled_class_hash"`
			}{ClassHash: ci.hash.Clone(), CompiledClassHash: ci.casm.Clone()})
		} else {
			d.OldDeclaredContracts = append(d.OldDeclaredContracts, ci.hash.Clone())
		}
	}
	if w.shape%2 == 1 { // a decoded JSON object without these members has nil maps
		if len(d.StorageDiffs) == 0 {
			d.StorageDiffs = nil
		}
		if len(d.Nonces) == 0 {
			d.Nonces = nil
		}
	}
	return d
}

func (w *world) wireParts(txs []int) ([]starknet.Transaction, []*starknet.TransactionReceipt, []*starknet.StateDiff) {
	a := make([]starknet.Transaction, len(txs))
	b := make([]*starknet.TransactionReceipt, len(txs))
	c := make([]*starknet.StateDiff, len(txs))
	for i, t := range txs {
		a[i], b[i], c[i] = w.wireTx(t), w.wireReceipt(t), w.wireDiff(t)
		b[i].TransactionIndex = uint64(i)
	}
	return a, b, c
}

// update turns the model's abstract update into the wire-side value handed to ApplyUpdate.
func (w *world) update(u *upd, ts uint64) starknet.PreConfirmedUpdate {
	switch u.Kind {
	case "nochange":
		return starknet.PreConfirmedNoChange{}
	case "delta":
		a, b, c := w.wireParts(u.Txs)
		return starknet.PreConfirmedDeltaUpdate{BlockIdentifier: u.ID, Transactions: a, Receipts: b, TransactionStateDiffs: c}
	case "full":
		a, b, c := w.wireParts(u.Txs)
		return starknet.PreConfirmedBlock{BlockIdentifier: u.ID, Transactions: a, Receipts: b, TransactionStateDiffs: c,
			Status: "PRE_CONFIRMED", Timestamp: 1_700_000_000 + ts, Version: core.Ver0_14_0.String(), SequencerAddress: fu(0x5e9),
			L1GasPrice: &starknet.GasPrice{PriceInWei: fu(11), PriceInFri: fu(12)}, L2GasPrice: &starknet.GasPrice{PriceInWei: fu(13), PriceInFri: fu(14)},
			L1DAMode: starknet.Blob, L1DataGasPrice: &starknet.GasPrice{PriceInWei: fu(15), PriceInFri: fu(16)}}
	}
	panic("preconf: unknown update kind " + u.Kind)
}

// classes builds a FRESH newClasses map (nil when empty, like the poller does).
func (w *world) classes(ids []string) map[felt.Felt]core.ClassDefinition {
	if len(ids) == 0 && w.shape%3 != 0 {
		return nil
	}
	m := make(map[felt.Felt]core.ClassDefinition, len(ids)) // every third call: empty but non-nil
	for _, id := range ids {
		m[w.class[id].hash] = w.class[id].def
	}
	return m
}

// ------------------------------------------------------------------ canonical chain

func (w *world) coreDiff(d map[string]int, genesis bool) (*core.StateDiff, map[felt.Felt]core.ClassDefinition) {
	sd := chainkit.EmptyDiff()
	classes := map[felt.Felt]core.ClassDefinition{}
	if genesis {
		for v := 1; v <= 2; v++ {
			sd.DeclaredV0Classes = append(sd.DeclaredV0Classes, w.clsVal[v])
			classes[*w.clsVal[v]] = w.clsValDef[v]
		}
	}
	for k, v := range d {
		if v == noW || (genesis && v == 0) {
			continue
		}
		c := *w.contract[k[1]]
		switch k[0] {
		case 's':
			if sd.StorageDiffs[c] == nil {
				sd.StorageDiffs[c] = map[felt.Felt]*felt.Felt{}
			}
			sd.StorageDiffs[c][*w.skey[k[2]]] = w.val(k, v)
		case 'n':
			sd.Nonces[c] = w.val(k, v)
		case 'h':
			if genesis {
				sd.DeployedContracts[c] = w.val(k, v)
			} else {
				sd.ReplacedClasses[c] = w.val(k, v)
			}
		}
	}
	return sd, classes
}

func (w *world) newCanon(newState bool, opts ...blockchain.Option) (*chainkit.Node, error) {
	return w.newCanonAt(newState, 0, opts...)
}

// newCanonAt puts `off` empty blocks on top of genesis, so that the model's block n is the real
// block n+off (used to carry behaviours across the BlockHashLag boundary at height 10).
func (w *world) newCanonAt(newState bool, off uint64, opts ...blockchain.Option) (*chainkit.Node, error) {
	n := chainkit.NewNode(nil, newState, opts...)
	sd, classes := w.coreDiff(w.tb.Genesis, true)
	if _, err := n.Append(chainkit.BlockSpec{Diff: sd, Classes: classes, Timestamp: 1000}); err != nil {
		return nil, fmt.Errorf("genesis: %w", err)
	}
	for i := uint64(0); i < off; i++ {
		if _, err := n.Append(chainkit.BlockSpec{Timestamp: 1001 + i}); err != nil {
			return nil, fmt.Errorf("offset block %d: %w", i+1, err)
		}
	}
	return n, nil
}

func (w *world) headAdvance(n *chainkit.Node, height, variant int) error {
	sd, _ := w.coreDiff(w.tb.CanonDiff[height-1][variant-1], false)
	_, err := n.Append(chainkit.BlockSpec{Diff: sd, Timestamp: uint64(1000 + height*10 + variant)})
	return err
}

// ------------------------------------------------------------------ projection

func (w *world) projectDiff(sd *core.StateDiff) (map[string]int, error) {
	return w.projectDiffAt(sd, 0, false)
}

func (w *world) projectDiffAt(sd *core.StateDiff, n uint64, sysAllowed bool) (map[string]int, error) {
	out := map[string]int{}
	for _, k := range w.tb.SK {
		out[k] = noW
	}
	cOf := func(a felt.Felt) (byte, bool) {
		for c, f := range w.contract {
			if f.Equal(&a) {
				return c, true
			}
		}
		return 0, false
	}
	num := func(key string, f *felt.Felt) (int, error) {
		if key[0] == 'h' {
			for v, h := range w.clsVal {
				if h.Equal(f) {
					return v, nil
				}
			}
			return 0, fmt.Errorf("unknown class hash value %s", f)
		}
		return int(f.Uint64()), nil
	}
	put := func(key string, f *felt.Felt) error {
		if _, ok := out[key]; !ok {
			return fmt.Errorf("state diff entry %s outside the model's key space", key)
		}
		v, err := num(key, f)
		out[key] = v
		return err
	}
	for a, m := range sd.StorageDiffs {
		c, ok := cOf(a)
		if !ok && a.Equal(core.BlockHashStorageContract) && sysAllowed && w.sysJudge != nil {
			// the block-hash registry: only the empty placeholder block may write it
			if err := w.sysJudge(n, m); err != nil {
				return nil, err
			}
			continue
		}
		if !ok {
			return nil, fmt.Errorf("storage diff of unknown contract %s", &a)
		}
		for k, v := range m {
			var kk byte
			for i, f := range w.skey {
				if f.Equal(&k) {
					kk = i
				}
			}
			if err := put(string([]byte{'s', c, kk}), v); err != nil {
				return nil, err
			}
		}
	}
	for a, v := range sd.Nonces {
		c, _ := cOf(a)
		if err := put(string([]byte{'n', c}), v); err != nil {
			return nil, err
		}
	}
	for a, v := range sd.DeployedContracts {
		c, _ := cOf(a)
		key := string([]byte{'h', c})
		if key != w.deployKey {
			return nil, fmt.Errorf("deployed contract %s is not the model's deploy key", key)
		}
		if err := put(key, v); err != nil {
			return nil, err
		}
	}
	for a, v := range sd.ReplacedClasses {
		c, _ := cOf(a)
		key := string([]byte{'h', c})
		if key == w.deployKey {
			return nil, fmt.Errorf("replaced class on the model's deploy key")
		}
		if err := put(key, v); err != nil {
			return nil, err
		}
	}
	return out, nil
}

func (w *world) declared(sd *core.StateDiff) []string {
	set := map[string]bool{}
	for _, h := range sd.DeclaredV0Classes {
		set[w.classOf[*h]] = true
	}
	for h := range sd.DeclaredV1Classes {
		set[w.classOf[h]] = true
	}
	out := []string{}
	for k := range set {
		out = append(out, k)
	}
	sort.Strings(out)
	return out
}

// projectEntry is the abstraction function for one pending.PreConfirmed; it also checks the
// entry's internal consistency (counts, receipts, per-transaction diffs, squashed diff).
func (w *world) projectEntry(pc *pending.PreConfirmed) (slot, map[string]int, error) {
	s := slot{Txs: []int{}, Cls: []string{}}
	if pc == nil || pc.Block == nil || pc.Block.Header == nil || pc.StateUpdate == nil || pc.StateUpdate.StateDiff == nil {
		return s, nil, errors.New("nil entry / block / state update")
	}
	s.Num, s.ID = pc.Block.Number, pc.BlockIdentifier
	for _, tx := range pc.Block.Transactions {
		t, ok := w.txOf[*tx.Hash()]
		if !ok {
			return s, nil, fmt.Errorf("unknown transaction %s", tx.Hash())
		}
		s.Txs = append(s.Txs, t)
	}
	for h := range pc.NewClasses {
		id, ok := w.classOf[h]
		if !ok {
			return s, nil, fmt.Errorf("unknown class %s", &h)
		}
		s.Cls = append(s.Cls, id)
	}
	sort.Strings(s.Cls)
	n := len(s.Txs)
	if int(pc.Block.TransactionCount) != n || len(pc.Block.Receipts) != n || len(pc.TransactionStateDiffs) != n {
		return s, nil, fmt.Errorf("inconsistent entry: %d txs, header count %d, %d receipts, %d tx diffs",
			n, pc.Block.TransactionCount, len(pc.Block.Receipts), len(pc.TransactionStateDiffs))
	}
	var events uint64
	for i, r := range pc.Block.Receipts {
		if r == nil || !r.TransactionHash.Equal(pc.Block.Transactions[i].Hash()) {
			return s, nil, fmt.Errorf("receipt %d does not belong to transaction %d", i, i)
		}
		events += uint64(len(r.Events))
		td, err := w.projectDiff(pc.TransactionStateDiffs[i])
		if err != nil {
			return s, nil, fmt.Errorf("tx diff %d: %w", i, err)
		}
		if !sameDiff(td, w.tb.TxDiff[s.Txs[i]-1]) {
			return s, nil, fmt.Errorf("tx diff %d is %v, transaction %d carries %v", i, td, s.Txs[i], w.tb.TxDiff[s.Txs[i]-1])
		}
	}
	if pc.Block.EventCount != events {
		return s, nil, fmt.Errorf("event count %d, receipts hold %d", pc.Block.EventCount, events)
	}
	placeholderShaped := n == 0 && len(pc.NewClasses) == 0 && s.ID == w.tb.Blank
	d, err := w.projectDiffAt(pc.StateUpdate.StateDiff, s.Num, placeholderShaped)
	if err != nil {
		return s, nil, err
	}
	return s, d, nil
}

func sameDiff(a, b map[string]int) bool {
	if len(a) != len(b) {
		return false
	}
	for k, v := range a {
		if b[k] != v {
			return false
		}
	}
	return true
}

func sameSlot(a, b slot) bool {
	if a.Num != b.Num || a.ID != b.ID || len(a.Txs) != len(b.Txs) || len(a.Cls) != len(b.Cls) {
		return false
	}
	for i := range a.Txs {
		if a.Txs[i] != b.Txs[i] {
			return false
		}
	}
	x, y := append([]string{}, a.Cls...), append([]string{}, b.Cls...)
	sort.Strings(x)
	sort.Strings(y)
	for i := range x {
		if x[i] != y[i] {
			return false
		}
	}
	return true
}

func sameSlots(a, b []slot) bool {
	if len(a) != len(b) {
		return false
	}
	for i := range a {
		if !sameSlot(a[i], b[i]) {
			return false
		}
	}
	return true
}

// projectReader walks a ChainReader through its public API and checks the API's own coherence
// (Length, Head, both iteration orders); returns the slots oldest first plus their squashed diffs.
func (w *world) projectReader(c *preconfirmed.ChainReader) ([]slot, []map[string]int, error) {
	slots := []slot{}
	diffs := []map[string]int{}
	var last *pending.PreConfirmed
	for pc := range c.OldestFirst() {
		s, d, err := w.projectEntry(pc)
		if err != nil {
			return nil, nil, err
		}
		slots = append(slots, s)
		diffs = append(diffs, d)
		last = pc
	}
	if len(slots) != c.Length() {
		return slots, diffs, fmt.Errorf("Length() = %d but OldestFirst yields %d entries", c.Length(), len(slots))
	}
	if c.Length() == 0 {
		if c.Head() != nil {
			return slots, diffs, errors.New("empty reader with non-nil Head()")
		}
		return slots, diffs, nil
	}
	if c.Head() != last {
		return slots, diffs, errors.New("Head() is not the newest entry")
	}
	i := len(slots) - 1
	for pc := range c.NewestFirst() {
		if i < 0 || pc.Block.Number != slots[i].Num {
			return slots, diffs, errors.New("NewestFirst is not the reverse of OldestFirst")
		}
		i--
	}
	if i != -1 {
		return slots, diffs, errors.New("NewestFirst yields fewer entries than OldestFirst")
	}
	return slots, diffs, nil
}

// fingerprint is a deep, canonical dump of everything reachable from a ChainReader that a reader
// may look at (not only the abstract projection) plus the identity of the entries.
func fingerprint(c *preconfirmed.ChainReader) string {
	var sb strings.Builder
	fmt.Fprintf(&sb, "len=%d;", c.Length())
	for pc := range c.OldestFirst() {
		fpEntry(&sb, pc)
	}
	return sb.String()
}

// fingerprintEntry is the deep dump of one entry (used for entries returned by ApplyUpdate).
func fingerprintEntry(pc *pending.PreConfirmed) string {
	var sb strings.Builder
	fpEntry(&sb, pc)
	return sb.String()
}

func fpEntry(sb *strings.Builder, pc *pending.PreConfirmed) {
	fmt.Fprintf(sb, "[%p n=%d id=%q ", pc, pc.Block.Number, pc.BlockIdentifier)
	h := pc.Block.Header
	fmt.Fprintf(sb, "hdr(%p %d %d %d %s %v %v)", pc.Block, h.TransactionCount, h.EventCount, h.Timestamp, h.ProtocolVersion,
		h.SequencerAddress, h.L1GasPriceETH)
	if h.EventsBloom != nil {
		b, _ := h.EventsBloom.MarshalBinary()
		fmt.Fprintf(sb, "bloom(%x)", sha1.Sum(b))
	}
	for i, tx := range pc.Block.Transactions {
		fmt.Fprintf(sb, " tx%d=%s", i, tx.Hash())
	}
	for i, r := range pc.Block.Receipts {
		fmt.Fprintf(sb, " rc%d=%s/%d/%v", i, r.TransactionHash, len(r.Events), r.Fee)
	}
	fmt.Fprintf(sb, " su(%p)=%s", pc.StateUpdate, dumpDiff(pc.StateUpdate.StateDiff))
	for i, d := range pc.TransactionStateDiffs {
		fmt.Fprintf(sb, " td%d=%s", i, dumpDiff(d))
	}
	keys := []string{}
	for k, def := range pc.NewClasses {
		keys = append(keys, fmt.Sprintf("%s:%p", &k, def))
	}
	sort.Strings(keys)
	fmt.Fprintf(sb, " cls=%v]", keys)
}

// fpDelta shows where two fingerprints part (the full dumps are long).
func fpDelta(a, b string) (string, string) {
	i := 0
	for i < len(a) && i < len(b) && a[i] == b[i] {
		i++
	}
	from := max(0, i-120)
	cut := func(s string) string { return "…" + s[from:min(len(s), i+200)] + "…" }
	return cut(a), cut(b)
}

func dumpDiff(d *core.StateDiff) string {
	if d == nil {
		return "nil"
	}
	var parts []string
	for a, m := range d.StorageDiffs {
		for k, v := range m {
			parts = append(parts, fmt.Sprintf("s:%s:%s=%s", &a, &k, v))
		}
	}
	for a, v := range d.Nonces {
		parts = append(parts, fmt.Sprintf("n:%s=%s", &a, v))
	}
	for a, v := range d.DeployedContracts {
		parts = append(parts, fmt.Sprintf("d:%s=%s", &a, v))
	}
	for a, v := range d.ReplacedClasses {
		parts = append(parts, fmt.Sprintf("r:%s=%s", &a, v))
	}
	for a, v := range d.DeclaredV1Classes {
		parts = append(parts, fmt.Sprintf("c1:%s=%s", &a, v))
	}
	for a, v := range d.MigratedClasses {
		parts = append(parts, fmt.Sprintf("m:%v=%v", a, v))
	}
	sort.Strings(parts)
	v0 := make([]string, len(d.DeclaredV0Classes))
	for i, h := range d.DeclaredV0Classes {
		v0[i] = h.String()
	}
	return strings.Join(parts, ",") + "|v0:" + strings.Join(v0, ",")
}

// fullChain recovers the published chain through the public API: the longest non-empty
// SnapshotForBlock; it also checks that every other snapshot is the matching suffix of it.
func (w *world) fullChain(s *preconfirmed.ChainStorage, maxNum uint64) ([]slot, []map[string]int, error) {
	var full []slot
	var fullDiffs []map[string]int
	for n := uint64(1); n <= maxNum; n++ {
		v := s.SnapshotForBlock(n)
		slots, diffs, err := w.projectReader(&v)
		if err != nil {
			return nil, nil, fmt.Errorf("snapshot for %d: %w", n, err)
		}
		if full == nil {
			if len(slots) > 0 {
				if slots[0].Num != n {
					return nil, nil, fmt.Errorf("snapshot for %d starts at %d", n, slots[0].Num)
				}
				full, fullDiffs = slots, diffs
			}
			continue
		}
		tip := full[len(full)-1].Num
		want := []slot{}
		if n <= tip {
			want = full[n-full[0].Num:]
		}
		if !sameSlots(slots, want) {
			return nil, nil, fmt.Errorf("snapshot for %d is %v, chain is %v", n, slots, full)
		}
	}
	if full == nil {
		full, fullDiffs = []slot{}, []map[string]int{}
	}
	return full, fullDiffs, nil
}

// adaptCheck: the wire transactions adapt back to the seeded core transactions (hash identity).
func (w *world) adaptCheck() error {
	for t := range w.coreTx {
		wt := w.wireTx(t + 1)
		got, err := sn2core.AdaptTransaction(&wt)
		if err != nil {
			return err
		}
		if !got.Hash().Equal(w.coreTx[t].Hash()) {
			return fmt.Errorf("tx %d: wire form adapts to another hash", t+1)
		}
		h, err := core.TransactionHash(got, chainkit.Network)
		if err != nil {
			return err
		}
		if !h.Equal(got.Hash()) {
			return fmt.Errorf("tx %d: adapted transaction does not hash to its own hash (concretisation bug)", t+1)
		}
	}
	return nil
}

package prims

import (
	"context"
	"errors"
	"fmt"
	"math/rand"
	"runtime"
	"sync"
	"sync/atomic"
	"testing"
	"testing/synctest"
	"time"

	"github.com/NethermindEth/juno/utils/throttler"

	"verifharness/internal/vh"
)

var errDoer = errors.New("doer failed")

type tact struct {
	Name string `json:"name"`
	C    int    `json:"c"`
	O    string `json:"o"`
}

type tproj struct {
	St  []string `json:"st"`
	Ql  int      `json:"ql"`
	Run int      `json:"run"`
}

type tstep struct {
	A   tact  `json:"a"`
	Pre tproj `json:"pre"`
}

type throttlerInput struct {
	N          uint      `json:"n"`
	Q          uint64    `json:"q"`
	Behaviours [][]tstep `json:"behaviours"`
}

// tcall is one call of Do driven by the harness.
type tcall struct {
	mu      sync.Mutex
	ctx     context.Context
	cancel  context.CancelFunc
	started bool
	inDoer  bool
	done    bool
	res     string
	ran     int
	badRes  bool
	gate    chan string
}

func (c *tcall) state() string {
	c.mu.Lock()
	defer c.mu.Unlock()
	switch {
	case !c.started:
		return "idle"
	case c.done:
		return c.res
	case c.inDoer:
		return "running"
	default:
		return "waiting"
	}
}

func classifyDo(err error) string {
	switch {
	case err == nil:
		return "nil"
	case errors.Is(err, errDoer):
		return "err"
	case errors.Is(err, throttler.ErrResourceBusy):
		return "busy"
	case errors.Is(err, context.Canceled):
		return "ctx"
	}
	return "other:" + err.Error()
}

func TestThrottlerReplay(t *testing.T) {
	if !vh.Enabled() {
		t.Skip("driver only")
	}
	var in throttlerInput
	if err := vh.Input(&in); err != nil {
		t.Fatal(err)
	}
	out := vh.NewResult()
	defer out.Write()
	for bi, beh := range in.Behaviours {
		var dv *vh.Divergence
		dl := bubble(t, func(t *testing.T) { dv = replayThrottler(in.N, in.Q, beh, out) })
		if dv == nil && dl != "" {
			dv = &vh.Divergence{Key: "throttler:bubble-deadlock", What: dl, Step: len(beh)}
		}
		if dv != nil {
			n := min(dv.Step+1, len(beh))
			cut := append([]tstep{}, beh[:n]...)
			dv.Input = vh.J{"n": in.N, "q": in.Q, "behaviours": [][]tstep{cut}}
			out.Diverge(*dv)
			if len(out.Divergences) >= 3 {
				break
			}
		}
		out.Done(1, len(beh))
		if bi == 0 {
			out.Sample(vh.J{"n": in.N, "q": in.Q, "behaviour": beh[:min(len(beh), 8)]})
		}
	}
}

func replayThrottler(n uint, q uint64, beh []tstep, out *vh.Result) (dv *vh.Divergence) {
	defer recoverAsDivergence("throttler", len(beh), &dv)
	resource := new(int)
	th := throttler.NewThrottler(n, resource, throttler.WithMaxQueueLen(q))
	calls := map[int]*tcall{}
	get := func(id int) *tcall {
		c := calls[id]
		if c == nil {
			c = &tcall{gate: make(chan string, 1)}
			c.ctx, c.cancel = context.WithCancel(context.Background())
			calls[id] = c
		}
		return c
	}
	defer func() {
		for _, c := range calls {
			c.mu.Lock()
			if c.inDoer && !c.done {
				select {
				case c.gate <- "nil":
				default:
				}
			}
			c.mu.Unlock()
			c.cancel()
		}
		synctest.Wait()
		// second pass: calls that obtained a slot during the first pass
		for _, c := range calls {
			select {
			case c.gate <- "nil":
			default:
			}
		}
		synctest.Wait()
		if dv == nil {
			for id, c := range calls {
				if st := c.state(); st == "waiting" || st == "running" {
					dv = &vh.Divergence{Key: "throttler:call-never-returns", Step: len(beh) - 1,
						What: fmt.Sprintf("call %d is still %s after every doer finished and every context was cancelled", id, st)}
				}
			}
		}
		if dv == nil && (th.QueueLen() != 0 || th.JobsRunning() != 0) {
			dv = &vh.Divergence{Key: "throttler:permits-not-conserved", Step: len(beh) - 1,
				What:     "after every call returned QueueLen and JobsRunning must be 0 (Conservation)",
				Observed: vh.J{"ql": th.QueueLen(), "run": th.JobsRunning()}}
		}
	}()
	for si, st := range beh {
		synctest.Wait()
		if st.Pre.St != nil {
			// rename waiting calls: which waiter got a freed slot is not fixed by the specification
			var a, b []int
			for i, want := range st.Pre.St {
				id := i + 1
				got := "idle"
				if c := calls[id]; c != nil {
					got = c.state()
				}
				if want == "running" && got == "waiting" {
					a = append(a, id)
				}
				if want == "waiting" && got == "running" {
					b = append(b, id)
				}
			}
			if len(a) == len(b) {
				for i := range a {
					calls[a[i]], calls[b[i]] = calls[b[i]], calls[a[i]]
					out.Count("throttler_waiters_renamed", 1)
				}
			}
			obs := tproj{St: make([]string, len(st.Pre.St)), Ql: th.QueueLen(), Run: th.JobsRunning()}
			bad := ""
			for i := range st.Pre.St {
				obs.St[i] = "idle"
				if c := calls[i+1]; c != nil {
					obs.St[i] = c.state()
					c.mu.Lock()
					if c.ran > 1 || c.badRes {
						bad = fmt.Sprintf("call %d: doer ran %d times / wrong resource %v", i+1, c.ran, c.badRes)
					}
					c.mu.Unlock()
				}
				if obs.St[i] != st.Pre.St[i] && bad == "" {
					bad = fmt.Sprintf("call %d is %q, specification says %q", i+1, obs.St[i], st.Pre.St[i])
				}
			}
			if bad == "" && (obs.Ql != st.Pre.Ql || obs.Run != st.Pre.Run) {
				bad = fmt.Sprintf("QueueLen/JobsRunning = %d/%d, specification says %d/%d", obs.Ql, obs.Run, st.Pre.Ql, st.Pre.Run)
			}
			if bad != "" {
				prev := "Init"
				if si > 0 {
					prev = beh[si-1].A.Name
					if prev == "DoerEnd" {
						prev += ":" + beh[si-1].A.O
					}
				}
				return &vh.Divergence{Key: "throttler:after-" + prev, What: "quiescent state after " + prev + " differs from Throttler.tla: " + bad,
					Step: si, Expected: st.Pre, Observed: obs}
			}
		}
		switch st.A.Name {
		case "Start":
			c := get(st.A.C)
			c.mu.Lock()
			c.started = true
			c.mu.Unlock()
			go func() {
				res := ""
				defer func() {
					if p := recover(); p != nil {
						res = "panic"
					}
					c.mu.Lock()
					c.done, c.res, c.inDoer = true, res, false
					c.mu.Unlock()
				}()
				err := th.Do(c.ctx, func(r *int) error {
					c.mu.Lock()
					c.inDoer = true
					c.ran++
					if r != resource {
						c.badRes = true
					}
					c.mu.Unlock()
					switch <-c.gate {
					case "err":
						return errDoer
					case "panic":
						panic("doer panics")
					}
					return nil
				})
				res = classifyDo(err)
			}()
		case "Cancel":
			get(st.A.C).cancel()
		case "DoerEnd":
			c := calls[st.A.C]
			if c == nil || c.state() != "running" {
				panic("replay: DoerEnd on a call that is not running")
			}
			c.gate <- st.A.O
		case "End":
		default:
			panic("unknown step " + st.A.Name)
		}
	}
	return nil
}

// ---------------------------------------------------------------- concurrent rounds

type throttlerConcInput struct {
	Out         string `json:"out"`
	TraceRounds int    `json:"trace_rounds"`
	MonRounds   int    `json:"monitor_rounds"`
}

func TestThrottlerConcurrent(t *testing.T) {
	if !vh.Enabled() {
		t.Skip("driver only")
	}
	var in throttlerConcInput
	if err := vh.Input(&in); err != nil {
		t.Fatal(err)
	}
	out := vh.NewResult()
	defer out.Write()
	rng := rand.New(rand.NewSource(vh.Seed()*104729 + 3))
	tw, err := newTraceWriter(in.Out)
	if err != nil {
		t.Fatal(err)
	}
	defer tw.close(out)
	for r := 0; r < in.TraceRounds; r++ {
		lines, hung := throttlerTraceRound(rng.Int63())
		if hung != "" {
			t.Fatalf("throttler trace round %d did not finish (harness timeout, not a verdict): %s", r, hung)
		}
		if err := tw.round(vh.J{"round": r}, lines); err != nil {
			t.Fatal(err)
		}
		out.Done(0, len(lines))
	}
	for r := 0; r < in.MonRounds; r++ {
		seed := rng.Int63()
		dv, hung := throttlerMonitorRound(seed, out)
		if hung != "" {
			t.Fatalf("throttler monitor round %d did not finish (harness timeout, not a verdict): %s", r, hung)
		}
		if dv != nil {
			dv.Input = vh.J{"monitor_seed": seed, "round": r}
			out.Diverge(*dv)
			break
		}
		out.Done(1, 0)
		out.Count("throttler_monitor_rounds", 1)
	}
}

// throttlerTraceRound: N=2, Q=1; 4 workers x 2 calls (ids in the order of their DoS events), a
// canceller, an observer. Matches ThrottlerTrace.cfg (NCalls = 8).
func throttlerTraceRound(seed int64) ([]map[string]any, string) {
	rng := rand.New(rand.NewSource(seed))
	th := throttler.NewThrottler(2, new(int), throttler.WithMaxQueueLen(1))
	lg := &evlog{}
	lg.add(vh.J{"ev": "Reset"})
	var nextID int
	var cancels sync.Map // id -> cancel func
	startCall := func(cancel context.CancelFunc) int {
		lg.mu.Lock()
		defer lg.mu.Unlock()
		nextID++
		cancels.Store(nextID, cancel)
		lg.lines = append(lg.lines, vh.J{"ev": "DoS", "c": nextID})
		return nextID
	}
	jit := func(r *rand.Rand) {
		switch r.Intn(4) {
		case 0:
			runtime.Gosched()
		case 1:
			time.Sleep(time.Duration(r.Intn(60)) * time.Microsecond)
		}
	}
	var wg sync.WaitGroup
	for w := 0; w < 4; w++ {
		r := rand.New(rand.NewSource(rng.Int63()))
		wg.Add(1)
		go func() {
			defer wg.Done()
			for k := 0; k < 2; k++ {
				jit(r)
				ctx, cancel := context.WithCancel(context.Background())
				id := startCall(cancel)
				res := func() (res string) {
					defer func() {
						if p := recover(); p != nil {
							res = "panic"
						}
					}()
					return classifyDo(th.Do(ctx, func(*int) error {
						lg.add(vh.J{"ev": "DoerS", "c": id})
						jit(r)
						o := []string{"nil", "nil", "err", "panic"}[r.Intn(4)]
						lg.add(vh.J{"ev": "DoerE", "c": id, "o": o})
						switch o {
						case "err":
							return errDoer
						case "panic":
							panic("doer")
						}
						return nil
					}))
				}()
				lg.add(vh.J{"ev": "DoE", "c": id, "res": res})
				cancel()
			}
		}()
	}
	r := rand.New(rand.NewSource(rng.Int63()))
	wg.Add(1)
	go func() { // canceller: cancels up to three calls that exist at that moment
		defer wg.Done()
		for k := 0; k < 3; k++ {
			jit(r)
			lg.mu.Lock()
			n := nextID
			lg.mu.Unlock()
			if n == 0 {
				continue
			}
			id := 1 + r.Intn(n)
			cf, _ := cancels.Load(id)
			lg.add(vh.J{"ev": "CancelS", "c": id})
			cf.(context.CancelFunc)()
			lg.add(vh.J{"ev": "CancelE", "c": id})
		}
	}()
	r2 := rand.New(rand.NewSource(rng.Int63()))
	wg.Add(1)
	go func() { // observer
		defer wg.Done()
		for k := 0; k < 3; k++ {
			jit(r2)
			lg.add(vh.J{"ev": "QLenS"})
			ql := th.QueueLen()
			lg.add(vh.J{"ev": "QLenE", "ql": ql})
			jit(r2)
			lg.add(vh.J{"ev": "RunS"})
			n := th.JobsRunning()
			lg.add(vh.J{"ev": "RunE", "n": n})
		}
	}()
	if h := waitOrHang(&wg, 60*time.Second); h != "" {
		return nil, h
	}
	return lg.lines, ""
}

// throttlerMonitorRound: many workers; the monitors are Throttler.tla's invariants:
// AtMostNRunning (counter inside the doer), RunsExactlyOnce, RejectOnlyWhenFull (a rejected call
// implies that more than N+Q calls were in flight at some instant of its interval — sound because
// the counter is incremented after the start event and decremented before the end event),
// Conservation at the end.
func throttlerMonitorRound(seed int64, out *vh.Result) (*vh.Divergence, string) {
	rng := rand.New(rand.NewSource(seed))
	n := []uint{1, 2, 4}[rng.Intn(3)]
	q := []uint64{0, 1, 3, 8}[rng.Intn(4)]
	maxReq := int(n) + int(q)
	resource := new(int)
	th := throttler.NewThrottler(n, resource, throttler.WithMaxQueueLen(q))
	workers := maxReq + 1 + rng.Intn(4)
	perWorker := 40 + rng.Intn(60)
	var running, maxRunning atomic.Int64
	type rec struct {
		start, end int // positions in the event order
		res        string
		ran        int
	}
	var mu sync.Mutex
	var pos int
	var events []int8 // +1 start, -1 end
	stamp := func(d int8) int {
		mu.Lock()
		defer mu.Unlock()
		events = append(events, d)
		pos++
		return pos - 1
	}
	recs := make([][]rec, workers)
	var negQL, obsReads atomic.Int64
	stop := make(chan struct{})
	var owg sync.WaitGroup
	owg.Add(1)
	go func() {
		defer owg.Done()
		for {
			select {
			case <-stop:
				return
			default:
			}
			if th.QueueLen() < 0 {
				negQL.Add(1)
			}
			if r := th.JobsRunning(); r < 0 || r > int(n) {
				negQL.Add(1 << 32)
			}
			obsReads.Add(1)
			runtime.Gosched()
		}
	}()
	var wg sync.WaitGroup
	for w := 0; w < workers; w++ {
		w := w
		r := rand.New(rand.NewSource(rng.Int63()))
		wg.Add(1)
		go func() {
			defer wg.Done()
			for k := 0; k < perWorker; k++ {
				ctx, cancel := context.WithCancel(context.Background())
				mode := r.Intn(10) // 0: cancelled before the call, 1: cancelled concurrently
				if mode == 0 {
					cancel()
				} else if mode == 1 {
					d := time.Duration(r.Intn(80)) * time.Microsecond
					time.AfterFunc(d, cancel)
				}
				rc := rec{}
				o := r.Intn(6)
				rc.start = stamp(+1)
				func() {
					defer func() {
						if p := recover(); p != nil {
							rc.res = "panic"
						}
					}()
					rc.res = classifyDo(th.Do(ctx, func(rp *int) error {
						cur := running.Add(1)
						for {
							m := maxRunning.Load()
							if cur <= m || maxRunning.CompareAndSwap(m, cur) {
								break
							}
						}
						rc.ran++
						if rp != resource {
							rc.ran += 100
						}
						if r.Intn(3) == 0 {
							time.Sleep(time.Duration(r.Intn(40)) * time.Microsecond)
						} else {
							runtime.Gosched()
						}
						running.Add(-1)
						switch o {
						case 0:
							return errDoer
						case 1:
							panic("doer")
						}
						return nil
					}))
				}()
				rc.end = stamp(-1)
				cancel()
				if mode == 0 && rc.res != "ctx" {
					rc.res = "precancelled-but-" + rc.res
				}
				recs[w] = append(recs[w], rc)
			}
		}()
	}
	h := waitOrHang(&wg, 120*time.Second)
	close(stop)
	owg.Wait()
	if h != "" {
		return nil, h
	}
	out.Count("throttler_queue_len_reads", int(obsReads.Load()))
	out.Count("throttler_queue_len_negative_readings", int(negQL.Load()&0xffffffff))
	if negQL.Load()>>32 != 0 {
		return &vh.Divergence{Key: "throttler-concurrent:jobs-running-out-of-range", What: fmt.Sprintf("JobsRunning() outside 0..%d", n)}, ""
	}
	if m := maxRunning.Load(); m > int64(n) {
		return &vh.Divergence{Key: "throttler-concurrent:more-than-n-running", What: fmt.Sprintf("%d doers ran at the same time with a budget of %d (queue %d)", m, n, q)}, ""
	}
	// in-flight count after each event
	infl := make([]int, len(events))
	c := 0
	for i, d := range events {
		c += int(d)
		infl[i] = c
	}
	for w := range recs {
		for k, rc := range recs[w] {
			okRes := rc.res == "nil" || rc.res == "err" || rc.res == "panic"
			if (okRes && rc.ran != 1) || (!okRes && rc.ran != 0) {
				return &vh.Divergence{Key: "throttler-concurrent:doer-runs-" + fmt.Sprint(rc.ran) + "-for-" + rc.res,
					What: fmt.Sprintf("worker %d call %d (n=%d q=%d): result %q but the doer ran %d times", w, k, n, q, rc.res, rc.ran)}, ""
			}
			if !okRes && rc.res != "busy" && rc.res != "ctx" {
				return &vh.Divergence{Key: "throttler-concurrent:result:" + rc.res, What: fmt.Sprintf("worker %d call %d (n=%d q=%d): unexpected result %q", w, k, n, q, rc.res)}, ""
			}
			if rc.res == "busy" {
				m := 0
				for i := rc.start; i < rc.end; i++ {
					m = max(m, infl[i])
				}
				if m <= maxReq {
					return &vh.Divergence{Key: "throttler-concurrent:rejected-with-room",
						What: fmt.Sprintf("worker %d call %d rejected with ErrResourceBusy although at most %d calls (itself included) were in flight during it; budget %d + queue %d", w, k, m, n, q)}, ""
				}
				out.Count("throttler_monitor_rejections", 1)
			}
		}
	}
	if th.QueueLen() != 0 || th.JobsRunning() != 0 {
		return &vh.Divergence{Key: "throttler-concurrent:permits-not-conserved",
			What: fmt.Sprintf("after every call returned: QueueLen=%d JobsRunning=%d (n=%d q=%d)", th.QueueLen(), th.JobsRunning(), n, q)}, ""
	}
	return nil, ""
}

package prims

import (
	"context"
	"fmt"
	"math/rand"
	"runtime"
	"slices"
	"strings"
	"sync"
	"testing"
	"testing/synctest"
	"time"

	upipe "github.com/NethermindEth/juno/utils/pipeline"

	"verifharness/internal/vh"
)

const keyStageLeak = "stages:stage-blocked-on-send-after-cancel"

type sval struct {
	I, N int
	F    bool // went through Stage's f
}

type stact struct {
	Name string `json:"name"`
	I    int    `json:"i"`
}

type sfeed struct {
	Pc     string `json:"pc"`
	N      int    `json:"n"`
	Closed bool   `json:"closed"`
}

type stproj struct {
	Feed   []sfeed         `json:"feed"`
	ConsA  string          `json:"consA"`
	GotA   [][2]int        `json:"gotA"`
	CFeed  sfeed           `json:"cfeed"`
	IFeed  []sfeed         `json:"ifeed"`
	Bridge string          `json:"bridge"`
	ConsB  string          `json:"consB"`
	GotB   [][2]int        `json:"gotB"`
	Leak   [][]interface{} `json:"leak"`
}

type ststep struct {
	A   stact   `json:"a"`
	Pre stproj `json:"pre"`
}

type stagesInput struct {
	NIn        int        `json:"nin"`
	NCh        int        `json:"nch"`
	StageFix   bool       `json:"stagefix"`
	Behaviours [][]ststep `json:"behaviours"`
}

// sfeeder is one harness goroutine family that sends on a channel, one value at a time.
type sfeeder struct {
	mu     sync.Mutex
	pc     string // idle | psend
	n      int
	closed bool
	abort  chan struct{}
}

func (f *sfeeder) obs() sfeed {
	f.mu.Lock()
	defer f.mu.Unlock()
	return sfeed{Pc: f.pc, N: f.n, Closed: f.closed}
}

func sendVia[T any](f *sfeeder, ch chan T, v T) {
	f.mu.Lock()
	f.pc, f.n = "psend", f.n+1
	f.abort = make(chan struct{})
	ab := f.abort
	f.mu.Unlock()
	go func() {
		select {
		case ch <- v:
		case <-ab:
		}
		f.mu.Lock()
		f.pc = "idle"
		f.mu.Unlock()
	}()
}

type sconsumer struct {
	mu  sync.Mutex
	pc  string // idle | precv | sawclosed
	got [][2]int
	bad string
}

func (c *sconsumer) recv(ch <-chan sval, stop <-chan struct{}, wantF bool) {
	c.mu.Lock()
	c.pc = "precv"
	c.mu.Unlock()
	go func() {
		select {
		case v, ok := <-ch:
			c.mu.Lock()
			if ok {
				c.got = append(c.got, [2]int{v.I, v.N})
				if v.F != wantF {
					c.bad = fmt.Sprintf("value %+v: passed through f = %v, expected %v", v, v.F, wantF)
				}
				c.pc = "idle"
			} else {
				c.pc = "sawclosed"
			}
			c.mu.Unlock()
		case <-stop:
		}
	}()
}

func (c *sconsumer) obs() (string, [][2]int, string) {
	c.mu.Lock()
	defer c.mu.Unlock()
	return c.pc, append([][2]int{}, c.got...), c.bad
}

// leakKinds counts the package's goroutines still alive by combinator.
func leakKinds(inBubble bool) (stage, fanin, bridge int, dump []string) {
	for _, g := range junoGoroutines(inBubble) {
		switch {
		case strings.Contains(g, "utils/pipeline.Stage"):
			stage++
		case strings.Contains(g, "utils/pipeline.FanIn"):
			fanin++
		case strings.Contains(g, "utils/pipeline.Bridge"):
			bridge++
		default:
			continue
		}
		dump = append(dump, g)
	}
	return
}

func TestStagesReplay(t *testing.T) {
	if !vh.Enabled() {
		t.Skip("driver only")
	}
	var in stagesInput
	if err := vh.Input(&in); err != nil {
		t.Fatal(err)
	}
	out := vh.NewResult()
	defer out.Write()
	for bi, beh := range in.Behaviours {
		var dv *vh.Divergence
		leakExpected := len(beh[len(beh)-1].Pre.Leak) > 0
		dl := bubble(t, func(t *testing.T) { dv = replayStages(&in, beh) })
		if dv == nil && dl != "" && !leakExpected {
			dv = &vh.Divergence{Key: "stages:bubble-deadlock", What: dl, Step: len(beh)}
		}
		if dv != nil {
			dv.Input = vh.J{"nin": in.NIn, "nch": in.NCh, "stagefix": in.StageFix, "behaviours": [][]ststep{beh}}
			out.Diverge(*dv)
			if len(out.Divergences) >= 3 {
				break
			}
		}
		out.Done(1, len(beh))
		if leakExpected {
			out.Count("stages_replay_behaviours_with_predicted_leak", 1)
		}
		if bi == 0 {
			names := []string{}
			for _, st := range beh {
				names = append(names, fmt.Sprintf("%s%d", st.A.Name, st.A.I))
			}
			out.Sample(vh.J{"stages_schedule": names})
		}
	}
}

func replayStages(in *stagesInput, beh []ststep) (dv *vh.Divergence) {
	defer recoverAsDivergence("stages", len(beh), &dv)
	ctx, cancel := context.WithCancel(context.Background())
	defer cancel()
	stop := make(chan struct{})
	defer close(stop)
	// part A
	ins := make([]chan sval, in.NIn)
	feeds := make([]*sfeeder, in.NIn)
	var so []<-chan sval
	for i := range ins {
		ins[i] = make(chan sval)
		feeds[i] = &sfeeder{pc: "idle"}
		so = append(so, upipe.Stage(ctx, ins[i], func(v sval) sval { v.F = true; return v }))
	}
	var fo <-chan sval
	consA := &sconsumer{pc: "idle"}
	if in.NIn > 0 {
		fo = upipe.FanIn(ctx, so...)
	}
	// part B
	cc := make(chan (<-chan sval))
	bo := make(chan sval)
	cfeed := &sfeeder{pc: "idle"}
	ics := make([]chan sval, in.NCh)
	ifeeds := make([]*sfeeder, in.NCh)
	for j := range ics {
		ics[j] = make(chan sval)
		ifeeds[j] = &sfeeder{pc: "idle"}
	}
	consB := &sconsumer{pc: "idle"}
	var bmu sync.Mutex
	bridge := "off"
	if in.NCh == 0 {
		bridge = "-"
	}

	for si, st := range beh {
		synctest.Wait()
		// ---- compare
		var obs stproj
		for _, f := range feeds {
			obs.Feed = append(obs.Feed, f.obs())
		}
		obs.ConsA = "-"
		var badA, badB string
		if in.NIn > 0 {
			obs.ConsA, obs.GotA, badA = consA.obs()
		}
		obs.CFeed = sfeed{Pc: "-"}
		obs.ConsB = "-"
		if in.NCh > 0 {
			obs.CFeed = cfeed.obs()
			obs.ConsB, obs.GotB, badB = consB.obs()
		}
		for _, f := range ifeeds {
			obs.IFeed = append(obs.IFeed, f.obs())
		}
		bmu.Lock()
		obs.Bridge = bridge
		bmu.Unlock()
		want := st.Pre
		want.Leak = nil
		for i := range want.Feed {
			if want.Feed[i].Pc == "sent" {
				want.Feed[i].Pc = "idle"
			}
		}
		eq := slices.Equal(obs.Feed, want.Feed) && obs.ConsA == want.ConsA && slices.Equal(obs.GotA, want.GotA) &&
			obs.CFeed == want.CFeed && slices.Equal(obs.IFeed, want.IFeed) && obs.Bridge == want.Bridge &&
			obs.ConsB == want.ConsB && slices.Equal(obs.GotB, want.GotB)
		if !eq || badA != "" || badB != "" {
			prev := "Init"
			if si > 0 {
				prev = beh[si-1].A.Name
			}
			return &vh.Divergence{Key: "stages:after-" + prev, What: "quiescent state after " + prev + " differs from Stages.tla (feeders blocked or not, what the consumers received, Bridge returned or not) " + badA + badB,
				Step: si, Expected: want, Observed: obs}
		}
		// ---- act
		i := st.A.I - 1
		switch st.A.Name {
		case "FeedNext":
			sendVia(feeds[i], ins[i], sval{I: st.A.I, N: feeds[i].n + 1})
		case "AbortFeed":
			close(feeds[i].abort)
		case "CloseIn":
			close(ins[i])
			feeds[i].mu.Lock()
			feeds[i].closed = true
			feeds[i].mu.Unlock()
		case "ConsRecvA":
			consA.recv(fo, stop, true)
		case "Cancel":
			cancel()
		case "BridgeCall":
			bmu.Lock()
			bridge = "running"
			bmu.Unlock()
			go func() {
				upipe.Bridge(ctx, bo, cc)
				bmu.Lock()
				bridge = "ret"
				bmu.Unlock()
			}()
		case "CSendNext":
			sendVia(cfeed, cc, (<-chan sval)(ics[cfeed.n]))
		case "AbortCFeed":
			close(cfeed.abort)
		case "CloseCc":
			close(cc)
			cfeed.mu.Lock()
			cfeed.closed = true
			cfeed.mu.Unlock()
		case "IFeedNext":
			sendVia(ifeeds[i], ics[i], sval{I: st.A.I, N: ifeeds[i].n + 1})
		case "AbortIFeed":
			close(ifeeds[i].abort)
		case "CloseIc":
			close(ics[i])
			ifeeds[i].mu.Lock()
			ifeeds[i].closed = true
			ifeeds[i].mu.Unlock()
		case "ConsRecvB":
			consB.recv(bo, stop, false)
		case "End":
			// the shutdown has been performed: whatever is still alive stays alive for ever
			time.Sleep(time.Hour)
			synctest.Wait()
			stage, fanin, brg, dump := leakKinds(true)
			ws, wf, wb := 0, 0, 0
			for _, l := range st.Pre.Leak {
				switch l[0] {
				case "stage":
					ws++
				case "fwd":
					wf++
				case "bridge":
					wb++
				}
			}
			if stage != ws || (fanin > 0) != (wf > 0) || brg != wb {
				key := "stages:goroutines-alive-after-shutdown"
				if stage > ws && fanin == 0 && brg == 0 {
					key = keyStageLeak
				}
				return &vh.Divergence{Key: key, Step: si,
					What: fmt.Sprintf("after cancel + every producer stopped and closed its channel, goroutines of the package are still blocked: Stage %d, FanIn %d, Bridge %d; "+
						"the specification (StageFix=%v) says Stage %d, FanIn forwarders %d, Bridge %d", stage, fanin, brg, in.StageFix, ws, wf, wb),
					Observed: shorten(dump, 8)}
			}
		default:
			panic("unknown step " + st.A.Name)
		}
	}
	return nil
}

// TestStagesCancelLeak is the shortest call sequence that shows the Stage defect: a forwarder of
// FanIn holds value 1 (nobody reads FanIn's output), Stage holds value 2 and is blocked in
// "out <- f(v)"; the context is cancelled: the forwarder returns, FanIn closes its output, the
// producer closes its channel — Stage stays blocked in its send for ever.
func TestStagesCancelLeak(t *testing.T) {
	if !vh.Enabled() {
		t.Skip("driver only")
	}
	out := vh.NewResult()
	defer out.Write()
	var stage int
	var dump []string
	var foClosed bool
	bubble(t, func(t *testing.T) {
		ctx, cancel := context.WithCancel(context.Background())
		in := make(chan sval)
		so := upipe.Stage(ctx, in, func(v sval) sval { return v })
		fo := upipe.FanIn(ctx, so)
		prodDone := make(chan struct{})
		go func() {
			defer close(prodDone)
			for n := 1; n <= 2; n++ {
				select {
				case in <- sval{I: 1, N: n}:
				case <-ctx.Done():
				}
			}
			close(in)
		}()
		synctest.Wait() // forwarder parked on fo with value 1, Stage parked on so with value 2
		cancel()
		synctest.Wait()
		<-prodDone
		_, ok := <-fo
		foClosed = !ok
		time.Sleep(time.Hour)
		synctest.Wait()
		stage, _, _, dump = leakKinds(true)
	})
	out.Done(1, 5)
	if !foClosed {
		out.Diverge(vh.Divergence{Key: "stages:fanin-output-open-after-cancel", What: "FanIn's output is not closed after cancellation", Input: vh.J{}})
	}
	if stage > 0 {
		out.Diverge(vh.Divergence{Key: keyStageLeak, Input: vh.J{},
			What: "Stage(ctx, in, f): in <- 1, in <- 2 (FanIn's output unread), cancel, close(in): the Stage goroutine is blocked for ever in \"out <- f(v)\" " +
				"(the send is not in a select with ctx.Done()); goroutine and value leak on every cancelled p2p ProcessBlock",
			Observed: shorten(dump, 8)})
	}
}

// ---------------------------------------------------------------- concurrent rounds (monitors)

func TestStagesConcurrent(t *testing.T) {
	if !vh.Enabled() {
		t.Skip("driver only")
	}
	var in pipeConcInput
	if err := vh.Input(&in); err != nil {
		t.Fatal(err)
	}
	out := vh.NewResult()
	defer out.Write()
	rng := rand.New(rand.NewSource(vh.Seed()*67867967 + 17))
	for r := 0; r < in.Rounds; r++ {
		seed := rng.Int63()
		dv, hung := stagesMonitorRound(seed, out)
		if hung != "" {
			t.Fatalf("stages round %d did not finish (harness timeout, not a verdict): %s", r, hung)
		}
		if dv != nil {
			dv.Input = vh.J{"round_seed": seed, "rounds": 1}
			out.Diverge(*dv)
			break
		}
		out.Done(1, 0)
	}
}

// stagesMonitorRound: producers -> Stage -> FanIn -> inner channels handed to Bridge -> consumer,
// i.e. the shape of p2p sync's ProcessBlock. Monitors: OrderPerInput, NoGapUnlessCancelled,
// CompleteWithoutCancel, BridgeOrder, and EverythingEnds (no goroutine of the package survives a
// finished or cancelled round whose producers stopped).
func stagesMonitorRound(seed int64, out *vh.Result) (*vh.Divergence, string) {
	rng := rand.New(rand.NewSource(seed))
	nin := 1 + rng.Intn(5)
	nvals := []int{0, 1, 3, 50, 400}[rng.Intn(5)]
	cancelRound := rng.Intn(3) == 0
	slowConsumer := rng.Intn(3) == 0
	ctx, cancel := context.WithCancel(context.Background())
	defer cancel()
	var stages []<-chan sval
	var pwg sync.WaitGroup
	for i := 1; i <= nin; i++ {
		var in chan sval
		if rng.Intn(8) != 0 { // sometimes a nil input
			in = make(chan sval)
			pwg.Add(1)
			i := i
			go func(in chan sval) {
				defer pwg.Done()
				defer close(in)
				for n := 1; n <= nvals; n++ {
					select {
					case in <- sval{I: i, N: n}:
					case <-ctx.Done():
						return
					}
				}
			}(in)
		}
		stages = append(stages, upipe.Stage(ctx, in, func(v sval) sval { v.F = true; return v }))
	}
	fo := upipe.FanIn(ctx, stages...)
	// regroup FanIn's output into one channel per 7 values and bridge them back
	chanCh := make(chan (<-chan sval))
	pwg.Add(1)
	go func() {
		defer pwg.Done()
		defer close(chanCh)
		var cur chan sval
		k := 0
		for v := range fo {
			if cur == nil {
				cur = make(chan sval, 7)
			}
			cur <- v
			k++
			if k == 7 {
				close(cur)
				select {
				case chanCh <- cur:
				case <-ctx.Done():
				}
				cur, k = nil, 0
			}
		}
		if cur != nil {
			close(cur)
			select {
			case chanCh <- cur:
			case <-ctx.Done():
			}
		}
	}()
	bo := make(chan sval)
	var got []sval
	var wg sync.WaitGroup
	wg.Add(2)
	bridgeDone := make(chan struct{})
	go func() {
		defer wg.Done()
		upipe.Bridge(ctx, bo, chanCh)
		close(bridgeDone)
	}()
	cancelAfter := -1
	if cancelRound {
		cancelAfter = rng.Intn(nin*nvals + 1)
	}
	go func() {
		defer wg.Done()
		for {
			if len(got) == cancelAfter {
				cancel()
			}
			select {
			case v := <-bo:
				got = append(got, v)
				if slowConsumer && len(got)%5 == 0 {
					runtime.Gosched()
				}
			case <-bridgeDone:
				return
			}
		}
	}()
	if h := waitOrHang(&wg, 120*time.Second); h != "" {
		return nil, h
	}
	cancelled := ctx.Err() != nil
	pdone := make(chan struct{})
	go func() { pwg.Wait(); close(pdone) }()
	desc := fmt.Sprintf("inputs %d x %d values, cancelled after %d (cancelled=%v): ", nin, nvals, cancelAfter, cancelled)
	// the harness's own regrouping goroutine ranges over FanIn's output: it ends iff that is closed
	select {
	case <-pdone:
	case <-time.After(60 * time.Second):
		return &vh.Divergence{Key: "stages-concurrent:fanin-output-never-closed", What: desc + "FanIn's output was not closed after every input was closed / the context cancelled",
			Observed: shorten(junoGoroutines(false), 8)}, ""
	}
	last := map[int]int{}
	for _, v := range got {
		if !v.F {
			return &vh.Divergence{Key: "stages-concurrent:value-skipped-f", What: desc + fmt.Sprintf("%+v did not pass through f", v)}, ""
		}
		if v.N <= last[v.I] {
			return &vh.Divergence{Key: "stages-concurrent:order-per-input", What: desc + fmt.Sprintf("input %d: value %d after %d", v.I, v.N, last[v.I])}, ""
		}
		if !cancelled && v.N != last[v.I]+1 {
			return &vh.Divergence{Key: "stages-concurrent:gap-without-cancel", What: desc + fmt.Sprintf("input %d: value %d follows %d", v.I, v.N, last[v.I])}, ""
		}
		last[v.I] = v.N
	}
	if !cancelled {
		want := 0
		for i, s := range stages {
			_ = s
			_ = i
		}
		for i := 1; i <= nin; i++ {
			want += last[i]
			if last[i] != 0 && last[i] != nvals {
				return &vh.Divergence{Key: "stages-concurrent:incomplete-without-cancel", What: desc + fmt.Sprintf("input %d delivered %d of %d values", i, last[i], nvals)}, ""
			}
		}
		out.Count("stages_monitor_complete_rounds", 1)
	}
	if gs := settleNoJunoGoroutines(10 * time.Second); len(gs) > 0 {
		stage, fanin, brg, dump := leakKinds(false)
		key := "stages-concurrent:goroutines-alive-after-round"
		if stage > 0 && fanin == 0 && brg == 0 {
			key = keyStageLeak
		}
		return &vh.Divergence{Key: key, What: desc + fmt.Sprintf("goroutines of the package still alive 10 s after the round: Stage %d, FanIn %d, Bridge %d", stage, fanin, brg),
			Observed: shorten(dump, 8)}, ""
	}
	out.Count("stages_monitor_rounds", 1)
	return nil, ""
}

package prims

import (
	"context"
	"errors"
	"fmt"
	"io"
	"math/rand"
	"net/http"
	"net/http/httptest"
	"net/url"
	"strconv"
	"strings"
	"sync"
	"sync/atomic"
	"testing"
	"testing/synctest"
	"time"

	"github.com/NethermindEth/juno/clients/feeder"

	"verifharness/internal/vh"
)

const tick = time.Millisecond

type ract struct {
	Name  string `json:"name"`
	O     string `json:"o"`
	Ticks int    `json:"ticks"`
}

type rproj struct {
	Pc      string `json:"pc"`
	Attempt int    `json:"attempt"`
	Res     string `json:"res"`
	Idx     int    `json:"idx"`
	Tmo     int    `json:"tmo"`
	Gets    int    `json:"gets"`
}

type rstep struct {
	A   ract  `json:"a"`
	Pre rproj `json:"pre"`
}

type retryInput struct {
	MaxRetries int       `json:"max_retries"`
	MinWait    int       `json:"min_wait"`
	MaxWait    int       `json:"max_wait"`
	Exp        bool      `json:"exp"`
	Ladder     []int     `json:"ladder"`
	Behaviours [][]rstep `json:"behaviours"`
}

type trackedBody struct {
	io.Reader
	closed atomic.Bool
}

func (b *trackedBody) Close() error { b.closed.Store(true); return nil }

// fakeTransport is the in-memory server: every request blocks until the harness answers it or its
// context ends (client timeout / caller's cancel).
type fakeTransport struct {
	mu       sync.Mutex
	arrivals int // requests of the current call
	inReq    bool
	gate     chan string
	bodies   []*trackedBody
	badHdr   string
	gets     int
}

func (f *fakeTransport) RoundTrip(req *http.Request) (*http.Response, error) {
	f.mu.Lock()
	f.arrivals++
	n := f.arrivals
	f.inReq = true
	if req.Header.Get("User-Agent") != "g06-agent" || req.Header.Get("X-Throttling-Bypass") != "g06-key" {
		f.badHdr = fmt.Sprintf("attempt %d: User-Agent %q, X-Throttling-Bypass %q", n, req.Header.Get("User-Agent"), req.Header.Get("X-Throttling-Bypass"))
	}
	if req.Method != http.MethodGet || req.URL.Path != "/get_signature" {
		f.badHdr = fmt.Sprintf("attempt %d: %s %s", n, req.Method, req.URL.Path)
	}
	gets := f.gets
	f.mu.Unlock()
	defer func() {
		f.mu.Lock()
		f.inReq = false
		f.mu.Unlock()
	}()
	select {
	case o := <-f.gate:
		if o == "drop" {
			return nil, io.ErrUnexpectedEOF
		}
		code := map[string]int{"200": 200, "429": 429, "400": 400, "5xx": 503, "404": 404}[o]
		body := &trackedBody{Reader: strings.NewReader(fmt.Sprintf(`{"block_number": %d, "signature": []}`, gets*1000+n))}
		if code != 200 {
			body.Reader = strings.NewReader("error page")
		}
		f.mu.Lock()
		f.bodies = append(f.bodies, body)
		f.mu.Unlock()
		return &http.Response{StatusCode: code, Status: fmt.Sprintf("%d %s", code, http.StatusText(code)), Body: body,
			Header: http.Header{}, Request: req, ProtoMajor: 1, ProtoMinor: 1}, nil
	case <-req.Context().Done():
		return nil, req.Context().Err()
	}
}

func TestRetryReplay(t *testing.T) {
	if !vh.Enabled() {
		t.Skip("driver only")
	}
	var in retryInput
	if err := vh.Input(&in); err != nil {
		t.Fatal(err)
	}
	out := vh.NewResult()
	defer out.Write()
	for bi, beh := range in.Behaviours {
		var dv *vh.Divergence
		dl := bubble(t, func(t *testing.T) { dv = replayRetry(&in, beh) })
		if dv == nil && dl != "" {
			dv = &vh.Divergence{Key: "retry:bubble-deadlock", What: dl, Step: len(beh)}
		}
		if dv != nil {
			n := min(dv.Step+1, len(beh))
			cp := in
			cp.Behaviours = [][]rstep{beh[:n]}
			dv.Input = cp
			out.Diverge(*dv)
			if len(out.Divergences) >= 3 {
				break
			}
		}
		out.Done(1, len(beh))
		for _, st := range beh {
			if st.A.Name == "Respond" || st.A.Name == "Timeout" {
				out.Count("retry_replay_outcome_"+st.A.O, 1)
			}
		}
		if bi == 0 {
			out.Sample(vh.J{"options": vh.J{"max_retries": in.MaxRetries, "min_wait": in.MinWait, "max_wait": in.MaxWait, "exp": in.Exp, "ladder": in.Ladder},
				"behaviour": beh[:min(len(beh), 8)]})
		}
	}
}

func replayRetry(in *retryInput, beh []rstep) (dv *vh.Divergence) {
	defer recoverAsDivergence("retry", len(beh), &dv)
	ft := &fakeTransport{gate: make(chan string)}
	hc := &http.Client{Transport: ft}
	ladder := make([]time.Duration, len(in.Ladder))
	for i, l := range in.Ladder {
		ladder[i] = time.Duration(l) * tick
	}
	var lmu sync.Mutex
	var listened []int
	backoff := feeder.NopBackoff
	if in.Exp {
		backoff = feeder.ExponentialBackoff
	}
	u, _ := url.Parse("http://feeder.invalid")
	client := feeder.NewClient(u,
		feeder.WithHTTPClient(hc), feeder.WithBackoff(backoff), feeder.WithMaxRetries(in.MaxRetries),
		feeder.WithMinWait(time.Duration(in.MinWait)*tick), feeder.WithMaxWait(time.Duration(in.MaxWait)*tick),
		feeder.WithTimeouts(ladder, true), feeder.WithUserAgent("g06-agent"), feeder.WithAPIKey("g06-key"),
		feeder.WithListener(&feeder.SelectiveListener{OnResponseCb: func(path string, status int, _ time.Duration) {
			lmu.Lock()
			listened = append(listened, status)
			lmu.Unlock()
		}}))
	type callT struct {
		cancel context.CancelFunc
		done   atomic.Bool
		res    string
		block  uint64
	}
	var cur *callT
	gets, responded := 0, 0
	defer func() {
		if cur != nil {
			cur.cancel()
		}
		synctest.Wait()
		time.Sleep(time.Hour) // every pending timer of the client fires
		synctest.Wait()
		if dv == nil && cur != nil && !cur.done.Load() {
			dv = &vh.Divergence{Key: "retry:call-never-returns", Step: len(beh) - 1, What: "get has not returned an hour after its context was cancelled"}
		}
		if gs := junoGoroutines(true); dv == nil && len(gs) > 0 {
			dv = &vh.Divergence{Key: "retry:goroutine-leak", Step: len(beh) - 1, What: "goroutines of the client still alive", Observed: shorten(gs, 8)}
		}
	}()
	observe := func() rproj {
		ft.mu.Lock()
		defer ft.mu.Unlock()
		p := rproj{Gets: gets, Attempt: ft.arrivals, Res: "none"}
		switch {
		case cur == nil:
			p.Pc = "idle"
		case cur.done.Load():
			p.Pc, p.Res = "done", cur.res
		case ft.inReq:
			p.Pc = "req"
			p.Tmo = int(hc.Timeout / tick)
		default:
			p.Pc = "select"
		}
		return p
	}
	for si, st := range beh {
		synctest.Wait()
		obs := observe()
		want := st.Pre
		want.Idx = 0
		if obs.Pc != "req" {
			want.Tmo = 0 // the HTTP timeout in force is only observable while a request is out
		}
		if obs != want {
			prev := "Init"
			if si > 0 {
				prev = beh[si-1].A.Name
				if prev == "Respond" {
					prev += ":" + beh[si-1].A.O
				}
			}
			return &vh.Divergence{Key: "retry:after-" + prev, What: "state of the call after " + prev + " differs from Retry.tla (attempt = requests made, tmo = HTTP timeout in force, ticks)",
				Step: si, Expected: want, Observed: obs}
		}
		if obs.Pc == "done" && obs.Res == "ok" && cur.block != uint64(gets*1000+obs.Attempt) {
			return &vh.Divergence{Key: "retry:wrong-body-returned", What: "the body returned is not the body of the attempt answered 200",
				Step: si, Expected: gets*1000 + obs.Attempt, Observed: cur.block}
		}
		switch st.A.Name {
		case "Start":
			gets++
			ft.mu.Lock()
			ft.arrivals, ft.gets = 0, gets
			ft.mu.Unlock()
			ctx, cancel := context.WithCancel(context.Background())
			c := &callT{cancel: cancel}
			cur = c
			go func() {
				sig, err := client.Signature(ctx, strconv.Itoa(gets))
				switch {
				case err == nil:
					c.res, c.block = "ok", sig.BlockNumber
				case err == context.Canceled: //nolint: the loop returns ctx.Err() itself when it stops waiting
					c.res = "ctx"
				default:
					c.res = "err"
				}
				c.done.Store(true)
			}()
		case "Respond":
			if st.A.O != "drop" {
				responded++
			}
			ft.gate <- st.A.O
		case "Timeout", "Elapse":
			before := observe()
			if st.A.Ticks > 1 {
				time.Sleep(time.Duration(st.A.Ticks-1) * tick)
				synctest.Wait()
			}
			if mid := observe(); mid != before {
				what := "the next request went out before the backoff wait elapsed"
				if st.A.Name == "Timeout" {
					what = "the client gave up on the request before the HTTP timeout in force elapsed"
				}
				return &vh.Divergence{Key: "retry:" + st.A.Name + ":too-early", What: fmt.Sprintf("%s (%d ticks due, changed after %d)", what, st.A.Ticks, st.A.Ticks-1),
					Step: si, Expected: before, Observed: mid}
			}
			time.Sleep(tick)
		case "Cancel":
			cur.cancel()
		case "End":
		default:
			panic("unknown step " + st.A.Name)
		}
	}
	synctest.Wait()
	ft.mu.Lock()
	defer ft.mu.Unlock()
	if ft.badHdr != "" {
		return &vh.Divergence{Key: "retry:request-shape", What: "an attempt was sent without the configured headers / with another method or path: " + ft.badHdr, Step: len(beh) - 1}
	}
	lmu.Lock()
	nl := len(listened)
	lmu.Unlock()
	if nl != responded {
		return &vh.Divergence{Key: "retry:listener-calls", What: "EventListener.OnResponse calls differ from the responses received", Step: len(beh) - 1, Expected: responded, Observed: nl}
	}
	if cur == nil || cur.done.Load() {
		for i, b := range ft.bodies {
			if !b.closed.Load() {
				return &vh.Divergence{Key: "retry:response-body-not-closed", What: fmt.Sprintf("the body of response %d was never closed", i+1), Step: len(beh) - 1}
			}
		}
	}
	return nil
}

// ---------------------------------------------------------------- concurrent round on loopback

type retryConcInput struct {
	Rounds int `json:"rounds"`
}

// TestRetryLoopback: a real client against an httptest server on loopback; several callers share
// the client (and with it the timeout ladder). Each call has a script of per-attempt behaviours
// (status codes, dropped connections, answers slower than the client's timeout). Monitors are
// Retry.tla's invariants on what the server saw: number of attempts, stop at the first 200,
// every other outcome retried, lower bounds on the waits. Timeouts are scaled down through the
// client's options; nothing is compared against an upper bound in time.
func TestRetryLoopback(t *testing.T) {
	if !vh.Enabled() {
		t.Skip("driver only")
	}
	var in retryConcInput
	if err := vh.Input(&in); err != nil {
		t.Fatal(err)
	}
	out := vh.NewResult()
	defer out.Write()
	rng := rand.New(rand.NewSource(vh.Seed()*32452843 + 7))
	for r := 0; r < in.Rounds; r++ {
		seed := rng.Int63()
		dv, broken := retryLoopbackRound(seed, out)
		if broken != "" {
			t.Fatalf("retry loopback round %d unusable (not a verdict): %s", r, broken)
		}
		if dv != nil {
			dv.Input = vh.J{"round_seed": seed, "rounds": 1}
			out.Diverge(*dv)
			break
		}
		out.Done(1, 0)
	}
	if gs := settleNoJunoGoroutines(10 * time.Second); len(gs) > 0 {
		out.Diverge(vh.Divergence{Key: "retry:goroutine-leak:loopback", What: "client goroutines alive after every call returned", Input: vh.J{}, Observed: shorten(gs, 8)})
	}
}

type countingRT struct {
	next   http.RoundTripper
	counts *sync.Map
}

func (c countingRT) RoundTrip(r *http.Request) (*http.Response, error) {
	v, _ := c.counts.LoadOrStore(r.URL.Query().Get("blockNumber"), new(atomic.Int64))
	v.(*atomic.Int64).Add(1)
	return c.next.RoundTrip(r)
}

type attemptRec struct {
	arrived, finished time.Time
	outcome           string
}

func retryLoopbackRound(seed int64, out *vh.Result) (*vh.Divergence, string) {
	rng := rand.New(rand.NewSource(seed))
	const maxRetries = 3
	minWait, maxWait := 15*time.Millisecond, 60*time.Millisecond
	ladder := []time.Duration{1500 * time.Millisecond, 3 * time.Second, 6 * time.Second}
	waitBefore := func(k int) time.Duration { // Retry.tla WaitBefore with ExponentialBackoff
		w := time.Duration(0)
		for i := 2; i <= k; i++ {
			if w < minWait {
				w = minWait
			} else {
				w = min(2*w, maxWait)
			}
		}
		return w
	}
	ncalls := 20
	scripts := make([][]string, ncalls)
	modes := make([]string, ncalls) // "", "precancel", "cancel-later"
	delays := make([]time.Duration, ncalls)
	slowBudget := 3
	for i := range scripts {
		n := maxRetries + 1
		for k := 0; k < n; k++ {
			o := []string{"200", "200", "500", "404", "429", "400", "503", "drop", "slow"}[rng.Intn(9)]
			if o == "slow" {
				if slowBudget == 0 || k > 0 {
					o = "drop"
				} else {
					slowBudget--
				}
			}
			scripts[i] = append(scripts[i], o)
		}
		switch rng.Intn(7) {
		case 0:
			modes[i] = "precancel"
		case 1:
			modes[i] = "cancel-later"
			delays[i] = time.Duration(5+rng.Intn(40)) * time.Millisecond
		}
	}
	var mu sync.Mutex
	seen := make([][]attemptRec, ncalls)
	srv := httptest.NewServer(http.HandlerFunc(func(w http.ResponseWriter, r *http.Request) {
		id, err := strconv.Atoi(r.URL.Query().Get("blockNumber"))
		if err != nil || id < 0 || id >= ncalls {
			w.WriteHeader(418)
			return
		}
		mu.Lock()
		k := len(seen[id])
		o := "500"
		if k < len(scripts[id]) {
			o = scripts[id][k]
		}
		seen[id] = append(seen[id], attemptRec{arrived: time.Now(), outcome: o})
		mu.Unlock()
		fin := func() {
			mu.Lock()
			seen[id][k].finished = time.Now()
			mu.Unlock()
		}
		switch o {
		case "200":
			fmt.Fprintf(w, `{"block_number": %d, "signature": []}`, id*1000+k+1)
			fin()
		case "drop":
			hj, ok := w.(http.Hijacker)
			if !ok {
				panic("no hijacker")
			}
			conn, _, _ := hj.Hijack()
			fin()
			conn.Close()
		case "slow":
			select {
			case <-r.Context().Done():
			case <-time.After(60 * time.Second):
			}
			fin()
		default:
			code, _ := strconv.Atoi(o)
			w.WriteHeader(code)
			fin()
		}
	}))
	defer srv.Close()
	u, _ := url.Parse(srv.URL)
	var slowest atomic.Int64
	// No keep-alive: net/http's Transport silently re-sends an idempotent request when a REUSED
	// connection dies before the first response byte; with fresh connections every request the
	// server sees is one attempt of the feeder client (cross-checked by counting RoundTrip calls).
	var clientAttempts sync.Map // blockNumber -> *atomic.Int64
	hc := &http.Client{Transport: countingRT{next: &http.Transport{DisableKeepAlives: true}, counts: &clientAttempts}}
	defer hc.CloseIdleConnections()
	client := feeder.NewClient(u, feeder.WithHTTPClient(hc), feeder.WithMaxRetries(maxRetries),
		feeder.WithMinWait(minWait), feeder.WithMaxWait(maxWait), feeder.WithBackoff(feeder.ExponentialBackoff),
		feeder.WithTimeouts(ladder, true),
		feeder.WithListener(&feeder.SelectiveListener{OnResponseCb: func(_ string, _ int, took time.Duration) {
			for {
				m := slowest.Load()
				if int64(took) <= m || slowest.CompareAndSwap(m, int64(took)) {
					break
				}
			}
		}}))
	type result struct {
		res   string
		block uint64
	}
	results := make([]result, ncalls)
	var wg sync.WaitGroup
	for i := 0; i < ncalls; i++ {
		i := i
		wg.Add(1)
		go func() {
			defer wg.Done()
			ctx, cancel := context.WithCancel(context.Background())
			defer cancel()
			switch modes[i] {
			case "precancel":
				cancel()
			case "cancel-later":
				time.AfterFunc(delays[i], cancel)
			}
			sig, err := client.Signature(ctx, strconv.Itoa(i))
			switch {
			case err == nil:
				results[i] = result{"ok", sig.BlockNumber}
			case errors.Is(err, context.Canceled):
				results[i] = result{"ctx", 0}
			default:
				results[i] = result{"err:" + err.Error(), 0}
			}
		}()
	}
	if h := waitOrHang(&wg, 150*time.Second); h != "" {
		return nil, h
	}
	if time.Duration(slowest.Load()) > ladder[0]/2 {
		return nil, fmt.Sprintf("loopback too slow for a verdict: a response took %s", time.Duration(slowest.Load()))
	}
	mu.Lock()
	defer mu.Unlock()
	for i := 0; i < ncalls; i++ {
		first200 := 0
		for k, o := range scripts[i] {
			if o == "200" {
				first200 = k + 1
				break
			}
		}
		wantAttempts, wantRes := maxRetries+1, "err"
		if first200 > 0 {
			wantAttempts, wantRes = first200, "ok"
		}
		got := len(seen[i])
		ca := int64(0)
		if v, ok := clientAttempts.Load(strconv.Itoa(i)); ok {
			ca = v.(*atomic.Int64).Load()
		}
		if modes[i] == "" && int(ca) != got {
			return nil, fmt.Sprintf("call %d: the client made %d attempts but the server saw %d requests (transport-level retry?)", i, ca, got)
		}
		outcomes := make([]string, 0, got)
		for _, a := range seen[i] {
			outcomes = append(outcomes, a.outcome)
		}
		desc := fmt.Sprintf("call %d (%s) script %v: server saw %v, result %q", i, modes[i], scripts[i], outcomes, results[i].res)
		if modes[i] != "" {
			// cancelled calls: never more attempts than an uncancelled one; a pre-cancelled or
			// cancelled call does not succeed later than its script allows; the error is the context's
			if int(ca) > maxRetries+1 || got > wantAttempts {
				return &vh.Divergence{Key: "retry-loopback:cancelled-call-too-many-attempts", What: desc + fmt.Sprintf("; client attempts %d", ca)}, ""
			}
			if results[i].res != "ctx" && !(results[i].res == "ok" && got == wantAttempts && wantRes == "ok") && !(strings.HasPrefix(results[i].res, "err:") && got == wantAttempts) {
				return &vh.Divergence{Key: "retry-loopback:cancelled-call-result", What: desc}, ""
			}
			out.Count("retry_loopback_cancelled_calls", 1)
			continue
		}
		if got != wantAttempts {
			return &vh.Divergence{Key: fmt.Sprintf("retry-loopback:attempts:%d-for-%d", got, wantAttempts), What: desc}, ""
		}
		if (wantRes == "ok") != (results[i].res == "ok") || (wantRes == "err" && !strings.HasPrefix(results[i].res, "err:")) {
			return &vh.Divergence{Key: "retry-loopback:result", What: desc}, ""
		}
		if wantRes == "ok" && results[i].block != uint64(i*1000+first200) {
			return &vh.Divergence{Key: "retry-loopback:wrong-body", What: desc + fmt.Sprintf(" block %d", results[i].block)}, ""
		}
		for k := 1; k < got; k++ {
			if seen[i][k-1].outcome == "slow" {
				continue
			}
			gap := seen[i][k].arrived.Sub(seen[i][k-1].finished)
			if w := waitBefore(k + 1); gap < w {
				return &vh.Divergence{Key: fmt.Sprintf("retry-loopback:wait-too-short:attempt-%d", k+1),
					What: desc + fmt.Sprintf("; attempt %d arrived %s after attempt %d ended, the wait due is %s", k+1, gap, k, w)}, ""
			}
		}
		out.Count("retry_loopback_calls_checked", 1)
		out.Count("retry_loopback_attempts", got)
	}
	return nil, ""
}

package prims

import (
	"context"
	"errors"
	"fmt"
	"iter"
	"math/rand"
	"runtime"
	"slices"
	"sort"
	"sync"
	"sync/atomic"
	"testing"
	"testing/synctest"
	"time"

	"github.com/NethermindEth/juno/migration/pipeline"

	"verifharness/internal/vh"
)

// ptok is a token: the sorted set of source items it carries.
type ptok []int

func union(a, b ptok) ptok {
	r := append(append(ptok{}, a...), b...)
	sort.Ints(r)
	return slices.Compact(r)
}

type pact struct {
	Name string `json:"name"`
	P    int    `json:"p"`
	Item int    `json:"item"`
}

type pwproj struct {
	Pc    string `json:"pc"`
	Tok   ptok   `json:"tok"`
	Acc   ptok   `json:"acc"`
	Err   bool   `json:"err"`
	Stage int    `json:"stage"`
}

type pres struct {
	IsDone bool `json:"isDone"`
	Err    int  `json:"err"`
}

type pproj struct {
	Iter     int      `json:"iter"`
	Src      string   `json:"src"`
	W        []pwproj `json:"w"`
	Cons     string   `json:"cons"`
	Consumed []ptok   `json:"consumed"`
	Res      pres     `json:"res"`
}

type pstep struct {
	A   pact  `json:"a"`
	Pre pproj `json:"pre"`
}

type pipeInput struct {
	NItems     int       `json:"nitems"`
	K          int       `json:"k"`
	W          int       `json:"w"`
	Behaviours [][]pstep `json:"behaviours"`
}

// pworker is what the harness knows about one real worker (stage k, index i).
type pworker struct {
	pc   string // idle | run | send | done | flush | exit
	tok  ptok
	acc  ptok
	err  bool
	errs []error
	gate chan string
	runs int
	done int
}

type pharness struct {
	mu       sync.Mutex
	k, w     int
	workers  [][]*pworker // [stage-1][index]
	iterAt   int
	iterGate chan struct{}
	ranAfter string // protocol violations seen by the user code
}

func newPHarness(k, w int) *pharness {
	h := &pharness{k: k, w: w, iterGate: make(chan struct{})}
	for s := 0; s < k; s++ {
		row := make([]*pworker, w)
		for i := range row {
			row[i] = &pworker{pc: "idle", gate: make(chan string)}
		}
		h.workers = append(h.workers, row)
	}
	return h
}

type pstate struct {
	h     *pharness
	stage int
}

// closedOutputs records "send on closed channel": the pipeline closed a stage's outputs while
// the stage's user code was still entitled to send on it.
func (h *pharness) closedOutputs(where string) {
	if p := recover(); p != nil {
		h.mu.Lock()
		h.ranAfter = fmt.Sprintf("%s: %v", where, p)
		h.mu.Unlock()
	}
}

func (s *pstate) Run(index int, input ptok, outputs chan<- ptok) (err error) {
	h := s.h
	w := h.workers[s.stage-1][index]
	defer h.closedOutputs(fmt.Sprintf("Run(stage %d, index %d)", s.stage, index))
	h.mu.Lock()
	if w.done > 0 {
		h.ranAfter = fmt.Sprintf("Run(stage %d, index %d) after its Done", s.stage, index)
	}
	if w.pc != "idle" {
		h.ranAfter = fmt.Sprintf("Run(stage %d, index %d) re-entered while %s", s.stage, index, w.pc)
	}
	w.pc, w.tok = "run", input
	w.runs++
	h.mu.Unlock()
	d := <-w.gate
	switch d {
	case "emit":
		h.mu.Lock()
		w.pc = "send"
		h.mu.Unlock()
		outputs <- input
		h.mu.Lock()
		w.pc, w.tok = "idle", nil
		h.mu.Unlock()
		return nil
	case "absorb":
		h.mu.Lock()
		w.acc = union(w.acc, input)
		w.pc, w.tok = "idle", nil
		h.mu.Unlock()
		return nil
	default: // fail
		e := fmt.Errorf("run error stage %d index %d item %v", s.stage, index, input)
		h.mu.Lock()
		w.err = true
		w.errs = append(w.errs, e)
		w.pc, w.tok = "idle", nil
		h.mu.Unlock()
		return e
	}
}

func (s *pstate) Done(index int, outputs chan<- ptok) (err error) {
	h := s.h
	w := h.workers[s.stage-1][index]
	defer h.closedOutputs(fmt.Sprintf("Done(stage %d, index %d)", s.stage, index))
	h.mu.Lock()
	w.done++
	if w.done > 1 {
		h.ranAfter = fmt.Sprintf("Done(stage %d, index %d) called %d times", s.stage, index, w.done)
	}
	w.pc = "done"
	h.mu.Unlock()
	d := <-w.gate
	var e error
	h.mu.Lock()
	if d == "fail" {
		e = fmt.Errorf("done error stage %d index %d", s.stage, index)
		w.err = true
		w.errs = append(w.errs, e)
	}
	acc := w.acc
	if len(acc) > 0 {
		w.pc, w.tok = "flush", acc
	}
	h.mu.Unlock()
	if len(acc) > 0 {
		outputs <- acc
	}
	h.mu.Lock()
	w.pc, w.tok, w.acc = "exit", nil, nil
	h.mu.Unlock()
	return e
}

func (h *pharness) source(n int) iter.Seq[ptok] {
	return func(yield func(ptok) bool) {
		for x := 1; x <= n; x++ {
			h.mu.Lock()
			h.iterAt = x
			h.mu.Unlock()
			<-h.iterGate
			h.mu.Lock()
			h.iterAt = 0
			h.mu.Unlock()
			if !yield(ptok{x}) {
				return
			}
		}
	}
}

func TestPipelineReplay(t *testing.T) {
	if !vh.Enabled() {
		t.Skip("driver only")
	}
	var in pipeInput
	if err := vh.Input(&in); err != nil {
		t.Fatal(err)
	}
	out := vh.NewResult()
	defer out.Write()
	for bi, beh := range in.Behaviours {
		var dv *vh.Divergence
		dl := bubble(t, func(t *testing.T) { dv = replayPipeline(&in, beh, out) })
		if dv == nil && dl != "" {
			dv = &vh.Divergence{Key: "pipeline:bubble-deadlock", What: dl, Step: len(beh)}
		}
		if dv != nil {
			n := min(dv.Step+1, len(beh))
			dv.Input = vh.J{"nitems": in.NItems, "k": in.K, "w": in.W, "behaviours": [][]pstep{beh[:n]}}
			out.Diverge(*dv)
			if len(out.Divergences) >= 3 {
				break
			}
		}
		out.Done(1, len(beh))
		for _, st := range beh {
			out.Count("pipeline_replay_"+st.A.Name, 1)
		}
		if last := beh[len(beh)-1].Pre; last.Cons == "finished" {
			out.Count(fmt.Sprintf("pipeline_replay_finished_isdone_%v_err_%v", last.Res.IsDone, last.Res.Err > 0), 1)
		}
		if bi == 0 {
			names := []string{}
			for _, st := range beh {
				names = append(names, fmt.Sprintf("%s%d", st.A.Name, st.A.P))
			}
			out.Sample(vh.J{"pipeline_schedule": names})
		}
	}
}

func normTok(t ptok) ptok {
	if len(t) == 0 {
		return nil
	}
	r := append(ptok{}, t...)
	sort.Ints(r)
	return r
}

func replayPipeline(in *pipeInput, beh []pstep, out *vh.Result) (dv *vh.Divergence) {
	defer recoverAsDivergence("pipeline", len(beh), &dv)
	h := newPHarness(in.K, in.W)
	ctx, cancel := context.WithCancel(context.Background())
	last := pipeline.Source(h.source(in.NItems))
	for s := 1; s <= in.K; s++ {
		last = pipeline.New(last, in.W, &pstate{h: h, stage: s})
	}
	outputs, wait := last.Run(ctx)
	// consumer
	var cmu sync.Mutex
	cons := "idle"
	var consumed []ptok
	var result *pipeline.Result
	consRecv := func() {
		cmu.Lock()
		cons = "parked"
		cmu.Unlock()
		go func() {
			v, ok := <-outputs
			cmu.Lock()
			if ok {
				consumed = append(consumed, normTok(v))
				cons = "idle"
			} else {
				cons = "sawclosed"
			}
			cmu.Unlock()
		}()
	}
	callWait := func() {
		cmu.Lock()
		cons = "waiting"
		cmu.Unlock()
		go func() {
			r := wait()
			cmu.Lock()
			result, cons = &r, "finished"
			cmu.Unlock()
		}()
	}
	defer func() {
		// drive the run to its end: cancel, let every piece of user code return, drain, wait
		cancel()
		for round := 0; round < 200; round++ {
			synctest.Wait()
			progressed := false
			h.mu.Lock()
			if h.iterAt != 0 {
				h.iterAt = 0
				progressed = true
				h.mu.Unlock()
				h.iterGate <- struct{}{}
				h.mu.Lock()
			}
			for _, row := range h.workers {
				for _, w := range row {
					if w.pc == "run" || w.pc == "done" {
						pc := w.pc
						h.mu.Unlock()
						if pc == "run" {
							w.gate <- "absorb"
						} else {
							w.gate <- "ok"
						}
						progressed = true
						synctest.Wait()
						h.mu.Lock()
					}
				}
			}
			h.mu.Unlock()
			cmu.Lock()
			c := cons
			cmu.Unlock()
			switch c {
			case "idle":
				consRecv()
				progressed = true
			case "sawclosed":
				callWait()
				progressed = true
			}
			if !progressed {
				break
			}
		}
		synctest.Wait()
		cmu.Lock()
		c := cons
		cmu.Unlock()
		if dv == nil && c != "finished" {
			dv = &vh.Divergence{Key: "pipeline:run-never-ends", Step: len(beh) - 1,
				What:     "after cancelling, releasing every Run/Done/iterator call and draining the outputs, wait() has not returned (consumer is " + c + ")",
				Observed: shorten(junoGoroutines(true), 10)}
		}
		if gs := junoGoroutines(true); dv == nil && len(gs) > 0 {
			dv = &vh.Divergence{Key: "pipeline:goroutine-leak", Step: len(beh) - 1, What: "pipeline goroutines alive after wait() returned", Observed: shorten(gs, 10)}
		}
	}()

	specToReal := map[int]int{} // spec worker id -> real index within its stage
	realUsed := make([]map[int]bool, in.K+1)
	for s := range realUsed {
		realUsed[s] = map[int]bool{}
	}
	normPc := func(pc string) string {
		if pc == "parked" {
			return "idle"
		}
		return pc
	}
	for si, st := range beh {
		synctest.Wait()
		// ---- compare the quiescent projection
		h.mu.Lock()
		bad := h.ranAfter
		obsIter := h.iterAt
		type wobs struct {
			Pc       string
			Tok, Acc ptok
			Err      bool
		}
		real := make([][]wobs, in.K)
		for s, row := range h.workers {
			for _, w := range row {
				real[s] = append(real[s], wobs{w.pc, normTok(w.tok), normTok(w.acc), w.err})
			}
		}
		h.mu.Unlock()
		if bad == "" && obsIter != st.Pre.Iter {
			bad = fmt.Sprintf("iterator stands at item %d, specification says %d (0 = not asked)", obsIter, st.Pre.Iter)
		}
		for pi, wp := range st.Pre.W {
			if bad != "" {
				break
			}
			p := pi + 1
			want := wobs{normPc(wp.Pc), normTok(wp.Tok), normTok(wp.Acc), wp.Err}
			if want.Pc != "flush" && want.Pc != "run" && want.Pc != "send" {
				want.Tok = nil
			}
			if want.Pc == "exit" {
				want.Acc = nil
			}
			eq := func(a, b wobs) bool {
				return a.Pc == b.Pc && slices.Equal(a.Tok, b.Tok) && slices.Equal(a.Acc, b.Acc) && a.Err == b.Err
			}
			s := wp.Stage - 1
			if ri, ok := specToReal[p]; ok {
				if !eq(real[s][ri], want) {
					bad = fmt.Sprintf("worker %d (stage %d, real index %d) is %+v, specification says %+v", p, wp.Stage, ri, real[s][ri], want)
				}
				continue
			}
			if want.Pc == "idle" && want.Acc == nil && !want.Err {
				continue // indistinguishable from the other fresh workers of its stage
			}
			found := -1
			for ri := range real[s] {
				if !realUsed[wp.Stage][ri] && eq(real[s][ri], want) {
					found = ri
					break
				}
			}
			if found < 0 {
				bad = fmt.Sprintf("no worker of stage %d is in the state the specification gives worker %d: %+v; real workers: %+v", wp.Stage, p, want, real[s])
				continue
			}
			specToReal[p] = found
			realUsed[wp.Stage][found] = true
		}
		cmu.Lock()
		obsCons, obsConsumed, obsRes := cons, append([]ptok{}, consumed...), result
		cmu.Unlock()
		if bad == "" && obsCons != st.Pre.Cons {
			bad = fmt.Sprintf("consumer is %q, specification says %q", obsCons, st.Pre.Cons)
		}
		if bad == "" {
			wantC := make([]ptok, 0, len(st.Pre.Consumed))
			for _, c := range st.Pre.Consumed {
				wantC = append(wantC, normTok(c))
			}
			if !slices.EqualFunc(wantC, obsConsumed, func(a, b ptok) bool { return slices.Equal(a, b) }) {
				bad = fmt.Sprintf("consumer received %v, specification says %v", obsConsumed, wantC)
			}
		}
		if bad == "" && obsCons == "finished" {
			if obsRes.IsDone != st.Pre.Res.IsDone || (obsRes.Err != nil) != (st.Pre.Res.Err > 0) {
				bad = fmt.Sprintf("wait() = {IsDone %v, Err %v}, specification says {IsDone %v, error of worker %d}", obsRes.IsDone, obsRes.Err, st.Pre.Res.IsDone, st.Pre.Res.Err)
			} else if st.Pre.Res.Err > 0 {
				// "errors propagate once": exactly the joined errors of ONE worker
				p := st.Pre.Res.Err
				ri, ok := specToReal[p]
				if !ok {
					bad = fmt.Sprintf("worker %d whose error the specification reports was never identified", p)
				} else {
					h.mu.Lock()
					for s, row := range h.workers {
						for i, w := range row {
							mine := s == st.Pre.W[p-1].Stage-1 && i == ri
							for _, e := range w.errs {
								if errors.Is(obsRes.Err, e) != mine && bad == "" {
									bad = fmt.Sprintf("wait() error %q: error %q of worker (stage %d, index %d) contained=%v, specification reports the errors of worker %d only", obsRes.Err, e, s+1, i, !mine, p)
								}
							}
						}
					}
					h.mu.Unlock()
				}
			}
		}
		if bad != "" {
			prev := "Init"
			if si > 0 {
				prev = beh[si-1].A.Name
			}
			return &vh.Divergence{Key: "pipeline:after-" + prev, What: "quiescent state after " + prev + " differs from Pipeline.tla: " + bad, Step: si, Expected: st.Pre}
		}
		// ---- act
		worker := func(p int) *pworker {
			ri, ok := specToReal[p]
			if !ok {
				panic(fmt.Sprintf("replay: action on unidentified worker %d", p))
			}
			return h.workers[(p-1)/in.W][ri]
		}
		switch st.A.Name {
		case "Yield":
			h.iterGate <- struct{}{}
		case "Cancel":
			cancel()
		case "RunEmit":
			worker(st.A.P).gate <- "emit"
		case "RunAbsorb":
			worker(st.A.P).gate <- "absorb"
		case "RunFail":
			worker(st.A.P).gate <- "fail"
		case "DoneOK":
			worker(st.A.P).gate <- "ok"
		case "DoneFail":
			worker(st.A.P).gate <- "fail"
		case "ConsRecv":
			consRecv()
		case "CallWait":
			callWait()
		case "End":
		default:
			panic("unknown step " + st.A.Name)
		}
	}
	return nil
}

// ---------------------------------------------------------------- concurrent rounds (monitors)

type pipeConcInput struct {
	Rounds int `json:"rounds"`
}

// TestPipelineConcurrent: free-running pipelines (no gates): random stage counts, worker counts,
// failures, cancellations and batching; the monitors are Pipeline.tla's invariants evaluated on
// the log of what the user code saw.
func TestPipelineConcurrent(t *testing.T) {
	if !vh.Enabled() {
		t.Skip("driver only")
	}
	var in pipeConcInput
	if err := vh.Input(&in); err != nil {
		t.Fatal(err)
	}
	out := vh.NewResult()
	defer out.Write()
	rng := rand.New(rand.NewSource(vh.Seed()*49979687 + 13))
	for r := 0; r < in.Rounds; r++ {
		seed := rng.Int63()
		dv, hung := pipelineMonitorRound(seed, out)
		if hung != "" {
			t.Fatalf("pipeline round %d did not finish (harness timeout, not a verdict): %s", r, hung)
		}
		if dv != nil {
			dv.Input = vh.J{"round_seed": seed, "rounds": 1}
			out.Diverge(*dv)
			break
		}
		out.Done(1, 0)
	}
	if gs := settleNoJunoGoroutines(10 * time.Second); len(gs) > 0 {
		out.Diverge(vh.Divergence{Key: "pipeline:goroutine-leak:concurrent", What: "pipeline goroutines alive after wait() returned", Input: vh.J{}, Observed: shorten(gs, 8)})
	}
}

type mstate struct {
	stage    int
	k        int
	mu       *sync.Mutex
	rng      []*rand.Rand
	failP    int // 1/failP of the Runs fail (0 = never)
	absorbP  int
	doneFail int
	acc      []ptok
	closedCh []atomic.Bool // closed observed downstream (index = stage)
	// log
	runs     map[int]int // item -> times Run at this stage
	failed   map[int]bool
	doneCnt  []int
	runAfter string
	errs     [][]error
	inRun    []bool
}

func (s *mstate) panicked(where string) {
	if p := recover(); p != nil {
		s.mu.Lock()
		s.runAfter = fmt.Sprintf("%s: %v", where, p)
		s.mu.Unlock()
	}
}

func (s *mstate) Run(index int, input ptok, outputs chan<- ptok) (err error) {
	defer s.panicked(fmt.Sprintf("Run(stage %d, index %d)", s.stage, index))
	r := s.rng[index]
	s.mu.Lock()
	if s.doneCnt[index] > 0 {
		s.runAfter = fmt.Sprintf("Run(stage %d, index %d) after its Done", s.stage, index)
	}
	if s.inRun[index] {
		s.runAfter = fmt.Sprintf("Run(stage %d, index %d) re-entered", s.stage, index)
	}
	s.inRun[index] = true
	for _, x := range input {
		s.runs[x]++
	}
	op := 0 // emit
	if s.failP > 0 && r.Intn(s.failP) == 0 {
		op = 2
	} else if s.absorbP > 0 && r.Intn(s.absorbP) == 0 {
		op = 1
	}
	s.mu.Unlock()
	if r.Intn(4) == 0 {
		runtime.Gosched()
	}
	defer func() {
		s.mu.Lock()
		s.inRun[index] = false
		s.mu.Unlock()
	}()
	switch op {
	case 2:
		e := fmt.Errorf("run error stage %d index %d item %v", s.stage, index, input)
		s.mu.Lock()
		for _, x := range input {
			s.failed[x] = true
		}
		s.errs[index] = append(s.errs[index], e)
		s.mu.Unlock()
		return e
	case 1:
		s.mu.Lock()
		s.acc[index] = union(s.acc[index], input)
		s.mu.Unlock()
		return nil
	}
	outputs <- input
	return nil
}

func (s *mstate) Done(index int, outputs chan<- ptok) (err error) {
	defer s.panicked(fmt.Sprintf("Done(stage %d, index %d)", s.stage, index))
	s.mu.Lock()
	s.doneCnt[index]++
	acc := s.acc[index]
	s.acc[index] = nil
	var e error
	if s.doneFail > 0 && s.rng[index].Intn(s.doneFail) == 0 {
		e = fmt.Errorf("done error stage %d index %d", s.stage, index)
		s.errs[index] = append(s.errs[index], e)
	}
	s.mu.Unlock()
	if len(acc) > 0 {
		outputs <- acc
	}
	return e
}

func pipelineMonitorRound(seed int64, out *vh.Result) (*vh.Divergence, string) {
	rng := rand.New(rand.NewSource(seed))
	nitems := []int{0, 1, 7, 200, 2000}[rng.Intn(5)]
	k := 1 + rng.Intn(4)
	w := []int{1, 2, 4, 16}[rng.Intn(4)]
	mode := rng.Intn(5) // 0,1: clean; 2: run failures; 3: external cancel; 4: done failure
	var mu sync.Mutex
	states := make([]*mstate, k)
	for s := range states {
		st := &mstate{stage: s + 1, k: k, mu: &mu, runs: map[int]int{}, failed: map[int]bool{}, doneCnt: make([]int, w),
			acc: make([]ptok, w), errs: make([][]error, w), inRun: make([]bool, w), absorbP: []int{0, 3, 10}[rng.Intn(3)]}
		for i := 0; i < w; i++ {
			st.rng = append(st.rng, rand.New(rand.NewSource(rng.Int63())))
		}
		states[s] = st
	}
	if mode == 2 && nitems > 0 {
		states[rng.Intn(k)].failP = 1 + rng.Intn(max(1, nitems/2))
		if rng.Intn(2) == 0 {
			states[rng.Intn(k)].failP = 1 + rng.Intn(max(1, nitems))
		}
	}
	if mode == 4 {
		states[rng.Intn(k)].doneFail = 1 + rng.Intn(w)
	}
	ctx, cancel := context.WithCancel(context.Background())
	defer cancel()
	cancelAt := -1
	if mode == 3 {
		cancelAt = rng.Intn(nitems + 1)
	}
	yielded, exhausted := 0, false
	var src iter.Seq[ptok] = func(yield func(ptok) bool) {
		for x := 1; x <= nitems; x++ {
			if x-1 == cancelAt {
				cancel()
			}
			mu.Lock()
			yielded = x
			mu.Unlock()
			if !yield(ptok{x}) {
				return
			}
		}
		if nitems == cancelAt {
			cancel()
		}
		mu.Lock()
		exhausted = true
		mu.Unlock()
	}
	last := pipeline.Source(src)
	for s := 0; s < k; s++ {
		last = pipeline.New(last, w, states[s])
	}
	outputs, wait := last.Run(ctx)
	var consumed []ptok
	var res pipeline.Result
	var wg sync.WaitGroup
	wg.Add(1)
	go func() {
		defer wg.Done()
		for v := range outputs {
			consumed = append(consumed, v)
		}
		res = wait()
	}()
	if h := waitOrHang(&wg, 120*time.Second); h != "" {
		return nil, h
	}
	desc := fmt.Sprintf("items %d, stages %d, workers %d, mode %d, cancelAt %d: ", nitems, k, w, mode, cancelAt)
	mu.Lock()
	defer mu.Unlock()
	seenC := map[int]int{}
	for _, tk := range consumed {
		for _, x := range tk {
			seenC[x]++
		}
	}
	anyErr := false
	for s, st := range states {
		if st.runAfter != "" {
			return &vh.Divergence{Key: "pipeline-concurrent:protocol", What: desc + st.runAfter}, ""
		}
		for i, c := range st.doneCnt {
			if c != 1 {
				return &vh.Divergence{Key: fmt.Sprintf("pipeline-concurrent:done-called-%d-times", c), What: desc + fmt.Sprintf("Done(stage %d, index %d) called %d times", s+1, i, c)}, ""
			}
			if len(st.errs[i]) > 0 {
				anyErr = true
			}
		}
		for x, c := range st.runs {
			if c != 1 {
				return &vh.Divergence{Key: "pipeline-concurrent:item-run-twice", What: desc + fmt.Sprintf("item %d was Run %d times at stage %d", x, c, s+1)}, ""
			}
			if s > 0 && states[s-1].runs[x] != 1 {
				return &vh.Divergence{Key: "pipeline-concurrent:stage-skipped", What: desc + fmt.Sprintf("item %d reached stage %d without stage %d", x, s+1, s)}, ""
			}
		}
	}
	// EndNothingDropped: every item handed to stage 1 is consumed or was dropped by a failing Run
	for x := range states[0].runs {
		dropped := false
		for _, st := range states {
			dropped = dropped || st.failed[x]
		}
		if (seenC[x] == 1) == dropped || seenC[x] > 1 {
			return &vh.Divergence{Key: "pipeline-concurrent:item-lost-or-duplicated", What: desc + fmt.Sprintf("item %d: consumed %d times, dropped by a failing Run: %v", x, seenC[x], dropped)}, ""
		}
	}
	for x := range seenC {
		if states[0].runs[x] != 1 {
			return &vh.Divergence{Key: "pipeline-concurrent:item-from-nowhere", What: desc + fmt.Sprintf("item %d consumed but never Run at stage 1", x)}, ""
		}
	}
	if len(states[0].runs) > yielded {
		return &vh.Divergence{Key: "pipeline-concurrent:more-items-than-yielded", What: desc}, ""
	}
	if res.IsDone != exhausted {
		return &vh.Divergence{Key: fmt.Sprintf("pipeline-concurrent:isdone-%v-exhausted-%v", res.IsDone, exhausted), What: desc + fmt.Sprintf("IsDone=%v but iterator exhausted=%v", res.IsDone, exhausted)}, ""
	}
	if (res.Err != nil) != anyErr {
		return &vh.Divergence{Key: "pipeline-concurrent:err-vs-failures", What: desc + fmt.Sprintf("wait() error %v, failures injected: %v", res.Err, anyErr)}, ""
	}
	if res.Err != nil {
		owners := 0
		for _, st := range states {
			for i := range st.errs {
				n := 0
				for _, e := range st.errs[i] {
					if errors.Is(res.Err, e) {
						n++
					}
				}
				if n > 0 {
					owners++
					if n != len(st.errs[i]) {
						return &vh.Divergence{Key: "pipeline-concurrent:worker-errors-partly-reported", What: desc + fmt.Sprintf("wait() reports %d of the %d errors of one worker", n, len(st.errs[i]))}, ""
					}
				}
			}
		}
		if owners != 1 {
			return &vh.Divergence{Key: "pipeline-concurrent:errors-of-several-workers", What: desc + fmt.Sprintf("wait() error carries the errors of %d workers", owners)}, ""
		}
	}
	if res.Err == nil && res.IsDone { // Completeness
		for x := 1; x <= nitems; x++ {
			if seenC[x] != 1 {
				return &vh.Divergence{Key: "pipeline-concurrent:complete-but-item-missing", What: desc + fmt.Sprintf("Err == nil && IsDone but item %d was consumed %d times", x, seenC[x])}, ""
			}
		}
		out.Count("pipeline_monitor_complete_runs", 1)
	}
	out.Count(fmt.Sprintf("pipeline_monitor_mode_%d", mode), 1)
	return nil, ""
}

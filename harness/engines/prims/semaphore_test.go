package prims

import (
	"context"
	"errors"
	"fmt"
	"math/rand"
	"runtime"
	"sync"
	"sync/atomic"
	"testing"
	"testing/synctest"
	"time"

	"github.com/NethermindEth/juno/migration/semaphore"

	"verifharness/internal/vh"
)

type sres struct{ id int }

type sact struct {
	Name     string `json:"name"`
	C        int    `json:"c"`
	Blocking bool   `json:"blocking"`
	Res      string `json:"res"`
}

type sproj struct {
	St  []string `json:"st"`
	Nfn int      `json:"nfn"`
}

type sstep struct {
	A   sact  `json:"a"`
	Pre sproj `json:"pre"`
}

type semInput struct {
	Size       int       `json:"size"`
	Behaviours [][]sstep `json:"behaviours"`
}

type scall struct {
	mu       sync.Mutex
	ctx      context.Context
	cancel   context.CancelFunc
	blocking bool
	started  bool
	done     bool
	res      string
	got      *sres
}

func (c *scall) state() string {
	c.mu.Lock()
	defer c.mu.Unlock()
	switch {
	case !c.started:
		return "idle"
	case c.done:
		return c.res
	default:
		return "waiting"
	}
}

func TestSemaphoreReplay(t *testing.T) {
	if !vh.Enabled() {
		t.Skip("driver only")
	}
	var in semInput
	if err := vh.Input(&in); err != nil {
		t.Fatal(err)
	}
	out := vh.NewResult()
	defer out.Write()
	for bi, beh := range in.Behaviours {
		var dv *vh.Divergence
		dl := bubble(t, func(t *testing.T) { dv = replaySemaphore(in.Size, beh, out) })
		if dv == nil && dl != "" {
			dv = &vh.Divergence{Key: "semaphore:bubble-deadlock", What: dl, Step: len(beh)}
		}
		if dv != nil {
			n := min(dv.Step+1, len(beh))
			dv.Input = vh.J{"size": in.Size, "behaviours": [][]sstep{beh[:n]}}
			out.Diverge(*dv)
			if len(out.Divergences) >= 3 {
				break
			}
		}
		out.Done(1, len(beh))
		if bi == 0 {
			out.Sample(vh.J{"size": in.Size, "behaviour": beh[:min(len(beh), 8)]})
		}
	}
}

func replaySemaphore(size int, beh []sstep, out *vh.Result) (dv *vh.Divergence) {
	defer recoverAsDivergence("semaphore", len(beh), &dv)
	var nfn, live, maxLive int
	var fmu sync.Mutex
	sem := semaphore.New(size, func() *sres {
		fmu.Lock()
		defer fmu.Unlock()
		nfn++
		live++
		maxLive = max(maxLive, live)
		return &sres{id: nfn}
	})
	calls := map[int]*scall{}
	get := func(id int) *scall {
		c := calls[id]
		if c == nil {
			c = &scall{}
			c.ctx, c.cancel = context.WithCancel(context.Background())
			calls[id] = c
		}
		return c
	}
	defer func() {
		// unblock everything: cancel the cancellable calls, feed permits to the GetBlocking ones
		for _, c := range calls {
			c.cancel()
		}
		for i := 0; i < len(calls)+size+1; i++ {
			synctest.Wait()
			waiting := false
			for _, c := range calls {
				if c.state() == "waiting" {
					waiting = true
				}
			}
			if !waiting {
				break
			}
			func() {
				defer func() { _ = recover() }()
				sem.Put()
			}()
		}
		synctest.Wait()
		if dv == nil {
			for id, c := range calls {
				if c.state() == "waiting" {
					dv = &vh.Divergence{Key: "semaphore:get-never-returns", Step: len(beh) - 1,
						What: fmt.Sprintf("call %d still blocked in Get after its context was cancelled / permits were put back", id)}
				}
			}
		}
	}()
	for si, st := range beh {
		synctest.Wait()
		if st.Pre.St != nil {
			stateOf := func(id int) string {
				if c := calls[id]; c != nil {
					return c.state()
				}
				return "idle"
			}
			// tolerate another grant order among indistinguishable waiters
			var a, b []int
			for i, want := range st.Pre.St {
				got := stateOf(i + 1)
				if want == "ok" && got == "waiting" {
					a = append(a, i+1)
				}
				if want == "waiting" && got == "ok" {
					b = append(b, i+1)
				}
			}
			if len(a) > 0 && len(a) == len(b) {
				same := true
				for i := range a {
					if calls[a[i]].blocking != calls[b[i]].blocking {
						same = false
					}
				}
				if !same {
					out.Count("semaphore_grant_order_differs_abandoned", 1)
					return nil
				}
				for i := range a {
					calls[a[i]], calls[b[i]] = calls[b[i]], calls[a[i]]
					out.Count("semaphore_waiters_renamed", 1)
				}
			}
			fmu.Lock()
			obs := sproj{St: make([]string, len(st.Pre.St)), Nfn: nfn}
			ml := maxLive
			fmu.Unlock()
			bad := ""
			for i := range st.Pre.St {
				obs.St[i] = stateOf(i + 1)
				if obs.St[i] != st.Pre.St[i] && bad == "" {
					bad = fmt.Sprintf("call %d is %q, specification says %q", i+1, obs.St[i], st.Pre.St[i])
				}
				if c := calls[i+1]; c != nil && bad == "" {
					c.mu.Lock()
					if c.done && ((c.res == "ok") != (c.got != nil)) {
						bad = fmt.Sprintf("call %d: result %q but resource %v", i+1, c.res, c.got)
					}
					c.mu.Unlock()
				}
			}
			if bad == "" && obs.Nfn != st.Pre.Nfn {
				bad = fmt.Sprintf("the resource constructor ran %d times, specification says %d", obs.Nfn, st.Pre.Nfn)
			}
			if bad == "" && ml > size {
				bad = fmt.Sprintf("%d resources alive at once with concurrency %d", ml, size)
			}
			if bad != "" {
				prev := "Init"
				if si > 0 {
					prev = beh[si-1].A.Name
				}
				return &vh.Divergence{Key: "semaphore:after-" + prev, What: "quiescent state after " + prev + " differs from Semaphore.tla: " + bad,
					Step: si, Expected: st.Pre, Observed: obs}
			}
		}
		switch st.A.Name {
		case "Start":
			c := get(st.A.C)
			c.mu.Lock()
			c.started, c.blocking = true, st.A.Blocking
			c.mu.Unlock()
			go func() {
				var r *sres
				res := "ok"
				defer func() {
					if p := recover(); p != nil { // e.g. x/sync: "semaphore: released more than held"
						c.mu.Lock()
						c.done, c.res = true, fmt.Sprintf("panic: %v", p)
						c.mu.Unlock()
					}
				}()
				if c.blocking {
					r = sem.GetBlocking()
				} else {
					var err error
					r, err = sem.Get(c.ctx)
					switch {
					case err == nil:
					case errors.Is(err, context.Canceled):
						res = "ctx"
					default:
						res = "other:" + err.Error()
					}
				}
				c.mu.Lock()
				c.done, c.res, c.got = true, res, r
				c.mu.Unlock()
			}()
		case "Cancel":
			get(st.A.C).cancel()
		case "Put":
			// the resource is given up BEFORE the permit goes back: a waiter may construct its
			// resource while Put is still returning
			fmu.Lock()
			live--
			fmu.Unlock()
			obs := func() (r string) {
				defer func() {
					if p := recover(); p != nil {
						r = "panic"
					}
				}()
				sem.Put()
				return "ok"
			}()
			if obs != st.A.Res {
				return &vh.Divergence{Key: "semaphore:Put:" + st.A.Res + "->" + obs, What: "result of Put differs from Semaphore.tla",
					Step: si, Expected: st.A.Res, Observed: obs}
			}
		case "End":
		default:
			panic("unknown step " + st.A.Name)
		}
	}
	return nil
}

// ---------------------------------------------------------------- concurrent rounds

func TestSemaphoreConcurrent(t *testing.T) {
	if !vh.Enabled() {
		t.Skip("driver only")
	}
	var in throttlerConcInput
	if err := vh.Input(&in); err != nil {
		t.Fatal(err)
	}
	out := vh.NewResult()
	defer out.Write()
	rng := rand.New(rand.NewSource(vh.Seed()*15485863 + 5))
	tw, err := newTraceWriter(in.Out)
	if err != nil {
		t.Fatal(err)
	}
	defer tw.close(out)
	for r := 0; r < in.TraceRounds; r++ {
		lines, hung := semaphoreTraceRound(rng.Int63())
		if hung != "" {
			t.Fatalf("semaphore trace round %d did not finish (harness timeout, not a verdict): %s", r, hung)
		}
		if err := tw.round(vh.J{"round": r}, lines); err != nil {
			t.Fatal(err)
		}
		out.Done(0, len(lines))
	}
	for r := 0; r < in.MonRounds; r++ {
		seed := rng.Int63()
		dv, hung := semaphoreMonitorRound(seed)
		if hung != "" {
			t.Fatalf("semaphore monitor round %d did not finish (harness timeout, not a verdict): %s", r, hung)
		}
		if dv != nil {
			dv.Input = vh.J{"monitor_seed": seed, "round": r}
			out.Diverge(*dv)
			break
		}
		out.Done(1, 0)
		out.Count("semaphore_monitor_rounds", 1)
	}
}

// semaphoreTraceRound: Size 2; 5 workers (threads 1..5) x 2 Gets; a successful Get hands its
// resource to the committer (thread 6), which Puts the permit back — as the migrations do; a
// canceller. Matches SemaphoreTrace.cfg.
func semaphoreTraceRound(seed int64) ([]map[string]any, string) {
	rng := rand.New(rand.NewSource(seed))
	lg := &evlog{}
	lg.add(vh.J{"ev": "Reset"})
	sem := semaphore.New(2, func() *sres {
		lg.add(vh.J{"ev": "Fn"})
		return &sres{}
	})
	var nextID int
	var cancels sync.Map
	startCall := func(cancel context.CancelFunc) int {
		lg.mu.Lock()
		defer lg.mu.Unlock()
		nextID++
		cancels.Store(nextID, cancel)
		lg.lines = append(lg.lines, vh.J{"ev": "GetS", "c": nextID})
		return nextID
	}
	jit := func(r *rand.Rand) {
		switch r.Intn(4) {
		case 0:
			runtime.Gosched()
		case 1:
			time.Sleep(time.Duration(r.Intn(60)) * time.Microsecond)
		}
	}
	commit := make(chan *sres)
	var cwg sync.WaitGroup
	cwg.Add(1)
	go func() {
		defer cwg.Done()
		r := rand.New(rand.NewSource(seed ^ 0x55))
		for range commit {
			jit(r)
			lg.add(vh.J{"ev": "PutS", "t": 6})
			sem.Put()
			lg.add(vh.J{"ev": "PutE", "t": 6})
		}
	}()
	var wg sync.WaitGroup
	for w := 1; w <= 5; w++ {
		w := w
		r := rand.New(rand.NewSource(rng.Int63()))
		wg.Add(1)
		go func() {
			defer wg.Done()
			for k := 0; k < 2; k++ {
				jit(r)
				ctx, cancel := context.WithCancel(context.Background())
				id := startCall(cancel)
				res, err := sem.Get(ctx)
				if err != nil {
					lg.add(vh.J{"ev": "GetE", "c": id, "res": "ctx"})
					continue
				}
				lg.add(vh.J{"ev": "GetE", "c": id, "res": "ok"})
				jit(r)
				if r.Intn(2) == 0 {
					commit <- res
				} else {
					lg.add(vh.J{"ev": "PutS", "t": w})
					sem.Put()
					lg.add(vh.J{"ev": "PutE", "t": w})
				}
			}
		}()
	}
	r := rand.New(rand.NewSource(rng.Int63()))
	wg.Add(1)
	go func() {
		defer wg.Done()
		for k := 0; k < 4; k++ {
			jit(r)
			lg.mu.Lock()
			n := nextID
			lg.mu.Unlock()
			if n == 0 {
				continue
			}
			id := 1 + r.Intn(n)
			cf, _ := cancels.Load(id)
			lg.add(vh.J{"ev": "CancelS", "c": id})
			cf.(context.CancelFunc)()
			lg.add(vh.J{"ev": "CancelE", "c": id})
		}
	}()
	h := waitOrHang(&wg, 60*time.Second)
	close(commit)
	cwg.Wait()
	if h != "" {
		return nil, h
	}
	return lg.lines, ""
}

// semaphoreMonitorRound: ResourcesBounded (constructed and not yet put back <= size, evaluated
// inside the constructor exactly as the repository's own test does), FnOncePerSuccess,
// PermitsConserved (afterwards exactly `size` Gets succeed and the next one waits).
func semaphoreMonitorRound(seed int64) (*vh.Divergence, string) {
	rng := rand.New(rand.NewSource(seed))
	size := []int{1, 2, 4}[rng.Intn(3)]
	var live, maxLive, nfn atomic.Int64
	sem := semaphore.New(size, func() *sres {
		nfn.Add(1)
		cur := live.Add(1)
		for {
			m := maxLive.Load()
			if cur <= m || maxLive.CompareAndSwap(m, cur) {
				break
			}
		}
		return &sres{}
	})
	workers := size*3 + rng.Intn(4)
	var okGets, failedWithRes atomic.Int64
	var wg sync.WaitGroup
	for w := 0; w < workers; w++ {
		r := rand.New(rand.NewSource(rng.Int63()))
		wg.Add(1)
		go func() {
			defer wg.Done()
			for k := 0; k < 300; k++ {
				var res *sres
				switch r.Intn(4) {
				case 0:
					res = sem.GetBlocking()
				default:
					ctx, cancel := context.WithCancel(context.Background())
					switch r.Intn(5) {
					case 0:
						cancel()
					case 1:
						time.AfterFunc(time.Duration(r.Intn(50))*time.Microsecond, cancel)
					}
					var err error
					res, err = sem.Get(ctx)
					cancel()
					if err != nil {
						if res != nil {
							failedWithRes.Add(1)
						}
						continue
					}
				}
				if res == nil {
					failedWithRes.Add(1 << 20)
					continue
				}
				okGets.Add(1)
				if r.Intn(3) == 0 {
					runtime.Gosched()
				}
				live.Add(-1)
				sem.Put()
			}
		}()
	}
	if h := waitOrHang(&wg, 120*time.Second); h != "" {
		return nil, h
	}
	if m := maxLive.Load(); m > int64(size) {
		return &vh.Divergence{Key: "semaphore-concurrent:more-resources-than-permits", What: fmt.Sprintf("%d resources alive at once with concurrency %d", m, size)}, ""
	}
	if nfn.Load() != okGets.Load() || failedWithRes.Load() != 0 {
		return &vh.Divergence{Key: "semaphore-concurrent:constructor-runs-vs-successful-gets",
			What: fmt.Sprintf("constructor ran %d times for %d successful Gets (failed Gets with a resource / successful without: %d)", nfn.Load(), okGets.Load(), failedWithRes.Load())}, ""
	}
	// conservation: exactly `size` permits are available now
	for i := 0; i < size; i++ {
		ctx, cancel := context.WithTimeout(context.Background(), 20*time.Second)
		_, err := sem.Get(ctx)
		cancel()
		if err != nil {
			return &vh.Divergence{Key: "semaphore-concurrent:permit-lost", What: fmt.Sprintf("after every resource was put back only %d of %d permits can be obtained", i, size)}, ""
		}
	}
	ctx, cancel := context.WithTimeout(context.Background(), 30*time.Millisecond)
	_, err := sem.Get(ctx)
	cancel()
	if err == nil {
		return &vh.Divergence{Key: "semaphore-concurrent:permit-created", What: fmt.Sprintf("more than %d permits can be obtained after the round", size)}, ""
	}
	return nil, ""
}

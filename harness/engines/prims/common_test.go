// Engine "prims" (specification growth G06): juno's small concurrency primitives —
// utils/broadcast, utils/throttler, utils/pipeline, migration/pipeline, migration/semaphore and
// the feeder client's retry loop — bound to spec/prims/*.tla.
//
// Three kinds of tests per primitive:
//   - Test<X>Replay: TLC-simulated call sequences (X MBT modules) are stepped through the REAL
//     object inside a testing/synctest bubble. The bubble gives (1) a fake clock and (2)
//     synctest.Wait(), which returns exactly when every goroutine of the primitive is durably
//     blocked — the quiescent points at which the MBT modules record results. "Blocked for ever"
//     is therefore decided, not timed out.
//   - Test<X>Concurrent: real goroutines (no bubble, real parallelism) hammer the primitive;
//     every call is logged at its start and at its end in one global order (ndjson) for TLC trace
//     validation with silent linearisation steps, and/or judged by monitors that are the spec's
//     invariants.
//   - retained-result and goroutine-leak checks in both.
package prims

import (
	"encoding/json"
	"fmt"
	"os"
	"runtime"
	"strings"
	"sync"
	"testing"
	"testing/synctest"
	"time"

	"verifharness/internal/vh"
)

const junoPkg = "github.com/NethermindEth/juno/"

// junoGoroutines returns the stacks of all goroutines (other than the caller) that run juno code
// or were created by juno code. inBubble restricts to goroutines of the current synctest bubble.
func junoGoroutines(inBubble bool) []string {
	buf := make([]byte, 4<<20)
	n := runtime.Stack(buf, true)
	var res []string
	mine := "" // "synctest bubble N" of the caller: goroutines leaked by an EARLIER bubble are not ours
	for i, g := range strings.Split(string(buf[:n]), "\n\n") {
		head := strings.SplitN(g, "\n", 2)[0]
		if i == 0 { // the calling goroutine
			if k := strings.Index(head, "synctest bubble "); k >= 0 {
				mine = strings.TrimRight(head[k:], "]:")
			}
			continue
		}
		if inBubble && (mine == "" || !strings.Contains(head, mine+"]")) {
			continue
		}
		if strings.Contains(g, junoPkg) {
			res = append(res, g)
		}
	}
	return res
}

// settleNoJunoGoroutines polls (real time) until no goroutine runs juno code; returns the
// survivors after the deadline.
func settleNoJunoGoroutines(d time.Duration) []string {
	deadline := time.Now().Add(d)
	for {
		gs := junoGoroutines(false)
		if len(gs) == 0 || time.Now().After(deadline) {
			return gs
		}
		time.Sleep(5 * time.Millisecond)
	}
}

// bubble runs f inside a synctest bubble. If goroutines are still blocked when f returns the
// runtime panics in THIS goroutine ("deadlock: main bubble goroutine has exited but blocked
// goroutines remain"); the panic text is returned instead of crashing the engine. f is expected to
// have reported the leak as a divergence itself (leakCheck) before returning.
func bubble(t *testing.T, f func(t *testing.T)) (deadlock string) {
	defer func() {
		if r := recover(); r != nil {
			deadlock = fmt.Sprint(r)
		}
	}()
	synctest.Test(t, f)
	return ""
}

// shorten keeps the first lines of a goroutine dump.
func shorten(gs []string, maxLines int) []string {
	out := make([]string, 0, len(gs))
	for _, g := range gs {
		ls := strings.Split(g, "\n")
		if len(ls) > maxLines {
			ls = ls[:maxLines]
		}
		out = append(out, strings.Join(ls, "\n"))
	}
	return out
}

// ---------------------------------------------------------------- global event log

// evlog is the one global order of call-start / call-end events of a concurrent round.
type evlog struct {
	mu    sync.Mutex
	lines []map[string]any
}

func (l *evlog) add(ev map[string]any) int {
	l.mu.Lock()
	defer l.mu.Unlock()
	l.lines = append(l.lines, ev)
	return len(l.lines)
}

func (l *evlog) len() int {
	l.mu.Lock()
	defer l.mu.Unlock()
	return len(l.lines)
}

type traceWriter struct {
	f      *os.File
	n      int
	rounds []map[string]any
}

func newTraceWriter(path string) (*traceWriter, error) {
	f, err := os.Create(path)
	if err != nil {
		return nil, err
	}
	return &traceWriter{f: f}, nil
}

func (w *traceWriter) round(info map[string]any, lines []map[string]any) error {
	first := w.n + 1
	for _, l := range lines {
		b, err := json.Marshal(l)
		if err != nil {
			return err
		}
		if _, err := w.f.Write(append(b, '\n')); err != nil {
			return err
		}
		w.n++
	}
	info["first"] = first
	info["last"] = w.n
	w.rounds = append(w.rounds, info)
	return nil
}

func (w *traceWriter) close(out *vh.Result) {
	w.f.Close()
	out.Stats["rounds"] = w.rounds
	out.Stats["trace_events"] = w.n
}

type outPath struct {
	Out    string `json:"out"`
	Rounds int    `json:"rounds"`
}

// recoverAsDivergence turns a panic raised on the replaying goroutine (inside a call into the
// primitive) into a divergence instead of a dead engine; harness bugs ("replay: ...") stay panics.
func recoverAsDivergence(prim string, steps int, dv **vh.Divergence) {
	if p := recover(); p != nil {
		msg := fmt.Sprint(p)
		if strings.HasPrefix(msg, "replay:") || strings.HasPrefix(msg, "unknown step") {
			panic(p)
		}
		buf := make([]byte, 8192)
		n := runtime.Stack(buf, false)
		if *dv == nil {
			*dv = &vh.Divergence{Key: prim + ":panic", What: "a call into the primitive panicked: " + msg, Step: steps - 1, Observed: string(buf[:n])}
		}
	}
}

package prims

import (
	"errors"
	"fmt"
	"math/rand"
	"runtime"
	"strings"
	"sync"
	"sync/atomic"
	"testing"
	"testing/synctest"
	"time"

	"github.com/NethermindEth/juno/utils/broadcast"

	"verifharness/internal/vh"
)

// bmsg is the payload: Pad is a function of V, so a torn copy (slot.data read outside the slot
// lock) or a slot that aliases the sender's variable is visible in the value itself.
type bmsg struct {
	V   uint64
	Pad [63]uint64
}

func mkMsg(v uint64) bmsg {
	m := bmsg{V: v}
	for i := range m.Pad {
		m.Pad[i] = v*7919 + uint64(i) + 1
	}
	return m
}

func (m bmsg) intact() bool { return m == mkMsg(m.V) }

type bres struct {
	K string `json:"k"`
	Q uint64 `json:"q,omitempty"`
	M uint64 `json:"m,omitempty"`
	N uint64 `json:"n,omitempty"`
}

type bstep struct {
	Name string `json:"name"`
	S    int    `json:"s"`
	Res  bres   `json:"res"`
}

type bcastInput struct {
	Cap        uint64    `json:"cap"`     // capacity passed to New
	SpecCap    uint64    `json:"speccap"` // capacity the behaviours were generated for
	Behaviours [][]bstep `json:"behaviours"`
}

// decode one received EventOrLag and check the accessor contract (IsEvent/IsLag/Event/Lag agree).
func decodeItem(it *broadcast.EventOrLag[bmsg]) (bres, string) {
	if it.IsEvent() == it.IsLag() {
		return bres{K: "bad"}, "IsEvent and IsLag agree"
	}
	if it.IsEvent() {
		v, err := it.Event()
		if err != nil {
			return bres{K: "bad"}, "Event() fails on an event: " + err.Error()
		}
		if _, lerr := it.Lag(); !errors.Is(lerr, broadcast.ErrNoLag) {
			return bres{K: "bad"}, "Lag() on an event does not return ErrNoLag"
		}
		if !v.intact() {
			return bres{K: "torn", Q: v.V}, fmt.Sprintf("received payload is not a value that was ever sent (torn copy): V=%d Pad[0]=%d Pad[62]=%d", v.V, v.Pad[0], v.Pad[62])
		}
		return bres{K: "ev", Q: v.V}, ""
	}
	lag, err := it.Lag()
	if err != nil {
		return bres{K: "bad"}, "Lag() fails on a lag notification: " + err.Error()
	}
	if v, eerr := it.Event(); !errors.Is(eerr, broadcast.ErrNoEvent) || v != (bmsg{}) {
		return bres{K: "bad"}, "Event() on a lag notification does not return (zero, ErrNoEvent)"
	}
	return bres{K: "lag", M: lag.MissedSeq, N: lag.NextSeq}, ""
}

// TestBroadcastReplay steps BroadcastMBT behaviours through a real broadcast.Broadcast inside a
// synctest bubble: before every call all delivery goroutines are durably blocked, which is the
// quiescent point at which the specification recorded the expected result.
func TestBroadcastReplay(t *testing.T) {
	if !vh.Enabled() {
		t.Skip("driver only")
	}
	var in bcastInput
	if err := vh.Input(&in); err != nil {
		t.Fatal(err)
	}
	out := vh.NewResult()
	defer out.Write()
	for bi, beh := range in.Behaviours {
		var dv *vh.Divergence
		dl := bubble(t, func(t *testing.T) {
			dv = replayBroadcast(in.Cap, beh)
		})
		if dv == nil && dl != "" {
			dv = &vh.Divergence{Key: "broadcast:bubble-deadlock", What: dl, Step: len(beh)}
		}
		if dv != nil {
			n := min(dv.Step+1, len(beh))
			dv.Input = vh.J{"cap": in.Cap, "speccap": in.SpecCap, "behaviours": [][]bstep{beh[:n]}}
			out.Diverge(*dv)
			if len(out.Divergences) >= 3 {
				break
			}
		}
		out.Done(1, len(beh))
		for _, st := range beh {
			if st.Name == "Recv" || st.Res.K == "closed" {
				out.Count("broadcast_replay_"+st.Name+"_"+st.Res.K, 1)
			}
		}
		if bi == 0 {
			out.Sample(vh.J{"cap": in.Cap, "behaviour": beh[:min(len(beh), 14)]})
		}
	}
}

func replayBroadcast(capacity uint64, beh []bstep) (dv *vh.Divergence) {
	defer recoverAsDivergence("broadcast", len(beh), &dv)
	b := broadcast.New[bmsg](capacity)
	subs := map[int]*broadcast.Subscription[bmsg]{}
	var sent uint64
	type kept struct {
		it   broadcast.EventOrLag[bmsg]
		want bres
	}
	var retained []*kept
	defer func() {
		// leave the bubble clean: everything stopped, every goroutine of the primitive gone
		for _, s := range subs {
			s.Unsubscribe()
		}
		b.Close()
		synctest.Wait()
		if gs := junoGoroutines(true); len(gs) > 0 && dv == nil {
			dv = &vh.Divergence{Key: "broadcast:goroutine-leak", Step: len(beh),
				What:     "delivery goroutines still alive after Unsubscribe of every subscription and Close",
				Observed: shorten(gs, 8)}
		}
	}()
	for si, st := range beh {
		synctest.Wait()
		var obs bres
		why := ""
		switch st.Name {
		case "Subscribe":
			subs[st.S] = b.Subscribe()
			obs = bres{K: "none"}
		case "Send":
			m := mkMsg(sent)
			err := b.Send(&m)
			m = bmsg{V: ^uint64(0)} // the caller's variable is the caller's again after Send
			switch {
			case err == nil:
				obs = bres{K: "ok", Q: sent}
				sent++
			case errors.Is(err, broadcast.ErrClosed):
				obs = bres{K: "closed"}
			default:
				obs = bres{K: "err:" + err.Error()}
			}
		case "Recv":
			select {
			case it, ok := <-subs[st.S].Recv():
				if !ok {
					obs = bres{K: "chclosed"}
				} else {
					k := &kept{it: it}
					obs, why = decodeItem(&k.it)
					k.want = obs
					retained = append(retained, k)
				}
			default:
				obs = bres{K: "empty"}
			}
		case "Unsubscribe":
			subs[st.S].Unsubscribe()
			obs = bres{K: "none"}
		case "Close":
			b.Close()
			obs = bres{K: "none"}
		default:
			panic("unknown step " + st.Name)
		}
		if obs != st.Res {
			return &vh.Divergence{Key: "broadcast:" + st.Name + ":" + st.Res.K + "->" + obs.K,
				What: "broadcast call result differs from Broadcast.tla at a quiescent point. " + why,
				Step: si, Expected: st.Res, Observed: obs}
		}
	}
	synctest.Wait()
	for _, k := range retained {
		if got, _ := decodeItem(&k.it); got != k.want {
			return &vh.Divergence{Key: "broadcast:retained-item-changed", What: "an item handed to the consumer changed after later calls",
				Step: len(beh) - 1, Expected: k.want, Observed: got}
		}
	}
	return nil
}

// ---------------------------------------------------------------- concurrent rounds

type bcastConcInput struct {
	Out         string `json:"out"`
	TraceRounds int    `json:"trace_rounds"`
	MonRounds   int    `json:"monitor_rounds"`
	Cap         uint64 `json:"cap"`
	// replay of one recorded round: nothing is run, the lines are validated by the driver
}

// TestBroadcastConcurrent: real goroutines, real parallelism.
//   - trace rounds (short): producers, consumers, an unsubscriber and a closer; call-start /
//     call-end events in one global order are written to in.Out for BroadcastTrace.tla;
//   - monitor rounds (long): the invariants of Broadcast.tla evaluated on what every consumer saw
//     (StreamInOrder, LagTruthful, CloseExits/CatchesUp as "a consumer that reads until the
//     channel closes after Close ends exactly at the number of successful Sends"), payload
//     integrity, goroutine leaks.
func TestBroadcastConcurrent(t *testing.T) {
	if !vh.Enabled() {
		t.Skip("driver only")
	}
	var in bcastConcInput
	if err := vh.Input(&in); err != nil {
		t.Fatal(err)
	}
	out := vh.NewResult()
	defer out.Write()
	rng := rand.New(rand.NewSource(vh.Seed()*7919 + 11))
	before := len(junoGoroutines(false))
	if before != 0 {
		t.Fatalf("juno goroutines before the first round: %d", before)
	}
	tw, err := newTraceWriter(in.Out)
	if err != nil {
		t.Fatal(err)
	}
	defer tw.close(out)
	for r := 0; r < in.TraceRounds; r++ {
		lines, hung := bcastTraceRound(rng.Int63(), in.Cap)
		if hung != "" {
			t.Fatalf("broadcast trace round %d did not finish (harness timeout, not a verdict): %s", r, hung)
		}
		if err := tw.round(vh.J{"round": r, "cap": in.Cap}, lines); err != nil {
			t.Fatal(err)
		}
		out.Done(0, len(lines))
	}
	for r := 0; r < in.MonRounds; r++ {
		seed := rng.Int63()
		dv, hung := bcastMonitorRound(seed, r)
		if hung != "" {
			t.Fatalf("broadcast monitor round %d did not finish (harness timeout, not a verdict): %s", r, hung)
		}
		if dv != nil {
			dv.Input = vh.J{"monitor_seed": seed, "round": r}
			out.Diverge(*dv)
			break
		}
		out.Done(1, 0)
		out.Count("broadcast_monitor_rounds", 1)
	}
	if gs := settleNoJunoGoroutines(10 * time.Second); len(gs) > 0 {
		out.Diverge(vh.Divergence{Key: "broadcast:goroutine-leak:concurrent", What: "delivery goroutines alive after every subscription was unsubscribed and every broadcast closed",
			Input: vh.J{}, Observed: shorten(gs, 8)})
	}
}

// waitOrHang waits for wg with a generous real-time limit.
func waitOrHang(wg *sync.WaitGroup, d time.Duration) string {
	done := make(chan struct{})
	go func() { wg.Wait(); close(done) }()
	select {
	case <-done:
		return ""
	case <-time.After(d):
		return fmt.Sprintf("still running after %s; juno goroutines: %v", d, shorten(junoGoroutines(false), 10))
	}
}

// bcastTraceRound: 2 producers x 3 sends, 2 subscriptions (thread s consumes subscription s),
// one controller that unsubscribes subscription 1 and closes. At most 6 successful sends.
func bcastTraceRound(seed int64, capacity uint64) ([]map[string]any, string) {
	rng := rand.New(rand.NewSource(seed))
	b := broadcast.New[bmsg](capacity)
	lg := &evlog{}
	lg.add(vh.J{"ev": "Reset"})
	var wg sync.WaitGroup
	jit := func(r *rand.Rand) {
		switch r.Intn(4) {
		case 0:
			runtime.Gosched()
		case 1:
			time.Sleep(time.Duration(r.Intn(40)) * time.Microsecond)
		}
	}
	subs := make([]*broadcast.Subscription[bmsg], 3)
	var subMu sync.Mutex
	for s := 1; s <= 2; s++ {
		s := s
		r := rand.New(rand.NewSource(rng.Int63()))
		wg.Add(1)
		go func() {
			defer wg.Done()
			jit(r)
			lg.add(vh.J{"ev": "SubS", "s": s})
			sub := b.Subscribe()
			lg.add(vh.J{"ev": "SubE", "s": s})
			subMu.Lock()
			subs[s] = sub
			subMu.Unlock()
			for n := 0; n < 64; n++ { // at most 6 sends: a longer stream is rejected by the trace spec
				jit(r)
				lg.add(vh.J{"ev": "RecvS", "s": s})
				it, ok := <-sub.Recv()
				if !ok {
					lg.add(vh.J{"ev": "RecvE", "s": s, "k": "chclosed", "v": 0, "m": 0, "n": 0})
					return
				}
				d, _ := decodeItem(&it)
				lg.add(vh.J{"ev": "RecvE", "s": s, "k": d.K, "v": d.Q, "m": d.M, "n": d.N})
			}
		}()
	}
	for p := 3; p <= 4; p++ {
		p := p
		r := rand.New(rand.NewSource(rng.Int63()))
		wg.Add(1)
		go func() {
			defer wg.Done()
			for i := 0; i < 3; i++ {
				jit(r)
				v := uint64(p*100 + i)
				m := mkMsg(v)
				lg.add(vh.J{"ev": "SendS", "t": p, "v": v})
				err := b.Send(&m)
				m = bmsg{}
				res := "ok"
				if err != nil {
					res = "closed"
				}
				lg.add(vh.J{"ev": "SendE", "t": p, "res": res})
			}
		}()
	}
	r := rand.New(rand.NewSource(rng.Int63()))
	wg.Add(1)
	go func() {
		defer wg.Done()
		time.Sleep(time.Duration(r.Intn(200)) * time.Microsecond)
		if r.Intn(2) == 0 {
			for {
				subMu.Lock()
				s1 := subs[1]
				subMu.Unlock()
				if s1 != nil {
					lg.add(vh.J{"ev": "UnsubS", "s": 1})
					s1.Unsubscribe()
					lg.add(vh.J{"ev": "UnsubE", "s": 1})
					break
				}
				runtime.Gosched()
			}
		}
		time.Sleep(time.Duration(r.Intn(300)) * time.Microsecond)
		lg.add(vh.J{"ev": "CloseS"})
		b.Close()
		lg.add(vh.J{"ev": "CloseE"})
	}()
	if h := waitOrHang(&wg, 60*time.Second); h != "" {
		return nil, h
	}
	return lg.lines, ""
}

type bcastSeen struct {
	start     uint64 // value of "successful sends" when Subscribe began / ended
	startHi   uint64
	items     []bres
	sentAtEnd []uint64 // successful-or-started sends when the item was received (upper bound on tail)
	closed    bool
}

// bcastMonitorRound: one producer (so that message q carries V = q and the order is known),
// several consumers of different speed, optional unsubscribe, Close at the end.
func bcastMonitorRound(seed int64, round int) (*vh.Divergence, string) {
	rng := rand.New(rand.NewSource(seed))
	caps := []uint64{0, 1, 1, 2, 2, 3, 4, 8, 16}
	req := caps[rng.Intn(len(caps))]
	capacity := uint64(1)
	for capacity < req {
		capacity *= 2
	}
	b := broadcast.New[bmsg](req)
	sends := 300 + rng.Intn(700)
	pace := []int{0, 16, 64}[rng.Intn(3)] // 0: the producer never pauses
	if pace == 0 {
		sends *= 4
	}
	var started, finished atomic.Uint64 // sends started / completed successfully
	nsub := 2 + rng.Intn(3)
	seen := make([]*bcastSeen, nsub)
	var wg sync.WaitGroup
	unsubAt := make([]int, nsub)
	for s := 0; s < nsub; s++ {
		s := s
		r := rand.New(rand.NewSource(rng.Int63()))
		slow := r.Intn(3) // 0 fast, 1 sometimes slow, 2 slow
		unsubAt[s] = -1
		if r.Intn(3) == 0 {
			unsubAt[s] = r.Intn(sends)
		}
		seen[s] = &bcastSeen{}
		wg.Add(1)
		go func() {
			defer wg.Done()
			if s > 0 {
				time.Sleep(time.Duration(r.Intn(300)) * time.Microsecond)
			}
			sn := seen[s]
			sn.start = finished.Load()
			sub := b.Subscribe()
			sn.startHi = started.Load()
			n := 0
			for it := range sub.Recv() {
				if n > 2*sends+8 {
					sn.items = append(sn.items, bres{K: "bad unbounded: more items than messages were sent"})
					sub.Unsubscribe()
					break
				}
				d, why := decodeItem(&it)
				if why != "" {
					d.K = "bad " + d.K + ": " + why
				}
				sn.items = append(sn.items, d)
				sn.sentAtEnd = append(sn.sentAtEnd, started.Load())
				n++
				if unsubAt[s] >= 0 && n >= unsubAt[s] {
					sub.Unsubscribe()
					sub.Unsubscribe() // idempotent
					unsubAt[s] = -2
				}
				if slow == 2 || (slow == 1 && r.Intn(8) == 0) {
					time.Sleep(time.Duration(r.Intn(30)) * time.Microsecond)
				}
			}
			sn.closed = true
			if unsubAt[s] != -2 {
				sub.Unsubscribe() // release is the caller's duty; must be harmless after Close
			}
		}()
	}
	wg.Add(1)
	go func() {
		defer wg.Done()
		r := rand.New(rand.NewSource(rng.Int63()))
		for i := 0; i < sends; i++ {
			m := mkMsg(uint64(i))
			started.Add(1)
			if err := b.Send(&m); err != nil {
				panic("Send failed before Close: " + err.Error())
			}
			m.V = 1 << 60 // must not be visible to anybody
			m.Pad[0] = 0
			finished.Add(1)
			if pace > 0 && r.Intn(pace) == 0 {
				time.Sleep(time.Duration(r.Intn(20)) * time.Microsecond)
			}
		}
		b.Close()
		b.Close()
		var m bmsg
		if err := b.Send(&m); !errors.Is(err, broadcast.ErrClosed) {
			panic("monitor")
		}
	}()
	if h := waitOrHang(&wg, 90*time.Second); h != "" {
		return nil, h
	}
	total := uint64(sends)
	for s, sn := range seen {
		unsub := unsubAt[s] == -2
		// StreamInOrder, with the start cursor only known to lie in [start, startHi]
		cur, known := sn.start, sn.start == sn.startHi
		for i, it := range sn.items {
			switch it.K {
			case "ev":
				if !known {
					if it.Q < sn.start || it.Q > sn.startHi {
						return &vh.Divergence{Key: "broadcast-concurrent:first-event-before-subscription", Step: i,
							What:     fmt.Sprintf("sub %d (cap %d): first event %d is outside the window [%d,%d] of the tail during Subscribe", s, capacity, it.Q, sn.start, sn.startHi),
							Observed: sn.items[:min(len(sn.items), i+3)]}, ""
					}
					cur, known = it.Q, true
				}
				if it.Q != cur {
					return &vh.Divergence{Key: "broadcast-concurrent:stream-not-contiguous", Step: i,
						What:     fmt.Sprintf("sub %d (cap %d): received event %d where %d was due (no lag notification in between)", s, capacity, it.Q, cur),
						Observed: sn.items[max(0, i-3):min(len(sn.items), i+3)]}, ""
				}
				cur++
			case "lag":
				if !known && (it.M < sn.start || it.M > sn.startHi) {
					return &vh.Divergence{Key: "broadcast-concurrent:first-lag-before-subscription", Step: i,
						What:     fmt.Sprintf("sub %d (cap %d): first lag misses %d, outside the window [%d,%d] of the tail during Subscribe", s, capacity, it.M, sn.start, sn.startHi),
						Observed: sn.items[:min(len(sn.items), i+3)]}, ""
				}
				if known && it.M != cur {
					return &vh.Divergence{Key: "broadcast-concurrent:lag-missed-seq-wrong", Step: i,
						What:     fmt.Sprintf("sub %d (cap %d): lag reports MissedSeq %d but the consumer was due %d", s, capacity, it.M, cur),
						Observed: sn.items[max(0, i-3):min(len(sn.items), i+3)]}, ""
				}
				hi := sn.sentAtEnd[i] // tail <= sends started
				if !(it.N > it.M && it.M+capacity < hi && it.N+capacity <= hi) {
					return &vh.Divergence{Key: "broadcast-concurrent:lag-not-truthful", Step: i,
						What:     fmt.Sprintf("sub %d (cap %d): lag {missed %d next %d} although at most %d messages had been published", s, capacity, it.M, it.N, hi),
						Observed: sn.items[max(0, i-3):min(len(sn.items), i+3)]}, ""
				}
				cur, known = it.N, true
			default:
				return &vh.Divergence{Key: "broadcast-concurrent:bad-item:" + strings.TrimSuffix(strings.Fields(it.K+" ?")[1], ":"), Step: i,
					What: fmt.Sprintf("sub %d (cap %d): %s", s, capacity, it.K), Observed: sn.items[max(0, i-3):i]}, ""
			}
		}
		if !sn.closed {
			return nil, "consumer ended without closed channel"
		}
		// CloseExits + CatchesUp: a consumer that was not unsubscribed and read until the channel
		// closed has been told about every message
		if !unsub && !(known && cur == total) && !(!known && sn.startHi == total) {
			return &vh.Divergence{Key: "broadcast-concurrent:closed-before-drained",
				What:     fmt.Sprintf("sub %d (cap %d): channel closed after Close with the consumer at %d (known=%v) of %d published messages", s, capacity, cur, known, total),
				Observed: sn.items[max(0, len(sn.items)-4):]}, ""
		}
	}
	return nil, ""
}

package mempool

import (
	"context"
	"fmt"
	"sort"
	"sync"
	"testing"
	"time"

	"github.com/NethermindEth/juno/consensus/p2p/config"
	"github.com/NethermindEth/juno/core"
	mempoolp2p "github.com/NethermindEth/juno/mempool/p2p"
	pubsubtestutils "github.com/NethermindEth/juno/p2p/pubsub/testutils"
	"github.com/NethermindEth/juno/utils/log"

	"verifharness/internal/chainkit"
	"verifharness/internal/vh"
)

type gossipInput struct {
	Nodes int `json:"nodes"`
	Txs   int `json:"txs"`
}

// TestMempoolGossip: mempool/p2p over real libp2p hosts on the loopback interface (no outside
// network), one real pool + chain per node. P2P.Push = pool.Push, then broadcast; the listener
// unmarshals, adapts, checks the hash and pushes into the local pool. Promise checked: a
// transaction accepted at its origin reaches the pool of every other node exactly once and
// unchanged; one the origin rejects is not gossiped; kinds the wire format does not carry (L1
// handler) stay local.
func TestMempoolGossip(t *testing.T) {
	if !vh.Enabled() {
		t.Skip("driver only")
	}
	var in gossipInput
	if err := vh.Input(&in); err != nil {
		t.Fatal(err)
	}
	out := vh.NewResult()
	defer out.Write()
	if in.Nodes == 0 {
		in.Nodes = 3
	}
	if in.Txs == 0 {
		in.Txs = 12
	}
	u := newUniverse("G", vh.Seed())
	nodes := pubsubtestutils.BuildNetworks(t, pubsubtestutils.LineNetworkConfig(in.Nodes))
	ctx, cancel := context.WithCancel(context.Background())
	var wg sync.WaitGroup
	suts := make([]*sut, in.Nodes)
	p2ps := make([]*mempoolp2p.P2P, in.Nodes)
	for i := range nodes {
		s, err := newSUT(u, "memory", i%2 == 1, 64, 2, false, false)
		if err != nil {
			t.Fatal(err)
		}
		suts[i] = s
		p2ps[i] = mempoolp2p.New(chainkit.Network, nodes[i].Host, log.NewNopZapLogger(), s.pool, &config.DefaultBufferSizes, nodes[i].GetBootstrapPeers, nil)
		wg.Add(1)
		go func(i int) {
			defer wg.Done()
			if err := p2ps[i].Run(ctx); err != nil {
				out.Diverge(vh.Divergence{Key: "mempool-gossip:run", What: "p2p.Run: " + err.Error(), Input: in})
			}
		}(i)
	}
	defer func() {
		cancel()
		wg.Wait()
		for _, s := range suts {
			s.closeAll()
		}
	}()
	// which ids travel: v3 invoke and deploy-account; an L1 handler is accepted locally only; a v1
	// invoke cannot be expressed on the wire (the receiver's hash check refuses it)
	expect := make([]map[int]bool, in.Nodes) // per node: ids that must arrive from others
	local := make([]map[int]bool, in.Nodes)
	for i := range expect {
		expect[i], local[i] = map[int]bool{}, map[int]bool{}
	}
	travels := func(id int) bool {
		switch tx := u.txs[id-1].Transaction.(type) {
		case *core.InvokeTransaction:
			return tx.Version.Is(3)
		case *core.DeployAccountTransaction:
			return tx.Version.Is(3)
		}
		return false
	}
	// let the mesh form: the broadcaster loops sleep two heartbeat delays before they publish
	time.Sleep(500 * time.Millisecond)
	// every fourth transaction is refused by its origin (sender not deployed): it must not travel
	refused := 0
	for k := 0; k < in.Txs && k < len(u.txs); k++ {
		id, origin := k+1, (k/4+k)%in.Nodes
		o := classify(p2ps[origin].Push(ctx, u.fresh(id)))
		want := "ok"
		if u.specs[id-1].Sender == 0 && u.specs[id-1].Kind == "invoke" {
			want = "nostate"
		}
		if o != want {
			out.Diverge(vh.Divergence{Key: "mempool-gossip:push", What: fmt.Sprintf("P2P.Push(%d) at node %d = %s, expected %s", id, origin, o, want), Input: in})
			return
		}
		if o != "ok" {
			refused++
			continue
		}
		local[origin][id] = true
		if travels(id) {
			for j := range expect {
				if j != origin {
					expect[j][id] = true
				}
			}
		}
	}
	out.Count("gossip_refused_at_origin", refused)
	// Nothing is popped while the messages travel (a node's own message comes back to it through
	// its own subscription: whether the pool takes it a second time is the duplicate question, and
	// a pool that has handed the first copy out already could not know). Arrival is seen in Len().
	got := make([]map[int]int, in.Nodes)
	for i := range got {
		got[i] = map[int]int{}
	}
	deadline := time.Now().Add(60 * time.Second)
	for {
		done := true
		for i, s := range suts {
			if s.pool.Len() < len(local[i])+len(expect[i]) {
				done = false
			}
		}
		if done || time.Now().After(deadline) {
			break
		}
		time.Sleep(5 * time.Millisecond)
	}
	// grace period: duplicates or strays would arrive now
	time.Sleep(400 * time.Millisecond)
	for i, s := range suts {
		txs, err := s.pool.PopBatch(1 << 10)
		if err != nil {
			continue
		}
		r := popResult(u, txs, nil)
		if r.Kind != "txs" {
			out.Diverge(vh.Divergence{Key: "mempool-gossip:changed", What: fmt.Sprintf("node %d received a transaction that is not what was pushed: %s", i, r.Kind), Input: in})
			return
		}
		for _, id := range r.Txs {
			got[i][id]++
		}
	}
	for i := range suts {
		var missing, dup, stray []int
		for id := range expect[i] {
			if got[i][id] == 0 {
				missing = append(missing, id)
			}
		}
		var echo []int
		for id, n := range got[i] {
			switch {
			case !expect[i][id] && !local[i][id]:
				stray = append(stray, id)
			case n > 1 && local[i][id]:
				echo = append(echo, id)
			case n > 1:
				dup = append(dup, id)
			}
		}
		sort.Ints(echo)
		if len(echo) > 0 {
			out.Diverge(vh.Divergence{Key: "mempool-dup:gossip-echo", Input: in,
				What: fmt.Sprintf("node %d holds its own transactions %v twice: gossipsub delivers a node's own message to its own subscription, the listener "+
					"pushes it into the pool again and Push does not notice that it is already there", i, echo)})
		}
		sort.Ints(missing)
		sort.Ints(dup)
		sort.Ints(stray)
		if len(missing) > 0 {
			out.Diverge(vh.Divergence{Key: "mempool-gossip:not-delivered", What: fmt.Sprintf("node %d never received %v (60 s)", i, missing), Input: in})
		}
		if len(dup) > 0 {
			out.Diverge(vh.Divergence{Key: "mempool-gossip:duplicate", What: fmt.Sprintf("node %d received %v more than once", i, dup), Input: in})
		}
		if len(stray) > 0 {
			out.Diverge(vh.Divergence{Key: "mempool-gossip:stray", What: fmt.Sprintf("node %d received %v, which cannot travel", i, stray), Input: in})
		}
	}
	out.Done(1, in.Txs)
	out.Count("gossip_transactions", in.Txs)
}

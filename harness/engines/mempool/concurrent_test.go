package mempool

import (
	"context"
	"encoding/json"
	"fmt"
	"math/rand"
	"os"
	"runtime"
	"sort"
	"strings"
	"sync"
	"sync/atomic"
	"testing"
	"time"

	"github.com/NethermindEth/juno/mempool"

	"verifharness/internal/vh"
)

// orderRound watches the order of a Push's two visible effects from outside: the transaction is in
// the list BEFORE the token is in the Wait() channel (Mempool.tla: TokenAfterAppend; the other
// order is the lost wake-up). One pusher pushes into an EMPTY pool with an empty token channel
// while a spinning observer samples (token, Len) — token first. "token there, list still empty"
// inside one push is the forbidden order. Returns the number of pushes watched.
func orderRound(u *universe, newState bool, rng *rand.Rand) (int, string, error) {
	s, err := newSUT(u, "memory", newState, 1<<10, 2, false, false)
	if err != nil {
		return 0, "", err
	}
	defer s.closeAll()
	pool := s.pool
	var epoch, barrier atomic.Int64 // epoch odd = a push is running
	var bad atomic.Int64
	stop := make(chan struct{})
	var wg sync.WaitGroup
	wg.Add(1)
	go func() {
		defer wg.Done()
		w := pool.Wait()
		for {
			select {
			case <-stop:
				return
			default:
			}
			for i := 0; i < 2000; i++ {
				e1 := epoch.Load()
				if e1%2 == 0 {
					continue
				}
				tok := len(w)
				barrier.Add(1) // keeps the two reads in program order
				l := pool.Len()
				if tok == 1 && l == 0 && epoch.Load() == e1 {
					bad.Add(1)
				}
			}
		}
	}()
	n := 0
	for _, i := range rng.Perm(len(u.txs)) {
		epoch.Add(1)
		o := classify(pool.Push(context.Background(), u.fresh(i+1)))
		epoch.Add(1)
		if o != "ok" {
			close(stop)
			wg.Wait()
			return n, fmt.Sprintf("Push(%d) = %s", i+1, o), nil
		}
		n++
		pool.Pop()
		select {
		case <-pool.Wait():
		default:
		}
	}
	close(stop)
	wg.Wait()
	if b := bad.Load(); b > 0 {
		return n, fmt.Sprintf("%d samples inside a Push showed the Wait() token present while Len() was still 0: the token is sent before the "+
			"transaction is in the list — a consumer woken by it finds the pool empty, goes back to sleep, and nobody wakes it for this transaction", b), nil
	}
	return n, "", nil
}

type concInput struct {
	Out           string `json:"out"`
	TraceRounds   int    `json:"trace_rounds"`
	MonitorRounds int    `json:"monitor_rounds"`
	Max           int    `json:"max"`
	Pushers       int    `json:"pushers"`
	DedupFix      bool   `json:"dedup_fix"`    // expectations of the monitors follow the model in force
	OverflowFix   bool   `json:"overflow_fix"` // (decided by the check from known_findings.json)
	OnlyRound     int    `json:"only_round"`   // replay: run exactly this monitor round (1-based), 0 = all
}

// tlog is the one event log of a round: appended under a mutex, so the order of the lines is a
// real-time order of the events.
type tlog struct {
	mu    sync.Mutex
	lines []string
}

func (t *tlog) ev(m map[string]any) {
	b, _ := json.Marshal(m)
	t.mu.Lock()
	t.lines = append(t.lines, string(b))
	t.mu.Unlock()
}

type pushRec struct {
	p, t       int
	out        string
	start, end int64 // positions in a global atomic sequence
}

type popRec struct {
	c   int
	ids []int
	at  int64
}

type roundResult struct {
	pushes  []pushRec
	pops    []popRec // per successful pop call, in per-thread order
	drained []int
	final   dbProj
	maxLen  int
	fullLog int // "database is full" errors logged
	stuck   string
	bad     string
}

// runRound drives one pool with real goroutines. plan[p] = the ids pusher p pushes, in order.
func runRound(u *universe, be string, newState bool, max int, plan [][]int, rng *rand.Rand, lg *tlog, stall, popper bool) (*roundResult, error) {
	s, err := newSUT(u, be, newState, max, 2, false, false)
	if err != nil {
		return nil, err
	}
	defer s.closeAll()
	res := &roundResult{}
	var seq atomic.Int64
	var mu sync.Mutex
	pool := s.pool
	// the writer can be stalled (a slow disk): it waits here before every batch
	var release chan struct{}
	if stall {
		release = make(chan struct{})
		s.gate.delay = func() { <-release }
	} else {
		jitter := rng.Intn(3)
		s.gate.delay = func() {
			for i := 0; i < jitter; i++ {
				runtime.Gosched()
			}
		}
	}
	stop := make(chan struct{})
	var wgPush, wgCons sync.WaitGroup
	var maxLen atomic.Int64
	note := func(n int) {
		for {
			cur := maxLen.Load()
			if int64(n) <= cur || maxLen.CompareAndSwap(cur, int64(n)) {
				return
			}
		}
	}
	for p := range plan {
		wgPush.Add(1)
		go func(p int) {
			defer wgPush.Done()
			for _, id := range plan[p] {
				rec := pushRec{p: p + 1, t: id}
				if lg != nil {
					lg.ev(map[string]any{"ev": "PushS", "p": p + 1, "t": id})
				}
				rec.start = seq.Add(1)
				func() {
					defer func() {
						if x := recover(); x != nil {
							rec.out = fmt.Sprintf("panic: %v", x)
						}
					}()
					rec.out = classify(pool.Push(context.Background(), u.fresh(id)))
				}()
				rec.end = seq.Add(1)
				if lg != nil {
					lg.ev(map[string]any{"ev": "PushE", "p": p + 1, "out": rec.out})
				}
				mu.Lock()
				res.pushes = append(res.pushes, rec)
				mu.Unlock()
				if rng != nil {
					runtime.Gosched()
				}
			}
		}(p)
	}
	popOnce := func(c int, op string, n int) (int, bool) {
		if lg != nil {
			lg.ev(map[string]any{"ev": "PopS", "c": c, "op": op, "n": n})
		}
		var txs []mempool.BroadcastedTransaction
		var err error
		if op == "pop" {
			var tx mempool.BroadcastedTransaction
			tx, err = pool.Pop()
			txs = []mempool.BroadcastedTransaction{tx}
		} else {
			txs, err = pool.PopBatch(n)
		}
		at := seq.Add(1)
		r := popResult(u, txs, err)
		if lg != nil {
			ids := r.Txs
			if ids == nil {
				ids = []int{}
			}
			lg.ev(map[string]any{"ev": "PopE", "c": c, "kind": r.Kind, "txs": ids})
		}
		note(pool.Len())
		if r.Kind != "txs" && r.Kind != "empty" {
			mu.Lock()
			res.bad = fmt.Sprintf("consumer %d: %s", c, r.Kind)
			mu.Unlock()
		}
		if r.Kind == "txs" && len(r.Txs) > 0 {
			mu.Lock()
			res.pops = append(res.pops, popRec{c: c, ids: r.Txs, at: at})
			mu.Unlock()
		}
		return len(r.Txs), r.Kind == "empty"
	}
	// consumer 1: the sequencer's pattern — drain in batches until empty, then sleep on Wait()
	wgCons.Add(1)
	go func() {
		defer wgCons.Done()
		for {
			for {
				if _, empty := popOnce(1, "batch", 2); empty {
					break
				}
				select {
				case <-stop:
					return
				default:
				}
			}
			if lg != nil {
				lg.ev(map[string]any{"ev": "WaitS", "c": 1})
			}
			select {
			case <-pool.Wait():
				if lg != nil {
					lg.ev(map[string]any{"ev": "WaitE", "c": 1})
				}
			case <-stop:
				if lg != nil {
					lg.ev(map[string]any{"ev": "WaitX", "c": 1})
				}
				return
			}
		}
	}()
	// consumer 2: a free popper (bounded number of calls in trace rounds)
	wgCons.Add(1)
	go func() {
		defer wgCons.Done()
		if !popper {
			return
		}
		r := rand.New(rand.NewSource(rng.Int63()))
		calls := 1 << 30
		if lg != nil {
			calls = 3 + r.Intn(3)
		}
		for i := 0; i < calls; i++ {
			select {
			case <-stop:
				return
			default:
			}
			if r.Intn(2) == 0 {
				popOnce(2, "pop", 0)
			} else {
				popOnce(2, "batch", r.Intn(4))
			}
			for j := r.Intn(4); j > 0; j-- {
				runtime.Gosched()
			}
		}
	}()
	pushDone := make(chan struct{})
	go func() { wgPush.Wait(); close(pushDone) }()
	if stall {
		// keep the writer stalled while the pushers run, then let it go
		select {
		case <-pushDone:
		case <-time.After(10 * time.Second):
			res.stuck = "pushers did not finish while the writer was stalled"
		}
		close(release)
	}
	select {
	case <-pushDone:
	case <-time.After(10 * time.Second):
		res.stuck = "a Push call did not return"
		close(stop)
		return res, nil
	}
	// the consumers must take everything that was accepted without further help (no lost wake-up)
	accepted := 0
	for _, r := range res.pushes {
		if r.out == "ok" {
			accepted++
		}
	}
	deadline := time.Now().Add(10 * time.Second)
	for {
		mu.Lock()
		n := 0
		for _, p := range res.pops {
			n += len(p.ids)
		}
		mu.Unlock()
		if n >= accepted {
			break
		}
		if time.Now().After(deadline) {
			if pool.Len() > 0 {
				res.stuck = fmt.Sprintf("%d transactions stay in the pool while the Wait-based consumer sleeps (lost wake-up)", pool.Len())
			}
			break
		}
		time.Sleep(200 * time.Microsecond)
	}
	close(stop)
	wgCons.Wait()
	if lg != nil {
		lg.ev(map[string]any{"ev": "CloseS"})
	}
	closed := make(chan struct{})
	go func() { pool.Close(); close(closed) }()
	select {
	case <-closed:
	case <-time.After(10 * time.Second):
		res.stuck = "Close did not return"
		return res, nil
	}
	if lg != nil {
		lg.ev(map[string]any{"ev": "CloseE"})
	}
	txs, err := pool.PopBatch(1 << 20)
	r := popResult(u, txs, err)
	res.drained = r.Txs
	if res.drained == nil {
		res.drained = []int{}
	}
	res.final = s.projectDB()
	res.maxLen = int(maxLen.Load())
	for _, m := range s.logger.take() {
		if strings.Contains(m, "database is full") {
			res.fullLog++
		}
	}
	if lg != nil {
		f := res.final
		lg.ev(map[string]any{"ev": "Final", "mem": res.drained, "walk": f.Walk, "h": f.H, "t": f.T, "l": f.L, "n": f.N})
	}
	s.pool = nil
	return res, nil
}

// monitor evaluates Mempool.tla's properties on what one round showed (unique transactions per
// round: every id is pushed at most once, so positions are unambiguous).
func monitor(res *roundResult, max, pushers int, overflowFix bool) (string, string) {
	if res.stuck != "" {
		if strings.Contains(res.stuck, "lost wake-up") {
			return "mempool-concurrent:lost-wakeup", res.stuck
		}
		return "mempool-concurrent:stuck", res.stuck
	}
	if res.bad != "" {
		return "mempool-concurrent:bad-transaction", res.bad
	}
	accepted := map[int]pushRec{}
	for _, p := range res.pushes {
		switch p.out {
		case "ok":
			accepted[p.t] = p
		case "full", "nonce", "unsupported", "nostate":
		default:
			return "mempool-concurrent:push-result", fmt.Sprintf("Push(%d) ended with %q", p.t, p.out)
		}
	}
	// exactly once
	seen := map[int]int{}
	for _, p := range res.pops {
		for _, id := range p.ids {
			seen[id]++
		}
	}
	for _, id := range res.drained {
		seen[id]++
	}
	for id := range accepted {
		if seen[id] != 1 {
			return "mempool-concurrent:exactly-once", fmt.Sprintf("accepted transaction %d was handed out %d times", id, seen[id])
		}
	}
	for id, n := range seen {
		if _, ok := accepted[id]; !ok {
			return "mempool-concurrent:exactly-once", fmt.Sprintf("transaction %d was handed out %d times but its Push did not return nil", id, n)
		}
	}
	// FIFO: two transactions whose pushes did not overlap leave in push order. Pops are atomic
	// (list mutex) and `at` is taken after the call returned, so compare only what is decidable:
	// inside one batch, and between calls of one consumer.
	byC := map[int][]popRec{}
	for _, p := range res.pops {
		byC[p.c] = append(byC[p.c], p)
	}
	for c, ps := range byC {
		var flat []int
		for _, p := range ps {
			flat = append(flat, p.ids...)
		}
		for i := 0; i < len(flat); i++ {
			for j := i + 1; j < len(flat); j++ {
				a, b := accepted[flat[i]], accepted[flat[j]]
				if b.end < a.start {
					return "mempool-concurrent:fifo", fmt.Sprintf("consumer %d received %d before %d although Push(%d) had returned before Push(%d) started",
						c, flat[i], flat[j], flat[j], flat[i])
				}
			}
		}
	}
	if res.maxLen > max-2+pushers {
		return "mempool-concurrent:capacity", fmt.Sprintf("Len() = %d with maxNumTxns = %d and %d pushers", res.maxLen, max, pushers)
	}
	// the persistent list after Close: consistent, and everything accepted is there unless the
	// pool said (logged) that it could not be persisted
	f := res.final
	if f.Bad != "" {
		return "mempool-concurrent:store", f.Bad
	}
	if walkLoops(f.Walk) || len(f.Walk) != f.L {
		return "mempool-concurrent:list", fmt.Sprintf("persistent list after Close: walk %v, length record %d", f.Walk, f.L)
	}
	inWalk := map[int]bool{}
	for _, id := range f.Walk {
		if inWalk[id] {
			return "mempool-concurrent:list", fmt.Sprintf("transaction %d twice in the persistent list %v", id, f.Walk)
		}
		inWalk[id] = true
		if _, ok := accepted[id]; !ok {
			return "mempool-concurrent:list", fmt.Sprintf("transaction %d is in the persistent list but was not accepted", id)
		}
	}
	missing := []int{}
	for id := range accepted {
		if !inWalk[id] {
			missing = append(missing, id)
		}
	}
	sort.Ints(missing)
	if len(missing) > res.fullLog {
		return "mempool-overflow:concurrent-drop", fmt.Sprintf("%d accepted transactions %v are not in the persistent list after Close, but only %d were "+
			"reported (logged) as not persisted: a transaction waiting in the write channel was thrown away", len(missing), missing, res.fullLog)
	}
	if !overflowFix && len(missing) < res.fullLog {
		return "", "" // as coded the drop can hit an empty channel (the writer was faster): fine
	}
	// persisted order = order of the write channel; for non-overlapping pushes that is push order
	pos := map[int]int{}
	for i, id := range f.Walk {
		pos[id] = i
	}
	for a, ra := range accepted {
		for b, rb := range accepted {
			if ra.end < rb.start && inWalk[a] && inWalk[b] && pos[a] > pos[b] {
				return "mempool-concurrent:durable-order", fmt.Sprintf("Push(%d) returned before Push(%d) started, but the persistent list has %v", a, b, f.Walk)
			}
		}
	}
	return "", ""
}

func TestMempoolConcurrent(t *testing.T) {
	if !vh.Enabled() {
		t.Skip("driver only")
	}
	var in concInput
	if err := vh.Input(&in); err != nil {
		t.Fatal(err)
	}
	out := vh.NewResult()
	defer out.Write()
	if in.Max == 0 {
		in.Max = 4
	}
	if in.Pushers == 0 {
		in.Pushers = 2
	}
	seed := vh.Seed()
	// ---- rounds recorded for TLC (small; alphabet F, duplicates and rejections included)
	if in.Out != "" {
		uF := newUniverse("F", seed)
		var all []string
		var rounds []map[string]int
		for r := 0; r < in.TraceRounds; r++ {
			rng := rand.New(rand.NewSource(seed*1000 + int64(r)))
			plan := make([][]int, in.Pushers)
			for p := range plan {
				for k := 0; k < 3; k++ {
					plan[p] = append(plan[p], 1+rng.Intn(len(uF.txs)))
				}
			}
			lg := &tlog{}
			lg.ev(map[string]any{"ev": "Reset"})
			be := []string{"memory", "pebblev2"}[r%2]
			res, err := runRound(uF, be, r%4 >= 2, in.Max, plan, rng, lg, false, r%3 != 2)
			if err != nil {
				t.Fatalf("round setup: %v", err)
			}
			if res.stuck != "" {
				key := "mempool-concurrent:stuck"
				if strings.Contains(res.stuck, "lost wake-up") {
					key = "mempool-concurrent:lost-wakeup"
				}
				out.Diverge(vh.Divergence{Key: key, What: res.stuck, Input: vh.J{"trace_round": r}, Step: r})
				continue
			}
			first := len(all) + 1
			all = append(all, lg.lines...)
			rounds = append(rounds, map[string]int{"first": first, "last": len(all), "round": r})
		}
		if err := os.WriteFile(in.Out, []byte(strings.Join(all, "\n")+"\n"), 0o644); err != nil {
			t.Fatal(err)
		}
		out.Stats["rounds"] = rounds
		out.Count("trace_events", len(all))
	}
	// ---- order of append and token (the lost wake-up cannot be provoked from outside; its cause can be seen)
	uU := newUniverse("U", seed)
	if in.OnlyRound == 0 {
		watched := 0
		for r := 0; r < max(4, in.MonitorRounds/20); r++ {
			n, why, err := orderRound(uU, r%2 == 0, rand.New(rand.NewSource(seed*31+int64(r))))
			if err != nil {
				t.Fatal(err)
			}
			watched += n
			if why != "" {
				cp := in
				cp.Out, cp.TraceRounds, cp.MonitorRounds = "", 0, 1
				out.Diverge(vh.Divergence{Key: "mempool-concurrent:token-before-append", What: why, Input: cp, Step: r})
				break
			}
		}
		out.Count("pushes_watched_for_token_order", watched)
	}
	// ---- monitored rounds (many; unique transactions; every third round with a stalled writer)
	for r := 1; r <= in.MonitorRounds; r++ {
		if in.OnlyRound != 0 && r != in.OnlyRound {
			continue
		}
		rng := rand.New(rand.NewSource(seed*7919 + int64(r)))
		perm := rng.Perm(len(uU.txs))
		per := 6 + rng.Intn(8)
		plan := make([][]int, in.Pushers)
		k := 0
		for p := range plan {
			for i := 0; i < per && k < len(perm); i++ {
				plan[p] = append(plan[p], perm[k]+1)
				k++
			}
		}
		be := "memory"
		if r%10 == 0 {
			be = "pebblev2"
		}
		res, err := runRound(uU, be, r%2 == 0, in.Max, plan, rng, nil, r%3 == 0, r%4 < 2)
		if err != nil {
			t.Fatalf("round setup: %v", err)
		}
		if key, what := monitor(res, in.Max, in.Pushers, in.OverflowFix); key != "" {
			cp := in
			cp.Out, cp.TraceRounds, cp.OnlyRound = "", 0, r
			raw, _ := json.Marshal(cp)
			var payload any
			_ = json.Unmarshal(raw, &payload)
			out.Diverge(vh.Divergence{Key: key, What: what, Input: payload, Step: r,
				Observed: vh.J{"pushes": fmtPushes(res.pushes), "final_walk": res.final.Walk, "drained": res.drained, "logged_full": res.fullLog}})
			if !strings.HasPrefix(key, "mempool-overflow") {
				break
			}
		}
		out.Done(1, len(res.pushes)+len(res.pops))
		out.Count("concurrent_monitor_rounds", 1)
		if res.fullLog > 0 {
			out.Count("rounds_with_full_write_channel", 1)
		}
		if res.maxLen > in.Max-1 {
			out.Count("rounds_with_capacity_overshoot", 1)
		}
	}
}

func fmtPushes(ps []pushRec) []string {
	var o []string
	for _, p := range ps {
		o = append(o, fmt.Sprintf("p%d:%d=%s", p.p, p.t, p.out))
	}
	return o
}

package mempool

import (
	"context"
	"crypto/rand"
	"encoding/json"
	"errors"
	"fmt"
	mrand "math/rand"
	"os"
	"strings"
	"sync"
	"sync/atomic"
	"testing"
	"time"

	"github.com/NethermindEth/juno/blockchain"
	"github.com/NethermindEth/juno/builder"
	"github.com/NethermindEth/juno/core"
	"github.com/NethermindEth/juno/core/felt"
	"github.com/NethermindEth/juno/mempool"
	"github.com/NethermindEth/juno/sequencer"
	"github.com/NethermindEth/juno/vm"
	"github.com/consensys/gnark-crypto/ecc/stark-curve/ecdsa"

	"verifharness/internal/chainkit"
	"verifharness/internal/vh"
)

// scriptExec stands in for the VM-backed builder.Executor (the VM cannot run here). RunTxns is
// where the sequencer's listener hands over what it popped: the batch is recorded, the scripted
// outcome returned, and on success the transactions are put into the pre-confirmed block exactly
// as builder.executor does (transactions, receipts, count, nonce updates), so that Finalise stores
// real blocks and the head nonces the mempool validates against move.
type scriptExec struct {
	mu       sync.Mutex
	u        *universe
	g        *chainkit.Gen
	bc       *blockchain.Blockchain
	script   func(batch int, ids []int) string
	batches  [][]int
	outcomes []string
	at       []int64
	seq      *atomic.Int64
	rng      *mrand.Rand
	bad      string
	lg       *tlog
}

func (e *scriptExec) RunTxns(state *builder.BuildState, txns []mempool.BroadcastedTransaction) error {
	ids, why := idsOf(e.u, txns)
	e.mu.Lock()
	n := len(e.batches)
	o := e.script(n, ids)
	e.batches = append(e.batches, ids)
	e.outcomes = append(e.outcomes, o)
	e.at = append(e.at, e.seq.Add(1))
	if e.lg != nil {
		e.lg.ev(map[string]any{"ev": "Exec", "txs": ids, "o": o})
	}
	if why != "" {
		e.bad = why
	}
	d := time.Duration(e.rng.Intn(1500)) * time.Microsecond
	e.mu.Unlock()
	time.Sleep(d)
	switch o {
	case "txerr":
		return vm.TransactionExecutionError{Index: 0, Cause: json.RawMessage(`"scripted"`)}
	case "fatal":
		return errors.New("scripted executor failure")
	}
	pc := state.PreConfirmed
	for i := range txns {
		tx := txns[i].Transaction
		pc.Block.Transactions = append(pc.Block.Transactions, tx)
		e.mu.Lock()
		rc := e.g.Receipt(tx, nil)
		e.mu.Unlock()
		pc.Block.Receipts = append(pc.Block.Receipts, rc)
		pc.Block.TransactionCount++
		diff := chainkit.EmptyDiff()
		var sender, nonce *felt.Felt
		switch t := tx.(type) {
		case *core.InvokeTransaction:
			sender, nonce = t.SenderAddress, t.Nonce
		case *core.DeclareTransaction:
			sender, nonce = t.SenderAddress, t.Nonce
		}
		if sender != nil && nonce != nil {
			next := new(felt.Felt).Add(nonce, chainkit.F(1))
			cur, ok := pc.StateUpdate.StateDiff.Nonces[*sender]
			if !ok || cur.Cmp(next) < 0 {
				diff.Nonces[*sender] = next
			}
		}
		pc.TransactionStateDiffs = append(pc.TransactionStateDiffs, diff)
		pc.StateUpdate.StateDiff.Merge(diff)
	}
	return nil
}

func (e *scriptExec) Finish(state *builder.BuildState) (blockchain.SimulateResult, error) {
	return e.bc.Simulate(state.PreConfirmed.Block, state.PreConfirmed.StateUpdate, state.PreConfirmed.NewClasses, nil)
}

type seqInput struct {
	Rounds      int    `json:"rounds"`
	OnlyRound   int    `json:"only_round"`
	Out         string `json:"out"` // ndjson trace of the TLC-validated rounds
	TraceRounds int    `json:"trace_rounds"`
}

func TestSequencerConsumer(t *testing.T) {
	if !vh.Enabled() {
		t.Skip("driver only")
	}
	var in seqInput
	if err := vh.Input(&in); err != nil {
		t.Fatal(err)
	}
	out := vh.NewResult()
	defer out.Write()
	seed := vh.Seed()
	u := newUniverse("U", seed)
	obs := map[string]any{}
	// ---- rounds recorded for TLC (MempoolSeqTrace.tla): always-valid transactions, Max = 8
	if in.Out != "" && in.OnlyRound == 0 {
		uV := newUniverse("V", seed)
		var all []string
		var rounds []map[string]int
		for r := 0; r < in.TraceRounds; r++ {
			rng := mrand.New(mrand.NewSource(seed*15485863 + int64(r)))
			kind := []string{"clean", "txerr", "fatal"}[r%3]
			lg := &tlog{}
			lg.ev(map[string]any{"ev": "Reset"})
			key, what, observed := seqRound(uV, []string{"memory", "pebblev2"}[r%2], r%4 < 2, kind, rng, map[string]any{}, lg)
			if key != "" {
				out.Diverge(vh.Divergence{Key: key, What: fmt.Sprintf("%s [trace round %d, %s]", what, r, kind), Input: in, Step: r, Observed: observed})
				continue
			}
			first := len(all) + 1
			all = append(all, lg.lines...)
			rounds = append(rounds, map[string]int{"first": first, "last": len(all), "round": r})
		}
		if err := os.WriteFile(in.Out, []byte(strings.Join(all, "\n")+"\n"), 0o644); err != nil {
			t.Fatal(err)
		}
		out.Stats["rounds"] = rounds
		out.Count("sequencer_trace_events", len(all))
	}
	for r := 1; r <= in.Rounds; r++ {
		if in.OnlyRound != 0 && r != in.OnlyRound {
			continue
		}
		rng := mrand.New(mrand.NewSource(seed*104729 + int64(r)))
		kind := []string{"clean", "txerr", "fatal", "clean", "txerr"}[r%5]
		be := "memory"
		if r%4 == 0 {
			be = "pebblev2"
		}
		key, what, observed := seqRound(u, be, r%2 == 1, kind, rng, obs, nil)
		if key != "" {
			rep := in
			rep.OnlyRound = r
			out.Diverge(vh.Divergence{Key: key, What: fmt.Sprintf("%s [round %d, %s, %s]", what, r, kind, be), Input: rep, Step: r, Observed: observed})
			break
		}
		out.Done(1, 0)
		out.Count("sequencer_rounds_"+kind, 1)
	}
	out.Stats["observations"] = obs
}

func seqRound(u *universe, be string, newState bool, kind string, rng *mrand.Rand, obs map[string]any, lg *tlog) (string, string, any) {
	max := 6 + rng.Intn(20)
	if lg != nil {
		max = 8 // Max of MempoolSeqTrace.cfg
	}
	s, err := newSUT(u, be, newState, max, 2, false, false)
	if err != nil {
		return "mempool-seq:setup", err.Error(), nil
	}
	defer s.closeAll()
	var seq atomic.Int64
	total := 10 + rng.Intn(25)
	if lg != nil {
		total = 8 + rng.Intn(8)
	}
	badBatch := 1 + rng.Intn(3)
	ex := &scriptExec{lg: lg, u: u, g: chainkit.NewGen(rng.Int63()), bc: s.node.BC, seq: &seq, rng: mrand.New(mrand.NewSource(rng.Int63()))}
	ex.script = func(b int, ids []int) string {
		switch {
		case kind == "txerr" && (b == badBatch || b == badBatch+2):
			return "txerr"
		case kind == "fatal" && b == badBatch:
			return "fatal"
		}
		return "ok"
	}
	bld := builder.New(s.node.BC, ex)
	priv, err := ecdsa.GenerateKey(rand.Reader)
	if err != nil {
		return "mempool-seq:setup", err.Error(), nil
	}
	sq := sequencer.New(&bld, s.pool, chainkit.F(0x5e9), priv, 15*time.Millisecond, s.logger.ZapLogger)
	heads := sq.SubscribeNewHeads()
	defer heads.Unsubscribe()
	ctx, cancel := context.WithCancel(context.Background())
	defer cancel()
	runErr := make(chan error, 1)
	pool := s.pool
	// a third of the rounds: some transactions are already waiting when the sequencer starts
	perm := rng.Perm(len(u.txs))
	ids := make([]int, total)
	for i := range ids {
		ids[i] = perm[i] + 1
	}
	var mu sync.Mutex
	var pushes []pushRec
	push := func(p, id int) {
		if lg != nil {
			lg.ev(map[string]any{"ev": "PushS", "p": p, "t": id})
		}
		rec := pushRec{p: p, t: id, start: seq.Add(1)}
		func() {
			defer func() {
				if x := recover(); x != nil {
					rec.out = fmt.Sprintf("panic: %v", x)
				}
			}()
			rec.out = classify(pool.Push(context.Background(), u.fresh(id)))
		}()
		rec.end = seq.Add(1)
		if lg != nil {
			lg.ev(map[string]any{"ev": "PushE", "p": p, "out": rec.out})
		}
		mu.Lock()
		pushes = append(pushes, rec)
		mu.Unlock()
	}
	pre := 0
	if rng.Intn(3) == 0 {
		pre = 1 + rng.Intn(min(3, max-2))
		for i := 0; i < pre; i++ {
			push(1, ids[i])
		}
	}
	go func() { runErr <- sq.Run(ctx) }()
	runDone := false
	defer func() {
		// Run closes the pool itself (deferred Close): wait for it, and never close it a second time
		cancel()
		if !runDone {
			select {
			case <-runErr:
			case <-time.After(10 * time.Second):
			}
		}
		s.pool = nil
	}()
	var wg sync.WaitGroup
	half := pre + (total-pre)/2
	for p, part := range [][]int{ids[pre:half], ids[half:]} {
		wg.Add(1)
		go func(p int, part []int, pr *mrand.Rand) {
			defer wg.Done()
			for _, id := range part {
				push(p+1, id)
				time.Sleep(time.Duration(pr.Intn(2500)) * time.Microsecond)
			}
		}(p, part, mrand.New(mrand.NewSource(rng.Int63())))
	}
	wg.Wait()
	accepted := map[int]pushRec{}
	var order []int
	for _, p := range pushes {
		switch p.out {
		case "ok":
			accepted[p.t] = p
			order = append(order, p.t)
		case "full", "nonce":
		default:
			return "mempool-seq:push-result", fmt.Sprintf("Push(%d) = %s", p.t, p.out), nil
		}
	}
	executed := func() (int, bool) {
		ex.mu.Lock()
		defer ex.mu.Unlock()
		n, dead := 0, false
		for i, b := range ex.batches {
			n += len(b)
			dead = dead || ex.outcomes[i] == "fatal"
		}
		return n, dead
	}
	// everything accepted must reach the executor without any further Push (no lost wake-up)
	deadline := time.Now().Add(10 * time.Second)
	for {
		n, dead := executed()
		if n >= len(accepted) || dead {
			break
		}
		if time.Now().After(deadline) {
			return "mempool-seq:lost-wakeup", fmt.Sprintf("%d of %d accepted transactions reached the executor; %d stay in the pool while the listener sleeps",
				n, len(accepted), pool.Len()), nil
		}
		time.Sleep(time.Millisecond)
	}
	_, dead := executed()
	if dead {
		// the listener is gone for good; the sequencer goes on sealing blocks
		h0, _ := s.node.BC.Height()
		n0, _ := executed()
		extra := 0
		for i := total; i < len(perm) && extra < 3; i++ {
			push(1, perm[i]+1)
			mu.Lock()
			o := pushes[len(pushes)-1].out
			mu.Unlock()
			if o == "ok" {
				extra++
			} else if o != "full" && o != "nonce" {
				return "mempool-seq:push-result", "Push after the listener died = " + o, nil
			} else {
				break
			}
		}
		time.Sleep(120 * time.Millisecond)
		h1, _ := s.node.BC.Height()
		n1, _ := executed()
		if n1 != n0 {
			return "mempool-seq:listener-after-fatal", "the listener handed over transactions after a fatal executor error", nil
		}
		obs["listener-dies"] = fmt.Sprintf("after one non-VM error of RunTxns the listener goroutine ends: %d blocks were sealed afterwards, %d transactions stay in the pool for ever (Len=%d), "+
			"Run keeps going and reports nothing", h1-h0, pool.Len(), pool.Len())
	}
	// let two more blocks be sealed so that everything executed is in a stored block
	hStart, _ := s.node.BC.Height()
	deadline = time.Now().Add(10 * time.Second)
	for {
		h, _ := s.node.BC.Height()
		if h >= hStart+2 {
			break
		}
		if time.Now().After(deadline) {
			return "mempool-seq:no-blocks", "the sequencer stopped sealing blocks", nil
		}
		time.Sleep(2 * time.Millisecond)
	}
	cancel()
	select {
	case err := <-runErr:
		runDone = true
		if err != nil {
			return "mempool-seq:run-error", "Run returned " + err.Error(), nil
		}
	case <-time.After(10 * time.Second):
		return "mempool-seq:shutdown-hangs", "Run did not return after cancellation", nil
	}
	if ex.bad != "" {
		return "mempool-seq:bad-transaction", ex.bad, nil
	}
	// ---- what the executor saw: exactly once, FIFO, batches of 1..NumTxnsToBatchExecute
	var flat, flatOK []int
	for i, b := range ex.batches {
		if len(b) < 1 || len(b) > sequencer.NumTxnsToBatchExecute {
			return "mempool-seq:batch-size", fmt.Sprintf("RunTxns got a batch of %d", len(b)), ex.batches
		}
		flat = append(flat, b...)
		if ex.outcomes[i] == "ok" {
			flatOK = append(flatOK, b...)
		}
	}
	seen := map[int]int{}
	for _, id := range flat {
		seen[id]++
		if _, ok := accepted[id]; !ok && !dead {
			return "mempool-seq:exactly-once", fmt.Sprintf("transaction %d reached the executor but its Push did not return nil", id), ex.batches
		}
	}
	for id := range accepted {
		if seen[id] > 1 || (seen[id] == 0 && !dead) {
			return "mempool-seq:exactly-once", fmt.Sprintf("accepted transaction %d reached the executor %d times", id, seen[id]), ex.batches
		}
	}
	for i := 0; i < len(flat); i++ {
		for j := i + 1; j < len(flat); j++ {
			a, aok := accepted[flat[i]]
			b, bok := accepted[flat[j]]
			if aok && bok && b.end < a.start {
				return "mempool-seq:fifo", fmt.Sprintf("%d was executed before %d although Push(%d) had returned before Push(%d) started", flat[i], flat[j], flat[j], flat[i]), ex.batches
			}
		}
	}
	// ---- what the chain holds: exactly the successfully executed transactions, once, in order
	var inBlocks []int
	h, _ := s.node.BC.Height()
	for n := uint64(1); n <= h; n++ {
		b, err := s.node.BC.BlockByNumber(n)
		if err != nil {
			return "mempool-seq:block", fmt.Sprintf("block %d: %v", n, err), nil
		}
		for _, tx := range b.Transactions {
			inBlocks = append(inBlocks, u.id(tx.Hash()))
		}
		if int(b.TransactionCount) != len(b.Transactions) || len(b.Receipts) != len(b.Transactions) {
			return "mempool-seq:block", fmt.Sprintf("block %d: count %d, %d transactions, %d receipts", n, b.TransactionCount, len(b.Transactions), len(b.Receipts)), nil
		}
	}
	if !eqInts(inBlocks, flatOK) {
		return "mempool-seq:blocks", fmt.Sprintf("the sealed blocks hold %v, the executor accepted %v", inBlocks, flatOK), nil
	}
	// ---- Run's deferred Close persisted everything that was accepted
	img := s.projectDB()
	s.pool = nil
	if why := consistent(img); why != "" {
		return "mempool-seq:list", "persistent list after shutdown: " + why, img
	}
	in := map[int]bool{}
	for _, id := range img.Walk {
		in[id] = true
	}
	var missing []int
	for _, id := range order {
		if !in[id] {
			missing = append(missing, id)
		}
	}
	full := 0
	for _, m := range s.logger.take() {
		if strings.Contains(m, "database is full") {
			full++
		}
	}
	if len(missing) > full {
		return "mempool-overflow:sequencer-drop", fmt.Sprintf("accepted transactions %v are not in the persistent list after the sequencer shut down, but only %d were reported "+
			"(logged) as not persisted: a transaction waiting in the write channel was thrown away", missing, full), img
	}
	obs["blocks"] = fmt.Sprintf("last round: %d transactions in %d sealed blocks", len(inBlocks), h)
	return "", "", nil
}

// Engine "mempool" (specification growth G09): binds spec/mempool/Mempool.tla to the real
// mempool.SequencerMempool over a real database and a real Blockchain (head state for the nonce
// checks), to the sequencer's listener (sequencer.Sequencer over a scripted builder.Executor — the
// VM cannot run here) and to the RPC add-transaction path.
package mempool

import (
	"bytes"
	"errors"
	"fmt"
	"math/rand"
	"reflect"
	"runtime"
	"strings"
	"sync"
	"sync/atomic"
	"time"

	"github.com/NethermindEth/juno/core"
	"github.com/NethermindEth/juno/core/felt"
	"github.com/NethermindEth/juno/db"
	"github.com/NethermindEth/juno/db/memory"
	"github.com/NethermindEth/juno/db/pebblev2"
	_ "github.com/NethermindEth/juno/encoder/registry"
	"github.com/NethermindEth/juno/mempool"
	"github.com/NethermindEth/juno/utils/log"
	pebv2 "github.com/cockroachdb/pebble/v2"
	vfsv2 "github.com/cockroachdb/pebble/v2/vfs"
	"go.uber.org/zap"

	"verifharness/internal/chainkit"
	"verifharness/internal/faultkv"
)

// ------------------------------------------------------------------ the transaction alphabet

// txSpec mirrors the tables of spec/mempool/MCMempool.tla (KindF / SenderF / NonceF and the small
// tables): id = index + 1. A mismatch shows as a divergence on the unchanged tree at once.
type txSpec struct {
	Kind   string
	Sender int // account 1..n, 0 = an address nothing is deployed at
	Nonce  uint64
}

var alphabets = map[string][]txSpec{
	"F": {
		{"invoke", 1, 0}, {"invoke", 1, 1}, {"invoke", 2, 0}, {"declare", 2, 2}, {"deployacc", 0, 0}, {"l1handler", 0, 0},
		{"deploy", 0, 0}, {"invoke0", 0, 0}, {"deployacc", 0, 1}, {"invoke", 0, 0},
	},
	"S": {{"invoke", 1, 0}, {"invoke", 1, 1}, {"l1handler", 0, 0}, {"declare", 2, 0}},
	"L": {{"l1handler", 0, 0}, {"l1handler", 0, 0}, {"l1handler", 0, 0}, {"l1handler", 0, 0}, {"l1handler", 0, 0}, {"l1handler", 0, 0},
		{"l1handler", 0, 0}, {"l1handler", 0, 0}, {"l1handler", 0, 0}, {"l1handler", 0, 0}, {"l1handler", 0, 0}, {"l1handler", 0, 0}},
}

func init() {
	// "U": 96 valid transactions, each pushed at most once per round (monitored concurrent rounds)
	var u []txSpec
	for i := 0; i < 96; i++ {
		switch i % 4 {
		case 0:
			u = append(u, txSpec{"l1handler", 0, 0})
		case 1:
			u = append(u, txSpec{"invoke", 1, uint64(i)})
		case 2:
			u = append(u, txSpec{"invoke", 2, uint64(i % 7)})
		default:
			u = append(u, txSpec{"deployacc", 0, 0})
		}
	}
	alphabets["U"] = u
	// "V": 48 transactions that are valid whatever the head state is (KindV of MCMempool.tla)
	var v []txSpec
	for i := 1; i <= 48; i++ {
		if i%2 == 1 {
			v = append(v, txSpec{"l1handler", 0, 0})
		} else {
			v = append(v, txSpec{"deployacc", 0, 0})
		}
	}
	alphabets["V"] = v
	// "G" (gossip rounds): v3 invoke of account 1 | deploy-account | v3 invoke from an address nothing is deployed at (refused) | L1 handler
	var g []txSpec
	for i := 0; i < 32; i++ {
		switch i % 4 {
		case 0:
			g = append(g, txSpec{"invoke", 1, uint64(i)})
		case 1:
			g = append(g, txSpec{"deployacc", 0, 0})
		case 2:
			g = append(g, txSpec{"invoke", 0, 0})
		default:
			g = append(g, txSpec{"l1handler", 0, 0})
		}
	}
	alphabets["G"] = g
}

func accountAddr(a int) *felt.Felt {
	if a == 0 {
		return chainkit.F(0x999)
	}
	return chainkit.F(uint64(0x100 * a))
}

func ver(v uint64) *core.TransactionVersion { return new(core.TransactionVersion).SetUint64(v) }

type universe struct {
	specs  []txSpec
	txs    []*mempool.BroadcastedTransaction // index = id-1
	byHash map[felt.Felt]int
}

func bounds(r *rand.Rand) map[core.Resource]core.ResourceBounds {
	return map[core.Resource]core.ResourceBounds{
		core.ResourceL1Gas:     {MaxAmount: uint64(r.Intn(1000)), MaxPricePerUnit: chainkit.F(uint64(r.Intn(1000)))},
		core.ResourceL2Gas:     {MaxAmount: uint64(r.Intn(1000)), MaxPricePerUnit: chainkit.F(uint64(r.Intn(1000)))},
		core.ResourceL1DataGas: {MaxAmount: uint64(r.Intn(1000)), MaxPricePerUnit: chainkit.F(uint64(r.Intn(1000)))},
	}
}

// newUniverse builds one fully populated broadcast transaction per alphabet entry (seeded).
func newUniverse(name string, seed int64) *universe {
	specs := alphabets[name]
	g := chainkit.NewGen(seed)
	u := &universe{specs: specs, byHash: map[felt.Felt]int{}}
	for i, s := range specs {
		var tx core.Transaction
		b := &mempool.BroadcastedTransaction{}
		sender, nonce := accountAddr(s.Sender), chainkit.F(s.Nonce)
		switch s.Kind {
		case "invoke":
			if i%2 == 0 {
				tx = &core.InvokeTransaction{Version: ver(3), SenderAddress: sender, Nonce: nonce, CallData: g.Felts(1 + g.R.Intn(3)),
					TransactionSignature: g.Felts(2), ResourceBounds: bounds(g.R), Tip: uint64(g.R.Intn(9)), PaymasterData: g.Felts(0),
					AccountDeploymentData: g.Felts(0)}
			} else {
				tx = &core.InvokeTransaction{Version: ver(1), SenderAddress: sender, Nonce: nonce, CallData: g.Felts(1 + g.R.Intn(3)),
					TransactionSignature: g.Felts(2), MaxFee: g.Felt()}
				b.Proof = core.Base64("cHJvb2Y=")
			}
		case "invoke0":
			tx = &core.InvokeTransaction{Version: ver(0), ContractAddress: g.Felt(), EntryPointSelector: g.Felt(), CallData: g.Felts(2),
				TransactionSignature: g.Felts(2), MaxFee: g.Felt()}
		case "declare":
			h, c1, _, cls := g.SierraClass()
			tx = &core.DeclareTransaction{Version: ver(3), ClassHash: &h, SenderAddress: sender, Nonce: nonce, TransactionSignature: g.Felts(2),
				CompiledClassHash: &c1, ResourceBounds: bounds(g.R), Tip: 1, PaymasterData: g.Felts(0), AccountDeploymentData: g.Felts(0)}
			b.DeclaredClass = cls
		case "deployacc":
			classHash, salt, cd := g.Felt(), g.Felt(), g.Felts(1)
			addr := core.ContractAddress(&felt.Zero, classHash, salt, cd)
			tx = &core.DeployAccountTransaction{DeployTransaction: core.DeployTransaction{Version: ver(3), ContractAddressSalt: salt,
				ContractAddress: &addr, ClassHash: classHash, ConstructorCallData: cd}, TransactionSignature: g.Felts(2), Nonce: nonce,
				ResourceBounds: bounds(g.R), PaymasterData: g.Felts(0)}
		case "l1handler":
			tx = &core.L1HandlerTransaction{Version: ver(0), ContractAddress: g.Felt(), EntryPointSelector: g.Felt(), Nonce: g.Felt(),
				CallData: g.Felts(2)}
			b.PaidFeeOnL1 = g.Felt()
		case "deploy":
			tx = &core.DeployTransaction{Version: ver(0), ContractAddressSalt: g.Felt(), ContractAddress: g.Felt(), ClassHash: g.Felt(),
				ConstructorCallData: g.Felts(1), TransactionHash: g.Felt()}
		default:
			panic("unknown kind " + s.Kind)
		}
		h, err := core.TransactionHash(tx, chainkit.Network)
		if err != nil {
			panic(err)
		}
		chainkit.SetTxHash(tx, &h)
		b.Transaction = tx
		u.txs = append(u.txs, b)
		if _, dup := u.byHash[h]; dup {
			panic("hash collision in the universe")
		}
		u.byHash[h] = i + 1
	}
	return u
}

func (u *universe) id(h *felt.Felt) int {
	if h == nil {
		return 0
	}
	if id, ok := u.byHash[*h]; ok {
		return id
	}
	return -2 // a hash that is not in the universe
}

// fresh returns a copy of the broadcast transaction (the pool keeps what it is given).
func (u *universe) fresh(id int) *mempool.BroadcastedTransaction {
	b := *u.txs[id-1]
	return &b
}

// same reports whether a transaction handed out by the pool (or read from its store) is the
// transaction id, completely: same hash, every hashed field intact (the hash recomputed from the
// fields is the hash), same signature, class, L1 fee and proof.
func (u *universe) same(id int, got *mempool.BroadcastedTransaction) string {
	want := u.txs[id-1]
	if got.Transaction == nil {
		return "nil transaction"
	}
	if got.Transaction.Hash() == nil || !got.Transaction.Hash().Equal(want.Transaction.Hash()) {
		return "hash differs"
	}
	if reflect.TypeOf(got.Transaction) != reflect.TypeOf(want.Transaction) {
		return fmt.Sprintf("type %T instead of %T", got.Transaction, want.Transaction)
	}
	if _, legacy := want.Transaction.(*core.DeployTransaction); !legacy {
		h, err := core.TransactionHash(got.Transaction, chainkit.Network)
		if err != nil || !h.Equal(want.Transaction.Hash()) {
			return fmt.Sprintf("a hashed field changed: hash of the fields is %s (%v)", &h, err)
		}
	}
	if !reflect.DeepEqual(feltsOf(got.Transaction.Signature()), feltsOf(want.Transaction.Signature())) {
		return "signature differs"
	}
	if (got.PaidFeeOnL1 == nil) != (want.PaidFeeOnL1 == nil) || (got.PaidFeeOnL1 != nil && !got.PaidFeeOnL1.Equal(want.PaidFeeOnL1)) {
		return "PaidFeeOnL1 differs"
	}
	if string(got.Proof) != string(want.Proof) {
		return "proof differs"
	}
	if (got.DeclaredClass == nil) != (want.DeclaredClass == nil) {
		return "declared class presence differs"
	}
	if want.DeclaredClass != nil {
		gh, err1 := got.DeclaredClass.Hash()
		wh, err2 := want.DeclaredClass.Hash()
		if err1 != nil || err2 != nil || !gh.Equal(&wh) {
			return "declared class differs"
		}
	}
	return ""
}

func feltsOf(fs []felt.Felt) []string {
	out := make([]string, len(fs))
	for i := range fs {
		out[i] = fs[i].String()
	}
	return out
}

// ------------------------------------------------------------------ logger that reports the writer's outcome

type capLogger struct {
	*log.ZapLogger
	mu   sync.Mutex
	errs []string
	hook func(msg string)
}

func newCapLogger() *capLogger { return &capLogger{ZapLogger: log.NewNopZapLogger()} }

func (l *capLogger) Error(msg string, fields ...zap.Field) {
	l.mu.Lock()
	l.errs = append(l.errs, msg)
	h := l.hook
	l.mu.Unlock()
	if h != nil {
		h(msg)
	}
}

func (l *capLogger) take() []string {
	l.mu.Lock()
	defer l.mu.Unlock()
	e := l.errs
	l.errs = nil
	return e
}

const writerErrMsg = "error in handling user transaction in persistent mempool"

// ------------------------------------------------------------------ the gate: scheduler of the writer goroutine

var errDead = errors.New("gate: the process is gone")

// gate wraps the pool's store. writeToDB opens its batch with NewBatch(): in stepping mode that
// call blocks (the writer has taken a transaction from the channel and holds it) until the harness
// grants one write. A dead gate fails everything (the old process after a crash).
type gate struct {
	db.KeyValueStore
	stepping atomic.Bool
	dead     atomic.Bool
	permit   chan struct{}
	done     chan error // completion of one writeToDB: nil (batch written) or the logged error
	delay    func()     // free-running mode: called before every batch (stalls the writer)
}

func newGate(inner db.KeyValueStore, stepping bool) *gate {
	g := &gate{KeyValueStore: inner, permit: make(chan struct{}, 1024), done: make(chan error, 1024)}
	g.stepping.Store(stepping)
	return g
}

type gbatch struct {
	db.Batch
	g *gate
}

func (b *gbatch) Write() error {
	if b.g.dead.Load() {
		return errDead
	}
	err := b.Batch.Write()
	if err == nil && b.g.stepping.Load() {
		b.g.done <- nil
	}
	return err
}

func (g *gate) NewBatch() db.Batch {
	if g.stepping.Load() && !g.dead.Load() {
		<-g.permit // the harness sees the writer waiting here (writerStates)
	} else if d := g.delay; d != nil && !g.dead.Load() {
		d()
	}
	return &gbatch{Batch: g.KeyValueStore.NewBatch(), g: g}
}

// Get lends the callback a private copy of the value and scribbles over it afterwards: whatever
// the pool keeps from a read (LoadFromDB) must not alias the store's buffer.
func (g *gate) Get(k []byte, cb func([]byte) error) error {
	if g.dead.Load() {
		return errDead
	}
	return g.KeyValueStore.Get(k, func(v []byte) error {
		lent := bytes.Clone(v)
		err := cb(lent)
		for i := range lent {
			lent[i] = 0xA5
		}
		return err
	})
}

func (g *gate) Has(k []byte) (bool, error) {
	if g.dead.Load() {
		return false, errDead
	}
	return g.KeyValueStore.Has(k)
}

// kill makes the gate dead and lets a blocked writer run into the wall.
func (g *gate) kill() {
	g.dead.Store(true)
	for i := 0; i < 64; i++ {
		select {
		case g.permit <- struct{}{}:
		default:
		}
	}
}

// ------------------------------------------------------------------ backends

type backend struct {
	name   string
	opener func() (db.KeyValueStore, error) // opens (or re-opens) ONE database
	real   bool                             // closing and opening again is a real restart
}

func newBackend(name string) backend {
	switch name {
	case "pebblev2":
		fs := vfsv2.NewMem()
		return backend{name: name, real: true, opener: func() (db.KeyValueStore, error) {
			return pebblev2.New("verif-mempool", func(o *pebv2.Options) error { o.FS = fs; return nil })
		}}
	default:
		var store db.KeyValueStore
		return backend{name: "memory", opener: func() (db.KeyValueStore, error) {
			if store == nil {
				store = memory.New()
			}
			return store, nil
		}}
	}
}

// ------------------------------------------------------------------ the system under test

type sut struct {
	u        *universe
	be       backend
	newState bool
	max      int
	naccs    int
	raw      db.KeyValueStore
	node     *chainkit.Node
	fk       *faultkv.Store
	gate     *gate
	logger   *capLogger
	pool     *mempool.SequencerMempool
	holding  bool // the writer goroutine waits at the gate with a transaction in its hand
	stepping bool
	hn       []uint64
	class    felt.Felt
	classDef core.ClassDefinition
}

func newSUT(u *universe, beName string, newState bool, max, naccs int, startEmpty, stepping bool) (*sut, error) {
	s := &sut{u: u, be: newBackend(beName), newState: newState, max: max, naccs: naccs, stepping: stepping, hn: make([]uint64, naccs)}
	raw, err := s.be.opener()
	if err != nil {
		return nil, err
	}
	s.raw = raw
	s.node = chainkit.NewNode(raw, newState)
	g := chainkit.NewGen(99)
	s.class, s.classDef = g.Cairo0Class()
	if !startEmpty {
		if err := s.genesis(); err != nil {
			return nil, err
		}
	}
	s.open()
	return s, nil
}

// genesis stores the first block: it declares one class and deploys the accounts with nonce 0.
func (s *sut) genesis() error {
	d := chainkit.EmptyDiff()
	d.DeclaredV0Classes = append(d.DeclaredV0Classes, &s.class)
	for a := 1; a <= s.naccs; a++ {
		d.DeployedContracts[*accountAddr(a)] = &s.class
		d.Nonces[*accountAddr(a)] = chainkit.F(0)
	}
	_, err := s.node.Append(chainkit.BlockSpec{Diff: d, Classes: map[felt.Felt]core.ClassDefinition{s.class: s.classDef}})
	return err
}

// storeBlock: the chain advances; account a's nonce moves by one (the first block is the genesis).
func (s *sut) storeBlock(a int) error {
	if _, err := s.node.BC.HeadsHeader(); err != nil {
		return s.genesis()
	}
	s.hn[a-1]++
	d := chainkit.EmptyDiff()
	d.Nonces[*accountAddr(a)] = chainkit.F(s.hn[a-1])
	_, err := s.node.Append(chainkit.BlockSpec{Diff: d})
	return err
}

// open creates a new pool object (mempool.New) on the current store.
func (s *sut) open() {
	s.fk = faultkv.Wrap(s.raw)
	s.gate = newGate(s.fk, s.stepping)
	s.logger = newCapLogger()
	g := s.gate
	s.logger.hook = func(msg string) {
		if msg == writerErrMsg && g.stepping.Load() && !g.dead.Load() {
			g.done <- errors.New(msg)
		}
	}
	s.pool = mempool.New(s.gate, s.node.BC, s.max, s.logger)
	s.holding = false
}

// abandon: the process is gone. Nothing of the old pool may reach the database any more.
func (s *sut) abandon() {
	if s.pool == nil {
		return
	}
	s.gate.kill()
	p := s.pool
	s.pool = nil
	s.holding = false
	go func() {
		defer func() { _ = recover() }() // Close of an already closed pool panics
		p.Close()
	}()
	awaitNoWriter(stepTimeout)
}

// restart closes and opens the database again where that is a real restart.
func (s *sut) restartStore() error {
	if !s.be.real {
		return nil
	}
	if err := s.raw.Close(); err != nil {
		return err
	}
	raw, err := s.be.opener()
	if err != nil {
		return err
	}
	s.raw = raw
	s.node = chainkit.NewNode(raw, s.newState)
	return nil
}

func (s *sut) closeAll() {
	s.abandon()
	time.Sleep(time.Millisecond)
	if s.be.real {
		_ = s.raw.Close()
	}
}

// writerStates looks at the goroutines of the process: a pool's writer goroutine (dbWriter) is
// either waiting at the gate with a transaction in its hand, or waiting on the empty write channel,
// or busy. This is how the harness knows that the pool has come to rest, whatever the code did.
func writerStates() (gated, idle, busy int) {
	buf := make([]byte, 1<<20)
	for {
		n := runtime.Stack(buf, true)
		if n < len(buf) {
			buf = buf[:n]
			break
		}
		buf = make([]byte, 2*len(buf))
	}
	for _, blk := range strings.Split(string(buf), "\n\n") {
		if !strings.Contains(blk, "mempool.(*SequencerMempool).dbWriter") {
			continue
		}
		head, _, _ := strings.Cut(blk, "\n")
		switch {
		case strings.Contains(blk, "engines/mempool.(*gate).NewBatch") && strings.Contains(head, "[chan receive"):
			gated++
		case strings.Contains(head, "[chan receive") && !strings.Contains(blk, "writeToDB"):
			idle++
		default:
			busy++
		}
	}
	return
}

// settle waits until no writer goroutine is busy; it reports whether one holds a transaction at the gate.
func settle(d time.Duration) bool {
	deadline := time.Now().Add(d)
	for {
		gated, _, busy := writerStates()
		if busy == 0 || time.Now().After(deadline) {
			return gated > 0
		}
		time.Sleep(20 * time.Microsecond)
	}
}

// awaitNoWriter waits until the writer goroutines of abandoned pools are gone.
func awaitNoWriter(d time.Duration) {
	deadline := time.Now().Add(d)
	for {
		gated, idle, busy := writerStates()
		if gated+idle+busy == 0 || time.Now().After(deadline) {
			return
		}
		time.Sleep(50 * time.Microsecond)
	}
}

// awaitArrival brings the pool to rest and reports whether the writer goroutine stands at the gate.
func (s *sut) awaitArrival(d time.Duration) bool {
	s.holding = settle(d)
	return s.holding
}

func (s *sut) pollArrival() { s.holding = settle(stepTimeout) }

// ------------------------------------------------------------------ projection of the persistent list

type dbProj struct {
	H    int   `json:"h"`
	T    int   `json:"t"`
	L    int   `json:"l"`
	N    []int `json:"n"` // per id: -1 absent, 0 last, else next id
	Walk []int `json:"walk"`
	Bad  string
}

func (s *sut) projectDB() dbProj {
	p := dbProj{N: make([]int, len(s.u.txs))}
	r := s.raw
	if h, err := mempool.GetHeadValue(r); err == nil {
		p.H = s.u.id(&h)
	} else if !errors.Is(err, db.ErrKeyNotFound) {
		p.Bad = "head: " + err.Error()
	}
	if t, err := mempool.GetTailValue(r); err == nil {
		p.T = s.u.id(&t)
	} else if !errors.Is(err, db.ErrKeyNotFound) {
		p.Bad = "tail: " + err.Error()
	}
	l, err := mempool.GetLenDB(r)
	if err != nil {
		p.Bad = "len: " + err.Error()
	}
	p.L = l
	for i := range p.N {
		p.N[i] = -1
	}
	// every node record in the bucket must belong to the universe and hold the transaction it is keyed by
	it, err := r.NewIterator(db.MempoolNode.Key(), true)
	if err != nil {
		p.Bad = "iterator: " + err.Error()
		return p
	}
	var keys [][]byte
	for ok := it.First(); ok; ok = it.Next() {
		keys = append(keys, bytes.Clone(it.Key()))
	}
	_ = it.Close()
	prefix := len(db.MempoolNode.Key())
	for _, k := range keys {
		h := new(felt.Felt).SetBytes(k[prefix:])
		id := s.u.id(h)
		if id <= 0 {
			p.Bad = fmt.Sprintf("node keyed by a hash that was never pushed: %s", h)
			continue
		}
		e, err := mempool.GetTxn(r, h)
		if err != nil {
			p.Bad = fmt.Sprintf("node %d unreadable: %v", id, err)
			continue
		}
		if why := s.u.same(id, &e.Txn); why != "" {
			p.Bad = fmt.Sprintf("node %d: %s", id, why)
		}
		p.N[id-1] = s.u.id(e.NextHash)
	}
	// the walk LoadFromDB would do, cut after NTx steps
	x, k := p.H, len(s.u.txs)
	p.Walk = []int{}
	for x != 0 {
		if k == 0 || x < 0 || p.N[x-1] == -1 {
			p.Walk = append(p.Walk, -1)
			break
		}
		p.Walk = append(p.Walk, x)
		x = p.N[x-1]
		k--
	}
	return p
}

func walkLoops(w []int) bool { return len(w) > 0 && w[len(w)-1] == -1 }

// ------------------------------------------------------------------ Push outcome classes

func classify(err error) string {
	switch {
	case err == nil:
		return "ok"
	case errors.Is(err, mempool.ErrTxnPoolFull):
		return "full"
	}
	m := err.Error()
	switch {
	case strings.Contains(m, "not supported"):
		return "unsupported"
	case strings.Contains(m, "non-zero nonce"), strings.Contains(m, "existing nonce"):
		return "nonce"
	case strings.Contains(m, "error when retrieving nonce"):
		return "nostate"
	case strings.Contains(m, "duplicate"), strings.Contains(m, "already"):
		return "dup"
	case strings.Contains(m, "pool is full"):
		return "full"
	case errors.Is(err, db.ErrKeyNotFound), strings.Contains(m, "key not found"):
		return "nohead"
	}
	return "other: " + m
}

func idsOf(u *universe, txs []mempool.BroadcastedTransaction) ([]int, string) {
	out := make([]int, len(txs))
	why := ""
	for i := range txs {
		if txs[i].Transaction == nil {
			out[i] = -2
			why = "nil transaction handed out"
			continue
		}
		out[i] = u.id(txs[i].Transaction.Hash())
		if out[i] > 0 {
			if w := u.same(out[i], &txs[i]); w != "" {
				why = fmt.Sprintf("tx %d: %s", out[i], w)
			}
		}
	}
	return out, why
}

func eqInts(a, b []int) bool { return (len(a) == 0 && len(b) == 0) || reflect.DeepEqual(a, b) }

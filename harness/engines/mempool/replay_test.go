package mempool

import (
	"context"
	"encoding/json"
	"errors"
	"fmt"
	"strings"
	"testing"
	"time"

	"github.com/NethermindEth/juno/db"
	"github.com/NethermindEth/juno/mempool"

	"verifharness/internal/faultkv"
	"verifharness/internal/vh"
)

type label struct {
	Name string `json:"name"`
	T    int    `json:"t"`
	N    int    `json:"n"`
	O    string `json:"o"`
}

type resT struct {
	Kind string `json:"kind"`
	Txs  []int  `json:"txs,omitempty"`
}

type proj struct {
	St     string `json:"st"`
	Len    int    `json:"len"`
	Mem    []int  `json:"mem"`
	Hold   int    `json:"hold"`
	Wq     []int  `json:"wq"`
	H      int    `json:"h"`
	T      int    `json:"t"`
	L      int    `json:"l"`
	N      []int  `json:"n"`
	Walk   []int  `json:"walk"`
	Token  int    `json:"token"`
	Out    string `json:"out"`
	Res    resT   `json:"res"`
	Height int    `json:"height"`
	Hn     []int  `json:"hn"`
}

type step struct {
	A   label `json:"a"`
	Pre proj  `json:"pre"`
}

type replayInput struct {
	Behaviours [][]step `json:"behaviours"`
	Alphabet   string   `json:"alphabet"`
	Max        int      `json:"max"`
	NAccs      int      `json:"naccs"`
	StartEmpty bool     `json:"start_empty"`
	Shapes     []string `json:"shapes"` // "memory/legacy", "pebblev2/newstate", ...
	RPC        bool     `json:"rpc"`    // route a share of the pushes through the RPC handlers
	First      int      `json:"first"`  // index of the first behaviour (keeps shapes stable in replays)
}

const stepTimeout = 5 * time.Second

// observed mirrors proj for what the real objects show.
type observed struct {
	St     string `json:"st"`
	Len    int    `json:"len"`
	Hold   bool   `json:"hold"`
	H      int    `json:"h"`
	T      int    `json:"t"`
	L      int    `json:"l"`
	N      []int  `json:"n"`
	Walk   []int  `json:"walk"`
	Token  int    `json:"token"`
	Out    string `json:"out"`
	Res    resT   `json:"res"`
	Height int    `json:"height"`
	Hn     []int  `json:"hn"`
	Bad    string `json:"bad,omitempty"`
	LenDB  int    `json:"len_db"`
}

type replayer struct {
	s    *sut
	kept []mempool.BroadcastedTransaction // everything the pool handed out: must stay what it was
	st   string
	out  string
	res  resT
	rpc  *rpcPath
	nrpc int
}

func (r *replayer) observe(expectHold bool) observed {
	s := r.s
	o := observed{St: r.st, Out: r.out, Res: r.res}
	if s.pool != nil {
		if expectHold {
			s.awaitArrival(stepTimeout)
		} else {
			s.pollArrival()
		}
		o.Hold = s.holding
		o.Len = s.pool.Len()
		o.Token = len(s.pool.Wait())
		if l, err := s.pool.LenDB(); err == nil {
			o.LenDB = l
		} else {
			o.LenDB = -1
		}
	}
	p := s.projectDB()
	o.H, o.T, o.L, o.N, o.Walk, o.Bad = p.H, p.T, p.L, p.N, p.Walk, p.Bad
	if s.pool == nil {
		o.LenDB = p.L
	}
	if h, err := s.node.BC.Height(); err == nil {
		o.Height = int(h) + 1
	}
	o.Hn = make([]int, s.naccs)
	if o.Height > 0 {
		st, closer, err := s.node.BC.HeadState()
		if err == nil {
			for a := 1; a <= s.naccs; a++ {
				n, err := st.ContractNonce(accountAddr(a))
				if err != nil {
					o.Hn[a-1] = -1
					continue
				}
				o.Hn[a-1] = int(n.Uint64())
			}
			_ = closer()
		}
	}
	return o
}

// diff lists the fields in which the real objects differ from the specification's state.
func diff(o observed, p proj) []string {
	var d []string
	add := func(f string, ok bool) {
		if !ok {
			d = append(d, f)
		}
	}
	add("st", o.St == p.St)
	add("out", o.Out == p.Out)
	add("res", o.Res.Kind == p.Res.Kind && eqInts(o.Res.Txs, p.Res.Txs))
	up := p.St == "open" || p.St == "closing" || p.St == "closed"
	if up {
		add("len", o.Len == p.Len)
		add("token", o.Token == p.Token)
		add("hold", o.Hold == (p.Hold != 0))
	}
	add("head", o.H == p.H)
	add("tail", o.T == p.T)
	add("length", o.L == p.L && o.LenDB == p.L)
	add("nodes", eqInts(o.N, p.N))
	add("walk", eqInts(o.Walk, p.Walk))
	add("store", o.Bad == "")
	add("height", o.Height == p.Height)
	add("nonces", eqInts(o.Hn, p.Hn))
	return d
}

func (r *replayer) push(id int, viaRPC bool) {
	s := r.s
	before := s.pool.Len()
	r.res = resT{Kind: "none"}
	func() {
		defer func() {
			if p := recover(); p != nil {
				msg := fmt.Sprint(p)
				switch {
				case !strings.Contains(msg, "closed channel"):
					r.out = "panic: " + msg
				case s.pool.Len() > before:
					r.out = "panic-after-push"
				default:
					r.out = "panic"
				}
			}
		}()
		if viaRPC {
			r.out = r.rpc.push(s, id)
			r.nrpc++
			return
		}
		r.out = classify(s.pool.Push(context.Background(), s.u.fresh(id)))
	}()
}

// write lets the writer goroutine perform exactly one writeToDB under the given fault.
func (r *replayer) write(o string) error {
	s := r.s
	r.res = resT{Kind: "none"}
	if !s.awaitArrival(stepTimeout) {
		return errors.New("the writer goroutine holds no transaction (the specification says it does)")
	}
	switch o {
	case "fail":
		s.fk.Arm(faultkv.FailAt, 1, nil)
	case "crashafter":
		s.fk.Arm(faultkv.CrashAfter, 1, nil)
	}
	s.holding = false
	s.gate.permit <- struct{}{}
	var err error
	select {
	case err = <-s.gate.done:
	case <-time.After(stepTimeout):
		return errors.New("writeToDB did not complete")
	}
	switch o {
	case "ok":
		if err != nil {
			return fmt.Errorf("writeToDB failed without an injected fault: %v (%v)", err, s.logger.take())
		}
	case "fail":
		if err == nil {
			return errors.New("writeToDB reported success although its batch write failed")
		}
		if n := s.fk.Count(); n != 1 {
			return fmt.Errorf("writeToDB performed %d durable mutations (one atomic batch expected)", n)
		}
		s.fk.Disarm()
	case "crashafter":
		if err != nil {
			return fmt.Errorf("writeToDB failed before the crash point: %v", err)
		}
		s.abandon()
		r.st = "down"
	}
	s.logger.take()
	return nil
}

func (r *replayer) closePool() error {
	s := r.s
	r.res = resT{Kind: "none"}
	closed := make(chan struct{})
	p := s.pool
	go func() { p.Close(); close(closed) }()
	if s.holding {
		s.holding = false
		s.gate.permit <- struct{}{}
	}
	deadline := time.Now().Add(stepTimeout)
	for {
		select {
		case <-closed:
			for len(s.gate.done) > 0 {
				if err := <-s.gate.done; err != nil {
					return fmt.Errorf("a write failed during Close: %v", err)
				}
			}
			r.st = "closed"
			return nil
		default:
		}
		if settle(stepTimeout) && len(s.gate.permit) == 0 {
			s.gate.permit <- struct{}{} // the writer drains the channel: one grant per transaction
		}
		if time.Now().After(deadline) {
			return errors.New("Close did not return")
		}
		time.Sleep(20 * time.Microsecond)
	}
}

func (r *replayer) reopen(load bool) error {
	s := r.s
	graceful := r.st == "closed"
	s.pool = nil // a closed pool is dropped; a crashed one was abandoned already
	if graceful {
		if err := s.restartStore(); err != nil {
			return err
		}
	}
	s.open()
	r.st = "open"
	r.res = resT{Kind: "ok"}
	if !load {
		return nil
	}
	if walkLoops(s.projectDB().Walk) {
		// LoadFromDB would follow the loop for ever (and allocate for ever): run it against a
		// store that refuses after a bounded number of reads and see that it got that far.
		reads, err := loadBounded(s, 2000)
		if err == nil || reads < 2000 {
			r.res = resT{Kind: "returned"}
		} else {
			r.res = resT{Kind: "hang"}
		}
		s.abandon()
		r.st = "hung"
		return nil
	}
	if err := s.pool.LoadFromDB(); err != nil {
		r.res = resT{Kind: "error: " + err.Error()}
	}
	return nil
}

// readLimit lets at most n Get calls through.
type readLimit struct {
	db.KeyValueStore
	left int
	n    int
}

var errReadLimit = errors.New("read limit reached")

func (l *readLimit) Get(k []byte, cb func([]byte) error) error {
	l.n++
	if l.left--; l.left < 0 {
		return errReadLimit
	}
	return l.KeyValueStore.Get(k, cb)
}

func loadBounded(s *sut, limit int) (int, error) {
	rl := &readLimit{KeyValueStore: s.raw, left: limit}
	p := mempool.New(rl, s.node.BC, 1<<20, newCapLogger())
	defer p.Close()
	err := p.LoadFromDB()
	if err != nil && !errors.Is(err, errReadLimit) {
		return rl.n, nil // ended with another error: it did return
	}
	return rl.n, err
}

func (r *replayer) apply(a label) error {
	s := r.s
	switch a.Name {
	case "Push":
		kind := s.u.specs[a.T-1].Kind
		via := r.rpc != nil && r.st == "open" && (kind == "invoke" || kind == "deployacc") && rpcEligible(s.u, a.T) && (a.T+r.nrpc+s.pool.Len())%2 == 0
		r.push(a.T, via)
	case "Write":
		return r.write(a.O)
	case "Pop":
		tx, err := s.pool.Pop()
		r.res = popResult(s.u, []mempool.BroadcastedTransaction{tx}, err)
		if err == nil {
			r.kept = append(r.kept, tx)
		}
	case "PopBatch":
		txs, err := s.pool.PopBatch(a.N)
		r.res = popResult(s.u, txs, err)
		r.kept = append(r.kept, txs...)
	case "WaitPoll":
		select {
		case <-s.pool.Wait():
			r.res = resT{Kind: "token"}
		default:
			r.res = resT{Kind: "none"}
		}
	case "Close":
		return r.closePool()
	case "Crash":
		s.abandon()
		r.st = "down"
		r.res = resT{Kind: "none"}
	case "Reopen":
		return r.reopen(a.O == "load")
	case "StoreBlock":
		r.res = resT{Kind: "none"}
		return s.storeBlock(a.T)
	case "End":
	default:
		return fmt.Errorf("unknown action %q", a.Name)
	}
	return nil
}

func popResult(u *universe, txs []mempool.BroadcastedTransaction, err error) resT {
	if err != nil {
		if errors.Is(err, mempool.ErrTxnPoolEmpty) {
			return resT{Kind: "empty"}
		}
		return resT{Kind: "error: " + err.Error()}
	}
	ids, why := idsOf(u, txs)
	if why != "" {
		return resT{Kind: "bad: " + why, Txs: ids}
	}
	return resT{Kind: "txs", Txs: ids}
}

func shapeOf(shapes []string, i int) (string, bool) {
	if len(shapes) == 0 {
		shapes = []string{"memory/legacy", "memory/newstate", "pebblev2/legacy", "pebblev2/newstate"}
	}
	sh := strings.Split(shapes[i%len(shapes)], "/")
	return sh[0], len(sh) > 1 && sh[1] == "newstate"
}

func TestMempoolReplay(t *testing.T) {
	if !vh.Enabled() {
		t.Skip("driver only")
	}
	var in replayInput
	if err := vh.Input(&in); err != nil {
		t.Fatal(err)
	}
	out := vh.NewResult()
	defer out.Write()
	u := newUniverse(in.Alphabet, vh.Seed())
	for bi, beh := range in.Behaviours {
		be, newState := shapeOf(in.Shapes, in.First+bi)
		shape := fmt.Sprintf("%s/%v", be, newState)
		s, err := newSUT(u, be, newState, in.Max, in.NAccs, in.StartEmpty, true)
		if err != nil {
			t.Fatalf("setup: %v", err)
		}
		r := &replayer{s: s, st: "open", out: "none", res: resT{Kind: "none"}}
		if in.RPC {
			r.rpc = newRPCPath()
		}
		report := func(si int, key, what string, exp, obs any) {
			cp := in
			cp.Behaviours = [][]step{beh[:si+1]}
			cp.First = in.First + bi
			raw, _ := json.Marshal(cp)
			var payload any
			_ = json.Unmarshal(raw, &payload)
			out.Diverge(vh.Divergence{Key: key, What: what + " [" + shape + "]", Input: payload, Step: si, Expected: exp, Observed: obs})
		}
		for si, st := range beh {
			obs := r.observe(st.Pre.Hold != 0)
			if d := diff(obs, st.Pre); len(d) > 0 {
				prev := "Init"
				if si > 0 {
					prev = beh[si-1].A.Name
					if beh[si-1].A.O != "-" {
						prev += "-" + beh[si-1].A.O
					}
				}
				report(si, "mempool-replay:"+prev+":"+strings.Join(d, "+"),
					fmt.Sprintf("after %s the real pool differs from Mempool.tla in %v", prev, d), st.Pre, obs)
				break
			}
			out.Done(0, 1)
			if err := r.apply(st.A); err != nil {
				report(si, "mempool-replay:"+st.A.Name+":failed", fmt.Sprintf("%s: %v", st.A.Name, err), st.Pre, err.Error())
				break
			}
			if st.A.Name == "End" && r.s.pool != nil {
				// what is still queued, completely and in order
				txs, err := r.s.pool.PopBatch(1 << 20)
				res := popResult(u, txs, err)
				if !(eqInts(res.Txs, st.Pre.Mem) && (res.Kind == "txs" || (res.Kind == "empty" && len(st.Pre.Mem) == 0))) {
					report(si, "mempool-replay:End:drain", "the transactions left in the pool are not the specification's", st.Pre.Mem, res)
				}
			}
		}
		if _, why := idsOf(u, r.kept); why != "" {
			report(len(beh)-1, "mempool-replay:retained-result", "a transaction the pool handed out earlier changed afterwards: "+why, nil, nil)
		}
		out.Count("rpc_pushes", r.nrpc)
		s.closeAll()
		out.Done(1, 0)
	}
	if len(in.Behaviours) > 0 {
		b := in.Behaviours[0]
		if len(b) > 8 {
			b = b[:8]
		}
		out.Sample(b)
	}
}

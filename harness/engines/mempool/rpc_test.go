package mempool

import (
	"context"
	"encoding/json"
	"errors"
	"fmt"
	"strings"

	"github.com/NethermindEth/juno/core"
	"github.com/NethermindEth/juno/core/felt"
	"github.com/NethermindEth/juno/jsonrpc"
	"github.com/NethermindEth/juno/mempool"
	"github.com/NethermindEth/juno/rpc"
	"github.com/NethermindEth/juno/rpc/rpccore"
	rpcv10 "github.com/NethermindEth/juno/rpc/v10"
	rpcv8 "github.com/NethermindEth/juno/rpc/v8"
	rpcv9 "github.com/NethermindEth/juno/rpc/v9"
	"github.com/NethermindEth/juno/sync"
	"github.com/NethermindEth/juno/utils/log"

	"verifharness/internal/chainkit"
)

// rpcPath pushes through starknet_addInvokeTransaction / starknet_addDeployAccountTransaction of
// the three served RPC versions, wired to the pool as node.go wires them (rpc.New(...).WithMempool).
type rpcPath struct {
	pool    *mempool.SequencerMempool
	servers []*jsonrpc.Server
	n       int
}

func newRPCPath() *rpcPath { return &rpcPath{} }

func (r *rpcPath) bind(s *sut) error {
	if r.pool == s.pool {
		return nil
	}
	logger := log.NewNopZapLogger()
	h := rpc.New(s.node.BC, &sync.NoopSynchronizer{}, nil, "verif", logger, chainkit.Network).WithMempool(s.pool)
	m8, _ := h.MethodsV0_8()
	m9, _ := h.MethodsV0_9()
	m10, _ := h.MethodsV0_10()
	r.servers = nil
	for i, ms := range [][]jsonrpc.Method{m8, m9, m10} {
		srv := jsonrpc.NewServer(1, logger)
		switch i {
		case 0:
			srv = srv.WithValidator(rpcv8.Validator())
		case 1:
			srv = srv.WithValidator(rpcv9.Validator())
		default:
			srv = srv.WithValidator(rpcv10.Validator())
		}
		if err := srv.RegisterMethods(ms...); err != nil {
			return err
		}
		r.servers = append(r.servers, srv)
	}
	r.pool = s.pool
	return nil
}

// rpcEligible: broadcast v3 invoke / deploy-account without a proof (the three versions agree on those).
func rpcEligible(u *universe, id int) bool {
	b := u.txs[id-1]
	if len(b.Proof) > 0 {
		return false
	}
	switch t := b.Transaction.(type) {
	case *core.InvokeTransaction:
		return t.Version.Is(3)
	case *core.DeployAccountTransaction:
		return t.Version.Is(3)
	}
	return false
}

func (r *rpcPath) push(s *sut, id int) string {
	if err := r.bind(s); err != nil {
		return "rpc-setup: " + err.Error()
	}
	tx := s.u.txs[id-1].Transaction
	adapted := rpcv10.AdaptCoreTransaction(tx)
	raw, err := json.Marshal(&adapted)
	if err != nil {
		return "rpc-marshal: " + err.Error()
	}
	var m map[string]any
	if err := json.Unmarshal(raw, &m); err != nil {
		return "rpc-marshal: " + err.Error()
	}
	delete(m, "transaction_hash")
	delete(m, "contract_address")
	method, param := "starknet_addInvokeTransaction", "invoke_transaction"
	if _, ok := tx.(*core.DeployAccountTransaction); ok {
		method, param = "starknet_addDeployAccountTransaction", "deploy_account_transaction"
	}
	req, _ := json.Marshal(map[string]any{"jsonrpc": "2.0", "id": 1, "method": method, "params": map[string]any{param: m}})
	srv := r.servers[r.n%len(r.servers)]
	r.n++
	out, _, err := srv.HandleReader(context.Background(), strings.NewReader(string(req)))
	if err != nil {
		return "rpc-transport: " + err.Error()
	}
	var resp struct {
		Result *struct {
			TransactionHash *felt.Felt `json:"transaction_hash"`
			ContractAddress *felt.Felt `json:"contract_address"`
		} `json:"result"`
		Error *struct {
			Code    int             `json:"code"`
			Message string          `json:"message"`
			Data    json.RawMessage `json:"data"`
		} `json:"error"`
	}
	if err := json.Unmarshal(out, &resp); err != nil {
		return fmt.Sprintf("rpc-unparsable: %s", out)
	}
	if resp.Error != nil {
		if resp.Error.Code != rpccore.ErrInternal.Code {
			return fmt.Sprintf("rpc-code %d: %s %s", resp.Error.Code, resp.Error.Message, resp.Error.Data)
		}
		var data string
		_ = json.Unmarshal(resp.Error.Data, &data)
		return classify(errors.New(data))
	}
	if resp.Result == nil || resp.Result.TransactionHash == nil {
		return fmt.Sprintf("rpc-no-result: %s", out)
	}
	if !resp.Result.TransactionHash.Equal(tx.Hash()) {
		return fmt.Sprintf("rpc-hash: the handler answered hash %s for transaction %s", resp.Result.TransactionHash, tx.Hash())
	}
	if da, ok := tx.(*core.DeployAccountTransaction); ok {
		if resp.Result.ContractAddress == nil || !resp.Result.ContractAddress.Equal(da.ContractAddress) {
			return "rpc-address: wrong contract_address in the answer"
		}
	}
	return "ok"
}

package mempool

import (
	"context"
	"fmt"
	"testing"
	"time"

	"github.com/NethermindEth/juno/core"
	"github.com/NethermindEth/juno/core/felt"
	"github.com/NethermindEth/juno/db/memory"
	_ "github.com/NethermindEth/juno/encoder/registry"
	"github.com/NethermindEth/juno/mempool"
	"github.com/NethermindEth/juno/utils/log"

	"verifharness/internal/chainkit"
	"verifharness/internal/faultkv"
)

func TestProbe(t *testing.T) {
	for _, newState := range []bool{false, true} {
		store := memory.New()
		fk := faultkv.Wrap(store)
		n := chainkit.NewNode(fk, newState)
		g := chainkit.NewGen(7)
		ch, cls := g.Cairo0Class()
		d := chainkit.EmptyDiff()
		d.DeclaredV0Classes = append(d.DeclaredV0Classes, &ch)
		a1, a2 := *chainkit.F(0x100), *chainkit.F(0x200)
		d.DeployedContracts[a1] = &ch
		d.DeployedContracts[a2] = &ch
		d.Nonces[a1] = chainkit.F(3)
		if _, err := n.Append(chainkit.BlockSpec{Diff: d, Classes: map[felt.Felt]core.ClassDefinition{ch: cls}}); err != nil {
			t.Fatal(err)
		}
		pool := mempool.New(fk, n.BC, 5, log.NewNopZapLogger())
		mk := func(sender *felt.Felt, nonce uint64, h uint64) *mempool.BroadcastedTransaction {
			return &mempool.BroadcastedTransaction{Transaction: &core.InvokeTransaction{
				TransactionHash: chainkit.F(h), Nonce: chainkit.F(nonce), SenderAddress: sender, Version: new(core.TransactionVersion).SetUint64(1)}}
		}
		ctx := context.Background()
		fmt.Println("newState", newState)
		fmt.Println(" nonce2 a1:", pool.Push(ctx, mk(&a1, 2, 1)))
		fmt.Println(" nonce3 a1:", pool.Push(ctx, mk(&a1, 3, 2)))
		fmt.Println(" nonce9 a1:", pool.Push(ctx, mk(&a1, 9, 3)))
		fmt.Println(" nonce0 a2:", pool.Push(ctx, mk(&a2, 0, 4)))
		fmt.Println(" undeployed:", pool.Push(ctx, mk(chainkit.F(0x999), 0, 5)))
		fmt.Println(" dup tail:", pool.Push(ctx, mk(&a2, 0, 4)))
		fmt.Println(" len", pool.Len())
		time.Sleep(100 * time.Millisecond)
		l, err := pool.LenDB()
		fmt.Println(" lenDB", l, err, "mutations", fk.Count())
		pool.Close()
		h, _ := mempool.GetHeadValue(fk)
		tl, _ := mempool.GetTailValue(fk)
		fmt.Println(" head", h.String(), "tail", tl.String())
		cur := &h
		for i := 0; i < 8 && cur != nil; i++ {
			e, err := mempool.GetTxn(fk, cur)
			if err != nil {
				fmt.Println("  err", err)
				break
			}
			fmt.Println("  node", cur.String(), "next", e.NextHash)
			cur = e.NextHash
		}
	}
}

package mempool

import (
	"context"
	"fmt"
	"strings"
	"testing"
	"time"

	"github.com/NethermindEth/juno/adapters/mempool2p2p"
	"github.com/NethermindEth/juno/adapters/p2p2mempool"
	"github.com/NethermindEth/juno/core"
	"github.com/NethermindEth/juno/mempool"

	"verifharness/internal/chainkit"
	"verifharness/internal/faultkv"
	"verifharness/internal/vh"
)

// ------------------------------------------------------------------ crash / failure sweep

type sweepInput struct {
	Pushes   int      `json:"pushes"`
	Max      int      `json:"max"`
	Shapes   []string `json:"shapes"`
	OnlyCase string   `json:"only_case"` // replay: "<shape>|<mode>|<k>"
}

// scenario pushes n distinct valid transactions (ids 1..n of alphabet U), popping so that the
// pool never fills; returns the ids whose Push returned nil, in order.
func scenario(s *sut, n int) ([]int, string) {
	var accepted []int
	for id := 1; id <= n; id++ {
		var out string
		func() {
			defer func() {
				if p := recover(); p != nil {
					out = fmt.Sprintf("panic: %v", p)
				}
			}()
			out = classify(s.pool.Push(context.Background(), s.u.fresh(id)))
		}()
		if out != "ok" {
			return accepted, fmt.Sprintf("Push(%d) = %s", id, out)
		}
		accepted = append(accepted, id)
		if id%2 == 0 {
			if _, err := s.pool.PopBatch(2); err != nil {
				return accepted, "PopBatch: " + err.Error()
			}
		}
	}
	return accepted, ""
}

func closeWithin(p *mempool.SequencerMempool, d time.Duration) bool {
	done := make(chan struct{})
	go func() {
		defer func() { _ = recover() }()
		p.Close()
		close(done)
	}()
	select {
	case <-done:
		return true
	case <-time.After(d):
		return false
	}
}

// consistent checks the persistent list as a new process finds it.
func consistent(p dbProj) string {
	if p.Bad != "" {
		return p.Bad
	}
	if walkLoops(p.Walk) {
		return fmt.Sprintf("the walk from the head record does not end: %v", p.Walk)
	}
	if len(p.Walk) != p.L {
		return fmt.Sprintf("length record %d but the list has %d elements %v", p.L, len(p.Walk), p.Walk)
	}
	if (p.L == 0) != (p.H == 0) || (p.L == 0) != (p.T == 0) {
		return fmt.Sprintf("head %d / tail %d / length %d disagree", p.H, p.T, p.L)
	}
	if p.L > 0 && p.Walk[len(p.Walk)-1] != p.T {
		return fmt.Sprintf("tail record %d is not the last element of %v", p.T, p.Walk)
	}
	in := map[int]bool{}
	for _, id := range p.Walk {
		if in[id] {
			return fmt.Sprintf("element %d twice in %v", id, p.Walk)
		}
		in[id] = true
	}
	for i, n := range p.N {
		if n != -1 && !in[i+1] {
			return fmt.Sprintf("node %d is stored but not reachable from the head (%v)", i+1, p.Walk)
		}
	}
	return ""
}

func TestMempoolCrashSweep(t *testing.T) {
	if !vh.Enabled() {
		t.Skip("driver only")
	}
	var in sweepInput
	if err := vh.Input(&in); err != nil {
		t.Fatal(err)
	}
	out := vh.NewResult()
	defer out.Write()
	if in.Pushes == 0 {
		in.Pushes = 8
	}
	if in.Max < in.Pushes+2 {
		in.Max = in.Pushes + 2 // the write channel (capacity Max) must never fill: this sweep is about the batches
	}
	u := newUniverse("U", vh.Seed())
	if len(in.Shapes) == 0 {
		in.Shapes = []string{"memory/legacy", "pebblev2/newstate"}
	}
	for si := range in.Shapes {
		be, newState := shapeOf(in.Shapes, si)
		shape := in.Shapes[si]
		// dry run: number of durable mutations of the scenario (one per accepted transaction)
		dry, err := newSUT(u, be, newState, in.Max, 2, false, false)
		if err != nil {
			t.Fatal(err)
		}
		acc, why := scenario(dry, in.Pushes)
		if why != "" {
			out.Diverge(vh.Divergence{Key: "mempool-sweep:scenario", What: "the fault-free scenario failed: " + why + " [" + shape + "]", Input: in})
			dry.closeAll()
			continue
		}
		if !closeWithin(dry.pool, 10*time.Second) {
			out.Diverge(vh.Divergence{Key: "mempool-sweep:close-hangs", What: "Close did not return [" + shape + "]", Input: in})
			continue
		}
		m := dry.fk.Count()
		base := dry.projectDB()
		dry.pool = nil
		dry.closeAll()
		if why := consistent(base); why != "" || !eqInts(base.Walk, acc) {
			out.Diverge(vh.Divergence{Key: "mempool-sweep:no-fault", What: fmt.Sprintf("after a fault-free run and Close the persistent list is %v (accepted %v) %s [%s]", base.Walk, acc, why, shape), Input: in})
			continue
		}
		if m != len(acc) {
			out.Diverge(vh.Divergence{Key: "mempool-sweep:mutations", What: fmt.Sprintf("%d accepted transactions were persisted with %d durable mutations: a write is no longer ONE atomic batch [%s]", len(acc), m, shape), Input: in})
		}
		out.Count("sweep_mutations", m)
		for _, mode := range []string{"crash", "fail"} {
			for k := 1; k <= m; k++ {
				cs := fmt.Sprintf("%s|%s|%d", shape, mode, k)
				if in.OnlyCase != "" && in.OnlyCase != cs {
					continue
				}
				rep := in
				rep.OnlyCase = cs
				div := func(key, what string, obs any) {
					out.Diverge(vh.Divergence{Key: key, What: what + " [" + cs + "]", Input: rep, Step: k, Observed: obs})
				}
				s, err := newSUT(u, be, newState, in.Max, 2, false, false)
				if err != nil {
					t.Fatal(err)
				}
				if mode == "crash" {
					s.fk.Arm(faultkv.CrashAfter, k, nil)
				} else {
					s.fk.Arm(faultkv.FailAt, k, nil)
				}
				acc, why := scenario(s, in.Pushes)
				if why != "" {
					div("mempool-sweep:scenario", "scenario under fault: "+why, nil)
					s.closeAll()
					continue
				}
				// the old process goes away (its Close must not hang on a dead disk either)
				if !closeWithin(s.pool, 10*time.Second) {
					div("mempool-sweep:close-hangs", "Close did not return after the fault", nil)
				}
				logged := 0
				for _, msg := range s.logger.take() {
					if msg == writerErrMsg {
						logged++
					}
				}
				s.pool = nil
				s.gate.kill()
				img := s.projectDB()
				if why := consistent(img); why != "" {
					div("mempool-sweep:inconsistent-image", "the persistent queue a new process finds is not a consistent list: "+why, img)
					s.closeAll()
					continue
				}
				var want []int
				if mode == "crash" {
					want = acc[:min(k, len(acc))] // exactly the first k accepted transactions survive
				} else {
					want = append(append([]int{}, acc[:k-1]...), acc[k:]...) // all but the one whose write failed
					if logged != 1 {
						div("mempool-sweep:silent-write-failure", fmt.Sprintf("a failed batch write was logged %d times (1 expected)", logged), nil)
					}
				}
				if !eqInts(img.Walk, want) {
					div("mempool-sweep:image", fmt.Sprintf("after %s at durable mutation %d the persistent list is %v, expected %v", mode, k, img.Walk, want), img)
					s.closeAll()
					continue
				}
				// the new process: reload, everything there in order, and the pool goes on working
				if s.be.real && mode == "fail" {
					if err := s.restartStore(); err != nil {
						t.Fatal(err)
					}
				}
				s.open()
				if err := s.pool.LoadFromDB(); err != nil {
					div("mempool-sweep:reload", "LoadFromDB: "+err.Error(), nil)
				}
				if s.pool.Len() != len(want) {
					div("mempool-sweep:reload", fmt.Sprintf("Len() = %d after reloading %v", s.pool.Len(), want), nil)
				}
				txs, err := s.pool.PopBatch(1 << 20)
				if r := popResult(u, txs, err); !eqInts(r.Txs, want) || (r.Kind != "txs" && !(r.Kind == "empty" && len(want) == 0)) {
					div("mempool-sweep:reload", fmt.Sprintf("the reloaded pool hands out %v (%s), expected %v", r.Txs, r.Kind, want), nil)
				}
				extra := in.Pushes + 1
				if o := classify(s.pool.Push(context.Background(), u.fresh(extra))); o != "ok" {
					div("mempool-sweep:after-reload", fmt.Sprintf("Push after the reload = %s", o), nil)
				}
				if !closeWithin(s.pool, 10*time.Second) {
					div("mempool-sweep:close-hangs", "Close of the reloaded pool did not return", nil)
				}
				s.pool = nil
				img2 := s.projectDB()
				if why := consistent(img2); why != "" || !eqInts(img2.Walk, append(append([]int{}, want...), extra)) {
					div("mempool-sweep:after-reload", fmt.Sprintf("after the reload, one more Push and Close the list is %v %s", img2.Walk, why), img2)
				}
				s.closeAll()
				out.Done(1, len(acc))
				out.Count("sweep_cases", 1)
			}
		}
	}
}

// ------------------------------------------------------------------ directed probes of the known weak spots

type probeInput struct {
	Shapes []string `json:"shapes"`
}

// TestMempoolProbes reproduces, with the shortest inputs, what Mempool.tla's as-coded switches
// stand for (keys mempool-dup:*, mempool-overflow:*) and records the stated design observations.
func TestMempoolProbes(t *testing.T) {
	if !vh.Enabled() {
		t.Skip("driver only")
	}
	var in probeInput
	if err := vh.Input(&in); err != nil {
		t.Fatal(err)
	}
	out := vh.NewResult()
	defer out.Write()
	if len(in.Shapes) == 0 {
		in.Shapes = []string{"memory/legacy", "pebblev2/newstate"}
	}
	u := newUniverse("U", vh.Seed())
	ctx := context.Background()
	obs := map[string]any{}
	for si := range in.Shapes {
		be, newState := shapeOf(in.Shapes, si)
		shape := in.Shapes[si]
		push := func(s *sut, id int) string {
			o := ""
			func() {
				defer func() {
					if p := recover(); p != nil {
						o = fmt.Sprintf("panic: %v", p)
					}
				}()
				o = classify(s.pool.Push(ctx, u.fresh(id)))
			}()
			return o
		}
		// --- 1. the same transaction twice in a row (what a client does that resends its request)
		{
			s, err := newSUT(u, be, newState, 8, 2, false, false)
			if err != nil {
				t.Fatal(err)
			}
			o1, o2 := push(s, 1), push(s, 1)
			closeWithin(s.pool, 10*time.Second)
			s.pool = nil
			img := s.projectDB()
			switch {
			case o1 == "ok" && o2 == "ok" && walkLoops(img.Walk):
				reads, lerr := loadBounded(s, 5000)
				out.Diverge(vh.Divergence{Key: "mempool-dup:tail-loop", Input: in,
					What: fmt.Sprintf("Push accepts a transaction that is already in the pool; written twice, the persistent list's tail points to itself "+
						"(head %d, node %d -> %d, length record %d): LoadFromDB does not return (stopped by the harness after %d reads: %v) [%s]",
						img.H, img.H, img.N[img.H-1], img.L, reads, lerr, shape), Observed: img})
			case o2 == "dup" && consistent(img) == "" && eqInts(img.Walk, []int{1}):
				out.Count("probe_dup_rejected", 1)
			default:
				out.Diverge(vh.Divergence{Key: "mempool-probe:dup-unexpected", Input: in, Observed: img,
					What: fmt.Sprintf("pushing one transaction twice: results %s, %s; list %v %s [%s]", o1, o2, img.Walk, consistent(img), shape)})
			}
			s.closeAll()
		}
		// --- 2. a transaction pushed again after others followed it
		{
			s, err := newSUT(u, be, newState, 8, 2, false, false)
			if err != nil {
				t.Fatal(err)
			}
			var os []string
			for _, id := range []int{1, 2, 3} {
				os = append(os, push(s, id))
			}
			s.pool.PopBatch(3)
			os = append(os, push(s, 1))
			closeWithin(s.pool, 10*time.Second)
			s.pool = nil
			img := s.projectDB()
			why := consistent(img)
			switch {
			case strings.Join(os, ",") == "ok,ok,ok,ok" && why != "":
				out.Diverge(vh.Divergence{Key: "mempool-dup:list-cut", Input: in, Observed: img,
					What: fmt.Sprintf("transactions 1,2,3 were accepted and popped, 1 was accepted again: the persistent list is now %v with length record %d — "+
						"%s: the transactions after the first occurrence are lost to a restart [%s]", img.Walk, img.L, why, shape)})
			case why == "" && eqInts(img.Walk, []int{1, 2, 3}):
				out.Count("probe_repush_kept_list", 1)
			default:
				out.Diverge(vh.Divergence{Key: "mempool-probe:repush-unexpected", Input: in, Observed: img,
					What: fmt.Sprintf("results %v; list %v %s [%s]", os, img.Walk, why, shape)})
			}
			s.closeAll()
		}
		// --- 3. the write channel is full (a stalled disk): Max = 3 -> channel of 3 plus one in the writer's hand
		{
			s, err := newSUT(u, be, newState, 3, 2, false, true)
			if err != nil {
				t.Fatal(err)
			}
			var os []string
			for id := 1; id <= 5; id++ {
				os = append(os, push(s, id))
				s.awaitArrival(stepTimeout)
				s.pool.Pop()
			}
			full := 0
			for _, m := range s.logger.take() {
				if strings.Contains(m, "database is full") {
					full++
				}
			}
			r := &replayer{s: s, st: "open"}
			cerr := r.closePool()
			s.pool = nil
			img := s.projectDB()
			switch {
			case cerr != nil:
				out.Diverge(vh.Divergence{Key: "mempool-probe:overflow-unexpected", Input: in, What: "Close: " + cerr.Error() + " [" + shape + "]"})
			case strings.Join(os, ",") == "ok,ok,ok,ok,ok" && eqInts(img.Walk, []int{1, 3, 4}) && full == 1:
				out.Diverge(vh.Divergence{Key: "mempool-overflow:drops-waiting-transaction", Input: in, Observed: img,
					What: fmt.Sprintf("five transactions accepted while the writer was stalled (write channel of 3 + 1 in flight); the fifth Push found the channel "+
						"full, logged that IT cannot be persisted and took transaction 2 out of the channel: after Close the persistent list is %v — "+
						"transaction 2 is missing without any report [%s]", img.Walk, shape)})
			case strings.Join(os, ",") == "ok,ok,ok,ok,ok" && eqInts(img.Walk, []int{1, 2, 3, 4}) && full == 1:
				out.Count("probe_overflow_reported", 1)
			case strings.Join(os, ",") == "ok,ok,ok,ok,full" && eqInts(img.Walk, []int{1, 2, 3, 4}):
				out.Count("probe_overflow_rejected", 1)
			default:
				out.Diverge(vh.Divergence{Key: "mempool-probe:overflow-unexpected", Input: in, Observed: img,
					What: fmt.Sprintf("results %v, %d 'database is full' errors, list %v [%s]", os, full, img.Walk, shape)})
			}
			s.closeAll()
		}
		// --- 4. stated design: the list is a log (popped transactions come back), Push after Close panics
		{
			s, err := newSUT(u, be, newState, 8, 2, false, false)
			if err != nil {
				t.Fatal(err)
			}
			push(s, 1)
			push(s, 2)
			s.pool.PopBatch(2)
			closeWithin(s.pool, 10*time.Second)
			after := push(s, 3)
			s.pool = nil
			if err := s.restartStore(); err != nil {
				t.Fatal(err)
			}
			s.open()
			_ = s.pool.LoadFromDB()
			txs, _ := s.pool.PopBatch(10)
			ids, _ := idsOf(u, txs)
			obs["revival:"+shape] = fmt.Sprintf("popped [1 2], closed, reopened: LoadFromDB hands out %v again", ids)
			obs["push-after-close:"+shape] = after
			s.closeAll()
		}
	}
	// --- 5. mempool/p2p (not wired into node.go at this commit): what the sender makes of a v1 invoke
	func() {
		var id int
		for i, b := range u.txs {
			if t, ok := b.Transaction.(*core.InvokeTransaction); ok && t.Version.Is(1) {
				id = i + 1
				break
			}
		}
		msg, err := mempool2p2p.AdaptTransaction(u.txs[id-1])
		if err != nil {
			obs["gossip-v1-invoke"] = "the sender refuses it: " + err.Error()
			return
		}
		defer func() {
			if p := recover(); p != nil {
				obs["gossip-v1-invoke"] = fmt.Sprintf("mempool2p2p sends a v1 invoke as an InvokeV3 message without resource bounds; the RECEIVER's "+
					"p2p2mempool.AdaptTransaction panics on it (%v) — inside the listener that takes the whole p2p service down", p)
			}
		}()
		_, err = p2p2mempool.AdaptTransaction(ctx, nil, msg, chainkit.Network)
		obs["gossip-v1-invoke"] = fmt.Sprintf("receiver: %v", err)
	}()
	out.Stats["observations"] = obs
	out.Done(len(in.Shapes), 0)
}

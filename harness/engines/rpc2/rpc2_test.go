// rpc2_test.go: the system under test (real RPC stack + real Synchronizer + real pre-confirmed
// storage), request building per API version, projection of JSON responses onto the abstract
// results of RpcEvents.tla, comparison and replay.
package rpc2

import (
	"context"
	"encoding/json"
	"fmt"
	"math/big"
	"reflect"
	"sort"
	"strings"
	"testing"
	"unsafe"

	"github.com/NethermindEth/juno/core"
	"github.com/NethermindEth/juno/core/felt"
	"github.com/NethermindEth/juno/jsonrpc"
	"github.com/NethermindEth/juno/rpc"
	rpcv10 "github.com/NethermindEth/juno/rpc/v10"
	rpcv8 "github.com/NethermindEth/juno/rpc/v8"
	rpcv9 "github.com/NethermindEth/juno/rpc/v9"
	"github.com/NethermindEth/juno/sync"
	"github.com/NethermindEth/juno/sync/preconfirmed"
	"github.com/NethermindEth/juno/utils/log"

	"verifharness/internal/chainkit"
	"verifharness/internal/vh"
)

// ---------------------------------------------------------------- the system under test

var versions = []string{"v8", "v9", "v10"}

type sut struct {
	node    *chainkit.Node
	synchro *sync.Synchronizer
	storage *preconfirmed.ChainStorage // the Synchronizer's own storage
	servers map[string]*jsonrpc.Server
	built   map[string]*chainkit.Built // path -> block as stored at some point
	byHash  map[string]string          // block hash -> path
	canon   map[string][]int           // path -> transaction ids (what the harness stored)
	backend string
}

// storageOf returns the ChainStorage a real Synchronizer reads in PreConfirmedChain(). The field is
// private and normally written by the poller goroutine; the harness plays the poller.
func storageOf(s *sync.Synchronizer) (*preconfirmed.ChainStorage, error) {
	f := reflect.ValueOf(s).Elem().FieldByName("preConfirmed")
	if !f.IsValid() || f.Kind() != reflect.Pointer || f.Type() != reflect.TypeOf((*preconfirmed.ChainStorage)(nil)) {
		return nil, fmt.Errorf("sync.Synchronizer has no field preConfirmed of type *preconfirmed.ChainStorage any more")
	}
	st := *(**preconfirmed.ChainStorage)(unsafe.Pointer(f.UnsafeAddr()))
	if st == nil {
		return nil, fmt.Errorf("sync.New left the pre-confirmed storage nil")
	}
	return st, nil
}

func newSUT(newState bool) (*sut, error) {
	node := chainkit.NewNode(nil, newState)
	logger := log.NewNopZapLogger()
	// a real Synchronizer that is never Run: only its reader side (PreConfirmedChain) is used
	synchro := sync.New(node.BC, nil, logger, 0, false, node.Store)
	storage, err := storageOf(synchro)
	if err != nil {
		return nil, err
	}
	h := rpc.New(node.BC, synchro, nil, "verif", logger, chainkit.Network)
	s := &sut{node: node, synchro: synchro, storage: storage, servers: map[string]*jsonrpc.Server{},
		built: map[string]*chainkit.Built{}, byHash: map[string]string{}, canon: map[string][]int{}, backend: "legacy"}
	if newState {
		s.backend = "newstate"
	}
	m8, _ := h.MethodsV0_8()
	m9, _ := h.MethodsV0_9()
	m10, _ := h.MethodsV0_10()
	for _, x := range []struct {
		v  string
		ms []jsonrpc.Method
	}{{"v8", m8}, {"v9", m9}, {"v10", m10}} {
		srv := jsonrpc.NewServer(1, logger)
		switch x.v {
		case "v8":
			srv = srv.WithValidator(rpcv8.Validator())
		case "v9":
			srv = srv.WithValidator(rpcv9.Validator())
		default:
			srv = srv.WithValidator(rpcv10.Validator())
		}
		if err := srv.RegisterMethods(x.ms...); err != nil {
			return nil, err
		}
		s.servers[x.v] = srv
	}
	return s, nil
}

func (s *sut) hashOf(w *world, p []int) *felt.Felt {
	if b, ok := s.built[pathKey(p)]; ok {
		return b.Block.Hash
	}
	return w.unknownH
}

func (s *sut) call(version, method string, params map[string]any) (map[string]any, string, error) {
	req := map[string]any{"jsonrpc": "2.0", "id": 1, "method": "starknet_" + method}
	if params != nil {
		req["params"] = params
	}
	raw, _ := json.Marshal(req)
	out, _, err := s.servers[version].HandleReader(context.Background(), strings.NewReader(string(raw)))
	if err != nil {
		return nil, string(raw), err
	}
	dec := json.NewDecoder(strings.NewReader(string(out)))
	dec.UseNumber()
	var resp map[string]any
	if err := dec.Decode(&resp); err != nil {
		return nil, string(raw), fmt.Errorf("unparsable response %q: %v", string(out), err)
	}
	return resp, string(raw), nil
}

// ---------------------------------------------------------------- requests

func (s *sut) idParam(w *world, id *blockID, version string) any {
	switch id.K {
	case "num":
		return map[string]any{"block_number": id.N}
	case "hash":
		return map[string]any{"block_hash": s.hashOf(w, id.H).String()}
	case "pre_confirmed":
		if version == "v8" {
			return "pending"
		}
	}
	return id.K
}

func (s *sut) params(w *world, a *action, version string) map[string]any {
	p := map[string]any{}
	if a.ID != nil {
		p["block_id"] = s.idParam(w, a.ID, version)
	}
	switch a.Name {
	case "getTransactionByHash", "getTransactionReceipt", "getTransactionStatus":
		p["transaction_hash"] = w.txHash(a.T).String()
	case "getTransactionByBlockIdAndIndex":
		p["index"] = a.I
	case "getStorageAt":
		p["contract_address"] = w.addr[a.C].String()
		p["key"] = w.slot[a.S].String()
	case "getNonce", "getClassHashAt", "getClassAt":
		p["contract_address"] = w.addr[a.C].String()
	case "getClass":
		p["class_hash"] = w.classH[a.C].String()
	}
	return p
}

// eventParams builds the filter object of starknet_getEvents; ok = false when this API version
// cannot express the filter (an address list before v0.10).
func (s *sut) eventParams(w *world, a *action, version, token string) (map[string]any, bool) {
	f := map[string]any{"chunk_size": a.Chunk}
	if a.From.K != "none" {
		f["from_block"] = s.idParam(w, a.From, version)
	}
	if a.To.K != "none" {
		f["to_block"] = s.idParam(w, a.To, version)
	}
	switch len(a.F.Addrs) {
	case 0:
	case 1:
		if version == "v10" && (w.seed+int64(a.Chunk))%2 == 0 {
			f["address"] = []string{w.addr[a.F.Addrs[0]].String()}
		} else {
			f["address"] = w.addr[a.F.Addrs[0]].String()
		}
	default:
		if version != "v10" {
			return nil, false
		}
		l := []string{}
		for _, x := range a.F.Addrs {
			l = append(l, w.addr[x].String())
		}
		f["address"] = l
	}
	keys := [][]string{}
	for _, ks := range a.F.Keys {
		pos := []string{}
		for _, k := range ks {
			pos = append(pos, w.key[k].String())
		}
		keys = append(keys, pos)
	}
	switch a.F.Huge {
	case 1: // 1 position + 1023 keys = 1024 = rpccore.MaxEventFilterKeys: accepted
		keys = [][]string{w.hugeKeys[:1023]}
	case 2: // 1 position + 1024 keys = 1025: TOO_MANY_KEYS_IN_FILTER
		keys = [][]string{w.hugeKeys}
	}
	if len(keys) > 0 || w.seed%2 == 0 {
		f["keys"] = keys
	}
	if token != "" {
		f["continuation_token"] = token
	}
	return map[string]any{"filter": f}, true
}

// ---------------------------------------------------------------- projection: JSON -> abstract result

var errNames = map[int64]string{24: "BlockNotFound", 29: "TxnHashNotFound", 27: "InvalidTxnIndex",
	20: "ContractNotFound", 28: "ClassHashNotFound", 32: "NoBlocks", -32602: "InvalidParams",
	31: "PageSizeTooBig", 33: "InvalidToken", 34: "TooManyKeys", -32603: "Internal"}

func str(v any) string {
	if s, ok := v.(string); ok {
		return s
	}
	return fmt.Sprintf("?%v", v)
}

func num(v any) int {
	if n, ok := v.(json.Number); ok {
		i, err := n.Int64()
		if err == nil {
			return int(i)
		}
	}
	return -999
}

func feltInt(v any) int {
	s, ok := v.(string)
	if !ok {
		return -999
	}
	b, ok := new(big.Int).SetString(s, 0)
	if !ok || !b.IsInt64() {
		return -998
	}
	return int(b.Int64())
}

func obj(v any) map[string]any {
	m, _ := v.(map[string]any)
	return m
}

func arr(v any) []any {
	a, _ := v.([]any)
	return a
}

var absent = []int{9}

// pathOfField: the path of a block hash field; [9] when the field is absent, [] for 0x0,
// [-1] for a hash the chain never produced.
func (s *sut) pathOfField(m map[string]any, field string) []int {
	h, ok := m[field]
	if !ok {
		return absent
	}
	if h == nil {
		return []int{-2} // present but null: neither a hash nor an omitted field
	}
	hs := str(h)
	if hs == "0x0" {
		return []int{}
	}
	if pk, ok := s.byHash[hs]; ok {
		p := make([]int, len(pk))
		for i, c := range pk {
			p[i] = int(c - '0')
		}
		return p
	}
	return []int{-1}
}

func inv(m map[int]*felt.Felt, v any) int {
	for k, f := range m {
		if f.String() == str(v) {
			return k
		}
	}
	return -1
}

func sortRows(rows [][]int) [][]int {
	sort.Slice(rows, func(i, j int) bool {
		for k := range rows[i] {
			if rows[i][k] != rows[j][k] {
				return rows[i][k] < rows[j][k]
			}
		}
		return false
	})
	if rows == nil {
		rows = [][]int{}
	}
	return rows
}

func sortInts(x []int) []int {
	sort.Ints(x)
	if x == nil {
		x = []int{}
	}
	return x
}

func normDiff(d *diffT) *diffT {
	if d == nil {
		return nil
	}
	return &diffT{Declared0: sortInts(append([]int{}, d.Declared0...)), Declared1: sortInts(append([]int{}, d.Declared1...)),
		Deployed: sortRows(append([][]int{}, d.Deployed...)), Replaced: sortRows(append([][]int{}, d.Replaced...)),
		Storage: sortRows(append([][]int{}, d.Storage...)), Nonces: sortRows(append([][]int{}, d.Nonces...))}
}

func txType(t int) string {
	switch t % 10 {
	case 1, 3:
		return "INVOKE"
	case 2, 7:
		return "L1_HANDLER"
	case 4:
		return "DEPLOY_ACCOUNT"
	case 5:
		return "DECLARE"
	}
	return "DEPLOY"
}

func note(res *result, format string, args ...any) {
	if res.Note == "" {
		res.Note = fmt.Sprintf(format, args...)
	}
}

// projectEvents turns the events array of one page into abstract items and checks the concrete
// content (emitter, keys, data) of every event against what the harness stored for it.
func (s *sut) projectEvents(w *world, version string, evs []any, res *result) []item {
	out := []item{}
	for _, x := range evs {
		m := obj(x)
		it := item{B: num(m["block_number"]), H: s.pathOfField(m, "block_hash"), T: w.txID(str(m["transaction_hash"])), Ti: -1, Ei: -1}
		data := arr(m["data"])
		if len(data) == 2 {
			if feltInt(data[0]) != it.T {
				note(res, "event of tx %d carries the data of tx %d", it.T, feltInt(data[0]))
			}
			it.Ei = feltInt(data[1])
		} else {
			note(res, "event data %v is not what the harness stored", m["data"])
		}
		if version == "v10" {
			if num(m["event_index"]) != it.Ei {
				note(res, "event_index %v of an event stored at index %d of tx %d", m["event_index"], it.Ei, it.T)
				it.Ei = num(m["event_index"])
			}
			it.Ti = num(m["transaction_index"])
		}
		if stored, ok := w.evs[it.T]; ok && it.Ei >= 0 && it.Ei < len(stored) {
			e := stored[it.Ei]
			keys := arr(m["keys"])
			bad := str(m["from_address"]) != w.addr[e.A].String() || len(keys) != len(e.K)
			for i := 0; !bad && i < len(keys); i++ {
				bad = str(keys[i]) != w.key[e.K[i]].String()
			}
			if bad {
				note(res, "event %d of tx %d has emitter/keys %v %v, stored %v", it.Ei, it.T, m["from_address"], m["keys"], e)
			}
		} else {
			note(res, "event (tx %d, index %d) was never stored", it.T, it.Ei)
		}
		out = append(out, it)
	}
	return out
}

// project turns a JSON-RPC response into the abstract result of the given method. Concrete
// details the abstract result cannot carry are checked against the concretisation here and
// reported through Note.
func (s *sut) project(w *world, a *action, version string, resp map[string]any) result {
	if e, ok := resp["error"]; ok {
		code, _ := obj(e)["code"].(json.Number).Int64()
		if name, ok := errNames[code]; ok {
			return result{Kind: "err", E: name}
		}
		return result{Kind: "err", E: fmt.Sprintf("code:%d:%v", code, obj(e)["data"])}
	}
	r, ok := resp["result"]
	if !ok {
		return result{Kind: "malformed"}
	}
	txView := func(m map[string]any, hashField string) (int, string) {
		return w.txID(str(m[hashField])), str(m["type"])
	}
	switch a.Name {
	case "getEvents":
		m := obj(r)
		res := result{Kind: "page"}
		res.Evs = s.projectEvents(w, version, arr(m["events"]), &res)
		res.Tok = &tokT{B: -1}
		if t, ok := m["continuation_token"]; ok {
			var b, p int
			if _, err := fmt.Sscanf(str(t), "%d-%d", &b, &p); err != nil {
				note(&res, "continuation token %v has an unknown format", t)
			}
			res.Tok = &tokT{B: b, P: p}
			res.Type = str(t)
		}
		return res
	case "getBlockTransactionCount":
		return result{Kind: "num", N: num(r)}
	case "getBlockWithTxHashes", "getBlockWithTxs", "getBlockWithReceipts":
		m := obj(r)
		res := result{Kind: "block", N: -1, Hash: s.pathOfField(m, "block_hash"), Parent: s.pathOfField(m, "parent_hash"),
			Status: "ABSENT", Txs: []int{}, Execs: []string{}}
		if st, ok := m["status"]; ok {
			res.Status = str(st)
		}
		if _, ok := m["block_number"]; ok {
			res.N = num(m["block_number"])
		}
		if b, ok := s.built[pathKey(res.Hash)]; ok {
			if str(m["new_root"]) != b.Block.GlobalStateRoot.String() {
				note(&res, "new_root %v, stored block has %s", m["new_root"], b.Block.GlobalStateRoot)
			}
		} else if _, ok := m["new_root"]; ok {
			note(&res, "a block without hash carries new_root %v", m["new_root"])
		}
		for _, x := range arr(m["transactions"]) {
			switch a.Name {
			case "getBlockWithTxHashes":
				res.Txs = append(res.Txs, w.txID(str(x)))
			case "getBlockWithTxs":
				t, typ := txView(obj(x), "transaction_hash")
				res.Txs = append(res.Txs, t)
				if typ != txType(t) {
					note(&res, "tx %d has type %s", t, typ)
				}
			default:
				rc := obj(obj(x)["receipt"])
				t := w.txID(str(rc["transaction_hash"]))
				res.Txs = append(res.Txs, t)
				res.Execs = append(res.Execs, str(rc["execution_status"]))
				wantFin := res.Status
				if res.Status == "ABSENT" { // a block without status is the pre-confirmed one
					wantFin = "PRE_CONFIRMED"
				}
				if str(rc["finality_status"]) != wantFin {
					note(&res, "receipt of tx %d has finality %v in a block with status %s", t, rc["finality_status"], res.Status)
				}
				if typ := str(obj(obj(x)["transaction"])["type"]); typ != txType(t) || str(rc["type"]) != typ {
					note(&res, "tx %d has type %s / receipt type %v", t, typ, rc["type"])
				}
				if stored, ok := w.rcs[t]; ok && len(arr(rc["events"])) != len(stored.Events) {
					note(&res, "receipt of tx %d has %d events, stored %d", t, len(arr(rc["events"])), len(stored.Events))
				}
			}
		}
		return res
	case "getTransactionByHash", "getTransactionByBlockIdAndIndex":
		t, typ := txView(obj(r), "transaction_hash")
		return result{Kind: "tx", T: t, Type: typ}
	case "getTransactionReceipt":
		m := obj(r)
		t, typ := txView(m, "transaction_hash")
		res := result{Kind: "receipt", T: t, Type: typ, N: -1, Hash: s.pathOfField(m, "block_hash"),
			Fin: str(m["finality_status"]), Exec: str(m["execution_status"])}
		if _, ok := m["block_number"]; ok {
			res.N = num(m["block_number"])
		}
		if rc, ok := w.rcs[t]; ok {
			if got, _ := m["revert_reason"].(string); got != rc.RevertReason {
				note(&res, "revert_reason %q, stored receipt has %q", got, rc.RevertReason)
			}
			if str(obj(m["actual_fee"])["amount"]) != rc.Fee.String() {
				note(&res, "actual_fee %v, stored receipt has %s", obj(m["actual_fee"])["amount"], rc.Fee)
			}
			if len(arr(m["events"])) != len(rc.Events) {
				note(&res, "receipt has %d events, stored receipt has %d", len(arr(m["events"])), len(rc.Events))
			}
		}
		return res
	case "getTransactionStatus":
		m := obj(r)
		return result{Kind: "status", Fin: str(m["finality_status"]), Exec: str(m["execution_status"])}
	case "getStateUpdate":
		m := obj(r)
		res := result{Kind: "update", Hash: s.pathOfField(m, "block_hash"), New: absent, Old: absent}
		if nr, ok := m["new_root"]; ok {
			res.New = []int{-1}
			if b, ok := s.built[pathKey(res.Hash)]; ok && str(nr) == b.Block.GlobalStateRoot.String() {
				res.New = res.Hash
			}
		}
		if or, ok := m["old_root"]; ok {
			res.Old = []int{-1}
			if str(or) == "0x0" {
				res.Old = []int{}
			} else if b, ok := s.built[pathKey(res.Hash)]; ok {
				// the parent's commitment recomputed under the block's own protocol version (C08, 13.3)
				if str(or) == b.Update.OldRoot.String() {
					res.Old = res.Hash[:len(res.Hash)-1]
				}
			} else {
				// a block without hash (v0.8 pending): old_root = the head's root
				for pk, b := range s.built {
					if b.Block.GlobalStateRoot.String() == str(or) && s.byHash[b.Block.Hash.String()] == pk {
						if hd, err := s.node.BC.HeadsHeader(); err == nil && hd.Hash.Equal(b.Block.Hash) {
							res.Old = s.pathOfField(map[string]any{"h": b.Block.Hash.String()}, "h")
						}
					}
				}
			}
		}
		sd := obj(m["state_diff"])
		d := &diffT{}
		for _, x := range arr(sd["storage_diffs"]) {
			c := inv(w.addr, obj(x)["address"])
			for _, e := range arr(obj(x)["storage_entries"]) {
				d.Storage = append(d.Storage, []int{c, inv(w.slot, obj(e)["key"]), feltInt(obj(e)["value"])})
			}
		}
		for _, x := range arr(sd["nonces"]) {
			d.Nonces = append(d.Nonces, []int{inv(w.addr, obj(x)["contract_address"]), feltInt(obj(x)["nonce"])})
		}
		for _, x := range arr(sd["deployed_contracts"]) {
			d.Deployed = append(d.Deployed, []int{inv(w.addr, obj(x)["address"]), inv(w.classH, obj(x)["class_hash"])})
		}
		for _, x := range arr(sd["replaced_classes"]) {
			d.Replaced = append(d.Replaced, []int{inv(w.addr, obj(x)["contract_address"]), inv(w.classH, obj(x)["class_hash"])})
		}
		for _, x := range arr(sd["deprecated_declared_classes"]) {
			d.Declared0 = append(d.Declared0, inv(w.classH, x))
		}
		for _, x := range arr(sd["declared_classes"]) {
			d.Declared1 = append(d.Declared1, inv(w.classH, obj(x)["class_hash"]))
			if str(obj(x)["compiled_class_hash"]) != w.casmH.String() {
				note(&res, "compiled_class_hash %v, declared with %s", obj(x)["compiled_class_hash"], w.casmH)
			}
		}
		res.Diff = normDiff(d)
		return res
	case "getStorageAt", "getNonce":
		return result{Kind: "felt", V: feltInt(r)}
	case "getClassHashAt":
		return result{Kind: "classhash", C: inv(w.classH, r)}
	case "getClassAt", "getClass":
		m := obj(r)
		res := result{Kind: "class", C: -1}
		if prog, ok := m["sierra_program"]; ok {
			p := arr(prog)
			if len(p) == len(w.sierra.Program) && str(p[len(p)-1]) == w.sierra.Program[len(p)-1].String() &&
				str(m["contract_class_version"]) == w.sierra.SemanticVersion {
				res.C = 2
			}
		} else if str(m["program"]) == w.cairo0.(*core.DeprecatedCairoClass).Program {
			ext := arr(obj(m["entry_points_by_type"])["EXTERNAL"])
			if len(ext) == 1 && str(obj(ext[0])["selector"]) == w.cairo0.(*core.DeprecatedCairoClass).Externals[0].Selector.String() {
				res.C = 1
			}
		}
		return res
	}
	return result{Kind: "unknown-method"}
}

// ---------------------------------------------------------------- comparison

func eqInts(a, b []int) bool {
	if len(a) != len(b) {
		return false
	}
	for i := range a {
		if a[i] != b[i] {
			return false
		}
	}
	return true
}

func eqJSON(a, b any) bool {
	x, _ := json.Marshal(a)
	y, _ := json.Marshal(b)
	return string(x) == string(y)
}

// itemsDiff names the first aspect in which two event lists differ ("" = equal). v8 / v9 responses
// carry no positions (ti is -1 there).
func itemsDiff(got, want []item) string {
	if len(got) != len(want) {
		if len(got) < len(want) {
			return "events-missing"
		}
		return "events-extra"
	}
	for i := range want {
		g, x := got[i], want[i]
		switch {
		case g.T != x.T || g.Ei != x.Ei:
			return "events"
		case g.B != x.B:
			return "block_number"
		case !eqInts(g.H, x.H):
			if eqInts(x.H, absent) {
				return "block_hash-on-pre-confirmed"
			}
			return "block_hash"
		case g.Ti != -1 && g.Ti != x.Ti:
			return "transaction_index"
		}
	}
	return ""
}

// firstDiff names the first field in which the observed abstract result differs from the
// expected one ("" = equal) restricted to what the method reports.
func firstDiff(method string, got, want *result) string {
	if got.Kind != want.Kind {
		if got.Kind == "err" {
			return "err-" + strings.SplitN(got.E, ":", 3)[0] + "-for-" + want.Kind
		}
		if want.Kind == "err" {
			return got.Kind + "-for-err-" + want.E
		}
		return "kind"
	}
	switch want.Kind {
	case "err":
		if got.E != want.E {
			return "err-" + strings.SplitN(got.E, ":", 3)[0] + "-for-" + want.E
		}
	case "num":
		if got.N != want.N {
			return "number"
		}
	case "block":
		switch {
		case got.N != want.N:
			return "block_number"
		case !eqInts(got.Hash, want.Hash):
			return "block_hash"
		case !eqInts(got.Parent, want.Parent):
			return "parent_hash"
		case got.Status != want.Status:
			return "status"
		case !eqInts(got.Txs, want.Txs):
			return "transactions"
		case method == "getBlockWithReceipts" && !eqJSON(got.Execs, want.Execs):
			return "execution_status"
		}
	case "tx":
		if got.T != want.T {
			return "transaction_hash"
		}
		if got.Type != want.Type {
			return "type"
		}
	case "receipt":
		switch {
		case got.T != want.T:
			return "transaction_hash"
		case got.Type != want.Type:
			return "type"
		case got.N != want.N:
			return "block_number"
		case !eqInts(got.Hash, want.Hash):
			return "block_hash"
		case got.Fin != want.Fin:
			return "finality_status"
		case got.Exec != want.Exec:
			return "execution_status"
		}
	case "status":
		if got.Fin != want.Fin {
			return "finality_status"
		}
		if got.Exec != want.Exec {
			return "execution_status"
		}
	case "update":
		switch {
		case !eqInts(got.Hash, want.Hash):
			return "block_hash"
		case !eqInts(got.Old, want.Old):
			return "old_root"
		case !eqInts(got.New, want.New):
			return "new_root"
		case !eqJSON(got.Diff, normDiff(want.Diff)):
			return "state_diff"
		}
	case "felt":
		if got.V != want.V {
			return "value"
		}
	case "classhash", "class":
		if got.C != want.C {
			return "class"
		}
	}
	if got.Note != "" {
		return "concrete"
	}
	return ""
}

func idShape(id *blockID, st *step) string {
	if id == nil {
		return "-"
	}
	h := len(st.Chain) - 1
	switch id.K {
	case "num":
		switch {
		case id.N <= h:
			return "num"
		case inView(st, id.N):
			return "num-preconfirmed"
		}
		return "num-absent"
	case "hash":
		if len(id.H) <= len(st.Chain) && pathKey(id.H) == pathKey(st.Chain[:len(id.H)]) {
			return "hash"
		}
		return "hash-absent"
	case "l1_accepted":
		switch {
		case st.L1 == -1:
			return "l1_accepted-none"
		case st.L1 > h:
			return "l1_accepted-above"
		}
		return "l1_accepted"
	}
	return id.K
}

// viewSlots: the stored pre-confirmed blocks a reader sees (nil = fallback)
func viewSlots(st *step) []slotT {
	h := len(st.Chain) - 1
	var v []slotT
	for _, s := range st.Pcs {
		if s.Num > h {
			v = append(v, s)
		}
	}
	if len(v) > 0 && v[0].Num == h+1 {
		return v
	}
	return nil
}

func inView(st *step, n int) bool {
	for _, s := range viewSlots(st) {
		if s.Num == n {
			return true
		}
	}
	return false
}

// ---------------------------------------------------------------- cross-version comparison

// sharedDiff returns the JSON path of the first difference between two responses restricted to
// the fields both carry ("" = they agree). Arrays below state_diff come from Go map iteration and
// are compared as multisets.
func sharedDiff(a, b any, path string, unordered bool) string {
	switch x := a.(type) {
	case map[string]any:
		y, ok := b.(map[string]any)
		if !ok {
			return path + ":type"
		}
		keys := make([]string, 0, len(x))
		for k := range x {
			if _, ok := y[k]; ok {
				keys = append(keys, k)
			}
		}
		sort.Strings(keys)
		for _, k := range keys {
			if d := sharedDiff(x[k], y[k], path+"."+k, unordered || k == "state_diff"); d != "" {
				return d
			}
		}
		return ""
	case []any:
		y, ok := b.([]any)
		if !ok {
			return path + ":type"
		}
		if len(x) != len(y) {
			return path + ":length"
		}
		if unordered {
			x, y = canonSort(x), canonSort(y)
		}
		for i := range x {
			if d := sharedDiff(x[i], y[i], path+"[]", unordered); d != "" {
				return d
			}
		}
		return ""
	default:
		if !eqJSON(a, b) {
			return path
		}
		return ""
	}
}

func canonSort(x []any) []any {
	out := append([]any{}, x...)
	for i, e := range out {
		if m, ok := e.(map[string]any); ok {
			if se, ok := m["storage_entries"].([]any); ok {
				c := map[string]any{}
				for k, v := range m {
					c[k] = v
				}
				c["storage_entries"] = canonSort(se)
				out[i] = c
			}
		}
	}
	sort.Slice(out, func(i, j int) bool {
		a, _ := json.Marshal(out[i])
		b, _ := json.Marshal(out[j])
		return string(a) < string(b)
	})
	return out
}

// ---------------------------------------------------------------- replay

type replayer struct {
	t   *testing.T
	out *vh.Result
	w   *world
	s   *sut
}

func (r *replayer) height() (uint64, error) { return r.s.node.BC.Height() }

func (r *replayer) mutate(a *action) error {
	switch a.Name {
	case "Store":
		b, err := r.s.node.Build(r.w.spec(a))
		if err != nil {
			return err
		}
		if err := r.s.node.StoreBuilt(b); err != nil {
			return err
		}
		pk := pathKey(a.Path)
		if old, ok := r.s.built[pk]; ok && !old.Block.Hash.Equal(b.Block.Hash) {
			return fmt.Errorf("path %s re-built with another hash (concretisation is not deterministic)", pk)
		}
		r.s.built[pk] = b
		r.s.byHash[b.Block.Hash.String()] = pk
		r.s.canon[pk] = a.Txs
		return nil
	case "Revert":
		return r.s.node.BC.RevertHead()
	case "SetL1Head":
		head := &core.L1Head{BlockNumber: uint64(a.N), BlockHash: r.s.hashOf(r.w, a.Path), StateRoot: r.w.unknownH}
		if b, ok := r.s.built[pathKey(a.Path)]; ok {
			head.StateRoot = b.Block.GlobalStateRoot
		}
		return r.s.node.BC.SetL1Head(head)
	case "PcAdvance": // the poller's tick: AdvanceTo(height + 1)
		h, err := r.height()
		if err != nil {
			return err
		}
		r.s.storage.AdvanceTo(h + 1)
		return nil
	case "PcFull", "PcDelta": // the poller's apply: ApplyUpdate(update, number, baseTxCount, height + 1, classes)
		h, err := r.height()
		if err != nil {
			return err
		}
		upd, classes := r.w.update(a)
		_, err = r.s.storage.ApplyUpdate(upd, uint64(a.Num), uint64(a.Base), h+1, classes)
		return err
	}
	return fmt.Errorf("unknown mutator %q", a.Name)
}

// checkHeld compares what the node holds (asked directly, not through RPC) with the model's chain,
// L1 head and pre-confirmed storage after a mutating step. A difference in chain / L1 head is a
// broken harness; a difference in the pre-confirmed storage is reported as a divergence (the storage
// is code under test: sync/preconfirmed/chain_storage.go).
func (r *replayer) checkHeld(beh []step, idx int) error {
	st := &beh[idx]
	h, err := r.height()
	if len(st.Chain) == 0 {
		if err == nil {
			return fmt.Errorf("model chain is empty, node has height %d", h)
		}
	} else {
		if err != nil || int(h) != len(st.Chain)-1 {
			return fmt.Errorf("model height %d, node height %d (%v)", len(st.Chain)-1, h, err)
		}
		hd, err := r.s.node.BC.HeadsHeader()
		if err != nil || !hd.Hash.Equal(r.s.built[pathKey(st.Chain)].Block.Hash) {
			return fmt.Errorf("head hash differs from the block built for path %v (%v)", st.Chain, err)
		}
	}
	l1, err := r.s.node.BC.L1Head()
	if (st.L1 == -1) != (err != nil) || (err == nil && int(l1.BlockNumber) != st.L1) {
		return fmt.Errorf("model l1 %d, node l1 %v (%v)", st.L1, l1.BlockNumber, err)
	}
	// the storage, oldest first
	got := []slotT{}
	lo := 0
	if len(st.Pcs) > 0 {
		lo = st.Pcs[0].Num
	}
	for n := 0; n <= 12 && len(got) == 0; n++ {
		snap := r.s.storage.SnapshotForBlock(uint64(n))
		for e := range snap.OldestFirst() {
			sl := slotT{Num: int(e.Block.Number), Txs: []int{}}
			for _, tx := range e.Block.Transactions {
				sl.Txs = append(sl.Txs, r.w.txID(tx.Hash().String()))
			}
			sl.K = len(sl.Txs)
			got = append(got, sl)
		}
	}
	want := []slotT{}
	for _, s := range st.Pcs {
		want = append(want, slotT{Num: s.Num, K: s.K, Txs: append([]int{}, s.Txs...)})
	}
	_ = lo
	if !eqJSON(got, want) {
		r.diverge(fmt.Sprintf("rpc2:pc-storage:%s:slots", st.A.Name),
			fmt.Sprintf("after %s the pre-confirmed storage holds %v, the poller's calls should leave %v", st.A.Name, got, want),
			beh, idx, want, got)
	}
	return nil
}

func (r *replayer) diverge(key, what string, beh []step, idx int, exp, obs any) {
	r.out.Diverge(vh.Divergence{Key: key, What: what, Step: idx,
		Input:    vh.J{"behaviours": [][]step{beh[:idx+1]}, "backends": []string{r.s.backend}},
		Expected: exp, Observed: obs})
}

// strings that are not "<block>-<processed events>"
var garbageTokens = []string{"abc", "7", "x-1", "-"}

func tokStr(t *tokT) string {
	if t == nil || t.B == -1 {
		return ""
	}
	if t.B == -7 {
		return garbageTokens[t.P%len(garbageTokens)]
	}
	return fmt.Sprintf("%d-%d", t.B, t.P)
}

// knownL1 recognises the one known deviation of getEvents: l1_accepted above the chain height is
// taken raw. It requires that the faithful model predicts exactly what was observed.
func knownL1(st *step, gotPages []page, res *result) string {
	a := &st.A
	h := len(st.Chain) - 1
	if st.L1 <= h || (a.From.K != "l1_accepted" && a.To.K != "l1_accepted") || res.Kind != "pages" {
		return ""
	}
	if len(gotPages) != len(res.Pages) {
		return ""
	}
	for i := range gotPages {
		if itemsDiff(gotPages[i].Evs, res.Pages[i].Evs) != "" {
			return ""
		}
	}
	switch {
	case a.From.K == "l1_accepted" && a.To.K == "l1_accepted":
		return "both"
	case a.From.K == "l1_accepted":
		return "from"
	}
	return "to"
}

// readEvents issues a complete paged query (following the REAL continuation tokens) on every API
// version and compares page by page with what the property demands.
func (r *replayer) readEvents(beh []step, idx int) {
	st := &beh[idx]
	a := &st.A
	shape := "from-" + idShape(a.From, st) + ":to-" + idShape(a.To, st)
	// the harness's own oracle (naive scan of what it stored) must agree with the specification
	if st.Want.Kind == "pages" {
		for _, v8 := range []bool{false, true} {
			want := st.Want
			if v8 {
				want = st.Want8
			}
			o := r.w.oracle(st, r.s.canon, v8)
			bad := o == nil || len(o) != len(want.Pages)
			for i := 0; !bad && i < len(o); i++ {
				bad = itemsDiff(o[i].Evs, want.Pages[i].Evs) != "" || *o[i].More != *want.Pages[i].More
			}
			if bad {
				r.t.Fatalf("harness oracle and specification disagree on step %d (v8=%v): oracle %v, spec %v", idx, v8, o, want.Pages)
			}
		}
		r.out.Count("oracle_cross_checks", 1)
	}
	rawPages := map[string][]map[string]any{}
	for _, v := range versions {
		want, res := st.Want, st.Res
		if v == "v8" {
			want, res = st.Want8, st.Res8
			if a.From.K == "l1_accepted" || a.To.K == "l1_accepted" {
				want = result{Kind: "err", E: "InvalidParams"} // v0.8 has no such tag
				res = want
			}
		}
		var got []page
		var gotErr *result
		token := ""
		notes := ""
		for n := 0; n < len(want.Pages)+len(res.Pages)+4; n++ {
			params, ok := r.s.eventParams(r.w, a, v, token)
			if !ok {
				break
			}
			resp, req, err := r.s.call(v, "getEvents", params)
			if err != nil {
				r.diverge(fmt.Sprintf("rpc2:getEvents:%s:transport", v), "HandleReader failed: "+err.Error(), beh, idx, nil, req)
				break
			}
			r.out.Count("requests", 1)
			rawPages[v] = append(rawPages[v], resp)
			pr := r.s.project(r.w, a, v, resp)
			if pr.Kind == "err" || pr.Kind == "malformed" {
				gotErr = &pr
				break
			}
			if pr.Note != "" && notes == "" {
				notes = pr.Note
			}
			got = append(got, page{Evs: pr.Evs, Tok: pr.Tok})
			token = pr.Type // the token string as the server minted it
			if pr.Tok.B == -1 {
				break
			}
		}
		if _, ok := r.s.eventParams(r.w, a, v, ""); !ok {
			continue
		}
		// compare with the property
		d := ""
		switch {
		case want.Kind == "err":
			if gotErr == nil {
				d = "pages-for-err-" + want.E
			} else if gotErr.E != want.E {
				d = "err-" + strings.SplitN(gotErr.E, ":", 3)[0] + "-for-" + want.E
			}
		case gotErr != nil:
			d = "err-" + strings.SplitN(gotErr.E, ":", 3)[0] + "-for-pages"
		default:
			for i := 0; d == "" && i < len(want.Pages); i++ {
				switch {
				case i >= len(got):
					d = fmt.Sprintf("page%d:missing(token-not-returned)", i)
				default:
					if x := itemsDiff(got[i].Evs, want.Pages[i].Evs); x != "" {
						d = fmt.Sprintf("page%d:%s", i, x)
					} else if (got[i].Tok.B != -1) != *want.Pages[i].More {
						d = fmt.Sprintf("page%d:token-%v-want-%v", i, got[i].Tok.B != -1, *want.Pages[i].More)
					}
				}
			}
			if d == "" && len(got) > len(want.Pages) {
				d = "pages-extra"
			}
			if d == "" && notes != "" {
				d = "concrete"
			}
		}
		if d == "" {
			if want.Kind == "err" {
				r.out.Count("err:"+want.E, 1)
			} else {
				r.out.Count("event_queries_answered", 1)
				r.out.Count("event_pages", len(got))
				n, pc := 0, 0
				for _, p := range got {
					n += len(p.Evs)
					for _, e := range p.Evs {
						if eqInts(e.H, absent) {
							pc++
						}
					}
				}
				r.out.Count("events_returned", n)
				r.out.Count("events_returned_preconfirmed", pc)
				if len(got) > 1 {
					r.out.Count("event_queries_multi_page", 1)
				}
				if pc > 0 && n > pc && len(got) > 1 {
					r.out.Count("event_queries_paging_across_head", 1)
				}
			}
			continue
		}
		key := fmt.Sprintf("rpc2:getEvents:%s:%s:%s", v, shape, d)
		if side := knownL1(st, got, &res); side != "" && v != "v8" {
			key = fmt.Sprintf("rpc2:getEvents:l1-accepted-above-height-unclamped:%s:%s", v, side)
		}
		what := fmt.Sprintf("%s getEvents (%s state) filter %+v from %s to %s chunk %d: %s; chain %v, L1 head %d, pre-confirmed storage %v",
			v, r.s.backend, *a.F, describeID(a.From), describeID(a.To), a.Chunk, d, st.Chain, st.L1, st.Pcs)
		if notes != "" {
			what += " [" + notes + "]"
		}
		var obs any = got
		if gotErr != nil {
			obs = gotErr
		}
		r.diverge(key, what, beh, idx, want, vh.J{"abstract": obs, "responses": rawPages[v]})
	}
	r.crossVersionPages(beh, idx, rawPages, shape)
}

func describeID(id *blockID) string {
	switch id.K {
	case "num":
		return fmt.Sprintf("number %d", id.N)
	case "hash":
		return fmt.Sprintf("hash of %v", id.H)
	}
	return id.K
}

func (r *replayer) crossVersionPages(beh []step, idx int, raw map[string][]map[string]any, shape string) {
	st := &beh[idx]
	for _, pair := range [][2]string{{"v8", "v9"}, {"v9", "v10"}} {
		x, y := raw[pair[0]], raw[pair[1]]
		if x == nil || y == nil {
			continue
		}
		if pair[0] == "v8" && (!eqJSON(st.Want, st.Want8) || st.A.From.K == "l1_accepted" || st.A.To.K == "l1_accepted") {
			continue // the versions' specifications differ here (pending vs pre_confirmed, no l1_accepted tag)
		}
		r.out.Count("version_pairs_compared", 1)
		d := ""
		if len(x) != len(y) {
			d = "pages:length"
		}
		for i := 0; d == "" && i < len(x); i++ {
			_, xe := x[i]["error"]
			_, ye := y[i]["error"]
			switch {
			case xe != ye:
				d = "error-vs-result"
			case xe:
				if !eqJSON(obj(x[i]["error"])["code"], obj(y[i]["error"])["code"]) {
					d = "error.code"
				}
			default:
				d = sharedDiff(x[i]["result"], y[i]["result"], "result", false)
			}
		}
		if d != "" {
			r.diverge(fmt.Sprintf("rpc2:getEvents:%s~%s:%s:%s", pair[0], pair[1], shape, d),
				fmt.Sprintf("%s and %s disagree on %s of getEvents (%s state)", pair[0], pair[1], d, r.s.backend), beh, idx, x, y)
		}
	}
}

// readEventsPage issues ONE page with a token the caller chose (minted for another filter / chunk
// size). Demanded (ForeignTokenSound): the page is a subsequence of this filter's naive scan, no
// longer than chunk_size. Equality with the model of the code is counted, not judged.
func (r *replayer) readEventsPage(beh []step, idx int) {
	st := &beh[idx]
	a := &st.A
	for _, v := range versions {
		params, ok := r.s.eventParams(r.w, a, v, tokStr(a.Tok))
		if !ok {
			continue
		}
		resp, req, err := r.s.call(v, "getEvents", params)
		if err != nil {
			r.diverge(fmt.Sprintf("rpc2:getEvents:%s:transport", v), "HandleReader failed: "+err.Error(), beh, idx, nil, req)
			continue
		}
		r.out.Count("requests", 1)
		got := r.s.project(r.w, a, v, resp)
		res := st.Res
		if v == "v8" {
			res = st.Res8
		}
		if a.Tok.B == -7 { // not a token at all: INVALID_CONTINUATION_TOKEN is demanded
			want := st.Want
			if d := firstDiff("getEvents", &got, &want); d != "" {
				r.diverge(fmt.Sprintf("rpc2:getEvents:%s:garbage-token:%s", v, d),
					fmt.Sprintf("%s getEvents (%s state) with continuation_token %q answered %s", v, r.s.backend, tokStr(a.Tok), brief(&got)),
					beh, idx, want, vh.J{"abstract": got, "response": resp})
			} else {
				r.out.Count("err:"+want.E, 1)
			}
			continue
		}
		// naive scan of the whole range [0, to] for this filter
		full := *st
		full.A.From = &blockID{K: "none"}
		full.A.Chunk = 1 << 20
		all := r.w.oracle(&full, r.s.canon, v == "v8")
		d := ""
		switch {
		case got.Kind != "page":
			d = "err-" + strings.SplitN(got.E, ":", 3)[0] + "-for-page"
		case len(got.Evs) > a.Chunk:
			d = "longer-than-chunk"
		case got.Note != "":
			d = "concrete"
		default:
			j := 0
			for _, e := range got.Evs {
				for j < len(all[0].Evs) && itemsDiff([]item{e}, []item{all[0].Evs[j]}) != "" {
					j++
				}
				if j == len(all[0].Evs) {
					d = "not-a-subsequence-of-the-naive-scan"
					break
				}
				j++
			}
		}
		if d != "" {
			r.diverge(fmt.Sprintf("rpc2:getEvents:%s:foreign-token:%s", v, d),
				fmt.Sprintf("%s getEvents (%s state) filter %+v to %s chunk %d token %s: %s %s", v, r.s.backend, *a.F,
					describeID(a.To), a.Chunk, tokStr(a.Tok), d, got.Note), beh, idx, all, vh.J{"abstract": got, "response": resp})
			continue
		}
		r.out.Count("foreign_token_pages", 1)
		if itemsDiff(got.Evs, res.Evs) == "" && tokStr(got.Tok) == tokStr(res.Tok) {
			r.out.Count("foreign_token_pages_as_modelled", 1)
		} else {
			r.out.Count("foreign_token_pages_not_as_modelled", 1)
		}
	}
}

var stateMethods = map[string]bool{"getStorageAt": true, "getNonce": true, "getClassHashAt": true, "getClassAt": true, "getClass": true}

func (r *replayer) read(beh []step, idx int) {
	st := &beh[idx]
	a := &st.A
	raw := map[string]map[string]any{}
	shape := idShape(a.ID, st)
	pcData := viewSlots(st) != nil
	switch a.Name {
	case "getTransactionByHash", "getTransactionReceipt", "getTransactionStatus":
		switch {
		case a.T == 999:
			shape = "tx-unknown"
		case st.Want.Kind == "err":
			shape = "tx-not-held"
		case (st.Want.Kind == "receipt" || st.Want.Kind == "status") && st.Want.Fin == "PRE_CONFIRMED":
			shape = "tx-preconfirmed"
		case st.Want.Kind == "tx" && !eqJSON(st.Want, st.Want8):
			shape = "tx-preconfirmed"
		default:
			shape = "tx-canonical"
		}
	default:
		if a.ID != nil && a.ID.K == "pre_confirmed" {
			if pcData {
				shape = fmt.Sprintf("pre_confirmed-depth%d", len(viewSlots(st)))
			} else {
				shape = "pre_confirmed-fallback"
			}
		}
	}
	for _, v := range versions {
		params := r.s.params(r.w, a, v)
		resp, req, err := r.s.call(v, a.Name, params)
		if err != nil {
			r.diverge(fmt.Sprintf("rpc2:%s:%s:transport", a.Name, v), "HandleReader failed: "+err.Error(), beh, idx, nil, req)
			continue
		}
		raw[v] = resp
		got := r.s.project(r.w, a, v, resp)
		r.out.Count("requests", 1)
		want := st.Want
		if v == "v8" {
			want = st.Want8
		}
		if v == "v9" && want.Kind == "update" && eqInts(want.Old, absent) {
			// specification difference: v0.9's PRE_CONFIRMED_STATE_UPDATE still has old_root (juno: 0x0),
			// v0.10 dropped the field
			want.Old = []int{}
		}
		d := firstDiff(a.Name, &got, &want)
		if d != "" && st.Lax && v == "v9" && got.Kind == "err" && got.E == "ContractNotFound" {
			// stale view writing storage of a contract nobody deploys: v0.9 checks the class hash first
			r.out.Count("tolerated_inconsistent_stale_view", 1)
			continue
		}
		if d == "" {
			if want.Kind != "err" {
				r.out.Count("answers_with_data", 1)
				r.out.Count("data:"+a.Name, 1)
				if v != "v8" && strings.HasPrefix(shape, "pre_confirmed-depth") {
					r.out.Count("preconfirmed_reads_with_data:"+a.Name, 1)
				}
				if v != "v8" && shape == "tx-preconfirmed" {
					r.out.Count("preconfirmed_tx_found:"+a.Name, 1)
				}
			} else {
				r.out.Count("err:"+want.E, 1)
			}
			continue
		}
		key := fmt.Sprintf("rpc2:%s:%s:%s:%s", a.Name, v, shape, d)
		what := fmt.Sprintf("%s %s (%s state) answered %s where the chain %v with L1 head %d and the pre-confirmed storage %v demand %s",
			v, a.Name, r.s.backend, brief(&got), st.Chain, st.L1, st.Pcs, brief(&want))
		if got.Note != "" {
			what += " [" + got.Note + "]"
		}
		r.diverge(key, what, beh, idx, want, vh.J{"abstract": got, "request": params, "response": resp})
	}
	// the served versions agree wherever their responses share fields
	for _, pair := range [][2]string{{"v8", "v9"}, {"v9", "v10"}} {
		x, y := raw[pair[0]], raw[pair[1]]
		if x == nil || y == nil {
			continue
		}
		if pair[0] == "v8" && (!eqJSON(st.Want, st.Want8) || (a.ID != nil && a.ID.K == "pre_confirmed")) {
			continue // pending (v0.8) and pre_confirmed (v0.9+) are different things
		}
		if st.Lax {
			continue
		}
		_, xe := x["error"]
		_, ye := y["error"]
		var d string
		switch {
		case xe != ye:
			d = "error-vs-result"
		case xe:
			if !eqJSON(obj(x["error"])["code"], obj(y["error"])["code"]) {
				d = "error.code"
			}
		default:
			d = sharedDiff(x["result"], y["result"], "result", false)
		}
		r.out.Count("version_pairs_compared", 1)
		if d != "" {
			r.diverge(fmt.Sprintf("rpc2:%s:%s~%s:%s:%s", a.Name, pair[0], pair[1], shape, d),
				fmt.Sprintf("%s and %s disagree on %s of %s (%s state)", pair[0], pair[1], d, a.Name, r.s.backend), beh, idx, x, y)
		}
	}
}

func brief(r *result) string {
	switch r.Kind {
	case "err":
		return r.E
	case "block":
		return fmt.Sprintf("block %d hash=%v parent=%v %s txs=%v", r.N, r.Hash, r.Parent, r.Status, r.Txs)
	case "num":
		return fmt.Sprintf("%d", r.N)
	case "tx":
		return fmt.Sprintf("tx %d %s", r.T, r.Type)
	case "receipt":
		return fmt.Sprintf("receipt of tx %d in block %d %v %s %s", r.T, r.N, r.Hash, r.Fin, r.Exec)
	case "status":
		return r.Fin + "/" + r.Exec
	case "update":
		b, _ := json.Marshal(r.Diff)
		return fmt.Sprintf("update of %v old=%v new=%v %s", r.Hash, r.Old, r.New, b)
	case "felt":
		return fmt.Sprintf("0x%x", r.V)
	case "classhash", "class":
		return fmt.Sprintf("class k%d", r.C)
	}
	return r.Kind
}

func TestRpc2Replay(t *testing.T) {
	if !vh.Enabled() {
		t.Skip()
	}
	var in input
	if err := vh.Input(&in); err != nil {
		t.Fatal(err)
	}
	out := vh.NewResult()
	defer out.Write()
	backends := in.Backends
	if len(backends) == 0 {
		backends = []string{"legacy", "newstate"}
	}
	steps := 0
	for bi, beh := range in.Behaviours {
		for _, be := range backends {
			s, err := newSUT(be == "newstate")
			if err != nil {
				t.Fatal(err)
			}
			r := &replayer{t: t, out: out, w: newWorld(vh.Seed()), s: s}
			for i := range beh {
				st := &beh[i]
				switch st.A.Name {
				case "Store", "Revert", "SetL1Head", "PcAdvance", "PcFull", "PcDelta":
					if err := r.mutate(&st.A); err != nil {
						if strings.HasPrefix(st.A.Name, "Pc") {
							r.diverge(fmt.Sprintf("rpc2:pc-storage:%s:rejected", st.A.Name),
								fmt.Sprintf("the pre-confirmed storage rejected the poller's %s: %v", st.A.Name, err), beh, i, nil, err.Error())
							break
						}
						t.Fatalf("behaviour %d step %d %s on %s: %v", in.First+bi, i, st.A.Name, be, err)
					}
					if err := r.checkHeld(beh, i); err != nil {
						t.Fatalf("behaviour %d step %d %s on %s: %v", in.First+bi, i, st.A.Name, be, err)
					}
					out.Count("mutations_"+st.A.Name, 1)
				case "getEvents":
					if st.A.Tok != nil {
						r.readEventsPage(beh, i)
					} else {
						r.readEvents(beh, i)
					}
				default:
					r.read(beh, i)
				}
				steps++
			}
		}
		if bi < 2 {
			brief := []vh.J{}
			for _, st := range beh[:min(len(beh), 8)] {
				brief = append(brief, vh.J{"a": st.A.Name, "chain": st.Chain, "l1": st.L1, "pcs": st.Pcs})
			}
			out.Sample(vh.J{"behaviour": in.First + bi, "steps": len(beh), "first_steps": brief})
		}
	}
	out.Done(len(in.Behaviours)*len(backends), steps)
}

// Engine "rpc2" (specification growth G03): replays RpcEvents.tla behaviours through the REAL stack
// jsonrpc.Server.HandleReader <- real method tables of rpc.Handler (v0.8 / v0.9 / v0.10) <- real
// blockchain.Blockchain (chainkit node, both state backends) and a real sync.Synchronizer (never
// run) whose sync/preconfirmed.ChainStorage the harness feeds the way the poller does
// (AdvanceTo / ApplyUpdate with wire-format updates), linked against the FFI stubs.
//
// world_test.go: behaviour format, concretisation (abstract ids -> felts, transactions, receipts
// with the model's events, state diffs, classes, wire-format pre-confirmed updates) and the
// harness-side oracle for event queries (naive scan of what the harness stored).
package rpc2

import (
	"fmt"
	"strconv"
	"strings"

	"github.com/NethermindEth/juno/core"
	"github.com/NethermindEth/juno/core/felt"
	_ "github.com/NethermindEth/juno/encoder/registry"
	"github.com/NethermindEth/juno/starknet"

	"verifharness/internal/chainkit"
)

// ---------------------------------------------------------------- behaviour format (RpcEventsMBT)

type blockID struct {
	K string `json:"k"`
	N int    `json:"n"`
	H []int  `json:"h"`
}

type diffT struct {
	Declared0 []int   `json:"declared0"`
	Declared1 []int   `json:"declared1"`
	Deployed  [][]int `json:"deployed"`
	Replaced  [][]int `json:"replaced"`
	Storage   [][]int `json:"storage"`
	Nonces    [][]int `json:"nonces"`
}

type evT struct {
	A int   `json:"a"`
	K []int `json:"k"`
}

type filterT struct {
	Addrs []int   `json:"addrs"`
	Keys  [][]int `json:"keys"`
	Huge  int     `json:"huge"` // 1 = one position with 1023 keys no event has (at the limit), 2 = 1024 of them (over)
}

// eff is the filter the request really carries (RpcEvents!Eff).
func (f *filterT) eff() *filterT {
	if f.Huge == 1 {
		return &filterT{Addrs: f.Addrs, Keys: [][]int{{99}}}
	}
	return f
}

type tokT struct {
	B int `json:"b"`
	P int `json:"p"`
}

type action struct {
	Name  string   `json:"name"`
	V     int      `json:"v"`
	Path  []int    `json:"path"`
	Txs   []int    `json:"txs"`
	Diff  *diffT   `json:"diff"`
	Evs   [][]evT  `json:"evs"`
	N     int      `json:"n"`
	Num   int      `json:"num"`
	K     int      `json:"k"`
	Idx   int      `json:"idx"`
	Base  int      `json:"base"`
	ID    *blockID `json:"id"`
	T     int      `json:"t"`
	I     int      `json:"i"`
	C     int      `json:"c"`
	S     int      `json:"s"`
	F     *filterT `json:"f"`
	From  *blockID `json:"from"`
	To    *blockID `json:"to"`
	Chunk int      `json:"chunk"`
	Tok   *tokT    `json:"tok"`
}

// item is one emitted event in the abstract: block number, block hash (path; [9] = absent),
// transaction id, transaction index, event index.
type item struct {
	B  int   `json:"b"`
	H  []int `json:"h"`
	T  int   `json:"t"`
	Ti int   `json:"ti"`
	Ei int   `json:"ei"`
}

type page struct {
	Evs  []item `json:"evs"`
	Tok  *tokT  `json:"tok,omitempty"`  // model of the code: {-1,0} = none
	More *bool  `json:"more,omitempty"` // property: more pages follow
}

// result is the abstract answer of a request (union over the kinds of RpcEvents.tla).
type result struct {
	Kind   string   `json:"kind"`
	E      string   `json:"e,omitempty"`
	N      int      `json:"n"`
	Hash   []int    `json:"hash,omitempty"`
	Parent []int    `json:"parent,omitempty"`
	Status string   `json:"status,omitempty"`
	Txs    []int    `json:"txs,omitempty"`
	Execs  []string `json:"execs,omitempty"`
	T      int      `json:"t,omitempty"`
	Type   string   `json:"type,omitempty"`
	Fin    string   `json:"fin,omitempty"`
	Exec   string   `json:"exec,omitempty"`
	Old    []int    `json:"old,omitempty"`
	New    []int    `json:"new,omitempty"`
	Diff   *diffT   `json:"diff,omitempty"`
	V      int      `json:"v"`
	C      int      `json:"c,omitempty"`
	Pages  []page   `json:"pages,omitempty"`
	Evs    []item   `json:"evs,omitempty"`
	Tok    *tokT    `json:"tok,omitempty"`
	Note   string   `json:"note,omitempty"` // harness-side detail of a concrete mismatch
}

type slotT struct {
	Num  int   `json:"num"`
	Path []int `json:"path"`
	K    int   `json:"k"`
	Txs  []int `json:"txs"`
}

type step struct {
	A     action  `json:"a"`
	Res   result  `json:"res"`
	Want  result  `json:"want"`
	Res8  result  `json:"res8"`
	Want8 result  `json:"want8"`
	Chain []int   `json:"chain"`
	L1    int     `json:"l1"`
	Pcs   []slotT `json:"pcs"`
	Lax   bool    `json:"lax"` // a read of inconsistent (stale) pre-confirmed data: v0.9 and v0.10 answer differently
}

type input struct {
	Behaviours [][]step `json:"behaviours"`
	Backends   []string `json:"backends"` // subset of {"legacy","newstate"}; default both
	First      int      `json:"first"`
}

// ---------------------------------------------------------------- concretisation

func pathKey(p []int) string {
	var sb strings.Builder
	for _, v := range p {
		sb.WriteString(strconv.Itoa(v))
	}
	return sb.String()
}

type world struct {
	seed     int64
	addr     map[int]*felt.Felt // contract / emitter id -> address (9 = never deployed, never emits)
	slot     map[int]*felt.Felt
	key      map[int]*felt.Felt // event key id -> felt
	classH   map[int]*felt.Felt // class id -> class hash (9 = never declared)
	casmH    *felt.Felt
	cairo0   core.ClassDefinition
	sierra   *core.SierraClass
	txs      map[int]core.Transaction
	rcs      map[int]*core.TransactionReceipt
	evs      map[int][]evT // abstract events of a transaction, as the model gave them
	unknownH *felt.Felt
	hugeKeys []string
}

var protocolVersions = []string{"0.13.2", "0.13.4", "0.14.0", "0.14.1"}

func newWorld(seed int64) *world {
	g := chainkit.NewGen(seed*7919 + 23)
	w := &world{seed: seed, addr: map[int]*felt.Felt{}, slot: map[int]*felt.Felt{}, key: map[int]*felt.Felt{},
		classH: map[int]*felt.Felt{}, txs: map[int]core.Transaction{}, rcs: map[int]*core.TransactionReceipt{},
		evs: map[int][]evT{}}
	for _, c := range []int{1, 2, 9} {
		w.addr[c] = g.Felt()
	}
	w.slot[1] = g.Felt()
	w.slot[2] = chainkit.F(uint64(5 + seed%3))
	// one random key and one tiny key (0x1 is a legal event key and the smallest bloom input)
	w.key[1] = g.Felt()
	w.key[2] = chainkit.F(uint64(1 + seed%2))
	ch, cls := g.Cairo0Class()
	sh, c1, _, scls := g.SierraClass()
	w.classH[1], w.cairo0 = &ch, cls
	w.classH[2], w.sierra, w.casmH = &sh, scls, &c1
	w.classH[9] = g.Felt()
	w.unknownH = g.Felt()
	for i := 0; i < 1024; i++ {
		w.hugeKeys = append(w.hugeKeys, chainkit.F(uint64(1000+i)).String())
	}
	return w
}

func (w *world) event(t, ei int, e evT) *core.Event {
	keys := make([]felt.Felt, len(e.K))
	for i, k := range e.K {
		keys[i] = *w.key[k]
	}
	return &core.Event{From: w.addr[e.A], Keys: keys, Data: []felt.Felt{*chainkit.F(uint64(t)), *chainkit.F(uint64(ei))}}
}

// tx builds (once) the transaction with abstract id t and its receipt carrying the model's events;
// the kind is the id's last digit (MCRpcEvents!MCTxs): 1 invoke v3, 2 and 7 L1 handlers, 3 invoke
// v1 with a reverted receipt, 4 deploy account, 5 declare, 6 legacy deploy.
func (w *world) tx(t int, evs []evT) (core.Transaction, *core.TransactionReceipt) {
	if tx, ok := w.txs[t]; ok {
		return tx, w.rcs[t]
	}
	g := chainkit.NewGen(w.seed*1000003 + int64(t))
	var kind string
	switch t % 10 {
	case 1:
		kind = "invoke3"
	case 2, 7:
		kind = "l1handler"
	case 3:
		kind = "invoke1"
	case 4:
		kind = []string{"deployaccount3", "deployaccount1"}[(t/10)%2]
	case 5:
		kind = []string{"declare3", "declare2", "declare1"}[(t/10)%3]
	case 6:
		kind = "deploy"
	default:
		kind = "invoke0"
	}
	tx := g.Tx(kind)
	if kind == "deploy" {
		chainkit.SetTxHash(tx, g.Felt())
	}
	events := make([]*core.Event, len(evs))
	for i, e := range evs {
		events[i] = w.event(t, i, e)
	}
	rc := g.Receipt(tx, events)
	rc.Reverted = t%10 == 3
	rc.RevertReason = ""
	if rc.Reverted {
		rc.RevertReason = fmt.Sprintf("reverted-%d", t)
	}
	w.txs[t], w.rcs[t], w.evs[t] = tx, rc, evs
	return tx, rc
}

func (w *world) txHash(t int) *felt.Felt {
	if tx, ok := w.txs[t]; ok {
		return tx.Hash()
	}
	return w.unknownH
}

func (w *world) txID(h string) int {
	for t, tx := range w.txs {
		if tx.Hash().String() == h {
			return t
		}
	}
	return -1
}

func (w *world) coreDiff(dd *diffT) (*core.StateDiff, map[felt.Felt]core.ClassDefinition) {
	d := chainkit.EmptyDiff()
	classes := map[felt.Felt]core.ClassDefinition{}
	for _, k := range dd.Declared0 {
		d.DeclaredV0Classes = append(d.DeclaredV0Classes, w.classH[k])
		classes[*w.classH[k]] = w.cairo0
	}
	for _, k := range dd.Declared1 {
		d.DeclaredV1Classes[*w.classH[k]] = w.casmH
		classes[*w.classH[k]] = w.sierra
	}
	for _, x := range dd.Deployed {
		d.DeployedContracts[*w.addr[x[0]]] = w.classH[x[1]]
	}
	for _, x := range dd.Replaced {
		d.ReplacedClasses[*w.addr[x[0]]] = w.classH[x[1]]
	}
	for _, x := range dd.Storage {
		m := d.StorageDiffs[*w.addr[x[0]]]
		if m == nil {
			m = map[felt.Felt]*felt.Felt{}
			d.StorageDiffs[*w.addr[x[0]]] = m
		}
		m[*w.slot[x[1]]] = chainkit.F(uint64(x[2]))
	}
	for _, x := range dd.Nonces {
		d.Nonces[*w.addr[x[0]]] = chainkit.F(uint64(x[1]))
	}
	return d, classes
}

func (w *world) spec(a *action) chainkit.BlockSpec {
	n := len(a.Path) - 1
	d, classes := w.coreDiff(a.Diff)
	txs := make([]core.Transaction, 0, len(a.Txs))
	rcs := make([]*core.TransactionReceipt, 0, len(a.Txs))
	for i, t := range a.Txs {
		tx, rc := w.tx(t, a.Evs[i])
		txs = append(txs, tx)
		rcs = append(rcs, rc)
	}
	return chainkit.BlockSpec{Version: protocolVersions[(n+a.V)%4], Timestamp: uint64(1000 + 10*n + a.V),
		Diff: d, Classes: classes, Txs: txs, Receipts: rcs}
}

// ---------------------------------------------------------------- wire format (what the poller receives)

func feltsPtr(f []felt.Felt) *[]felt.Felt { out := append([]felt.Felt{}, f...); return &out }

func wireBounds(rb map[core.Resource]core.ResourceBounds) *map[starknet.Resource]starknet.ResourceBounds {
	if rb == nil {
		return nil
	}
	out := map[starknet.Resource]starknet.ResourceBounds{}
	for r, b := range rb {
		out[starknet.Resource(r)] = starknet.ResourceBounds{MaxAmount: chainkit.F(b.MaxAmount), MaxPricePerUnit: b.MaxPricePerUnit}
	}
	return &out
}

func wireDA(m core.DataAvailabilityMode) *starknet.DataAvailabilityMode {
	x := starknet.DataAvailabilityMode(m)
	return &x
}

// wireTx builds a FRESH feeder-gateway transaction from a core transaction (the inverse of
// sn2core.AdaptTransaction for the fields chainkit sets).
func wireTx(tx core.Transaction) starknet.Transaction {
	v3 := func(t *starknet.Transaction, rb map[core.Resource]core.ResourceBounds, tip uint64, pm, ad []felt.Felt,
		nda, fda core.DataAvailabilityMode,
	) {
		if rb == nil {
			return
		}
		t.ResourceBounds = wireBounds(rb)
		t.Tip = chainkit.F(tip)
		t.PaymasterData = feltsPtr(pm)
		t.AccountDeploymentData = feltsPtr(ad)
		t.NonceDAMode, t.FeeDAMode = wireDA(nda), wireDA(fda)
	}
	switch x := tx.(type) {
	case *core.InvokeTransaction:
		t := starknet.Transaction{Hash: x.TransactionHash.Clone(), Type: starknet.TxnInvoke, Version: (*felt.Felt)(x.Version).Clone(),
			ContractAddress: x.ContractAddress, EntryPointSelector: x.EntryPointSelector, SenderAddress: x.SenderAddress,
			Nonce: x.Nonce, MaxFee: x.MaxFee, CallData: feltsPtr(x.CallData), Signature: feltsPtr(x.TransactionSignature)}
		v3(&t, x.ResourceBounds, x.Tip, x.PaymasterData, x.AccountDeploymentData, x.NonceDAMode, x.FeeDAMode)
		return t
	case *core.L1HandlerTransaction:
		return starknet.Transaction{Hash: x.TransactionHash.Clone(), Type: starknet.TxnL1Handler, Version: (*felt.Felt)(x.Version).Clone(),
			ContractAddress: x.ContractAddress, EntryPointSelector: x.EntryPointSelector, Nonce: x.Nonce, CallData: feltsPtr(x.CallData)}
	case *core.DeployAccountTransaction:
		t := starknet.Transaction{Hash: x.TransactionHash.Clone(), Type: starknet.TxnDeployAccount, Version: (*felt.Felt)(x.Version).Clone(),
			ContractAddress: x.ContractAddress, ContractAddressSalt: x.ContractAddressSalt, ClassHash: x.ClassHash,
			ConstructorCallData: feltsPtr(x.ConstructorCallData), MaxFee: x.MaxFee, Signature: feltsPtr(x.TransactionSignature), Nonce: x.Nonce}
		v3(&t, x.ResourceBounds, x.Tip, x.PaymasterData, nil, x.NonceDAMode, x.FeeDAMode)
		return t
	case *core.DeclareTransaction:
		t := starknet.Transaction{Hash: x.TransactionHash.Clone(), Type: starknet.TxnDeclare, Version: (*felt.Felt)(x.Version).Clone(),
			ClassHash: x.ClassHash, SenderAddress: x.SenderAddress, MaxFee: x.MaxFee, Signature: feltsPtr(x.TransactionSignature),
			Nonce: x.Nonce, CompiledClassHash: x.CompiledClassHash}
		v3(&t, x.ResourceBounds, x.Tip, x.PaymasterData, x.AccountDeploymentData, x.NonceDAMode, x.FeeDAMode)
		return t
	case *core.DeployTransaction:
		return starknet.Transaction{Hash: x.TransactionHash.Clone(), Type: starknet.TxnDeploy, Version: (*felt.Felt)(x.Version).Clone(),
			ContractAddress: x.ContractAddress, ContractAddressSalt: x.ContractAddressSalt, ClassHash: x.ClassHash,
			ConstructorCallData: feltsPtr(x.ConstructorCallData)}
	}
	panic(fmt.Sprintf("rpc2: unsupported tx kind %T", tx))
}

func wireReceipt(rc *core.TransactionReceipt, idx int) *starknet.TransactionReceipt {
	evs := make([]*starknet.Event, len(rc.Events))
	for i, e := range rc.Events {
		evs[i] = &starknet.Event{From: e.From.Clone(), Keys: append([]felt.Felt{}, e.Keys...), Data: append([]felt.Felt{}, e.Data...)}
	}
	st := starknet.Succeeded
	if rc.Reverted {
		st = starknet.Reverted
	}
	return &starknet.TransactionReceipt{TransactionHash: rc.TransactionHash.Clone(), ActualFee: rc.Fee.Clone(), Events: evs,
		ExecutionStatus: st, RevertError: rc.RevertReason, TransactionIndex: uint64(idx),
		ExecutionResources: &starknet.ExecutionResources{Steps: 7, TotalGasConsumed: &starknet.GasConsumed{L1Gas: 1, L2Gas: 2, L1DataGas: 3}}}
}

type kv = struct {
	Key   *felt.Felt `json:"key"`
	Value *felt.Felt `json:"value"`
}
type ac = struct {
	Address   *felt.Felt `json:"address"`
	ClassHash *felt.Felt `json:"class_hash"`
}

func (w *world) wireDiff(dd *diffT) *starknet.StateDiff {
	d := &starknet.StateDiff{StorageDiffs: map[string][]kv{}, Nonces: map[string]*felt.Felt{}}
	if dd == nil {
		return d
	}
	for _, x := range dd.Storage {
		c := w.addr[x[0]].String()
		d.StorageDiffs[c] = append(d.StorageDiffs[c], kv{Key: w.slot[x[1]].Clone(), Value: chainkit.F(uint64(x[2]))})
	}
	for _, x := range dd.Nonces {
		d.Nonces[w.addr[x[0]].String()] = chainkit.F(uint64(x[1]))
	}
	for _, x := range dd.Deployed {
		d.DeployedContracts = append(d.DeployedContracts, ac{Address: w.addr[x[0]].Clone(), ClassHash: w.classH[x[1]].Clone()})
	}
	for _, x := range dd.Replaced {
		d.ReplacedClasses = append(d.ReplacedClasses, ac{Address: w.addr[x[0]].Clone(), ClassHash: w.classH[x[1]].Clone()})
	}
	for _, k := range dd.Declared0 {
		d.OldDeclaredContracts = append(d.OldDeclaredContracts, w.classH[k].Clone())
	}
	for _, k := range dd.Declared1 {
		d.DeclaredClasses = append(d.DeclaredClasses, struct {
			ClassHash         *felt.Felt `json:"class_hash"`
			CompiledClassHash *felt.Felt `json:"compiled_class_hash"`
		}{ClassHash: w.classH[k].Clone(), CompiledClassHash: w.casmH.Clone()})
	}
	return d
}

// wireParts: transactions, receipts and per-transaction state diffs of an update; the FIRST
// transaction of a block carries the block's state diff (first = index `base` == 0).
func (w *world) wireParts(a *action, base int) ([]starknet.Transaction, []*starknet.TransactionReceipt, []*starknet.StateDiff) {
	txs := make([]starknet.Transaction, len(a.Txs))
	rcs := make([]*starknet.TransactionReceipt, len(a.Txs))
	dfs := make([]*starknet.StateDiff, len(a.Txs))
	for i, t := range a.Txs {
		tx, rc := w.tx(t, a.Evs[i])
		txs[i], rcs[i] = wireTx(tx), wireReceipt(rc, base+i)
		if base+i == 0 {
			dfs[i] = w.wireDiff(a.Diff)
		} else {
			dfs[i] = w.wireDiff(nil)
		}
	}
	return txs, rcs, dfs
}

func fu(v uint64) *felt.Felt { return chainkit.F(v) }

// update turns the model's PcFull / PcDelta into the wire-side value handed to ApplyUpdate, and
// the declared-class definitions the poller's backfill registers with it.
func (w *world) update(a *action) (starknet.PreConfirmedUpdate, map[felt.Felt]core.ClassDefinition) {
	var classes map[felt.Felt]core.ClassDefinition
	if len(a.Txs) > 0 && a.Diff != nil && len(a.Diff.Declared0)+len(a.Diff.Declared1) > 0 {
		_, classes = w.coreDiff(a.Diff)
	}
	id := "round-" + pathKey(a.Path)
	if a.Name == "PcDelta" {
		txs, rcs, dfs := w.wireParts(a, a.Base)
		return starknet.PreConfirmedDeltaUpdate{BlockIdentifier: id, Transactions: txs, Receipts: rcs, TransactionStateDiffs: dfs}, classes
	}
	txs, rcs, dfs := w.wireParts(a, 0)
	return starknet.PreConfirmedBlock{BlockIdentifier: id, Transactions: txs, Receipts: rcs, TransactionStateDiffs: dfs,
		Status: "PRE_CONFIRMED", Timestamp: uint64(1_700_000_000 + 10*a.Num + a.K), Version: core.Ver0_14_0.String(),
		SequencerAddress: fu(0x5e9), L1GasPrice: &starknet.GasPrice{PriceInWei: fu(11), PriceInFri: fu(12)},
		L2GasPrice: &starknet.GasPrice{PriceInWei: fu(13), PriceInFri: fu(14)}, L1DAMode: starknet.Blob,
		L1DataGasPrice: &starknet.GasPrice{PriceInWei: fu(15), PriceInFri: fu(16)}}, classes
}

// ---------------------------------------------------------------- oracle for event queries

// flatEv is one stored event with its position.
type flatEv struct {
	t, ti, ei int
	e         evT
}

func (w *world) flat(txs []int) []flatEv {
	var out []flatEv
	for ti, t := range txs {
		for ei, e := range w.evs[t] {
			out = append(out, flatEv{t: t, ti: ti, ei: ei, e: e})
		}
	}
	return out
}

func matchEvent(f *filterT, e evT) bool {
	if len(f.Addrs) > 0 {
		ok := false
		for _, a := range f.Addrs {
			ok = ok || a == e.A
		}
		if !ok {
			return false
		}
	}
	if len(e.K) < len(f.Keys) {
		return false
	}
	for p, ks := range f.Keys {
		if len(ks) == 0 {
			continue
		}
		ok := false
		for _, k := range ks {
			ok = ok || k == e.K[p]
		}
		if !ok {
			return false
		}
	}
	return true
}

// extBlock is a block of (canonical chain ∪ view): its number, hash (path, [9] for none) and
// transactions.
type extBlock struct {
	n    int
	hash []int
	txs  []int
}

// extChain builds, from what the harness stored (canonical blocks by path) and what it fed into the
// pre-confirmed storage (st.Pcs), the chain a reader of the given version class may see.
func extChain(st *step, canon map[string][]int, v8 bool) []extBlock {
	var out []extBlock
	for n := range st.Chain {
		p := st.Chain[:n+1]
		out = append(out, extBlock{n: n, hash: append([]int{}, p...), txs: canon[pathKey(p)]})
	}
	h := len(st.Chain) - 1
	var view []extBlock
	if !v8 {
		for _, s := range st.Pcs {
			if s.Num > h {
				view = append(view, extBlock{n: s.Num, hash: []int{9}, txs: s.Txs})
			}
		}
		if len(view) > 0 && view[0].n != h+1 {
			view = nil
		}
	}
	if len(view) == 0 {
		view = []extBlock{{n: h + 1, hash: []int{9}}} // the fallback: an empty block on the head
	}
	return append(out, view...)
}

// oracle answers a complete paged query by a naive scan; nil = the request must fail.
func (w *world) oracle(st *step, canon map[string][]int, v8 bool) []page {
	a := &st.A
	ext := extChain(st, canon, v8)
	h := len(st.Chain) - 1
	tip := ext[len(ext)-1].n
	hashNum := func(p []int) int {
		if len(p) <= len(st.Chain) && len(p) > 0 && pathKey(p) == pathKey(st.Chain[:len(p)]) {
			return len(p) - 1
		}
		return -2
	}
	l1 := func() int {
		if st.L1 == -1 {
			return -2
		}
		return min(st.L1, h)
	}
	var lo, hi int
	switch a.From.K {
	case "none":
		lo = 0
	case "num":
		lo = a.From.N
	case "hash":
		lo = hashNum(a.From.H)
	case "latest":
		lo = h
	case "l1_accepted":
		lo = l1()
	default:
		lo = tip
	}
	switch a.To.K {
	case "none", "latest":
		hi = h
	case "num":
		hi = min(a.To.N, h)
	case "hash":
		hi = hashNum(a.To.H)
	case "l1_accepted":
		hi = l1()
	default:
		hi = tip
	}
	if lo == -2 || hi == -2 {
		return nil
	}
	var all []item
	for _, b := range ext {
		if b.n < lo || b.n > hi {
			continue
		}
		for _, fe := range w.flat(b.txs) {
			if matchEvent(a.F.eff(), fe.e) {
				all = append(all, item{B: b.n, H: b.hash, T: fe.t, Ti: fe.ti, Ei: fe.ei})
			}
		}
	}
	var pages []page
	for {
		more := len(all) > a.Chunk
		n := min(len(all), a.Chunk)
		pages = append(pages, page{Evs: append([]item{}, all[:n]...), More: &more})
		all = all[n:]
		if !more {
			return pages
		}
	}
}

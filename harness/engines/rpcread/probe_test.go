package rpcread

import (
	"bytes"
	"sync"

	"github.com/NethermindEth/juno/db"
)

// probe instruments the READ side of the key-value store the node under test runs on:
//
//   - poisoning: every value / iterator key lent to the caller is a private copy that is scribbled
//     over as soon as the contract says it stops being valid (after the Get callback returns, at
//     the iterator's next move or Close). Code that keeps an alias of a lent buffer (harmless on
//     db/memory, wrong on Pebble) then serves garbage, which the response comparison sees.
//   - counting: the number of store reads one request performs.
//   - gating: the k-th store read of the request in flight blocks until the harness releases it,
//     so that Store / RevertHead / SetL1Head can be run "while the request is being served", at
//     every point between two of its reads, deterministically.
//
// Writes (Update / Write / batches' Write) go to the inner store untouched.
type probe struct {
	mu       sync.Mutex
	poison   bool
	counting bool
	reads    int
	armed    bool
	gateAt   int
	seen     int
	paused   chan struct{}
	release  chan struct{}
}

func (p *probe) onRead() {
	p.mu.Lock()
	if p.counting {
		p.reads++
	}
	if !p.armed {
		p.mu.Unlock()
		return
	}
	p.seen++
	if p.seen != p.gateAt {
		p.mu.Unlock()
		return
	}
	p.armed = false
	paused, release := p.paused, p.release
	p.mu.Unlock()
	close(paused)
	<-release
}

// countReads runs fn and returns how many store reads it made.
func (p *probe) countReads(fn func()) int {
	p.mu.Lock()
	p.counting, p.reads = true, 0
	p.mu.Unlock()
	fn()
	p.mu.Lock()
	defer p.mu.Unlock()
	p.counting = false
	return p.reads
}

// arm makes the k-th read from now on block; paused is closed when it does.
func (p *probe) arm(k int) (paused <-chan struct{}, release func()) {
	p.mu.Lock()
	defer p.mu.Unlock()
	p.armed, p.gateAt, p.seen = k > 0, k, 0
	p.paused, p.release = make(chan struct{}), make(chan struct{})
	rel := p.release
	var once sync.Once
	return p.paused, func() {
		once.Do(func() {
			p.mu.Lock()
			p.armed = false
			p.mu.Unlock()
			close(rel)
		})
	}
}

// disarm cancels a gate that was armed and not reached.
func (p *probe) disarm() {
	p.mu.Lock()
	p.armed = false
	p.mu.Unlock()
}

func scribble(b []byte) {
	for i := range b {
		b[i] = 0xA5
	}
}

func (p *probe) lend(get func([]byte, func([]byte) error) error, key []byte, cb func([]byte) error) error {
	if !p.poison {
		return get(key, cb)
	}
	return get(key, func(v []byte) error {
		c := bytes.Clone(v)
		err := cb(c)
		scribble(c)
		return err
	})
}

type probeStore struct {
	db.KeyValueStore
	p *probe
}

func newProbeStore(inner db.KeyValueStore) *probeStore {
	return &probeStore{KeyValueStore: inner, p: &probe{poison: true}}
}

func (s *probeStore) Get(k []byte, cb func([]byte) error) error {
	s.p.onRead()
	return s.p.lend(s.KeyValueStore.Get, k, cb)
}

func (s *probeStore) Has(k []byte) (bool, error) {
	s.p.onRead()
	return s.KeyValueStore.Has(k)
}

func (s *probeStore) NewIterator(prefix []byte, ub bool) (db.Iterator, error) {
	s.p.onRead()
	it, err := s.KeyValueStore.NewIterator(prefix, ub)
	if err != nil {
		return nil, err
	}
	return &probeIter{Iterator: it, p: s.p}, nil
}

func (s *probeStore) NewIndexedBatch() db.IndexedBatch {
	return &probeBatch{IndexedBatch: s.KeyValueStore.NewIndexedBatch(), p: s.p}
}

func (s *probeStore) NewIndexedBatchWithSize(n int) db.IndexedBatch {
	return &probeBatch{IndexedBatch: s.KeyValueStore.NewIndexedBatchWithSize(n), p: s.p}
}

func (s *probeStore) NewSnapshot() db.Snapshot {
	return &probeSnap{Snapshot: s.KeyValueStore.NewSnapshot(), p: s.p}
}

func (s *probeStore) WithListener(l db.EventListener) db.KeyValueStore {
	s.KeyValueStore = s.KeyValueStore.WithListener(l)
	return s
}

type probeBatch struct {
	db.IndexedBatch
	p *probe
}

func (b *probeBatch) Get(k []byte, cb func([]byte) error) error {
	b.p.onRead()
	return b.p.lend(b.IndexedBatch.Get, k, cb)
}

func (b *probeBatch) Has(k []byte) (bool, error) {
	b.p.onRead()
	return b.IndexedBatch.Has(k)
}

func (b *probeBatch) NewIterator(prefix []byte, ub bool) (db.Iterator, error) {
	b.p.onRead()
	it, err := b.IndexedBatch.NewIterator(prefix, ub)
	if err != nil {
		return nil, err
	}
	return &probeIter{Iterator: it, p: b.p}, nil
}

type probeSnap struct {
	db.Snapshot
	p *probe
}

func (s *probeSnap) Get(k []byte, cb func([]byte) error) error {
	s.p.onRead()
	return s.p.lend(s.Snapshot.Get, k, cb)
}

func (s *probeSnap) Has(k []byte) (bool, error) {
	s.p.onRead()
	return s.Snapshot.Has(k)
}

func (s *probeSnap) NewIterator(prefix []byte, ub bool) (db.Iterator, error) {
	s.p.onRead()
	it, err := s.Snapshot.NewIterator(prefix, ub)
	if err != nil {
		return nil, err
	}
	return &probeIter{Iterator: it, p: s.p}, nil
}

// probeIter hands out copies of Key() / UncopiedValue() and scribbles them at the next move.
type probeIter struct {
	db.Iterator
	p    *probe
	lent [][]byte
}

func (it *probeIter) expire() {
	for _, b := range it.lent {
		scribble(b)
	}
	it.lent = it.lent[:0]
}

func (it *probeIter) move(f func() bool) bool {
	it.p.onRead()
	it.expire()
	return f()
}

func (it *probeIter) First() bool        { return it.move(it.Iterator.First) }
func (it *probeIter) Next() bool         { return it.move(it.Iterator.Next) }
func (it *probeIter) Prev() bool         { return it.move(it.Iterator.Prev) }
func (it *probeIter) Seek(k []byte) bool { return it.move(func() bool { return it.Iterator.Seek(k) }) }
func (it *probeIter) Close() error       { it.expire(); return it.Iterator.Close() }
func (it *probeIter) borrow(b []byte) []byte {
	if !it.p.poison || b == nil {
		return b
	}
	c := bytes.Clone(b)
	it.lent = append(it.lent, c)
	return c
}
func (it *probeIter) Key() []byte { return it.borrow(it.Iterator.Key()) }
func (it *probeIter) UncopiedValue() ([]byte, error) {
	v, err := it.Iterator.UncopiedValue()
	return it.borrow(v), err
}

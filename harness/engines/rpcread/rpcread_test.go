// Engine "rpcread" (property C08): replays RpcRead.tla behaviours through the REAL stack
// jsonrpc.Server.HandleReader <- real method tables of rpc.Handler (v0.8 / v0.9 / v0.10) <- real
// blockchain.Blockchain (chainkit node, both state backends) with sync.NoopSynchronizer, linked
// against the FFI stubs.  Mutating steps (Store / Revert / SetL1Head) are concretised with
// chainkit; every read step becomes one JSON-RPC request per API version; the JSON response is
// projected onto the specification's abstract result and compared with what the property demands
// (`want`) — `res`, the answer of the model of the code as it is, only classifies a difference as
// one of the known deviations.  The three versions are also compared with each other on every
// field their responses share.
package rpcread

import (
	"bytes"
	"context"
	"encoding/json"
	"errors"
	"fmt"
	"hash/fnv"
	"math"
	"math/big"
	"sort"
	"strconv"
	"strings"
	"testing"
	"time"

	"github.com/NethermindEth/juno/core"
	"github.com/NethermindEth/juno/core/felt"
	"github.com/NethermindEth/juno/db"
	"github.com/NethermindEth/juno/db/memory"
	"github.com/NethermindEth/juno/db/pebblev2"
	_ "github.com/NethermindEth/juno/encoder/registry"
	"github.com/NethermindEth/juno/jsonrpc"
	"github.com/NethermindEth/juno/rpc"
	rpcv10 "github.com/NethermindEth/juno/rpc/v10"
	rpcv8 "github.com/NethermindEth/juno/rpc/v8"
	rpcv9 "github.com/NethermindEth/juno/rpc/v9"
	"github.com/NethermindEth/juno/sync"
	"github.com/NethermindEth/juno/utils/log"
	pebv2 "github.com/cockroachdb/pebble/v2"
	vfsv2 "github.com/cockroachdb/pebble/v2/vfs"

	"verifharness/internal/chainkit"
	"verifharness/internal/vh"
)

// ---------------------------------------------------------------- behaviour format (RpcReadMBT)

type blockID struct {
	K string `json:"k"`
	N int    `json:"n"`
	H []int  `json:"h"`
}

type diffT struct {
	Declared0 []int   `json:"declared0"`
	Declared1 []int   `json:"declared1"`
	Deployed  [][]int `json:"deployed"`
	Replaced  [][]int `json:"replaced"`
	Storage   [][]int `json:"storage"`
	Nonces    [][]int `json:"nonces"`
	// Sierra classes whose compiled class hash the block migrates (v0.10 shows them in getStateUpdate)
	Migrated []int `json:"migrated"`
}

type action struct {
	Name   string   `json:"name"`
	V      int      `json:"v"`
	Path   []int    `json:"path"`
	Parent []int    `json:"parent"`
	Txs    []int    `json:"txs"`
	Diff   *diffT   `json:"diff"`
	N      int      `json:"n"`
	ID     *blockID `json:"id"`
	T      int      `json:"t"`
	I      int      `json:"i"`
	C      int      `json:"c"`
	S      int      `json:"s"`
	// response_flags of the v0.10 request: "" / "none" (parameter omitted), "empty", "own", "bad"
	Fl string `json:"fl,omitempty"`
	// Restart
	Graceful bool `json:"graceful"`
	// ReadDuring: the request in flight and the mutators applied while it is being served
	Read *action  `json:"read,omitempty"`
	Muts []action `json:"muts,omitempty"`
	// state after a mutator of a ReadDuring step
	Chain []int `json:"chain,omitempty"`
	L1    int   `json:"l1,omitempty"`
}

// result is the abstract answer of a read (union over the kinds of RpcRead.tla).
type result struct {
	Kind   string   `json:"kind"`
	E      string   `json:"e,omitempty"`
	N      int      `json:"n"`
	Hash   []int    `json:"hash,omitempty"`
	Parent []int    `json:"parent,omitempty"`
	Status string   `json:"status,omitempty"`
	Txs    []int    `json:"txs,omitempty"`
	Execs  []string `json:"execs,omitempty"`
	T      int      `json:"t,omitempty"`
	Type   string   `json:"type,omitempty"`
	Fin    string   `json:"fin,omitempty"`
	Exec   string   `json:"exec,omitempty"`
	Old    []int    `json:"old,omitempty"`
	New    []int    `json:"new,omitempty"`
	Diff   *diffT   `json:"diff,omitempty"`
	V      int      `json:"v"`
	C      int      `json:"c,omitempty"`
	// kind "feltlub" (getStorageAt with INCLUDE_LAST_UPDATE_BLOCK): last_update_block as the new-state
	// backend (lub) and the legacy backend (lubL) report it; the property demands the same of both
	Lub  int `json:"lub"`
	LubL int `json:"lubL"`
	// what `proof_facts` shows in the transaction object(s): "absent", "empty", "facts"
	Pf   string   `json:"pf,omitempty"`
	Pfs  []string `json:"pfs,omitempty"`
	Note string   `json:"note,omitempty"` // harness-side detail of a concrete mismatch
	// kind "oneof" (ReadDuring): the answer in each chain the node held during the call
	Allowed []result `json:"allowed,omitempty"`
}

type step struct {
	A     action `json:"a"`
	Res   result `json:"res"`
	Want  result `json:"want"`
	Chain []int  `json:"chain"`
	L1    int    `json:"l1"`
	// what the same request without response_flags must be answered (reads that carry flags only)
	Want0 result `json:"want0"`
	Res0  result `json:"res0"`
	// the diff alphabet of the behaviour (RpcRead!scn): "base" or one state-diff section in isolation
	Scn string `json:"scn,omitempty"`
}

type input struct {
	Behaviours [][]step `json:"behaviours"`
	Backends   []string `json:"backends"` // subset of {"legacy","newstate"}; default both
	First      int      `json:"first"`    // index of the first behaviour (seeds the concretisation)
	Huge       int      `json:"huge"`     // the model's HugeNum (stands for 2^64-1); default 5
	// Sweep: when the replayer itself reads EVERY height of the chain the node holds by number and by hash
	// (and the head by latest) with every state method and getStateUpdate, judged by the fold of the stored
	// state updates: "all" after every mutator (directed scripts), "" / "forks" after every Revert and every
	// Store that follows one (simulated behaviours), "none" never.
	Sweep string `json:"sweep,omitempty"`
}

const hugeIdx = 1000000 // the model's HugeIdx, stands for 2^62

var hugeNum = 5

// ---------------------------------------------------------------- concretisation

func pathKey(p []int) string {
	var sb strings.Builder
	for _, v := range p {
		sb.WriteString(strconv.Itoa(v))
	}
	return sb.String()
}

type world struct {
	seed     int64
	addr     map[int]*felt.Felt // contract id -> address (9 = never deployed)
	slot     map[int]*felt.Felt
	classH   map[int]*felt.Felt // class id -> class hash (9 = never declared)
	casmH    *felt.Felt
	casmV2   *felt.Felt
	cairo0   core.ClassDefinition
	sierra   *core.SierraClass
	txs      map[int]core.Transaction
	rcs      map[int]*core.TransactionReceipt
	unknownH *felt.Felt
}

var protocolVersions = []string{"0.13.2", "0.13.4", "0.14.0", "0.14.1"}

func newWorld(seed int64) *world {
	g := chainkit.NewGen(seed*7919 + 17)
	w := &world{seed: seed, addr: map[int]*felt.Felt{}, slot: map[int]*felt.Felt{}, classH: map[int]*felt.Felt{},
		txs: map[int]core.Transaction{}, rcs: map[int]*core.TransactionReceipt{}}
	for _, c := range []int{1, 2, 9} {
		w.addr[c] = g.Felt()
	}
	// one random key and one tiny key: both ends of the storage trie
	w.slot[1] = g.Felt()
	w.slot[2] = chainkit.F(uint64(5 + seed%3))
	ch, cls := g.Cairo0Class()
	sh, c1, c2, scls := g.SierraClass()
	w.classH[1], w.cairo0 = &ch, cls
	w.classH[2], w.sierra, w.casmH, w.casmV2 = &sh, scls, &c1, &c2
	w.classH[9] = g.Felt()
	w.unknownH = g.Felt()
	return w
}

// tx builds (once) the transaction with abstract id t; the kind is the id's last digit
// (MCRpcRead!MCTxs): 1 invoke v3, 2 and 7 L1 handlers, 3 invoke v1 with a reverted receipt,
// 4 deploy account, 5 declare, 6 legacy deploy.  99 is a hash nobody stored.
func (w *world) tx(t int) (core.Transaction, *core.TransactionReceipt) {
	if tx, ok := w.txs[t]; ok {
		return tx, w.rcs[t]
	}
	g := chainkit.NewGen(w.seed*1000003 + int64(t))
	var kind string
	switch t % 10 {
	case 1:
		kind = "invoke3"
	case 2, 7:
		kind = "l1handler"
	case 3:
		kind = "invoke1"
	case 4:
		kind = []string{"deployaccount3", "deployaccount1"}[(t/10)%2]
	case 5:
		kind = []string{"declare3", "declare2", "declare1"}[(t/10)%3]
	case 6:
		kind = "deploy"
	case 8:
		kind = "invoke0"
	default:
		kind = "invoke0"
	}
	tx := g.Tx(kind)
	if inv, ok := tx.(*core.InvokeTransaction); ok && hasFacts(t) {
		// RpcRead!HasFacts: the INVOKE v3 transactions of the even heights carry proof facts (which
		// enter the transaction hash)
		inv.ProofFacts = g.Felts(1 + t/10)
		h, err := core.TransactionHash(tx, chainkit.Network)
		if err != nil {
			panic(err)
		}
		chainkit.SetTxHash(tx, &h)
	}
	if l1, ok := tx.(*core.L1HandlerTransaction); ok && t%10 == 7 {
		// legacy form: early L1 handlers carry no nonce; their hash is not recomputed
		l1.Nonce = nil
		chainkit.SetTxHash(tx, g.Felt())
	}
	if kind == "deploy" {
		// core.TransactionHash does not compute legacy DEPLOY hashes (it returns the field as is)
		chainkit.SetTxHash(tx, g.Felt())
	}
	var events []*core.Event
	if t%2 == 1 {
		events = []*core.Event{{From: g.Felt(), Keys: g.Felts(2), Data: g.Felts(1)}}
	}
	rc := g.Receipt(tx, events)
	rc.Reverted = t%10 == 3
	rc.RevertReason = ""
	if rc.Reverted {
		rc.RevertReason = fmt.Sprintf("reverted-%d", t)
	}
	w.txs[t], w.rcs[t] = tx, rc
	return tx, rc
}

func hasFacts(t int) bool { return t%10 == 1 && (t/10)%2 == 0 }

func (w *world) txHash(t int) *felt.Felt {
	tx, _ := w.tx(t)
	return tx.Hash()
}

func (w *world) txID(h string) int {
	for t, tx := range w.txs {
		if tx.Hash().String() == h {
			return t
		}
	}
	return -1
}

func (w *world) spec(a *action) chainkit.BlockSpec {
	n := len(a.Path) - 1
	d := chainkit.EmptyDiff()
	classes := map[felt.Felt]core.ClassDefinition{}
	for _, k := range a.Diff.Declared0 {
		d.DeclaredV0Classes = append(d.DeclaredV0Classes, w.classH[k])
		classes[*w.classH[k]] = w.cairo0
	}
	for _, k := range a.Diff.Declared1 {
		d.DeclaredV1Classes[*w.classH[k]] = w.casmH
		classes[*w.classH[k]] = w.sierra
	}
	for _, x := range a.Diff.Deployed {
		d.DeployedContracts[*w.addr[x[0]]] = w.classH[x[1]]
	}
	for _, x := range a.Diff.Replaced {
		d.ReplacedClasses[*w.addr[x[0]]] = w.classH[x[1]]
	}
	for _, x := range a.Diff.Storage {
		m := d.StorageDiffs[*w.addr[x[0]]]
		if m == nil {
			m = map[felt.Felt]*felt.Felt{}
			d.StorageDiffs[*w.addr[x[0]]] = m
		}
		m[*w.slot[x[1]]] = chainkit.F(uint64(x[2]))
	}
	for _, x := range a.Diff.Nonces {
		d.Nonces[*w.addr[x[0]]] = chainkit.F(uint64(x[1]))
	}
	version := protocolVersions[(n+a.V)%4]
	for _, k := range a.Diff.Migrated {
		// a migration of the compiled class hash exists from 0.14.1 on (the class was declared before)
		d.MigratedClasses[felt.SierraClassHash(*w.classH[k])] = felt.CasmClassHash(*w.casmV2)
		version = "0.14.1"
	}
	txs := make([]core.Transaction, 0, len(a.Txs))
	rcs := make([]*core.TransactionReceipt, 0, len(a.Txs))
	for _, t := range a.Txs {
		tx, rc := w.tx(t)
		txs = append(txs, tx)
		rcs = append(rcs, rc)
	}
	return chainkit.BlockSpec{Version: version, Timestamp: uint64(1000 + 10*n + a.V),
		Diff: d, Classes: classes, Txs: txs, Receipts: rcs}
}

// ---------------------------------------------------------------- the system under test

var versions = []string{"v8", "v9", "v10"}

type sut struct {
	node     *chainkit.Node
	store    *probeStore
	newState bool
	servers  map[string]*jsonrpc.Server
	built    map[string]*chainkit.Built // path -> block as stored at some point
	absDiff  map[string]*diffT          // path -> the abstract state diff of that block
	byHash   map[string]string          // block hash -> path
	backend  string
	closeDB  func()
}

// backends: state backend x database, always behind the poisoning / gating probe
//
//	legacy    deprecated state on db/memory
//	newstate  new state on db/memory
//	pebble    deprecated state on pebblev2 (in-memory file system)
func newSUT(backend string) (*sut, error) {
	var inner db.KeyValueStore = memory.New()
	closeDB := func() {}
	if backend == "pebble" {
		pdb, err := pebblev2.New("verif-mem", func(o *pebv2.Options) error { o.FS = vfsv2.NewMem(); return nil })
		if err != nil {
			return nil, err
		}
		inner, closeDB = pdb, func() { pdb.Close() }
	}
	s := &sut{store: newProbeStore(inner), newState: backend == "newstate", built: map[string]*chainkit.Built{},
		absDiff: map[string]*diffT{}, byHash: map[string]string{}, backend: backend, closeDB: closeDB}
	s.node = chainkit.NewNode(s.store, s.newState)
	return s, s.mount()
}

// mount builds a fresh rpc.Handler and the three servers on the current Blockchain object.
func (s *sut) mount() error {
	logger := log.NewNopZapLogger()
	h := rpc.New(s.node.BC, &sync.NoopSynchronizer{}, nil, "verif", logger, chainkit.Network)
	s.servers = map[string]*jsonrpc.Server{}
	m8, _ := h.MethodsV0_8()
	m9, _ := h.MethodsV0_9()
	m10, _ := h.MethodsV0_10()
	for _, x := range []struct {
		v  string
		ms []jsonrpc.Method
	}{{"v8", m8}, {"v9", m9}, {"v10", m10}} {
		srv := jsonrpc.NewServer(1, logger)
		switch x.v {
		case "v8":
			srv = srv.WithValidator(rpcv8.Validator())
		case "v9":
			srv = srv.WithValidator(rpcv9.Validator())
		default:
			srv = srv.WithValidator(rpcv10.Validator())
		}
		if err := srv.RegisterMethods(x.ms...); err != nil {
			return err
		}
		s.servers[x.v] = srv
	}
	return nil
}

// restart replaces every juno object (Blockchain, rpc.Handler, servers) by new ones on the same store.
func (s *sut) restart(graceful bool) error {
	if graceful {
		if err := s.node.BC.WriteRunningEventFilter(); err != nil {
			return err
		}
	}
	s.node = s.node.Restart()
	return s.mount()
}

func (s *sut) hashOf(w *world, p []int) *felt.Felt {
	switch {
	case len(p) == 1 && p[0] == 2:
		return w.unknownH
	case len(p) == 1 && p[0] == 3:
		return &felt.Zero
	}
	if b, ok := s.built[pathKey(p)]; ok {
		return b.Block.Hash
	}
	return w.unknownH
}

// oldRootOf is the old_root recorded for the block of path p. It is the parent's state commitment
// computed under p's OWN protocol version (updateStateRoots), which differs from the parent's
// new_root across the 0.13.x -> 0.14.0 commitment-formula change; so it is taken from the stored
// state update, not from the parent header.
func (s *sut) oldRootOf(p []int) string {
	if b, ok := s.built[pathKey(p)]; ok {
		return b.Update.OldRoot.String()
	}
	return "?"
}

func (s *sut) rootOf(p []int) string {
	if len(p) == 0 {
		return "0x0"
	}
	if b, ok := s.built[pathKey(p)]; ok {
		return b.Block.GlobalStateRoot.String()
	}
	return "?"
}

var errHang = errors.New("no response within the watchdog time")

const (
	callTimeout = 20 * time.Second
	// how long a mutator may be blocked by the paused in-flight request before the request is let
	// go (code that serialises readers and writers with a lock is correct, not hung)
	raceGrace = 2 * time.Second
	maxHangs  = 3
	// upper bound on the store reads of one read request (11 observed: legacy history reads)
	maxGate = 14
)

var hangs int // hangs observed so far; the run stops reporting more after maxHangs

var slowCalls int // calls that outlasted the watchdog time but did return

// guarded runs fn on its own goroutine under recover and a watchdog: a panic or a hang of the real
// code becomes an error the replayer turns into a keyed divergence (the goroutine of a hang leaks).
func guarded(fn func() error) error {
	done := make(chan error, 1)
	go func() {
		defer func() {
			if p := recover(); p != nil {
				done <- fmt.Errorf("panic: %v", p)
			}
		}()
		done <- fn()
	}()
	select {
	case err := <-done:
		return err
	case <-time.After(callTimeout):
	}
	// A machine under heavy load (or short of memory) can stall a correct call for this long (seen
	// once: a Restart on a 2x overloaded box, not reproducible): only a call that has still not
	// returned after a much longer wait is a hang; the slow ones are counted.
	select {
	case err := <-done:
		slowCalls++
		return err
	case <-time.After(3 * callTimeout):
	}
	hangs++
	return errHang
}

func requestJSON(method string, params map[string]any) string {
	req := map[string]any{"jsonrpc": "2.0", "id": 1, "method": "starknet_" + method}
	if params != nil {
		req["params"] = params
	}
	raw, _ := json.Marshal(req)
	return string(raw)
}

func (s *sut) handle(version, req string) ([]byte, error) {
	out, _, err := s.servers[version].HandleReader(context.Background(), strings.NewReader(req))
	return out, err
}

func decode(out []byte) (map[string]any, error) {
	dec := json.NewDecoder(bytes.NewReader(out))
	dec.UseNumber()
	var resp map[string]any
	if err := dec.Decode(&resp); err != nil {
		return nil, fmt.Errorf("unparsable response %q: %v", string(out), err)
	}
	return resp, nil
}

// call sends one request; out is the very byte slice the server returned (kept by the replayer to
// check that it is not modified by later calls).
func (s *sut) call(version, method string, params map[string]any) (resp map[string]any, out []byte, req string, err error) {
	req = requestJSON(method, params)
	err = guarded(func() error {
		var herr error
		out, herr = s.handle(version, req)
		return herr
	})
	if err != nil {
		return nil, nil, req, err
	}
	resp, err = decode(out)
	return resp, out, req, err
}

// ---------------------------------------------------------------- requests

func (s *sut) idParam(w *world, id *blockID) any {
	switch id.K {
	case "num":
		if id.N == hugeNum {
			return map[string]any{"block_number": uint64(math.MaxUint64)}
		}
		return map[string]any{"block_number": id.N}
	case "hash":
		return map[string]any{"block_hash": spell(s.hashOf(w, id.H), len(id.H))}
	default:
		return id.K
	}
}

// spell writes a felt in one of the spellings a client may use: canonical, zero-padded to 64
// digits, upper-case digits.
func spell(f *felt.Felt, variant int) string {
	h := strings.TrimPrefix(f.String(), "0x")
	switch variant % 3 {
	case 1:
		return "0x" + strings.Repeat("0", 64-len(h)) + h
	case 2:
		return "0x" + strings.ToUpper(h)
	}
	return "0x" + h
}

// flagged tells whether the read carries the v0.10 response_flags parameter.
func flagged(a *action) bool { return a.Fl != "" && a.Fl != "none" }

// ownFlag is the response flag the method knows; otherFlag the one of the other method family.
func ownFlag(method string) (own, other string) {
	if method == "getStorageAt" {
		return "INCLUDE_LAST_UPDATE_BLOCK", "INCLUDE_PROOF_FACTS"
	}
	return "INCLUDE_PROOF_FACTS", "INCLUDE_LAST_UPDATE_BLOCK"
}

// flagsParam concretises the abstract flag value of RpcRead.tla: "empty" is the empty list, "own" the
// method's flag once or repeated, "bad" one of the ways a client can get the parameter wrong (all of
// them INVALID_PARAMS): an unknown flag alone / before / after the known one, the other family's flag,
// another spelling, a bare string, a non-string element, an object.
func flagsParam(a *action, salt uint64) (any, string) {
	own, other := ownFlag(a.Name)
	switch a.Fl {
	case "empty":
		return []string{}, "empty"
	case "own":
		if salt%2 == 1 {
			return []string{own, own}, "own" // listed twice
		}
		return []string{own}, "own"
	}
	switch salt % 8 {
	case 0:
		return []string{"INCLUDE_NOTHING"}, "unknown"
	case 1:
		return []string{other}, "foreign"
	case 2:
		return []string{own, "INCLUDE_NOTHING"}, "own+unknown"
	case 3:
		return []string{other, own}, "foreign+own"
	case 4:
		return []string{strings.ToLower(own)}, "lower-case"
	case 5:
		return own, "bare-string"
	case 6:
		return []any{own, 1}, "non-string-element"
	}
	return map[string]any{own: true}, "object"
}

// params builds the named parameters of the request for one API version: response_flags exists on
// v0.10 only; v0.8 / v0.9 are asked the same question without it.
func (s *sut) params(w *world, a *action, version string, salt uint64) map[string]any {
	p := map[string]any{}
	if flagged(a) && version == "v10" {
		p["response_flags"], _ = flagsParam(a, salt)
	}
	if a.ID != nil {
		p["block_id"] = s.idParam(w, a.ID)
	}
	switch a.Name {
	case "blockNumber", "blockHashAndNumber":
		return nil
	case "getTransactionByHash", "getTransactionReceipt", "getTransactionStatus":
		if a.T == 99 {
			p["transaction_hash"] = w.unknownH.String()
		} else {
			p["transaction_hash"] = spell(w.txHash(a.T), a.T)
		}
	case "getTransactionByBlockIdAndIndex":
		p["index"] = a.I
		if a.I == hugeIdx {
			p["index"] = int64(1) << 62
		}
	case "getStorageAt":
		p["contract_address"] = w.addr[a.C].String()
		p["key"] = w.slot[a.S].String()
	case "getNonce", "getClassHashAt", "getClassAt":
		p["contract_address"] = w.addr[a.C].String()
	case "getClass":
		p["class_hash"] = w.classH[a.C].String()
	}
	return p
}

// ---------------------------------------------------------------- projection: JSON -> abstract result

var errNames = map[int64]string{24: "BlockNotFound", 29: "TxnHashNotFound", 27: "InvalidTxnIndex",
	20: "ContractNotFound", 28: "ClassHashNotFound", 32: "NoBlocks", -32602: "InvalidParams"}

func str(v any) string {
	if s, ok := v.(string); ok {
		return s
	}
	return fmt.Sprintf("?%v", v)
}

func num(v any) int {
	if n, ok := v.(json.Number); ok {
		i, err := n.Int64()
		if err == nil {
			return int(i)
		}
	}
	return -999
}

func feltInt(v any) int {
	s, ok := v.(string)
	if !ok {
		return -999
	}
	b, ok := new(big.Int).SetString(s, 0)
	if !ok || !b.IsInt64() {
		return -998
	}
	return int(b.Int64())
}

func obj(v any) map[string]any {
	m, _ := v.(map[string]any)
	return m
}

func arr(v any) []any {
	a, _ := v.([]any)
	return a
}

func (s *sut) pathOfHash(h any) []int {
	hs := str(h)
	if pk, ok := s.byHash[hs]; ok {
		p := make([]int, len(pk))
		for i, c := range pk {
			p[i] = int(c - '0')
		}
		return p
	}
	return []int{-1} // a hash the chain never produced
}

func inv(m map[int]*felt.Felt, v any) int {
	for k, f := range m {
		if f.String() == str(v) {
			return k
		}
	}
	return -1
}

func sortRows(rows [][]int) [][]int {
	sort.Slice(rows, func(i, j int) bool {
		for k := range rows[i] {
			if rows[i][k] != rows[j][k] {
				return rows[i][k] < rows[j][k]
			}
		}
		return false
	})
	if rows == nil {
		rows = [][]int{}
	}
	return rows
}

func sortInts(x []int) []int {
	sort.Ints(x)
	if x == nil {
		x = []int{}
	}
	return x
}

func normDiff(d *diffT) *diffT {
	if d == nil {
		return nil
	}
	return &diffT{Declared0: sortInts(append([]int{}, d.Declared0...)), Declared1: sortInts(append([]int{}, d.Declared1...)),
		Deployed: sortRows(append([][]int{}, d.Deployed...)), Replaced: sortRows(append([][]int{}, d.Replaced...)),
		Storage: sortRows(append([][]int{}, d.Storage...)), Nonces: sortRows(append([][]int{}, d.Nonces...)),
		Migrated: sortInts(append([]int{}, d.Migrated...))}
}

// withoutMigrated is the state diff as v0.8 / v0.9 show it: they have no migrated_compiled_classes.
func withoutMigrated(r result) result {
	if r.Kind == "update" && r.Diff != nil && len(r.Diff.Migrated) > 0 {
		d := *r.Diff
		d.Migrated = nil
		r.Diff = &d
	}
	if r.Kind == "oneof" {
		al := make([]result, len(r.Allowed))
		for i := range r.Allowed {
			al[i] = withoutMigrated(r.Allowed[i])
		}
		r.Allowed = al
	}
	return r
}

// project turns a JSON-RPC response into the abstract result of the given method. Concrete
// details the abstract result cannot carry (roots, compiled class hash, class body, tx type)
// are checked against the concretisation here and reported through Note.
func (s *sut) project(w *world, a *action, resp map[string]any) result {
	if e, ok := resp["error"]; ok {
		code, _ := obj(e)["code"].(json.Number).Int64()
		if name, ok := errNames[code]; ok {
			return result{Kind: "err", E: name}
		}
		return result{Kind: "err", E: fmt.Sprintf("code:%d:%v", code, obj(e)["data"])}
	}
	r, ok := resp["result"]
	if !ok {
		return result{Kind: "malformed"}
	}
	note := func(res *result, format string, args ...any) {
		if res.Note == "" {
			res.Note = fmt.Sprintf(format, args...)
		}
	}
	txView := func(m map[string]any, hashField string) (int, string) {
		return w.txID(str(m[hashField])), str(m["type"])
	}
	// pfOf classifies `proof_facts` of transaction object m (abstract id t): absent / empty / facts;
	// a payload is compared with the one the stored transaction carries
	pfOf := func(res *result, m map[string]any, t int) string {
		v, ok := m["proof_facts"]
		if !ok {
			return "absent"
		}
		l, isList := v.([]any)
		if !isList {
			note(res, "proof_facts of tx %d is %v, not a list", t, v)
			return "malformed"
		}
		if len(l) == 0 {
			return "empty"
		}
		var stored []felt.Felt
		if tx, ok := w.txs[t].(*core.InvokeTransaction); ok {
			stored = tx.ProofFacts
		}
		if len(stored) != len(l) {
			note(res, "proof_facts of tx %d has %d elements, the stored transaction %d", t, len(l), len(stored))
			return "facts"
		}
		for i := range l {
			if str(l[i]) != stored[i].String() {
				note(res, "proof_facts[%d] of tx %d is %v, stored %s", i, t, l[i], &stored[i])
				break
			}
		}
		return "facts"
	}
	switch a.Name {
	case "blockNumber", "getBlockTransactionCount":
		return result{Kind: "num", N: num(r)}
	case "blockHashAndNumber":
		m := obj(r)
		return result{Kind: "hashnum", N: num(m["block_number"]), Hash: s.pathOfHash(m["block_hash"])}
	case "getBlockWithTxHashes", "getBlockWithTxs", "getBlockWithReceipts":
		m := obj(r)
		res := result{Kind: "block", N: num(m["block_number"]), Hash: s.pathOfHash(m["block_hash"]),
			Status: str(m["status"]), Txs: []int{}, Execs: []string{}, Pfs: []string{}}
		if str(m["parent_hash"]) == "0x0" {
			res.Parent = []int{}
		} else {
			res.Parent = s.pathOfHash(m["parent_hash"])
		}
		if b, ok := s.built[pathKey(res.Hash)]; ok {
			if str(m["new_root"]) != b.Block.GlobalStateRoot.String() {
				note(&res, "new_root %v, stored block has %s", m["new_root"], b.Block.GlobalStateRoot)
			}
			if num(m["timestamp"]) != int(b.Block.Timestamp) || str(m["starknet_version"]) != b.Block.ProtocolVersion {
				note(&res, "timestamp/version %v/%v, stored block has %d/%s", m["timestamp"], m["starknet_version"],
					b.Block.Timestamp, b.Block.ProtocolVersion)
			}
		}
		if _, ok := m["transactions"].([]any); !ok {
			note(&res, "transactions is %v, not a list", m["transactions"])
		}
		for _, x := range arr(m["transactions"]) {
			switch a.Name {
			case "getBlockWithTxHashes":
				res.Txs = append(res.Txs, w.txID(str(x)))
				res.Pfs = append(res.Pfs, "absent")
			case "getBlockWithTxs":
				t, typ := txView(obj(x), "transaction_hash")
				res.Txs = append(res.Txs, t)
				res.Pfs = append(res.Pfs, pfOf(&res, obj(x), t))
				if typ != txType(t) {
					note(&res, "tx %d has type %s", t, typ)
				}
			default:
				rc := obj(obj(x)["receipt"])
				t := w.txID(str(rc["transaction_hash"]))
				res.Txs = append(res.Txs, t)
				res.Execs = append(res.Execs, str(rc["execution_status"]))
				res.Pfs = append(res.Pfs, pfOf(&res, obj(obj(x)["transaction"]), t))
				if str(rc["finality_status"]) != res.Status {
					note(&res, "receipt of tx %d has finality %v in a block with status %s", t, rc["finality_status"], res.Status)
				}
				if typ := str(obj(obj(x)["transaction"])["type"]); typ != txType(t) || str(rc["type"]) != typ {
					note(&res, "tx %d has type %s / receipt type %v", t, typ, rc["type"])
				}
			}
		}
		return res
	case "getTransactionByHash", "getTransactionByBlockIdAndIndex":
		t, typ := txView(obj(r), "transaction_hash")
		res := result{Kind: "tx", T: t, Type: typ}
		res.Pf = pfOf(&res, obj(r), t)
		return res
	case "getTransactionReceipt":
		m := obj(r)
		t, typ := txView(m, "transaction_hash")
		res := result{Kind: "receipt", T: t, Type: typ, N: num(m["block_number"]), Hash: s.pathOfHash(m["block_hash"]),
			Fin: str(m["finality_status"]), Exec: str(m["execution_status"])}
		_, rc := w.tx(t)
		if rc != nil {
			if got, _ := m["revert_reason"].(string); got != rc.RevertReason {
				note(&res, "revert_reason %q, stored receipt has %q", got, rc.RevertReason)
			}
			if str(obj(m["actual_fee"])["amount"]) != rc.Fee.String() {
				note(&res, "actual_fee %v, stored receipt has %s", obj(m["actual_fee"])["amount"], rc.Fee)
			}
			_, evOK := m["events"].([]any)
			_, msgOK := m["messages_sent"].([]any)
			if !evOK || !msgOK {
				note(&res, "events / messages_sent is not a list")
			}
			if len(arr(m["events"])) != len(rc.Events) || len(arr(m["messages_sent"])) != len(rc.L2ToL1Message) {
				note(&res, "events/messages %d/%d, stored receipt has %d/%d", len(arr(m["events"])), len(arr(m["messages_sent"])),
					len(rc.Events), len(rc.L2ToL1Message))
			}
		}
		return res
	case "getTransactionStatus":
		m := obj(r)
		return result{Kind: "status", Fin: str(m["finality_status"]), Exec: str(m["execution_status"])}
	case "getStateUpdate":
		m := obj(r)
		res := result{Kind: "update", Hash: s.pathOfHash(m["block_hash"])}
		res.New, res.Old = res.Hash, []int{}
		if len(res.Hash) > 1 {
			res.Old = res.Hash[:len(res.Hash)-1]
		}
		if str(m["new_root"]) != s.rootOf(res.New) {
			res.New = []int{-1}
			note(&res, "new_root %v, block has %s", m["new_root"], s.rootOf(res.Hash))
		}
		if str(m["old_root"]) != s.oldRootOf(res.Hash) {
			note(&res, "old_root %v, stored update has %s", m["old_root"], s.oldRootOf(res.Hash))
			res.Old = []int{-1}
		}
		sd := obj(m["state_diff"])
		d := &diffT{}
		for _, f := range []string{"storage_diffs", "nonces", "deployed_contracts", "replaced_classes",
			"deprecated_declared_classes", "declared_classes"} {
			if _, ok := sd[f].([]any); !ok {
				note(&res, "state_diff.%s is %v, not a list", f, sd[f])
			}
		}
		for _, x := range arr(sd["storage_diffs"]) {
			c := inv(w.addr, obj(x)["address"])
			for _, e := range arr(obj(x)["storage_entries"]) {
				d.Storage = append(d.Storage, []int{c, inv(w.slot, obj(e)["key"]), feltInt(obj(e)["value"])})
			}
		}
		for _, x := range arr(sd["nonces"]) {
			d.Nonces = append(d.Nonces, []int{inv(w.addr, obj(x)["contract_address"]), feltInt(obj(x)["nonce"])})
		}
		for _, x := range arr(sd["deployed_contracts"]) {
			d.Deployed = append(d.Deployed, []int{inv(w.addr, obj(x)["address"]), inv(w.classH, obj(x)["class_hash"])})
		}
		for _, x := range arr(sd["replaced_classes"]) {
			d.Replaced = append(d.Replaced, []int{inv(w.addr, obj(x)["contract_address"]), inv(w.classH, obj(x)["class_hash"])})
		}
		for _, x := range arr(sd["deprecated_declared_classes"]) {
			d.Declared0 = append(d.Declared0, inv(w.classH, x))
		}
		for _, x := range arr(sd["declared_classes"]) {
			d.Declared1 = append(d.Declared1, inv(w.classH, obj(x)["class_hash"]))
			if str(obj(x)["compiled_class_hash"]) != w.casmH.String() {
				note(&res, "compiled_class_hash %v, declared with %s", obj(x)["compiled_class_hash"], w.casmH)
			}
		}
		for _, x := range arr(sd["migrated_compiled_classes"]) {
			d.Migrated = append(d.Migrated, inv(w.classH, obj(x)["class_hash"]))
			if str(obj(x)["compiled_class_hash"]) != w.casmV2.String() {
				note(&res, "migrated compiled_class_hash %v, migrated to %s", obj(x)["compiled_class_hash"], w.casmV2)
			}
		}
		res.Diff = normDiff(d)
		return res
	case "getStorageAt", "getNonce":
		if m, isObj := r.(map[string]any); isObj {
			// the v0.10 form {value, last_update_block}
			res := result{Kind: "feltlub", V: feltInt(m["value"]), Lub: num(m["last_update_block"])}
			res.LubL = res.Lub
			if len(m) != 2 {
				note(&res, "result object has fields %v", m)
			}
			return res
		}
		return result{Kind: "felt", V: feltInt(r)}
	case "getClassHashAt":
		return result{Kind: "classhash", C: inv(w.classH, r)}
	case "getClassAt", "getClass":
		m := obj(r)
		res := result{Kind: "class", C: -1}
		if prog, ok := m["sierra_program"]; ok {
			p := arr(prog)
			if len(p) == len(w.sierra.Program) && str(p[len(p)-1]) == w.sierra.Program[len(p)-1].String() &&
				str(m["contract_class_version"]) == w.sierra.SemanticVersion {
				res.C = 2
			}
		} else if str(m["program"]) == w.cairo0.(*core.DeprecatedCairoClass).Program {
			ext := arr(obj(m["entry_points_by_type"])["EXTERNAL"])
			if len(ext) == 1 && str(obj(ext[0])["selector"]) == w.cairo0.(*core.DeprecatedCairoClass).Externals[0].Selector.String() {
				res.C = 1
			}
		}
		return res
	}
	return result{Kind: "unknown-method"}
}

func txType(t int) string {
	switch t % 10 {
	case 1, 3, 8:
		return "INVOKE"
	case 2, 7:
		return "L1_HANDLER"
	case 4:
		return "DEPLOY_ACCOUNT"
	case 5:
		return "DECLARE"
	}
	return "DEPLOY"
}

// ---------------------------------------------------------------- comparison

func eqInts(a, b []int) bool {
	if len(a) != len(b) {
		return false
	}
	for i := range a {
		if a[i] != b[i] {
			return false
		}
	}
	return true
}

func eqJSON(a, b any) bool {
	x, _ := json.Marshal(a)
	y, _ := json.Marshal(b)
	return string(x) == string(y)
}

// firstDiff names the first field in which the observed abstract result differs from the
// expected one ("" = equal) restricted to what the method reports.
func firstDiff(method string, got, want *result) string {
	if got.Kind != want.Kind {
		if got.Kind == "err" {
			return "err-" + strings.SplitN(got.E, ":", 3)[0] + "-for-" + want.Kind
		}
		if want.Kind == "err" {
			return got.Kind + "-for-err-" + want.E
		}
		return got.Kind + "-for-" + want.Kind
	}
	switch want.Kind {
	case "err":
		if got.E != want.E {
			return "err-" + strings.SplitN(got.E, ":", 3)[0] + "-for-" + want.E
		}
	case "num":
		if got.N != want.N {
			return "number"
		}
	case "hashnum":
		if got.N != want.N {
			return "block_number"
		}
		if !eqInts(got.Hash, want.Hash) {
			return "block_hash"
		}
	case "block":
		switch {
		case got.N != want.N:
			return "block_number"
		case !eqInts(got.Hash, want.Hash):
			return "block_hash"
		case !eqInts(got.Parent, want.Parent):
			return "parent_hash"
		case got.Status != want.Status:
			return "status"
		case !eqInts(got.Txs, want.Txs):
			return "transactions"
		case method == "getBlockWithReceipts" && !eqJSON(got.Execs, want.Execs):
			return "execution_status"
		case !eqJSON(got.Pfs, want.Pfs) && !(len(got.Pfs) == 0 && len(want.Pfs) == 0):
			return "proof_facts:" + pfDiff(got.Pfs, want.Pfs)
		}
	case "tx":
		if got.T != want.T {
			return "transaction_hash"
		}
		if got.Type != want.Type {
			return "type"
		}
		if got.Pf != want.Pf {
			return "proof_facts:" + got.Pf + "-for-" + want.Pf
		}
	case "receipt":
		switch {
		case got.T != want.T:
			return "transaction_hash"
		case got.Type != want.Type:
			return "type"
		case got.N != want.N:
			return "block_number"
		case !eqInts(got.Hash, want.Hash):
			return "block_hash"
		case got.Fin != want.Fin:
			return "finality_status"
		case got.Exec != want.Exec:
			return "execution_status"
		}
	case "status":
		if got.Fin != want.Fin {
			return "finality_status"
		}
		if got.Exec != want.Exec {
			return "execution_status"
		}
	case "update":
		switch {
		case !eqInts(got.Hash, want.Hash):
			return "block_hash"
		case !eqInts(got.Old, want.Old):
			return "old_root"
		case !eqInts(got.New, want.New):
			return "new_root"
		case !eqJSON(got.Diff, normDiff(want.Diff)):
			return "state_diff"
		}
	case "felt":
		if got.V != want.V {
			return "value"
		}
	case "feltlub":
		if got.V != want.V {
			return "value"
		}
		if got.Lub != want.Lub {
			// how the reported last-update block relates to the right one, and the kind of slot value
			rel, val := "above", "nonzero"
			if got.Lub < want.Lub {
				rel = "below"
			}
			if got.Lub == 0 {
				rel = "never"
			}
			if want.V == 0 {
				val = "zero"
			}
			return "last_update_block:" + rel + ":value-" + val
		}
	case "classhash", "class":
		if got.C != want.C {
			return "class"
		}
	}
	if got.Note != "" {
		return "concrete"
	}
	return ""
}

// pfDiff names the first position where the proof_facts classes of a block's transactions differ.
func pfDiff(got, want []string) string {
	if len(got) != len(want) {
		return "length"
	}
	for i := range got {
		if got[i] != want[i] {
			return got[i] + "-for-" + want[i]
		}
	}
	return "?"
}

var stateMethods = map[string]bool{"getStorageAt": true, "getNonce": true, "getClassHashAt": true, "getClassAt": true, "getClass": true}

// idShape describes the identifier of a read for the divergence key.
func idShape(a *action, chainLen int) string {
	if a.ID == nil {
		return "-"
	}
	switch a.ID.K {
	case "num":
		if a.ID.N >= chainLen {
			return "num-absent"
		}
		return "num"
	case "hash":
		switch {
		case len(a.ID.H) == 1 && a.ID.H[0] == 3:
			return "hash-zero"
		case len(a.ID.H) == 1 && a.ID.H[0] == 2:
			return "hash-unknown"
		}
		return "hash"
	}
	return a.ID.K
}

// ---------------------------------------------------------------- cross-version comparison

// sharedDiff returns the JSON path of the first difference between two responses restricted to
// the fields both carry ("" = they agree). Arrays below state_diff come from Go map iteration and
// are compared as multisets.
func sharedDiff(a, b any, path string, unordered bool) string {
	switch x := a.(type) {
	case map[string]any:
		y, ok := b.(map[string]any)
		if !ok {
			return path + ":type"
		}
		keys := make([]string, 0, len(x))
		for k := range x {
			if _, ok := y[k]; ok {
				keys = append(keys, k)
			}
		}
		sort.Strings(keys)
		for _, k := range keys {
			if d := sharedDiff(x[k], y[k], path+"."+k, unordered || k == "state_diff"); d != "" {
				return d
			}
		}
		return ""
	case []any:
		y, ok := b.([]any)
		if !ok {
			return path + ":type"
		}
		if len(x) != len(y) {
			return path + ":length"
		}
		if unordered {
			x, y = canonSort(x), canonSort(y)
		}
		for i := range x {
			if d := sharedDiff(x[i], y[i], path+"[]", unordered); d != "" {
				return d
			}
		}
		return ""
	default:
		if !eqJSON(a, b) {
			return path
		}
		return ""
	}
}

func canonSort(x []any) []any {
	out := append([]any{}, x...)
	for i, e := range out {
		if m, ok := e.(map[string]any); ok {
			if se, ok := m["storage_entries"].([]any); ok {
				c := map[string]any{}
				for k, v := range m {
					c[k] = v
				}
				c["storage_entries"] = canonSort(se)
				out[i] = c
			}
		}
	}
	sort.Slice(out, func(i, j int) bool {
		a, _ := json.Marshal(out[i])
		b, _ := json.Marshal(out[j])
		return string(a) < string(b)
	})
	return out
}

// ---------------------------------------------------------------- replay

type retained struct {
	label string
	live  []byte // the slice the server handed back
	copy  []byte // its content when it was handed back
}

type replayer struct {
	t        *testing.T
	out      *vh.Result
	w        *world
	s        *sut
	retained []retained
	dead     bool // the behaviour was abandoned on this backend after a mutator misbehaved
	// sweep: the replayer's own reads of every height after a mutator (counted apart from the reads the
	// specification generated, so that the vacuity guards of those are not fed by them)
	inSweep   bool
	sweepMode string
	only      string // when set, the one API version the reads of the current sweep go to
	reverted  [][]int // paths of the blocks reverted so far, latest last
}

// cnt counts an event of a read; the sweep's reads are counted under their own names.
func (r *replayer) cnt(name string, n int) {
	if r.inSweep {
		name = "sweep:" + name
	}
	r.out.Count(name, n)
}

// errAbandon marks a mutator failure already reported as a divergence.
var errAbandon = errors.New("behaviour abandoned")

func (r *replayer) mutate(a *action) error {
	return guarded(func() error { return r.mutate1(a) })
}

func (r *replayer) mutate1(a *action) error {
	switch a.Name {
	case "Store":
		b, err := r.s.node.Build(r.w.spec(a))
		if err != nil {
			return err
		}
		if err := r.s.node.StoreBuilt(b); err != nil {
			return err
		}
		pk := pathKey(a.Path)
		if old, ok := r.s.built[pk]; ok && !old.Block.Hash.Equal(b.Block.Hash) {
			return fmt.Errorf("path %s re-built with another hash than before", pk)
		}
		r.s.built[pk] = b
		r.s.absDiff[pk] = a.Diff
		r.s.byHash[b.Block.Hash.String()] = pk
		return nil
	case "Revert":
		return r.s.node.BC.RevertHead()
	case "SetL1Head":
		head := &core.L1Head{BlockNumber: uint64(a.N), BlockHash: r.s.hashOf(r.w, a.Path), StateRoot: r.w.unknownH}
		if a.N == hugeNum {
			head.BlockNumber = math.MaxUint64
		}
		if b, ok := r.s.built[pathKey(a.Path)]; ok {
			head.StateRoot = b.Block.GlobalStateRoot
		}
		return r.s.node.BC.SetL1Head(head)
	case "Restart":
		return r.s.restart(a.Graceful)
	}
	return fmt.Errorf("unknown mutator %q", a.Name)
}

// checkHeld compares what the node holds (asked directly, not through RPC) with the model's
// chain and L1 head after a mutating step.
func (r *replayer) checkHeld(chain []int, l1 int) error {
	return guarded(func() error {
		h, err := r.s.node.BC.Height()
		if len(chain) == 0 {
			if err == nil {
				return fmt.Errorf("model chain is empty, node has height %d", h)
			}
		} else {
			if err != nil || int(h) != len(chain)-1 {
				return fmt.Errorf("model height %d, node height %d (%v)", len(chain)-1, h, err)
			}
			hd, err := r.s.node.BC.HeadsHeader()
			if err != nil || !hd.Hash.Equal(r.s.built[pathKey(chain)].Block.Hash) {
				return fmt.Errorf("head hash differs from the block built for path %v (%v)", chain, err)
			}
		}
		got, err := r.s.node.BC.L1Head()
		want := uint64(l1)
		if l1 == hugeNum {
			want = math.MaxUint64
		}
		if (l1 == -1) != (err != nil) || (err == nil && got.BlockNumber != want) {
			return fmt.Errorf("model l1 %d, node l1 %v (%v)", l1, got.BlockNumber, err)
		}
		return nil
	})
}

// applyMutator runs one mutator and checks what the node then holds. Misbehaviour of the real
// code here (an error, a panic, a hang, a wrong head) is a keyed divergence, after which the
// behaviour is abandoned on this backend.
func (r *replayer) applyMutator(beh []step, idx int, a *action, chain []int, l1 int) error {
	r.checkRetained(beh, idx)
	if err := r.mutate(a); err != nil {
		kind := "error"
		if errors.Is(err, errHang) {
			kind = "hang"
		} else if strings.HasPrefix(err.Error(), "panic:") {
			kind = "panic"
		}
		r.diverge(fmt.Sprintf("rpc-read:mutator:%s:%s", a.Name, kind),
			fmt.Sprintf("%s on %s failed on a chain the specification allows: %v", a.Name, r.s.backend, err), beh, idx, nil, err.Error())
		r.dead = true
		return errAbandon
	}
	if err := r.checkHeld(chain, l1); err != nil {
		r.diverge(fmt.Sprintf("rpc-read:held-after:%s", a.Name),
			fmt.Sprintf("after %s on %s the node does not hold the model's chain %v / L1 head %d: %v", a.Name, r.s.backend, chain, l1, err),
			beh, idx, vh.J{"chain": chain, "l1": l1}, err.Error())
		r.dead = true
		return errAbandon
	}
	r.out.Count("mutations_"+a.Name, 1)
	r.checkRetained(beh, idx)
	return nil
}

// keep remembers a response buffer; checkRetained verifies that no later call changed it.
func (r *replayer) keep(label string, out []byte) {
	if len(r.retained) >= 96 {
		r.retained = r.retained[32:]
	}
	r.retained = append(r.retained, retained{label: label, live: out, copy: bytes.Clone(out)})
}

func (r *replayer) checkRetained(beh []step, idx int) {
	for i := range r.retained {
		x := &r.retained[i]
		if !bytes.Equal(x.live, x.copy) {
			r.diverge("rpc-read:"+x.label+":response-changed-after-return",
				"a response handed back earlier was modified by a later call", beh, idx, string(x.copy), string(x.live))
			x.copy = bytes.Clone(x.live)
		}
	}
	r.out.Count("retained_response_checks", len(r.retained))
}

func (r *replayer) diverge(key, what string, beh []step, idx int, exp, obs any) {
	in := vh.J{"behaviours": [][]step{beh[:idx+1]}, "backends": []string{r.s.backend}, "huge": hugeNum, "sweep": r.sweepMode}
	r.out.Diverge(vh.Divergence{Key: key, What: what, Step: idx, Input: in, Expected: exp, Observed: obs})
}

func isTag(a *action) bool {
	return a.ID != nil && (a.ID.K == "l1_accepted" || a.ID.K == "pre_confirmed")
}

func shapeOf(a *action, want *result, chainLen int) string {
	shape := idShape(a, chainLen)
	switch a.Name {
	case "getTransactionByHash", "getTransactionReceipt", "getTransactionStatus":
		switch {
		case a.T == 99:
			shape = "tx-unknown"
		case want.Kind == "err":
			shape = "tx-dropped" // once stored, reverted and not re-included by the fork
		default:
			shape = "tx-held"
		}
	}
	return shape
}

func callFailure(err error) string {
	switch {
	case errors.Is(err, errHang):
		return "hang"
	case strings.HasPrefix(err.Error(), "panic:"):
		return "panic"
	}
	return "transport"
}

// unflag is what the same request must be answered without response_flags: the fields the flags add
// taken away (RpcRead!StripFlagFields). Only for well-formed flags.
func unflag(want *result) result {
	w := *want
	switch w.Kind {
	case "feltlub":
		w = result{Kind: "felt", V: want.V}
	case "tx":
		w.Pf = "absent"
	case "block":
		w.Pfs = make([]string, len(want.Pfs))
		for i := range w.Pfs {
			w.Pfs[i] = "absent"
		}
	case "oneof":
		w.Allowed = make([]result, len(want.Allowed))
		for i := range want.Allowed {
			w.Allowed[i] = unflag(&want.Allowed[i])
		}
	}
	return w
}

// resolveIn is the harness-side reading of a block identifier against the model's chain and L1 head
// (-1 = denotes no block).
func resolveIn(id *blockID, chain []int, l1 int) int {
	switch id.K {
	case "num":
		if id.N < len(chain) {
			return id.N
		}
	case "hash":
		if len(id.H) >= 1 && len(id.H) <= len(chain) && eqInts(id.H, chain[:len(id.H)]) {
			return len(id.H) - 1
		}
	case "latest":
		return len(chain) - 1
	case "l1_accepted":
		if l1 >= 0 && len(chain) > 0 {
			return min(l1, len(chain)-1)
		}
	}
	return -1
}

// lastWriteOracle computes last_update_block independently of the specification: from the state
// updates of the blocks the harness STORED along the current chain (the diffs handed to
// Blockchain.Store), the last block <= n whose diff has an entry for the slot; 0 if none.
// changed is the same restricted to the entries that CHANGE something as the legacy trie sees it
// (everything but zero written to a slot that is zero): what the legacy backend's history holds.
func (r *replayer) lastWriteOracle(chain []int, n, c, slot int) (last, changed int, ok bool) {
	addr, key := r.w.addr[c], r.w.slot[slot]
	var cur felt.Felt
	for m := 0; m <= n && m < len(chain); m++ {
		b, ok := r.s.built[pathKey(chain[:m+1])]
		if !ok {
			return 0, 0, false
		}
		if d, ok := b.Update.StateDiff.StorageDiffs[*addr]; ok {
			if v, ok := d[*key]; ok {
				last = m
				if !(v.IsZero() && cur.IsZero()) {
					changed = m
				}
				cur = *v
			}
		}
	}
	return last, changed, true
}

// countFlagged records which regions of the response-flag dimension the run reached (vacuity guards).
func (r *replayer) countFlagged(a *action, got *result, chain []int, l1 int, reverted bool) {
	switch got.Kind {
	case "feltlub":
		n := resolveIn(a.ID, chain, l1)
		switch {
		case got.V == 0 && got.Lub > 0:
			r.out.Count("lub:cleared-or-zero-written", 1)
		case got.V == 0:
			r.out.Count("lub:never-written", 1)
		case got.Lub < n:
			r.out.Count("lub:older-than-block", 1)
		default:
			r.out.Count("lub:at-block", 1)
		}
		if reverted && got.Lub > 0 {
			r.out.Count("lub:after-revert", 1)
		}
		if a.ID.K != "num" {
			r.out.Count("lub:by-"+a.ID.K, 1)
		}
	case "tx":
		r.out.Count("pf:tx:"+got.Pf, 1)
	case "block":
		for _, p := range got.Pfs {
			r.out.Count("pf:block:"+p, 1)
		}
	}
}

// read sends the request of a read step to the three versions and judges every answer by the
// property's demand `want` (`res`, the answer of the model of the code as it is, only classifies a
// difference). A request with response_flags goes to v0.10 as it is; v0.8 / v0.9, which have no such
// parameter, get the same request without it and are judged by want0.
func (r *replayer) read(beh []step, idx int, a *action, want, res, want0, res0 *result, chain []int, l1 int) {
	salt := hashOf(r.w.seed, idx, a, "flags")
	raw := map[string]map[string]any{}
	shape := shapeOf(a, want, len(chain))
	flagShape := ""
	if flagged(a) {
		_, fs := flagsParam(a, salt)
		flagShape = ":flags-" + fs
		r.cnt("flagged_requests", 1)
		r.cnt("flags:"+fs, 1)
	}
	if !r.inSweep && stateMethods[a.Name] || a.Name == "getStateUpdate" && !r.inSweep {
		// the harness-side oracle (fold of the stored state updates) must demand what the specification does
		if ow, _, ok := r.expectFromFold(a, chain, l1); ok {
			r.out.Count("fold_oracle_checks", 1)
			if d := firstDiff(a.Name, &ow, want); d != "" {
				r.out.Count("fold_oracle_disagrees_with_spec", 1)
				r.out.Sample(vh.J{"oracle": ow, "spec": want, "chain": chain, "action": a, "field": d})
			}
		}
	}
	reverted := false
	for i := 0; i < idx; i++ {
		if beh[i].A.Name == "Revert" || beh[i].A.Name == "ReadDuring" {
			reverted = true
		}
	}
	for _, v := range versions {
		if r.only != "" && v != r.only {
			continue
		}
		params := r.s.params(r.w, a, v, salt)
		resp, out, req, err := r.s.call(v, a.Name, params)
		if err != nil {
			r.diverge(fmt.Sprintf("rpc-read:%s:%s:%s", a.Name, v, callFailure(err)), "HandleReader failed: "+err.Error(), beh, idx, nil, req)
			continue
		}
		r.keep(a.Name+":"+v, out)
		raw[v] = resp
		got := r.s.project(r.w, a, resp)
		r.cnt("requests", 1)
		wantV, resV, fshape := *want, res, flagShape
		if v != "v10" && flagged(a) {
			wantV, resV, fshape = *want0, res0, ""
		}
		if v != "v10" {
			wantV = withoutMigrated(wantV) // v0.8 / v0.9 have no migrated_compiled_classes
		}
		if v == "v8" && isTag(a) {
			// spec difference: v0.8 has no such tag
			wantV = result{Kind: "err", E: "InvalidParams"}
		}
		if v == "v10" && wantV.Kind == "feltlub" {
			// the independent oracle (stored state updates) must agree with the specification's demand
			if n := resolveIn(a.ID, chain, l1); n >= 0 {
				if o, _, ok := r.lastWriteOracle(chain, n, a.C, a.S); ok {
					r.cnt("lub_oracle_checks", 1)
					if o != wantV.Lub {
						r.cnt("lub_oracle_disagrees_with_spec", 1)
						r.out.Sample(vh.J{"oracle": o, "spec": wantV.Lub, "chain": chain, "action": a})
					}
				}
			}
		}
		d := firstDiff(a.Name, &got, &wantV)
		if d == "" {
			if wantV.Kind != "err" {
				r.cnt("answers_with_data", 1)
				r.cnt("data:"+a.Name, 1)
				if v == "v10" && a.Fl == "own" {
					r.countFlagged(a, &got, chain, l1, reverted)
				}
			} else {
				r.cnt("err:"+wantV.E, 1)
				if v == "v10" && a.Fl == "bad" {
					r.cnt("flags:bad-refused", 1)
				}
			}
			continue
		}
		// classify: one of the known deviations of the code as it is (the faithful model `res`
		// differs from the property's `want` exactly there), or something new
		if !(strings.HasPrefix(d, "last_update_block") || strings.HasPrefix(d, "proof_facts") || strings.Contains(d, "InvalidParams") ||
			strings.Contains(d, "feltlub-for-felt") || strings.Contains(d, "felt-for-feltlub")) {
			fshape = "" // the flags are part of the signature only where the difference is about them
		}
		key := fmt.Sprintf("rpc-read:%s:%s:%s%s:%s", a.Name, v, shape, fshape, d)
		if res := resV; !eqJSON(res, &wantV) {
			switch {
			case a.Name == "getTransactionByBlockIdAndIndex" && shape == "num-absent" && firstDiff(a.Name, &got, res) == "":
				key = fmt.Sprintf("rpc-read:txindex-absent-block-number:%s", v)
			case stateMethods[a.Name] && shape == "hash-zero" && res.Kind == "pseudo":
				key = fmt.Sprintf("rpc-read:state-at-zero-hash:%s:%s", a.Name, r.s.backend)
			}
		}
		if v == "v10" && wantV.Kind == "feltlub" && got.Kind == "feltlub" && got.V == wantV.V && !r.s.newState {
			// the legacy backend does not log a zero written to a slot that is zero (RpcRead!LegacyLogs;
			// here recomputed from the stored state updates so that it also classifies re-reads after
			// an in-flight step, for which the specification carries no as-is answer)
			if _, changed, ok := r.lastWriteOracle(chain, resolveIn(a.ID, chain, l1), a.C, a.S); ok &&
				changed != wantV.Lub && got.Lub == changed {
				key = fmt.Sprintf("rpc-read:last-update-block:legacy-unlogged-zero-write:%s", r.s.backend)
			}
		}
		what := fmt.Sprintf("%s %s (%s) answered %s where the chain %v with L1 head %d demands %s",
			v, a.Name, r.s.backend, brief(&got), chain, l1, brief(&wantV))
		if got.Note != "" {
			what += " [" + got.Note + "]"
		}
		r.diverge(key, what, beh, idx, wantV, vh.J{"abstract": got, "request": params, "response": resp})
	}
	// the served versions agree wherever their responses share fields
	for _, pair := range [][2]string{{"v8", "v9"}, {"v9", "v10"}} {
		x, y := raw[pair[0]], raw[pair[1]]
		if x == nil || y == nil {
			continue
		}
		if pair[0] == "v8" && isTag(a) {
			continue
		}
		if pair[1] == "v10" && a.Fl == "bad" {
			continue // v0.10 refuses the parameter v0.9 does not have
		}
		_, xe := x["error"]
		_, ye := y["error"]
		var d string
		switch {
		case xe != ye:
			d = "error-vs-result"
		case xe:
			if !eqJSON(obj(x["error"])["code"], obj(y["error"])["code"]) {
				d = "error.code"
			}
		default:
			yr := y["result"]
			if m, isObj := yr.(map[string]any); isObj && a.Name == "getStorageAt" {
				yr = m["value"] // {value, last_update_block} against the plain felt of v0.9
			}
			d = sharedDiff(x["result"], yr, "result", false)
		}
		r.cnt("version_pairs_compared", 1)
		if d != "" {
			key := fmt.Sprintf("rpc-read:%s:%s~%s:%s:%s", a.Name, pair[0], pair[1], shape, d)
			rs := res
			if flagged(a) && pair[1] != "v10" {
				rs = res0
			}
			if stateMethods[a.Name] && shape == "hash-zero" && rs.Kind == "pseudo" {
				key = fmt.Sprintf("rpc-read:state-at-zero-hash:%s:%s", a.Name, r.s.backend)
			}
			r.diverge(key, fmt.Sprintf("%s and %s disagree on %s of %s (%s)", pair[0], pair[1], d, a.Name, r.s.backend),
				beh, idx, x, y)
		}
	}
}

// ---------------------------------------------------------------- the fold oracle and the sweep

// foldState is the state after one block of a chain, computed from nothing but the state updates the
// harness handed to Blockchain.Store along that chain (independent of the specification and of every
// history bucket of the node).
type foldState struct {
	class    map[int]int    // deployed contract -> class
	nonce    map[int]int
	stor     map[[2]int]int
	lastW    map[[2]int]int // last block whose diff has an entry for the slot
	declared map[int]bool
}

func (w *world) idOf(m map[int]*felt.Felt, f *felt.Felt) int {
	for k, v := range m {
		if v.Equal(f) {
			return k
		}
	}
	return -1
}

func smallInt(f *felt.Felt) int {
	b := f.BigInt(new(big.Int))
	if !b.IsInt64() {
		return -997
	}
	return int(b.Int64())
}

// fold applies the stored state updates of blocks 0..h of the chain with the given path.
func (r *replayer) fold(chain []int, h int) (*foldState, bool) {
	st := &foldState{class: map[int]int{}, nonce: map[int]int{}, stor: map[[2]int]int{}, lastW: map[[2]int]int{}, declared: map[int]bool{}}
	w := r.w
	for m := 0; m <= h && m < len(chain); m++ {
		b, ok := r.s.built[pathKey(chain[:m+1])]
		if !ok {
			return nil, false
		}
		d := b.Update.StateDiff
		for _, k := range d.DeclaredV0Classes {
			st.declared[w.idOf(w.classH, k)] = true
		}
		for k := range d.DeclaredV1Classes {
			st.declared[w.idOf(w.classH, &k)] = true
		}
		for a, k := range d.DeployedContracts {
			st.class[w.idOf(w.addr, &a)] = w.idOf(w.classH, k)
		}
		for a, k := range d.ReplacedClasses {
			st.class[w.idOf(w.addr, &a)] = w.idOf(w.classH, k)
		}
		for a, n := range d.Nonces {
			st.nonce[w.idOf(w.addr, &a)] = smallInt(n)
		}
		for a, sd := range d.StorageDiffs {
			for k, v := range sd {
				key := [2]int{w.idOf(w.addr, &a), w.idOf(w.slot, &k)}
				st.stor[key] = smallInt(v)
				st.lastW[key] = m
			}
		}
	}
	return st, true
}

// expectFromFold is what the property demands of a state method or getStateUpdate, derived from the fold:
// want for the request as it is, want0 for the same request without response_flags.
func (r *replayer) expectFromFold(a *action, chain []int, l1 int) (want, want0 result, ok bool) {
	if a.Fl == "bad" {
		return result{Kind: "err", E: "InvalidParams"}, result{}, false
	}
	if a.ID == nil {
		return result{}, result{}, false
	}
	n := resolveIn(a.ID, chain, l1)
	if n < 0 {
		e := result{Kind: "err", E: "BlockNotFound"}
		return e, e, true
	}
	if a.Name == "getStateUpdate" {
		p := chain[:n+1]
		d, okd := r.s.absDiff[pathKey(p)]
		if !okd {
			return result{}, result{}, false
		}
		u := result{Kind: "update", Hash: p, Old: chain[:n], New: p, Diff: d}
		return u, u, true
	}
	st, okf := r.fold(chain, n)
	if !okf {
		return result{}, result{}, false
	}
	one := func(x result) (result, result, bool) { return x, x, true }
	if a.Name == "getClass" {
		if st.declared[a.C] {
			return one(result{Kind: "class", C: a.C})
		}
		return one(result{Kind: "err", E: "ClassHashNotFound"})
	}
	k, deployed := st.class[a.C]
	if !deployed {
		return one(result{Kind: "err", E: "ContractNotFound"})
	}
	switch a.Name {
	case "getStorageAt":
		v := st.stor[[2]int{a.C, a.S}]
		plain := result{Kind: "felt", V: v}
		if a.Fl == "own" {
			lub := st.lastW[[2]int{a.C, a.S}] // 0 when never written
			return result{Kind: "feltlub", V: v, Lub: lub, LubL: lub}, plain, true
		}
		return one(plain)
	case "getNonce":
		return one(result{Kind: "felt", V: st.nonce[a.C]})
	case "getClassHashAt":
		return one(result{Kind: "classhash", C: k})
	case "getClassAt":
		return one(result{Kind: "class", C: k})
	}
	return result{}, result{}, false
}

// sweep reads EVERY height of the chain the node holds now, by number and by hash (the head also by
// latest), with the five state methods for both contracts and both slots / classes and getStateUpdate, on
// every API version, and judges each answer by the fold of the stored state updates of THIS chain: whatever
// a reverted block left behind in a history bucket, a record or a cache shows as the answer of the chain
// that is gone. The number above the head and the hashes of the reverted blocks must be BLOCK_NOT_FOUND.
func (r *replayer) sweep(beh []step, idx int, chain []int, l1 int) {
	if r.dead || len(chain) == 0 {
		return
	}
	r.inSweep = true
	defer func() { r.inSweep, r.only = false, "" }()
	if r.sweepMode != "all" {
		// simulated behaviours: one API version per sweep, in turn (the directed scripts ask all three)
		r.only = versions[hashOf(r.w.seed, idx, len(chain), "sweep-version")%uint64(len(versions))]
	}
	r.out.Count("sweeps", 1)
	ask := func(a action) {
		want, want0, ok := r.expectFromFold(&a, chain, l1)
		if !ok {
			r.out.Count("sweep:no-oracle", 1)
			return
		}
		r.read(beh, idx, &a, &want, &want, &want0, &want0, chain, l1)
	}
	for h := 0; h < len(chain); h++ {
		ids := []*blockID{{K: "num", N: h}, {K: "hash", N: -1, H: chain[:h+1]}}
		if h == len(chain)-1 {
			ids = append(ids, &blockID{K: "latest", N: -1})
		}
		for _, id := range ids {
			ask(action{Name: "getStateUpdate", ID: id})
			for c := 1; c <= 2; c++ {
				ask(action{Name: "getNonce", ID: id, C: c})
				ask(action{Name: "getClassHashAt", ID: id, C: c})
				ask(action{Name: "getClassAt", ID: id, C: c})
				for sl := 1; sl <= 2; sl++ {
					ask(action{Name: "getStorageAt", ID: id, C: c, S: sl, Fl: "own"})
				}
				ask(action{Name: "getClass", ID: id, C: c}) // class k_c
			}
		}
	}
	// the number above the head: whatever the reverted block of that number left behind, it is not found
	ask(action{Name: "getClassHashAt", ID: &blockID{K: "num", N: len(chain)}, C: 1})
	ask(action{Name: "getStateUpdate", ID: &blockID{K: "num", N: len(chain)}})
	for i := len(r.reverted) - 1; i >= 0 && i >= len(r.reverted)-2; i-- {
		p := r.reverted[i]
		if len(p) <= len(chain) && eqInts(p, chain[:len(p)]) {
			continue // stored again since
		}
		ask(action{Name: "getClassHashAt", ID: &blockID{K: "hash", N: -1, H: p}, C: 1})
		ask(action{Name: "getStateUpdate", ID: &blockID{K: "hash", N: -1, H: p}})
	}
}

// afterMutator decides whether the sweep runs after the mutating step idx (see input.Sweep).
func (r *replayer) afterMutator(beh []step, idx int, a *action, prevChain, chain []int, l1 int) {
	if a.Name == "Revert" && len(prevChain) > 0 {
		r.reverted = append(r.reverted, append([]int{}, prevChain...))
	}
	switch r.sweepMode {
	case "none":
		return
	case "all":
	default: // "forks": every Revert, and every Store that follows a Revert (reads between them aside)
		if a.Name != "Revert" && a.Name != "Store" {
			return
		}
		if a.Name == "Store" {
			fork := false
			for i := idx - 1; i >= 0; i-- {
				n := beh[i].A.Name
				if n == "Revert" {
					fork = true
				}
				if n == "Revert" || n == "Store" || n == "ReadDuring" {
					break
				}
			}
			if !fork {
				return
			}
		}
	}
	r.sweep(beh, idx, chain, l1)
}

// observations: what the gated in-flight round saw that C08 does not judge (torn answers, handler
// panics under an in-flight reorg). Counted per class / method / version, with a few examples.
var (
	observed         = map[string]int{}
	observedExamples = map[string][]string{}
)

func observe(class, method, version, what string) {
	observed[class+":"+method+":"+version]++
	if len(observedExamples[class]) < 6 {
		observedExamples[class] = append(observedExamples[class], what)
	}
}

func hashOf(parts ...any) uint64 {
	h := fnv.New64a()
	b, _ := json.Marshal(parts)
	h.Write(b)
	return h.Sum64()
}

// race replays a ReadDuring step: for every version and every store read k of the request, one
// copy of the request is started and blocked at its k-th read; then the mutators run (the sync
// loop reorganising the head while the requests are being served); then all are released. Each
// answer must be the right one for ONE of the chains the node held during the call. Afterwards
// every version is asked again, sequentially, and must answer for the final chain exactly.
func (r *replayer) race(beh []step, idx int) {
	st := &beh[idx]
	a := st.A.Read
	allowed := st.Want.Allowed
	salt := hashOf(r.w.seed, idx, a, "flags")
	allowed0 := unflag(&st.Want).Allowed // what v0.8 / v0.9 (asked without response_flags) may answer
	type answer struct {
		out []byte
		err error
	}
	type flight struct {
		v       string
		k, n    int
		done    chan answer
		release func()
	}
	var flights []*flight
	for _, v := range versions {
		// No dry run to learn how many store reads the request makes: it would warm whatever the
		// handlers cache and the in-flight request must be allowed to be the FIRST one to ask.
		// Gates beyond the request's last read are simply never reached (the request comes first).
		n := maxGate
		req := requestJSON(a.Name, r.s.params(r.w, a, v, salt))
		for k := 1; k <= n; k++ {
			paused, release := r.s.store.p.arm(k)
			f := &flight{v: v, k: k, n: n, done: make(chan answer, 1), release: release}
			go func() {
				var out []byte
				err := func() (err error) {
					defer func() {
						if p := recover(); p != nil {
							err = fmt.Errorf("panic: %v", p)
						}
					}()
					out, err = r.s.handle(f.v, req)
					return err
				}()
				f.done <- answer{out, err}
			}()
			select {
			case <-paused:
				flights = append(flights, f)
			case x := <-f.done: // fewer than k store reads: the request simply came first
				f.done <- x
				f.n = 0
				flights = append(flights, f)
				r.s.store.p.disarm()
				k = n // larger gates would not be reached either
			case <-time.After(callTimeout):
				hangs++
				release()
				r.diverge(fmt.Sprintf("rpc-read:%s:%s:hang", a.Name, v), "request neither reached its store read nor returned", beh, idx, nil, req)
			}
		}
	}
	r.s.store.p.disarm()
	releaseAll := func() {
		for _, f := range flights {
			f.release()
		}
	}
	mutSig := make([]string, 0, len(st.A.Muts))
	serialised := false
	// the requests are let go after the rel-th mutator (they then read the rest in THAT state); the
	// remaining mutators run once they have answered
	rel := 1 + int(hashOf(r.w.seed, idx, a, "release")%uint64(len(st.A.Muts)))
	if len(st.A.Muts) == 4 && idx > 0 && eqInts(st.Chain, beh[idx-1].Chain) {
		rel = 2 // there and back: answer while the fork block is stored
	}
	type collected struct {
		f   *flight
		ans answer
	}
	var answers []collected
	collect := func() {
		releaseAll()
		for _, f := range flights {
			var ans answer
			select {
			case ans = <-f.done:
			case <-time.After(callTimeout):
				hangs++
				ans = answer{err: errHang}
			}
			answers = append(answers, collected{f, ans})
		}
	}
	for i := range st.A.Muts {
		if i == rel {
			collect()
		}
		m := &st.A.Muts[i]
		mutSig = append(mutSig, m.Name)
		mdone := make(chan error, 1)
		go func() { mdone <- r.applyMutator(beh, idx, m, m.Chain, m.L1) }()
		var err error
		select {
		case err = <-mdone:
		case <-time.After(raceGrace):
			// the writer waits for the readers: let the requests finish first (code that
			// serialises readers and writers is correct, not hung)
			releaseAll()
			serialised = true
			err = <-mdone
		}
		if err != nil {
			releaseAll()
			return
		}
	}
	if answers == nil {
		collect()
	}
	if serialised {
		r.out.Count("inflight_serialised_by_the_code", 1)
	}
	muts := strings.Join(mutSig, "+")
	shape := shapeOf(a, &allowed[len(allowed)-1], len(st.Chain))
	r.out.Count("inflight_steps", 1)
	r.out.Count("inflight:"+muts, 1)
	for _, c := range answers {
		f, ans := c.f, c.ans
		v, k, n := f.v, f.k, f.n
		if n == 0 {
			r.out.Count("inflight_requests_that_came_first", 1)
		} else {
			r.out.Count("inflight_reads", 1)
		}
		if ans.err != nil {
			what := fmt.Sprintf("%s %s (%s) failed while %s ran between its store reads %d and %d: %v", v, a.Name, r.s.backend, muts, k-1, k, ans.err)
			if errors.Is(ans.err, errHang) {
				// a request that never returns is a verdict whatever the schedule
				r.diverge(fmt.Sprintf("rpc-read:torn-hang:%s:%s:%s:%s", a.Name, v, shape, muts), what, beh, idx, allowed, ans.err.Error())
			} else {
				observe("torn-"+callFailure(ans.err), a.Name, v, what)
			}
			continue
		}
		resp, err := decode(ans.out)
		if err != nil {
			r.diverge(fmt.Sprintf("rpc-read:torn-unparsable:%s:%s:%s:%s", a.Name, v, shape, muts), err.Error(), beh, idx, allowed, string(ans.out))
			continue
		}
		r.keep(a.Name+":"+v, ans.out)
		got := r.s.project(r.w, a, resp)
		ok := false
		for i := range allowed {
			w := allowed[i]
			if v != "v10" {
				w = withoutMigrated(allowed0[i])
			}
			if v == "v8" && isTag(a) {
				w = result{Kind: "err", E: "InvalidParams"}
			}
			if firstDiff(a.Name, &got, &w) == "" {
				ok = true
				break
			}
		}
		if ok {
			r.out.Count("inflight_answers_of_a_held_chain", 1)
			continue
		}
		names := make([]string, len(allowed))
		for i := range allowed {
			names[i] = brief(&allowed[i])
		}
		what := fmt.Sprintf("%s %s (%s) answered %s while %s ran between its store reads %d and %d; the chains held during the call demand one of %v",
			v, a.Name, r.s.backend, brief(&got), muts, k-1, k, names)
		if got.Note != "" {
			what += " [" + got.Note + "]"
		}
		key := fmt.Sprintf("rpc-read:torn:%s:%s:%s:%s", a.Name, v, shape, muts)
		if a.Name == "getTransactionByBlockIdAndIndex" && a.ID.K == "num" && got.Kind == "err" && got.E == "InvalidTxnIndex" &&
			allowed[len(allowed)-1].Kind == "err" {
			// the listed deviation (absent block number => INVALID_TXN_INDEX), not a torn read
			key = fmt.Sprintf("rpc-read:txindex-absent-block-number:%s", v)
		}
		if strings.HasPrefix(key, "rpc-read:torn:") {
			// C08 quantifies over stored chains, not over schedules: an answer torn by a mutator
			// committed between two store reads of one request is recorded, not judged
			observe("torn-answer", a.Name, v, what)
			continue
		}
		r.diverge(key, what, beh, idx, allowed, vh.J{"abstract": got, "request": r.s.params(r.w, a, v, salt), "response": resp, "gate": k, "reads": n})
	}
	// once the dust has settled every version answers for the final chain
	last := allowed[len(allowed)-1]
	asIs := last
	if a.Name == "getTransactionByBlockIdAndIndex" && a.ID.K == "num" && a.ID.N >= len(st.Chain) {
		asIs = result{Kind: "err", E: "InvalidTxnIndex"} // what the model of the code as it is answers (ITxByIndex)
	}
	last0, asIs0 := unflag(&last), unflag(&asIs)
	r.read(beh, idx, a, &last, &asIs, &last0, &asIs0, st.Chain, st.L1)
}

func brief(r *result) string {
	switch r.Kind {
	case "err":
		return r.E
	case "block":
		return fmt.Sprintf("block %d %v %s txs=%v proof_facts=%v", r.N, r.Hash, r.Status, r.Txs, r.Pfs)
	case "num":
		return fmt.Sprintf("%d", r.N)
	case "hashnum":
		return fmt.Sprintf("(%v,%d)", r.Hash, r.N)
	case "tx":
		return fmt.Sprintf("tx %d %s proof_facts:%s", r.T, r.Type, r.Pf)
	case "receipt":
		return fmt.Sprintf("receipt of tx %d in block %d %v %s %s", r.T, r.N, r.Hash, r.Fin, r.Exec)
	case "status":
		return r.Fin + "/" + r.Exec
	case "update":
		b, _ := json.Marshal(r.Diff)
		return fmt.Sprintf("update of %v old=%v new=%v %s", r.Hash, r.Old, r.New, b)
	case "felt":
		return fmt.Sprintf("0x%x", r.V)
	case "feltlub":
		return fmt.Sprintf("{value 0x%x, last_update_block %d}", r.V, r.Lub)
	case "classhash", "class":
		return fmt.Sprintf("class k%d", r.C)
	}
	return r.Kind
}

func TestRpcReadReplay(t *testing.T) {
	if !vh.Enabled() {
		t.Skip()
	}
	var in input
	if err := vh.Input(&in); err != nil {
		t.Fatal(err)
	}
	out := vh.NewResult()
	defer out.Write()
	backends := in.Backends
	if len(backends) == 0 {
		backends = []string{"legacy", "newstate", "pebble"}
	}
	if in.Huge > 0 {
		hugeNum = in.Huge
	}
	steps, replayed := 0, 0
	for bi, beh := range in.Behaviours {
		for _, be := range backends {
			if be == "pebble" && len(in.Backends) == 0 && (in.First+bi)%2 == 1 && !vh.Thorough() {
				continue // quick tier: Pebble on every other behaviour
			}
			s, err := newSUT(be)
			if err != nil {
				t.Fatal(err)
			}
			r := &replayer{t: t, out: out, w: newWorld(vh.Seed()), s: s, sweepMode: in.Sweep}
			if len(beh) > 0 && beh[0].Scn != "" {
				out.Count("scenario:"+beh[0].Scn, 1)
			}
			for i := range beh {
				st := &beh[i]
				switch st.A.Name {
				case "Init": // the initial state of a TLC counterexample
					continue
				case "Store", "Revert", "SetL1Head", "Restart":
					var prev []int
					if i > 0 {
						prev = beh[i-1].Chain
					}
					if r.applyMutator(beh, i, &st.A, st.Chain, st.L1) == nil {
						r.afterMutator(beh, i, &st.A, prev, st.Chain, st.L1)
					}
				case "ReadDuring":
					r.race(beh, i)
				default:
					r.read(beh, i, &st.A, &st.Want, &st.Res, &st.Want0, &st.Res0, st.Chain, st.L1)
				}
				if r.dead || hangs >= maxHangs {
					break
				}
				steps++
			}
			r.checkRetained(beh, len(beh)-1)
			s.closeDB()
			replayed++
		}
		if bi < 2 {
			out.Sample(vh.J{"behaviour": in.First + bi, "steps": len(beh), "first_steps": beh[:min(len(beh), 6)]})
		}
		if bi%20 == 19 {
			_ = out.Write() // partial results survive a later hard failure
		}
		if hangs >= maxHangs {
			break // the real code keeps hanging: report what was recorded
		}
	}
	out.Stats["observations"] = vh.J{"counts": observed, "examples": observedExamples}
	out.Stats["slow_calls"] = slowCalls
	out.Done(replayed, steps)
}

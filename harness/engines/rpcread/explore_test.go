package rpcread

import (
	"context"
	"fmt"
	"os"
	"strings"
	"testing"

	"github.com/NethermindEth/juno/core"
	"github.com/NethermindEth/juno/core/felt"
	"github.com/NethermindEth/juno/jsonrpc"
	"github.com/NethermindEth/juno/rpc"
	rpcv10 "github.com/NethermindEth/juno/rpc/v10"
	rpcv8 "github.com/NethermindEth/juno/rpc/v8"
	rpcv9 "github.com/NethermindEth/juno/rpc/v9"
	"github.com/NethermindEth/juno/sync"
	"github.com/NethermindEth/juno/utils/log"

	"verifharness/internal/chainkit"
)

func TestExplore(t *testing.T) {
	if os.Getenv("RPCREAD_EXPLORE") == "" {
		t.Skip()
	}
	for _, newState := range []bool{false, true} {
		n := chainkit.NewNode(nil, newState)
		g := chainkit.NewGen(7)
		addr := *chainkit.F(0x100)
		addr2 := *chainkit.F(0x200)
		ch, cls := g.Cairo0Class()
		sh, c1, _, scls := g.SierraClass()
		var blocks []*chainkit.Built
		for i := 0; i < 3; i++ {
			d := chainkit.EmptyDiff()
			classes := map[felt.Felt]core.ClassDefinition{}
			if i == 0 {
				d.DeclaredV0Classes = append(d.DeclaredV0Classes, &ch)
				classes[ch] = cls
				d.DeclaredV1Classes[sh] = &c1
				classes[sh] = scls
				d.DeployedContracts[addr] = &ch
			}
			if i == 2 {
				d.DeployedContracts[addr2] = &sh
			}
			d.StorageDiffs[addr] = map[felt.Felt]*felt.Felt{*chainkit.F(1): chainkit.F(uint64(i + 1))}
			d.Nonces[addr] = chainkit.F(uint64(i))
			var txs []core.Transaction
			var rcs []*core.TransactionReceipt
			for _, k := range []string{"invoke3", "l1handler", "invoke1"} {
				tx := g.Tx(k)
				txs = append(txs, tx)
				rcs = append(rcs, g.Receipt(tx, nil))
			}
			b, err := n.Append(chainkit.BlockSpec{Version: "0.14.0", Diff: d, Classes: classes, Txs: txs, Receipts: rcs, Timestamp: uint64(1000 + i)})
			if err != nil {
				t.Fatal(err)
			}
			blocks = append(blocks, b)
		}
		logger := log.NewNopZapLogger()
		h := rpc.New(n.BC, &sync.NoopSynchronizer{}, nil, "v", logger, chainkit.Network)
		mk := func(ms []jsonrpc.Method, _ string, v any) *jsonrpc.Server {
			s := jsonrpc.NewServer(1, logger)
			switch v.(int) {
			case 8:
				s = s.WithValidator(rpcv8.Validator())
			case 9:
				s = s.WithValidator(rpcv9.Validator())
			case 10:
				s = s.WithValidator(rpcv10.Validator())
			}
			if err := s.RegisterMethods(ms...); err != nil {
				t.Fatal(err)
			}
			return s
		}
		m8, p8 := h.MethodsV0_8()
		m9, p9 := h.MethodsV0_9()
		m10, p10 := h.MethodsV0_10()
		servers := map[string]*jsonrpc.Server{"v8": mk(m8, p8, 8), "v9": mk(m9, p9, 9), "v10": mk(m10, p10, 10)}
		call := func(method, params string) {
			for _, v := range []string{"v8", "v9", "v10"} {
				req := fmt.Sprintf(`{"jsonrpc":"2.0","id":1,"method":"%s","params":%s}`, method, params)
				out, _, err := servers[v].HandleReader(context.Background(), strings.NewReader(req))
				s := string(out)
				if len(s) > 1500 {
					s = s[:1500] + "..."
				}
				fmt.Printf("[%v %s] %s %s\n  -> %s err=%v\n", newState, v, method, params, s, err)
			}
		}
		n.BC.SetL1Head(&core.L1Head{BlockNumber: 1, BlockHash: blocks[1].Block.Hash, StateRoot: blocks[1].Block.GlobalStateRoot})
		call("starknet_blockNumber", "{}")
		call("starknet_blockHashAndNumber", "[]")
		call("starknet_getBlockWithTxHashes", `{"block_id":"latest"}`)
		call("starknet_getBlockWithTxHashes", `{"block_id":"l1_accepted"}`)
		call("starknet_getBlockWithTxHashes", `{"block_id":"pre_confirmed"}`)
		call("starknet_getBlockWithTxs", `{"block_id":{"block_number":1}}`)
		call("starknet_getBlockWithReceipts", `{"block_id":{"block_number":2}}`)
		call("starknet_getBlockWithReceipts", `{"block_id":{"block_number":7}}`)
		call("starknet_getBlockTransactionCount", `{"block_id":{"block_hash":"`+blocks[1].Block.Hash.String()+`"}}`)
		call("starknet_getBlockTransactionCount", `{"block_id":{"block_hash":"0x0"}}`)
		call("starknet_getTransactionByHash", `{"transaction_hash":"`+blocks[1].Block.Transactions[1].Hash().String()+`"}`)
		call("starknet_getTransactionReceipt", `{"transaction_hash":"`+blocks[1].Block.Transactions[2].Hash().String()+`"}`)
		call("starknet_getTransactionStatus", `{"transaction_hash":"`+blocks[2].Block.Transactions[2].Hash().String()+`"}`)
		call("starknet_getTransactionStatus", `{"transaction_hash":"0x1234"}`)
		call("starknet_getTransactionByBlockIdAndIndex", `{"block_id":{"block_number":1},"index":1}`)
		call("starknet_getTransactionByBlockIdAndIndex", `{"block_id":{"block_number":1},"index":5}`)
		call("starknet_getTransactionByBlockIdAndIndex", `{"block_id":{"block_number":9},"index":0}`)
		call("starknet_getStateUpdate", `{"block_id":{"block_number":0}}`)
		call("starknet_getStorageAt", `{"contract_address":"0x100","key":"0x1","block_id":{"block_number":1}}`)
		call("starknet_getStorageAt", `{"contract_address":"0x100","key":"0x2","block_id":{"block_number":1}}`)
		call("starknet_getStorageAt", `{"contract_address":"0x200","key":"0x1","block_id":{"block_number":1}}`)
		call("starknet_getStorageAt", `{"contract_address":"0x200","key":"0x1","block_id":"latest"}`)
		call("starknet_getStorageAt", `{"contract_address":"0x300","key":"0x1","block_id":"latest"}`)
		call("starknet_getStorageAt", `{"contract_address":"0x100","key":"0x1","block_id":{"block_number":9}}`)
		call("starknet_getStorageAt", `{"contract_address":"0x100","key":"0x1","block_id":{"block_hash":"0x0"}}`)
		call("starknet_getNonce", `{"contract_address":"0x100","block_id":{"block_number":1}}`)
		call("starknet_getNonce", `{"contract_address":"0x200","block_id":{"block_number":1}}`)
		call("starknet_getNonce", `{"contract_address":"0x200","block_id":{"block_number":2}}`)
		call("starknet_getClassHashAt", `{"contract_address":"0x200","block_id":{"block_number":1}}`)
		call("starknet_getClassHashAt", `{"contract_address":"0x200","block_id":{"block_number":2}}`)
		call("starknet_getClassAt", `{"contract_address":"0x200","block_id":"latest"}`)
		call("starknet_getClass", `{"class_hash":"`+ch.String()+`","block_id":"latest"}`)
		call("starknet_getClass", `{"class_hash":"0x77","block_id":"latest"}`)
	}
}

package rpcread

import (
	"encoding/json"
	"fmt"
	"os"
	"testing"
)

func TestDebug(t *testing.T) {
	f := os.Getenv("RPCREAD_DEBUG")
	if f == "" {
		t.Skip()
	}
	raw, _ := os.ReadFile(f)
	var rp struct {
		Input input `json:"input"`
	}
	if err := json.Unmarshal(raw, &rp); err != nil {
		t.Fatal(err)
	}
	beh := rp.Input.Behaviours[0]
	s, _ := newSUT(rp.Input.Backends[0] == "newstate")
	r := &replayer{t: t, w: newWorld(1), s: s}
	for i := range beh {
		st := &beh[i]
		switch st.A.Name {
		case "Store", "Revert", "SetL1Head":
			if err := r.mutate(&st.A); err != nil {
				t.Fatal(err)
			}
			if st.A.Name == "Store" {
				b := s.built[pathKey(st.A.Path)]
				fmt.Printf("stored %v ver=%s root=%s suOld=%s suNew=%s\n", st.A.Path, b.Block.ProtocolVersion, b.Block.GlobalStateRoot, b.Update.OldRoot, b.Update.NewRoot)
			}
		}
	}
	for n := uint64(0); n < 4; n++ {
		hs, err := s.node.BC.TransactionHashesByBlockNumber(n)
		fmt.Printf("txhashes %d: %d err=%v\n", n, len(hs), err)
	}
	for n := 0; n < 0; n++ {
		resp, _, _ := s.call("v10", "getStateUpdate", map[string]any{"block_id": map[string]any{"block_number": n}})
		m := obj(resp["result"])
		fmt.Printf("rpc su %d: old=%v new=%v\n", n, m["old_root"], m["new_root"])
		resp, _, _ = s.call("v10", "getBlockWithTxHashes", map[string]any{"block_id": map[string]any{"block_number": n}})
		m = obj(resp["result"])
		fmt.Printf("rpc blk %d: new_root=%v\n", n, m["new_root"])
	}
}

package headstate

import (
	"fmt"
	"testing"

	"github.com/NethermindEth/juno/core"
	"github.com/NethermindEth/juno/core/felt"
	"github.com/NethermindEth/juno/db/memory"

	"verifharness/internal/chainkit"
	"verifharness/internal/vh"
)

// TestLegacyUpgradeProbe records (as an observation in the evidence, NOT as a verdict) what happens
// when a database written entirely by the LEGACY state is upgraded with --new-state at the pinned
// commit: the head-state migration consolidates the contract records, but the legacy tries live in
// other buckets than the ones the trie2-based state reads, and no migration moves them. This is
// why the replay works on databases whose tries are already in the new layout.
func TestLegacyUpgradeProbe(t *testing.T) {
	if !vh.Enabled() {
		t.Skip()
	}
	out := vh.NewResult()
	defer out.Write()
	g := chainkit.NewGen(vh.Seed())
	store := memory.New()
	leg := chainkit.NewNode(store, false)
	ch, cls := g.Cairo0Class()
	a1 := *chainkit.F(0x100)
	slot, val := chainkit.F(1), chainkit.F(7)
	for i := 0; i < 2; i++ {
		d := chainkit.EmptyDiff()
		classes := map[felt.Felt]core.ClassDefinition{}
		if i == 0 {
			d.DeclaredV0Classes = append(d.DeclaredV0Classes, &ch)
			classes[ch] = cls
			d.DeployedContracts[a1] = &ch
			d.StorageDiffs[a1] = map[felt.Felt]*felt.Felt{*slot: val}
		} else {
			d.Nonces[a1] = chainkit.F(1)
		}
		if _, err := leg.Append(chainkit.BlockSpec{Version: "0.13.2", Diff: d, Classes: classes, Timestamp: uint64(1000 + i)}); err != nil {
			t.Fatal(err)
		}
	}
	if err, _, _ := runMigrations(store, 0); err != nil {
		out.Stats["legacy_upgrade_probe"] = "migration fails: " + err.Error()
		return
	}
	up := chainkit.NewNode(store, true)
	hd, err := up.BC.HeadsHeader()
	if err != nil {
		t.Fatal(err)
	}
	hs, closer, err := up.BC.HeadState()
	if err != nil {
		out.Stats["legacy_upgrade_probe"] = "HeadState: " + err.Error()
		return
	}
	defer closer()
	v, err1 := hs.ContractStorage(&a1, slot)
	n, err2 := hs.ContractNonce(&a1)
	root := "?"
	if ct, err := hs.ContractTrie(); err == nil {
		if h, err := ct.Hash(); err == nil {
			root = h.String()
		}
	}
	out.Stats["legacy_upgrade_probe"] = fmt.Sprintf(
		"legacy-written database + head-state migration + new state: nonce reads %s (%v, written 0x1), storage slot reads %s (%v, written %s), contracts trie root %s (head block says %s)",
		&n, err2, &v, err1, val, root, hd.GlobalStateRoot)
	out.Done(1, 1)
}

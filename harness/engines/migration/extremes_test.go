// Engine "migration" (property C18), degenerate and extreme shapes of the runner (audit class 4):
// the empty registry, the full registry of 64 migrations (the width of the schema bitset: index 63
// is the sign bit of an int64), an optional migration at index 63 (opt-in, crash, restart, opt-out
// attempt), every crash point of the 64-migration run.
package migration

import (
	"context"
	"fmt"
	"strings"
	"testing"

	"github.com/NethermindEth/juno/blockchain/networks"
	"github.com/NethermindEth/juno/db/memory"
	"github.com/NethermindEth/juno/migration"
	"github.com/NethermindEth/juno/utils/log"

	"verifharness/internal/faultkv"
	"verifharness/internal/vh"
)

func TestRunnerExtremes(t *testing.T) {
	if !vh.Enabled() {
		t.Skip()
	}
	out := vh.NewResult()
	defer out.Write()
	net := networks.Sepolia
	report := func(key, what string, exp, obs any) {
		out.Diverge(vh.Divergence{Key: key, What: what, Expected: exp, Observed: obs, Input: map[string]any{}})
	}
	build := func(n int, lastOptional, enabled bool, mlog *mockLog) *migration.Registry {
		reg := migration.NewRegistry()
		for k := 1; k <= n; k++ {
			m := &mock{idx: k, log: mlog, cancel: func() {}, before: &rAct{Ok: true}, migrate: &rAct{St: "nil", E: "nil"}}
			if k == n && lastOptional {
				reg.WithOptional(m, enabled, "last")
			} else {
				reg.With(m)
			}
		}
		return reg
	}
	all := func(n int) []int {
		o := []int{}
		for i := 1; i <= n; i++ {
			o = append(o, i)
		}
		return o
	}
	seqs := 0
	// empty registry
	{
		store := memory.New()
		r, err := migration.NewRunner(build(0, false, false, &mockLog{}), store, &net, log.NewNopZapLogger())
		if err == nil {
			err = r.Run(context.Background())
		}
		p, _ := project(store, 0)
		if err != nil || len(p.Applied) != 0 || len(p.LastTarget) != 0 {
			report("runner-extremes:empty-registry", fmt.Sprintf("Run with no migrations: %v, metadata %+v", err, p), "ok, nothing applied", fmt.Sprint(err))
		}
		seqs++
	}
	// 64 migrations: uninterrupted, then a crash after every durable mutation + restart
	const N = 64
	ref := memory.New()
	fk := faultkv.Wrap(ref)
	lg := &mockLog{}
	r, err := migration.NewRunner(build(N, false, false, lg), fk, &net, log.NewNopZapLogger())
	if err == nil {
		err = r.Run(context.Background())
	}
	M := fk.Count()
	if p, _ := project(ref, N); err != nil || fmt.Sprint(p.Applied) != fmt.Sprint(all(N)) || fmt.Sprint(p.LastTarget) != fmt.Sprint(all(N)) || len(lg.calls) != 2*N {
		report("runner-extremes:64-migrations", fmt.Sprintf("registry of 64 migrations: Run returned %v, applied %v, %d mock calls", err, p.Applied, len(lg.calls)), all(N), p.Applied)
	}
	seqs++
	for k := 1; k <= M; k++ {
		store := memory.New()
		fk := faultkv.Wrap(store)
		fk.Arm(faultkv.CrashAfter, k, nil)
		lg1 := &mockLog{}
		if r, err := migration.NewRunner(build(N, false, false, lg1), fk, &net, log.NewNopZapLogger()); err == nil {
			_ = r.Run(context.Background())
		}
		before, _ := project(store, N)
		lg2 := &mockLog{}
		r, err := migration.NewRunner(build(N, false, false, lg2), store, &net, log.NewNopZapLogger())
		if err == nil {
			err = r.Run(context.Background())
		}
		p, _ := project(store, N)
		ok := err == nil && fmt.Sprint(p.Applied) == fmt.Sprint(all(N))
		// the restart invokes exactly the migrations that were not applied, ascending, once
		want := []int{}
		for i := 1; i <= N; i++ {
			if !contains(before.Applied, i) {
				want = append(want, i)
			}
		}
		got := []int{}
		for _, c := range lg2.calls {
			if c.Kind == "Migrate" {
				got = append(got, c.Idx)
			}
		}
		if !ok || fmt.Sprint(got) != fmt.Sprint(want) {
			report("runner-extremes:64-migrations:crash-restart", fmt.Sprintf("64 migrations, crash after durable mutation %d of %d, restart: Run returned %v, applied %d of 64, restart invoked %v", k, M, err, len(p.Applied), got), want, got)
			break
		}
		seqs++
	}
	// optional migration at index 63: opted in, crashed before it ran, then opted out
	{
		store := memory.New()
		fk := faultkv.Wrap(store)
		fk.Arm(faultkv.CrashAfter, 1, nil) // lastTarget written, nothing run
		if r, err := migration.NewRunner(build(N, true, true, &mockLog{}), fk, &net, log.NewNopZapLogger()); err == nil {
			_ = r.Run(context.Background())
		}
		_, err := migration.NewRunner(build(N, true, false, &mockLog{}), store, &net, log.NewNopZapLogger())
		if err == nil || !strings.Contains(err.Error(), "cannot opt out") {
			report("runner-extremes:opt-out-of-index-63-admitted", fmt.Sprintf("optional migration at index 63 was opted into (lastTarget written), then disabled: NewRunner returned %v", err), "cannot opt out", fmt.Sprint(err))
		}
		r, err := migration.NewRunner(build(N, true, true, &mockLog{}), store, &net, log.NewNopZapLogger())
		if err == nil {
			err = r.Run(context.Background())
		}
		if p, _ := project(store, N); err != nil || !contains(p.Applied, N) {
			report("runner-extremes:index-63-not-applied", fmt.Sprintf("optional migration at index 63 enabled: Run returned %v, applied %v", err, p.Applied), N, p.Applied)
		}
		seqs++
	}
	out.Count("runner_extreme_sequences", seqs)
	out.Done(seqs, seqs)
}

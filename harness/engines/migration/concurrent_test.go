// Engine "migration" (property C18), concurrent round (audit class 2): the block-transactions
// migration runs FREE (four ingestors, committer, no gate) on a database of a few hundred blocks
// while a reader takes consistent snapshots of the live database for the migration's whole lifetime
// and judges each of them by the invariants of BlockTxMigration.tla: OnlyOriginal (a layout only
// ever holds original content, transactions and receipts of the old layout go together) and
// NeverLost (no transaction is absent from both layouts at any moment). A commit that is not one
// atomic batch (old entries deleted apart from the blob being written) shows as such a moment.
package migration

import (
	"context"
	"fmt"
	"math/rand"
	"testing"

	"github.com/NethermindEth/juno/blockchain/networks"
	"github.com/NethermindEth/juno/db"
	"github.com/NethermindEth/juno/migration"
	"github.com/NethermindEth/juno/utils/log"

	"verifharness/internal/vh"
)

type concInput struct {
	Blocks int `json:"blocks"`
	Rounds int `json:"rounds"`
}

func TestMigrationConcurrent(t *testing.T) {
	if !vh.Enabled() {
		t.Skip()
	}
	var in concInput
	if err := vh.Input(&in); err != nil {
		t.Fatal(err)
	}
	out := vh.NewResult()
	defer out.Write()
	snaps := 0
	var observations []string
	for round := 0; round < in.Rounds; round++ {
		rnd := rand.New(rand.NewSource(vh.Seed()*977 + int64(round)))
		orig := make([]int, in.Blocks)
		for i := range orig {
			if (i/rangeSize)%7 != 3 { // every seventh range is empty
				orig[i] = rnd.Intn(4)
			}
		}
		p, err := lightDB(vh.Seed()*31+int64(round), orig)
		if err != nil {
			t.Fatal(err)
		}
		g := newGate(p.base)
		g.setOn(false)
		done := make(chan error, 1)
		go func() {
			defer func() {
				if r := recover(); r != nil {
					done <- fmt.Errorf("migration panicked: %v", r)
				}
			}()
			net := networks.Sepolia
			runner, err := migration.NewRunner(btRegistry(), g, &net, log.NewNopZapLogger())
			if err == nil {
				err = runner.Run(context.Background())
			}
			done <- err
		}()
		// C18 does not quantify over schedules: what an independent reader sees WHILE the migration
		// runs is an observation, not a verdict; what is left when the migration has ended is judged.
		running := true
		report := func(key, what string, exp, obs any) {
			if running {
				observations = append(observations, key+": "+what)
				return
			}
			out.Diverge(vh.Divergence{Key: key, What: what, Expected: exp, Observed: obs, Input: concInput{Blocks: in.Blocks, Rounds: round + 1}})
		}
		judge := func(when string) bool {
			snap := p.base.NewSnapshot()
			defer snap.Close()
			// one range of ten per committed batch region, drawn afresh for every snapshot: cheap
			// enough to take hundreds of snapshots while the four batches are being written
			full := when != "while the migration was running"
			pr, bad := projectSome(snap, in.Blocks, rnd, full)
			snaps++
			if bad != "" {
				report("blocktx-concurrent:inconsistent-layout", when+": "+bad, nil, nil)
				return false
			}
			for n, o := range orig {
				if pr.Old[n] == -9 {
					continue // not sampled in this snapshot
				}
				if (pr.Old[n] != 0 && pr.Old[n] != o) || (pr.Blob[n] != -1 && pr.Blob[n] != o) {
					report("blocktx-concurrent:not-original-content", fmt.Sprintf("%s: block %d has %d old entries and a blob of %d, originally %d transactions", when, n, pr.Old[n], pr.Blob[n], o), o, []int{pr.Old[n], pr.Blob[n]})
					return false
				}
				if o > 0 && pr.Old[n] != o && pr.Blob[n] != o {
					report("blocktx-concurrent:block-in-neither-layout", fmt.Sprintf("%s: a consistent snapshot of the live database shows block %d (%d transactions) in NEITHER layout: its old entries are gone and its blob is not there", when, n, o), o, []int{pr.Old[n], pr.Blob[n]})
					return false
				}
			}
			return true
		}
		var runErr error
		ok := true
		for ok && running {
			select {
			case runErr = <-done:
				running = false
			default:
				ok = judge("while the migration was running")
			}
		}
		if running {
			runErr = <-done
		}
		running = false
		if runErr != nil {
			report("blocktx-concurrent:run-fails", runErr.Error(), nil, runErr.Error())
			continue
		}
		judge("after the migration")
		for _, pr := range sweep(p.base, p, false) {
			key := classify(pr, "uninterrupted-leading-range")
			report(key, whatFor(key, pr, "after the free-running migration"), pr.Want, pr.Got)
			break
		}
	}
	if len(observations) > 6 {
		observations = observations[:6]
	}
	out.Stats["observations"] = observations
	out.Count("concurrent_snapshots_judged", snaps)
	out.Done(in.Rounds, snaps)
}

// projectSome is projectBlocks over a random sample of ranges (all blocks when full); blocks that
// were not looked at carry Old = -9.
func projectSome(r db.KeyValueReader, nblocks int, rnd *rand.Rand, full bool) (btProj, string) {
	if full {
		return projectBlocks(r, nblocks)
	}
	p := btProj{Old: make([]int, nblocks), Blob: make([]int, nblocks)}
	for i := range p.Old {
		p.Old[i] = -9
	}
	for k := 0; k < 6; k++ {
		start := rnd.Intn(nblocks/rangeSize+1) * rangeSize
		for n := start; n < start+rangeSize && n < nblocks; n++ {
			one, bad := projectOne(r, uint64(n))
			if bad != "" {
				return p, bad
			}
			p.Old[n], p.Blob[n] = one[0], one[1]
		}
	}
	return p, ""
}

// A store wrapper with the lending semantics of the production backend (db/pebblev2): the value
// handed to a Get callback is valid only inside the callback, the slice returned by
// Iterator.UncopiedValue only until the iterator moves or is closed. The memory database never
// reuses buffers, so code that retains a lent slice works on it by accident; this wrapper lends a
// COPY and scribbles over it when the loan ends, so that any result still aliasing it is visibly
// corrupted when the harness reads it back (audit class 1: aliasing / retained results).
package migration

import (
	"github.com/NethermindEth/juno/db"
)

func scribble(b []byte) {
	for i := range b {
		b[i] = 0xa5
	}
}

type poisonStore struct {
	db.KeyValueStore
}

func poison(inner db.KeyValueStore) db.KeyValueStore { return &poisonStore{inner} }

func (p *poisonStore) Get(key []byte, cb func([]byte) error) error {
	return p.KeyValueStore.Get(key, func(v []byte) error {
		c := append(make([]byte, 0, len(v)), v...)
		err := cb(c)
		scribble(c)
		return err
	})
}

func (p *poisonStore) NewIterator(prefix []byte, withUpperBound bool) (db.Iterator, error) {
	it, err := p.KeyValueStore.NewIterator(prefix, withUpperBound)
	if err != nil {
		return nil, err
	}
	return &poisonIter{Iterator: it}, nil
}

type poisonSnapshot struct {
	db.Snapshot
}

func (p *poisonStore) NewSnapshot() db.Snapshot {
	return &poisonSnapshot{p.KeyValueStore.NewSnapshot()}
}

func (s *poisonSnapshot) Get(key []byte, cb func([]byte) error) error {
	return s.Snapshot.Get(key, func(v []byte) error {
		c := append(make([]byte, 0, len(v)), v...)
		err := cb(c)
		scribble(c)
		return err
	})
}

func (s *poisonSnapshot) NewIterator(prefix []byte, withUpperBound bool) (db.Iterator, error) {
	it, err := s.Snapshot.NewIterator(prefix, withUpperBound)
	if err != nil {
		return nil, err
	}
	return &poisonIter{Iterator: it}, nil
}

type poisonIter struct {
	db.Iterator
	lent [][]byte
}

func (i *poisonIter) recall() {
	for _, b := range i.lent {
		scribble(b)
	}
	i.lent = i.lent[:0]
}

func (i *poisonIter) UncopiedValue() ([]byte, error) {
	v, err := i.Iterator.UncopiedValue()
	if err != nil || v == nil {
		return v, err
	}
	c := append(make([]byte, 0, len(v)), v...)
	i.lent = append(i.lent, c)
	return c, nil
}

func (i *poisonIter) First() bool        { i.recall(); return i.Iterator.First() }
func (i *poisonIter) Next() bool         { i.recall(); return i.Iterator.Next() }
func (i *poisonIter) Prev() bool         { i.recall(); return i.Iterator.Prev() }
func (i *poisonIter) Seek(k []byte) bool { i.recall(); return i.Iterator.Seek(k) }
func (i *poisonIter) Close() error       { i.recall(); return i.Iterator.Close() }

// Shared helpers of the migration engine: databases in the PREVIOUS layout (per-transaction
// entries, StateDiffLength = 0) from seeded content, projections, the accessor sweep, and a
// gate that forces a chosen completion order onto the ingestors of the block-transactions
// migration.
package migration

import (
	"bytes"
	"encoding/binary"
	"errors"
	"fmt"
	"strings"
	"sync"
	"sync/atomic"
	"time"

	"github.com/NethermindEth/juno/core"
	"github.com/NethermindEth/juno/core/felt"
	"github.com/NethermindEth/juno/db"
	"github.com/NethermindEth/juno/db/memory"
	"github.com/NethermindEth/juno/encoder"
	"github.com/NethermindEth/juno/migration"
	"github.com/NethermindEth/juno/migration/blocktransactions/txlayout"
	"github.com/NethermindEth/juno/pruner"

	"verifharness/internal/chainkit"
	"verifharness/internal/faultkv"
)

const rangeSize = 10 // blocktransactions.batchSize

// ------------------------------------------------------------------ content

type blockContent struct {
	txs   []core.Transaction
	rcs   []*core.TransactionReceipt
	txEnc [][]byte
	rcEnc [][]byte
	sdLen uint64 // StateDiffLength the current code stores for the block
}

type prepared struct {
	base    *memory.Database // the pre-migration image; Copy() per experiment
	content []blockContent
	first   uint64 // oldest retained block (0 unless pruned)
	full    bool   // a complete valid chain (state, commitments, ...) rather than headers+txs only
}

func (p *prepared) height() uint64 { return uint64(len(p.content) - 1) }

func mustEnc(v any) []byte {
	b, err := encoder.Marshal(v)
	if err != nil {
		panic(err)
	}
	return b
}

func genBlockContent(g *chainkit.Gen, n int) blockContent {
	var c blockContent
	for i := 0; i < n; i++ {
		tx := g.Tx(chainkit.TxKinds[g.R.Intn(len(chainkit.TxKinds))])
		if tx.Hash() == nil || tx.Hash().IsZero() {
			// juno does not compute hashes of the deprecated deploy transactions; a real chain
			// carries the gateway's value (the current accessors treat a zero hash as missing)
			chainkit.SetTxHash(tx, g.Felt())
		}
		var evs []*core.Event
		for e := g.R.Intn(3); e > 0; e-- {
			evs = append(evs, &core.Event{From: g.Felt(), Keys: g.Felts(1 + g.R.Intn(2)), Data: g.Felts(g.R.Intn(3))})
		}
		rc := g.Receipt(tx, evs)
		c.txs = append(c.txs, tx)
		c.rcs = append(c.rcs, rc)
		c.txEnc = append(c.txEnc, mustEnc(&tx))
		c.rcEnc = append(c.rcEnc, mustEnc(rc))
	}
	return c
}

// lightDB writes only what the block-transactions migration reads: chain height, headers (number
// and transaction count) and the per-transaction entries of the previous layout.
func lightDB(seed int64, txCounts []int) (*prepared, error) {
	g := chainkit.NewGen(seed)
	store := memory.New()
	p := &prepared{base: store}
	for n, cnt := range txCounts {
		c := genBlockContent(g, cnt)
		p.content = append(p.content, c)
		h := &core.Header{Number: uint64(n), Hash: g.Felt(), ParentHash: g.Felt(), TransactionCount: uint64(cnt),
			GlobalStateRoot: g.Felt(), SequencerAddress: g.Felt(), ProtocolVersion: "0.13.2"}
		if err := core.BlockHeadersByNumberBucket.Put(store, uint64(n), h); err != nil {
			return nil, err
		}
		if err := txlayout.TransactionLayoutPerTx.WriteTransactionsAndReceipts(store, uint64(n), c.txs, c.rcs); err != nil {
			return nil, err
		}
	}
	if len(txCounts) > 0 {
		hgt := uint64(len(txCounts) - 1)
		if err := core.ChainHeightBucket.Put(store, struct{}{}, &hgt); err != nil {
			return nil, err
		}
	}
	return p, nil
}

// fullDB stores a valid chain through the real Blockchain (current layout), then rewrites it into
// the previous layout: per-transaction entries instead of the per-block blob, StateDiffLength = 0.
// pruneTo > 0 instead keeps the current transaction layout and prunes the block data below
// pruneTo (a pruned database can only exist in the current layout).
func fullDB(seed int64, txCounts []int, pruneTo uint64) (*prepared, error) {
	g := chainkit.NewGen(seed)
	store := memory.New()
	node := chainkit.NewNode(store, false)
	p := &prepared{base: store, full: true, first: pruneTo}
	addr := *chainkit.F(0x100)
	ch, cls := g.Cairo0Class()
	for n, cnt := range txCounts {
		c := genBlockContent(g, cnt)
		d := chainkit.EmptyDiff()
		classes := map[felt.Felt]core.ClassDefinition{}
		if n == 0 {
			d.DeclaredV0Classes = append(d.DeclaredV0Classes, &ch)
			classes[ch] = cls
			d.DeployedContracts[addr] = &ch
		}
		slots := map[felt.Felt]*felt.Felt{}
		for s := 0; s <= g.R.Intn(3); s++ {
			slots[*chainkit.F(uint64(1 + g.R.Intn(6)))] = chainkit.F(uint64(1 + n + s))
		}
		d.StorageDiffs[addr] = slots
		if g.R.Intn(2) == 0 {
			d.Nonces[addr] = chainkit.F(uint64(n + 1))
		}
		b, err := node.Append(chainkit.BlockSpec{Version: []string{"0.13.2", "0.13.4", "0.14.0"}[n%3], Diff: d, Classes: classes,
			Txs: c.txs, Receipts: c.rcs, Timestamp: uint64(1000 + n)})
		if err != nil {
			return nil, fmt.Errorf("block %d: %w", n, err)
		}
		_ = b
		p.content = append(p.content, c)
	}
	batch := store.NewBatch()
	for n := range txCounts {
		num := uint64(n)
		cm, err := core.GetBlockCommitmentByBlockNum(store, num)
		if err != nil {
			return nil, err
		}
		su, err := core.GetStateUpdateByBlockNum(store, num)
		if err != nil {
			return nil, err
		}
		if cm.StateDiffLength != su.StateDiff.Length() {
			return nil, fmt.Errorf("block %d: stored StateDiffLength %d, state diff length %d", n, cm.StateDiffLength, su.StateDiff.Length())
		}
		p.content[n].sdLen = cm.StateDiffLength
		cm.StateDiffLength = 0
		if err := core.WriteBlockCommitment(batch, num, cm); err != nil {
			return nil, err
		}
		if pruneTo == 0 {
			if err := core.BlockTransactionsBucket.Delete(batch, num); err != nil {
				return nil, err
			}
			c := &p.content[n]
			if err := txlayout.TransactionLayoutPerTx.WriteTransactionsAndReceipts(batch, num, c.txs, c.rcs); err != nil {
				return nil, err
			}
		}
	}
	if pruneTo > 0 {
		if err := pruner.PruneBlockDataUpto(batch, pruneTo); err != nil {
			return nil, err
		}
		// pruning only ever starts after the block-transactions migration (index 0) is applied
		md := migration.SchemaMetadata{CurrentVersion: 0b0001, LastTargetVersion: 0b1001}
		if err := migration.WriteSchemaMetadata(batch, md); err != nil {
			return nil, err
		}
	}
	if err := batch.Write(); err != nil {
		return nil, err
	}
	return p, nil
}

// ------------------------------------------------------------------ projection (spec variables)

type btProj struct {
	Old     []int `json:"old"`  // per block: number of per-transaction entries of the previous layout
	Blob    []int `json:"blob"` // per block: -1 = no blob, else number of transactions in the blob
	Applied bool  `json:"applied"`
}

// projectBlocks reads old-entry counts and blob sizes straight from the store.
func projectBlocks(store db.KeyValueReader, nblocks int) (btProj, string) {
	p := btProj{}
	for n := 0; n < nblocks; n++ {
		one, bad := projectOne(store, uint64(n))
		if bad != "" {
			return p, bad
		}
		p.Old = append(p.Old, one[0])
		p.Blob = append(p.Blob, one[1])
	}
	return p, ""
}

// projectOne returns (old entries, blob size or -1) of one block.
func projectOne(store db.KeyValueReader, num uint64) ([2]int, string) {
	n := int(num)
	ot, rcErr := 0, error(nil)
	for _, err := range core.TransactionsByBlockNumberAndIndexBucket.Prefix().Add(num).Scan(store) {
		if err != nil {
			rcErr = err
			break
		}
		ot++
	}
	or := 0
	for _, err := range core.ReceiptsByBlockNumberAndIndexBucket.Prefix().Add(num).Scan(store) {
		if err != nil {
			rcErr = err
			break
		}
		or++
	}
	if rcErr != nil {
		return [2]int{}, fmt.Sprintf("block %d: scanning old entries: %v", n, rcErr)
	}
	if ot != or {
		return [2]int{}, fmt.Sprintf("block %d: %d old transaction entries but %d old receipt entries", n, ot, or)
	}
	bt, err := core.BlockTransactionsBucket.Get(store, num)
	switch {
	case errors.Is(err, db.ErrKeyNotFound):
		return [2]int{ot, -1}, ""
	case err != nil:
		return [2]int{}, fmt.Sprintf("block %d: reading blob: %v", n, err)
	}
	if len(bt.Indexes.Transactions) != len(bt.Indexes.Receipts) {
		return [2]int{}, fmt.Sprintf("block %d: blob has %d transactions but %d receipts", n, len(bt.Indexes.Transactions), len(bt.Indexes.Receipts))
	}
	return [2]int{ot, len(bt.Indexes.Transactions)}, ""
}

// ------------------------------------------------------------------ accessor sweep

type problem struct {
	Kind  string `json:"kind"`
	Block uint64 `json:"block"`
	What  string `json:"what"`
	Want  int    `json:"want"`
	Got   int    `json:"got"`
}

// sweep reads every retained block through the CURRENT accessors and compares with the
// pre-migration content. lengths: also require commitments.StateDiffLength to be backfilled.
func sweep(store db.KeyValueStore, p *prepared, lengths bool) (out []problem) {
	add := func(kind string, n uint64, want, got int, f string, a ...any) {
		if len(out) < 12 {
			out = append(out, problem{Kind: kind, Block: n, What: fmt.Sprintf(f, a...), Want: want, Got: got})
		}
	}
	// the accessors read through a store with the lending semantics of the production backend, and
	// what they returned is kept and compared once more after every other read has happened
	store = poison(store)
	type kept struct {
		n   uint64
		blk *core.Block
	}
	var retained []kept
	defer func() {
		for _, k := range retained {
			c := &p.content[k.n]
			for i := range c.txs {
				if i >= len(k.blk.Transactions) || i >= len(k.blk.Receipts) ||
					!bytes.Equal(mustEnc(&k.blk.Transactions[i]), c.txEnc[i]) || !bytes.Equal(mustEnc(k.blk.Receipts[i]), c.rcEnc[i]) {
					add("retained-result-changed", k.n, i, i, "the block returned by GetBlockByNumber(%d) changed after later reads (transaction/receipt %d): it aliases a buffer it does not own", k.n, i)
					break
				}
			}
		}
	}()
	bc := chainkit.NewNode(store, false).BC
	for n := p.first; n <= p.height(); n++ {
		c := &p.content[n]
		blk, err := core.GetBlockByNumber(store, n)
		if err != nil {
			kind := "block-unreadable"
			if errors.Is(err, db.ErrKeyNotFound) && len(c.txs) == 0 {
				if _, herr := core.GetBlockHeaderByNumber(store, n); herr == nil {
					kind = "empty-block-without-blob"
				}
			}
			add(kind, n, len(c.txs), -1, "GetBlockByNumber: %v", err)
			continue
		}
		retained = append(retained, kept{n, blk})
		if len(blk.Transactions) != len(c.txs) || len(blk.Receipts) != len(c.rcs) {
			add("tx-count", n, len(c.txs), len(blk.Transactions), "block has %d transactions / %d receipts, originally %d", len(blk.Transactions), len(blk.Receipts), len(c.txs))
			continue
		}
		txs, err1 := core.GetTransactionsByBlockNumber(store, n)
		rcs, err2 := core.GetReceiptsByBlockNumber(store, n)
		hashes, err3 := core.GetTransactionHashesByBlockNumber(store, n)
		if err1 != nil || err2 != nil || err3 != nil || len(txs) != len(c.txs) || len(rcs) != len(c.txs) || len(hashes) != len(c.txs) {
			add("list-accessors", n, len(c.txs), len(txs), "GetTransactionsByBlockNumber/GetReceiptsByBlockNumber/GetTransactionHashesByBlockNumber: %v %v %v, %d/%d/%d items", err1, err2, err3, len(txs), len(rcs), len(hashes))
			continue
		}
		for i := range c.txs {
			idx := uint64(i)
			if !bytes.Equal(mustEnc(&blk.Transactions[i]), c.txEnc[i]) || !bytes.Equal(mustEnc(&txs[i]), c.txEnc[i]) {
				add("tx-content", n, i, i, "transaction %d differs from the original", i)
			}
			if !bytes.Equal(mustEnc(blk.Receipts[i]), c.rcEnc[i]) || !bytes.Equal(mustEnc(rcs[i]), c.rcEnc[i]) {
				add("receipt-content", n, i, i, "receipt %d differs from the original", i)
			}
			if !hashes[i].Equal(c.txs[i].Hash()) {
				add("hash-list", n, i, i, "transaction hash %d differs", i)
			}
			tx, err := core.GetTransactionByBlockAndIndex(store, n, idx)
			if err != nil || !bytes.Equal(mustEnc(&tx), c.txEnc[i]) {
				add("tx-by-index", n, i, i, "GetTransactionByBlockAndIndex(%d,%d): %v", n, i, err)
			}
			rc, err := core.GetReceiptByBlockAndIndex(store, n, idx)
			if err != nil || !bytes.Equal(mustEnc(rc), c.rcEnc[i]) {
				add("receipt-by-index", n, i, i, "GetReceiptByBlockAndIndex(%d,%d): %v", n, i, err)
			}
			tx, err = bc.TransactionByHash(c.txs[i].Hash())
			if err != nil || !bytes.Equal(mustEnc(&tx), c.txEnc[i]) {
				add("tx-by-hash", n, i, i, "TransactionByHash of transaction %d: %v", i, err)
			}
			rc, _, num, err := bc.Receipt(c.txs[i].Hash())
			if err != nil || num != n || !bytes.Equal(mustEnc(rc), c.rcEnc[i]) {
				add("receipt-by-hash", n, i, i, "Receipt of transaction %d: %v (block %d)", i, err, num)
			}
		}
		if lengths && p.full {
			cm, err := core.GetBlockCommitmentByBlockNum(store, n)
			if err != nil {
				add("commitments-unreadable", n, 0, 0, "%v", err)
			} else if cm.StateDiffLength != c.sdLen {
				add("state-diff-length", n, int(c.sdLen), int(cm.StateDiffLength), "StateDiffLength %d, state diff has %d entries", cm.StateDiffLength, c.sdLen)
			}
		}
	}
	return out
}

// sweepOld reads the pre-migration database through the frozen previous-layout accessors: a
// self-check that the harness wrote the previous layout correctly.
func sweepOld(store db.KeyValueReader, p *prepared) error {
	for n := uint64(0); n <= p.height(); n++ {
		c := &p.content[n]
		blk, err := txlayout.TransactionLayoutPerTx.BlockByNumber(store, n)
		if err != nil {
			return fmt.Errorf("old layout block %d: %w", n, err)
		}
		if len(blk.Transactions) != len(c.txs) || len(blk.Receipts) != len(c.txs) {
			return fmt.Errorf("old layout block %d: %d txs, want %d", n, len(blk.Transactions), len(c.txs))
		}
		for i := range c.txs {
			if !bytes.Equal(mustEnc(&blk.Transactions[i]), c.txEnc[i]) || !bytes.Equal(mustEnc(blk.Receipts[i]), c.rcEnc[i]) {
				return fmt.Errorf("old layout block %d tx %d differs", n, i)
			}
		}
	}
	return nil
}

func coreHeight(r db.KeyValueReader) (uint64, error) { return core.GetChainHeight(r) }

// ------------------------------------------------------------------ the gate

type event struct {
	kind string // "arrive" (an ingestor is about to ingest range r), "commit" (a batch was written), "close" (a batch was closed unwritten), "done"
	r    uint64
	n    int
	err  error
}

// gateStore parks every ingestor of the block-transactions migration at the first read of its
// range (the header of a block number divisible by 10) until the scheduler releases that range,
// and reports every non-empty batch commit. It can also kill the store right after a commit.
type gateStore struct {
	*faultkv.Store
	inner    db.KeyValueStore
	mu       sync.Mutex
	on       bool
	parked   map[uint64]chan struct{}
	events   chan event
	killNext bool
	inKill   bool
	hdr      byte
	// second gate: the readers of the state-diff-length backfill, parked at the read of a
	// block's commitments (one block = one unit of that pipeline)
	sdOn     bool
	sdParked []chan struct{}
	cmt      byte
	// transient read fault: the readFailAt-th read (Get / Has / NewIterator) fails once
	reads      atomic.Int64
	readFailAt int64
}

var errInjectedRead = errors.New("injected transient read failure")

// readFault counts one read and reports whether it is the one to fail.
func (g *gateStore) readFault() bool {
	n := g.reads.Add(1)
	return g.readFailAt > 0 && n == g.readFailAt
}

func (g *gateStore) Has(key []byte) (bool, error) {
	if g.readFault() {
		return false, errInjectedRead
	}
	return g.Store.Has(key)
}

func (g *gateStore) NewIterator(prefix []byte, withUpperBound bool) (db.Iterator, error) {
	if g.readFault() {
		return nil, errInjectedRead
	}
	return g.Store.NewIterator(prefix, withUpperBound)
}

// gbatch reports a batch that is closed without ever having been written.
type gbatch struct {
	db.Batch
	g       *gateStore
	written bool
}

func (b *gbatch) Write() error {
	b.written = true
	return b.Batch.Write()
}

func (b *gbatch) Close() error {
	if !b.written {
		b.g.events <- event{kind: "close"}
	}
	return b.Batch.Close()
}

func (g *gateStore) NewBatch() db.Batch { return &gbatch{Batch: g.Store.NewBatch(), g: g} }
func (g *gateStore) NewBatchWithSize(n int) db.Batch {
	return &gbatch{Batch: g.Store.NewBatchWithSize(n), g: g}
}

func newGate(inner db.KeyValueStore) *gateStore {
	g := &gateStore{Store: faultkv.Wrap(poison(inner)), inner: inner, parked: map[uint64]chan struct{}{},
		events: make(chan event, 4096), hdr: db.BlockHeaderByNumberKey(0)[0], cmt: db.BlockCommitmentsKey(0)[0]}
	g.Store.OnWrite = g.onWrite
	return g
}

func (g *gateStore) setOn(on bool) {
	g.mu.Lock()
	g.on = on
	if !on {
		for r, ch := range g.parked {
			close(ch)
			delete(g.parked, r)
		}
		for _, ch := range g.sdParked {
			close(ch)
		}
		g.sdParked, g.sdOn = nil, false
	}
	g.mu.Unlock()
}

func (g *gateStore) Get(key []byte, cb func([]byte) error) error {
	if g.readFault() {
		return errInjectedRead
	}
	if len(key) == 9 && key[0] == g.hdr {
		n := binary.BigEndian.Uint64(key[1:])
		if n%rangeSize == 0 {
			g.mu.Lock()
			if g.on {
				ch := make(chan struct{})
				g.parked[n] = ch
				g.mu.Unlock()
				g.events <- event{kind: "arrive", r: n}
				<-ch
			} else {
				g.mu.Unlock()
			}
		}
	}
	if len(key) == 9 && key[0] == g.cmt {
		g.mu.Lock()
		if g.sdOn {
			ch := make(chan struct{})
			g.sdParked = append(g.sdParked, ch)
			g.mu.Unlock()
			g.events <- event{kind: "sd-arrive", r: binary.BigEndian.Uint64(key[1:])}
			<-ch
		} else {
			g.mu.Unlock()
		}
	}
	return g.Store.Get(key, cb)
}

// sdRelease lets every parked backfill reader go on; off also disables the gate.
func (g *gateStore) sdRelease(off bool) {
	g.mu.Lock()
	for _, ch := range g.sdParked {
		close(ch)
	}
	g.sdParked = nil
	if off {
		g.sdOn = false
	}
	g.mu.Unlock()
}

var dummyKey = []byte{0xfe, 'k', 'i', 'l', 'l'}

// kill makes every later operation on the store fail (the process died right now).
func (g *gateStore) kill() {
	g.mu.Lock()
	g.inKill = true
	g.mu.Unlock()
	g.Store.Arm(faultkv.CrashAfter, 1, nil)
	_ = g.Store.Put(dummyKey, nil)
	_ = g.inner.Delete(dummyKey)
	g.setOn(false)
}

func (g *gateStore) onWrite(n int, kind string) {
	g.mu.Lock()
	if g.inKill {
		g.mu.Unlock()
		return
	}
	isBatch := strings.HasPrefix(kind, "batch(")
	kill := false
	if isBatch && g.killNext {
		g.killNext = false
		kill = true
	}
	g.mu.Unlock()
	if kill {
		g.kill()
	} else if g.Store.Dead() {
		g.setOn(false) // an armed crash fired: nobody may stay parked
	}
	if isBatch {
		// every ingestor hands over exactly one batch when it is done, also an empty one
		g.events <- event{kind: "commit", n: n}
	}
}

func (g *gateStore) release(r uint64) error {
	g.mu.Lock()
	ch, ok := g.parked[r]
	delete(g.parked, r)
	g.mu.Unlock()
	if !ok {
		return fmt.Errorf("range %d is not parked", r)
	}
	close(ch)
	return nil
}

// next returns the next scheduling-relevant event.
func (g *gateStore) next() (event, error) {
	select {
	case e := <-g.events:
		return e, nil
	case <-time.After(30 * time.Second):
		return event{}, errors.New("gate: no event within 30s (the migration hangs)")
	}
}

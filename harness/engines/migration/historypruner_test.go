// Engine "migration" (property C18), part (d): the optional history-pruning migration
// (migration/historyprunner) under the real runner, crash after EVERY durable mutation, restart.
// The registry is the one of node/migration.go with pruning enabled.
package migration

import (
	"fmt"
	"math/rand"
	"strings"
	"testing"

	"github.com/NethermindEth/juno/core"
	"github.com/NethermindEth/juno/migration"
	"github.com/NethermindEth/juno/migration/blocktransactions"
	"github.com/NethermindEth/juno/migration/historyprunner"
	"github.com/NethermindEth/juno/migration/statedifflength"
	"github.com/NethermindEth/juno/pruner"

	"verifharness/internal/faultkv"
	"verifharness/internal/vh"
)

const keyH16 = "historypruner-migration:crash-in-restorer-not-resumable"

func prunerRegistry() *migration.Registry {
	return migration.NewRegistry().
		With(&blocktransactions.Migrator{}).
		WithOptional(historyprunner.New(5, 0), true, "prune").
		WithOptional(noop{}, false, "new-state").
		With(&statedifflength.Migrator{})
}

func TestHistoryPrunerEnum(t *testing.T) {
	if !vh.Enabled() {
		t.Skip()
	}
	var in enumInput
	if err := vh.Input(&in); err != nil {
		t.Fatal(err)
	}
	out := vh.NewResult()
	defer out.Write()
	registryFn = prunerRegistry
	defer func() { registryFn = fullRegistry }()
	seed := vh.Seed()
	sequences, runs := 0, 0
	for si, sh := range in.Shapes {
		p, err := fullDB(seed*1000+500+int64(si), sh.Txs, 0)
		if err != nil {
			t.Fatalf("shape %s: %v", sh.Name, err)
		}
		l1 := p.height() - 4
		hdr, err := core.GetBlockHeaderByNumber(p.base, l1)
		if err != nil {
			t.Fatal(err)
		}
		if err := core.WriteL1Head(p.base, &core.L1Head{BlockNumber: l1, BlockHash: hdr.Hash, StateRoot: hdr.GlobalStateRoot}); err != nil {
			t.Fatal(err)
		}
		report := func(key, what string, o only, exp, obs any) {
			out.Diverge(vh.Divergence{Key: key, What: fmt.Sprintf("chain %q (%d blocks, L1 head %d, 5 retained): %s", sh.Name, len(sh.Txs), l1, what),
				Expected: exp, Observed: obs, Input: enumInput{Shapes: []shape{sh}, Only: &o}})
		}
		rng := func(n int) *rand.Rand { return rand.New(rand.NewSource(seed*31 + int64(si)*7 + int64(n))) }
		// the recorded L1 head relative to the local head: equal, ahead by less / by more than the
		// retention (a node that is still catching up and is restarted with pruning enabled).
		// Retention rule: oldest retained block = min(L1 head, local head) - retained, and every
		// retained block is complete.
		for _, ahead := range []int64{0, 3, 8} {
			o := only{Mode: "l1-position", K1: int(ahead)}
			if in.Only != nil && (in.Only.Mode != o.Mode || in.Only.K1 != int(ahead)) {
				continue
			}
			st := p.base.Copy()
			pos := uint64(int64(p.height()) + ahead)
			head := &core.L1Head{BlockNumber: pos, BlockHash: hdr.Hash, StateRoot: hdr.GlobalStateRoot}
			if ahead == 0 {
				hh, _ := core.GetBlockHeaderByNumber(st, pos)
				head.BlockHash, head.StateRoot = hh.Hash, hh.GlobalStateRoot
			}
			if err := core.WriteL1Head(st, head); err != nil {
				t.Fatal(err)
			}
			r := runMigrations(st, faultkv.Off, 0, rng(int(900+ahead)), true)
			runs++
			sequences++
			pos0 := "equal to"
			if ahead > 0 {
				pos0 = fmt.Sprintf("%d ahead of", ahead)
			}
			if r.err != nil || r.hang != nil {
				report("historypruner-migration:l1-head-ahead-of-local-head:run-fails",
					fmt.Sprintf("recorded L1 head %d, %s the local head %d: the migration fails: %v %v", pos, pos0, p.height(), r.err, r.hang), o, "migrations complete", fmt.Sprint(r.err))
				continue
			}
			want := p.height() - 5
			got, err := pruner.OldestRetainedBlock(st)
			if err != nil || got != want {
				report("historypruner-migration:l1-head-ahead-of-local-head:prunes-retained-blocks",
					fmt.Sprintf("recorded L1 head %d, %s the local head %d, 5 blocks retained: the oldest retained block must be min(L1 head, local head) - 5 = %d, the migration left %d (%v): blocks that must be retained were pruned", pos, pos0, p.height(), want, got, err), o, want, got)
				continue
			}
			q := *p
			q.first = want
			for _, pr := range sweep(st, &q, true) {
				report("historypruner-migration:l1-position:"+pr.Kind, fmt.Sprintf("recorded L1 head %d, %s the local head: retained block %d: %s", pos, pos0, pr.Block, pr.What), o, pr.Want, pr.Got)
			}
		}
		if in.Only != nil && in.Only.Mode == "l1-position" {
			continue
		}
		ref := p.base.Copy()
		r0 := runMigrations(ref, faultkv.Off, 0, rng(0), true)
		runs++
		if r0.hang != nil || r0.err != nil {
			report("historypruner-migration:uninterrupted-run-fails", fmt.Sprintf("the uninterrupted run fails: %v %v", r0.err, r0.hang), only{Mode: "none"}, nil, nil)
			continue
		}
		floor, err := pruner.OldestRetainedBlock(ref)
		if err != nil {
			report("historypruner-migration:uninterrupted:nothing-retained", fmt.Sprintf("after the uninterrupted migration no block commitments are left: %v", err), only{Mode: "none"}, p.height()-9, err.Error())
			continue
		}
		p.first = floor
		refDump, _ := faultkv.Dump(ref)
		for _, pr := range sweep(ref, p, true) {
			key := "historypruner-migration:uninterrupted:" + pr.Kind
			report(key, fmt.Sprintf("after the uninterrupted migration (oldest retained block %d): block %d: %s", floor, pr.Block, pr.What), only{Mode: "none"}, pr.Want, pr.Got)
		}
		M := r0.count
		out.Count("historypruner_mutations_uninterrupted:"+sh.Name, M)
		sequences++
		for k := 1; k <= M; k++ {
			o := only{Mode: "crash", K1: k}
			if in.Only != nil && (in.Only.Mode != "crash" || in.Only.K1 != k) {
				continue
			}
			store := p.base.Copy()
			r1 := runMigrations(store, faultkv.CrashAfter, k, rng(k), true)
			runs++
			if r1.hang != nil {
				report("historypruner-migration:run-hangs", fmt.Sprintf("crash after mutation %d: the run hangs", k), o, nil, nil)
				continue
			}
			var last error
			ok := false
			for attempt := 0; attempt < 3 && !ok; attempt++ {
				r := runMigrations(store, faultkv.Off, 0, rng(1000+k*10+attempt), true)
				runs++
				last = r.err
				if r.hang != nil {
					last = r.hang
				}
				ok = r.err == nil && r.hang == nil
			}
			sequences++
			if !ok {
				key := "historypruner-migration:rerun-fails"
				if strings.Contains(last.Error(), "key not found") && strings.Contains(last.Error(), "index 1") {
					key = keyH16
				}
				report(key, fmt.Sprintf("crash after durable mutation %d of %d: every one of 3 restarts fails (%v): the migration wipes the history buckets before its restorer phase and records progress only when Migrate returns, so the rerun starts from the stager, which reads those buckets; the node can no longer start", k, M, last), o, nil, last.Error())
				continue
			}
			bad := false
			for _, pr := range sweep(store, p, true) {
				// a crash inside the block-transactions migration shows that migration's own defects
				key := classify(pr, "after-crash")
				what := whatFor(key, pr, fmt.Sprintf("crash after durable mutation %d of %d, restart, run to completion", k, M))
				if strings.HasPrefix(key, "migration:accessor-sweep:") {
					key = "historypruner-migration:after-crash:" + pr.Kind
				}
				report(key, what, o, pr.Want, pr.Got)
				bad = true
			}
			d, _ := faultkv.Dump(store)
			if diff := faultkv.Diff(d, refDump, nil, 8); len(diff) > 0 && !bad {
				report("historypruner-migration:final-db-differs", fmt.Sprintf("final database after crash at mutation %d of %d + restart differs from the uninterrupted run's", k, M), o, nil, diff)
			}
		}
	}
	out.Count("historypruner_runs", runs)
	out.Done(sequences, runs)
}

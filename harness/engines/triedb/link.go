// Package triedb is the engine of growth check G07 (layered trie databases core/trie2/triedb/{pathdb,hashdb}).
//
// link.go reaches the one piece of pathdb the public API only exposes with the constant 128:
// (*layerTree).cap(root, layers) — the flatten step Database.Update runs with maxDiffLayers and
// Database.Commit runs with 0. The symbol is pulled with go:linkname (no change to juno needed);
// the receiver is passed as the raw pointer held in the unexported field Database.tree.
package triedb

import (
	"reflect"
	"unsafe"

	"github.com/NethermindEth/juno/core/felt"
	"github.com/NethermindEth/juno/core/trie2/triedb/pathdb"
)

//go:linkname layerTreeCap github.com/NethermindEth/juno/core/trie2/triedb/pathdb.(*layerTree).cap
func layerTreeCap(tree unsafe.Pointer, root *felt.StateRootHash, layers int) error

// capLayers runs the real flatten of the layer tree of d for the branch of root, keeping at most
// `layers` diff layers (what Database.Update does with 128 after adding a layer).
func capLayers(d *pathdb.Database, root *felt.StateRootHash, layers int) error {
	f := reflect.ValueOf(d).Elem().FieldByName("tree")
	return layerTreeCap(f.UnsafePointer(), root, layers)
}

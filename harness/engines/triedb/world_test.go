// Engine "triedb" (growth check G07): the layered trie databases core/trie2/triedb/pathdb and
// core/trie2/triedb/hashdb.
//
// world_test.go: concretisation shared by the replayers. A model state is the content of four
// tries (class trie "cl", contract trie "ct", storage tries "s1"/"s2" with their owners); the world
// turns it into real tries of one height (a small one, or 251 under the bit-expansion embedding of
// the trie engine), drives REAL trie2 tries over the database under test, and keeps, per model
// root, an independent expectation: the key/value sets, refimpl roots, and the canonical node table
// (path -> hash, blob) accumulated from the node sets of a twin run on the raw scheme, which is
// itself compared with the twin's disk after every update (three-way: model, refimpl, rawdb).
package triedb

import (
	"bytes"
	"errors"
	"fmt"
	"math/big"
	"math/rand"
	"sort"
	"strings"

	"github.com/NethermindEth/juno/core/crypto"
	"github.com/NethermindEth/juno/core/felt"
	"github.com/NethermindEth/juno/core/trie2"
	"github.com/NethermindEth/juno/core/trie2/triedb/database"
	"github.com/NethermindEth/juno/core/trie2/triedb/rawdb"
	"github.com/NethermindEth/juno/core/trie2/trienode"
	"github.com/NethermindEth/juno/core/trie2/trieutils"
	"github.com/NethermindEth/juno/db"
	"github.com/NethermindEth/juno/db/memory"
	"github.com/NethermindEth/juno/db/pebblev2"
	_ "github.com/NethermindEth/juno/encoder/registry"
	pebv2 "github.com/cockroachdb/pebble/v2"
	vfsv2 "github.com/cockroachdb/pebble/v2/vfs"

	"verifharness/internal/refimpl"
)

// ------------------------------------------------------------------ model JSON

type slot struct {
	T string `json:"t"`
	K []int  `json:"k"`
	V int    `json:"v"`
}

type action struct {
	Name    string `json:"name"`
	Parent  int    `json:"parent"`
	Root    int    `json:"root"`
	Ch      []slot `json:"ch,omitempty"`
	Pres    []slot `json:"pres,omitempty"`
	K       int    `json:"k"`
	J       int    `json:"j"`
	Journal bool   `json:"journal"`
	Diff    bool   `json:"diff"`
}

// statuses: the projection is a TLA+ function on 0..n-1, which ToJson prints as an object
// {"0": "L", ...} (or as an array when it happens to be a sequence)
type statuses []string

func (s *statuses) UnmarshalJSON(b []byte) error {
	var arr []string
	if err := jsonUnmarshal(b, &arr); err == nil {
		*s = arr
		return nil
	}
	m := map[string]string{}
	if err := jsonUnmarshal(b, &m); err != nil {
		return err
	}
	out := make([]string, len(m))
	for k, v := range m {
		var i int
		if _, err := fmt.Sscanf(k, "%d", &i); err != nil || i < 0 || i >= len(m) {
			return fmt.Errorf("bad status index %q", k)
		}
		out[i] = v
	}
	*s = out
	return nil
}

func (s statuses) MarshalJSON() ([]byte, error) { return jsonMarshal([]string(s)) }

type step struct {
	A       action   `json:"a"`
	St      statuses `json:"st"`
	Unnamed int      `json:"unnamed"`
	Disk    int      `json:"disk"`
	Eager   bool     `json:"eager"`
	Tainted bool     `json:"tainted"`
	Failed  bool     `json:"failed"`
}

// variant fixes everything the concretisation needs, so that a replay file is exact.
type variant struct {
	Height  int    `json:"height"`
	Pos     []int  `json:"pos"`     // real bit position (0 = most significant) of every model bit
	Pad     string `json:"pad"`     // padding bits (decimal) laid under the model bits
	Backend string `json:"backend"` // "memory" | "pebblev2"
	Sweep   bool   `json:"sweep"`   // full read sweep after every step (else after Warm steps and at the end)
	ValSeed int64  `json:"valSeed"`
	Late    bool   `json:"late"` // crash points: take the surviving image one mutation after the flush
}

var trieNames = []string{"cl", "ct", "s1", "s2"}

func (v *variant) padInt() *big.Int {
	k, _ := new(big.Int).SetString(v.Pad, 10)
	return k
}

func (v *variant) key(bits []int) *felt.Felt {
	k := v.padInt()
	for i, b := range bits {
		if b == 1 {
			k.SetBit(k, v.Height-1-v.Pos[i], 1)
		}
	}
	return new(felt.Felt).SetBigInt(k)
}

// ownerKey: the contract-trie key (= address) of storage owner i: the padding with one NON-model
// bit flipped, so it differs from every embedded model key.
func (v *variant) ownerKey(i int) *felt.Felt {
	isModel := map[int]bool{}
	for _, p := range v.Pos {
		isModel[p] = true
	}
	k := v.padInt()
	n := 0
	for q := 0; q < v.Height; q++ {
		if isModel[q] {
			continue
		}
		if n == i {
			k.SetBit(k, v.Height-1-q, k.Bit(v.Height-1-q)^1)
			return new(felt.Felt).SetBigInt(k)
		}
		n++
	}
	panic("variant has no room for storage owners")
}

func (v *variant) value(x int) *felt.Felt {
	if x == 0 {
		return new(felt.Felt)
	}
	r := rand.New(rand.NewSource(v.ValSeed*1000 + int64(x)))
	var b [31]byte
	r.Read(b[:])
	b[30] |= 1
	return new(felt.Felt).SetBytes(b[:])
}

// smallVariant: height h+2, the model bits are the low h bits, the two top bits are free (owners).
func smallVariant(h int, i int64, backend string) variant {
	pos := make([]int, h)
	for j := range pos {
		pos[j] = j + 2
	}
	return variant{Height: h + 2, Pos: pos, Pad: "0", Backend: backend, Sweep: i%2 == 0, ValSeed: i, Late: i%3 == 0}
}

// embedVariant spreads the h model bits over 251 real bits (as the trie engine does).
func embedVariant(h int, r *rand.Rand, i int64, backend string) variant {
	const height = 251
	free := height - h
	runs := make([]int, h+1)
	cuts := make([]int, h)
	for j := range cuts {
		cuts[j] = r.Intn(free + 1)
	}
	sort.Ints(cuts)
	prev := 0
	for j := 0; j < h; j++ {
		runs[j] = cuts[j] - prev
		prev = cuts[j]
	}
	runs[h] = free - prev
	if r.Intn(2) == 0 && runs[h-1]+runs[h] > 2 { // leaves directly under a binary node at depth 250
		runs[h-1] += runs[h]
		runs[h] = 0
	}
	if runs[0] < 2 { // keep two free positions somewhere: guaranteed since free >= 2
		runs[0] += 0
	}
	pos := make([]int, h)
	p := runs[0]
	for j := 0; j < h; j++ {
		pos[j] = p
		p += 1 + runs[j+1]
	}
	pad := new(big.Int).Rand(r, new(big.Int).Lsh(big.NewInt(1), height))
	for _, q := range pos {
		pad.SetBit(pad, height-1-q, 0)
	}
	return variant{Height: height, Pos: pos, Pad: pad.String(), Backend: backend, Sweep: r.Intn(2) == 0, ValSeed: i, Late: r.Intn(2) == 0}
}

// ------------------------------------------------------------------ stores

type storeKit struct {
	backend string
	fs      vfsv2.FS
}

func newStoreKit(backend string) *storeKit {
	k := &storeKit{backend: backend}
	if backend == "pebblev2" {
		k.fs = vfsv2.NewMem()
	}
	return k
}

func (k *storeKit) open() (db.KeyValueStore, error) {
	if k.backend == "pebblev2" {
		fs := k.fs
		return pebblev2.New("verif-triedb", func(o *pebv2.Options) error { o.FS = fs; return nil })
	}
	return memory.New(), nil
}

// clone copies every pair of src into a fresh store of the same kind (a surviving disk image)
func (k *storeKit) clone(src db.KeyValueReader) (*storeKit, db.KeyValueStore, error) {
	nk := newStoreKit(k.backend)
	dst, err := nk.open()
	if err != nil {
		return nil, nil, err
	}
	it, err := src.NewIterator(nil, false)
	if err != nil {
		return nil, nil, err
	}
	defer it.Close()
	b := dst.NewBatch()
	for ok := it.First(); ok; ok = it.Next() {
		val, err := it.Value()
		if err != nil {
			return nil, nil, err
		}
		if err := b.Put(bytes.Clone(it.Key()), bytes.Clone(val)); err != nil {
			return nil, nil, err
		}
	}
	return nk, dst, b.Write()
}

// ------------------------------------------------------------------ expectation per model root

type nodeRec struct {
	hash felt.Felt
	blob []byte
	leaf bool
}

type rootInfo struct {
	id      int
	label   felt.StateRootHash
	kv      map[string]map[string]int // trie -> fmt(bits) -> model value
	roots   map[string]felt.Felt      // trie -> real root (as committed by the twin, checked against refimpl)
	nodes   map[string]map[trieutils.Path]nodeRec
	twin    *memory.Database // the raw-scheme database holding exactly this state
	created int              // step index
}

func (ri *rootInfo) clone(id int) *rootInfo {
	n := &rootInfo{id: id, kv: map[string]map[string]int{}, roots: map[string]felt.Felt{}, nodes: map[string]map[trieutils.Path]nodeRec{}}
	for _, t := range trieNames {
		n.kv[t] = map[string]int{}
		for k, v := range ri.kv[t] {
			n.kv[t][k] = v
		}
		n.nodes[t] = map[trieutils.Path]nodeRec{}
		for p, r := range ri.nodes[t] {
			n.nodes[t][p] = r
		}
		n.roots[t] = ri.roots[t]
	}
	return n
}

func emptyRoot() *rootInfo {
	ri := &rootInfo{id: 0, kv: map[string]map[string]int{}, roots: map[string]felt.Felt{}, nodes: map[string]map[trieutils.Path]nodeRec{}, twin: memory.New()}
	for _, t := range trieNames {
		ri.kv[t] = map[string]int{}
		ri.nodes[t] = map[trieutils.Path]nodeRec{}
	}
	return ri
}

// ------------------------------------------------------------------ the world

type world struct {
	// couple: the contract trie carries the storage roots as leaves (as core/state does), so that the
	// state root commits to the storage tries. Off for hashdb, which ignores state roots and whose
	// model treats the tries as independent.
	couple  bool
	v       *variant
	h       int
	owners  map[string]felt.Address // "s1", "s2"
	roots   map[int]*rootInfo
	seen    map[string]map[trieutils.Path]bool // every path any state ever had, per trie
	allKeys [][]int
}

func newWorld(v *variant, h int) *world {
	w := &world{couple: true, v: v, h: h, owners: map[string]felt.Address{}, roots: map[int]*rootInfo{0: emptyRoot()}, seen: map[string]map[trieutils.Path]bool{}}
	w.owners["s1"] = felt.Address(*v.ownerKey(0))
	w.owners["s2"] = felt.Address(*v.ownerKey(1))
	for _, t := range trieNames {
		w.seen[t] = map[trieutils.Path]bool{}
	}
	for x := 0; x < 1<<h; x++ {
		k := make([]int, h)
		for i := 0; i < h; i++ {
			k[i] = (x >> (h - 1 - i)) & 1
		}
		w.allKeys = append(w.allKeys, k)
	}
	return w
}

func (w *world) trieID(t string, label felt.StateRootHash) trieutils.TrieID {
	switch t {
	case "cl":
		return trieutils.NewClassTrieID(label)
	case "ct":
		return trieutils.NewContractTrieID(label)
	}
	return trieutils.NewContractStorageTrieID(label, w.owners[t])
}

func (w *world) owner(t string) felt.Address {
	if t == "s1" || t == "s2" {
		return w.owners[t]
	}
	return felt.Address{}
}

func hashFn(t string) crypto.HashFn {
	if t == "cl" {
		return crypto.Poseidon
	}
	return crypto.Pedersen
}

func refHash(t string) refimpl.HashFn {
	if t == "cl" {
		return refimpl.Poseidon
	}
	return refimpl.Pedersen
}

// opener opens the trie t of the state `ri` on some database (scheme specific)
type opener func(t string, ri *rootInfo) (*trie2.Trie, error)

func (w *world) pathOpener(ndb database.NodeDatabase) opener {
	return func(t string, ri *rootInfo) (*trie2.Trie, error) {
		return trie2.New(w.trieID(t, ri.label), uint8(w.v.Height), hashFn(t), ndb)
	}
}

func (w *world) hashOpener(ndb database.NodeDatabase) opener {
	return func(t string, ri *rootInfo) (*trie2.Trie, error) {
		rh := ri.roots[t]
		return trie2.NewFromRootHash(w.trieID(t, ri.label), uint8(w.v.Height), hashFn(t), ndb, &rh)
	}
}

type committed struct {
	roots     map[string]felt.Felt
	label     felt.StateRootHash
	classSet  *trienode.MergeNodeSet
	contracts *trienode.MergeNodeSet
	sets      map[string]*trienode.NodeSet
}

// applyChanges opens the four tries of parent through `open`, applies the model's slot changes
// (storage tries first: their roots become leaves of the contract trie), commits, and merges the
// node sets the way core/state does.
func (w *world) applyChanges(open opener, parent *rootInfo, ch []slot) (*committed, error) {
	out := &committed{roots: map[string]felt.Felt{}, sets: map[string]*trienode.NodeSet{}}
	byTrie := map[string][]slot{}
	for _, c := range ch {
		byTrie[c.T] = append(byTrie[c.T], c)
	}
	contracts := trienode.NewMergeNodeSet(nil)
	for _, t := range []string{"s1", "s2", "cl", "ct"} {
		tr, err := open(t, parent)
		if err != nil {
			return nil, fmt.Errorf("open %s trie of root %d: %w", t, parent.id, err)
		}
		for _, c := range byTrie[t] {
			if err := tr.Update(w.v.key(c.K), w.v.value(c.V)); err != nil {
				return nil, fmt.Errorf("update %s trie of root %d: %w", t, parent.id, err)
			}
		}
		if t == "ct" && w.couple { // storage roots are contract leaves
			for _, s := range []string{"s1", "s2"} {
				sr := out.roots[s]
				o := w.owners[s]
				if err := tr.Update((*felt.Felt)(&o), &sr); err != nil {
					return nil, fmt.Errorf("update contract leaf of %s: %w", s, err)
				}
			}
		}
		root, set := tr.Commit()
		out.roots[t] = root
		out.sets[t] = set
		if set == nil {
			continue
		}
		if t == "cl" {
			out.classSet = trienode.NewMergeNodeSet(set)
		} else if err := contracts.Merge(set); err != nil {
			return nil, err
		}
	}
	out.contracts = contracts
	cr, lr := out.roots["ct"], out.roots["cl"]
	out.label = felt.StateRootHash(refimpl.StateCommitment(&cr, &lr, true))
	if !w.couple {
		out.label = felt.StateRootHash(felt.One) // hashdb ignores it; a zero label would make trie2 skip the database
	}
	return out, nil
}

// realKV is the key/value set the real trie t holds for the model content kv (contract trie: plus
// the storage-root leaves)
func (w *world) realKV(t string, kv map[string]map[string]int, roots map[string]felt.Felt) refimpl.KV {
	out := refimpl.KV{}
	for _, kb := range w.allKeys {
		if x := kv[t][fmt.Sprint(kb)]; x != 0 {
			var b big.Int
			w.v.key(kb).BigInt(&b)
			out[refimpl.Key(&b)] = *w.v.value(x)
		}
	}
	if t == "ct" && w.couple {
		for _, s := range []string{"s1", "s2"} {
			if r := roots[s]; !r.IsZero() {
				o := w.owners[s]
				var b big.Int
				(*felt.Felt)(&o).BigInt(&b)
				out[refimpl.Key(&b)] = r
			}
		}
	}
	return out
}

type mismatch struct {
	key, what          string
	expected, observed any
}

func (m *mismatch) Error() string { return m.key + ": " + m.what }

// newRoot computes the expectation for a model Update: the twin run on the raw scheme (a copy of
// the parent's raw database), refimpl roots, the node table.
func (w *world) newRoot(id int, parent *rootInfo, ch []slot, pres []slot, si int) (*rootInfo, error) {
	ri := parent.clone(id)
	ri.created = si
	for _, c := range ch {
		if c.V == 0 {
			delete(ri.kv[c.T], fmt.Sprint(c.K))
		} else {
			ri.kv[c.T][fmt.Sprint(c.K)] = c.V
		}
	}
	// the model's own statement of the new content must agree with parent + changes
	n := 0
	for _, p := range pres {
		if ri.kv[p.T][fmt.Sprint(p.K)] != p.V {
			return nil, fmt.Errorf("harness: model content of root %d disagrees with parent + changes at %v", id, p)
		}
		n++
	}
	for _, t := range trieNames {
		n -= len(ri.kv[t])
	}
	if n != 0 {
		return nil, fmt.Errorf("harness: model content of root %d has a different size than parent + changes", id)
	}
	// twin: the same update on the raw scheme
	twin := memory.New()
	{
		it, err := parent.twin.NewIterator(nil, false)
		if err != nil {
			return nil, err
		}
		for ok := it.First(); ok; ok = it.Next() {
			val, _ := it.Value()
			if err := twin.Put(bytes.Clone(it.Key()), bytes.Clone(val)); err != nil {
				return nil, err
			}
		}
		it.Close()
	}
	rdb := rawdb.New(twin)
	rawOpen := func(t string, p *rootInfo) (*trie2.Trie, error) {
		// the raw scheme ignores the label, but trie2.New treats a zero label as "empty state": give it a fixed non-zero one
		return trie2.New(w.trieID(t, felt.StateRootHash(felt.One)), uint8(w.v.Height), hashFn(t), rdb)
	}
	cm, err := w.applyChanges(rawOpen, parent, ch)
	if err != nil {
		return nil, fmt.Errorf("raw twin: %w", err)
	}
	batch := twin.NewBatch()
	if err := rdb.Update(&cm.label, &parent.label, uint64(si), cm.classSet, cm.contracts, batch); err != nil {
		return nil, fmt.Errorf("raw twin Update: %w", err)
	}
	if err := batch.Write(); err != nil {
		return nil, err
	}
	ri.twin = twin
	ri.label = cm.label
	for _, t := range trieNames {
		ri.roots[t] = cm.roots[t]
		want := refimpl.Root(w.realKV(t, ri.kv, cm.roots), uint(w.v.Height), refHash(t))
		r := ri.roots[t]
		if !want.Equal(&r) {
			return nil, &mismatch{key: "triedb:rawdb:trie-root-differs-from-refimpl:" + t,
				what:     fmt.Sprintf("root of the %s trie committed on the raw scheme differs from the protocol commitment of the key/value set (refimpl.Root) at model root %d", t, id),
				expected: want.String(), observed: r.String()}
		}
		if set := cm.sets[t]; set != nil {
			for p, n := range set.Nodes {
				if _, del := n.(*trienode.DeletedNode); del {
					delete(ri.nodes[t], p)
				} else {
					ri.nodes[t][p] = nodeRec{hash: n.Hash(), blob: bytes.Clone(n.Blob()), leaf: n.IsLeaf()}
				}
			}
		}
		for p := range ri.nodes[t] {
			w.seen[t][p] = true
		}
	}
	// three-way: the node table accumulated from the node sets IS the raw scheme's disk
	dump := map[string][]byte{}
	{
		it, err := twin.NewIterator(nil, false)
		if err != nil {
			return nil, err
		}
		for ok := it.First(); ok; ok = it.Next() {
			val, _ := it.Value()
			dump[string(it.Key())] = bytes.Clone(val)
		}
		it.Close()
	}
	cnt := 0
	for _, t := range trieNames {
		for p, n := range ri.nodes[t] {
			cnt++
			id := w.trieID(t, ri.label)
			o := w.owner(t)
			pp := p
			blob, err := trieutils.GetNodeByPath(twin, id.Bucket(), &o, &pp, n.leaf)
			if err != nil || !bytes.Equal(blob, n.blob) {
				return nil, &mismatch{key: "triedb:rawdb:disk-differs-from-node-sets:" + t,
					what:     fmt.Sprintf("raw scheme disk lacks or alters node %s of trie %s after the update to model root %d (err %v)", pp.String(), t, ri.id, err),
					expected: fmt.Sprintf("%x", n.blob), observed: fmt.Sprintf("%x", blob)}
			}
		}
	}
	if cnt != len(dump) {
		return nil, &mismatch{key: "triedb:rawdb:disk-differs-from-node-sets:extra",
			what:     fmt.Sprintf("raw scheme disk holds %d entries, the node sets describe %d, after the update to model root %d", len(dump), cnt, ri.id),
			expected: cnt, observed: len(dump)}
	}
	return ri, nil
}

func isNotFound(err error) bool { return errors.Is(err, db.ErrKeyNotFound) }

func bitsOf(p *trieutils.Path) string {
	var sb strings.Builder
	for i := uint8(0); i < p.Len(); i++ {
		if p.IsBitSet(i) {
			sb.WriteByte('1')
		} else {
			sb.WriteByte('0')
		}
	}
	return sb.String()
}

package triedb

import (
	"fmt"
	"testing"

	"github.com/NethermindEth/juno/core/crypto"
	"github.com/NethermindEth/juno/core/felt"
	"github.com/NethermindEth/juno/core/trie2"
	"github.com/NethermindEth/juno/core/trie2/triedb/pathdb"
	"github.com/NethermindEth/juno/core/trie2/trienode"
	"github.com/NethermindEth/juno/core/trie2/trieutils"
	"github.com/NethermindEth/juno/db"
	"github.com/NethermindEth/juno/db/memory"
	_ "github.com/NethermindEth/juno/encoder/registry"
)

var stateVersion = new(felt.Felt).SetBytes([]byte(`STARKNET_STATE_V0`))

func f(x uint64) *felt.Felt { return felt.NewFromUint64[felt.Felt](x) }

type pw struct {
	disk db.KeyValueStore
	d    *pathdb.Database
}

// apply: open class+contract tries at parent, apply updates, commit, Update layer; returns new root
func (w *pw) apply(parent felt.StateRootHash, blk uint64, cls, ct map[uint64]uint64) (felt.StateRootHash, error) {
	ctr, err := trie2.New(trieutils.NewContractTrieID(parent), 251, crypto.Pedersen, w.d)
	if err != nil {
		return parent, fmt.Errorf("open ct: %w", err)
	}
	clt, err := trie2.New(trieutils.NewClassTrieID(parent), 251, crypto.Poseidon, w.d)
	if err != nil {
		return parent, fmt.Errorf("open cl: %w", err)
	}
	for k, v := range ct {
		if err := ctr.Update(f(k), f(v)); err != nil {
			return parent, err
		}
	}
	for k, v := range cls {
		if err := clt.Update(f(k), f(v)); err != nil {
			return parent, err
		}
	}
	cr, cn := ctr.Commit()
	lr, ln := clt.Commit()
	var root felt.StateRootHash
	if !(cr.IsZero() && lr.IsZero()) {
		root = felt.StateRootHash(crypto.PoseidonElems(stateVersion, &cr, &lr))
	}
	var mc, ml *trienode.MergeNodeSet
	if cn != nil {
		mc = trienode.NewMergeNodeSet(cn)
	}
	if ln != nil {
		ml = trienode.NewMergeNodeSet(ln)
	}
	p := parent
	return root, w.d.Update(&root, &p, blk, ml, mc, nil)
}

func (w *pw) get(root felt.StateRootHash, class bool, k uint64) string {
	var tr *trie2.Trie
	var err error
	if class {
		tr, err = trie2.New(trieutils.NewClassTrieID(root), 251, crypto.Poseidon, w.d)
	} else {
		tr, err = trie2.New(trieutils.NewContractTrieID(root), 251, crypto.Pedersen, w.d)
	}
	if err != nil {
		return "open-err:" + err.Error()
	}
	v, err := tr.Get(f(k))
	if err != nil {
		return "get-err:" + err.Error()
	}
	return v.String()
}

func TestPathProbe(t *testing.T) {
	disk := memory.New()
	d, err := pathdb.New(disk, nil)
	if err != nil {
		t.Fatal(err)
	}
	w := &pw{disk, d}
	var zero felt.StateRootHash
	r1, err := w.apply(zero, 1, map[uint64]uint64{1: 11}, map[uint64]uint64{5: 55, 6: 66})
	fmt.Println("r1", r1.String(), err)
	r2, err := w.apply(r1, 2, nil, map[uint64]uint64{5: 0, 7: 77})
	fmt.Println("r2", r2.String(), err)
	// fork from r1
	r2b, err := w.apply(r1, 2, nil, map[uint64]uint64{6: 666})
	fmt.Println("r2b", r2b.String(), err)
	r3, err := w.apply(r2, 3, nil, map[uint64]uint64{8: 88})
	fmt.Println("r3", r3.String(), err)
	show := func(tag string) {
		for _, r := range []felt.StateRootHash{zero, r1, r2, r2b, r3} {
			fmt.Println(tag, short(r), "ct5", w.get(r, false, 5), "ct6", w.get(r, false, 6), "ct7", w.get(r, false, 7), "ct8", w.get(r, false, 8), "cl1", w.get(r, true, 1))
		}
	}
	show("before")
	fmt.Println("cap(r3,1):", capLayers(d, &r3, 1))
	show("after cap1")
	// same-root update (empty block)
	r3e, err := w.apply(r3, 4, nil, nil)
	fmt.Println("r3e==r3", r3e == r3, err)
	show("after empty")
	fmt.Println("journal", d.Journal(&r3), "close", d.Close())
	d2, err := pathdb.New(disk, nil)
	fmt.Println("reopen", err)
	w.d = d2
	show("reopened")
	r4, err := w.apply(r3, 5, nil, map[uint64]uint64{9: 99})
	fmt.Println("r4", r4.String(), err)
	fmt.Println("commit r4", d2.Commit(&r4))
	fmt.Println("r4: ct9", w.get(r4, false, 9), "ct5", w.get(r4, false, 5))
	// crash now (no journal): stale journal is still there
	d3, err := pathdb.New(disk, nil)
	fmt.Println("reopen after crash", err)
	w.d = d3
	show("after-crash")
	fmt.Println("r4: ct9", w.get(r4, false, 9), "ct8", w.get(r4, false, 8))
	fmt.Println("r3: ct9 (must be 0 or error)", w.get(r3, false, 9))

	// crash without any journal: fresh
	disk2 := memory.New()
	dd, _ := pathdb.New(disk2, nil)
	w2 := &pw{disk2, dd}
	q1, err := w2.apply(zero, 1, map[uint64]uint64{1: 11}, map[uint64]uint64{5: 55, 6: 66})
	fmt.Println("q1", q1.String(), err, "commit", dd.Commit(&q1))
	dd2, err := pathdb.New(disk2, nil)
	w2.d = dd2
	fmt.Println("reopen nojournal", err, "q1 ct5:", w2.get(q1, false, 5), " zero-root ct5:", w2.get(zero, false, 5))
	rd, err := dd2.NodeReader(trieutils.NewContractTrieID(zero))
	fmt.Println("reader at zero root:", rd != nil, err)
	if rd != nil {
		b, err := rd.Node(&felt.Address{}, &trieutils.Path{}, nil, false)
		fmt.Println("  root node under zero root:", len(b), err)
	}
}

func short(r felt.StateRootHash) string {
	s := r.String()
	if len(s) > 8 {
		return s[:8]
	}
	return s
}

func TestPathProbeRepeat(t *testing.T) {
	disk := memory.New()
	d, _ := pathdb.New(disk, nil)
	w := &pw{disk, d}
	var zero felt.StateRootHash
	r1, err := w.apply(zero, 1, map[uint64]uint64{1: 11}, map[uint64]uint64{5: 55})
	fmt.Println("r1", short(r1), err)
	r2, err := w.apply(r1, 2, nil, map[uint64]uint64{6: 66})
	fmt.Println("r2", short(r2), err)
	r1b, err := w.apply(r2, 3, nil, map[uint64]uint64{6: 0}) // revert of block 2
	fmt.Println("r1b", short(r1b), r1b == r1, err)
	r3, err := w.apply(r1b, 4, nil, map[uint64]uint64{7: 77})
	fmt.Println("r3", short(r3), err)
	fmt.Println("cap(r3,3)", capLayers(d, &r3, 3), "r3 ct7:", w.get(r3, false, 7))
	fmt.Println("cap(r3,2)", capLayers(d, &r3, 2), "r3 ct7:", w.get(r3, false, 7))
}

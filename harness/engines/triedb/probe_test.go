// TestTriedbProbe: directed replays of the minimal history of each deviation of pathdb from the
// repaired design of PathDB.tla, on the real code. The result tells the driver which model describes
// THIS code (the Fix* switches of the behaviours it generates) and reports each deviation that is
// present under its own key.
package triedb

import (
	"fmt"
	"testing"

	"github.com/NethermindEth/juno/core/felt"
	"github.com/NethermindEth/juno/core/trie2/triedb/pathdb"
	"github.com/NethermindEth/juno/core/trie2/trieutils"
	"github.com/NethermindEth/juno/db"
	"github.com/NethermindEth/juno/db/memory"

	"verifharness/internal/vh"
)

type probeInput struct {
	Probe string `json:"probe,omitempty"` // replay: only this one
}

type probeWorld struct {
	*world
	disk db.KeyValueStore
	pdb  *pathdb.Database
	n    int
}

func newProbeWorld() (*probeWorld, error) {
	v := smallVariant(3, 1, "memory")
	disk := memory.New()
	d, err := pathdb.New(disk, nil)
	if err != nil {
		return nil, err
	}
	return &probeWorld{world: newWorld(&v, 3), disk: disk, pdb: d}, nil
}

func (p *probeWorld) reopen() (err error) {
	p.pdb, err = pathdb.New(p.disk, nil)
	return err
}

// update builds the next state on `parent` through real tries and registers it; returns its info
func (p *probeWorld) update(parent *rootInfo, ch ...slot) (*rootInfo, error) {
	p.n++
	var pres []slot
	tmp := parent.clone(p.n)
	for _, c := range ch {
		if c.V == 0 {
			delete(tmp.kv[c.T], fmt.Sprint(c.K))
		} else {
			tmp.kv[c.T][fmt.Sprint(c.K)] = c.V
		}
	}
	for _, t := range trieNames {
		for _, kb := range p.allKeys {
			if x := tmp.kv[t][fmt.Sprint(kb)]; x != 0 {
				pres = append(pres, slot{T: t, K: kb, V: x})
			}
		}
	}
	ri, err := p.newRoot(p.n, parent, ch, pres, p.n)
	if err != nil {
		return nil, err
	}
	cm, err := p.applyChanges(p.pathOpener(p.pdb), parent, ch)
	if err != nil {
		return nil, err
	}
	pl := parent.label
	if err := p.pdb.Update(&cm.label, &pl, uint64(p.n), cm.classSet, cm.contracts, nil); err != nil {
		return nil, err
	}
	p.roots[p.n] = ri
	return ri, nil
}

func (p *probeWorld) served(ri *rootInfo) bool {
	_, err := p.pdb.NodeReader(p.trieID("ct", ri.label))
	return err == nil
}

func (p *probeWorld) get(ri *rootInfo, t string, k []int) string {
	tr, err := p.pathOpener(p.pdb)(t, ri)
	if err != nil {
		return "error: " + err.Error()
	}
	v, err := tr.Get(p.v.key(k))
	if err != nil {
		return "error: " + err.Error()
	}
	return v.String()
}

var (
	k000 = []int{0, 0, 0}
	k001 = []int{0, 0, 1}
	k110 = []int{1, 1, 0}
)

// probeDiskRoot: a committed state must be served under its root by the next process (no journal).
func probeDiskRoot() (present bool, d *vh.Divergence, err error) {
	p, err := newProbeWorld()
	if err != nil {
		return false, nil, err
	}
	r1, err := p.update(p.roots[0], slot{"cl", k000, 1}, slot{"ct", k001, 2}, slot{"s1", k110, 1})
	if err != nil {
		return false, nil, err
	}
	if err := p.pdb.Commit(&r1.label); err != nil {
		return false, nil, err
	}
	if err := p.reopen(); err != nil {
		return false, nil, err
	}
	if p.served(r1) && p.get(r1, "ct", k001) == p.v.value(2).String() {
		return false, nil, nil
	}
	zero := felt.StateRootHash{}
	_, zerr := p.pdb.NodeReader(trieutils.NewContractTrieID(zero))
	return true, &vh.Divergence{
		Key: "triedb:pathdb:reopen-without-journal:committed-root-not-served",
		What: "Update(r1) with class, contract and storage changes; Commit(r1); a new pathdb.New on the same disk without a journal (crash, or Close without " +
			"Journal): NodeReader(r1) fails with 'layer not found'. journal.go getStateRoot labels the disk layer with Poseidon(version, Pedersen-hash of the " +
			"contract root node, PEDERSEN-hash of the class root node) although the class trie is a Poseidon trie, and with 0 when either trie is empty: the " +
			"persisted state cannot be opened under its state root after a crash",
		Input: probeInput{Probe: "disk-root"}, Expected: "reader for " + r1.label.String(),
		Observed: fmt.Sprintf("layer not found (zero root registered: %v)", zerr == nil),
	}, nil
}

// probeStaleJournal: a journal of an earlier shutdown must not be loaded over a newer disk state.
func probeStaleJournal() (present bool, d *vh.Divergence, err error) {
	p, err := newProbeWorld()
	if err != nil {
		return false, nil, err
	}
	r1, err := p.update(p.roots[0], slot{"cl", k000, 1}, slot{"ct", k001, 1})
	if err != nil {
		return false, nil, err
	}
	if err := p.pdb.Commit(&r1.label); err != nil {
		return false, nil, err
	}
	if err := p.pdb.Journal(&r1.label); err != nil { // graceful shutdown
		return false, nil, err
	}
	_ = p.pdb.Close()
	if err := p.reopen(); err != nil {
		return false, nil, err
	}
	r2, err := p.update(r1, slot{"ct", k001, 2})
	if err != nil {
		return false, nil, err
	}
	if err := p.pdb.Commit(&r2.label); err != nil {
		return false, nil, err
	}
	// crash: no Journal. The journal of the first shutdown is still on disk.
	if err := p.reopen(); err != nil {
		return false, nil, err
	}
	if !p.served(r1) {
		return false, nil, nil
	}
	got := p.get(r1, "ct", k001)
	return true, &vh.Divergence{
		Key: "triedb:pathdb:stale-journal-loaded-after-crash:reads-mix-two-states",
		What: "Commit(r1); Journal(r1); Close; New; Update(r2 = r1 with one contract slot changed); Commit(r2); crash; New: the journal written at the FIRST " +
			"shutdown is still on disk (never deleted, never checked against the persisted state id) and is loaded: r1 is registered as the disk layer over the " +
			"nodes of r2, r2 (durably committed) is unknown, and Get under root r1 returns r2's value",
		Input: probeInput{Probe: "stale-journal"}, Expected: "r1 unknown or ct[001] = " + p.v.value(1).String() + " under r1; r2 served: true",
		Observed: fmt.Sprintf("ct[001] under r1 = %s (r2's value is %s); r2 served: %v", got, p.v.value(2).String(), p.served(r2)),
	}, nil
}

// probeRepeatedRoot: a root that occurs twice on the branch (block reverted, chain continued).
// Public API only: the flatten is the one Update runs itself at 128 layers.
func probeRepeatedRoot() (present bool, d *vh.Divergence, err error) {
	p, err := newProbeWorld()
	if err != nil {
		return false, nil, err
	}
	r1, err := p.update(p.roots[0], slot{"cl", k000, 1}, slot{"ct", k001, 1})
	if err != nil {
		return false, nil, err
	}
	r2, err := p.update(r1, slot{"ct", k110, 1})
	if err != nil {
		return false, nil, err
	}
	r1b, err := p.update(r2, slot{"ct", k110, 0}) // block 2 reverted: the state root of block 1 again
	if err != nil {
		return false, nil, err
	}
	if r1b.label != r1.label {
		return false, nil, fmt.Errorf("harness: reverted state has another root")
	}
	head := r1b
	for i := 0; i < 140; i++ {
		// all later states distinct: storage trie s1 holds the binary representation of i+1
		var ch []slot
		for b := 0; b < 8; b++ {
			was, is := (i>>b)&1, ((i+1)>>b)&1
			if was != is {
				ch = append(ch, slot{"s1", []int{(b >> 2) & 1, (b >> 1) & 1, b & 1}, is})
			}
		}
		next, err := p.update(head, ch...)
		if err != nil {
			return true, &vh.Divergence{
				Key: "triedb:pathdb:flatten-drops-kept-branch:root-repeated-on-branch",
				What: fmt.Sprintf("blocks 1, 2, revert of block 2 (state root of block 1 again), then %d more blocks, public API only: the next block cannot be built, "+
					"its parent - the head just registered by a successful Update - is gone: %v. layertree.go cap finds stale links by the ROOT HASH of the parent: the "+
					"entry of the repeated root is the flattened base, which goes stale at the next flatten, and every layer above the second occurrence is dropped", i, err),
				Input: probeInput{Probe: "repeated-root"}, Expected: "head readable after Update returned nil", Observed: err.Error(),
			}, nil
		}
		if !p.served(next) {
			return true, &vh.Divergence{
				Key: "triedb:pathdb:flatten-drops-kept-branch:root-repeated-on-branch",
				What: fmt.Sprintf("blocks 1, 2, revert of block 2 (state root of block 1 again), then %d more blocks, public API only: Update of the head returns nil "+
					"and the head is not registered any more (NodeReader: layer not found). layertree.go cap finds stale links by the ROOT HASH of the parent: the entry "+
					"of the repeated root is the flattened base, which goes stale at the next flatten, and every layer above the second occurrence is dropped", i+1),
				Input: probeInput{Probe: "repeated-root"}, Expected: "head readable after Update returned nil", Observed: "layer not found",
			}, nil
		}
		head = next
	}
	return false, nil, nil
}

func TestTriedbProbe(t *testing.T) {
	if !vh.Enabled() {
		t.Skip("driver only")
	}
	var in probeInput
	_ = vh.Input(&in)
	out := vh.NewResult()
	defer out.Write()
	probes := []struct {
		name, stat string
		run        func() (bool, *vh.Divergence, error)
	}{
		{"disk-root", "disk_root_defect", probeDiskRoot},
		{"stale-journal", "stale_journal_defect", probeStaleJournal},
		{"repeated-root", "repeated_root_defect", probeRepeatedRoot},
	}
	for _, pr := range probes {
		if in.Probe != "" && in.Probe != pr.name {
			continue
		}
		present, d, err := func() (present bool, d *vh.Divergence, err error) {
			defer func() {
				if p := recover(); p != nil {
					err = fmt.Errorf("panic: %v", p)
				}
			}()
			return pr.run()
		}()
		if err != nil {
			out.Diverge(vh.Divergence{Key: "triedb:pathdb:probe-failed:" + pr.name, What: "directed scenario " + pr.name + " fails on the real code: " + err.Error(),
				Input: probeInput{Probe: pr.name}})
			continue
		}
		out.Stats[pr.stat] = present
		if d != nil {
			out.Diverge(*d)
		}
		out.Done(1, 4)
	}
}

// empty: lets link.go declare a body-less function bound with go:linkname
